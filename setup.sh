#!/bin/bash
# Builds the harness binaries offline from files on disk.
set -e
cd "$(dirname "$0")"
export GOFLAGS=-mod=mod GOPROXY=off
unset GOTOOLCHAIN GOSUMDB 2>/dev/null || true
mkdir -p bin logs evidence replays
cd harness
go build -tags verif -o ../bin/verif ./cmd/verif
