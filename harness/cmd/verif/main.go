// Command verif is the runtime-monitoring harness: `verif check <id>`, `verif worker ...`, `verif replay`.
package main

import (
	"flag"
	"fmt"
	"os"
	"path/filepath"
	"strconv"
	"strings"

	"verif/harness/internal/checks"
	"verif/harness/internal/run"
	"verif/harness/internal/spec"
)

func envInt(name string, def int64) int64 {
	if v := os.Getenv(name); v != "" {
		if n, err := strconv.ParseInt(v, 10, 64); err == nil {
			return n
		}
	}
	return def
}

func main() {
	checks.RegisterAll()
	if len(os.Args) < 2 {
		fmt.Println("usage: verif check <id> [--tier quick|thorough] [--seed N] | worker ... | replay <id> <file> | list")
		os.Exit(2)
	}
	switch os.Args[1] {
	case "list":
		for _, id := range run.IDs() {
			fmt.Println(id)
		}
	case "show":
		show(os.Args[2:])
	case "check":
		fs := flag.NewFlagSet("check", flag.ExitOnError)
		tier := fs.String("tier", os.Getenv("VERIF_TIER"), "quick|thorough")
		seed := fs.Int64("seed", envInt("VERIF_SEED", 1), "seed")
		workers := fs.Int("workers", 0, "worker processes")
		only := fs.String("only", "", "comma separated case indices")
		max := fs.Int("max", 0, "limit number of cases")
		verifDir := fs.String("verif", "/verif", "verif dir")
		racePhase := fs.Bool("race-phase", false, "supplementary race-detector phase: merge into the existing evidence file")
		id := os.Args[2]
		_ = fs.Parse(os.Args[3:])
		if *tier == "" {
			*tier = "quick"
		}
		c, ok := run.Get(id)
		if !ok {
			fmt.Println("unknown check", id)
			os.Exit(2)
		}
		exe, _ := os.Executable()
		o := run.Options{Seed: *seed, Tier: *tier, Workers: *workers, VerifDir: *verifDir, Exe: exe, MaxCases: *max, RaceLog: os.Getenv("VERIF_RACE_LOG"), RacePhase: *racePhase}
		if *only != "" {
			for _, s := range strings.Split(*only, ",") {
				n, _ := strconv.Atoi(strings.TrimSpace(s))
				o.Only = append(o.Only, n)
			}
		}
		os.Exit(run.Coordinate(c, o))
	case "worker":
		fs := flag.NewFlagSet("worker", flag.ExitOnError)
		prop := fs.String("prop", "", "")
		tier := fs.String("tier", "quick", "")
		seed := fs.Int64("seed", 1, "")
		from := fs.Int("from", 0, "")
		to := fs.Int("to", 0, "")
		out := fs.String("out", "", "")
		work := fs.String("work", os.TempDir(), "")
		replays := fs.String("replays", "/verif/replays", "")
		_ = fs.Parse(os.Args[2:])
		c, ok := run.Get(*prop)
		if !ok {
			fmt.Println("unknown check", *prop)
			os.Exit(2)
		}
		env := &run.Env{WorkDir: *work, ReplayDir: *replays}
		if err := run.Worker(c, *seed, *tier, *from, *to, *out, env); err != nil {
			fmt.Fprintln(os.Stderr, "worker error:", err)
			os.Exit(3)
		}
	case "replay":
		// verif replay <id> <replay.json>: re-run the recorded case in-process and print violations
		if len(os.Args) < 4 {
			fmt.Println("usage: verif replay <id> <file>")
			os.Exit(2)
		}
		c, ok := run.Get(os.Args[2])
		if !ok {
			fmt.Println("unknown check", os.Args[2])
			os.Exit(2)
		}
		rp, ok := c.(interface {
			Replay(path string, env *run.Env) run.CaseResult
		})
		if !ok {
			fmt.Println("check does not support replay")
			os.Exit(2)
		}
		tmp, _ := os.MkdirTemp("", "verif-replay-")
		defer os.RemoveAll(tmp)
		rdir := filepath.Join(tmp, "replays")
		if d := os.Getenv("VERIF_KEEP"); d != "" { // keep the replay file written by this re-run
			rdir = d
		}
		res := rp.Replay(os.Args[3], &run.Env{WorkDir: tmp, ReplayDir: rdir, Verbose: true})
		if res.Replay != "" && os.Getenv("VERIF_KEEP") != "" {
			fmt.Println("new replay:", res.Replay)
		}
		for _, v := range res.Violations {
			fmt.Printf("violation oracle=%s sig=%s cycle=%d\n   %s\n", v.Oracle, v.Sig, v.Cycle, v.Msg)
		}
		fmt.Println("verdict:", res.Verdict, res.Note)
		if res.Verdict == run.Violated {
			fmt.Printf("VIOLATION property=%s replay=%s\n", os.Args[2], os.Args[3])
			os.Exit(1)
		}
	default:
		fmt.Println("unknown command", os.Args[1])
		os.Exit(2)
	}
	_ = spec.SchedulerName
}
