package main

import (
	"fmt"
	"os"
	"strconv"

	"verif/harness/internal/gen"
	"verif/harness/internal/k8sm"
	"verif/harness/internal/sched"
	"verif/harness/internal/store"
	"verif/harness/internal/world"
)

// show <profile> <seed> <idx>: print a generated case and what the scheduler does with it.
func show(args []string) {
	seed, _ := strconv.ParseInt(args[1], 10, 64)
	idx, _ := strconv.Atoi(args[2])
	c := gen.Generate(args[0], seed, idx, "quick")
	if args[0] == "contention" {
		c = gen.Contention(seed, idx, "quick")
	}
	if args[0] == "fragmented" {
		c = gen.Fragmented(seed, idx, "quick")
	}
	if n, err := strconv.Atoi(os.Getenv("VERIF_SHOW_CYCLES")); err == nil && n > 0 {
		c.Cycles = n
	}
	fmt.Printf("config: %+v\nfaults: %+v world: %+v cycles=%d\n", c.Config, c.Faults, c.World, c.Cycles)
	for _, n := range c.Objects.Nodes {
		fmt.Printf("node %s alloc=%v labels=%v taints=%v unsched=%v cond=%v\n", n.Name, k8sm.Allocatable(n), n.Labels, n.Spec.Taints, n.Spec.Unschedulable, n.Status.Conditions[0].Status)
	}
	for _, q := range c.Objects.Queues {
		fmt.Printf("queue %s parent=%q gpu=%+v cpu=%+v mem=%+v prio=%v\n", q.Name, q.Spec.ParentQueue, q.Spec.Resources.GPU, q.Spec.Resources.CPU, q.Spec.Resources.Memory, q.Spec.Priority)
	}
	for _, pg := range c.Objects.PodGroups {
		fmt.Printf("pg %s q=%s min=%d prio=%s preempt=%q subs=%v topo=%+v\n", pg.Name, pg.Spec.Queue, pg.Spec.MinMember, pg.Spec.PriorityClassName, pg.Spec.Preemptibility, pg.Spec.SubGroups, pg.Spec.TopologyConstraint)
	}
	for _, p := range c.Objects.Pods {
		fmt.Printf("pod %s/%s pg=%s node=%q phase=%s term=%v req=%v gpu=%+v labels=%v sel=%v\n", p.Namespace, p.Name, p.Annotations["pod-group-name"], p.Spec.NodeName, p.Status.Phase, p.DeletionTimestamp != nil, k8sm.PodRequest(p), k8sm.GPURequest(p), p.Labels, p.Spec.NodeSelector)
	}
	for _, b := range c.Objects.BindRequests {
		fmt.Printf("br %s node=%s groups=%v phase=%s\n", b.Name, b.Spec.SelectedNode, b.Spec.SelectedGPUGroups, b.Status.Phase)
	}
	for _, sl := range c.Objects.ResourceSlices {
		fmt.Printf("slice %s node=%s devices=%d\n", sl.Name, *sl.Spec.NodeName, len(sl.Spec.Devices))
	}
	for _, cl := range c.Objects.ResourceClaims {
		fmt.Printf("claim %s count=%d allocated=%v reservedFor=%d\n", cl.Name, cl.Spec.Devices.Requests[0].Exactly.Count, sched.DeviceIDs(cl.Status.Allocation), len(cl.Status.ReservedFor))
	}
	st := store.New()
	if err := st.Add(c.Objects.All()...); err != nil {
		fmt.Println("add:", err)
		os.Exit(1)
	}
	st.GracefulPods.Store(true)
	r, err := sched.NewRunner(st, c, gen.NewRand(seed, idx, 2), sched.Hooks{})
	if err != nil {
		fmt.Println(err)
		os.Exit(1)
	}
	w := world.New(st, gen.NewRand(seed, idx, 3), c.World)
	for i := 0; i < c.Cycles; i++ {
		cr := r.Cycle()
		fmt.Printf("--- cycle %d dur=%v panic=%q openErr=%q\n", cr.Cycle, cr.Dur, cr.Panic, cr.OpenErr)
		for _, e := range cr.Events {
			fmt.Printf("  %s %s %s -> %s groups=%v err=%q evict=%s/%s claims=%v\n", e.Action, e.Kind, e.Pod, e.Node, e.GPUGroups, e.Err, e.EvictAction, e.Preemptor, e.Claims)
		}
		after := st.ReadAll()
		for _, pg := range after.PodGroups {
			for _, sc := range pg.Status.SchedulingConditions {
				fmt.Printf("  pg %s unschedulable: %s\n", pg.Name, sc.Message)
			}
		}
		w.Step()
		for _, l := range w.Log {
			fmt.Println("  world:", l)
		}
	}
}
