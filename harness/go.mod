module verif/harness

go 1.24.4

require (
	github.com/NVIDIA/KAI-scheduler v0.0.0
	github.com/NVIDIA/gpu-operator v1.8.3-0.20250724212111-616690d88d86
	github.com/anishathalye/porcupine v1.3.0
	github.com/go-logr/logr v1.4.3
	github.com/prometheus-operator/prometheus-operator/pkg/apis/monitoring v0.88.0
	k8s.io/api v0.34.3
	k8s.io/apiextensions-apiserver v0.34.3
	k8s.io/apimachinery v0.34.3
	k8s.io/client-go v0.34.3
	k8s.io/klog/v2 v2.130.1
	k8s.io/kubernetes v1.34.2
	k8s.io/utils v0.0.0-20251002143259-bc988d571ff4
	sigs.k8s.io/controller-runtime v0.22.3
)

require (
	cel.dev/expr v0.24.0 // indirect
	github.com/NVIDIA/k8s-kata-manager v0.2.3 // indirect
	github.com/NVIDIA/k8s-operator-libs v0.0.0-20250311214045-7d667fbaa7ac // indirect
	github.com/antlr4-go/antlr/v4 v4.13.1 // indirect
	github.com/aptible/supercronic v0.2.33 // indirect
	github.com/awslabs/operatorpkg v0.0.0-20241205163410-0fff9f28d115 // indirect
	github.com/beorn7/perks v1.0.1 // indirect
	github.com/blang/semver/v4 v4.0.0 // indirect
	github.com/cenkalti/backoff/v4 v4.3.0 // indirect
	github.com/cespare/xxhash/v2 v2.3.0 // indirect
	github.com/cyphar/filepath-securejoin v0.6.0 // indirect
	github.com/davecgh/go-spew v1.1.2-0.20180830191138-d8f796af33cc // indirect
	github.com/distribution/reference v0.6.0 // indirect
	github.com/dustin/go-humanize v1.0.1 // indirect
	github.com/emicklei/go-restful/v3 v3.12.2 // indirect
	github.com/evanphx/json-patch/v5 v5.9.11 // indirect
	github.com/felixge/httpsnoop v1.0.4 // indirect
	github.com/fsnotify/fsnotify v1.9.0 // indirect
	github.com/fxamacker/cbor/v2 v2.9.0 // indirect
	github.com/go-logr/stdr v1.2.2 // indirect
	github.com/go-openapi/jsonpointer v0.21.1 // indirect
	github.com/go-openapi/jsonreference v0.21.0 // indirect
	github.com/go-openapi/swag v0.23.1 // indirect
	github.com/gogo/protobuf v1.3.2 // indirect
	github.com/google/btree v1.1.3 // indirect
	github.com/google/cel-go v0.26.0 // indirect
	github.com/google/gnostic-models v0.7.0 // indirect
	github.com/google/go-cmp v0.7.0 // indirect
	github.com/google/uuid v1.6.0 // indirect
	github.com/gorilla/websocket v1.5.4-0.20250319132907-e064f32e3674 // indirect
	github.com/grpc-ecosystem/grpc-gateway/v2 v2.26.3 // indirect
	github.com/josharian/intern v1.0.0 // indirect
	github.com/json-iterator/go v1.1.12 // indirect
	github.com/kubeflow/training-operator v1.9.3 // indirect
	github.com/mailru/easyjson v0.9.0 // indirect
	github.com/mitchellh/hashstructure/v2 v2.0.2 // indirect
	github.com/moby/spdystream v0.5.0 // indirect
	github.com/moby/sys/mountinfo v0.7.2 // indirect
	github.com/modern-go/concurrent v0.0.0-20180306012644-bacd9c7ef1dd // indirect
	github.com/modern-go/reflect2 v1.0.3-0.20250322232337-35a7c28c31ee // indirect
	github.com/munnerz/goautoneg v0.0.0-20191010083416-a7dc8b61c822 // indirect
	github.com/mxk/go-flowrate v0.0.0-20140419014527-cca7078d478f // indirect
	github.com/opencontainers/go-digest v1.0.0 // indirect
	github.com/opencontainers/selinux v1.13.0 // indirect
	github.com/pkg/errors v0.9.1 // indirect
	github.com/pmezard/go-difflib v1.0.1-0.20181226105442-5d4384ee4fb2 // indirect
	github.com/prometheus/client_golang v1.23.2 // indirect
	github.com/prometheus/client_model v0.6.2 // indirect
	github.com/prometheus/common v0.66.1 // indirect
	github.com/prometheus/procfs v0.16.1 // indirect
	github.com/ray-project/kuberay/ray-operator v1.4.2 // indirect
	github.com/robfig/cron/v3 v3.0.1 // indirect
	github.com/samber/lo v1.47.0 // indirect
	github.com/sirupsen/logrus v1.9.3 // indirect
	github.com/spf13/cobra v1.10.1 // indirect
	github.com/spf13/pflag v1.0.10 // indirect
	github.com/stoewer/go-strcase v1.3.0 // indirect
	github.com/stretchr/testify v1.11.1 // indirect
	github.com/x448/float16 v0.8.4 // indirect
	github.com/xhit/go-str2duration/v2 v2.1.0 // indirect
	go.opentelemetry.io/auto/sdk v1.2.1 // indirect
	go.opentelemetry.io/contrib/instrumentation/google.golang.org/grpc/otelgrpc v0.60.0 // indirect
	go.opentelemetry.io/contrib/instrumentation/net/http/otelhttp v0.59.0 // indirect
	go.opentelemetry.io/otel v1.40.0 // indirect
	go.opentelemetry.io/otel/exporters/otlp/otlptrace v1.34.0 // indirect
	go.opentelemetry.io/otel/exporters/otlp/otlptrace/otlptracegrpc v1.34.0 // indirect
	go.opentelemetry.io/otel/metric v1.40.0 // indirect
	go.opentelemetry.io/otel/sdk v1.40.0 // indirect
	go.opentelemetry.io/otel/trace v1.40.0 // indirect
	go.opentelemetry.io/proto/otlp v1.5.0 // indirect
	go.uber.org/mock v0.6.0 // indirect
	go.uber.org/multierr v1.11.0 // indirect
	go.uber.org/zap v1.27.0 // indirect
	go.yaml.in/yaml/v2 v2.4.3 // indirect
	go.yaml.in/yaml/v3 v3.0.4 // indirect
	golang.org/x/exp v0.0.0-20250305212735-054e65f0b394 // indirect
	golang.org/x/mod v0.29.0 // indirect
	golang.org/x/net v0.47.0 // indirect
	golang.org/x/oauth2 v0.30.0 // indirect
	golang.org/x/sync v0.18.0 // indirect
	golang.org/x/sys v0.40.0 // indirect
	golang.org/x/term v0.37.0 // indirect
	golang.org/x/text v0.31.0 // indirect
	golang.org/x/time v0.11.0 // indirect
	gomodules.xyz/jsonpatch/v2 v2.5.0 // indirect
	google.golang.org/genproto/googleapis/api v0.0.0-20250303144028-a0af3efb3deb // indirect
	google.golang.org/genproto/googleapis/rpc v0.0.0-20250313205543-e70fdf4c4cb4 // indirect
	google.golang.org/grpc v1.72.1 // indirect
	google.golang.org/protobuf v1.36.8 // indirect
	gopkg.in/evanphx/json-patch.v4 v4.12.0 // indirect
	gopkg.in/inf.v0 v0.9.1 // indirect
	gopkg.in/yaml.v3 v3.0.1 // indirect
	k8s.io/apiserver v0.34.3 // indirect
	k8s.io/cli-runtime v0.34.1 // indirect
	k8s.io/cloud-provider v0.34.1 // indirect
	k8s.io/cluster-bootstrap v0.34.1 // indirect
	k8s.io/component-base v0.34.3 // indirect
	k8s.io/component-helpers v0.34.1 // indirect
	k8s.io/controller-manager v0.34.1 // indirect
	k8s.io/cri-api v0.34.1 // indirect
	k8s.io/cri-client v0.34.1 // indirect
	k8s.io/csi-translation-lib v0.34.1 // indirect
	k8s.io/dynamic-resource-allocation v0.34.1 // indirect
	k8s.io/endpointslice v0.34.2 // indirect
	k8s.io/externaljwt v0.34.1 // indirect
	k8s.io/kube-aggregator v0.34.1 // indirect
	k8s.io/kube-controller-manager v0.34.1 // indirect
	k8s.io/kube-openapi v0.0.0-20250710124328-f3f2b991d03b // indirect
	k8s.io/kube-proxy v0.34.1 // indirect
	k8s.io/kube-scheduler v0.34.1 // indirect
	k8s.io/kubectl v0.34.1 // indirect
	k8s.io/kubelet v0.34.1 // indirect
	k8s.io/metrics v0.34.1 // indirect
	k8s.io/mount-utils v0.34.1 // indirect
	k8s.io/pod-security-admission v0.34.1 // indirect
	k8s.io/sample-apiserver v0.34.1 // indirect
	knative.dev/pkg v0.0.0-20250117084104-c43477f0052b // indirect
	sigs.k8s.io/json v0.0.0-20250730193827-2d320260d730 // indirect
	sigs.k8s.io/karpenter v1.2.0 // indirect
	sigs.k8s.io/lws v0.7.0 // indirect
	sigs.k8s.io/randfill v1.0.0 // indirect
	sigs.k8s.io/structured-merge-diff/v6 v6.3.0 // indirect
	sigs.k8s.io/yaml v1.6.0 // indirect
)

replace github.com/NVIDIA/KAI-scheduler => /repo
