package c11

import (
	"bytes"
	"context"
	"fmt"
	goruntime "runtime"
	"sort"
	"strconv"
	"strings"
	"sync"
	"time"

	"github.com/go-logr/logr"
	v1 "k8s.io/api/core/v1"
	resourceapi "k8s.io/api/resource/v1"
	apierrors "k8s.io/apimachinery/pkg/api/errors"
	"k8s.io/apimachinery/pkg/runtime"
	"k8s.io/apimachinery/pkg/runtime/schema"
	"k8s.io/apimachinery/pkg/types"
	"k8s.io/apimachinery/pkg/watch"
	"k8s.io/client-go/informers"
	"k8s.io/client-go/kubernetes/fake"
	k8stesting "k8s.io/client-go/testing"
	"k8s.io/client-go/tools/record"
	"k8s.io/klog/v2"
	ctrl "sigs.k8s.io/controller-runtime"
	"sigs.k8s.io/controller-runtime/pkg/client"
	crfake "sigs.k8s.io/controller-runtime/pkg/client/fake"
	"sigs.k8s.io/controller-runtime/pkg/client/interceptor"
	"sigs.k8s.io/controller-runtime/pkg/event"
	crlog "sigs.k8s.io/controller-runtime/pkg/log"

	schedulingv1alpha2 "github.com/NVIDIA/KAI-scheduler/pkg/apis/scheduling/v1alpha2"
	"github.com/NVIDIA/KAI-scheduler/pkg/binder/binding"
	"github.com/NVIDIA/KAI-scheduler/pkg/binder/binding/resourcereservation"
	"github.com/NVIDIA/KAI-scheduler/pkg/binder/controllers"
	binderplugins "github.com/NVIDIA/KAI-scheduler/pkg/binder/plugins"
	bindergpu "github.com/NVIDIA/KAI-scheduler/pkg/binder/plugins/gpusharing"
	k8splugins "github.com/NVIDIA/KAI-scheduler/pkg/binder/plugins/k8s-plugins"
	draversionawareclient "github.com/NVIDIA/KAI-scheduler/pkg/common/resources/dra_version_aware_client"

	"verif/harness/internal/spec"
	"verif/harness/internal/store"
)

const (
	nodeA   = "node-a"
	nodeB   = "node-b"
	nsT     = "team-a" // namespace of the pod under test
	nsB     = "team-b" // namespace of bystander consumers
	resNS   = spec.ReservationNS
	scaleNS = "kai-scale-adjust"
	gpuRes  = v1.ResourceName("nvidia.com/gpu")

	groupLabel       = "runai-gpu-group"
	groupLabelPrefix = "runai-gpu-group/"
	idxAnnot         = spec.GpuIndexAnnot
	cmPrefixAnnot    = "runai/shared-gpu-configmap"
	recvTypeAnnot    = "received-resource-type"
	fracContAnnot    = "gpu-fraction-container-name"
	cdiFmt           = "k8s.device-plugin.nvidia.com/gpu=%s"

	allocationTimeout = 400 * time.Millisecond
)

var logOnce sync.Once

func quietLogs() {
	logOnce.Do(func() {
		crlog.SetLogger(logr.Discard())
		klog.SetLogger(logr.Discard())
	})
}

// ---------------------------------------------------------------- call gate (counting + fault injection)

type callRec struct {
	Kind    string `json:"kind"`
	Mut     bool   `json:"mut,omitempty"`
	Faulted bool   `json:"faulted,omitempty"`
}

// plan is the fault plan of one reconcile: ERROR at the listed call indices (1-based; the call is not applied and
// returns an error) and CRASH from index crashAt on (that call and every later one fail and are not applied).
type plan struct {
	ErrAt   []int `json:"errAt,omitempty"`
	CrashAt int   `json:"crashAt,omitempty"`
}

func (p plan) mode() string {
	m := strings.Repeat("e", len(p.ErrAt))
	if p.CrashAt > 0 {
		m += "c"
	}
	if m == "" {
		return "none"
	}
	return m
}

// gate sees every client call of the system under test (controller-runtime client and clientset).
type gate struct {
	mu     sync.Mutex
	active bool
	n      int
	pl     plan
	log    []callRec
}

func (g *gate) begin(pl plan) {
	g.mu.Lock()
	g.active, g.n, g.pl, g.log = true, 0, pl, nil
	g.mu.Unlock()
}

func (g *gate) end() []callRec {
	g.mu.Lock()
	defer g.mu.Unlock()
	g.active = false
	return g.log
}

func (g *gate) enter(kind string, mut bool) error {
	g.mu.Lock()
	defer g.mu.Unlock()
	if !g.active {
		return nil
	}
	g.n++
	if strings.Contains(kind, "resourceclaim") && inUnAllocate() {
		kind += "-unallocate" // the same calls are made by Bind and by the rollback (UnAllocate) of the DRA plugin
	}
	f := g.pl.CrashAt > 0 && g.n >= g.pl.CrashAt
	for _, k := range g.pl.ErrAt {
		if k == g.n {
			f = true
		}
	}
	g.log = append(g.log, callRec{Kind: kind, Mut: mut, Faulted: f})
	if f {
		return apierrors.NewInternalError(fmt.Errorf("verif: injected fault at client call %d (%s)", g.n, kind))
	}
	return nil
}

// inUnAllocate reports whether the calling goroutine is inside the DRA plugin's UnAllocate (rollback step).
func inUnAllocate() bool {
	pcs := make([]uintptr, 64)
	n := goruntime.Callers(2, pcs)
	frames := goruntime.CallersFrames(pcs[:n])
	for {
		fr, more := frames.Next()
		if strings.Contains(fr.Function, "dynamicResourcesPlugin).UnAllocate") {
			return true
		}
		if !more {
			return false
		}
	}
}

// ---------------------------------------------------------------- world = one in-memory API store

// world is one API store plus what a cluster does and KAI does not: the API server's pods/binding sub-resource and
// initial watch events, and the kubelet/device plugin that tells a reservation pod which device it got.
type world struct {
	st      *store.Store
	raw     client.WithWatch // harness' own access, never counted, never faulted
	infKube *fake.Clientset  // clientset of the informer caches (same tracker; background traffic is not a fault point)
	g       *gate
	cdi     bool

	mu            sync.Mutex
	bindApplied   int
	bindTargets   []string
	watchTimeouts int
}

var podsGR = schema.GroupResource{Resource: "pods"}

func newWorld(objs []client.Object, cdi bool) (*world, error) {
	quietLogs()
	w := &world{st: store.New(), g: &gate{}, cdi: cdi}
	w.raw = crfake.NewClientBuilder().WithScheme(w.st.Scheme).WithObjectTracker(w.st.Tracker).
		WithStatusSubresource(&schedulingv1alpha2.BindRequest{}, &v1.Pod{}).
		// cmd/binder/app createIndexesForResourceReservation
		WithIndex(&v1.Pod{}, "spec.nodeName", func(o client.Object) []string {
			if n := o.(*v1.Pod).Spec.NodeName; n != "" {
				return []string{n}
			}
			return nil
		}).
		WithIndex(&v1.Pod{}, "metadata.labels."+groupLabel, func(o client.Object) []string {
			if g, ok := o.(*v1.Pod).Labels[groupLabel]; ok {
				return []string{g}
			}
			return nil
		}).Build()
	for _, o := range objs {
		c := o.DeepCopyObject().(client.Object)
		c.SetResourceVersion("")
		if err := w.raw.Create(context.Background(), c); err != nil {
			return nil, fmt.Errorf("harness: cannot store %T %s/%s: %w", o, o.GetNamespace(), o.GetName(), err)
		}
	}
	// clientset used by the k8s-plugins (DRA): every action goes through the gate
	w.st.AddHook(func(_ string, a k8stesting.Action) (bool, runtime.Object, error) {
		verb := a.GetVerb()
		mut := verb == "create" || verb == "update" || verb == "patch" || verb == "delete" || verb == "delete-collection"
		kind := verb + "-" + strings.TrimSuffix(a.GetResource().Resource, "s")
		if sub := a.GetSubresource(); sub != "" {
			kind += "-" + sub
		}
		if err := w.g.enter(kind, mut); err != nil {
			return true, nil, err
		}
		return false, nil, nil
	})
	w.infKube = fake.NewSimpleClientset()
	w.infKube.PrependReactor("*", "*", k8stesting.ObjectReaction(w.st.Tracker))
	w.infKube.PrependWatchReactor("*", func(a k8stesting.Action) (bool, watch.Interface, error) {
		wi, err := w.st.Tracker.Watch(a.GetResource(), a.GetNamespace())
		return true, wi, err
	})
	return w, nil
}

// dump returns every object of the kinds the binder touches (deep copies, resourceVersion kept).
func (w *world) dump() []client.Object {
	ctx := context.Background()
	var out []client.Object
	nodes := &v1.NodeList{}
	_ = w.raw.List(ctx, nodes)
	for i := range nodes.Items {
		out = append(out, &nodes.Items[i])
	}
	pods := &v1.PodList{}
	_ = w.raw.List(ctx, pods)
	for i := range pods.Items {
		out = append(out, &pods.Items[i])
	}
	cms := &v1.ConfigMapList{}
	_ = w.raw.List(ctx, cms)
	for i := range cms.Items {
		out = append(out, &cms.Items[i])
	}
	claims := &resourceapi.ResourceClaimList{}
	_ = w.raw.List(ctx, claims)
	for i := range claims.Items {
		out = append(out, &claims.Items[i])
	}
	brs := &schedulingv1alpha2.BindRequestList{}
	_ = w.raw.List(ctx, brs)
	for i := range brs.Items {
		out = append(out, &brs.Items[i])
	}
	return out
}

// clone copies the current content into a new, independent world (same API-server/kubelet behaviour).
func (w *world) clone() (*world, error) {
	return newWorld(w.dump(), w.cdi)
}

// kubeletIndex: the device plugin gives a new reservation pod the lowest device index of the node that no other
// reservation pod on that node holds.
func (w *world) kubeletIndex(node string) string {
	pods := &v1.PodList{}
	_ = w.raw.List(context.Background(), pods, client.InNamespace(resNS))
	used := map[string]bool{}
	for i := range pods.Items {
		if pods.Items[i].Spec.NodeName == node {
			used[pods.Items[i].Annotations[idxAnnot]] = true
		}
	}
	for i := 0; ; i++ {
		if s := strconv.Itoa(i); !used[s] {
			return s
		}
	}
}

func objKind(o runtime.Object) string {
	switch x := o.(type) {
	case *v1.Pod:
		if x.Namespace == resNS {
			return "reservation-pod"
		}
		return "pod"
	case *v1.PodList:
		return "pods"
	case *v1.Node:
		return "node"
	case *v1.ConfigMap:
		if strings.HasSuffix(x.Name, "-evar") {
			return "configmap-evar"
		}
		return "configmap"
	case *schedulingv1alpha2.BindRequest:
		return "bindrequest"
	case *resourceapi.ResourceClaim:
		return "resourceclaim"
	}
	return strings.ToLower(strings.TrimPrefix(fmt.Sprintf("%T", o), "*v1."))
}

func listKind(list client.ObjectList, opts []client.ListOption) string {
	lo := client.ListOptions{}
	lo.ApplyOptions(opts)
	k := "list-" + objKind(list)
	if _, ok := list.(*v1.PodList); !ok {
		return k
	}
	switch {
	case lo.Namespace == resNS:
		return "list-reservation-pods"
	case lo.Namespace == scaleNS:
		return "list-scaling-pods"
	case lo.FieldSelector != nil && !lo.FieldSelector.Empty():
		return "list-pods-of-node"
	case lo.LabelSelector != nil && strings.Contains(lo.LabelSelector.String(), groupLabelPrefix):
		return "list-pods-of-multigroup"
	case lo.LabelSelector != nil && strings.Contains(lo.LabelSelector.String(), groupLabel+"="):
		return "list-pods-of-group"
	case lo.LabelSelector != nil && strings.Contains(lo.LabelSelector.String(), groupLabel):
		return "list-pods-labelled"
	}
	return k
}

func patchKind(obj client.Object, p client.Patch) string {
	k := "patch-" + objKind(obj)
	if pod, ok := obj.(*v1.Pod); ok && pod.Namespace != resNS {
		data, _ := p.Data(obj)
		switch {
		case p.Type() == types.JSONPatchType:
			return "patch-pod-remove-gpugroup-labels"
		case bytes.Contains(data, []byte(groupLabel)):
			return "patch-pod-gpugroup-label"
		case bytes.Contains(data, []byte(recvTypeAnnot)):
			return "patch-pod-annotation"
		case string(bytes.TrimSpace(data)) == "{}":
			return "patch-pod-gpugroup-label-unchanged" // the label patch of a pod that already carries the label
		}
	}
	return k
}

func (w *world) funcs() interceptor.Funcs {
	g := w.g
	return interceptor.Funcs{
		Get: func(ctx context.Context, c client.WithWatch, key client.ObjectKey, obj client.Object, opts ...client.GetOption) error {
			if err := g.enter("get-"+objKind(obj), false); err != nil {
				return err
			}
			return c.Get(ctx, key, obj, opts...)
		},
		List: func(ctx context.Context, c client.WithWatch, list client.ObjectList, opts ...client.ListOption) error {
			if err := g.enter(listKind(list, opts), false); err != nil {
				return err
			}
			return c.List(ctx, list, opts...)
		},
		Create: func(ctx context.Context, c client.WithWatch, obj client.Object, opts ...client.CreateOption) error {
			if err := g.enter("create-"+objKind(obj), true); err != nil {
				return err
			}
			if p, ok := obj.(*v1.Pod); ok && p.Namespace == resNS {
				// kubelet + reservation pod: the pod reports the index of the device it was given
				if p.Annotations == nil {
					p.Annotations = map[string]string{}
				}
				p.Annotations[idxAnnot] = w.kubeletIndex(p.Spec.NodeName)
				p.Status.Phase = v1.PodRunning
			}
			return c.Create(ctx, obj, opts...)
		},
		Delete: func(ctx context.Context, c client.WithWatch, obj client.Object, opts ...client.DeleteOption) error {
			if err := g.enter("delete-"+objKind(obj), true); err != nil {
				return err
			}
			return c.Delete(ctx, obj, opts...)
		},
		DeleteAllOf: func(ctx context.Context, c client.WithWatch, obj client.Object, opts ...client.DeleteAllOfOption) error {
			if err := g.enter("deleteallof-"+objKind(obj), true); err != nil {
				return err
			}
			return c.DeleteAllOf(ctx, obj, opts...)
		},
		Update: func(ctx context.Context, c client.WithWatch, obj client.Object, opts ...client.UpdateOption) error {
			if err := g.enter("update-"+objKind(obj), true); err != nil {
				return err
			}
			return c.Update(ctx, obj, opts...)
		},
		Patch: func(ctx context.Context, c client.WithWatch, obj client.Object, p client.Patch, opts ...client.PatchOption) error {
			if err := g.enter(patchKind(obj, p), true); err != nil {
				return err
			}
			return c.Patch(ctx, obj, p, opts...)
		},
		Apply: func(ctx context.Context, c client.WithWatch, obj runtime.ApplyConfiguration, opts ...client.ApplyOption) error {
			if err := g.enter("apply", true); err != nil {
				return err
			}
			return c.Apply(ctx, obj, opts...)
		},
		// API server: a watch without resourceVersion starts with ADDED events for the existing objects
		Watch: func(ctx context.Context, c client.WithWatch, list client.ObjectList, opts ...client.ListOption) (watch.Interface, error) {
			kind := "watch-" + objKind(list)
			lo := client.ListOptions{}
			lo.ApplyOptions(opts)
			if lo.Namespace == resNS {
				kind = "watch-reservation-pod"
			}
			if err := g.enter(kind, false); err != nil {
				return nil, err
			}
			pods := &v1.PodList{}
			if err := c.List(ctx, pods, client.InNamespace(lo.Namespace)); err != nil {
				return nil, err
			}
			fw := watch.NewFakeWithChanSize(len(pods.Items)+1, false)
			n := 0
			for i := range pods.Items {
				p := &pods.Items[i]
				if lo.FieldSelector != nil {
					if name, ok := lo.FieldSelector.RequiresExactMatch("metadata.name"); ok && name != p.Name {
						continue
					}
				}
				fw.Add(p)
				n++
			}
			if n == 0 {
				w.mu.Lock()
				w.watchTimeouts++
				w.mu.Unlock()
			}
			return fw, nil
		},
		SubResourceGet: func(ctx context.Context, c client.Client, sub string, obj client.Object, subObj client.Object, opts ...client.SubResourceGetOption) error {
			if err := g.enter("get-"+objKind(obj)+"-"+sub, false); err != nil {
				return err
			}
			return c.SubResource(sub).Get(ctx, obj, subObj, opts...)
		},
		SubResourceCreate: func(ctx context.Context, c client.Client, sub string, obj client.Object, subObj client.Object, opts ...client.SubResourceCreateOption) error {
			if sub != "binding" {
				if err := g.enter("create-"+objKind(obj)+"-"+sub, true); err != nil {
					return err
				}
				return c.SubResource(sub).Create(ctx, obj, subObj, opts...)
			}
			if err := g.enter("binding-subresource", true); err != nil {
				return err
			}
			return w.applyBinding(ctx, obj, subObj)
		},
		SubResourceUpdate: func(ctx context.Context, c client.Client, sub string, obj client.Object, opts ...client.SubResourceUpdateOption) error {
			if err := g.enter(subKind("update", obj, sub), true); err != nil {
				return err
			}
			return c.SubResource(sub).Update(ctx, obj, opts...)
		},
		SubResourcePatch: func(ctx context.Context, c client.Client, sub string, obj client.Object, p client.Patch, opts ...client.SubResourcePatchOption) error {
			if err := g.enter(subKind("patch", obj, sub), true); err != nil {
				return err
			}
			return c.SubResource(sub).Patch(ctx, obj, p, opts...)
		},
	}
}

func subKind(verb string, obj client.Object, sub string) string {
	if _, ok := obj.(*schedulingv1alpha2.BindRequest); ok && sub == "status" {
		return "status-" + verb // the BindRequest status write
	}
	return objKind(obj) + "-" + sub + "-" + verb
}

// applyBinding is the API server's pods/binding: it assigns spec.nodeName once and refuses a second assignment.
func (w *world) applyBinding(ctx context.Context, obj client.Object, subObj client.Object) error {
	bd, ok := subObj.(*v1.Binding)
	if !ok {
		return apierrors.NewBadRequest(fmt.Sprintf("binding sub-resource: unexpected body %T", subObj))
	}
	pod := &v1.Pod{}
	if err := w.raw.Get(ctx, client.ObjectKeyFromObject(obj), pod); err != nil {
		return err
	}
	if bd.UID != "" && bd.UID != pod.UID {
		return apierrors.NewConflict(podsGR, pod.Name, fmt.Errorf("precondition failed: uid %q != %q", bd.UID, pod.UID))
	}
	if pod.Spec.NodeName != "" {
		return apierrors.NewConflict(podsGR, pod.Name, fmt.Errorf("pod %s is already assigned to node %q", pod.Name, pod.Spec.NodeName))
	}
	if pod.DeletionTimestamp != nil {
		return apierrors.NewConflict(podsGR, pod.Name, fmt.Errorf("pod %s is being deleted, cannot be assigned to a host", pod.Name))
	}
	pod.Spec.NodeName = bd.Target.Name
	if err := w.raw.Update(ctx, pod); err != nil {
		return err
	}
	w.mu.Lock()
	w.bindApplied++
	w.bindTargets = append(w.bindTargets, bd.Target.Name)
	w.mu.Unlock()
	return nil
}

// ---------------------------------------------------------------- proc = one binder process

// proc is one binder "process": cmd/binder's wiring (app.New + registerPlugins + app.Run) without a manager:
// resource-reservation service, k8s-plugins (volume binding + DRA) on the clientset and an informer factory,
// gpusharing plugin, binding.Binder, BindRequestReconciler. All in-memory state (group mutex, plugin state) lives
// and dies with it.
type proc struct {
	w       *world
	cl      client.WithWatch
	rrs     resourcereservation.Interface
	rec     *controllers.BindRequestReconciler
	stop    chan struct{}
	factory informers.SharedInformerFactory
}

func (w *world) newProc() (*proc, error) {
	p := &proc{w: w, stop: make(chan struct{})}
	p.cl = interceptor.NewClient(w.raw, w.funcs())
	p.rrs = resourcereservation.NewService(false, p.cl, "reservation-img", allocationTimeout, resNS, "sa",
		spec.ReservationApp, scaleNS, "", nil)
	kubeClient := draversionawareclient.NewDRAAwareClient(w.st.Kube)
	p.factory = informers.NewSharedInformerFactory(w.infKube, 0)
	pl := binderplugins.New()
	k8s, err := k8splugins.New(kubeClient, p.factory, 1)
	if err != nil {
		return nil, fmt.Errorf("k8s-plugins cannot be constructed offline: %w", err)
	}
	pl.RegisterPlugin(k8s)
	pl.RegisterPlugin(bindergpu.New(p.cl, w.cdi))
	b := binding.NewBinder(p.cl, p.rrs, pl)
	p.factory.Start(p.stop)
	p.rec = controllers.NewBindRequestReconciler(p.cl, w.st.Scheme, &record.FakeRecorder{},
		&controllers.ReconcilerParams{MaxConcurrentReconciles: 1, RateLimiterBaseDelaySeconds: 1, RateLimiterMaxDelaySeconds: 1},
		b, p.rrs)
	return p, nil
}

func (p *proc) close() {
	close(p.stop)
	p.factory.Shutdown()
}

type recResult struct {
	Requeue time.Duration
	Err     string
	Panic   string
	Log     []callRec
}

func (r *recResult) mutKinds() []string {
	var out []string
	for _, c := range r.Log {
		if c.Mut {
			out = append(out, c.Kind)
		}
	}
	return out
}

// faultKinds names the calls the plan hit: the call at every ERROR index and the first call of the CRASH.
func (r *recResult) faultKinds(pl plan) []string {
	var out []string
	at := func(k int) string {
		if k >= 1 && k <= len(r.Log) {
			return r.Log[k-1].Kind
		}
		return "beyond-last-call"
	}
	for _, k := range pl.ErrAt {
		out = append(out, at(k))
	}
	if pl.CrashAt > 0 {
		out = append(out, at(pl.CrashAt))
	}
	return out
}

// guarded runs SUT code with the gate open under plan pl.
func (p *proc) guarded(pl plan, f func() (ctrl.Result, error)) (res recResult) {
	p.w.g.begin(pl)
	func() {
		defer func() {
			if r := recover(); r != nil {
				res.Panic = fmt.Sprint(r)
			}
		}()
		out, err := f()
		res.Requeue = out.RequeueAfter
		if err != nil {
			res.Err = err.Error()
		}
	}()
	res.Log = p.w.g.end()
	return res
}

func (p *proc) reconcile(pl plan, br *schedulingv1alpha2.BindRequest) recResult {
	return p.guarded(pl, func() (ctrl.Result, error) {
		return p.rec.Reconcile(context.Background(), ctrl.Request{NamespacedName: client.ObjectKeyFromObject(br)})
	})
}

func (p *proc) sync() recResult {
	return p.guarded(plan{}, func() (ctrl.Result, error) { return ctrl.Result{}, p.rrs.Sync(context.Background()) })
}

// schedulerDeletes plays the scheduler deleting a BindRequest: the object goes away and the binder's real delete
// handler (which syncs the request's GPU groups) gets the event.
func (p *proc) schedulerDeletes(br *schedulingv1alpha2.BindRequest) recResult {
	cur := &schedulingv1alpha2.BindRequest{}
	if err := p.w.raw.Get(context.Background(), client.ObjectKeyFromObject(br), cur); err != nil {
		return recResult{Err: "harness: " + err.Error()}
	}
	_ = p.w.raw.Delete(context.Background(), cur)
	return p.guarded(plan{}, func() (ctrl.Result, error) {
		p.rec.VerifEventHandlers().DeleteFunc(context.Background(), event.DeleteEvent{Object: cur}, nil)
		return ctrl.Result{}, nil
	})
}

func sortedKeys[V any](m map[string]V) []string {
	ks := make([]string, 0, len(m))
	for k := range m {
		ks = append(ks, k)
	}
	sort.Strings(ks)
	return ks
}
