package c11

import (
	"fmt"
	"os"
	"testing"

	"github.com/go-logr/logr/funcr"
	crlog "sigs.k8s.io/controller-runtime/pkg/log"
)

func TestDebug(t *testing.T) {
	logOnce.Do(func() {})
	crlog.SetLogger(funcr.New(func(prefix, args string) { fmt.Fprintln(os.Stderr, "LOG", prefix, args) }, funcr.Options{}))
	v, err := genVariant(1, 13, "quick")
	if err != nil {
		t.Fatal(err)
	}
	w, _ := newWorld(v.Objs, v.Cdi)
	p, _ := w.newProc()
	r := p.reconcile(plan{ErrAt: []int{14}}, v.BR)
	fmt.Println("ERR", r.Err)
	s := takeSnap(w)
	fmt.Println("LABELS", s.pods[key(nsT, tgtName)].Labels)
	for k, pd := range s.pods {
		if pd.Namespace == resNS {
			fmt.Println("RES", k, pd.Labels)
		}
	}
}
