// Package c11 is the check of property C11: binding is all-or-nothing under any API failure or crash point.
//
// Fault enumeration over the real binder (controllers.BindRequestReconciler + binding.Binder + the
// resourcereservation service + the binder plugins k8s-plugins{VolumeBinding, DynamicResources} and gpusharing,
// wired as cmd/binder does) on the in-memory API store. A case is one request-shape variant; the case runs the
// reconcile once fault-free counting every client call (N), then for every k in 1..N restores the store and runs
// with an ERROR at call k and with a CRASH at call k (thorough: also pairs), checks the store after the faulty
// attempt, checks that what an abandoned failed attempt left is removed by the binder's own clean-up paths, and
// then lets a new binder process recover and checks the end state.
package c11

import (
	"context"
	"fmt"
	"sort"
	"strings"
	"time"

	v1 "k8s.io/api/core/v1"
	metav1 "k8s.io/apimachinery/pkg/apis/meta/v1"
	"sigs.k8s.io/controller-runtime/pkg/client"

	schedulingv1alpha2 "github.com/NVIDIA/KAI-scheduler/pkg/apis/scheduling/v1alpha2"

	"verif/harness/internal/run"
)

type check struct{}

func New() run.Check { return check{} }

func (check) ID() string    { return "C11" }
func (check) Level() string { return "fault_enumeration" }
func (check) NumCases(tier string) int {
	if tier == "thorough" {
		return 400
	}
	return 150
}
func (check) CaseTimeout() time.Duration { return 10 * time.Minute }
func (check) CrashIsViolation() bool     { return true }

func (check) Rule() string {
	return "case i = request-shape variant drawn from gen.NewRand(seed,i,11): shape i%5 of {whole-GPU, gpu-fraction, gpu-memory, multi-fraction (2-3 groups), DRA claims (35% also fractional)}; " +
		"0-2 bystander GPU groups on the node (reservation pod + 1-2 running consumers, 40% a multi-fraction consumer with only runai-gpu-group/<g> labels), each selected group is with p=.5 one of them; " +
		"pod labels nil/empty/user, 1-2 containers, optional init container, fraction container by annotation, NVIDIA_VISIBLE_DEVICES in spec or not, CDI on/off, pre-existing config maps (same/other owner), group label already on the pod, " +
		"BackoffLimit nil/0/1/3/5, initial phase ''/Pending/Failed, scaling pod; the pod spec is produced by the real admission plugin. " +
		"Per case: 1 fault-free reconcile counting all client calls (N), then for every k in 1..N and mode in {ERROR at k, CRASH from k}: fresh store, faulty reconcile, attempt oracle, clean-up probe (mode e, pod unbound, request Failed: scheduler deletes the request -> real delete handler, then Sync() of a new process), " +
		"recovery (new process, Sync(), reconciles honouring requeues, harness re-creates a terminally Failed request - for 35% of the fractional variants with newly selected groups), recovery oracle, re-reconcile of the Succeeded request, reconcile of a second request for the bound pod. thorough adds all pairs k1<k2 (e,e) and (e,c). " +
		"Non-trivial: N >= 10 and at least one fault point after the first mutating call."
}

func (check) Assumptions() []string {
	return []string{
		"API server pods/binding is emulated: assigns spec.nodeName once, 409 if already assigned or UID precondition fails",
		"kubelet/device plugin is emulated: a created reservation pod immediately reports the lowest device index no other reservation pod of that node holds; a watch starts with ADDED events of existing objects",
		"an ERROR/CRASH fault makes the call fail WITHOUT being applied (no 'applied but the reply was lost' faults); the injected error is a 500 InternalError",
		"informer caches of the k8s-plugins (volume binding) run on a separate clientset over the same store; their background list/watch traffic is not a fault point; no pod has a PVC (the upstream volume binder polls with a fixed 1 s period and needs a PV controller), so VolumeBinding only runs IsRelevant/PreFilter (skip) for the config-map volume of fraction pods",
		"'could still write' excludes faults on the initial Get of the BindRequest and on the BindRequest status patch itself",
		"a reconcile of an already bound pod may write the BindRequest status and the pod's PodBound condition (reporting); anything else is not a no-op",
		"event recording is not an API call of the reconcile (asynchronous broadcaster in production)",
		"the binder syncs the GPU groups of a node in Go map order, so the call at index k of a faulty run can be a different call than at index k of the fault-free run; every index 1..N is still hit, and signatures name the call that was actually hit",
	}
}

// ---------------------------------------------------------------- one case

type vrec struct {
	v     run.Violation
	count int
	plan  plan
	log   []callRec
}

type caseRun struct {
	v        *Variant
	init     *snap
	counters map[string]int
	viol     map[string]*vrec
	order    []string
}

func (c *caseRun) report(clause, mode string, kinds []string, pl plan, log []callRec, msg string) {
	kind := "-"
	if len(kinds) > 0 {
		kind = strings.Join(kinds, "+")
	}
	sig := fmt.Sprintf("%s:%s:%s:%s", clause, c.v.Shape, mode, kind)
	if r, ok := c.viol[sig]; ok {
		r.count++
		return
	}
	c.viol[sig] = &vrec{v: run.Violation{Property: "C11", Oracle: clause, Sig: sig,
		Msg: fmt.Sprintf("%s [shape %s, plan %+v = %s at %s]", msg, c.v.Shape, pl, mode, kind)}, count: 1, plan: pl, log: log}
	c.order = append(c.order, sig)
}

func terminal(br *schedulingv1alpha2.BindRequest) bool {
	return br.Status.Phase == schedulingv1alpha2.BindRequestPhaseFailed &&
		(br.Spec.BackoffLimit == nil || br.Status.FailedAttempts >= *br.Spec.BackoffLimit)
}

// runPlan = faulty attempt + oracles + recovery + oracles, on a fresh store. It returns the call log of the attempt.
func (c *caseRun) runPlan(pl plan) ([]callRec, error) {
	v := c.v
	w, err := newWorld(v.Objs, v.Cdi)
	if err != nil {
		return nil, err
	}
	p, err := w.newProc()
	if err != nil {
		return nil, err
	}
	defer func() { p.close() }()
	c.counters["runs"]++
	mode := pl.mode()
	c.counters["runs_mode_"+mode]++

	// ---- the attempt
	att := p.reconcile(pl, v.BR)
	kinds := att.faultKinds(pl)
	for _, k := range kinds {
		c.counters["fault_at_"+k]++
	}
	rep := func(clause, f string, a ...any) { c.report(clause, mode, kinds, pl, att.Log, fmt.Sprintf(f, a...)) }
	if att.Panic != "" {
		rep("sut-panic", "reconcile panicked: %s", att.Panic)
	}
	s1 := takeSnap(w)
	pod := s1.pods[key(nsT, tgtName)]
	br1 := s1.brs[key(nsT, tgtName)]
	if pod == nil || br1 == nil {
		rep("object-lost", "pod or BindRequest disappeared during the attempt (pod %v, request %v)", pod != nil, br1 != nil)
		return att.Log, nil
	}
	bound := pod.Spec.NodeName != ""
	if pod.Spec.NodeName != "" && pod.Spec.NodeName != v.BR.Spec.SelectedNode {
		rep("node-in-set", "after the attempt pod.spec.nodeName=%q, request selected %q", pod.Spec.NodeName, v.BR.Spec.SelectedNode)
	}
	if w.bindApplied > 1 {
		rep("bind-at-most-once", "the binding sub-resource was applied %d times (%v)", w.bindApplied, w.bindTargets)
	}
	for _, f := range bystanders(s1, c.init) {
		rep(f.Clause, "after the attempt: %s", f.Msg)
	}
	crashed := pl.CrashAt > 0
	couldWrite := !crashed
	for _, k := range kinds {
		if k == "status-patch" || k == "get-bindrequest" {
			couldWrite = false
		}
	}
	switch {
	case bound:
		c.counters["attempt_bound"]++
		c.counters["attempt_bound_phase_"+phaseName(br1)]++
		for _, f := range sideObjects(s1, c.init, v.BR, v.Cdi) {
			rep("bound-"+f.Clause, "pod is bound after the attempt but %s", f.Msg)
		}
	default:
		c.counters["attempt_unbound"]++
		c.counters["attempt_unbound_phase_"+phaseName(br1)]++
		if br1.Status.Phase == schedulingv1alpha2.BindRequestPhaseSucceeded {
			rep("succeeded-unbound", "BindRequest is Succeeded but the pod is not bound")
		}
		if mode != "none" && couldWrite && br1.Status.Phase != schedulingv1alpha2.BindRequestPhaseFailed {
			rep("unbound-not-failed", "pod is unbound, the reconcile could still write, but status.phase=%q (reconcile err=%q)", br1.Status.Phase, att.Err)
		}
		for k, n := range leftovers(s1, c.init, v.BR) {
			c.counters["leftover_"+k] += n
			c.counters["leftover_"+k+"_mode_"+mode] += n
		}
	}
	if mode == "none" && (!bound || br1.Status.Phase != schedulingv1alpha2.BindRequestPhaseSucceeded) {
		rep("baseline", "fault-free reconcile: bound=%v phase=%q err=%q", bound, br1.Status.Phase, att.Err)
	}

	// ---- clean-up probe: a failed attempt whose request the scheduler simply withdraws must leave nothing that
	// the binder's own clean-up (rollback, delete handler, next Sync) does not remove
	if !bound && !crashed && mode != "none" && br1.Status.Phase == schedulingv1alpha2.BindRequestPhaseFailed {
		if err := c.cleanupProbe(w, s1, kinds, rep); err != nil {
			return att.Log, err
		}
	}

	// ---- recovery
	c.counters["recoveries"]++
	if crashed || !v.KeepProc {
		p.close()
		if p, err = w.newProc(); err != nil {
			return att.Log, err
		}
		c.counters["recovery_new_process"]++
		if r := p.sync(); r.Err != "" || r.Panic != "" {
			rep("recovery-sync", "Sync() of the new process failed: %s %s", r.Err, r.Panic)
		}
	} else {
		// the process survived the failed attempt: no start-up Sync(), the retry comes from the work queue
		c.counters["recovery_same_process"]++
	}
	cur := w.getBR(v.BR)
	replaced := 0
	// the scheduler only makes a new decision for a pod that is still unbound
	unboundPod := func() *v1.Pod {
		pd := &v1.Pod{}
		if err := w.raw.Get(context.Background(), client.ObjectKey{Namespace: nsT, Name: tgtName}, pd); err != nil || pd.Spec.NodeName != "" {
			return nil
		}
		return pd
	}
	for i := 0; i < 10 && cur != nil; i++ {
		if cur.Status.Phase == schedulingv1alpha2.BindRequestPhaseSucceeded {
			break
		}
		if pd := unboundPod(); pd != nil && terminal(cur) && replaced < 2 {
			// the harness plays the scheduler: delete the failed request, create a new one
			replaced++
			c.counters["scheduler_recreated_request"]++
			if r := p.schedulerDeletes(cur); r.Panic != "" {
				rep("sut-panic", "BindRequest delete handler panicked: %s", r.Panic)
			}
			nb := &schedulingv1alpha2.BindRequest{ObjectMeta: metav1.ObjectMeta{Namespace: cur.Namespace, Name: cur.Name,
				Labels: cur.Labels, OwnerReferences: cur.OwnerReferences}, Spec: *cur.Spec.DeepCopy()}
			if v.Reselect && len(groupLabelsOf(pd)) == 0 {
				// a fresh decision for a clean pending pod: other (new) GPU groups
				c.counters["scheduler_reselected_groups"]++
				for j, g := range nb.Spec.SelectedGPUGroups {
					if !has(v.SharedGroups, g) {
						nb.Spec.SelectedGPUGroups[j] = fmt.Sprintf("grp-r%d-%d", replaced, j)
					}
				}
			}
			if err := w.raw.Create(context.Background(), nb); err != nil {
				return att.Log, fmt.Errorf("harness: re-create request: %w", err)
			}
			cur = w.getBR(v.BR)
		}
		r := p.reconcile(plan{}, cur)
		c.counters["recovery_reconciles"]++
		if r.Panic != "" {
			rep("sut-panic", "recovery reconcile panicked: %s", r.Panic)
		}
		cur = w.getBR(v.BR)
		if r.Err == "" && r.Requeue == 0 {
			if cur != nil && terminal(cur) && replaced < 2 && unboundPod() != nil {
				continue
			}
			break
		}
		c.counters["requeues_honoured"]++
	}
	s2 := takeSnap(w)
	pod2 := s2.pods[key(nsT, tgtName)]
	switch {
	case cur == nil || pod2 == nil:
		rep("recovery-object-lost", "pod or BindRequest disappeared during recovery")
		return att.Log, nil
	case pod2.Spec.NodeName != cur.Spec.SelectedNode:
		rep("recovery-not-bound", "after recovery pod.spec.nodeName=%q, request selected %q; phase=%q reason=%q", pod2.Spec.NodeName, cur.Spec.SelectedNode, cur.Status.Phase, cur.Status.Reason)
	default:
		if w.bindApplied != 1 {
			rep("bind-exactly-once", "the binding sub-resource was applied %d times in attempt+recovery (%v)", w.bindApplied, w.bindTargets)
		}
		for _, f := range sideObjects(s2, c.init, cur, v.Cdi) {
			rep("recovery-"+f.Clause, "after recovery the pod is bound but %s", f.Msg)
		}
	}
	if cur.Status.Phase != schedulingv1alpha2.BindRequestPhaseSucceeded {
		rep("recovery-not-succeeded", "after recovery status.phase=%q reason=%q failedAttempts=%d", cur.Status.Phase, cur.Status.Reason, cur.Status.FailedAttempts)
	}
	for _, f := range orphans(s2) {
		rep(f.Clause, "after recovery: %s", f.Msg)
	}
	for _, f := range bystanders(s2, c.init) {
		rep(f.Clause, "after recovery: %s", f.Msg)
	}
	if pod2.Spec.NodeName == "" {
		return att.Log, nil
	}

	// ---- a request that already Succeeded is a no-op
	if cur.Status.Phase == schedulingv1alpha2.BindRequestPhaseSucceeded {
		before := placementDump(w)
		r := p.reconcile(plan{}, cur)
		c.counters["rereconciles_of_succeeded"]++
		if m := r.mutKinds(); len(m) > 0 || r.Err != "" {
			rep("succeeded-not-idempotent", "second reconcile of the Succeeded request made mutating calls %v (err=%q)", m, r.Err)
		}
		if d := diffDump(before, placementDump(w)); len(d) > 0 {
			rep("succeeded-not-idempotent", "second reconcile of the Succeeded request changed the store: %v", d)
		}
	}
	// ---- a request whose pod is already bound is a no-op
	second := &schedulingv1alpha2.BindRequest{ObjectMeta: metav1.ObjectMeta{Namespace: nsT, Name: tgtName + "-second"}, Spec: *cur.Spec.DeepCopy()}
	second.Spec.SelectedNode = v.NoopNode
	if err := w.raw.Create(context.Background(), second); err != nil {
		return att.Log, fmt.Errorf("harness: second request: %w", err)
	}
	before, applied := placementDump(w), w.bindApplied
	r := p.reconcile(plan{}, second)
	c.counters["reconciles_of_bound_pod"]++
	var other []string
	for _, k := range r.mutKinds() {
		if k != "status-patch" && k != "pod-status-patch" {
			other = append(other, k)
		}
	}
	if d := diffDump(before, placementDump(w)); len(d) > 0 || len(other) > 0 || w.bindApplied != applied {
		rep("bound-pod-not-noop", "reconcile of a request (node %s) for the pod already bound to %s: mutating calls %v, store changes %v, bindings applied %d->%d",
			v.NoopNode, pod2.Spec.NodeName, other, d, applied, w.bindApplied)
	}
	if s := w.getBR(second); s != nil {
		c.counters[fmt.Sprintf("second_request_same_node_%v_phase_%s", v.NoopNode == pod2.Spec.NodeName, phaseName(s))]++
	}
	c.counters["watch_without_object"] += w.watchTimeouts
	return att.Log, nil
}

func phaseName(br *schedulingv1alpha2.BindRequest) string {
	if br.Status.Phase == "" {
		return "empty"
	}
	return br.Status.Phase
}

// cleanupProbe runs on a copy of the store after a failed attempt: the scheduler withdraws the request (the real
// delete handler runs), a new binder process starts and runs Sync(). What the attempt added must be gone.
func (c *caseRun) cleanupProbe(w *world, s1 *snap, kinds []string, rep func(clause, f string, a ...any)) error {
	cw, err := w.clone()
	if err != nil {
		return err
	}
	cp, err := cw.newProc()
	if err != nil {
		return err
	}
	defer cp.close()
	c.counters["cleanup_probes"]++
	cp.schedulerDeletes(c.v.BR)
	if r := cp.sync(); r.Err != "" || r.Panic != "" {
		rep("cleanup-sync", "Sync() after the failed attempt failed: %s %s", r.Err, r.Panic)
	}
	s := takeSnap(cw)
	pod, ipod := s.pods[key(nsT, tgtName)], c.init.pods[key(nsT, tgtName)]
	if pod == nil {
		rep("cleanup-object-lost", "the pod disappeared")
		return nil
	}
	// a residue whose own clean-up call was one of the injected faults is reported under its own clause: there
	// the rollback step was hit and is simply never retried; elsewhere the rollback ran unharmed and still left it
	stepFaulted := func(clause string, steps ...string) string {
		for _, k := range kinds {
			if has(steps, k) {
				return clause + "-rollback-step-faulted"
			}
		}
		return clause
	}
	for _, g := range groupLabelsOf(pod) {
		if !has(groupLabelsOf(ipod), g) {
			rep(stepFaulted("residue-group-label", "patch-pod-remove-gpugroup-labels"), "unbound pod of a Failed, withdrawn request still carries GPU group %s after rollback + delete handler + Sync(); labels %v (right after the attempt: %v)",
				g, pod.Labels, s1.pods[key(nsT, tgtName)].Labels)
		}
	}
	for _, f := range orphans(s) {
		if f.Clause == "orphan-reservation-pod" {
			rep(stepFaulted("residue-reservation-pod", "delete-reservation-pod"), "after rollback + delete handler + Sync(): %s", f.Msg)
		}
	}
	for _, k := range sortedKeys(s.claims) {
		cl, icl := s.claims[k], c.init.claims[k]
		if icl == nil {
			continue
		}
		if reservedFor(cl, pod) && !reservedFor(icl, ipod) {
			rep(stepFaulted("residue-claim-reservation", "get-resourceclaim-unallocate", "update-resourceclaim-status-unallocate"), "claim %s is still reserved for the unbound pod of a Failed, withdrawn request (reservedFor %v)", k, cl.Status.ReservedFor)
		}
		if cl.Status.Allocation != nil && icl.Status.Allocation == nil {
			rep(stepFaulted("residue-claim-allocation", "get-resourceclaim-unallocate", "update-resourceclaim-status-unallocate"), "claim %s keeps the allocation written by the failed attempt", k)
		}
	}
	for _, k := range sortedKeys(s.cms) {
		if c.init.cms[k] == nil {
			rep(stepFaulted("residue-configmap", "delete-configmap", "delete-configmap-evar"), "config map %s created by the failed attempt is still there after rollback + delete handler + Sync() (data %v); the pod is unbound and has no request", k, s.cms[k].Data)
		}
	}
	return nil
}

func (check) RunCase(seed int64, index int, tier string, env *run.Env) run.CaseResult {
	res := run.CaseResult{Verdict: run.Held}
	v, err := genVariant(seed, index, tier)
	if err != nil {
		res.Verdict, res.Note = run.Inconclusive, err.Error()
		return res
	}
	res.Hash = v.hash()
	c := &caseRun{v: v, counters: map[string]int{}, viol: map[string]*vrec{}}
	w0, err := newWorld(v.Objs, v.Cdi)
	if err != nil {
		res.Verdict, res.Note = run.Inconclusive, err.Error()
		return res
	}
	c.init = takeSnap(w0)
	c.counters["shape_"+v.Shape]++

	fail := func(err error) run.CaseResult {
		res.Verdict, res.Note = run.Inconclusive, err.Error()
		res.Counters = c.counters
		return res
	}
	base, err := c.runPlan(plan{})
	if err != nil {
		return fail(err)
	}
	n := len(base)
	c.counters["calls_enumerated"] += n
	firstMut := 0
	var kindsSeq []string
	for i, r := range base {
		if r.Mut && firstMut == 0 {
			firstMut = i + 1
		}
		kindsSeq = append(kindsSeq, r.Kind)
		c.counters["baseline_call_"+r.Kind]++
	}
	for k := 1; k <= n; k++ {
		log1, err := c.runPlan(plan{ErrAt: []int{k}})
		if err != nil {
			return fail(err)
		}
		if _, err := c.runPlan(plan{CrashAt: k}); err != nil {
			return fail(err)
		}
		if tier == "thorough" {
			for k2 := k + 1; k2 <= len(log1); k2++ {
				if _, err := c.runPlan(plan{ErrAt: []int{k, k2}}); err != nil {
					return fail(err)
				}
				if _, err := c.runPlan(plan{ErrAt: []int{k}, CrashAt: k2}); err != nil {
					return fail(err)
				}
			}
		}
	}
	res.NonTrivial = n >= 10 && firstMut > 0 && firstMut < n
	res.Counters = c.counters
	res.Sample = map[string]any{"shape": v.Shape, "groups": v.Groups, "sharedGroups": v.SharedGroups, "bystanderGroups": v.Bystanders,
		"claims": v.Claims, "backoffLimit": v.Backoff, "initialPhase": v.InitPhase, "N": n, "firstMutatingCall": firstMut, "calls": kindsSeq}
	if len(c.viol) > 0 {
		res.Verdict = run.Violated
		sort.Strings(c.order)
		type detail struct {
			Sig   string    `json:"sig"`
			Count int       `json:"faultPointsWithThisSignature"`
			Msg   string    `json:"msg"`
			Plan  plan      `json:"firstPlan"`
			Log   []callRec `json:"callLogOfTheAttempt"`
		}
		var ds []detail
		for _, sig := range c.order {
			r := c.viol[sig]
			vv := r.v
			if r.count > 1 {
				vv.Msg += fmt.Sprintf(" (+%d more fault points with this signature)", r.count-1)
			}
			res.Violations = append(res.Violations, vv)
			ds = append(ds, detail{Sig: sig, Count: r.count, Msg: r.v.Msg, Plan: r.plan, Log: r.log})
		}
		res.Replay = env.SaveReplay("C11", seed, index, map[string]any{"property": "C11", "seed": seed, "index": index, "tier": tier,
			"variant": v, "baselineCalls": kindsSeq, "violations": ds})
	}
	return res
}

var _ client.Object = (*schedulingv1alpha2.BindRequest)(nil)
