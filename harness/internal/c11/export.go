package c11

// Exported face of this package's binder wiring for other checks (C12). Additive only: nothing here changes what
// the C11 check does. It puts the same world (API-server / kubelet emulation + call gate) and the same binder
// process (cmd/binder wiring without a manager) on top of an EXISTING store that the real scheduler also uses.

import (
	"context"
	"strings"
	"time"

	v1 "k8s.io/api/core/v1"
	"k8s.io/apimachinery/pkg/runtime"
	"k8s.io/apimachinery/pkg/watch"
	"k8s.io/client-go/kubernetes/fake"
	k8stesting "k8s.io/client-go/testing"
	ctrl "sigs.k8s.io/controller-runtime"
	"sigs.k8s.io/controller-runtime/pkg/client"
	crfake "sigs.k8s.io/controller-runtime/pkg/client/fake"
	"sigs.k8s.io/controller-runtime/pkg/event"

	schedulingv1alpha2 "github.com/NVIDIA/KAI-scheduler/pkg/apis/scheduling/v1alpha2"

	"verif/harness/internal/store"
)

// Plan is the fault plan of one reconcile: ERROR at the listed 1-based client call indices (the call is not applied
// and returns a 500) and CRASH from index CrashAt on (that call and every later one fail and are not applied).
type Plan struct {
	ErrAt   []int `json:"errAt,omitempty"`
	CrashAt int   `json:"crashAt,omitempty"`
}

// Call is one client call of the binder as seen by the gate.
type Call struct {
	Kind    string `json:"kind"`
	Mut     bool   `json:"mut,omitempty"`
	Faulted bool   `json:"faulted,omitempty"`
}

// Result is what one guarded piece of binder code did.
type Result struct {
	Requeue time.Duration `json:"requeueAfter,omitempty"`
	Err     string        `json:"err,omitempty"`
	Panic   string        `json:"panic,omitempty"`
	Calls   []Call        `json:"calls,omitempty"`
}

func exportResult(r recResult) Result {
	out := Result{Requeue: r.Requeue, Err: r.Err, Panic: r.Panic}
	for _, c := range r.Log {
		out.Calls = append(out.Calls, Call{Kind: c.Kind, Mut: c.Mut, Faulted: c.Faulted})
	}
	return out
}

// Binder is one world plus the binder process currently running on it.
type Binder struct {
	w *world
	p *proc
}

// newWorldOn is newWorld over an existing store (objects are already in it).
func newWorldOn(st *store.Store, cdi bool) *world {
	quietLogs()
	w := &world{st: st, g: &gate{}, cdi: cdi}
	w.raw = crfake.NewClientBuilder().WithScheme(w.st.Scheme).WithObjectTracker(w.st.Tracker).
		WithStatusSubresource(&schedulingv1alpha2.BindRequest{}, &v1.Pod{}).
		WithIndex(&v1.Pod{}, "spec.nodeName", func(o client.Object) []string {
			if n := o.(*v1.Pod).Spec.NodeName; n != "" {
				return []string{n}
			}
			return nil
		}).
		WithIndex(&v1.Pod{}, "metadata.labels."+groupLabel, func(o client.Object) []string {
			if g, ok := o.(*v1.Pod).Labels[groupLabel]; ok {
				return []string{g}
			}
			return nil
		}).Build()
	// the gate is only active inside guarded(): clientset calls of anybody else (the scheduler) pass untouched
	w.st.AddHook(func(_ string, a k8stesting.Action) (bool, runtime.Object, error) {
		verb := a.GetVerb()
		mut := verb == "create" || verb == "update" || verb == "patch" || verb == "delete" || verb == "delete-collection"
		kind := verb + "-" + strings.TrimSuffix(a.GetResource().Resource, "s")
		if sub := a.GetSubresource(); sub != "" {
			kind += "-" + sub
		}
		if err := w.g.enter(kind, mut); err != nil {
			return true, nil, err
		}
		return false, nil, nil
	})
	w.infKube = fake.NewSimpleClientset()
	w.infKube.PrependReactor("*", "*", k8stesting.ObjectReaction(w.st.Tracker))
	w.infKube.PrependWatchReactor("*", func(a k8stesting.Action) (bool, watch.Interface, error) {
		wi, err := w.st.Tracker.Watch(a.GetResource(), a.GetNamespace())
		return true, wi, err
	})
	return w
}

// NewBinderOn starts a binder process on an existing store.
func NewBinderOn(st *store.Store, cdi bool) (*Binder, error) {
	w := newWorldOn(st, cdi)
	p, err := w.newProc()
	if err != nil {
		return nil, err
	}
	return &Binder{w: w, p: p}, nil
}

// Restart throws the binder process away (reconciler, binder, reservation service with its group mutex, plugin
// state, informers) and starts a new one over the same store.
func (b *Binder) Restart() error {
	b.p.close()
	p, err := b.w.newProc()
	if err != nil {
		return err
	}
	b.p = p
	return nil
}

func (b *Binder) Close() { b.p.close() }

// Sync is the start-up sync of the resource reservation service (cmd/binder app.Run).
func (b *Binder) Sync() Result { return exportResult(b.p.sync()) }

// Reconcile runs one real Reconcile of the named BindRequest under the plan.
func (b *Binder) Reconcile(ns, name string, pl Plan) Result {
	br := &schedulingv1alpha2.BindRequest{}
	br.Namespace, br.Name = ns, name
	return exportResult(b.p.reconcile(plan{ErrAt: pl.ErrAt, CrashAt: pl.CrashAt}, br))
}

// Deleted delivers the delete event of a BindRequest to the real delete handler.
func (b *Binder) Deleted(br *schedulingv1alpha2.BindRequest) Result {
	return exportResult(b.p.guarded(plan{}, func() (ctrl.Result, error) {
		b.p.rec.VerifEventHandlers().DeleteFunc(context.Background(), event.DeleteEvent{Object: br}, nil)
		return ctrl.Result{}, nil
	}))
}

// BindApplied returns how often the pods/binding sub-resource was applied and to which nodes.
func (b *Binder) BindApplied() (int, []string) {
	b.w.mu.Lock()
	defer b.w.mu.Unlock()
	return b.w.bindApplied, append([]string(nil), b.w.bindTargets...)
}

// DryRun copies the current store content (the kinds the binder touches) into a scratch store, runs one fault-free
// reconcile of the named request there with a fresh process and returns its call log. The real store is not touched.
func (b *Binder) DryRun(ns, name string) (Result, error) {
	cw, err := b.w.clone()
	if err != nil {
		return Result{}, err
	}
	cp, err := cw.newProc()
	if err != nil {
		return Result{}, err
	}
	defer cp.close()
	br := &schedulingv1alpha2.BindRequest{}
	br.Namespace, br.Name = ns, name
	return exportResult(cp.reconcile(plan{}, br)), nil
}
