package c11

import (
	"context"
	"encoding/json"
	"fmt"
	"sort"
	"strings"

	v1 "k8s.io/api/core/v1"
	resourceapi "k8s.io/api/resource/v1"
	apiequality "k8s.io/apimachinery/pkg/api/equality"
	"sigs.k8s.io/controller-runtime/pkg/client"

	schedulingv1alpha2 "github.com/NVIDIA/KAI-scheduler/pkg/apis/scheduling/v1alpha2"
)

// snap is the API store as the oracle sees it. Everything below is recomputed from these objects with the
// harness' own code; nothing is taken from the binder's in-memory state.
type snap struct {
	pods   map[string]*v1.Pod
	cms    map[string]*v1.ConfigMap
	brs    map[string]*schedulingv1alpha2.BindRequest
	claims map[string]*resourceapi.ResourceClaim
}

func key(ns, name string) string { return ns + "/" + name }

func takeSnap(w *world) *snap {
	s := &snap{pods: map[string]*v1.Pod{}, cms: map[string]*v1.ConfigMap{}, brs: map[string]*schedulingv1alpha2.BindRequest{}, claims: map[string]*resourceapi.ResourceClaim{}}
	for _, o := range w.dump() {
		switch x := o.(type) {
		case *v1.Pod:
			s.pods[key(x.Namespace, x.Name)] = x
		case *v1.ConfigMap:
			s.cms[key(x.Namespace, x.Name)] = x
		case *schedulingv1alpha2.BindRequest:
			s.brs[key(x.Namespace, x.Name)] = x
		case *resourceapi.ResourceClaim:
			s.claims[key(x.Namespace, x.Name)] = x
		}
	}
	return s
}

type fail struct{ Clause, Msg string }

func groupLabelsOf(p *v1.Pod) []string {
	var out []string
	for k, val := range p.Labels {
		if k == groupLabel || strings.HasPrefix(k, groupLabelPrefix) {
			out = append(out, val)
		}
	}
	sort.Strings(out)
	return out
}

func has(xs []string, x string) bool {
	for _, y := range xs {
		if y == x {
			return true
		}
	}
	return false
}

func live(p *v1.Pod) bool {
	return p.DeletionTimestamp == nil && (p.Status.Phase == v1.PodPending || p.Status.Phase == v1.PodRunning || p.Status.Phase == "")
}

func (s *snap) reservationPods(group string) []*v1.Pod {
	var out []*v1.Pod
	for _, k := range sortedKeys(s.pods) {
		p := s.pods[k]
		if p.Namespace == resNS && p.DeletionTimestamp == nil && p.Labels[groupLabel] == group {
			out = append(out, p)
		}
	}
	return out
}

func (s *snap) consumers(group string) []*v1.Pod {
	var out []*v1.Pod
	for _, k := range sortedKeys(s.pods) {
		p := s.pods[k]
		if p.Namespace != resNS && live(p) && has(groupLabelsOf(p), group) {
			out = append(out, p)
		}
	}
	return out
}

// resolveEnv: the value the container will see for an env var that the webhook wired to a config map
// (explicit env entries win over envFrom, as in the kubelet).
func (s *snap) resolveEnv(pod *v1.Pod, c *v1.Container, name string) (val, from string, ok bool) {
	for _, e := range c.Env {
		if e.Name == name {
			if e.ValueFrom != nil && e.ValueFrom.ConfigMapKeyRef != nil {
				cm := s.cms[key(pod.Namespace, e.ValueFrom.ConfigMapKeyRef.Name)]
				if cm == nil {
					return "", "missing config map " + e.ValueFrom.ConfigMapKeyRef.Name, false
				}
				val, ok = cm.Data[e.ValueFrom.ConfigMapKeyRef.Key]
				return val, "config map " + cm.Name, ok
			}
			return e.Value, "literal", true
		}
	}
	for _, ef := range c.EnvFrom {
		if ef.ConfigMapRef != nil {
			cm := s.cms[key(pod.Namespace, ef.ConfigMapRef.Name)]
			if cm == nil {
				from = "missing config map " + ef.ConfigMapRef.Name
				continue
			}
			if val, ok = cm.Data[name]; ok {
				return val, "config map " + cm.Name, true
			}
			from = "config map " + cm.Name + " (no such key)"
		}
	}
	return "", from, false
}

func claimNameOf(pod *v1.Pod, podClaim string) string {
	for _, c := range pod.Spec.ResourceClaims {
		if c.Name != podClaim {
			continue
		}
		if c.ResourceClaimName != nil {
			return *c.ResourceClaimName
		}
		for _, st := range pod.Status.ResourceClaimStatuses {
			if st.Name == podClaim && st.ResourceClaimName != nil {
				return *st.ResourceClaimName
			}
		}
	}
	return ""
}

func reservedFor(c *resourceapi.ResourceClaim, pod *v1.Pod) bool {
	for _, r := range c.Status.ReservedFor {
		if r.Resource == "pods" && r.Name == pod.Name && r.UID == pod.UID {
			return true
		}
	}
	return false
}

// sideObjects: "bound => every selected GPU group is on the pod's labels, has exactly one reservation pod, the
// pod's config map shows those reservation pods' device indices in request order and the request's portion,
// the received-resource-type annotation is the request's, the claims are reserved for the pod with the
// requested allocation".
func sideObjects(s, init *snap, br *schedulingv1alpha2.BindRequest, cdi bool) (fs []fail) {
	pod := s.pods[key(br.Namespace, br.Spec.PodName)]
	add := func(c, f string, a ...any) { fs = append(fs, fail{c, fmt.Sprintf(f, a...)}) }
	if got := pod.Annotations[recvTypeAnnot]; got != br.Spec.ReceivedResourceType {
		add("annotation", "pod annotation %s=%q, request says %q", recvTypeAnnot, got, br.Spec.ReceivedResourceType)
	}
	if br.Spec.ReceivedResourceType == "Fraction" {
		labels := groupLabelsOf(pod)
		var want []string
		for _, g := range br.Spec.SelectedGPUGroups {
			if !has(labels, g) {
				add("missing-group-label", "selected group %s is not on the pod's labels %v", g, pod.Labels)
			}
			rps := s.reservationPods(g)
			if len(rps) != 1 {
				add("reservation-pod-count", "selected group %s has %d reservation pods", g, len(rps))
				want = append(want, "?")
				continue
			}
			if rps[0].Spec.NodeName != br.Spec.SelectedNode {
				add("reservation-pod-node", "reservation pod %s of group %s is on node %q, request selected %q", rps[0].Name, g, rps[0].Spec.NodeName, br.Spec.SelectedNode)
			}
			idx := rps[0].Annotations[idxAnnot]
			if cdi {
				idx = fmt.Sprintf(cdiFmt, idx)
			}
			want = append(want, idx)
		}
		for _, g := range labels {
			if !has(br.Spec.SelectedGPUGroups, g) {
				add("extra-group-label", "pod carries GPU group %s which the request did not select (%v); labels %v", g, br.Spec.SelectedGPUGroups, pod.Labels)
			}
		}
		fc := fractionContainer(pod)
		if val, from, ok := s.resolveEnv(pod, fc, "NVIDIA_VISIBLE_DEVICES"); !ok || val != strings.Join(want, ",") {
			add("configmap-visible-devices", "container %s sees NVIDIA_VISIBLE_DEVICES=%q (found=%v, %s), reservation pods of %v hold %q",
				fc.Name, val, ok, from, br.Spec.SelectedGPUGroups, strings.Join(want, ","))
		}
		portion := ""
		if br.Spec.ReceivedGPU != nil {
			portion = br.Spec.ReceivedGPU.Portion
		}
		if val, from, ok := s.resolveEnv(pod, fc, "GPU_PORTION"); !ok || val != portion {
			add("configmap-portion", "container %s sees GPU_PORTION=%q (found=%v, %s), request portion %q", fc.Name, val, ok, from, portion)
		}
		if name := capabilitiesCMName(pod); name != "" {
			if cm := s.cms[key(pod.Namespace, name)]; cm != nil {
				owned := false
				for _, o := range cm.OwnerReferences {
					owned = owned || o.UID == pod.UID
				}
				if !owned {
					add("configmap-owner", "config map %s is not owned by the pod (owners %v)", name, cm.OwnerReferences)
				}
			}
		}
	}
	for _, a := range br.Spec.ResourceClaimAllocations {
		cn := claimNameOf(pod, a.Name)
		c := s.claims[key(pod.Namespace, cn)]
		if c == nil {
			add("claim", "claim %q (pod claim %s) does not exist", cn, a.Name)
			continue
		}
		if !reservedFor(c, pod) {
			add("claim", "claim %s is not reserved for the pod: reservedFor=%v", cn, c.Status.ReservedFor)
		}
		was := init.claims[key(pod.Namespace, cn)]
		switch {
		case c.Status.Allocation == nil:
			add("claim", "claim %s has no allocation", cn)
		case was != nil && was.Status.Allocation == nil && !apiequality.Semantic.DeepEqual(c.Status.Allocation, a.Allocation):
			add("claim", "claim %s allocation %+v differs from the requested %+v", cn, c.Status.Allocation, a.Allocation)
		case was != nil && was.Status.Allocation != nil && !apiequality.Semantic.DeepEqual(c.Status.Allocation, was.Status.Allocation):
			add("claim", "claim %s was already allocated and its allocation changed", cn)
		}
	}
	return fs
}

// bystanders: nothing that belongs to other workloads may change.
func bystanders(s, init *snap) (fs []fail) {
	add := func(f string, a ...any) { fs = append(fs, fail{"bystander-changed", fmt.Sprintf(f, a...)}) }
	for _, k := range sortedKeys(init.pods) {
		ip := init.pods[k]
		watched := ip.Namespace == nsB || ip.Namespace == scaleNS
		if ip.Namespace == resNS {
			for _, c := range init.consumers(ip.Labels[groupLabel]) {
				watched = watched || c.Namespace == nsB
			}
		}
		if !watched {
			continue
		}
		p := s.pods[k]
		switch {
		case p == nil:
			add("pod %s was deleted", k)
		case p.DeletionTimestamp != nil:
			add("pod %s is being deleted", k)
		case !apiequality.Semantic.DeepEqual(p.Labels, ip.Labels) || !apiequality.Semantic.DeepEqual(p.Annotations, ip.Annotations) ||
			p.Spec.NodeName != ip.Spec.NodeName || p.Status.Phase != ip.Status.Phase:
			add("pod %s changed: labels %v -> %v, annotations %v -> %v, node %q -> %q", k, ip.Labels, p.Labels, ip.Annotations, p.Annotations, ip.Spec.NodeName, p.Spec.NodeName)
		}
	}
	for _, k := range sortedKeys(init.claims) {
		ic, c := init.claims[k], s.claims[k]
		if c == nil {
			add("claim %s was deleted", k)
			continue
		}
		for _, r := range ic.Status.ReservedFor {
			found := false
			for _, r2 := range c.Status.ReservedFor {
				found = found || r2 == r
			}
			if !found {
				add("claim %s lost the reservation of %s", k, r.Name)
			}
		}
	}
	return fs
}

// leftovers describes what an unbound pod's attempt left in the store (observations).
func leftovers(s, init *snap, br *schedulingv1alpha2.BindRequest) map[string]int {
	obs := map[string]int{}
	pod := s.pods[key(br.Namespace, br.Spec.PodName)]
	ipod := init.pods[key(br.Namespace, br.Spec.PodName)]
	if pod == nil {
		return obs
	}
	for _, g := range groupLabelsOf(pod) {
		if !has(groupLabelsOf(ipod), g) {
			obs["group-label"]++
		}
	}
	for _, k := range sortedKeys(s.pods) {
		p := s.pods[k]
		if p.Namespace != resNS || init.pods[k] != nil {
			continue
		}
		obs["reservation-pod"]++
	}
	for _, k := range sortedKeys(s.cms) {
		if init.cms[k] == nil {
			obs["configmap"]++
		}
	}
	if pod.Annotations[recvTypeAnnot] != ipod.Annotations[recvTypeAnnot] {
		obs["received-type-annotation"]++
	}
	for _, k := range sortedKeys(s.claims) {
		if reservedFor(s.claims[k], pod) && !reservedFor(init.claims[k], ipod) {
			obs["claim-reservation"]++
		}
	}
	return obs
}

// orphans: reservation pods without a live labelled consumer, and config maps whose owning pod is not bound.
func orphans(s *snap) (fs []fail) {
	for _, k := range sortedKeys(s.pods) {
		p := s.pods[k]
		if p.Namespace != resNS || p.DeletionTimestamp != nil {
			continue
		}
		if g := p.Labels[groupLabel]; len(s.consumers(g)) == 0 {
			fs = append(fs, fail{"orphan-reservation-pod", fmt.Sprintf("reservation pod %s of group %s has no live labelled consumer", p.Name, g)})
		}
	}
	for _, k := range sortedKeys(s.cms) {
		cm := s.cms[k]
		for _, o := range cm.OwnerReferences {
			if o.Kind != "Pod" {
				continue
			}
			bound := false
			for _, p := range s.pods {
				if p.UID == o.UID && p.Spec.NodeName != "" {
					bound = true
				}
			}
			if !bound {
				fs = append(fs, fail{"stale-configmap", fmt.Sprintf("config map %s refers to pod %s (uid %s) which is not bound", k, o.Name, o.UID)})
			}
		}
	}
	return fs
}

// placementDump: everything a "no-op" must leave alone (pod spec/labels/annotations, side objects), i.e. the whole
// store except status of BindRequests and pod conditions, which are the binder's reporting channel.
func placementDump(w *world) map[string]string {
	out := map[string]string{}
	for _, o := range w.dump() {
		k := fmt.Sprintf("%T %s/%s", o, o.GetNamespace(), o.GetName())
		switch x := o.(type) {
		case *v1.Pod:
			out[k] = fmt.Sprintf("node=%q labels=%v annotations=%v deleted=%v", x.Spec.NodeName, x.Labels, x.Annotations, x.DeletionTimestamp != nil)
		case *v1.ConfigMap:
			out[k] = fmt.Sprintf("data=%v owners=%v", x.Data, x.OwnerReferences)
		case *resourceapi.ResourceClaim:
			out[k] = "status=" + js(x.Status)
		case *schedulingv1alpha2.BindRequest:
			out[k] = "spec=" + js(x.Spec)
		}
	}
	return out
}

func js(v any) string {
	b, _ := json.Marshal(v)
	return string(b)
}

func diffDump(a, b map[string]string) []string {
	var out []string
	for _, k := range sortedKeys(a) {
		if vb, ok := b[k]; !ok {
			out = append(out, "deleted "+k)
		} else if vb != a[k] {
			out = append(out, "changed "+k+": "+a[k]+" -> "+vb)
		}
	}
	for _, k := range sortedKeys(b) {
		if _, ok := a[k]; !ok {
			out = append(out, "created "+k)
		}
	}
	return out
}

func (w *world) getBR(br *schedulingv1alpha2.BindRequest) *schedulingv1alpha2.BindRequest {
	cur := &schedulingv1alpha2.BindRequest{}
	if err := w.raw.Get(context.Background(), client.ObjectKeyFromObject(br), cur); err != nil {
		return nil
	}
	return cur
}
