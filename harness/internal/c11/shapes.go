package c11

import (
	"crypto/sha256"
	"encoding/hex"
	"encoding/json"
	"fmt"
	"math/rand/v2"
	"strconv"
	"strings"

	v1 "k8s.io/api/core/v1"
	resourceapi "k8s.io/api/resource/v1"
	"k8s.io/apimachinery/pkg/api/resource"
	metav1 "k8s.io/apimachinery/pkg/apis/meta/v1"
	"k8s.io/apimachinery/pkg/types"
	"k8s.io/utils/ptr"
	"sigs.k8s.io/controller-runtime/pkg/client"

	admplugins "github.com/NVIDIA/KAI-scheduler/pkg/admission/plugins"
	admgpu "github.com/NVIDIA/KAI-scheduler/pkg/admission/webhook/v1alpha2/gpusharing"
	schedulingv1alpha2 "github.com/NVIDIA/KAI-scheduler/pkg/apis/scheduling/v1alpha2"

	"verif/harness/internal/gen"
	"verif/harness/internal/spec"
)

var shapes = []string{"whole", "fraction", "gpumem", "multi", "dra"}

// Variant is one case: a request shape plus everything that was drawn around it.
type Variant struct {
	Shape        string   `json:"shape"`
	Groups       []string `json:"selectedGroups,omitempty"`
	SharedGroups []string `json:"groupsWithReservationPodAndOtherConsumers,omitempty"`
	Bystanders   []string `json:"bystanderGroups,omitempty"`
	MultiBy      bool     `json:"multiFractionBystander,omitempty"`
	Portion      string   `json:"portion,omitempty"`
	Devices      int      `json:"devices,omitempty"`
	Claims       []string `json:"claims,omitempty"`
	ClaimPre     []bool   `json:"claimAlreadyAllocated,omitempty"`
	Backoff      string   `json:"backoffLimit"`
	InitPhase    string   `json:"initialPhase"`
	PodLabels    string   `json:"podLabels"`
	PreLabel     bool     `json:"groupLabelAlreadyOnPod,omitempty"`
	CMPre        string   `json:"preexistingConfigMap,omitempty"`
	FracCont     string   `json:"fractionContainer,omitempty"`
	LegacyEnv    bool     `json:"visibleDevicesNotInSpec,omitempty"`
	ScalingPod   bool     `json:"scalingPod,omitempty"`
	OrphanPre    bool     `json:"orphanReservationPodOnNode,omitempty"`
	Cdi          bool     `json:"cdi,omitempty"`
	KeepProc     bool     `json:"modeERecoveryInSameProcess,omitempty"`
	Reselect     bool     `json:"schedulerReselectsGroups,omitempty"`
	NoopNode     string   `json:"secondRequestNode"`

	Objs []client.Object                 `json:"objects"`
	BR   *schedulingv1alpha2.BindRequest `json:"bindRequest"`
}

const tgtName = "tgt"
const tgtUID = types.UID("uid-tgt")

func (v *Variant) hash() string {
	b, _ := json.Marshal(v)
	h := sha256.Sum256(b)
	return hex.EncodeToString(h[:8])
}

var admission = func() *admplugins.KaiAdmissionPlugins {
	a := admplugins.New()
	a.RegisterPlugin(admgpu.New(nil, true)) // cmd/admission registerPlugins, GPU sharing enabled
	return a
}()

func node(name string) *v1.Node {
	alloc := v1.ResourceList{
		v1.ResourceCPU: resource.MustParse("64"), v1.ResourceMemory: resource.MustParse("512Gi"),
		v1.ResourcePods: resource.MustParse("110"), gpuRes: resource.MustParse("8"),
	}
	return &v1.Node{ObjectMeta: metav1.ObjectMeta{Name: name, UID: types.UID("uid-" + name), Labels: map[string]string{
		"kubernetes.io/hostname": name, "nvidia.com/gpu.count": "8", "nvidia.com/gpu.memory": "40000"}},
		Status: v1.NodeStatus{Allocatable: alloc, Capacity: alloc.DeepCopy(),
			Conditions: []v1.NodeCondition{{Type: v1.NodeReady, Status: v1.ConditionTrue}}}}
}

func basePod(ns, name string, uid types.UID, nodeName string, phase v1.PodPhase) *v1.Pod {
	return &v1.Pod{
		ObjectMeta: metav1.ObjectMeta{Namespace: ns, Name: name, UID: uid},
		Spec: v1.PodSpec{SchedulerName: spec.SchedulerName, NodeName: nodeName, Containers: []v1.Container{{
			Name: "main", Image: "img", Resources: v1.ResourceRequirements{Requests: v1.ResourceList{v1.ResourceCPU: resource.MustParse("100m")}}}}},
		Status: v1.PodStatus{Phase: phase},
	}
}

func reservationPod(sfx, nodeName, group, idx string) *v1.Pod {
	p := basePod(resNS, "gpu-reservation-"+nodeName+"-"+sfx, types.UID("uid-res-"+sfx), nodeName, v1.PodRunning)
	p.Spec.SchedulerName = ""
	p.Labels = map[string]string{"app": spec.ReservationApp, groupLabel: group}
	p.Annotations = map[string]string{idxAnnot: idx}
	p.Spec.Containers[0].Resources.Limits = v1.ResourceList{gpuRes: resource.MustParse("1")}
	return p
}

func trimFrac(s string) string { return strings.TrimSuffix(strings.TrimRight(s, "0"), ".") }

func pick[T any](r *rand.Rand, xs ...T) T { return xs[r.IntN(len(xs))] }

func genVariant(seed int64, index int, tier string) (*Variant, error) {
	r := gen.NewRand(seed, index, 11)
	p := func(x float64) bool { return r.Float64() < x }
	v := &Variant{Shape: shapes[index%len(shapes)]}
	objs := []client.Object{node(nodeA), node(nodeB)}

	// ---- bystanders: other GPU groups of node-a, each with its reservation pod and 1-2 running consumers
	nBy := r.IntN(3)
	if v.Shape == "whole" || v.Shape == "dra" {
		nBy = 1 + r.IntN(2) // the node sync at the start of Bind is then not empty
	}
	idxPerm := r.Perm(8)
	for i := 0; i < nBy; i++ {
		g := fmt.Sprintf("grp-b%d", i)
		v.Bystanders = append(v.Bystanders, g)
		objs = append(objs, reservationPod(fmt.Sprintf("by%d", i), nodeA, g, strconv.Itoa(idxPerm[i])))
		for c := 0; c <= r.IntN(2); c++ {
			cp := basePod(nsB, fmt.Sprintf("by%d-c%d", i, c), types.UID(fmt.Sprintf("uid-by%d-c%d", i, c)), nodeA, v1.PodRunning)
			cp.Annotations = map[string]string{"gpu-fraction": "0.3", recvTypeAnnot: "Fraction"}
			cp.Labels = map[string]string{groupLabel: g, "app": "bystander"}
			objs = append(objs, cp)
		}
	}
	if nBy > 0 && p(0.4) {
		// a multi-fraction consumer: it carries only runai-gpu-group/<g> labels
		v.MultiBy = true
		mp := basePod(nsB, "by-multi", "uid-by-multi", nodeA, v1.PodRunning)
		mp.Annotations = map[string]string{"gpu-fraction": "0.2", "gpu-fraction-num-devices": strconv.Itoa(max(2, nBy)), recvTypeAnnot: "Fraction"}
		mp.Labels = map[string]string{"app": "bystander"}
		for _, g := range v.Bystanders {
			mp.Labels[groupLabelPrefix+g] = g
		}
		objs = append(objs, mp)
	}
	if p(0.25) {
		// what an earlier failed rollback of some other request left on the node: a reservation pod nobody uses
		v.OrphanPre = true
		objs = append(objs, reservationPod("orphan", nodeA, "grp-orphan", strconv.Itoa(idxPerm[7])))
	}
	if p(0.3) {
		v.ScalingPod = true
		sp := basePod(scaleNS, "scaling-pod", "uid-scale", nodeA, v1.PodRunning)
		sp.Status.Conditions = []v1.PodCondition{{Type: v1.PodScheduled, Status: v1.ConditionTrue}}
		objs = append(objs, sp)
	}

	// ---- the pod under test
	pod := basePod(nsT, tgtName, tgtUID, "", v1.PodPending)
	switch r.IntN(3) {
	case 0:
		v.PodLabels = "nil"
	case 1:
		v.PodLabels = "user"
		pod.Labels = map[string]string{"app": "trainer", "team/owner": "a~b"}
	default:
		v.PodLabels = "empty"
		pod.Labels = map[string]string{}
	}
	if p(0.5) {
		pod.Spec.Containers = append(pod.Spec.Containers, v1.Container{Name: "side", Image: "img"})
	}
	if p(0.3) {
		pod.Spec.InitContainers = []v1.Container{{Name: "init0", Image: "img"}}
	}
	pod.Annotations = map[string]string{}

	br := &schedulingv1alpha2.BindRequest{
		ObjectMeta: metav1.ObjectMeta{Namespace: nsT, Name: tgtName, UID: "uid-br", Labels: map[string]string{"selected-node": nodeA},
			OwnerReferences: []metav1.OwnerReference{{APIVersion: "v1", Kind: "Pod", Name: tgtName, UID: tgtUID}}},
		Spec: schedulingv1alpha2.BindRequestSpec{PodName: tgtName, SelectedNode: nodeA, ReceivedResourceType: "Regular",
			ReceivedGPU: &schedulingv1alpha2.ReceivedGPU{Count: 0, Portion: "0.00"}},
	}

	shape := v.Shape
	fractional := shape == "fraction" || shape == "gpumem" || shape == "multi" || (shape == "dra" && p(0.35))
	need := 0
	switch {
	case shape == "whole" || (shape == "dra" && !fractional):
		n := int64(r.IntN(3)) // a DRA pod may ask for no whole GPU at all
		if shape == "whole" {
			n = int64(1 + r.IntN(2))
		}
		if n > 0 {
			pod.Spec.Containers[0].Resources.Limits = v1.ResourceList{gpuRes: *resource.NewQuantity(n, resource.DecimalSI)}
		}
		br.Spec.ReceivedGPU = &schedulingv1alpha2.ReceivedGPU{Count: int(n), Portion: "1.00"}
	case shape == "gpumem":
		mem := pick(r, 2000, 4000, 10000)
		pod.Annotations["gpu-memory"] = strconv.Itoa(mem)
		v.Portion = fmt.Sprintf("%.2f", float64(mem)/40000)
		need = 1
	case shape == "multi":
		v.Devices = 2 + r.IntN(2)
		v.Portion = pick(r, "0.25", "0.50")
		pod.Annotations["gpu-fraction"] = trimFrac(v.Portion)
		pod.Annotations["gpu-fraction-num-devices"] = strconv.Itoa(v.Devices)
		need = v.Devices
	default: // fraction (also the fractional DRA pod)
		v.Portion = pick(r, "0.50", "0.25", "0.70")
		pod.Annotations["gpu-fraction"] = trimFrac(v.Portion)
		need = 1
	}

	if fractional {
		// the webhook's work: shared-gpu config map name, env vars, volume (real admission plugin)
		pod.Annotations[cmPrefixAnnot] = "tgt-abcdefg-shared-gpu"
		if len(pod.Spec.Containers) > 1 && p(0.3) {
			v.FracCont = "side"
		} else if len(pod.Spec.InitContainers) > 0 && p(0.3) {
			v.FracCont = "init0"
		}
		if v.FracCont != "" {
			pod.Annotations[fracContAnnot] = v.FracCont
		}
		if err := admission.Mutate(pod); err != nil {
			return nil, fmt.Errorf("harness: admission Mutate: %w", err)
		}
		if err := admission.Validate(pod); err != nil {
			return nil, fmt.Errorf("harness: admission Validate: %w", err)
		}
		fc := fractionContainer(pod)
		if p(0.2) {
			// a pod whose NVIDIA_VISIBLE_DEVICES is not defined in the spec: the value goes to the envFrom config map
			v.LegacyEnv = true
			var keep []v1.EnvVar
			for _, e := range fc.Env {
				if e.Name != "NVIDIA_VISIBLE_DEVICES" {
					keep = append(keep, e)
				}
			}
			fc.Env = keep
		}
		// ---- which groups did the scheduler select
		free := append([]string(nil), v.Bystanders...)
		for j := 0; j < need; j++ {
			if len(free) > 0 && p(0.5) {
				i := r.IntN(len(free))
				v.Groups = append(v.Groups, free[i])
				v.SharedGroups = append(v.SharedGroups, free[i])
				free = append(free[:i], free[i+1:]...)
			} else {
				v.Groups = append(v.Groups, fmt.Sprintf("grp-t%d", j))
			}
		}
		br.Spec.ReceivedResourceType = "Fraction"
		br.Spec.SelectedGPUGroups = append([]string(nil), v.Groups...)
		br.Spec.ReceivedGPU = &schedulingv1alpha2.ReceivedGPU{Count: need, Portion: v.Portion}
		v.Cdi = p(0.25)

		if p(0.2) {
			// state an earlier attempt that died after its label patch leaves behind: first group already on the pod
			v.PreLabel = true
			g := v.Groups[0]
			if pod.Labels == nil {
				pod.Labels = map[string]string{}
			}
			if need > 1 {
				pod.Labels[groupLabelPrefix+g] = g
			} else {
				pod.Labels[groupLabel] = g
			}
			shared := false
			for _, s := range v.SharedGroups {
				shared = shared || s == g
			}
			if !shared {
				objs = append(objs, reservationPod("pre", nodeA, g, strconv.Itoa(idxPerm[nBy])))
			}
		}
		switch {
		case p(0.2):
			v.CMPre = "same-owner-stale-data"
		case p(0.2):
			v.CMPre = "other-owner"
		}
		if v.CMPre != "" {
			name := capabilitiesCMName(pod)
			owner := metav1.OwnerReference{APIVersion: "v1", Kind: "Pod", Name: tgtName, UID: tgtUID}
			if v.CMPre == "other-owner" {
				owner.UID = "uid-tgt-previous-incarnation"
			}
			objs = append(objs, &v1.ConfigMap{ObjectMeta: metav1.ObjectMeta{Namespace: nsT, Name: name, OwnerReferences: []metav1.OwnerReference{owner}},
				Data: map[string]string{"NVIDIA_VISIBLE_DEVICES": "7", "GPU_PORTION": "0.99", "RUNAI_NUM_OF_GPUS": "0.99"}})
			if p(0.5) {
				objs = append(objs, &v1.ConfigMap{ObjectMeta: metav1.ObjectMeta{Namespace: nsT, Name: name + "-evar", OwnerReferences: []metav1.OwnerReference{owner}},
					Data: map[string]string{"NVIDIA_VISIBLE_DEVICES": "7"}})
			}
		}
		v.Reselect = p(0.35)
	}

	if shape == "dra" {
		nClaims := 1 + r.IntN(2)
		for i := 0; i < nClaims; i++ {
			podClaim := fmt.Sprintf("c%d", i)
			claimName := fmt.Sprintf("claim-%d", i)
			if p(0.4) {
				claimName = fmt.Sprintf("tgt-c%d-x7k2p", i)
				pod.Spec.ResourceClaims = append(pod.Spec.ResourceClaims, v1.PodResourceClaim{Name: podClaim, ResourceClaimTemplateName: ptr.To("tmpl")})
				pod.Status.ResourceClaimStatuses = append(pod.Status.ResourceClaimStatuses, v1.PodResourceClaimStatus{Name: podClaim, ResourceClaimName: ptr.To(claimName)})
			} else {
				pod.Spec.ResourceClaims = append(pod.Spec.ResourceClaims, v1.PodResourceClaim{Name: podClaim, ResourceClaimName: ptr.To(claimName)})
			}
			alloc := &resourceapi.AllocationResult{Devices: resourceapi.DeviceAllocationResult{Results: []resourceapi.DeviceRequestAllocationResult{{
				Request: "req", Driver: "gpu.example.com", Pool: nodeA, Device: fmt.Sprintf("dev-%d", r.IntN(8))}}}}
			claim := &resourceapi.ResourceClaim{ObjectMeta: metav1.ObjectMeta{Namespace: nsT, Name: claimName, UID: types.UID("uid-" + claimName)},
				Spec: resourceapi.ResourceClaimSpec{Devices: resourceapi.DeviceClaim{Requests: []resourceapi.DeviceRequest{{Name: "req",
					Exactly: &resourceapi.ExactDeviceRequest{DeviceClassName: "gpu.example.com", AllocationMode: resourceapi.DeviceAllocationModeExactCount, Count: 1}}}}}}
			pre := p(0.3)
			if pre {
				// a shared claim that another pod already uses: allocated and reserved
				claim.Status.Allocation = alloc.DeepCopy()
				claim.Status.ReservedFor = []resourceapi.ResourceClaimConsumerReference{{Resource: "pods", Name: "other", UID: "uid-other"}}
			}
			v.Claims = append(v.Claims, claimName)
			v.ClaimPre = append(v.ClaimPre, pre)
			objs = append(objs, claim)
			br.Spec.ResourceClaimAllocations = append(br.Spec.ResourceClaimAllocations, schedulingv1alpha2.ResourceClaimAllocation{Name: podClaim, Allocation: alloc})
		}
	}

	// ---- request bookkeeping
	switch r.IntN(5) {
	case 0:
		v.Backoff = "nil"
	case 1:
		v.Backoff = "0"
		br.Spec.BackoffLimit = ptr.To(int32(0))
	case 2:
		v.Backoff = "1"
		br.Spec.BackoffLimit = ptr.To(int32(1))
	case 3:
		v.Backoff = "3"
		br.Spec.BackoffLimit = ptr.To(int32(3))
	default:
		v.Backoff = "5"
		br.Spec.BackoffLimit = ptr.To(int32(5))
	}
	switch r.IntN(5) {
	case 0:
		v.InitPhase = "Pending"
		br.Status.Phase = schedulingv1alpha2.BindRequestPhasePending
	case 1:
		v.InitPhase = "Failed"
		br.Status.Phase = schedulingv1alpha2.BindRequestPhaseFailed
		br.Status.Reason = "earlier attempt failed"
		br.Status.FailedAttempts = 1
	default:
		v.InitPhase = ""
	}
	v.KeepProc = p(0.4)
	v.NoopNode = pick(r, nodeB, nodeB, nodeA)

	objs = append(objs, pod, br)
	v.Objs = objs
	v.BR = br
	return v, nil
}

// fractionContainer: the container the fraction request applies to (the webhook's and the binder's convention).
func fractionContainer(pod *v1.Pod) *v1.Container {
	name, ok := pod.Annotations[fracContAnnot]
	if ok {
		for i := range pod.Spec.InitContainers {
			if pod.Spec.InitContainers[i].Name == name {
				return &pod.Spec.InitContainers[i]
			}
		}
		for i := range pod.Spec.Containers {
			if pod.Spec.Containers[i].Name == name {
				return &pod.Spec.Containers[i]
			}
		}
	}
	return &pod.Spec.Containers[0]
}

// capabilitiesCMName: the config map the pod's GPU_PORTION env var reads (written into the spec by the webhook).
func capabilitiesCMName(pod *v1.Pod) string {
	for _, e := range fractionContainer(pod).Env {
		if e.Name == "GPU_PORTION" && e.ValueFrom != nil && e.ValueFrom.ConfigMapKeyRef != nil {
			return e.ValueFrom.ConfigMapKeyRef.Name
		}
	}
	return ""
}
