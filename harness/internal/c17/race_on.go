//go:build race

package c17

const raceEnabled = true
