package c17

import (
	"crypto/sha256"
	"encoding/hex"
	"encoding/json"
	"fmt"

	"verif/harness/internal/gen"
)

// Plan is the canonical input of one case: the objects, the concurrency level, the world events and the faults.
// It is a pure function of (seed, index, tier). The interleaving itself is decided at run time by the per-actor PCG
// streams (gen.NewRand(seed, index, stream(actor name))) that choose yield / sleep at every client call.
type Plan struct {
	Seed  int64  `json:"seed"`
	Index int    `json:"index"`
	Tier  string `json:"tier"`

	Nodes   []NodePlan  `json:"nodes"`
	Groups  []GroupPlan `json:"groups"`
	Pods    []PodPlan   `json:"pods"`
	Workers int         `json:"workers"` // MaxConcurrentReconciles of the BindRequest controller
	// PodResources: the binder runs with --resource-reservation-pod-resources (a non-nil *ResourceRequirements
	// handed to resourcereservation.NewService), as a cluster admin may configure.
	PodResources bool         `json:"podResources"`
	MaxAttempts  int          `json:"maxAttempts"` // reconciles per BindRequest and binder process before the harness stops requeueing
	Crash        *CrashPlan   `json:"crash,omitempty"`
	RsvLoss      *RsvLossPlan `json:"reservationLoss,omitempty"`
}

type NodePlan struct {
	Name string `json:"name"`
	GPUs int    `json:"gpus"`
	// Busy: device indices held by whole-GPU workloads that are not part of the case; the kubelet stand-in never
	// hands them to a reservation pod.
	Busy []int `json:"busyDevices,omitempty"`
}

type GroupPlan struct {
	Name string `json:"name"`
	Node string `json:"node"`
}

type PodPlan struct {
	Name         string   `json:"name"`
	Node         string   `json:"node"`
	Groups       []string `json:"groups"` // BindRequest.spec.selectedGPUGroups, in this order
	Multi        bool     `json:"multi"`  // gpu-fraction-num-devices > 1
	EnvRef       bool     `json:"envRef"` // container spec already carries NVIDIA_VISIBLE_DEVICES from the capabilities ConfigMap
	BRDelayUs    int      `json:"brDelayUs"`
	BindFailures int      `json:"bindFailures"` // the first k pods/binding calls for this pod are rejected
	// Fate: stay | succeeded | succeeded-unseen | failed | rejected | delete-after-run | delete-graceful | delete-at
	Fate         string `json:"fate"`
	FateDelayUs  int    `json:"fateDelayUs"`            // after the pod became Running (succeeded/failed/delete-after-run)
	DeleteAtUs   int    `json:"deleteAtUs,omitempty"`   // absolute, fate delete-at
	BRDeleteAtUs int    `json:"brDeleteAtUs,omitempty"` // absolute; 0 = the BindRequest is only removed by the garbage collector
}

// CrashPlan: the binder process dies immediately before the AtCall-th client call that the goroutine which
// created the NthCreate-th reservation pod makes after that Create (1 = the Watch, 2 = the consumer label Patch,
// 3 = the first call after labelling). A fresh process (new service, new group mutex, new reconcilers, start-up
// Sync) starts RestartDelayUs later.
type CrashPlan struct {
	NthCreate      int `json:"nthCreate"`
	AtCall         int `json:"atCall"`
	RestartDelayUs int `json:"restartDelayUs"`
}

// RsvLossPlan: something other than the binder removes a reservation pod (eviction, node pressure, an admin). The
// binder is restarted at the end of such a case so that "the sync that follows" is the start-up Sync.
type RsvLossPlan struct {
	Group      string `json:"group"`
	NthRunning int    `json:"nthRunning"` // fires after the n-th consumer of the group became Running ...
	DelayUs    int    `json:"delayUs"`    // ... plus this delay
}

func genPlan(seed int64, index int, tier string) *Plan {
	r := gen.NewRand(seed, index, 1)
	p := &Plan{Seed: seed, Index: index, Tier: tier, MaxAttempts: 4}
	nNodes := 1 + r.IntN(2)
	for i := 0; i < nNodes; i++ {
		n := NodePlan{Name: fmt.Sprintf("n%d", i), GPUs: 8}
		switch r.IntN(3) {
		case 1:
			n.Busy = []int{0}
		case 2:
			n.Busy = []int{0, 1}
		}
		p.Nodes = append(p.Nodes, n)
	}
	nGroups := 1 + r.IntN(3)
	oneNode := r.IntN(100) < 60
	byNode := map[string][]string{}
	for i := 0; i < nGroups; i++ {
		node := p.Nodes[0].Name
		if !oneNode {
			node = p.Nodes[r.IntN(nNodes)].Name
		}
		g := GroupPlan{Name: fmt.Sprintf("gpu%c", 'a'+i), Node: node}
		p.Groups = append(p.Groups, g)
		byNode[node] = append(byNode[node], g.Name)
	}
	var usable []string
	for _, n := range p.Nodes {
		if len(byNode[n.Name]) > 0 {
			usable = append(usable, n.Name)
		}
	}
	nPods := 2 + r.IntN(5)
	for i := 0; i < nPods; i++ {
		node := usable[r.IntN(len(usable))]
		gs := append([]string(nil), byNode[node]...)
		r.Shuffle(len(gs), func(a, b int) { gs[a], gs[b] = gs[b], gs[a] })
		pp := PodPlan{Name: fmt.Sprintf("p%d", i), Node: node, EnvRef: r.IntN(2) == 0}
		if len(gs) >= 2 && r.IntN(100) < 45 {
			k := 2
			if len(gs) >= 3 && r.IntN(2) == 0 {
				k = 3
			}
			pp.Multi, pp.Groups = true, gs[:k]
		} else {
			pp.Groups = gs[:1]
		}
		if r.IntN(100) < 70 {
			pp.BRDelayUs = r.IntN(8000)
		} else {
			pp.BRDelayUs = 10000 + r.IntN(30000)
		}
		switch x := r.IntN(100); {
		case x < 70:
		case x < 90:
			pp.BindFailures = 1
		default:
			pp.BindFailures = 2
		}
		switch x := r.IntN(100); {
		case x < 30:
			pp.Fate = "stay"
		case x < 44:
			pp.Fate = "succeeded"
		case x < 50:
			pp.Fate = "succeeded-unseen" // Pending -> Succeeded: the Running state was never observed (short pod, re-list)
		case x < 55:
			pp.Fate = "failed"
		case x < 60:
			pp.Fate = "rejected" // Pending -> Failed: the kubelet rejects the bound pod (admission error, eviction before start)
		case x < 68:
			pp.Fate = "delete-after-run"
		case x < 75:
			pp.Fate = "delete-graceful" // deleted while running: terminating (deletionTimestamp set, still Running) for a grace period, then gone
		default:
			pp.Fate = "delete-at"
			pp.DeleteAtUs = 1 + r.IntN(30000)
		}
		pp.FateDelayUs = r.IntN(15000)
		if r.IntN(100) < 12 {
			pp.BRDeleteAtUs = 1 + r.IntN(40000)
		}
		p.Pods = append(p.Pods, pp)
	}
	p.Workers = 2 + r.IntN(7)
	p.PodResources = r.IntN(2) == 0
	if r.IntN(100) < 25 {
		p.Crash = &CrashPlan{NthCreate: 1, AtCall: 1 + r.IntN(3), RestartDelayUs: r.IntN(5000)}
		if r.IntN(3) == 0 {
			p.Crash.NthCreate = 2 + r.IntN(2)
		}
	}
	if r.IntN(100) < 15 {
		p.RsvLoss = &RsvLossPlan{Group: p.Pods[r.IntN(len(p.Pods))].Groups[0], NthRunning: 1 + r.IntN(2), DelayUs: r.IntN(6000)}
	}
	return p
}

func (p *Plan) hash() string {
	b, _ := json.Marshal(p)
	h := sha256.Sum256(b)
	return hex.EncodeToString(h[:8])
}

func (p *Plan) pod(name string) *PodPlan {
	for i := range p.Pods {
		if p.Pods[i].Name == name {
			return &p.Pods[i]
		}
	}
	return nil
}

func (p *Plan) groupNode(g string) string {
	for _, x := range p.Groups {
		if x.Name == g {
			return x.Node
		}
	}
	return ""
}
