package c17

import (
	"context"
	"errors"
	"fmt"
	"hash/fnv"
	"math/rand/v2"
	"runtime"
	"sort"
	"strconv"
	"strings"
	"sync"
	"sync/atomic"
	"time"

	v1 "k8s.io/api/core/v1"
	apierrors "k8s.io/apimachinery/pkg/api/errors"
	"k8s.io/apimachinery/pkg/api/resource"
	metav1 "k8s.io/apimachinery/pkg/apis/meta/v1"
	"k8s.io/apimachinery/pkg/fields"
	"k8s.io/apimachinery/pkg/selection"
	"k8s.io/apimachinery/pkg/types"
	"k8s.io/apimachinery/pkg/watch"
	"sigs.k8s.io/controller-runtime/pkg/client"
	crfake "sigs.k8s.io/controller-runtime/pkg/client/fake"
	"sigs.k8s.io/controller-runtime/pkg/client/interceptor"

	schedulingv1alpha2 "github.com/NVIDIA/KAI-scheduler/pkg/apis/scheduling/v1alpha2"

	"verif/harness/internal/gen"
	"verif/harness/internal/spec"
	"verif/harness/internal/store"
)

const (
	workNS         = "work"
	labelGroup     = "runai-gpu-group"
	labelGroupPfx  = "runai-gpu-group/"
	annCMPrefix    = "runai/shared-gpu-configmap"
	annFraction    = "gpu-fraction"
	annNumDevices  = "gpu-fraction-num-devices"
	visibleDevices = "NVIDIA_VISIBLE_DEVICES"
	gpuResource    = "nvidia.com/gpu"
)

var errDead = errors.New("injected crash: the binder process is gone, the call never reached the API server")

// callRec is one entry of the global order of client calls (the API server's point of view).
type callRec struct {
	Seq   int64  `json:"t"`
	Actor string `json:"actor"`
	Kind  string `json:"call"`
	Obj   string `json:"obj"`
	Err   string `json:"err,omitempty"`
}

// actor is one goroutine that talks to the API store: a reconcile worker, an event-delivery goroutine, the start-up
// Sync of a binder process, or a part of the world (scheduler, user, kubelet, garbage collector).
type actor struct {
	name string
	proc *proc // nil for world actors
	rnd  *rand.Rand

	// monitor state, only touched by the actor's own goroutine
	reserve     *opRec           // open ReserveGpuDevice
	sync        *opRec           // open per-group sync (derived from the calls of syncForGpuGroupWithLock)
	via         string           // enclosing Interface method
	pendingSync map[string]int64 // SyncForGpuGroup(g) entered at this stamp, its List not yet seen
	gosched     int
	sleeps      int
}

type target struct {
	kind     string // "pod" | "br" | ""
	ns, name string
}

// world is the API server, the kubelet, the garbage collector, the scheduler and the users of one case.
type world struct {
	plan *Plan
	st   *store.Store
	base client.WithWatch // controller-runtime fake client over the shared tracker; only used under mu
	t0   time.Time

	mu          sync.Mutex // the API server: every call is atomic
	clock       atomic.Int64
	act         atomic.Int64 // bumped at every hand-off of work; used for a consistent quiescence snapshot
	calls       []callRec
	devs        map[string]map[int]string // node -> device index -> reservation pod name
	rsvIdx      map[string]string         // reservation pod name -> device index given by the kubelet stand-in
	rsvGroup    map[string]string         // reservation pod name -> group
	watchers    map[*rsvWatcher]bool
	bindFail    map[string]int
	cur         *proc
	procs       []*proc
	crashArm    *actor
	crashRem    int
	crashed     bool
	rsvMade     int
	runningSeen int
	rsvBorn     map[string]*span
	rsvSpans    map[string][]*span            // group -> lifetimes of its reservation pods
	runSpans    map[string]map[string][]*span // group -> consumer -> intervals in which it carried the group and was Running
	rsvLost     map[string]bool
	bindOK      map[string]bool // consumer -> pods/binding succeeded
	anoms       []string        // harness self-checks that failed
	notes       []string        // observations that are not verdicts
	cmBind      []cmObs         // ConfigMap observations at bind time
	kubRnd      *rand.Rand      // kubelet stand-in stream (reservation pods), under mu

	hist *history

	actors    sync.Map // goroutine id -> *actor
	wg        sync.WaitGroup
	worldBusy atomic.Int64
	counters  sync.Map // string -> *atomic.Int64
}

// span is a closed interval of logical time; To == 0 means "until the end".
type span struct{ From, To int64 }

type cmObs struct {
	Pod    string   `json:"pod"`
	Groups []string `json:"groups"`
	Want   string   `json:"want"`
	Got    string   `json:"got"`
	CM     string   `json:"cm"`
	When   string   `json:"when"`
}

func (w *world) count(k string, n int64) {
	v, ok := w.counters.Load(k)
	if !ok {
		v, _ = w.counters.LoadOrStore(k, new(atomic.Int64))
	}
	v.(*atomic.Int64).Add(n)
}

func (w *world) tick() int64 { return w.clock.Add(1) }

func goid() int64 {
	var buf [64]byte
	n := runtime.Stack(buf[:], false)
	s := strings.TrimPrefix(string(buf[:n]), "goroutine ")
	if i := strings.IndexByte(s, ' '); i > 0 {
		id, _ := strconv.ParseInt(s[:i], 10, 64)
		return id
	}
	return 0
}

func streamOf(name string) uint64 {
	h := fnv.New64a()
	_, _ = h.Write([]byte(name))
	return 1000 + h.Sum64()%1_000_000
}

func (w *world) newActor(name string, p *proc) *actor {
	return &actor{name: name, proc: p, rnd: gen.NewRand(w.plan.Seed, w.plan.Index, streamOf(name)), pendingSync: map[string]int64{}}
}

var mainActor = &actor{name: "main", pendingSync: map[string]int64{}}

func (w *world) actor() *actor {
	if a, ok := w.actors.Load(goid()); ok {
		return a.(*actor)
	}
	return mainActor
}

// spawn starts a goroutine as a named actor. world=true counts it as outstanding world work (for quiescence).
func (w *world) spawn(name string, p *proc, worldWork bool, f func(a *actor)) {
	a := w.newActor(name, p)
	w.wg.Add(1)
	if worldWork {
		w.worldBusy.Add(1)
	}
	w.act.Add(1)
	go func() {
		id := goid()
		w.actors.Store(id, a)
		defer func() {
			w.actors.Delete(id)
			w.count("gosched", int64(a.gosched))
			w.count("sleeps", int64(a.sleeps))
			if worldWork {
				w.act.Add(1)
				w.worldBusy.Add(-1)
			}
			w.wg.Done()
		}()
		f(a)
	}()
}

// pace is the schedule decision at a client call: nothing, runtime.Gosched(), or a 0-2 ms sleep, drawn from the
// actor's own PCG stream.
func (a *actor) pace(kind string) {
	if a.rnd == nil {
		return
	}
	x := a.rnd.IntN(100)
	if kind == "create" && x >= 30 {
		x = 99 // writes that create objects are the longest API calls: sleep in 70% of them
	}
	switch {
	case x < 35:
	case x < 75:
		a.gosched++
		runtime.Gosched()
	default:
		a.sleeps++
		time.Sleep(time.Duration(a.rnd.IntN(2001)) * time.Microsecond)
	}
}

func (w *world) sleepUntil(us int) {
	d := time.Duration(us)*time.Microsecond - time.Since(w.t0)
	if d > 0 {
		time.Sleep(d)
	}
}

func errClass(err error) string {
	switch {
	case err == nil:
		return ""
	case errors.Is(err, errDead):
		return "dead"
	case apierrors.IsNotFound(err):
		return "notfound"
	case apierrors.IsConflict(err):
		return "conflict"
	case apierrors.IsAlreadyExists(err):
		return "exists"
	default:
		s := err.Error()
		if len(s) > 60 {
			s = s[:60]
		}
		return s
	}
}

func newWorld(plan *Plan) (*world, error) {
	w := &world{plan: plan, st: store.New(), devs: map[string]map[int]string{}, rsvIdx: map[string]string{}, rsvGroup: map[string]string{},
		watchers: map[*rsvWatcher]bool{}, bindFail: map[string]int{}, rsvLost: map[string]bool{}, bindOK: map[string]bool{},
		rsvBorn: map[string]*span{}, rsvSpans: map[string][]*span{}, runSpans: map[string]map[string][]*span{}, hist: &history{}, kubRnd: gen.NewRand(plan.Seed, plan.Index, 7)}
	w.base = crfake.NewClientBuilder().WithScheme(w.st.Scheme).WithObjectTracker(w.st.Tracker).
		WithStatusSubresource(&schedulingv1alpha2.BindRequest{}).
		WithIndex(&v1.Pod{}, "spec.nodeName", func(o client.Object) []string {
			if n := o.(*v1.Pod).Spec.NodeName; n != "" {
				return []string{n}
			}
			return nil
		}).Build()
	for _, n := range plan.Nodes {
		alloc := v1.ResourceList{v1.ResourceCPU: resource.MustParse("256"), v1.ResourceMemory: resource.MustParse("1Ti"),
			v1.ResourcePods: resource.MustParse("500"), gpuResource: *resource.NewQuantity(int64(n.GPUs), resource.DecimalSI)}
		node := &v1.Node{ObjectMeta: metav1.ObjectMeta{Name: n.Name, UID: types.UID("node-" + n.Name), Labels: map[string]string{
			"kubernetes.io/hostname": n.Name, "nvidia.com/gpu.count": strconv.Itoa(n.GPUs), "nvidia.com/gpu.memory": "40000"}},
			Status: v1.NodeStatus{Allocatable: alloc, Capacity: alloc.DeepCopy(), Conditions: []v1.NodeCondition{{Type: v1.NodeReady, Status: v1.ConditionTrue}}}}
		if err := w.st.Add(node); err != nil {
			return nil, err
		}
		w.devs[n.Name] = map[int]string{}
		for _, b := range n.Busy {
			w.devs[n.Name][b] = "(whole-gpu workload)"
		}
	}
	for i := range plan.Pods {
		pp := &plan.Pods[i]
		if err := w.st.Add(consumerPod(pp)); err != nil {
			return nil, err
		}
		w.bindFail[pp.Name] = pp.BindFailures
	}
	return w, nil
}

// consumerPod is a fractional pod as it looks after KAI's admission mutation and before binding.
func consumerPod(pp *PodPlan) *v1.Pod {
	ann := map[string]string{annFraction: "0.25", annCMPrefix: pp.Name + "-cfg-shared-gpu"}
	if pp.Multi {
		ann[annNumDevices] = strconv.Itoa(len(pp.Groups))
	}
	c := v1.Container{Name: "main", Image: "img", Resources: v1.ResourceRequirements{Requests: v1.ResourceList{v1.ResourceCPU: resource.MustParse("100m")}}}
	if pp.EnvRef {
		c.Env = []v1.EnvVar{{Name: visibleDevices, ValueFrom: &v1.EnvVarSource{ConfigMapKeyRef: &v1.ConfigMapKeySelector{
			Key: visibleDevices, LocalObjectReference: v1.LocalObjectReference{Name: cmName(pp)}}}}}
	}
	return &v1.Pod{ObjectMeta: metav1.ObjectMeta{Name: pp.Name, Namespace: workNS, UID: types.UID("uid-" + pp.Name), Annotations: ann},
		Spec:   v1.PodSpec{SchedulerName: spec.SchedulerName, Containers: []v1.Container{c}},
		Status: v1.PodStatus{Phase: v1.PodPending}}
}

// cmName: the ConfigMap that carries NVIDIA_VISIBLE_DEVICES for the pod's fraction container (index 0).
func cmName(pp *PodPlan) string {
	base := pp.Name + "-cfg-shared-gpu-0"
	if pp.EnvRef {
		return base
	}
	return base + "-evar"
}

func bindRequestFor(pp *PodPlan) *schedulingv1alpha2.BindRequest {
	return &schedulingv1alpha2.BindRequest{
		ObjectMeta: metav1.ObjectMeta{Name: pp.Name, Namespace: workNS, Labels: map[string]string{"selected-node": pp.Node},
			OwnerReferences: []metav1.OwnerReference{{APIVersion: "v1", Kind: "Pod", Name: pp.Name, UID: types.UID("uid-" + pp.Name)}}},
		Spec: schedulingv1alpha2.BindRequestSpec{PodName: pp.Name, SelectedNode: pp.Node, SelectedGPUGroups: append([]string(nil), pp.Groups...),
			ReceivedResourceType: "Fraction", ReceivedGPU: &schedulingv1alpha2.ReceivedGPU{Count: len(pp.Groups), Portion: "0.25"}},
	}
}

// ------------------------------------------------------------------ the API server

func groupsOf(labels map[string]string) []string {
	var out []string
	if g, ok := labels[labelGroup]; ok {
		out = append(out, g)
	}
	for k, v := range labels {
		if strings.HasPrefix(k, labelGroupPfx) {
			out = append(out, v)
		}
	}
	sort.Strings(out)
	return out
}

// liveGroups: the GPU groups a consumer pod occupies (either label form, phase Pending or Running).
func liveGroups(p *v1.Pod) map[string]bool {
	out := map[string]bool{}
	if p == nil || p.Namespace == spec.ReservationNS {
		return out
	}
	if p.Status.Phase != v1.PodPending && p.Status.Phase != v1.PodRunning {
		return out
	}
	for _, g := range groupsOf(p.Labels) {
		out[g] = true
	}
	return out
}

// runningGroups: the groups a Running consumer carries.
func runningGroups(p *v1.Pod) map[string]bool {
	if p == nil || p.Status.Phase != v1.PodRunning {
		return map[string]bool{}
	}
	return liveGroups(p)
}

func (w *world) objLabel(obj client.Object, key client.ObjectKey) string {
	name, ns := key.Name, key.Namespace
	if obj != nil && name == "" {
		name, ns = obj.GetName(), obj.GetNamespace()
	}
	switch obj.(type) {
	case *v1.Pod:
		if ns == spec.ReservationNS {
			if g := obj.GetLabels()[labelGroup]; g != "" {
				return "rsv:" + g
			}
			return "rsv:?"
		}
		return "pod:" + name
	case *v1.ConfigMap:
		return "cm:" + name
	case *schedulingv1alpha2.BindRequest:
		return "br:" + name
	case *v1.Node:
		return "node:" + name
	}
	return fmt.Sprintf("%T:%s", obj, name)
}

type listInfo struct {
	label   string
	syncOf  string // "g" when this is syncForGpuGroupWithLock's first List (all namespaces, runai-gpu-group = g)
	multiOf string // "g" when this is its second List (runai-gpu-group/g = g)
}

func describeList(list client.ObjectList, opts []client.ListOption) listInfo {
	lo := client.ListOptions{}
	lo.ApplyOptions(opts)
	li := listInfo{}
	kind := strings.TrimSuffix(fmt.Sprintf("%T", list), "List")
	kind = kind[strings.LastIndexByte(kind, '.')+1:]
	sel := ""
	if lo.LabelSelector != nil {
		sel = lo.LabelSelector.String()
		if reqs, ok := lo.LabelSelector.Requirements(); ok && len(reqs) == 1 && lo.Namespace == "" && lo.FieldSelector == nil {
			r := reqs[0]
			if (r.Operator() == selection.Equals || r.Operator() == selection.DoubleEquals || r.Operator() == selection.In) && r.Values().Len() == 1 {
				val := r.Values().List()[0]
				if r.Key() == labelGroup {
					li.syncOf = val
				} else if r.Key() == labelGroupPfx+val {
					li.multiOf = val
				}
			}
		}
	}
	f := ""
	if lo.FieldSelector != nil {
		f = lo.FieldSelector.String()
	}
	li.label = fmt.Sprintf("list:%s[ns=%s,l=%s,f=%s]", kind, lo.Namespace, sel, f)
	return li
}

// call executes one client call against the API store. It is the only place where the store is touched.
// The schedule decision (pace) happens before the call takes effect; the call itself is atomic.
func (w *world) call(p *proc, kind string, obj string, tg *target, li *listInfo, fn func() error) error {
	a := w.actor()
	entry := w.tick()
	a.pace(kind)
	w.mu.Lock()
	defer w.mu.Unlock()
	w.act.Add(1)
	seq := w.tick()
	if p != nil {
		if !p.dead.Load() && w.crashArm == a && p == w.cur {
			w.crashRem--
			if w.crashRem <= 0 {
				w.crashLocked(p, a, kind, obj)
			}
		}
		if p.dead.Load() {
			w.calls = append(w.calls, callRec{Seq: seq, Actor: a.name, Kind: kind, Obj: obj, Err: "dead"})
			w.count("calls_refused_dead_process", 1)
			if a.sync != nil {
				a.sync.Crashed = true
			}
			return errDead
		}
	}
	// monitor: per-group syncs are recognised by the calls syncForGpuGroupWithLock makes
	w.observeSyncCall(a, entry, kind, tg, li)

	var oldPod *v1.Pod
	var oldBR *schedulingv1alpha2.BindRequest
	write := kind != "get" && kind != "list" && kind != "watch"
	if write && tg != nil {
		switch tg.kind {
		case "pod":
			oldPod = w.getPod(tg.ns, tg.name)
		case "br":
			oldBR = w.getBR(tg.ns, tg.name)
		}
	}
	err := fn()
	w.calls = append(w.calls, callRec{Seq: seq, Actor: a.name, Kind: kind, Obj: obj, Err: errClass(err)})
	if a.sync != nil && kind == "delete" {
		w.observeSyncDelete(a, tg, err)
	}
	if err == nil && write && tg != nil {
		switch tg.kind {
		case "pod":
			w.afterPodWrite(a, p, kind, oldPod, w.getPod(tg.ns, tg.name))
		case "br":
			w.afterBRWrite(oldBR, w.getBR(tg.ns, tg.name))
		}
	}
	return err
}

func (w *world) getPod(ns, name string) *v1.Pod {
	p := &v1.Pod{}
	if err := w.base.Get(context.Background(), client.ObjectKey{Namespace: ns, Name: name}, p); err != nil {
		return nil
	}
	return p
}

func (w *world) getBR(ns, name string) *schedulingv1alpha2.BindRequest {
	b := &schedulingv1alpha2.BindRequest{}
	if err := w.base.Get(context.Background(), client.ObjectKey{Namespace: ns, Name: name}, b); err != nil {
		return nil
	}
	return b
}

func (w *world) observeSyncCall(a *actor, entry int64, kind string, tg *target, li *listInfo) {
	if kind == "list" && li != nil && li.syncOf != "" {
		a.closeSync(entry)
		callAt := entry
		if t, ok := a.pendingSync[li.syncOf]; ok {
			callAt = t
			delete(a.pendingSync, li.syncOf)
		}
		pr := 0
		if a.proc != nil {
			pr = a.proc.gen
		}
		a.sync = w.hist.add(&opRec{Group: li.syncOf, Kind: "sync", Actor: a.name, Proc: pr, Call: callAt, Via: a.via})
		return
	}
	if a.sync == nil {
		return
	}
	if kind == "list" && li != nil && li.multiOf == a.sync.Group {
		return
	}
	if kind == "delete" && tg != nil && tg.kind == "pod" {
		return // member, classified after the call
	}
	a.closeSync(entry)
}

func (w *world) observeSyncDelete(a *actor, tg *target, err error) {
	if tg == nil || tg.kind != "pod" {
		return
	}
	if tg.ns == spec.ReservationNS {
		a.sync.DelRsv = true
		if err != nil && !apierrors.IsNotFound(err) {
			a.sync.Err = err.Error()
		}
		return
	}
	if err != nil {
		a.sync.Err = err.Error() // deleteNonReservedPods aborts the sync on any error
		return
	}
	a.sync.DelPods = append(a.sync.DelPods, tg.name)
}

// closeSync ends the open per-group sync of the actor: its last call has returned and the actor moved on.
func (a *actor) closeSync(at int64) {
	if a.sync == nil {
		return
	}
	a.sync.Done = at
	if !a.sync.Crashed && a.sync.Err == "" {
		a.sync.Ret = at
		a.sync.OK = true
	}
	a.sync = nil
}

// afterPodWrite runs inside the API server's critical section after a successful write to a pod.
func (w *world) afterPodWrite(a *actor, p *proc, kind string, old, cur *v1.Pod) {
	ref := cur
	if ref == nil {
		ref = old
	}
	if ref == nil {
		return
	}
	now := w.tick()
	if ref.Namespace == spec.ReservationNS {
		w.afterReservationWrite(a, p, old, cur, now)
	} else {
		// occupancy changes of consumers, as the monitor's own reading of the labels
		before, after := liveGroups(old), liveGroups(cur)
		for g := range before {
			if !after[g] {
				cause := "unlabelled"
				switch {
				case cur == nil && a.sync != nil:
					cause = "deleted-by-sync"
				case cur == nil:
					cause = "deleted"
				case cur.Status.Phase == v1.PodSucceeded:
					cause = "succeeded"
				case cur.Status.Phase == v1.PodFailed:
					cause = "failed"
				}
				w.hist.add(&opRec{Group: g, Kind: "end", Actor: a.name, Pod: ref.Name, Call: now, Ret: now, OK: true, Cause: cause})
			}
		}
		rb, ra := runningGroups(old), runningGroups(cur)
		for g := range rb {
			if !ra[g] {
				if l := w.runSpans[g][ref.Name]; len(l) > 0 && l[len(l)-1].To == 0 {
					l[len(l)-1].To = now
				}
			}
		}
		for g := range ra {
			if !rb[g] {
				if w.runSpans[g] == nil {
					w.runSpans[g] = map[string][]*span{}
				}
				w.runSpans[g][ref.Name] = append(w.runSpans[g][ref.Name], &span{From: now})
			}
		}
		for g := range after {
			if !before[g] {
				if a.reserve == nil || a.reserve.Pod != ref.Name || a.reserve.Group != g {
					w.anoms = append(w.anoms, fmt.Sprintf("pod %s started to carry group %s outside a ReserveGpuDevice(%s,%s) call (actor %s, %s)", ref.Name, g, ref.Name, g, a.name, kind))
				} else {
					a.reserve.Labelled = now
				}
			}
		}
		if old != nil && cur != nil && old.Spec.NodeName == "" && cur.Spec.NodeName != "" {
			w.bindOK[cur.Name] = true
			w.count("binds_ok", 1)
			w.checkConfigMap(cur, "at-bind")
			w.startKubelet(cur.Name)
		}
		if cur == nil {
			w.startGC(old)
		}
		if rl := w.plan.RsvLoss; rl != nil && old != nil && cur != nil && old.Status.Phase != v1.PodRunning && cur.Status.Phase == v1.PodRunning && liveGroups(cur)[rl.Group] {
			w.runningSeen++
			if w.runningSeen == rl.NthRunning {
				w.startEviction(rl.Group, time.Duration(rl.DelayUs)*time.Microsecond)
			}
		}
	}
	// deliver to the informer of the running binder process
	if c := w.cur; c != nil && !c.dead.Load() {
		c.pushPodEvent(old, cur)
	}
	for wt := range w.watchers {
		wt.offer(old, cur)
	}
}

func (w *world) afterReservationWrite(a *actor, p *proc, old, cur *v1.Pod, now int64) {
	switch {
	case old == nil && cur != nil: // created: the kubelet admits the pod and the device plugin hands it a free device
		g := cur.Labels[labelGroup]
		node := cur.Spec.NodeName
		idx := -1
		for i := 0; i < 64; i++ {
			if _, used := w.devs[node][i]; !used {
				idx = i
				break
			}
		}
		if w.devs[node] == nil {
			w.devs[node] = map[int]string{}
		}
		w.devs[node][idx] = cur.Name
		w.rsvIdx[cur.Name] = strconv.Itoa(idx)
		w.rsvGroup[cur.Name] = g
		w.rsvMade++
		w.rsvSpans[g] = append(w.rsvSpans[g], &span{From: now})
		w.rsvBorn[cur.Name] = w.rsvSpans[g][len(w.rsvSpans[g])-1]
		w.count("reservation_pods_created", 1)
		if a.reserve != nil && a.reserve.Group == g {
			a.reserve.CreatedIdx = strconv.Itoa(idx)
		}
		if w.plan.Crash != nil && !w.crashed && w.crashArm == nil && p != nil && p.gen == 1 && w.rsvMade == w.plan.Crash.NthCreate {
			w.crashArm, w.crashRem = a, w.plan.Crash.AtCall
		}
		delay := time.Duration(w.kubRnd.IntN(3001)) * time.Microsecond
		name := cur.Name
		w.spawn("kubelet-rsv:"+g+"#"+strconv.Itoa(w.rsvMade), nil, true, func(*actor) {
			time.Sleep(delay)
			_ = w.call(nil, "update", "rsv:"+g, &target{kind: "pod", ns: spec.ReservationNS, name: name}, nil, func() error {
				pod := w.getPod(spec.ReservationNS, name)
				if pod == nil {
					return apierrors.NewNotFound(v1.Resource("pods"), name)
				}
				if pod.Annotations == nil {
					pod.Annotations = map[string]string{}
				}
				pod.Annotations[spec.GpuIndexAnnot] = w.rsvIdx[name]
				return w.base.Update(context.Background(), pod)
			})
		})
	case cur == nil && old != nil: // deleted: the device is free again
		node := old.Spec.NodeName
		for i, n := range w.devs[node] {
			if n == old.Name {
				delete(w.devs[node], i)
			}
		}
		if sp := w.rsvBorn[old.Name]; sp != nil {
			sp.To = now
		}
		w.count("reservation_pods_deleted", 1)
	}
}

// checkConfigMap compares the consumer's NVIDIA_VISIBLE_DEVICES with the device indices on the reservation pods of
// its groups (skipped for groups that do not have exactly one annotated reservation pod: other clauses report that).
func (w *world) checkConfigMap(pod *v1.Pod, when string) {
	pp := w.plan.pod(pod.Name)
	if pp == nil {
		return
	}
	var want []string
	for _, g := range pp.Groups {
		if w.rsvLost[g] {
			return
		}
		rs := w.reservationPods(g)
		if len(rs) != 1 || rs[0].Annotations[spec.GpuIndexAnnot] == "" {
			return
		}
		want = append(want, rs[0].Annotations[spec.GpuIndexAnnot])
	}
	cm := &v1.ConfigMap{}
	got := "(no ConfigMap " + cmName(pp) + ")"
	if err := w.base.Get(context.Background(), client.ObjectKey{Namespace: workNS, Name: cmName(pp)}, cm); err == nil {
		got = cm.Data[visibleDevices]
	}
	w.cmBind = append(w.cmBind, cmObs{Pod: pod.Name, Groups: pp.Groups, Want: strings.Join(want, ","), Got: got, CM: cmName(pp), When: when})
}

func (w *world) reservationPods(g string) []*v1.Pod {
	l := &v1.PodList{}
	_ = w.base.List(context.Background(), l, client.InNamespace(spec.ReservationNS))
	var out []*v1.Pod
	for i := range l.Items {
		if l.Items[i].Labels[labelGroup] == g {
			out = append(out, &l.Items[i])
		}
	}
	return out
}

func (w *world) afterBRWrite(old, cur *schedulingv1alpha2.BindRequest) {
	if c := w.cur; c != nil && !c.dead.Load() {
		c.pushBREvent(old, cur)
	}
}

// ------------------------------------------------------------------ the rest of the cluster

func (w *world) setPhase(name string, phase v1.PodPhase) error {
	return w.call(nil, "status", "pod:"+name, &target{kind: "pod", ns: workNS, name: name}, nil, func() error {
		pod := w.getPod(workNS, name)
		if pod == nil {
			return apierrors.NewNotFound(v1.Resource("pods"), name)
		}
		if pod.Status.Phase == v1.PodSucceeded || pod.Status.Phase == v1.PodFailed {
			return nil
		}
		pod.Status.Phase = phase
		return w.base.Status().Update(context.Background(), pod)
	})
}

func (w *world) deletePod(ns, name, label string) error {
	return w.call(nil, "delete", label, &target{kind: "pod", ns: ns, name: name}, nil, func() error {
		pod := w.getPod(ns, name)
		if pod == nil {
			return apierrors.NewNotFound(v1.Resource("pods"), name)
		}
		return w.base.Delete(context.Background(), pod)
	})
}

const graceFinalizer = "verif/termination-grace"

// terminatePod: the API server marks the pod as terminating (deletionTimestamp); it stays Running until the kubelet
// has stopped it (finishTermination).
func (w *world) terminatePod(name string) error {
	return w.call(nil, "delete", "pod:"+name+" (graceful)", &target{kind: "pod", ns: workNS, name: name}, nil, func() error {
		pod := w.getPod(workNS, name)
		if pod == nil {
			return apierrors.NewNotFound(v1.Resource("pods"), name)
		}
		pod.Finalizers = append(pod.Finalizers, graceFinalizer)
		if err := w.base.Update(context.Background(), pod); err != nil {
			return err
		}
		w.count("graceful_terminations_started", 1)
		return w.base.Delete(context.Background(), pod)
	})
}

func (w *world) finishTermination(name string) error {
	return w.call(nil, "delete", "pod:"+name+" (grace period over)", &target{kind: "pod", ns: workNS, name: name}, nil, func() error {
		pod := w.getPod(workNS, name)
		if pod == nil {
			return apierrors.NewNotFound(v1.Resource("pods"), name)
		}
		pod.Finalizers = nil
		return w.base.Update(context.Background(), pod)
	})
}

func (w *world) deleteBR(name string) error {
	return w.call(nil, "delete", "br:"+name, &target{kind: "br", ns: workNS, name: name}, nil, func() error {
		br := w.getBR(workNS, name)
		if br == nil {
			return apierrors.NewNotFound(schedulingv1alpha2.Resource("bindrequests"), name)
		}
		return w.base.Delete(context.Background(), br)
	})
}

// startKubelet (under mu): the node's kubelet starts a consumer once it is bound, and the workload ends as planned.
func (w *world) startKubelet(name string) {
	pp := w.plan.pod(name)
	w.spawn("kubelet:"+name, nil, true, func(a *actor) {
		time.Sleep(time.Duration(a.rnd.IntN(3001)) * time.Microsecond)
		switch pp.Fate {
		case "rejected", "succeeded-unseen":
			// the pod reaches its terminal phase straight from Pending
			time.Sleep(time.Duration(pp.FateDelayUs) * time.Microsecond)
			ph := v1.PodSucceeded
			if pp.Fate == "rejected" {
				ph = v1.PodFailed
			}
			_ = w.setPhase(name, ph)
			return
		}
		if w.setPhase(name, v1.PodRunning) != nil {
			return
		}
		switch pp.Fate {
		case "succeeded", "failed":
			time.Sleep(time.Duration(pp.FateDelayUs) * time.Microsecond)
			ph := v1.PodSucceeded
			if pp.Fate == "failed" {
				ph = v1.PodFailed
			}
			_ = w.setPhase(name, ph)
		case "delete-after-run":
			time.Sleep(time.Duration(pp.FateDelayUs) * time.Microsecond)
			_ = w.deletePod(workNS, name, "pod:"+name)
		case "delete-graceful":
			time.Sleep(time.Duration(pp.FateDelayUs) * time.Microsecond)
			if w.terminatePod(name) != nil {
				return
			}
			// grace period: the container keeps running on its GPU share
			time.Sleep(time.Duration((pp.FateDelayUs*7919)%20000) * time.Microsecond)
			_ = w.finishTermination(name)
		}
	})
}

// startGC (under mu): the garbage collector removes the dependents of a deleted pod (its BindRequest).
func (w *world) startGC(pod *v1.Pod) {
	name := pod.Name
	w.spawn("gc:"+name, nil, true, func(a *actor) {
		time.Sleep(time.Duration(a.rnd.IntN(3001)) * time.Microsecond)
		_ = w.deleteBR(name)
	})
}

// startPlanActors: the scheduler writes the BindRequests; users delete pods and BindRequests; a reservation pod is lost.
func (w *world) startPlanActors() {
	for i := range w.plan.Pods {
		pp := &w.plan.Pods[i]
		w.spawn("sched:"+pp.Name, nil, true, func(a *actor) {
			w.sleepUntil(pp.BRDelayUs)
			_ = w.call(nil, "create", "br:"+pp.Name, &target{kind: "br", ns: workNS, name: pp.Name}, nil, func() error {
				if w.getPod(workNS, pp.Name) == nil {
					return apierrors.NewNotFound(v1.Resource("pods"), pp.Name) // the scheduler only binds pods it sees
				}
				return w.base.Create(context.Background(), bindRequestFor(pp))
			})
		})
		if pp.Fate == "delete-at" {
			w.spawn("user:"+pp.Name, nil, true, func(a *actor) {
				w.sleepUntil(pp.DeleteAtUs)
				_ = w.deletePod(workNS, pp.Name, "pod:"+pp.Name)
			})
		}
		if pp.BRDeleteAtUs > 0 {
			w.spawn("brdel:"+pp.Name, nil, true, func(a *actor) {
				w.sleepUntil(pp.BRDeleteAtUs)
				_ = w.deleteBR(pp.Name)
			})
		}
	}
}

// startEviction (under mu): something other than the binder removes the (annotated) reservation pod of a group.
func (w *world) startEviction(group string, delay time.Duration) {
	w.spawn("evict:"+group, nil, true, func(a *actor) {
		time.Sleep(delay)
		name := ""
		w.mu.Lock()
		for _, r := range w.reservationPods(group) {
			if r.Annotations[spec.GpuIndexAnnot] != "" {
				name = r.Name
			}
		}
		w.mu.Unlock()
		if name == "" {
			return
		}
		err := w.call(nil, "delete", "rsv:"+group, &target{kind: "pod", ns: spec.ReservationNS, name: name}, nil, func() error {
			pod := w.getPod(spec.ReservationNS, name)
			if pod == nil {
				return apierrors.NewNotFound(v1.Resource("pods"), name)
			}
			if err := w.base.Delete(context.Background(), pod); err != nil {
				return err
			}
			now := w.tick()
			w.rsvLost[group] = true
			w.hist.add(&opRec{Group: group, Kind: "rsvlost", Actor: a.name, Call: now, Ret: now, OK: true})
			return nil
		})
		if err == nil {
			w.count("reservation_pods_lost_externally", 1)
		}
	})
}

// ------------------------------------------------------------------ watch (reservation pod allocation)

type rsvWatcher struct {
	w        *world
	p        *proc
	ns, name string
	sel      fields.Selector // field selector of the watch, evaluated like the API server does for pods
	ch       chan watch.Event
	closed   bool
}

// podFields: the selectable fields of a pod (the set the API server supports for pods that matter here).
func podFields(p *v1.Pod) fields.Set {
	return fields.Set{"metadata.name": p.Name, "metadata.namespace": p.Namespace, "spec.nodeName": p.Spec.NodeName,
		"spec.schedulerName": p.Spec.SchedulerName, "status.phase": string(p.Status.Phase), "spec.serviceAccountName": p.Spec.ServiceAccountName}
}

func (wt *rsvWatcher) matches(p *v1.Pod) bool {
	if p.Namespace != wt.ns || (wt.name != "" && p.Name != wt.name) {
		return false
	}
	return wt.sel == nil || wt.sel.Matches(podFields(p))
}

func (wt *rsvWatcher) Stop() {
	wt.w.mu.Lock()
	defer wt.w.mu.Unlock()
	wt.closeLocked()
}

func (wt *rsvWatcher) closeLocked() {
	if !wt.closed {
		wt.closed = true
		close(wt.ch)
		delete(wt.w.watchers, wt)
	}
}

func (wt *rsvWatcher) ResultChan() <-chan watch.Event { return wt.ch }

func (wt *rsvWatcher) offer(old, cur *v1.Pod) {
	if wt.closed {
		return
	}
	ref, typ := cur, watch.Modified
	switch {
	case cur == nil:
		ref, typ = old, watch.Deleted
	case old == nil:
		typ = watch.Added
	}
	if !wt.matches(ref) {
		return
	}
	select {
	case wt.ch <- watch.Event{Type: typ, Object: ref.DeepCopy()}:
	default:
		wt.w.count("watch_events_dropped", 1)
	}
}

// newWatcherLocked: list + watch in one atomic step, as an API server watch without resourceVersion does.
func (w *world) newWatcherLocked(p *proc, ns, name string, sel fields.Selector) *rsvWatcher {
	wt := &rsvWatcher{w: w, p: p, ns: ns, name: name, sel: sel, ch: make(chan watch.Event, 256)}
	l := &v1.PodList{}
	_ = w.base.List(context.Background(), l, client.InNamespace(ns))
	for i := range l.Items {
		if wt.matches(&l.Items[i]) {
			wt.ch <- watch.Event{Type: watch.Added, Object: l.Items[i].DeepCopy()}
		}
	}
	w.watchers[wt] = true
	return wt
}

// ------------------------------------------------------------------ client of one binder process

type bindingBody = v1.Binding

func (w *world) clientFor(p *proc) client.WithWatch {
	tgt := func(obj client.Object) *target {
		switch obj.(type) {
		case *v1.Pod:
			return &target{kind: "pod", ns: obj.GetNamespace(), name: obj.GetName()}
		case *schedulingv1alpha2.BindRequest:
			return &target{kind: "br", ns: obj.GetNamespace(), name: obj.GetName()}
		}
		return nil
	}
	funcs := interceptor.Funcs{
		Get: func(ctx context.Context, c client.WithWatch, key client.ObjectKey, obj client.Object, opts ...client.GetOption) error {
			return w.call(p, "get", w.objLabel(obj, key), nil, nil, func() error { return c.Get(ctx, key, obj, opts...) })
		},
		List: func(ctx context.Context, c client.WithWatch, list client.ObjectList, opts ...client.ListOption) error {
			li := describeList(list, opts)
			return w.call(p, "list", li.label, nil, &li, func() error { return c.List(ctx, list, opts...) })
		},
		Create: func(ctx context.Context, c client.WithWatch, obj client.Object, opts ...client.CreateOption) error {
			return w.call(p, "create", w.objLabel(obj, client.ObjectKey{}), tgt(obj), nil, func() error { return c.Create(ctx, obj, opts...) })
		},
		Delete: func(ctx context.Context, c client.WithWatch, obj client.Object, opts ...client.DeleteOption) error {
			return w.call(p, "delete", w.objLabel(obj, client.ObjectKey{}), tgt(obj), nil, func() error { return c.Delete(ctx, obj, opts...) })
		},
		Update: func(ctx context.Context, c client.WithWatch, obj client.Object, opts ...client.UpdateOption) error {
			return w.call(p, "update", w.objLabel(obj, client.ObjectKey{}), tgt(obj), nil, func() error { return c.Update(ctx, obj, opts...) })
		},
		Patch: func(ctx context.Context, c client.WithWatch, obj client.Object, patch client.Patch, opts ...client.PatchOption) error {
			return w.call(p, "patch", w.objLabel(obj, client.ObjectKey{}), tgt(obj), nil, func() error { return c.Patch(ctx, obj, patch, opts...) })
		},
		Watch: func(ctx context.Context, c client.WithWatch, list client.ObjectList, opts ...client.ListOption) (watch.Interface, error) {
			lo := client.ListOptions{}
			lo.ApplyOptions(opts)
			name := ""
			if lo.FieldSelector != nil {
				name, _ = lo.FieldSelector.RequiresExactMatch("metadata.name")
			}
			var wt *rsvWatcher
			err := w.call(p, "watch", "watch:pods[ns="+lo.Namespace+"]", nil, nil, func() error {
				wt = w.newWatcherLocked(p, lo.Namespace, name, lo.FieldSelector)
				return nil
			})
			if err != nil {
				return nil, err
			}
			return wt, nil
		},
		SubResourceCreate: func(ctx context.Context, c client.Client, sub string, obj client.Object, body client.Object, opts ...client.SubResourceCreateOption) error {
			if sub != "binding" {
				return fmt.Errorf("sub-resource %q: create not supported by the harness", sub)
			}
			bd, ok := body.(*bindingBody)
			if !ok {
				return fmt.Errorf("binding sub-resource: unexpected body %T", body)
			}
			return w.call(p, "bind", "pod:"+obj.GetName(), tgt(obj), nil, func() error {
				if w.bindFail[obj.GetName()] > 0 {
					w.bindFail[obj.GetName()]--
					w.count("binding_rejected_injected", 1)
					return apierrors.NewInternalError(errors.New("injected: pods/binding rejected"))
				}
				pod := w.getPod(obj.GetNamespace(), obj.GetName())
				if pod == nil {
					return apierrors.NewNotFound(v1.Resource("pods"), obj.GetName())
				}
				if pod.Spec.NodeName != "" {
					return apierrors.NewConflict(v1.Resource("pods/binding"), pod.Name, fmt.Errorf("pod is already assigned to node %q", pod.Spec.NodeName))
				}
				pod.Spec.NodeName = bd.Target.Name
				return w.base.Update(ctx, pod)
			})
		},
		SubResourceUpdate: func(ctx context.Context, c client.Client, sub string, obj client.Object, opts ...client.SubResourceUpdateOption) error {
			return w.call(p, "status", w.objLabel(obj, client.ObjectKey{}), tgt(obj), nil, func() error { return c.SubResource(sub).Update(ctx, obj, opts...) })
		},
		SubResourcePatch: func(ctx context.Context, c client.Client, sub string, obj client.Object, patch client.Patch, opts ...client.SubResourcePatchOption) error {
			return w.call(p, "status", w.objLabel(obj, client.ObjectKey{}), tgt(obj), nil, func() error { return c.SubResource(sub).Patch(ctx, obj, patch, opts...) })
		},
	}
	return interceptor.NewClient(w.base, funcs)
}

// crashLocked: the binder process dies now.
func (w *world) crashLocked(p *proc, a *actor, kind, obj string) {
	p.dead.Store(true)
	w.crashed = true
	w.crashArm = nil
	w.count("crashes", 1)
	w.calls = append(w.calls, callRec{Seq: w.tick(), Actor: a.name, Kind: "CRASH", Obj: "before " + kind + " " + obj})
	for wt := range w.watchers {
		if wt.p == p {
			wt.closeLocked()
		}
	}
	p.dropEvents()
	p.stopQueues()
	delay := time.Duration(w.plan.Crash.RestartDelayUs) * time.Microsecond
	w.spawn("restart", nil, true, func(*actor) {
		time.Sleep(delay)
		w.startProc()
	})
}
