// Package c17 checks property C17 (GPU reservation pods track shared-GPU usage exactly) by running the real
// binder code - resourcereservation.NewService, binding.NewBinder with the gpusharing plugin,
// controllers.BindRequestReconciler.Reconcile and the real pod / BindRequest event handlers - from several
// goroutines against one in-memory API store, always under the Go race detector, and by monitoring
// (1) per-group linearizability of the client-boundary history (porcupine), (2) a quiescent-state invariant on
// the API objects, (3) data-race reports.
package c17

import (
	"crypto/sha256"
	"encoding/hex"
	"fmt"
	"os"
	"path/filepath"
	"sort"
	"strings"
	"sync"
	"time"

	"github.com/go-logr/logr"
	v1 "k8s.io/api/core/v1"
	crlog "sigs.k8s.io/controller-runtime/pkg/log"

	"verif/harness/internal/run"
	"verif/harness/internal/spec"
)

const (
	propID            = "C17"
	childEnv          = "VERIF_C17_CHILD"
	porcupineTimeout  = 20 * time.Second
	quiescenceTimeout = 30 * time.Second
)

type check struct{}

func New() run.Check { return check{} }

func (check) ID() string    { return propID }
func (check) Level() string { return "exploration" }
func (check) NumCases(tier string) int {
	if tier == "thorough" {
		return 3000
	}
	return 150
}
func (check) CrashIsViolation() bool { return true }
func (check) CaseTimeout() time.Duration {
	if os.Getenv(childEnv) == "1" {
		return 100 * time.Second
	}
	return 130 * time.Second
}

func (check) Rule() string {
	return "a case = one history: 2-6 BindRequests of fractional pods (single-fraction and multi-fraction with 2-3 groups) sharing 1-3 GPU groups on 1-2 nodes, " +
		"drawn from the PCG stream (seed, case index); the real BindRequestReconciler.Reconcile runs from 2-8 worker goroutines fed by the real BindRequest event handlers, " +
		"concurrently with pod deletions, completions (Succeeded/Failed) and BindRequest deletions (user and garbage collector) delivered to the real pod / BindRequest event handlers, " +
		"rejected pods/binding calls, a binder crash between creating a reservation pod and labelling the consumer followed by a fresh process with start-up Sync, and (12% of the cases) the external loss of a reservation pod. " +
		"Every client call is a schedule point (nothing / runtime.Gosched / 0-2 ms sleep from the goroutine's own PCG stream). " +
		"Non-trivial: at least two goroutines operated on the same GPU group (ReserveGpuDevice / per-group sync) with overlapping call intervals. " +
		"distinct_nontrivial counts distinct (input, interleaving) pairs, the interleaving being the global order of (goroutine, call kind, object) at the API store."
}

func (check) Assumptions() []string {
	return []string{
		"reads are served by the API store directly: no informer-cache lag between a write and a later read of the same process (cmd/binder reads through the manager cache)",
		"the API store applies each call atomically and never returns a resourceVersion conflict; events reach the pod and BindRequest handlers in store order from one goroutine per controller, as controller-runtime delivers them",
		"graceful pod termination is collapsed into one delete; the garbage collector deletes a pod's BindRequest (ownerReference written by the scheduler) 0-3 ms after the pod",
		"kubelet stand-in: a reservation pod gets the lowest device index of its node that no other reservation pod (and no whole-GPU workload of the case description) holds, written 0-3 ms after the create; a bound consumer becomes Running 0-3 ms after pods/binding",
		"faults: only rejected pods/binding calls and a crash of the whole binder process; requeue delays are compressed to 1-4 ms and a BindRequest is reconciled at most 4 times per process by requeue",
		"the external loss of a reservation pod is part of the event alphabet (needed to reach deleteNonReservedPods); such a case ends with a binder restart so that a start-up Sync follows",
		"the binary must be built with -race; each case runs in its own child process with GORACE=\"halt_on_error=0 exitcode=0 log_path=<work>/c17-race-<seed>-<case>\" and the reports are read from that file",
	}
}

var logOnce sync.Once

// RunCase: in a worker process it re-executes this binary for exactly one case with GORACE pointing to a log file
// of that case, then adds the race reports to the child's result. In the child it runs the case in-process.
func (c check) RunCase(seed int64, index int, tier string, env *run.Env) run.CaseResult {
	if os.Getenv(childEnv) == "1" {
		return runCaseInProcess(seed, index, tier, env)
	}
	return runChild(c, seed, index, tier, env)
}

// Replay re-runs the case of a replay file (same seed/index/tier; the interleaving is re-drawn by the Go scheduler).
func (c check) Replay(path string, env *run.Env) run.CaseResult {
	var rp struct {
		Plan Plan `json:"plan"`
	}
	if err := readJSON(path, &rp); err != nil {
		return run.CaseResult{Verdict: run.Inconclusive, Note: "cannot read replay: " + err.Error()}
	}
	return runCaseInProcess(rp.Plan.Seed, rp.Plan.Index, rp.Plan.Tier, env)
}

type replayFile struct {
	Plan       *Plan           `json:"plan"`
	Violations []run.Violation `json:"violations"`
	History    []string        `json:"history"`
	Ops        []*opRec        `json:"ops"`
	Final      []groupFinal    `json:"finalState"`
	ConfigMaps []cmObs         `json:"configMapObservations"`
	Calls      []callRec       `json:"calls"`
	Notes      []string        `json:"notes,omitempty"`
}

type groupFinal struct {
	Group        string   `json:"group"`
	Node         string   `json:"node"`
	Reservations []string `json:"reservationPods"` // name(index)
	Live         []string `json:"liveConsumers"`   // name(phase)
	Others       []string `json:"otherCarriers,omitempty"`
}

func runCaseInProcess(seed int64, index int, tier string, env *run.Env) run.CaseResult {
	logOnce.Do(func() { crlog.SetLogger(logr.Discard()) })
	plan := genPlan(seed, index, tier)
	res := run.CaseResult{Verdict: run.Held, Counters: map[string]int{}}
	if !raceEnabled {
		res.Verdict = run.Inconclusive
		res.Note = "binary not built with -race: the data-race oracle is blind (use check.sh C17 or go build -race)"
	}
	w, err := newWorld(plan)
	if err != nil {
		return run.CaseResult{Verdict: run.Inconclusive, Note: "harness: " + err.Error()}
	}
	w.t0 = time.Now()
	w.startProc()
	w.startPlanActors()
	quiesced := true
	if !w.waitQuiescent(quiescenceTimeout) {
		quiesced = false
		res.Verdict = run.Inconclusive
		res.Note = "no quiescence within " + quiescenceTimeout.String()
	}
	restartAtEnd := false
	w.mu.Lock()
	restartAtEnd = len(w.rsvLost) > 0
	cur := w.cur
	w.mu.Unlock()
	if restartAtEnd && quiesced {
		cur.stop()
		w.count("planned_restarts", 1)
		w.startProc()
		if !w.waitQuiescent(quiescenceTimeout) {
			quiesced = false
			res.Verdict = run.Inconclusive
			res.Note = "no quiescence after the planned restart within " + quiescenceTimeout.String()
		}
	}
	w.mu.Lock()
	procs := append([]*proc(nil), w.procs...)
	w.mu.Unlock()
	for _, p := range procs {
		p.stop()
	}
	w.mu.Lock()
	for wt := range w.watchers {
		wt.closeLocked()
	}
	w.mu.Unlock()
	done := make(chan struct{})
	go func() { w.wg.Wait(); close(done) }()
	select {
	case <-done:
	case <-time.After(20 * time.Second):
		res.Verdict = run.Inconclusive
		res.Note = "harness goroutines did not finish"
		return res
	}
	wall := time.Since(w.t0)

	vios, finals, lin := w.evaluate(!quiesced)
	for _, l := range lin {
		if l.Result == "unknown" {
			if res.Verdict == run.Held {
				res.Verdict = run.Inconclusive
			}
			res.Note = strings.TrimSpace(res.Note + " porcupine timeout on group " + l.Group)
			w.count("porcupine_timeouts", 1)
		}
	}
	// counters
	w.counters.Range(func(k, v any) bool {
		res.Counters[k.(string)] = int(v.(interface{ Load() int64 }).Load())
		return true
	})
	res.Counters["histories"] = 1
	res.Counters["client_calls"] = len(w.calls)
	end := w.clock.Load()
	ov := 0
	for _, ops := range w.hist.byGroup() {
		ov += overlaps(ops, end)
	}
	res.Counters["overlapping_operation_pairs"] = ov
	for _, o := range w.hist.ops {
		switch o.Kind {
		case "sync":
			res.Counters["sync_ops"]++
			if o.DelRsv {
				res.Counters["sync_deleted_reservation"]++
			}
			res.Counters["sync_deleted_consumers"] += len(o.DelPods)
			if !o.OK {
				res.Counters["sync_failed_or_crashed"]++
			}
		case "end":
			res.Counters["consumer_end_"+o.Cause]++
		}
	}
	for _, pp := range plan.Pods {
		if pp.Multi {
			res.Counters["multi_fraction_pods"]++
		} else {
			res.Counters["single_fraction_pods"]++
		}
	}
	res.Counters["porcupine_groups_checked"] = len(lin)
	res.Counters["configmap_checks"] = len(w.cmBind)
	res.Counters["wall_ms"] = int(wall.Milliseconds())

	// the interleaving: global order of (goroutine, call kind, object)
	ih := sha256.New()
	for _, c := range w.calls {
		fmt.Fprintf(ih, "%s|%s|%s\n", c.Actor, c.Kind, c.Obj)
	}
	inter := hex.EncodeToString(ih.Sum(nil)[:8])
	res.Hash = plan.hash() + "-" + inter
	res.NonTrivial = ov > 0
	// distinct interleavings over the whole run: first creator of the marker file counts
	dir := filepath.Join(env.WorkDir, "c17-interleavings")
	_ = os.MkdirAll(dir, 0o755)
	if f, err := os.OpenFile(filepath.Join(dir, inter), os.O_CREATE|os.O_EXCL|os.O_WRONLY, 0o644); err == nil {
		f.Close()
		res.Counters["distinct_interleavings"] = 1
	}

	hl := historyLines(w.hist.ops)
	res.Sample = map[string]any{"plan": plan, "interleaving": inter, "overlappingPairs": ov, "history": hl, "final": finals}
	if len(w.anoms) > 0 {
		res.Verdict = run.Inconclusive
		res.Note = "harness self-check failed: " + strings.Join(w.anoms, "; ")
	}
	if len(vios) > 0 {
		res.Verdict = run.Violated
		res.Violations = vios
	}
	if len(vios) > 0 || len(w.anoms) > 0 || env.Verbose {
		res.Replay = env.SaveReplay(propID, seed, index, replayFile{Plan: plan, Violations: vios, History: hl, Ops: w.hist.ops,
			Final: finals, ConfigMaps: w.cmBind, Calls: w.calls, Notes: append(w.notes, w.anoms...)})
	}
	return res
}

func historyLines(ops []*opRec) []string {
	s := append([]*opRec(nil), ops...)
	sort.SliceStable(s, func(i, j int) bool { return s[i].Call < s[j].Call })
	var out []string
	for _, o := range s {
		out = append(out, o.String())
	}
	return out
}

func (w *world) waitQuiescent(max time.Duration) bool {
	deadline := time.Now().Add(max)
	for {
		if w.quiescent() {
			return true
		}
		if time.Now().After(deadline) {
			return false
		}
		time.Sleep(500 * time.Microsecond)
	}
}

// quiescent: no world work outstanding, no undelivered event, no queued or running reconcile - and nothing moved
// while we looked (every hand-off of work bumps w.act after the receiver is marked and before the giver is cleared).
func (w *world) quiescent() bool {
	a1 := w.act.Load()
	if w.worldBusy.Load() != 0 {
		return false
	}
	w.mu.Lock()
	procs := append([]*proc(nil), w.procs...)
	w.mu.Unlock()
	for _, p := range procs {
		if !p.idle() {
			return false
		}
	}
	return w.act.Load() == a1
}

// evaluate runs oracle (1) and (2) on the finished case. All goroutines have ended.
func (w *world) evaluate(skip bool) (vios []run.Violation, finals []groupFinal, lin []linResult) {
	pods := &v1.PodList{}
	_ = w.base.List(bg, pods)
	add := func(oracle, sig, msg string) {
		vios = append(vios, run.Violation{Property: propID, Oracle: oracle, Sig: sig, Msg: msg})
	}
	crashNote := ""
	if w.crashed {
		crashNote = " [case with a binder crash and restart]"
	}
	byGroup := w.hist.byGroup()
	end := w.tick()
	for _, gp := range w.plan.Groups {
		g := gp.Name
		gf := groupFinal{Group: g, Node: gp.Node}
		var rsv []*v1.Pod
		var live, running, liveNames []string
		var idxs []string
		for i := range pods.Items {
			p := &pods.Items[i]
			if p.Namespace == spec.ReservationNS {
				if p.Labels[labelGroup] == g {
					rsv = append(rsv, p)
					gf.Reservations = append(gf.Reservations, fmt.Sprintf("%s(index %q)", p.Name, p.Annotations[spec.GpuIndexAnnot]))
					idxs = append(idxs, p.Annotations[spec.GpuIndexAnnot])
				}
				continue
			}
			carries := false
			for _, x := range groupsOf(p.Labels) {
				if x == g {
					carries = true
				}
			}
			if !carries {
				continue
			}
			if liveGroups(p)[g] {
				live = append(live, fmt.Sprintf("%s(%s)", p.Name, p.Status.Phase))
				liveNames = append(liveNames, p.Name)
				if p.Status.Phase == v1.PodRunning {
					running = append(running, p.Name)
				}
			} else {
				gf.Others = append(gf.Others, fmt.Sprintf("%s(%s)", p.Name, p.Status.Phase))
			}
		}
		sort.Strings(liveNames)
		sort.Strings(idxs)
		gf.Live = live
		finals = append(finals, gf)
		if skip {
			continue
		}
		lost := ""
		if w.rsvLost[g] {
			lost = ":after-reservation-loss"
		}
		hist := strings.Join(historyLines(byGroup[g]), "\n      ")
		// (2) quiescent-state invariant
		if len(rsv) > 1 {
			add("quiescent", "quiescent:two-reservations-one-group"+lost,
				fmt.Sprintf("group %s on node %s has %d reservation pods at quiescence: %v; live consumers %v.%s\n    history of the group:\n      %s", g, gp.Node, len(rsv), gf.Reservations, live, crashNote, hist))
		}
		if len(rsv) >= 1 && len(live) == 0 {
			kind, after, who := w.lastConsumer(g, byGroup[g])
			add("quiescent", "quiescent:reservation-without-consumer:"+kind+":"+after+lost,
				fmt.Sprintf("group %s on node %s: reservation pod %v still exists at quiescence but no Pending/Running pod carries the group (carriers in other phases: %v). Last consumer: %s.%s\n    history of the group:\n      %s",
					g, gp.Node, gf.Reservations, gf.Others, who, crashNote, hist))
		}
		if len(rsv) == 0 && len(live) > 0 {
			kind := w.kindOf(liveNames)
			if len(running) > 0 {
				add("quiescent", "quiescent:running-without-reservation:"+kind+lost,
					fmt.Sprintf("group %s on node %s: Running pods %v carry the group but there is no reservation pod at quiescence (live carriers %v).%s\n    history of the group:\n      %s", g, gp.Node, running, live, crashNote, hist))
			} else if lost != "" {
				// the external loss of a reservation pod is not one of the events the property quantifies over; after it
				// only the clause "no running pod stays attached to a group without reservation" is judged
				w.count("not_judged_pending_consumer_after_external_reservation_loss", 1)
			} else {
				add("quiescent", "quiescent:pending-consumer-without-reservation:"+kind+lost,
					fmt.Sprintf("group %s on node %s: pods %v carry the group but there is no reservation pod at quiescence.%s\n    history of the group:\n      %s", g, gp.Node, live, crashNote, hist))
			}
		}
		// (1b) direct clause on every completed sync: a sync that ran while the group had no reservation pod at all and
		// a consumer carried the group in phase Running during the whole sync must have deleted that consumer
		for _, o := range byGroup[g] {
			if o.Kind != "sync" || !o.OK || o.DelRsv || len(o.DelPods) > 0 {
				continue
			}
			reserved := false
			for _, sp := range w.rsvSpans[g] {
				if sp.From <= o.Ret && (sp.To == 0 || sp.To >= o.Call) {
					reserved = true
				}
			}
			if reserved {
				continue
			}
			for pod, spans := range w.runSpans[g] {
				for _, sp := range spans {
					if sp.From < o.Call && (sp.To == 0 || sp.To > o.Ret) {
						add("history", "history:sync-left-running-consumer-without-reservation:"+w.kindOf([]string{pod})+lost,
							fmt.Sprintf("group %s: %s returned without deleting anything although no reservation pod of the group existed during the call and %s carried the group in phase Running during the whole call.%s\n    history of the group:\n      %s",
								g, o.String(), pod, crashNote, hist))
					}
				}
			}
		}
		// (1) history check
		obs := &opRec{Group: g, Kind: "observe", Actor: "monitor", Call: end + 2, Ret: end + 2, OK: true,
			ObsExists: len(rsv) > 0, ObsIdx: strings.Join(idxs, ","), ObsLive: strings.Join(liveNames, ",")}
		ops := append(append([]*opRec(nil), byGroup[g]...), obs)
		lr := checkGroup(g, ops, end, porcupineTimeout)
		lin = append(lin, lr)
		if lr.Result == "illegal" {
			var stuck []string
			for _, o := range lr.Stuck {
				stuck = append(stuck, o.String())
			}
			add("history", "history:not-linearizable:"+lr.Kinds+lost,
				fmt.Sprintf("the history of group %s is not linearizable against {reservationExists, index, liveConsumers}: Reserve must return the existing index or install the returned one, Sync must remove the reservation iff there is no live consumer, and the final store state must be the model state. Operations that no linearization could place: %s.%s\n    history of the group:\n      %s\n      %s",
					g, strings.Join(stuck, " ;; "), crashNote, hist, obs.String()))
		}
	}
	if skip {
		return nil, finals, nil
	}
	// ConfigMap clause: at bind time and at quiescence for the consumers that are still live
	for i := range pods.Items {
		p := &pods.Items[i]
		if p.Namespace != spec.ReservationNS && w.bindOK[p.Name] && len(liveGroups(p)) > 0 {
			w.checkConfigMap(p, "at-quiescence")
		}
	}
	seen := map[string]bool{}
	for _, o := range w.cmBind {
		if o.Want != o.Got && !seen[o.Pod+o.When] {
			seen[o.Pod+o.When] = true
			kind := "single-fraction"
			if len(o.Groups) > 1 {
				kind = "multi-fraction"
			}
			add("configmap", "configmap-index-mismatch:"+kind+":"+o.When,
				fmt.Sprintf("consumer %s (groups %v) %s: ConfigMap %s has NVIDIA_VISIBLE_DEVICES=%q but the reservation pods of its groups hold device indices %q (in the order of its groups).%s",
					o.Pod, o.Groups, o.When, o.CM, o.Got, o.Want, crashNote))
		}
	}
	return vios, finals, lin
}

func (w *world) kindOf(pods []string) string {
	multi, single := false, false
	for _, n := range pods {
		if pp := w.plan.pod(n); pp != nil && pp.Multi {
			multi = true
		} else {
			single = true
		}
	}
	switch {
	case multi && single:
		return "mixed"
	case multi:
		return "multi-fraction"
	}
	return "single-fraction"
}

// lastConsumer attributes a leaked reservation pod: the kind of the consumer that left the group last and how it left.
func (w *world) lastConsumer(g string, ops []*opRec) (kind, after, who string) {
	var last *opRec
	crashedReserve, failedReserve := false, false
	for _, o := range ops {
		switch o.Kind {
		case "end":
			if last == nil || o.Call > last.Call {
				last = o
			}
		case "reserve":
			if o.Crashed {
				crashedReserve = true
			} else if !o.OK {
				failedReserve = true
			}
		}
	}
	if last == nil {
		switch {
		case crashedReserve:
			return "none", "after-crash", "nobody ever carried the group; a ReserveGpuDevice call died with the process"
		case failedReserve:
			return "none", "after-failed-reserve", "nobody ever carried the group; a ReserveGpuDevice call failed"
		}
		return "none", "never-consumed", "nobody ever carried the group"
	}
	kind = w.kindOf([]string{last.Pod})
	switch last.Cause {
	case "deleted":
		after = "after-pod-delete"
	case "succeeded", "failed":
		after = "after-pod-completion"
	case "unlabelled":
		after = "after-bind-failure"
	case "deleted-by-sync":
		after = "after-sync-delete"
	default:
		after = "after-" + last.Cause
	}
	return kind, after, fmt.Sprintf("%s (%s) left at t=%d: %s", last.Pod, kind, last.Call, last.Cause)
}
