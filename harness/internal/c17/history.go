package c17

import (
	"fmt"
	"sort"
	"strings"
	"sync"
	"time"

	"github.com/anishathalye/porcupine"
)

// opRec is one operation on one GPU group, recorded at the client boundary.
//
//	reserve  ReserveGpuDevice(pod, group) -> index | error      [call, return] of the Interface method
//	sync     one run of syncForGpuGroupWithLock(group)           from its first List to the actor's next foreign call
//	end      a consumer stops occupying the group                instantaneous, at the store write (delete, completion, label removal)
//	rsvlost  something else removed the reservation pod          instantaneous
//	observe  the final state of the group in the API store       instantaneous, after everything
type opRec struct {
	ID    int    `json:"id"`
	Group string `json:"group"`
	Kind  string `json:"kind"`
	Actor string `json:"actor"`
	Proc  int    `json:"proc,omitempty"`
	Pod   string `json:"pod,omitempty"`
	Call  int64  `json:"call"`
	Ret   int64  `json:"ret"`  // 0: no normal return (failed or crashed) - stays open until the end of the history
	Done  int64  `json:"done"` // when the goroutine actually left the operation (used only for the overlap statistics)

	OK         bool     `json:"ok"`
	Idx        string   `json:"idx,omitempty"`
	Err        string   `json:"err,omitempty"`
	Crashed    bool     `json:"crashed,omitempty"`
	CreatedIdx string   `json:"createdIdx,omitempty"` // reserve: device index of a reservation pod this call created
	Labelled   int64    `json:"labelledAt,omitempty"` // reserve: stamp of the store write that attached the consumer
	DelRsv     bool     `json:"deletedReservation,omitempty"`
	DelPods    []string `json:"deletedConsumers,omitempty"`
	Cause      string   `json:"cause,omitempty"`
	Via        string   `json:"via,omitempty"`

	// observe
	ObsExists bool   `json:"obsExists,omitempty"`
	ObsIdx    string `json:"obsIdx,omitempty"`
	ObsLive   string `json:"obsLive,omitempty"`
}

func (o *opRec) String() string {
	iv := fmt.Sprintf("[%d,%d]", o.Call, o.Ret)
	if o.Ret == 0 {
		iv = fmt.Sprintf("[%d,open]", o.Call)
	}
	switch o.Kind {
	case "reserve":
		res := "-> " + o.Idx
		if !o.OK {
			res = "-> error " + short(o.Err, 70)
			if o.Crashed {
				res = "-> (process crashed)"
			}
			if o.CreatedIdx != "" {
				res += " (had created a reservation pod with index " + o.CreatedIdx + ")"
			}
		}
		return fmt.Sprintf("%s %s Reserve(%s,%s) %s", iv, o.Actor, o.Pod, o.Group, res)
	case "sync":
		res := "kept"
		if o.DelRsv {
			res = "deleted the reservation pod"
		}
		if len(o.DelPods) > 0 {
			res += ", deleted consumers " + strings.Join(o.DelPods, ",")
		}
		if o.Crashed {
			res += " (process crashed)"
		} else if o.Err != "" {
			res += " (error " + short(o.Err, 60) + ")"
		}
		return fmt.Sprintf("%s %s Sync(%s) via %s: %s", iv, o.Actor, o.Group, o.Via, res)
	case "end":
		return fmt.Sprintf("%s %s consumer %s leaves %s (%s)", iv, o.Actor, o.Pod, o.Group, o.Cause)
	case "rsvlost":
		return fmt.Sprintf("%s %s reservation pod of %s removed by someone else", iv, o.Actor, o.Group)
	case "observe":
		return fmt.Sprintf("%s final state of %s: reservation=%v index=%q live consumers={%s}", iv, o.Group, o.ObsExists, o.ObsIdx, o.ObsLive)
	}
	return iv + " " + o.Kind
}

func short(s string, n int) string {
	if len(s) > n {
		return s[:n] + "..."
	}
	return s
}

type history struct {
	mu  sync.Mutex
	ops []*opRec
}

func (h *history) add(o *opRec) *opRec {
	h.mu.Lock()
	o.ID = len(h.ops)
	h.ops = append(h.ops, o)
	h.mu.Unlock()
	return o
}

func (h *history) byGroup() map[string][]*opRec {
	out := map[string][]*opRec{}
	for _, o := range h.ops {
		out[o.Group] = append(out[o.Group], o)
	}
	for _, l := range out {
		sort.Slice(l, func(i, j int) bool { return l[i].Call < l[j].Call })
	}
	return out
}

// ------------------------------------------------------------------ sequential model

// gstate is the abstract state of one GPU group.
type gstate struct {
	Exists bool
	Idx    string
	Live   string // sorted, comma separated consumer names
}

func liveAdd(l, p string) string {
	parts := liveSplit(l)
	for _, x := range parts {
		if x == p {
			return l
		}
	}
	parts = append(parts, p)
	sort.Strings(parts)
	return strings.Join(parts, ",")
}

func liveDel(l, p string) string {
	var out []string
	for _, x := range liveSplit(l) {
		if x != p {
			out = append(out, x)
		}
	}
	return strings.Join(out, ",")
}

func liveSplit(l string) []string {
	if l == "" {
		return nil
	}
	return strings.Split(l, ",")
}

// step is the sequential specification. Operations without a normal return may or may not have taken effect.
func step(state, input, _ interface{}) []interface{} {
	st := state.(gstate)
	o := input.(*opRec)
	switch o.Kind {
	case "reserve":
		if o.OK {
			if st.Exists {
				if st.Idx != o.Idx {
					return nil
				}
				return []interface{}{gstate{true, st.Idx, liveAdd(st.Live, o.Pod)}}
			}
			return []interface{}{gstate{true, o.Idx, liveAdd(st.Live, o.Pod)}}
		}
		out := []interface{}{st}
		if !st.Exists && o.CreatedIdx != "" {
			out = append(out, gstate{true, o.CreatedIdx, st.Live})
		}
		return out
	case "sync":
		want := st.Exists && st.Live == ""
		if o.OK {
			if o.DelRsv != want {
				return nil
			}
			if o.DelRsv {
				return []interface{}{gstate{false, "", st.Live}}
			}
			return []interface{}{st}
		}
		out := []interface{}{st}
		if want {
			out = append(out, gstate{false, "", st.Live})
		}
		return out
	case "end":
		return []interface{}{gstate{st.Exists, st.Idx, liveDel(st.Live, o.Pod)}}
	case "rsvlost":
		return []interface{}{gstate{false, "", st.Live}}
	case "observe":
		if st.Exists == o.ObsExists && st.Idx == o.ObsIdx && st.Live == o.ObsLive {
			return []interface{}{st}
		}
		return nil
	}
	return []interface{}{st}
}

var groupModel = (&porcupine.NondeterministicModel{
	Init: func() []interface{} { return []interface{}{gstate{}} },
	Step: step,
	DescribeOperation: func(in, _ interface{}) string {
		return in.(*opRec).String()
	},
}).ToModel()

type linResult struct {
	Group   string
	Result  string // ok | illegal | unknown
	Stuck   []*opRec
	Kinds   string
	Elapsed time.Duration
}

// checkGroup runs porcupine on the history of one group. end is a stamp after every recorded event.
func checkGroup(group string, ops []*opRec, end int64, timeout time.Duration) linResult {
	var hist []porcupine.Operation
	clients := map[string]int{}
	for _, o := range ops {
		ret := o.Ret
		if ret == 0 {
			ret = end + 1 // open until the end of the history, before the final observation
		}
		if o.Kind == "observe" {
			ret = o.Ret
		}
		id, ok := clients[o.Actor]
		if !ok {
			id = len(clients)
			clients[o.Actor] = id
		}
		hist = append(hist, porcupine.Operation{ClientId: id, Input: o, Call: o.Call, Output: nil, Return: ret})
	}
	t0 := time.Now()
	res, info := porcupine.CheckOperationsVerbose(groupModel, hist, timeout)
	lr := linResult{Group: group, Elapsed: time.Since(t0)}
	switch res {
	case porcupine.Ok:
		lr.Result = "ok"
	case porcupine.Unknown:
		lr.Result = "unknown"
	default:
		lr.Result = "illegal"
		// the operations that the longest partial linearization could not place
		best := []int{}
		for _, part := range info.PartialLinearizations() {
			for _, lin := range part {
				if len(lin) > len(best) {
					best = lin
				}
			}
		}
		in := map[int]bool{}
		for _, i := range best {
			in[i] = true
		}
		kinds := map[string]bool{}
		for i, o := range ops {
			if !in[i] {
				lr.Stuck = append(lr.Stuck, o)
				kinds[o.Kind] = true
			}
		}
		var ks []string
		for k := range kinds {
			ks = append(ks, k)
		}
		sort.Strings(ks)
		lr.Kinds = strings.Join(ks, "+")
	}
	return lr
}

// overlaps counts pairs of reserve/sync operations of different goroutines on the same group whose call intervals overlap.
func overlaps(ops []*opRec, end int64) int {
	n := 0
	var rs []*opRec
	for _, o := range ops {
		if o.Kind == "reserve" || o.Kind == "sync" {
			rs = append(rs, o)
		}
	}
	r := func(o *opRec) int64 {
		if o.Ret != 0 {
			return o.Ret
		}
		if o.Done != 0 {
			return o.Done
		}
		return end
	}
	for i := 0; i < len(rs); i++ {
		for j := i + 1; j < len(rs); j++ {
			a, b := rs[i], rs[j]
			if a.Actor != b.Actor && a.Call <= r(b) && b.Call <= r(a) {
				n++
			}
		}
	}
	return n
}
