package c17

import (
	"bufio"
	"context"
	"encoding/json"
	"fmt"
	"os"
	"os/exec"
	"path/filepath"
	"sort"
	"strconv"
	"strings"
	"time"

	"verif/harness/internal/run"
)

var bg = context.Background()

func readJSON(path string, v any) error {
	b, err := os.ReadFile(path)
	if err != nil {
		return err
	}
	return json.Unmarshal(b, v)
}

// runChild runs one case in a child process of this binary (`verif worker --from i --to i+1`) whose race detector
// writes to a log file of its own: GORACE is read by the race runtime at process start, so it cannot be set for the
// worker process itself; halt_on_error=0 lets the case finish, exitcode=0 keeps the exit status for real crashes.
func runChild(c check, seed int64, index int, tier string, env *run.Env) run.CaseResult {
	exe, err := os.Executable()
	if err != nil {
		return run.CaseResult{Verdict: run.Inconclusive, Note: "os.Executable: " + err.Error()}
	}
	tag := fmt.Sprintf("%d-%d-%d", seed, index, os.Getpid())
	out := filepath.Join(env.WorkDir, "c17-child-"+tag+".jsonl")
	raceBase := filepath.Join(env.WorkDir, "c17-race-"+tag)
	errPath := filepath.Join(env.WorkDir, "c17-child-"+tag+".stderr")
	defer func() {
		_ = os.Remove(out)
		_ = os.Remove(out + ".current")
	}()
	cmd := exec.Command(exe, "worker", "--prop", propID, "--tier", tier, "--seed", strconv.FormatInt(seed, 10),
		"--from", strconv.Itoa(index), "--to", strconv.Itoa(index+1), "--out", out, "--work", env.WorkDir, "--replays", env.ReplayDir)
	for _, e := range os.Environ() {
		if !strings.HasPrefix(e, "GORACE=") && !strings.HasPrefix(e, childEnv+"=") {
			cmd.Env = append(cmd.Env, e)
		}
	}
	cmd.Env = append(cmd.Env, childEnv+"=1", "GORACE=halt_on_error=0 exitcode=0 log_path="+raceBase)
	ef, _ := os.Create(errPath)
	cmd.Stdout, cmd.Stderr = ef, ef
	runErr := cmd.Run()
	ef.Close()

	var res run.CaseResult
	got := false
	if f, err := os.Open(out); err == nil {
		sc := bufio.NewScanner(f)
		sc.Buffer(make([]byte, 1<<20), 1<<28)
		for sc.Scan() {
			if json.Unmarshal(sc.Bytes(), &res) == nil {
				got = true
			}
		}
		f.Close()
	}
	stderrText := ""
	if b, err := os.ReadFile(errPath); err == nil {
		stderrText = string(b)
	}
	if !got {
		// the child died: a SUT panic / fatal error (e.g. "concurrent map writes") or the watchdog
		code := -1
		if ee, ok := runErr.(*exec.ExitError); ok {
			code = ee.ExitCode()
		}
		keep := filepath.Join(filepath.Dir(env.ReplayDir), "logs", fmt.Sprintf("%s-child-crash-%d-%d.log", propID, seed, index))
		_ = os.MkdirAll(filepath.Dir(keep), 0o755)
		_ = os.WriteFile(keep, []byte(stderrText), 0o644)
		res = run.CaseResult{Verdict: run.Inconclusive, Hash: fmt.Sprintf("childcrash-%d", index), Replay: keep, Counters: map[string]int{"child_died": 1}}
		frame := firstKAIFrame(stderrText)
		switch {
		case strings.Contains(stderrText, "fatal error: concurrent map"):
			res.Verdict = run.Violated
			res.Violations = []run.Violation{{Property: propID, Oracle: "data-race", Sig: "data-race:fatal-concurrent-map:" + frame,
				Msg: fmt.Sprintf("the binder code died with a Go runtime fatal error (concurrent map access) in %s while running case %d; log %s", frame, index, keep)}}
		case code == 4:
			res.Note = fmt.Sprintf("case %d: watchdog fired in the child process; log %s", index, keep)
		case strings.Contains(stderrText, "panic:") || strings.Contains(stderrText, "fatal error:"):
			res.Verdict = run.Violated
			res.Violations = []run.Violation{{Property: propID, Oracle: "sut-crash", Sig: "sut-crash:" + frame,
				Msg: fmt.Sprintf("child process exit code %d while running case %d; log %s", code, index, keep)}}
		default:
			res.Note = fmt.Sprintf("case %d: child process exit code %d without a result; log %s", index, code, keep)
		}
	}
	_ = os.Remove(errPath)
	if res.Counters == nil {
		res.Counters = map[string]int{}
	}
	// oracle (3): race reports of this case
	logs, _ := filepath.Glob(raceBase + ".*")
	var reports []raceReport
	for _, l := range logs {
		if b, err := os.ReadFile(l); err == nil {
			reports = append(reports, parseRaceLog(string(b))...)
		}
	}
	if len(reports) > 0 {
		keep := filepath.Join(filepath.Dir(env.ReplayDir), "logs", fmt.Sprintf("%s-race-%d-%d.log", propID, seed, index))
		_ = os.MkdirAll(filepath.Dir(keep), 0o755)
		var sb strings.Builder
		for _, l := range logs {
			if b, err := os.ReadFile(l); err == nil {
				sb.Write(b)
			}
		}
		_ = os.WriteFile(keep, []byte(sb.String()), 0o644)
		seen := map[string]bool{}
		for _, r := range reports {
			res.Counters["race_reports"]++
			if !r.kai {
				res.Counters["race_reports_outside_binder_packages"]++
				res.Note = strings.TrimSpace(res.Note + " race report outside the binder packages (" + r.sig + "), see " + keep)
				continue
			}
			res.Counters["race_reports_binder_packages"]++
			if seen[r.sig] {
				continue
			}
			seen[r.sig] = true
			res.Verdict = run.Violated
			res.Violations = append(res.Violations, run.Violation{Property: propID, Oracle: "data-race", Sig: "data-race:" + r.sig,
				Msg: fmt.Sprintf("the race detector reported a data race whose two accesses are both in the binder's reservation code: %s; full report in %s\n%s", r.sig, keep, r.text)})
			if res.Replay == "" {
				res.Replay = keep
			}
		}
	}
	for _, l := range logs {
		_ = os.Remove(l)
	}
	_ = time.Now
	return res
}

// ------------------------------------------------------------------ race report parsing

type raceReport struct {
	text string
	kai  bool   // both access stacks contain a frame of the binder's reservation / controller code
	sig  string // innermost relevant frame of each stack
}

var racePkgs = []string{
	"github.com/NVIDIA/KAI-scheduler/pkg/binder/binding/resourcereservation/group_mutex.",
	"github.com/NVIDIA/KAI-scheduler/pkg/binder/binding/resourcereservation.",
	"github.com/NVIDIA/KAI-scheduler/pkg/binder/controllers.",
}

func relevantFrame(fn string) (string, bool) {
	for _, p := range racePkgs {
		if strings.HasPrefix(fn, p) {
			return strings.TrimPrefix(fn, "github.com/NVIDIA/KAI-scheduler/pkg/binder/"), true
		}
	}
	return "", false
}

func parseRaceLog(s string) []raceReport {
	var out []raceReport
	for _, blk := range strings.Split(s, "==================") {
		if !strings.Contains(blk, "WARNING: DATA RACE") {
			continue
		}
		// the first two stacks are the two accesses; later ones are goroutine creation sites
		var stacks [][]string
		var cur []string
		in := false
		for _, line := range strings.Split(blk, "\n") {
			t := strings.TrimSpace(line)
			switch {
			case strings.HasPrefix(t, "Read at ") || strings.HasPrefix(t, "Write at ") || strings.HasPrefix(t, "Previous read at ") ||
				strings.HasPrefix(t, "Previous write at ") || strings.HasPrefix(t, "Atomic ") || strings.HasPrefix(t, "Previous atomic "):
				if in {
					stacks = append(stacks, cur)
				}
				cur, in = nil, true
			case strings.HasPrefix(t, "Goroutine ") && strings.Contains(t, "created at"):
				if in {
					stacks = append(stacks, cur)
				}
				cur, in = nil, false
			case in && t != "" && !strings.HasPrefix(t, "/") && strings.HasSuffix(t, ")") && strings.HasPrefix(line, "  "):
				fn := t
				if i := strings.LastIndex(fn, "("); i > 0 {
					fn = fn[:i]
				}
				cur = append(cur, fn)
			}
		}
		if in {
			stacks = append(stacks, cur)
		}
		r := raceReport{text: short(strings.TrimSpace(blk), 6000)}
		var sigs []string
		n := 0
		for i, st := range stacks {
			if i >= 2 {
				break
			}
			inner := ""
			for _, fn := range st { // innermost first
				if f, ok := relevantFrame(fn); ok {
					inner = f
					break
				}
			}
			if inner != "" {
				n++
				sigs = append(sigs, inner)
			} else if len(st) > 0 {
				sigs = append(sigs, "("+st[0]+")")
			}
		}
		sort.Strings(sigs)
		r.kai = n == 2 && len(stacks) >= 2
		r.sig = strings.Join(sigs, "|")
		out = append(out, r)
	}
	return out
}

func firstKAIFrame(dump string) string {
	for _, l := range strings.Split(dump, "\n") {
		if strings.HasPrefix(l, "github.com/NVIDIA/KAI-scheduler/pkg/") {
			fn := l
			if i := strings.LastIndex(fn, "("); i > 0 {
				fn = fn[:i]
			}
			return strings.TrimPrefix(fn, "github.com/NVIDIA/KAI-scheduler/pkg/")
		}
	}
	return "unknown"
}
