//go:build !race

package c17

const raceEnabled = false
