package c17

import (
	"context"
	"fmt"
	"strconv"
	"sync"
	"sync/atomic"
	"time"

	v1 "k8s.io/api/core/v1"
	"k8s.io/apimachinery/pkg/api/resource"
	"k8s.io/apimachinery/pkg/types"
	"k8s.io/client-go/tools/record"
	"sigs.k8s.io/controller-runtime/pkg/client"
	"sigs.k8s.io/controller-runtime/pkg/event"
	"sigs.k8s.io/controller-runtime/pkg/reconcile"

	schedulingv1alpha2 "github.com/NVIDIA/KAI-scheduler/pkg/apis/scheduling/v1alpha2"
	"github.com/NVIDIA/KAI-scheduler/pkg/binder/binding"
	"github.com/NVIDIA/KAI-scheduler/pkg/binder/binding/resourcereservation"
	"github.com/NVIDIA/KAI-scheduler/pkg/binder/controllers"
	binderplugins "github.com/NVIDIA/KAI-scheduler/pkg/binder/plugins"
	bindergpu "github.com/NVIDIA/KAI-scheduler/pkg/binder/plugins/gpusharing"

	"verif/harness/internal/spec"
)

// ------------------------------------------------------------------ work queue (controller-runtime's part)

// rq has the semantics of client-go's workqueue (an item is never handed to two workers at once; an item added
// while it is being processed is processed again afterwards) plus an exact idle test.
type rq struct {
	w          *world
	mu         sync.Mutex
	cond       *sync.Cond
	queue      []reconcile.Request
	dirty      map[reconcile.Request]bool
	processing map[reconcile.Request]bool
	shut       bool
	discard    bool // the Pod controller's queue: its Reconcile is a no-op
}

func newRQ(w *world, discard bool) *rq {
	q := &rq{w: w, dirty: map[reconcile.Request]bool{}, processing: map[reconcile.Request]bool{}, discard: discard}
	q.cond = sync.NewCond(&q.mu)
	return q
}

func (q *rq) Add(item reconcile.Request) {
	q.mu.Lock()
	defer q.mu.Unlock()
	q.w.act.Add(1)
	if q.shut || q.discard || q.dirty[item] {
		return
	}
	q.dirty[item] = true
	if q.processing[item] {
		return
	}
	q.queue = append(q.queue, item)
	q.cond.Signal()
}

func (q *rq) Len() int {
	q.mu.Lock()
	defer q.mu.Unlock()
	return len(q.queue)
}

func (q *rq) Get() (reconcile.Request, bool) {
	q.mu.Lock()
	defer q.mu.Unlock()
	for len(q.queue) == 0 && !q.shut {
		q.cond.Wait()
	}
	if len(q.queue) == 0 {
		return reconcile.Request{}, true
	}
	item := q.queue[0]
	q.queue = q.queue[1:]
	q.processing[item] = true
	delete(q.dirty, item)
	q.w.act.Add(1)
	return item, false
}

func (q *rq) Done(item reconcile.Request) {
	q.mu.Lock()
	defer q.mu.Unlock()
	q.w.act.Add(1)
	delete(q.processing, item)
	if q.dirty[item] && !q.shut {
		q.queue = append(q.queue, item)
		q.cond.Signal()
	}
}

func (q *rq) ShutDown() {
	q.mu.Lock()
	defer q.mu.Unlock()
	q.shut = true
	q.queue = nil
	q.dirty = map[reconcile.Request]bool{}
	q.cond.Broadcast()
}
func (q *rq) ShutDownWithDrain() { q.ShutDown() }
func (q *rq) ShuttingDown() bool {
	q.mu.Lock()
	defer q.mu.Unlock()
	return q.shut
}

// AddAfter: the delay is compressed to 1-4 ms (the real controller waits seconds); the timer is world work.
func (q *rq) AddAfter(item reconcile.Request, d time.Duration) {
	if q.discard {
		return
	}
	q.w.spawn("requeue:"+item.Name, nil, true, func(a *actor) {
		time.Sleep(time.Duration(1000+a.rnd.IntN(3001)) * time.Microsecond)
		q.Add(item)
	})
}
func (q *rq) AddRateLimited(item reconcile.Request)  { q.AddAfter(item, 0) }
func (q *rq) Forget(item reconcile.Request)          {}
func (q *rq) NumRequeues(item reconcile.Request) int { return 0 }

func (q *rq) idle() bool {
	q.mu.Lock()
	defer q.mu.Unlock()
	return len(q.queue) == 0 && len(q.processing) == 0
}

// ------------------------------------------------------------------ informer event queues

type podEvent struct{ old, cur *v1.Pod }
type brEvent struct {
	old, cur *schedulingv1alpha2.BindRequest
}

type evQueue[T any] struct {
	mu     sync.Mutex
	cond   *sync.Cond
	items  []T
	closed bool
}

func newEvQueue[T any]() *evQueue[T] {
	q := &evQueue[T]{}
	q.cond = sync.NewCond(&q.mu)
	return q
}

func (q *evQueue[T]) push(x T) bool {
	q.mu.Lock()
	defer q.mu.Unlock()
	if q.closed {
		return false
	}
	q.items = append(q.items, x)
	q.cond.Signal()
	return true
}

func (q *evQueue[T]) pop() (x T, ok bool) {
	q.mu.Lock()
	defer q.mu.Unlock()
	for len(q.items) == 0 && !q.closed {
		q.cond.Wait()
	}
	if len(q.items) == 0 {
		return x, false
	}
	x = q.items[0]
	q.items = q.items[1:]
	return x, true
}

// closeAndDrop closes the queue and returns the number of undelivered events.
func (q *evQueue[T]) closeAndDrop() int {
	q.mu.Lock()
	defer q.mu.Unlock()
	n := len(q.items)
	q.items = nil
	q.closed = true
	q.cond.Broadcast()
	return n
}

// ------------------------------------------------------------------ one binder process

type proc struct {
	gen  int
	w    *world
	dead atomic.Bool

	cl     client.WithWatch
	svc    *recService
	binder *binding.Binder
	brRec  *controllers.BindRequestReconciler
	podRec *controllers.PodReconciler

	brQ, podQ *rq
	podEv     *evQueue[podEvent]
	brEv      *evQueue[brEvent]
	evPending atomic.Int64

	amu      sync.Mutex
	attempts map[string]int
}

func (p *proc) pushPodEvent(old, cur *v1.Pod) {
	p.evPending.Add(1)
	p.w.act.Add(1)
	if !p.podEv.push(podEvent{old, cur}) {
		p.evPending.Add(-1)
	}
}

func (p *proc) pushBREvent(old, cur *schedulingv1alpha2.BindRequest) {
	p.evPending.Add(1)
	p.w.act.Add(1)
	if !p.brEv.push(brEvent{old, cur}) {
		p.evPending.Add(-1)
	}
}

func (p *proc) dropEvents() {
	n := p.podEv.closeAndDrop() + p.brEv.closeAndDrop()
	p.evPending.Add(int64(-n))
	p.w.act.Add(1)
}

func (p *proc) stopQueues() {
	p.brQ.ShutDown()
	p.podQ.ShutDown()
}

func (p *proc) idle() bool {
	return p.evPending.Load() == 0 && p.brQ.idle()
}

// startProc starts a binder process as cmd/binder does: service, binder with its plugins, the two controllers with
// their event handlers, MaxConcurrentReconciles workers, and the start-up Sync in its own goroutine. The informers
// begin with an ADDED event for every existing Pod and BindRequest.
func (w *world) startProc() *proc {
	w.mu.Lock()
	defer w.mu.Unlock()
	p := &proc{gen: len(w.procs) + 1, w: w, attempts: map[string]int{}}
	p.cl = w.clientFor(p)
	var podRes *v1.ResourceRequirements
	if w.plan.PodResources {
		podRes = &v1.ResourceRequirements{
			Limits:   v1.ResourceList{v1.ResourceCPU: resource.MustParse("100m"), v1.ResourceMemory: resource.MustParse("64Mi"), gpuResource: resource.MustParse("1")},
			Requests: v1.ResourceList{v1.ResourceCPU: resource.MustParse("50m"), v1.ResourceMemory: resource.MustParse("32Mi")},
		}
	}
	inner := resourcereservation.NewService(false, p.cl, "reservation-img", 1500*time.Millisecond, spec.ReservationNS, "sa",
		spec.ReservationApp, "kai-scale-adjust", "", podRes)
	p.svc = &recService{p: p, inner: inner}
	pl := binderplugins.New()
	pl.RegisterPlugin(bindergpu.New(p.cl, false))
	p.binder = binding.NewBinder(p.cl, p.svc, pl)
	params := &controllers.ReconcilerParams{MaxConcurrentReconciles: w.plan.Workers, RateLimiterBaseDelaySeconds: 1, RateLimiterMaxDelaySeconds: 60}
	p.brRec = controllers.NewBindRequestReconciler(p.cl, w.st.Scheme, &record.FakeRecorder{}, params, p.binder, p.svc)
	p.podRec = &controllers.PodReconciler{Client: p.cl, Scheme: w.st.Scheme, ResourceReservation: p.svc, SchedulerName: spec.SchedulerName}
	p.brQ, p.podQ = newRQ(w, false), newRQ(w, true)
	p.podEv, p.brEv = newEvQueue[podEvent](), newEvQueue[brEvent]()

	// informer start: list + watch
	pods := &v1.PodList{}
	_ = w.base.List(context.Background(), pods)
	for i := range pods.Items {
		p.pushPodEvent(nil, pods.Items[i].DeepCopy())
	}
	brs := &schedulingv1alpha2.BindRequestList{}
	_ = w.base.List(context.Background(), brs)
	for i := range brs.Items {
		p.pushBREvent(nil, brs.Items[i].DeepCopy())
	}
	w.procs = append(w.procs, p)
	w.cur = p
	w.count("binder_processes_started", 1)

	g := strconv.Itoa(p.gen)
	ctx := context.Background()
	w.spawn("podinformer."+g, p, false, func(a *actor) {
		h := p.podRec.VerifEventHandlers()
		for {
			ev, ok := p.podEv.pop()
			if !ok {
				return
			}
			if a.rnd.IntN(3) == 0 {
				time.Sleep(time.Duration(a.rnd.IntN(1001)) * time.Microsecond) // watch latency
			}
			if !p.dead.Load() {
				w.count("pod_events_delivered", 1)
				switch {
				case ev.old == nil:
					h.Create(ctx, event.CreateEvent{Object: ev.cur}, p.podQ)
				case ev.cur == nil:
					h.Delete(ctx, event.DeleteEvent{Object: ev.old}, p.podQ)
				default:
					h.Update(ctx, event.UpdateEvent{ObjectOld: ev.old, ObjectNew: ev.cur}, p.podQ)
				}
			}
			w.act.Add(1)
			p.evPending.Add(-1)
		}
	})
	w.spawn("brinformer."+g, p, false, func(a *actor) {
		h := p.brRec.VerifEventHandlers()
		for {
			ev, ok := p.brEv.pop()
			if !ok {
				return
			}
			if a.rnd.IntN(3) == 0 {
				time.Sleep(time.Duration(a.rnd.IntN(1001)) * time.Microsecond)
			}
			if !p.dead.Load() {
				w.count("bindrequest_events_delivered", 1)
				switch {
				case ev.old == nil:
					h.Create(ctx, event.CreateEvent{Object: ev.cur}, p.brQ)
				case ev.cur == nil:
					h.Delete(ctx, event.DeleteEvent{Object: ev.old}, p.brQ)
				default:
					h.Update(ctx, event.UpdateEvent{ObjectOld: ev.old, ObjectNew: ev.cur}, p.brQ)
				}
			}
			w.act.Add(1)
			p.evPending.Add(-1)
		}
	})
	for i := 0; i < w.plan.Workers; i++ {
		w.spawn(fmt.Sprintf("worker.%s.%d", g, i), p, false, func(a *actor) {
			for {
				req, shut := p.brQ.Get()
				if shut {
					return
				}
				if !p.dead.Load() {
					w.count("reconciles", 1)
					res, err := p.brRec.Reconcile(ctx, req)
					p.amu.Lock()
					p.attempts[req.Name]++
					n := p.attempts[req.Name]
					p.amu.Unlock()
					if err != nil {
						w.count("reconcile_errors", 1)
					}
					if !p.dead.Load() && (err != nil || res.RequeueAfter > 0) && n < w.plan.MaxAttempts {
						p.brQ.AddAfter(req, res.RequeueAfter)
					}
				}
				p.brQ.Done(req)
			}
		})
	}
	w.spawn("startup-sync."+g, p, true, func(a *actor) {
		if err := p.svc.Sync(ctx); err != nil && !p.dead.Load() {
			w.count("startup_sync_errors", 1) // cmd/binder panics on this error
			w.mu.Lock()
			w.anomsNote("start-up Sync of process " + g + " returned: " + err.Error())
			w.mu.Unlock()
		}
	})
	return p
}

func (w *world) anomsNote(s string) { w.notes = append(w.notes, s) }

// stop ends a process gracefully (used for the planned restart at the end of a case and at the very end).
func (p *proc) stop() {
	p.dead.Store(true)
	p.dropEvents()
	p.stopQueues()
}

// ------------------------------------------------------------------ the monitored reservation service

// recService is the resourcereservation.Interface handed to the real Binder and the real reconcilers. Every method
// delegates to the real service; the wrapper only records call/return of ReserveGpuDevice and marks which Interface
// method the goroutine is in, so that the per-group syncs seen at the client can be attributed.
type recService struct {
	p     *proc
	inner resourcereservation.Interface
}

var _ resourcereservation.Interface = (*recService)(nil)

func (s *recService) enter(via string) (*actor, string) {
	a := s.p.w.actor()
	prev := a.via
	a.via = via
	return a, prev
}

func (s *recService) leave(a *actor, prev string) {
	a.closeSync(s.p.w.tick())
	a.via = prev
}

func (s *recService) Sync(ctx context.Context) error {
	a, prev := s.enter("Sync")
	defer s.leave(a, prev)
	return s.inner.Sync(ctx)
}

func (s *recService) SyncForNode(ctx context.Context, nodeName string) error {
	a, prev := s.enter("SyncForNode")
	defer s.leave(a, prev)
	return s.inner.SyncForNode(ctx, nodeName)
}

func (s *recService) SyncForGpuGroup(ctx context.Context, gpuGroup string) error {
	a, prev := s.enter("SyncForGpuGroup")
	a.pendingSync[gpuGroup] = s.p.w.tick()
	defer func() {
		delete(a.pendingSync, gpuGroup)
		s.leave(a, prev)
	}()
	return s.inner.SyncForGpuGroup(ctx, gpuGroup)
}

func (s *recService) RemovePodGpuGroupsConnection(ctx context.Context, pod *v1.Pod) error {
	a, prev := s.enter("RemovePodGpuGroupsConnection")
	defer s.leave(a, prev)
	return s.inner.RemovePodGpuGroupsConnection(ctx, pod)
}

func (s *recService) ReserveGpuDevice(ctx context.Context, pod *v1.Pod, nodeName string, gpuGroup string) (string, error) {
	w := s.p.w
	a, prev := s.enter("ReserveGpuDevice")
	op := w.hist.add(&opRec{Group: gpuGroup, Kind: "reserve", Actor: a.name, Proc: s.p.gen, Pod: pod.Name, Call: w.tick()})
	a.reserve = op
	idx, err := s.inner.ReserveGpuDevice(ctx, pod, nodeName, gpuGroup)
	a.closeSync(w.tick())
	a.reserve = nil
	a.via = prev
	op.Done = w.tick()
	if err == nil {
		op.OK, op.Idx, op.Ret = true, idx, op.Done
		w.count("reserve_ok", 1)
	} else {
		op.Err = err.Error()
		if s.p.dead.Load() {
			op.Crashed = true
			w.count("reserve_crashed", 1)
		} else {
			w.count("reserve_failed", 1)
		}
	}
	return idx, err
}

var _ = types.UID("")
