// Package store provides ONE in-memory API store (client-go ObjectTracker) shared by the
// kubernetes fake clientset, the KAI fake clientset and a controller-runtime fake client, plus
// the interception layer used by the harness: call counting, fault/crash injection by call index,
// graceful pod termination, PRNG-chosen yields, and a write counter for quiescence detection.
package store

import (
	"context"
	"fmt"
	"strconv"
	"sync"
	"sync/atomic"
	"time"

	v1 "k8s.io/api/core/v1"
	resourceapi "k8s.io/api/resource/v1"
	"k8s.io/apimachinery/pkg/api/meta"
	metav1 "k8s.io/apimachinery/pkg/apis/meta/v1"
	"k8s.io/apimachinery/pkg/runtime"
	"k8s.io/apimachinery/pkg/runtime/schema"
	"k8s.io/apimachinery/pkg/runtime/serializer"
	"k8s.io/apimachinery/pkg/version"
	"k8s.io/apimachinery/pkg/watch"
	fakediscovery "k8s.io/client-go/discovery/fake"
	"k8s.io/client-go/kubernetes/fake"
	clientgoscheme "k8s.io/client-go/kubernetes/scheme"
	k8stesting "k8s.io/client-go/testing"

	kaifake "github.com/NVIDIA/KAI-scheduler/pkg/apis/client/clientset/versioned/fake"
	kaischeme "github.com/NVIDIA/KAI-scheduler/pkg/apis/client/clientset/versioned/scheme"
)

// Scheme returns a scheme with client-go and KAI types.
func Scheme() *runtime.Scheme {
	s := runtime.NewScheme()
	_ = clientgoscheme.AddToScheme(s)
	_ = kaischeme.AddToScheme(s)
	return s
}

// countingTracker wraps an ObjectTracker: it counts writes and implements Watch itself with
// unbounded, stoppable watchers. (client-go's tracker panics with "channel full" when a watcher that
// nobody drains any more - e.g. an informer of a finished cycle - has 100 undelivered events.)
type countingTracker struct {
	k8stesting.ObjectTracker
	writes *atomic.Int64
	rv     atomic.Int64 // last resourceVersion handed out (resource.k8s.io objects only, see stampRV)

	mu       sync.Mutex
	watchers map[schema.GroupVersionResource][]*qWatcher
}

type qWatcher struct {
	ns      string
	mu      sync.Mutex
	cond    *sync.Cond
	queue   []watch.Event
	stopped bool
	out     chan watch.Event
}

func newQWatcher(ns string) *qWatcher {
	w := &qWatcher{ns: ns, out: make(chan watch.Event)}
	w.cond = sync.NewCond(&w.mu)
	go w.pump()
	return w
}

func (w *qWatcher) pump() {
	for {
		w.mu.Lock()
		for len(w.queue) == 0 && !w.stopped {
			w.cond.Wait()
		}
		if w.stopped {
			w.mu.Unlock()
			close(w.out)
			return
		}
		ev := w.queue[0]
		w.queue = w.queue[1:]
		w.mu.Unlock()
		// deliver unless stopped meanwhile
		for delivered := false; !delivered; {
			select {
			case w.out <- ev:
				delivered = true
			case <-time.After(20 * time.Millisecond):
				w.mu.Lock()
				st := w.stopped
				w.mu.Unlock()
				if st {
					close(w.out)
					return
				}
			}
		}
	}
}

func (w *qWatcher) push(ev watch.Event) {
	w.mu.Lock()
	if !w.stopped {
		w.queue = append(w.queue, ev)
		w.cond.Signal()
	}
	w.mu.Unlock()
}

func (w *qWatcher) Stop() {
	w.mu.Lock()
	w.stopped = true
	w.queue = nil
	w.cond.Signal()
	w.mu.Unlock()
}

func (w *qWatcher) ResultChan() <-chan watch.Event { return w.out }

func (t *countingTracker) Watch(gvr schema.GroupVersionResource, ns string, opts ...metav1.ListOptions) (watch.Interface, error) {
	w := newQWatcher(ns)
	t.mu.Lock()
	if t.watchers == nil {
		t.watchers = map[schema.GroupVersionResource][]*qWatcher{}
	}
	// drop stopped watchers while we are here
	live := t.watchers[gvr][:0]
	for _, x := range t.watchers[gvr] {
		x.mu.Lock()
		st := x.stopped
		x.mu.Unlock()
		if !st {
			live = append(live, x)
		}
	}
	t.watchers[gvr] = append(live, w)
	t.mu.Unlock()
	return w, nil
}

func (t *countingTracker) emit(gvr schema.GroupVersionResource, ns string, typ watch.EventType, obj runtime.Object) {
	if obj == nil {
		return
	}
	for _, w := range t.watchers[gvr] {
		if w.ns == "" || w.ns == ns {
			w.push(watch.Event{Type: typ, Object: obj.DeepCopyObject()})
		}
	}
}

func nameOf(obj runtime.Object) string {
	if a, err := meta.Accessor(obj); err == nil {
		return a.GetName()
	}
	return ""
}

func (t *countingTracker) after(gvr schema.GroupVersionResource, ns string, obj runtime.Object, typ watch.EventType, err error) error {
	if err == nil {
		if cur, gerr := t.ObjectTracker.Get(gvr, ns, nameOf(obj)); gerr == nil {
			t.emit(gvr, ns, typ, cur)
		}
	}
	return err
}

// stampRV gives a resource.k8s.io object a fresh, monotonically increasing metadata.resourceVersion, as an API
// server does on every write. The scheduler's DRA manager keeps ResourceClaims in an assume cache that orders
// object versions by parsing this field (an empty value is an error there). Other kinds keep the tracker's
// behaviour (no version), which the rest of the harness was built on.
func (t *countingTracker) stampRV(obj runtime.Object) {
	if obj == nil {
		return
	}
	gvks, _, err := storeScheme.ObjectKinds(obj)
	if err != nil || len(gvks) == 0 || gvks[0].Group != "resource.k8s.io" {
		return
	}
	if a, err := meta.Accessor(obj); err == nil {
		a.SetResourceVersion(strconv.FormatInt(t.rv.Add(1), 10))
	}
}

func (t *countingTracker) Add(obj runtime.Object) error {
	t.mu.Lock()
	defer t.mu.Unlock()
	if meta.IsListType(obj) {
		return t.ObjectTracker.Add(obj)
	}
	t.stampRV(obj)
	err := t.ObjectTracker.Add(obj)
	if err == nil {
		if gvks, _, kerr := storeScheme.ObjectKinds(obj); kerr == nil && len(gvks) > 0 {
			gvr, _ := meta.UnsafeGuessKindToResource(gvks[0])
			if a, aerr := meta.Accessor(obj); aerr == nil {
				if cur, gerr := t.ObjectTracker.Get(gvr, a.GetNamespace(), a.GetName()); gerr == nil {
					t.emit(gvr, a.GetNamespace(), watch.Added, cur)
				}
			}
		}
	}
	return err
}

func (t *countingTracker) Create(gvr schema.GroupVersionResource, obj runtime.Object, ns string, opts ...metav1.CreateOptions) error {
	t.writes.Add(1)
	t.mu.Lock()
	defer t.mu.Unlock()
	t.stampRV(obj)
	return t.after(gvr, ns, obj, watch.Added, t.ObjectTracker.Create(gvr, obj, ns, opts...))
}
func (t *countingTracker) Update(gvr schema.GroupVersionResource, obj runtime.Object, ns string, opts ...metav1.UpdateOptions) error {
	t.writes.Add(1)
	t.mu.Lock()
	defer t.mu.Unlock()
	t.stampRV(obj)
	return t.after(gvr, ns, obj, watch.Modified, t.ObjectTracker.Update(gvr, obj, ns, opts...))
}
func (t *countingTracker) Patch(gvr schema.GroupVersionResource, obj runtime.Object, ns string, opts ...metav1.PatchOptions) error {
	t.writes.Add(1)
	t.mu.Lock()
	defer t.mu.Unlock()
	t.stampRV(obj)
	return t.after(gvr, ns, obj, watch.Modified, t.ObjectTracker.Patch(gvr, obj, ns, opts...))
}
func (t *countingTracker) Apply(gvr schema.GroupVersionResource, obj runtime.Object, ns string, opts ...metav1.PatchOptions) error {
	t.writes.Add(1)
	t.mu.Lock()
	defer t.mu.Unlock()
	return t.after(gvr, ns, obj, watch.Modified, t.ObjectTracker.Apply(gvr, obj, ns, opts...))
}
func (t *countingTracker) Delete(gvr schema.GroupVersionResource, ns, name string, opts ...metav1.DeleteOptions) error {
	t.writes.Add(1)
	t.mu.Lock()
	defer t.mu.Unlock()
	old, gerr := t.ObjectTracker.Get(gvr, ns, name)
	err := t.ObjectTracker.Delete(gvr, ns, name, opts...)
	if err == nil && gerr == nil {
		t.emit(gvr, ns, watch.Deleted, old)
	}
	return err
}

var storeScheme = Scheme()

// Store is the shared in-memory API store.
type Store struct {
	Scheme  *runtime.Scheme
	Tracker k8stesting.ObjectTracker
	Kube    *fake.Clientset
	Kai     *kaifake.Clientset

	writes atomic.Int64

	// GracefulPods: when true, deleting a pod that has spec.nodeName through the kube clientset only sets
	// metadata.deletionTimestamp (what an API server does for a pod with a grace period); the world model
	// removes it later.
	GracefulPods atomic.Bool

	// PodGroupLag: MODIFIED events of PodGroup watches are held back until ReleasePodGroupEvents (lagwatch.go)
	PodGroupLag        atomic.Bool
	heldPodGroupEvents atomic.Int64

	mu         sync.Mutex
	kubeHooks  []Hook
	lagWatches []*lagWatch
}

// Hook is called for every clientset action before it reaches the tracker. Returning handled=true short-circuits.
type Hook func(client string, action k8stesting.Action) (handled bool, ret runtime.Object, err error)

var podGVR = schema.GroupVersionResource{Version: "v1", Resource: "pods"}

// New creates an empty store.
func New() *Store {
	s := &Store{Scheme: storeScheme}
	codecs := serializer.NewCodecFactory(s.Scheme)
	s.Tracker = &countingTracker{ObjectTracker: k8stesting.NewObjectTracker(s.Scheme, codecs.UniversalDecoder()), writes: &s.writes}

	watchReactor := func(action k8stesting.Action) (bool, watch.Interface, error) {
		var opts metav1.ListOptions
		if wa, ok := action.(k8stesting.WatchActionImpl); ok {
			opts = wa.ListOptions
		}
		w, err := s.Tracker.Watch(action.GetResource(), action.GetNamespace(), opts)
		if err != nil {
			return false, nil, err
		}
		if action.GetResource().Resource == "podgroups" {
			return true, s.newLagWatch(w), nil
		}
		return true, w, nil
	}
	s.Kube = fake.NewSimpleClientset()
	s.Kube.PrependReactor("*", "*", k8stesting.ObjectReaction(s.Tracker))
	s.Kube.PrependWatchReactor("*", watchReactor)
	s.Kube.PrependReactor("*", "*", s.reactor("kube"))
	s.Kai = kaifake.NewSimpleClientset()
	s.Kai.PrependReactor("*", "*", k8stesting.ObjectReaction(s.Tracker))
	s.Kai.PrependWatchReactor("*", watchReactor)
	s.Kai.PrependReactor("*", "*", s.reactor("kai"))
	return s
}

func (s *Store) reactor(name string) k8stesting.ReactionFunc {
	return func(action k8stesting.Action) (bool, runtime.Object, error) {
		s.mu.Lock()
		hooks := append([]Hook(nil), s.kubeHooks...)
		s.mu.Unlock()
		for _, h := range hooks {
			if handled, ret, err := h(name, action); handled {
				return true, ret, err
			}
		}
		if name == "kube" && s.GracefulPods.Load() {
			if da, ok := action.(k8stesting.DeleteActionImpl); ok && da.GetResource().Resource == "pods" && da.GetSubresource() == "" {
				obj, err := s.Tracker.Get(podGVR, da.GetNamespace(), da.GetName())
				if err != nil {
					return true, nil, err
				}
				pod := obj.(*v1.Pod)
				if pod.Spec.NodeName != "" && pod.Status.Phase != v1.PodSucceeded && pod.Status.Phase != v1.PodFailed {
					if pod.DeletionTimestamp == nil {
						pod = pod.DeepCopy()
						now := metav1.NewTime(time.Now())
						pod.DeletionTimestamp = &now
						pod.Finalizers = append(pod.Finalizers, "verif/terminating")
						if err := s.Tracker.Update(podGVR, pod, pod.Namespace); err != nil {
							return true, nil, err
						}
					}
					return true, nil, nil
				}
			}
		}
		return false, nil, nil
	}
}

// EnableDRA makes the kube clientset's fake discovery describe an API server that serves Dynamic Resource
// Allocation: server version 1.34 and the resource.k8s.io/v1 group version. The scheduler cache decides the
// DynamicResourceAllocation feature gate from exactly these two answers (pkg/common/feature_gates) every time a
// cache is built. DisableDRA restores the answers of a server without the API group (the gate goes off).
func (s *Store) EnableDRA() {
	fd, ok := s.Kube.Discovery().(*fakediscovery.FakeDiscovery)
	if !ok {
		return
	}
	fd.FakedServerVersion = &version.Info{Major: "1", Minor: "34", GitVersion: "v1.34.2"}
	gv := resourceapi.SchemeGroupVersion.String()
	for _, rl := range s.Kube.Fake.Resources {
		if rl.GroupVersion == gv {
			return
		}
	}
	s.Kube.Fake.Resources = append(s.Kube.Fake.Resources, &metav1.APIResourceList{GroupVersion: gv, APIResources: []metav1.APIResource{
		{Name: "deviceclasses", Kind: "DeviceClass", Verbs: metav1.Verbs{"get", "list", "watch"}},
		{Name: "resourceslices", Kind: "ResourceSlice", Verbs: metav1.Verbs{"get", "list", "watch"}},
		{Name: "resourceclaims", Namespaced: true, Kind: "ResourceClaim", Verbs: metav1.Verbs{"get", "list", "watch", "update", "patch"}},
	}})
}

// DRAEnabled reports whether EnableDRA was called.
func (s *Store) DRAEnabled() bool {
	gv := resourceapi.SchemeGroupVersion.String()
	for _, rl := range s.Kube.Fake.Resources {
		if rl.GroupVersion == gv {
			return true
		}
	}
	return false
}

// AddHook registers a clientset hook (applies to both clientsets).
func (s *Store) AddHook(h Hook) {
	s.mu.Lock()
	defer s.mu.Unlock()
	s.kubeHooks = append(s.kubeHooks, h)
}

// ClearHooks removes all hooks.
func (s *Store) ClearHooks() {
	s.mu.Lock()
	defer s.mu.Unlock()
	s.kubeHooks = nil
}

// Writes returns the number of tracker writes so far.
func (s *Store) Writes() int64 { return s.writes.Load() }

// WaitQuiescent waits until the write counter has been stable for `stable`, at most `max`.
// Returns false when the cap was hit.
func (s *Store) WaitQuiescent(stable, max time.Duration) bool {
	deadline := time.Now().Add(max)
	last := s.Writes()
	lastChange := time.Now()
	for {
		time.Sleep(2 * time.Millisecond)
		w := s.Writes()
		if w != last {
			last = w
			lastChange = time.Now()
		} else if time.Since(lastChange) >= stable {
			return true
		}
		if time.Now().After(deadline) {
			return false
		}
	}
}

// Add puts an object into the store directly (no hooks, no counting of client calls).
func (s *Store) Add(objs ...runtime.Object) error {
	for _, o := range objs {
		if err := s.Tracker.Add(o); err != nil {
			return fmt.Errorf("add %T: %w", o, err)
		}
	}
	return nil
}

// Ctx is a background context for convenience.
var Ctx = context.Background()
