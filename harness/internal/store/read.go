package store

import (
	"sort"

	v1 "k8s.io/api/core/v1"
	resourceapi "k8s.io/api/resource/v1"
	schedulingv1 "k8s.io/api/scheduling/v1"
	metav1 "k8s.io/apimachinery/pkg/apis/meta/v1"

	kaiv1alpha1 "github.com/NVIDIA/KAI-scheduler/pkg/apis/kai/v1alpha1"
	schedulingv1alpha2 "github.com/NVIDIA/KAI-scheduler/pkg/apis/scheduling/v1alpha2"
	enginev2 "github.com/NVIDIA/KAI-scheduler/pkg/apis/scheduling/v2"
	enginev2alpha2 "github.com/NVIDIA/KAI-scheduler/pkg/apis/scheduling/v2alpha2"

	"verif/harness/internal/spec"
)

// ReadAll returns deep copies of every object kind the harness cares about, sorted by name.
// It reads through the clientsets' tracker without triggering hooks.
func (s *Store) ReadAll() *spec.Objects {
	o := &spec.Objects{}
	if l, err := s.Tracker.List(podGVR, podGVR.GroupVersion().WithKind("Pod"), ""); err == nil {
		for i := range l.(*v1.PodList).Items {
			o.Pods = append(o.Pods, l.(*v1.PodList).Items[i].DeepCopy())
		}
	}
	gv := podGVR.GroupVersion()
	if l, err := s.Tracker.List(gv.WithResource("nodes"), gv.WithKind("Node"), ""); err == nil {
		for i := range l.(*v1.NodeList).Items {
			o.Nodes = append(o.Nodes, l.(*v1.NodeList).Items[i].DeepCopy())
		}
	}
	if l, err := s.Tracker.List(gv.WithResource("configmaps"), gv.WithKind("ConfigMap"), ""); err == nil {
		for i := range l.(*v1.ConfigMapList).Items {
			o.ConfigMaps = append(o.ConfigMaps, l.(*v1.ConfigMapList).Items[i].DeepCopy())
		}
	}
	if l, err := s.Kube.Tracker().List(schedulingv1.SchemeGroupVersion.WithResource("priorityclasses"), schedulingv1.SchemeGroupVersion.WithKind("PriorityClass"), ""); err == nil {
		_ = l
	}
	if l, err := s.Tracker.List(schedulingv1.SchemeGroupVersion.WithResource("priorityclasses"), schedulingv1.SchemeGroupVersion.WithKind("PriorityClass"), ""); err == nil {
		for i := range l.(*schedulingv1.PriorityClassList).Items {
			o.PriorityClasses = append(o.PriorityClasses, l.(*schedulingv1.PriorityClassList).Items[i].DeepCopy())
		}
	}
	if l, err := s.Tracker.List(enginev2.GroupVersion.WithResource("queues"), enginev2.GroupVersion.WithKind("Queue"), ""); err == nil {
		for i := range l.(*enginev2.QueueList).Items {
			o.Queues = append(o.Queues, l.(*enginev2.QueueList).Items[i].DeepCopy())
		}
	}
	if l, err := s.Tracker.List(enginev2alpha2.SchemeGroupVersion.WithResource("podgroups"), enginev2alpha2.SchemeGroupVersion.WithKind("PodGroup"), ""); err == nil {
		for i := range l.(*enginev2alpha2.PodGroupList).Items {
			o.PodGroups = append(o.PodGroups, l.(*enginev2alpha2.PodGroupList).Items[i].DeepCopy())
		}
	}
	if l, err := s.Tracker.List(schedulingv1alpha2.GroupVersion.WithResource("bindrequests"), schedulingv1alpha2.GroupVersion.WithKind("BindRequest"), ""); err == nil {
		for i := range l.(*schedulingv1alpha2.BindRequestList).Items {
			o.BindRequests = append(o.BindRequests, l.(*schedulingv1alpha2.BindRequestList).Items[i].DeepCopy())
		}
	}
	if l, err := s.Tracker.List(kaiv1alpha1.GroupVersion.WithResource("topologies"), kaiv1alpha1.GroupVersion.WithKind("Topology"), ""); err == nil {
		for i := range l.(*kaiv1alpha1.TopologyList).Items {
			o.Topologies = append(o.Topologies, l.(*kaiv1alpha1.TopologyList).Items[i].DeepCopy())
		}
	}
	rgv := resourceapi.SchemeGroupVersion
	if l, err := s.Tracker.List(rgv.WithResource("deviceclasses"), rgv.WithKind("DeviceClass"), ""); err == nil {
		for i := range l.(*resourceapi.DeviceClassList).Items {
			o.DeviceClasses = append(o.DeviceClasses, l.(*resourceapi.DeviceClassList).Items[i].DeepCopy())
		}
	}
	if l, err := s.Tracker.List(rgv.WithResource("resourceslices"), rgv.WithKind("ResourceSlice"), ""); err == nil {
		for i := range l.(*resourceapi.ResourceSliceList).Items {
			o.ResourceSlices = append(o.ResourceSlices, l.(*resourceapi.ResourceSliceList).Items[i].DeepCopy())
		}
	}
	if l, err := s.Tracker.List(rgv.WithResource("resourceclaims"), rgv.WithKind("ResourceClaim"), ""); err == nil {
		for i := range l.(*resourceapi.ResourceClaimList).Items {
			o.ResourceClaims = append(o.ResourceClaims, l.(*resourceapi.ResourceClaimList).Items[i].DeepCopy())
		}
	}
	sort.Slice(o.DeviceClasses, func(i, j int) bool { return o.DeviceClasses[i].Name < o.DeviceClasses[j].Name })
	sort.Slice(o.ResourceSlices, func(i, j int) bool { return o.ResourceSlices[i].Name < o.ResourceSlices[j].Name })
	sort.Slice(o.ResourceClaims, func(i, j int) bool {
		return key(&o.ResourceClaims[i].ObjectMeta) < key(&o.ResourceClaims[j].ObjectMeta)
	})
	sort.Slice(o.Pods, func(i, j int) bool { return key(&o.Pods[i].ObjectMeta) < key(&o.Pods[j].ObjectMeta) })
	sort.Slice(o.Nodes, func(i, j int) bool { return o.Nodes[i].Name < o.Nodes[j].Name })
	sort.Slice(o.Queues, func(i, j int) bool { return o.Queues[i].Name < o.Queues[j].Name })
	sort.Slice(o.PodGroups, func(i, j int) bool { return key(&o.PodGroups[i].ObjectMeta) < key(&o.PodGroups[j].ObjectMeta) })
	sort.Slice(o.BindRequests, func(i, j int) bool { return key(&o.BindRequests[i].ObjectMeta) < key(&o.BindRequests[j].ObjectMeta) })
	return o
}

func key(m *metav1.ObjectMeta) string { return m.Namespace + "/" + m.Name }
