package store

import (
	"sync"

	"k8s.io/apimachinery/pkg/watch"
)

// lagWatch is a watch on PodGroups whose MODIFIED events can be held back: while the store's PodGroupLag flag is on
// they are buffered in order and delivered only when ReleasePodGroupEvents is called (or an ADDED / DELETED event
// comes, which flushes the buffer first so that the order is kept). It models a slow watch: the object is updated in
// the API, the informer of the consumer has not seen it yet.
type lagWatch struct {
	s       *Store
	src     watch.Interface
	out     chan watch.Event
	release chan struct{}
	stop    chan struct{}
	once    sync.Once
}

func (s *Store) newLagWatch(src watch.Interface) *lagWatch {
	w := &lagWatch{s: s, src: src, out: make(chan watch.Event, 1000), release: make(chan struct{}, 1), stop: make(chan struct{})}
	s.mu.Lock()
	s.lagWatches = append(s.lagWatches, w)
	s.mu.Unlock()
	go w.run()
	return w
}

func (w *lagWatch) run() {
	defer close(w.out)
	var buf []watch.Event
	flush := func() bool {
		for _, ev := range buf {
			select {
			case w.out <- ev:
			case <-w.stop:
				return false
			}
		}
		buf = nil
		return true
	}
	for {
		select {
		case ev, ok := <-w.src.ResultChan():
			if !ok {
				flush()
				return
			}
			if w.s.PodGroupLag.Load() && ev.Type == watch.Modified {
				buf = append(buf, ev)
				w.s.heldPodGroupEvents.Add(1)
				continue
			}
			if !flush() {
				return
			}
			select {
			case w.out <- ev:
			case <-w.stop:
				return
			}
		case <-w.release:
			if !flush() {
				return
			}
		case <-w.stop:
			return
		}
	}
}

func (w *lagWatch) Stop() {
	w.once.Do(func() {
		close(w.stop)
		w.src.Stop()
	})
}

func (w *lagWatch) ResultChan() <-chan watch.Event { return w.out }

// ReleasePodGroupEvents delivers the PodGroup MODIFIED events held back so far to their watchers.
func (s *Store) ReleasePodGroupEvents() {
	s.mu.Lock()
	ws := append([]*lagWatch(nil), s.lagWatches...)
	s.mu.Unlock()
	for _, w := range ws {
		select {
		case w.release <- struct{}{}:
		default:
		}
	}
}

// HeldPodGroupEvents is the number of PodGroup events that were held back so far.
func (s *Store) HeldPodGroupEvents() int64 { return s.heldPodGroupEvents.Load() }
