package run

import (
	"os"
	"path/filepath"
	"sort"
	"strings"
)

// RaceReport is one "WARNING: DATA RACE" block of a Go race detector log.
type RaceReport struct {
	Text     string
	Relevant bool   // both access stacks contain a frame accepted by the filter
	Sig      string // innermost accepted frame of each access stack (sorted), line numbers stripped
}

// RaceFilter is implemented by checks that restrict which race reports refute their property.
// The default accepts any frame of the KAI-Scheduler module.
type RaceFilter interface {
	RaceFrame(fn string) (short string, ok bool)
}

const kaiPkg = "github.com/NVIDIA/KAI-scheduler/pkg/"

func defaultRaceFrame(fn string) (string, bool) {
	if strings.HasPrefix(fn, kaiPkg) {
		return strings.TrimPrefix(fn, kaiPkg), true
	}
	return "", false
}

// ParseRaceLogs reads every file base.* written by GORACE=log_path=base and returns the reports.
func ParseRaceLogs(base string, frame func(string) (string, bool)) (reports []RaceReport, files []string) {
	if frame == nil {
		frame = defaultRaceFrame
	}
	files, _ = filepath.Glob(base + ".*")
	sort.Strings(files)
	for _, f := range files {
		b, err := os.ReadFile(f)
		if err != nil {
			continue
		}
		reports = append(reports, parseRaceLog(string(b), frame)...)
	}
	return reports, files
}

func parseRaceLog(s string, frame func(string) (string, bool)) []RaceReport {
	var out []RaceReport
	for _, blk := range strings.Split(s, "==================") {
		if !strings.Contains(blk, "WARNING: DATA RACE") {
			continue
		}
		// the first two stacks are the two accesses; later ones are goroutine creation sites
		var stacks [][]string
		var cur []string
		in := false
		for _, line := range strings.Split(blk, "\n") {
			t := strings.TrimSpace(line)
			switch {
			case strings.HasPrefix(t, "Read at ") || strings.HasPrefix(t, "Write at ") || strings.HasPrefix(t, "Previous read at ") ||
				strings.HasPrefix(t, "Previous write at ") || strings.HasPrefix(t, "Atomic ") || strings.HasPrefix(t, "Previous atomic "):
				if in {
					stacks = append(stacks, cur)
				}
				cur, in = nil, true
			case strings.HasPrefix(t, "Goroutine ") && strings.Contains(t, "created at"):
				if in {
					stacks = append(stacks, cur)
				}
				cur, in = nil, false
			case in && t != "" && !strings.HasPrefix(t, "/") && strings.HasSuffix(t, ")") && strings.HasPrefix(line, "  "):
				fn := t
				if i := strings.LastIndex(fn, "("); i > 0 {
					fn = fn[:i]
				}
				cur = append(cur, fn)
			}
		}
		if in {
			stacks = append(stacks, cur)
		}
		txt := strings.TrimSpace(blk)
		if len(txt) > 6000 {
			txt = txt[:6000] + " ..."
		}
		r := RaceReport{Text: txt}
		var sigs []string
		n := 0
		for i, st := range stacks {
			if i >= 2 {
				break
			}
			inner := ""
			for _, fn := range st { // innermost first
				if f, ok := frame(fn); ok {
					inner = f
					break
				}
			}
			if inner != "" {
				n++
				sigs = append(sigs, inner)
			} else if len(st) > 0 {
				sigs = append(sigs, "("+st[0]+")")
			}
		}
		sort.Strings(sigs)
		r.Relevant = n == 2 && len(stacks) >= 2
		r.Sig = strings.Join(sigs, "|")
		out = append(out, r)
	}
	return out
}
