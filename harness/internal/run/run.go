// Package run is the check framework: coordinator + worker processes, PRNG-determined case lists,
// three-valued verdicts, replay files, known findings and evidence files.
package run

import (
	"bufio"
	"encoding/json"
	"fmt"
	"os"
	"os/exec"
	"path/filepath"
	"runtime"
	"runtime/pprof"
	"sort"
	"strconv"
	"strings"
	"sync"
	"time"
)

// Violation is one refuting observation.
type Violation struct {
	Property string `json:"property"`
	Oracle   string `json:"oracle"`        // short name of the oracle clause that fired
	Sig      string `json:"sig,omitempty"` // specific signature used for known-findings matching
	Msg      string `json:"msg"`
	Cycle    int    `json:"cycle,omitempty"`
}

const (
	Held         = "held"
	Violated     = "violated"
	Inconclusive = "inconclusive"
)

// CaseResult is what a worker reports per case.
type CaseResult struct {
	Index      int            `json:"index"`
	Verdict    string         `json:"verdict"`
	Violations []Violation    `json:"violations,omitempty"`
	NonTrivial bool           `json:"nonTrivial"`
	Hash       string         `json:"hash"` // hash of the canonical input
	Counters   map[string]int `json:"counters,omitempty"`
	Sample     any            `json:"sample,omitempty"`
	Note       string         `json:"note,omitempty"`
	Replay     string         `json:"replay,omitempty"`
	Dur        float64        `json:"dur"`
	Crash      bool           `json:"crash,omitempty"`
}

// timeoutMult: a confirmation re-run of a case that hit the watchdog gets a multiple of the case timeout
// (VERIF_TIMEOUT_MULT), so that a loaded machine is not mistaken for a hang.
func timeoutMult() int {
	if n, err := strconv.Atoi(os.Getenv("VERIF_TIMEOUT_MULT")); err == nil && n > 1 {
		return n
	}
	return 1
}

// HangSensitive is implemented by checks for which a confirmed hang or a process-level crash of the system under
// test refutes the property itself (C10). For every other check such an event makes the case inconclusive.
type HangSensitive interface{ HangIsViolation() bool }

// Check is one property check.
type Check interface {
	ID() string
	Level() string              // evidence level
	NumCases(tier string) int   // fixed, PRNG-determined case list length
	Rule() string               // how cases are generated, what is non-trivial
	Assumptions() []string      //
	CaseTimeout() time.Duration // watchdog per case
	CrashIsViolation() bool     // a SUT panic/hang while running a case refutes the property
	// RunCase runs one case. workdir is a scratch dir for this worker; replayDir is where replay files go.
	RunCase(seed int64, index int, tier string, env *Env) CaseResult
}

// Env is the per-worker environment.
type Env struct {
	WorkDir   string
	ReplayDir string
	Verbose   bool
}

// SaveReplay writes a replay JSON and returns its path.
func (e *Env) SaveReplay(prop string, seed int64, index int, v any) string {
	_ = os.MkdirAll(filepath.Join(e.ReplayDir, prop), 0o755)
	p := filepath.Join(e.ReplayDir, prop, fmt.Sprintf("%d-%d.json", seed, index))
	b, err := json.MarshalIndent(v, "", " ")
	if err != nil {
		b = []byte(fmt.Sprintf("{\"marshalError\":%q}", err.Error()))
	}
	_ = os.WriteFile(p, b, 0o644)
	return p
}

var registry = map[string]Check{}

func Register(c Check) { registry[c.ID()] = c }
func Get(id string) (Check, bool) {
	c, ok := registry[id]
	return c, ok
}
func IDs() []string {
	var ids []string
	for k := range registry {
		ids = append(ids, k)
	}
	sort.Strings(ids)
	return ids
}

// ---------------------------------------------------------------- worker

// Worker runs cases [from,to) and appends one JSON line per case to out.
func Worker(c Check, seed int64, tier string, from, to int, out string, env *Env) error {
	f, err := os.OpenFile(out, os.O_CREATE|os.O_WRONLY|os.O_APPEND, 0o644)
	if err != nil {
		return err
	}
	defer f.Close()
	cur := out + ".current"
	for idx := from; idx < to; idx++ {
		_ = os.WriteFile(cur, []byte(strconv.Itoa(idx)), 0o644)
		done := make(chan struct{})
		go func(idx int) { // watchdog: inconclusive-or-crash, decided by the coordinator
			select {
			case <-done:
			case <-time.After(c.CaseTimeout() * time.Duration(timeoutMult())):
				fmt.Fprintf(os.Stderr, "WATCHDOG case %d exceeded %v; goroutine dump follows\n", idx, c.CaseTimeout()*time.Duration(timeoutMult()))
				_ = pprof.Lookup("goroutine").WriteTo(os.Stderr, 2)
				os.Exit(4)
			}
		}(idx)
		t0 := time.Now()
		res := c.RunCase(seed, idx, tier, env)
		close(done)
		res.Index = idx
		res.Dur = time.Since(t0).Seconds()
		b, _ := json.Marshal(res)
		if _, err := f.Write(append(b, '\n')); err != nil {
			return err
		}
	}
	_ = os.Remove(cur)
	return nil
}

// ---------------------------------------------------------------- known findings

type Finding struct {
	Property string `json:"property"`
	Sig      string `json:"sig"`    // matched as a prefix of Violation.Sig
	Status   string `json:"status"` // "open" or "fixed:<commit>"
	What     string `json:"what"`
}

func LoadFindings(path string) []Finding {
	b, err := os.ReadFile(path)
	if err != nil {
		return nil
	}
	var fs struct {
		Findings []Finding `json:"findings"`
	}
	if err := json.Unmarshal(b, &fs); err != nil {
		fmt.Fprintf(os.Stderr, "known_findings.json unreadable: %v\n", err)
		return nil
	}
	return fs.Findings
}

func matchFinding(fs []Finding, v Violation) *Finding {
	for i := range fs {
		f := &fs[i]
		if f.Status == "open" && f.Property == v.Property && f.Sig != "" && strings.HasPrefix(v.Sig, f.Sig) {
			return f
		}
	}
	return nil
}

// ---------------------------------------------------------------- coordinator

type Options struct {
	Seed      int64
	Tier      string
	Workers   int
	VerifDir  string // /verif
	Exe       string // path of this binary (workers are re-invocations)
	ExtraArgs []string
	Only      []int // run only these indices (replay/debug)
	MaxCases  int   // override number of cases (debug)
	// RaceLog: base path given to the workers' race detector (GORACE=log_path=<RaceLog>, set by check.sh together
	// with VERIF_RACE_LOG). After the run every <RaceLog>.* file is parsed; a report whose two access stacks both
	// contain code of the system under test refutes the property.
	RaceLog string
	// RacePhase: this run is the supplementary race-detector phase of a check whose main phase already wrote the
	// evidence file: the result is merged into evidence.coverage.race_phase instead of replacing the file.
	RacePhase bool
}

// Coordinate runs a check and writes the evidence file. Returns process exit code.
func Coordinate(c Check, o Options) int {
	t0 := time.Now()
	n := c.NumCases(o.Tier)
	if o.MaxCases > 0 && o.MaxCases < n {
		n = o.MaxCases
	}
	if o.Workers <= 0 {
		o.Workers = runtime.NumCPU()
	}
	if o.Workers > n {
		o.Workers = n
	}
	work, err := os.MkdirTemp("", "verif-"+c.ID()+"-")
	if err != nil {
		fmt.Println("cannot create work dir:", err)
		return 2
	}
	defer os.RemoveAll(work)
	replayDir := filepath.Join(o.VerifDir, "replays")

	type shard struct{ from, to int }
	var shards []shard
	if len(o.Only) > 0 {
		for _, i := range o.Only {
			shards = append(shards, shard{i, i + 1})
		}
	} else {
		// interleaved contiguous shards, small enough to balance load
		per := (n + o.Workers*4 - 1) / (o.Workers * 4)
		if per < 1 {
			per = 1
		}
		for s := 0; s < n; s += per {
			e := s + per
			if e > n {
				e = n
			}
			shards = append(shards, shard{s, e})
		}
	}
	var mu sync.Mutex
	var results []CaseResult
	confirmedHangs := 0
	next := 0
	var wg sync.WaitGroup
	workerLogs := filepath.Join(o.VerifDir, "logs")
	_ = os.MkdirAll(workerLogs, 0o755)
	runShard := func(wid int, sh shard) {
		from := sh.from
		for from < sh.to {
			out := filepath.Join(work, fmt.Sprintf("w%d-%d.jsonl", wid, from))
			args := []string{"worker", "--prop", c.ID(), "--tier", o.Tier, "--seed", strconv.FormatInt(o.Seed, 10),
				"--from", strconv.Itoa(from), "--to", strconv.Itoa(sh.to), "--out", out, "--work", work, "--replays", replayDir}
			args = append(args, o.ExtraArgs...)
			cmd := exec.Command(o.Exe, args...)
			logPath := filepath.Join(workerLogs, fmt.Sprintf("%s-w%d-%d.log", c.ID(), wid, from))
			lf, _ := os.Create(logPath)
			cmd.Stdout, cmd.Stderr = lf, lf
			err := cmd.Run()
			lf.Close()
			got := readResults(out)
			mu.Lock()
			results = append(results, got...)
			mu.Unlock()
			if err == nil {
				_ = os.Remove(logPath)
				return
			}
			// worker died: find the case in flight
			curB, _ := os.ReadFile(out + ".current")
			cur, cerr := strconv.Atoi(strings.TrimSpace(string(curB)))
			if cerr != nil {
				cur = from + len(got)
			}
			code := -1
			if ee, ok := err.(*exec.ExitError); ok {
				code = ee.ExitCode()
			}
			keep := filepath.Join(workerLogs, fmt.Sprintf("%s-crash-%d-%d.log", c.ID(), o.Seed, cur))
			_ = os.Rename(logPath, keep)
			cr := CaseResult{Index: cur, Crash: true, Hash: fmt.Sprintf("crash-%d", cur), Replay: keep}
			kind := "crash"
			if code == 4 {
				kind = "watchdog"
			}
			tail := tailFile(keep, 60)
			mu.Lock()
			skipConfirm := confirmedHangs >= 3 // the check already fails on confirmed hangs: do not spend 4x on each further one
			mu.Unlock()
			if kind == "watchdog" && !skipConfirm {
				// confirmation run: the same case alone, in a fresh process, with 4x the time. Only a second watchdog
				// is a hang; a completed run is the case's result (the first watchdog was machine load).
				out2 := filepath.Join(work, fmt.Sprintf("w%d-%d-confirm.jsonl", wid, cur))
				args2 := []string{"worker", "--prop", c.ID(), "--tier", o.Tier, "--seed", strconv.FormatInt(o.Seed, 10),
					"--from", strconv.Itoa(cur), "--to", strconv.Itoa(cur + 1), "--out", out2, "--work", work, "--replays", replayDir}
				args2 = append(args2, o.ExtraArgs...)
				cmd2 := exec.Command(o.Exe, args2...)
				cmd2.Env = append(os.Environ(), "VERIF_TIMEOUT_MULT=4")
				lf2, _ := os.Create(keep + ".confirm")
				cmd2.Stdout, cmd2.Stderr = lf2, lf2
				err2 := cmd2.Run()
				lf2.Close()
				if got2 := readResults(out2); err2 == nil && len(got2) == 1 {
					mu.Lock()
					results = append(results, got2...)
					mu.Unlock()
					_ = os.Remove(keep + ".confirm")
					from = cur + 1
					continue
				}
				tail = tailFile(keep+".confirm", 60)
			}
			hs, declares := c.(HangSensitive)
			crashRefutes := c.CrashIsViolation() && (!declares || hs.HangIsViolation())
			hangRefutes := declares && hs.HangIsViolation() && hangConfirmed(tail) // twice, the second time with 4x the time
			if kind == "watchdog" && hangRefutes {
				mu.Lock()
				confirmedHangs++
				mu.Unlock()
			}
			if (kind == "crash" && crashRefutes) || (kind == "watchdog" && hangRefutes) {
				cr.Verdict = Violated
				cr.Violations = []Violation{{Property: c.ID(), Oracle: "sut-" + kind, Sig: "sut-" + kind + ":" + crashSig(tail),
					Msg: fmt.Sprintf("worker exit code %d while running case %d (%s); log %s", code, cur, kind, keep)}}
			} else {
				cr.Verdict = Inconclusive
				cr.Note = fmt.Sprintf("worker exit code %d (%s) on case %d; log %s", code, kind, cur, keep)
			}
			mu.Lock()
			results = append(results, cr)
			mu.Unlock()
			from = cur + 1
		}
	}
	for w := 0; w < o.Workers; w++ {
		wg.Add(1)
		go func(wid int) {
			defer wg.Done()
			for {
				mu.Lock()
				if next >= len(shards) {
					mu.Unlock()
					return
				}
				sh := shards[next]
				next++
				mu.Unlock()
				runShard(wid, sh)
			}
		}(w)
	}
	wg.Wait()
	sort.Slice(results, func(i, j int) bool { return results[i].Index < results[j].Index })
	return report(c, o, results, time.Since(t0))
}

func readResults(path string) []CaseResult {
	f, err := os.Open(path)
	if err != nil {
		return nil
	}
	defer f.Close()
	var out []CaseResult
	sc := bufio.NewScanner(f)
	sc.Buffer(make([]byte, 1<<20), 1<<28)
	for sc.Scan() {
		var r CaseResult
		if json.Unmarshal(sc.Bytes(), &r) == nil {
			out = append(out, r)
		}
	}
	return out
}

func tailFile(path string, lines int) string {
	b, err := os.ReadFile(path)
	if err != nil {
		return ""
	}
	if len(b) > 1<<20 {
		b = b[:1<<20] // goroutine dumps start at the top: keep the head
	}
	return string(b)
}

// hangConfirmed: the watchdog dump shows a running/runnable goroutine inside KAI scheduler code.
func hangConfirmed(dump string) bool {
	blocks := strings.Split(dump, "\n\n")
	for _, b := range blocks {
		first := strings.SplitN(b, "\n", 2)[0]
		if (strings.Contains(first, "[running") || strings.Contains(first, "[runnable")) &&
			strings.Contains(b, "github.com/NVIDIA/KAI-scheduler/pkg/") {
			return true
		}
	}
	return false
}

// crashSig extracts a short stable signature from a panic / hang dump: the innermost KAI frame.
func crashSig(dump string) string {
	lines := strings.Split(dump, "\n")
	inRun := false
	for _, l := range lines {
		if strings.HasPrefix(l, "goroutine ") {
			inRun = strings.Contains(l, "[running") || strings.Contains(l, "[runnable")
		}
		if strings.HasPrefix(l, "panic:") || strings.HasPrefix(l, "fatal error:") {
			inRun = true
		}
		if inRun && strings.HasPrefix(l, "github.com/NVIDIA/KAI-scheduler/pkg/") {
			fn := l
			if i := strings.LastIndex(fn, "("); i > 0 {
				fn = fn[:i]
			}
			return strings.TrimPrefix(fn, "github.com/NVIDIA/KAI-scheduler/pkg/")
		}
	}
	return "unknown"
}

func report(c Check, o Options, results []CaseResult, wall time.Duration) int {
	findings := LoadFindings(filepath.Join(o.VerifDir, "known_findings.json"))
	counters := map[string]int{}
	distinct := map[string]bool{}
	var samples []any
	inconclusive, held, violatedCases := 0, 0, 0
	var unknownViolations []Violation
	known := map[string]int{}
	var firstReplay string
	var notes []string
	for _, r := range results {
		for k, v := range r.Counters {
			counters[k] += v
		}
		if r.NonTrivial && r.Hash != "" {
			distinct[r.Hash] = true
		}
		if r.Sample != nil && len(samples) < 3 && r.NonTrivial {
			samples = append(samples, r.Sample)
		}
		switch r.Verdict {
		case Inconclusive:
			inconclusive++
			if len(notes) < 5 {
				notes = append(notes, fmt.Sprintf("case %d: %s", r.Index, r.Note))
			}
		case Violated:
			violatedCases++
		default:
			held++
		}
		for _, v := range r.Violations {
			if f := matchFinding(findings, v); f != nil {
				known[f.Property+" "+f.Sig+" — "+f.What]++
				continue
			}
			unknownViolations = append(unknownViolations, v)
			if firstReplay == "" {
				firstReplay = r.Replay
			}
			fmt.Printf("violation case=%d oracle=%s sig=%s replay=%s\n   %s\n", r.Index, v.Oracle, v.Sig, r.Replay, v.Msg)
		}
	}
	if len(samples) == 0 {
		for _, r := range results {
			if r.Sample != nil {
				samples = append(samples, r.Sample)
				break
			}
		}
	}
	raceSeen := map[string]int{}
	if o.RaceLog != "" {
		var frame func(string) (string, bool)
		if rf, ok := c.(RaceFilter); ok {
			frame = rf.RaceFrame
		}
		reports, files := ParseRaceLogs(o.RaceLog, frame)
		counters["race_log_files"] += len(files)
		var keep string
		for _, r := range reports {
			counters["race_reports"]++
			if !r.Relevant {
				counters["race_reports_not_in_sut_packages"]++
				raceSeen["(other) "+r.Sig]++
				continue
			}
			counters["race_reports_in_sut_packages"]++
			raceSeen[r.Sig]++
			if raceSeen[r.Sig] > 1 {
				continue
			}
			if keep == "" {
				keep = filepath.Join(o.VerifDir, "logs", fmt.Sprintf("%s-race-%d.log", c.ID(), o.Seed))
				var sb strings.Builder
				for _, f := range files {
					if b, err := os.ReadFile(f); err == nil {
						sb.Write(b)
					}
				}
				_ = os.WriteFile(keep, []byte(sb.String()), 0o644)
			}
			v := Violation{Property: c.ID(), Oracle: "data-race", Sig: "data-race:" + r.Sig,
				Msg: fmt.Sprintf("the Go race detector reported a data race whose two accesses are both in the system under test: %s; full log %s\n%s", r.Sig, keep, r.Text)}
			if f := matchFinding(findings, v); f != nil {
				known[f.Property+" "+f.Sig+" — "+f.What]++
				continue
			}
			unknownViolations = append(unknownViolations, v)
			if firstReplay == "" {
				firstReplay = keep
			}
			fmt.Printf("violation case=- oracle=%s sig=%s replay=%s\n   %s\n", v.Oracle, v.Sig, keep, firstLines(r.Text, 40))
		}
		for _, f := range files {
			_ = os.Remove(f)
		}
	}
	ks := make([]string, 0, len(known))
	for k := range known {
		ks = append(ks, k)
	}
	sort.Strings(ks)
	for _, k := range ks {
		parts := strings.SplitN(k, " ", 2)
		fmt.Printf("KNOWN-FINDING: property=%s %s (seen %d times)\n", parts[0], parts[1], known[k])
	}
	evPath := filepath.Join(o.VerifDir, "evidence", c.ID()+".json")
	_ = os.MkdirAll(filepath.Dir(evPath), 0o755)
	ev := map[string]any{
		"property_id": c.ID(), "tier": o.Tier, "seed": o.Seed, "level": c.Level(),
		"coverage": map[string]any{
			"evaluations": len(results), "distinct_nontrivial": len(distinct), "rule": c.Rule(), "samples": samples,
			"counters": counters, "held": held, "violated_cases": violatedCases, "inconclusive": inconclusive,
			"inconclusive_notes": notes, "known_findings_seen": known,
		},
		"assumptions": c.Assumptions(), "wall_s": wall.Seconds(), "violations": len(unknownViolations),
	}
	if o.RaceLog != "" {
		ev["coverage"].(map[string]any)["race_detector"] = map[string]any{"enabled": true, "distinct_reports": raceSeen}
	}
	if o.RacePhase {
		// merge into the evidence written by the main phase
		var main map[string]any
		if mb, err := os.ReadFile(evPath); err == nil && json.Unmarshal(mb, &main) == nil && main["coverage"] != nil {
			if cov, ok := main["coverage"].(map[string]any); ok {
				cov["race_phase"] = map[string]any{"evaluations": len(results), "held": held, "violated_cases": violatedCases, "inconclusive": inconclusive,
					"counters": counters, "distinct_reports": raceSeen, "violations": len(unknownViolations), "wall_s": wall.Seconds(),
					"what": "the same generated cases re-run with a -race build of harness + system under test; GORACE halt_on_error=0, reports parsed from the log files"}
				if nv, ok := main["violations"].(float64); ok {
					main["violations"] = int(nv) + len(unknownViolations)
				}
				ev = main
			}
		}
	}
	b, _ := json.MarshalIndent(ev, "", " ")
	_ = os.WriteFile(evPath, b, 0o644)

	fmt.Printf("check %s tier=%s seed=%d: cases=%d held=%d violated=%d inconclusive=%d distinct_nontrivial=%d wall=%.1fs\n",
		c.ID(), o.Tier, o.Seed, len(results), held, violatedCases, inconclusive, len(distinct), wall.Seconds())
	ck := make([]string, 0, len(counters))
	for k := range counters {
		ck = append(ck, k)
	}
	sort.Strings(ck)
	var sb strings.Builder
	for _, k := range ck {
		fmt.Fprintf(&sb, " %s=%d", k, counters[k])
	}
	fmt.Println("observed:" + sb.String())

	if len(unknownViolations) > 0 {
		if firstReplay == "" {
			firstReplay = evPath
		}
		fmt.Printf("VIOLATION property=%s replay=%s\n", c.ID(), firstReplay)
		return 1
	}
	if len(o.Only) == 0 && !o.RacePhase {
		if len(results) == 0 || float64(inconclusive) > 0.2*float64(len(results)) {
			fmt.Printf("no-evidence: %d of %d cases inconclusive\n", inconclusive, len(results))
			fmt.Printf("VIOLATION property=%s replay=%s\n", c.ID(), evPath)
			return 1
		}
		if len(distinct) < 2 {
			fmt.Printf("no-evidence: only %d distinct non-trivial cases observed\n", len(distinct))
			fmt.Printf("VIOLATION property=%s replay=%s\n", c.ID(), evPath)
			return 1
		}
	}
	return 0
}

func firstLines(s string, n int) string {
	l := strings.Split(s, "\n")
	if len(l) > n {
		l = l[:n]
	}
	return strings.Join(l, "\n   ")
}
