package c20

import (
	"context"
	"encoding/json"
	"fmt"
	"sort"
	"strings"
	"sync"

	nvidiav1 "github.com/NVIDIA/gpu-operator/api/nvidia/v1"
	monitoringv1 "github.com/prometheus-operator/prometheus-operator/pkg/apis/monitoring/v1"
	admissionv1 "k8s.io/api/admissionregistration/v1"
	appsv1 "k8s.io/api/apps/v1"
	v1 "k8s.io/api/core/v1"
	apiextensionsv1 "k8s.io/apiextensions-apiserver/pkg/apis/apiextensions/v1"
	"k8s.io/apimachinery/pkg/api/meta"
	"k8s.io/apimachinery/pkg/api/resource"
	metav1 "k8s.io/apimachinery/pkg/apis/meta/v1"
	"k8s.io/apimachinery/pkg/runtime"
	clientgoscheme "k8s.io/client-go/kubernetes/scheme"
	"k8s.io/utils/ptr"
	"sigs.k8s.io/controller-runtime/pkg/client"
	crfake "sigs.k8s.io/controller-runtime/pkg/client/fake"
	"sigs.k8s.io/controller-runtime/pkg/client/interceptor"

	kaiv1 "github.com/NVIDIA/KAI-scheduler/pkg/apis/kai/v1"
	kaiadmission "github.com/NVIDIA/KAI-scheduler/pkg/apis/kai/v1/admission"
	kaibinder "github.com/NVIDIA/KAI-scheduler/pkg/apis/kai/v1/binder"
	kaicommon "github.com/NVIDIA/KAI-scheduler/pkg/apis/kai/v1/common"
	kainsa "github.com/NVIDIA/KAI-scheduler/pkg/apis/kai/v1/node_scale_adjuster"
	kaipgc "github.com/NVIDIA/KAI-scheduler/pkg/apis/kai/v1/pod_group_controller"
	kaipg "github.com/NVIDIA/KAI-scheduler/pkg/apis/kai/v1/pod_grouper"
	kaiprom "github.com/NVIDIA/KAI-scheduler/pkg/apis/kai/v1/prometheus"
	kaiqc "github.com/NVIDIA/KAI-scheduler/pkg/apis/kai/v1/queue_controller"
	kaisched "github.com/NVIDIA/KAI-scheduler/pkg/apis/kai/v1/scheduler"
	"github.com/NVIDIA/KAI-scheduler/pkg/operator/operands"
	opadmission "github.com/NVIDIA/KAI-scheduler/pkg/operator/operands/admission"
	opbinder "github.com/NVIDIA/KAI-scheduler/pkg/operator/operands/binder"
	"github.com/NVIDIA/KAI-scheduler/pkg/operator/operands/deployable"
	"github.com/NVIDIA/KAI-scheduler/pkg/operator/operands/known_types"
	opnsa "github.com/NVIDIA/KAI-scheduler/pkg/operator/operands/node_scale_adjuster"
	oppgc "github.com/NVIDIA/KAI-scheduler/pkg/operator/operands/pod_group_controller"
	oppg "github.com/NVIDIA/KAI-scheduler/pkg/operator/operands/pod_grouper"
	opprom "github.com/NVIDIA/KAI-scheduler/pkg/operator/operands/prometheus"
	opqc "github.com/NVIDIA/KAI-scheduler/pkg/operator/operands/queue_controller"
	opsched "github.com/NVIDIA/KAI-scheduler/pkg/operator/operands/scheduler"

	"verif/harness/internal/run"
)

var (
	opSchemeOnce sync.Once
	opSchemeVal  *runtime.Scheme
)

// opScheme is the scheme cmd/operator builds.
func opScheme() *runtime.Scheme {
	opSchemeOnce.Do(func() {
		s := runtime.NewScheme()
		_ = clientgoscheme.AddToScheme(s)
		_ = apiextensionsv1.AddToScheme(s)
		_ = kaiv1.AddToScheme(s)
		_ = nvidiav1.AddToScheme(s)
		_ = monitoringv1.AddToScheme(s)
		opSchemeVal = s
	})
	return opSchemeVal
}

// freshOperands returns new instances of controller.ConfigReconcilerOperands (same types, same order).
func freshOperands() []operands.Operand {
	return []operands.Operand{
		&oppg.PodGrouper{},
		&opbinder.Binder{},
		&opqc.QueueController{},
		&oppgc.PodGroupController{},
		&opnsa.NodeScaleAdjuster{},
		&opadmission.Admission{},
		&opprom.Prometheus{},
		&opsched.SchedulerForConfig{},
	}
}

// newDeployable builds the deployable exactly as ConfigReconciler.SetOperands + SetupWithManager do.
func newDeployable() *deployable.DeployableOperands {
	d := deployable.New(freshOperands(), known_types.KAIConfigRegisteredCollectible)
	d.RegisterFieldsInheritFromClusterObjects(&admissionv1.ValidatingWebhookConfiguration{}, known_types.ValidatingWebhookConfigurationFieldInherit)
	d.RegisterFieldsInheritFromClusterObjects(&admissionv1.MutatingWebhookConfiguration{}, known_types.MutatingWebhookConfigurationFieldInherit)
	return d
}

// ---------------------------------------------------------------- generation

type opGen struct{ r rng }

func (g *opGen) optInt(vals ...int) *int {
	if g.r.p(0.5) {
		return nil
	}
	return ptr.To(pick(g.r, vals))
}
func (g *opGen) optInt32(vals ...int32) *int32 {
	if g.r.p(0.5) {
		return nil
	}
	return ptr.To(pick(g.r, vals))
}
func (g *opGen) optBool() *bool {
	if g.r.p(0.5) {
		return nil
	}
	return ptr.To(g.r.p(0.5))
}
func (g *opGen) optStr(vals ...string) *string {
	if g.r.p(0.5) {
		return nil
	}
	return ptr.To(pick(g.r, vals))
}

func (g *opGen) service(pDisabled float64) *kaicommon.Service {
	if g.r.p(0.25) && pDisabled == 0 {
		return nil
	}
	s := &kaicommon.Service{}
	if g.r.p(pDisabled) {
		s.Enabled = ptr.To(false)
	} else if g.r.p(0.3) {
		s.Enabled = ptr.To(true)
	}
	if g.r.p(0.4) {
		s.Image = &kaicommon.Image{Repository: g.optStr("registry.local/kai", "ghcr.io/nvidia/kai-scheduler"), Tag: g.optStr("v0.9.0", "v0.10.1", "dev")}
		if g.r.p(0.2) {
			s.Image.PullPolicy = ptr.To(pick(g.r, []v1.PullPolicy{v1.PullAlways, v1.PullIfNotPresent}))
		}
	}
	if g.r.p(0.4) {
		s.Resources = &kaicommon.Resources{}
		if g.r.p(0.7) {
			s.Resources.Requests = v1.ResourceList{v1.ResourceCPU: resource.MustParse(pick(g.r, []string{"10m", "100m", "1"}))}
		}
		if g.r.p(0.5) {
			s.Resources.Limits = v1.ResourceList{v1.ResourceMemory: resource.MustParse(pick(g.r, []string{"128Mi", "1Gi"}))}
		}
	}
	if g.r.p(0.3) {
		s.K8sClientConfig = &kaicommon.K8sClientConfig{QPS: g.optInt(10, 50), Burst: g.optInt(100, 300)}
	}
	if g.r.p(0.15) {
		s.Affinity = &v1.Affinity{NodeAffinity: &v1.NodeAffinity{RequiredDuringSchedulingIgnoredDuringExecution: &v1.NodeSelector{NodeSelectorTerms: []v1.NodeSelectorTerm{{
			MatchExpressions: []v1.NodeSelectorRequirement{{Key: "role", Operator: v1.NodeSelectorOpIn, Values: []string{"system"}}}}}}}}
	}
	return s
}

func (g *opGen) spec() kaiv1.ConfigSpec {
	r := g.r
	sp := kaiv1.ConfigSpec{Namespace: pick(r, []string{"", "kai-scheduler", "kai-sys"})}
	if r.p(0.7) {
		gl := &kaiv1.GlobalConfig{ReplicaCount: g.optInt32(1, 2, 3), Openshift: g.optBool(), SchedulerName: g.optStr("kai-scheduler", "my-sched"),
			QueueLabelKey: g.optStr("kai.scheduler/queue", "team"), NodePoolLabelKey: g.optStr("kai.scheduler/node-pool", "pool"), RequireDefaultPodAntiAffinityTerm: g.optBool()}
		gl.ImagePullSecrets = pick(r, [][]string{nil, {}, {"s1"}, {"s1", "s2"}, {"s3", "s1", "s2"}})
		if r.p(0.3) {
			gl.NodeSelector = map[string]string{"role": "system"}
		}
		if r.p(0.3) {
			gl.Tolerations = []v1.Toleration{{Key: "dedicated", Operator: v1.TolerationOpEqual, Value: "kai", Effect: v1.TaintEffectNoSchedule}}
		}
		if r.p(0.2) {
			gl.DaemonsetsTolerations = []v1.Toleration{{Operator: v1.TolerationOpExists}}
		}
		if r.p(0.25) {
			gl.NamespaceLabelSelector = map[string]string{"kai": "on"}
		}
		if r.p(0.25) {
			gl.PodLabelSelector = map[string]string{"sched": "kai", "tier": "gpu"}
		}
		if r.p(0.2) {
			gl.SecurityContext = &v1.SecurityContext{RunAsUser: ptr.To(int64(1234)), ReadOnlyRootFilesystem: ptr.To(true)}
		}
		if r.p(0.15) {
			gl.Affinity = &v1.Affinity{PodAntiAffinity: &v1.PodAntiAffinity{RequiredDuringSchedulingIgnoredDuringExecution: []v1.PodAffinityTerm{{TopologyKey: "zone",
				LabelSelector: &metav1.LabelSelector{MatchLabels: map[string]string{"x": "y"}}}}}}
		}
		sp.Global = gl
	}
	const pOff = 0.3
	if r.p(0.85) {
		sp.PodGrouper = &kaipg.PodGrouper{Service: g.service(pOff), MaxConcurrentReconciles: g.optInt(1, 5), Replicas: g.optInt32(1, 2)}
		if r.p(0.4) {
			sp.PodGrouper.Args = &kaipg.Args{GangScheduleKnative: g.optBool(), DefaultPrioritiesConfigMapName: g.optStr("prios"), DefaultPrioritiesConfigMapNamespace: g.optStr("kai-sys")}
		}
		if r.p(0.3) {
			sp.PodGrouper.K8sClientConfig = &kaicommon.K8sClientConfig{QPS: g.optInt(10, 50), Burst: g.optInt(100, 300)}
		}
	}
	if r.p(0.85) {
		sp.Binder = &kaibinder.Binder{Service: g.service(pOff), Replicas: g.optInt32(1, 2), MaxConcurrentReconciles: g.optInt(1, 10), VolumeBindingTimeoutSeconds: g.optInt(60, 120),
			ProbePort: g.optInt(8081, 9081), MetricsPort: g.optInt(8080, 9080), CDIEnabled: g.optBool()}
		if r.p(0.4) {
			sp.Binder.ResourceReservation = &kaibinder.ResourceReservation{Namespace: g.optStr("kai-resource-reservation", "rsv"), ServiceAccountName: g.optStr("kai-resource-reservation", "rsv-sa"),
				AppLabel: g.optStr("rsv-app"), AllocationTimeout: g.optInt(30, 40), RuntimeClassName: g.optStr("nvidia", "")}
			if r.p(0.3) {
				sp.Binder.ResourceReservation.PodResources = &kaicommon.Resources{Requests: v1.ResourceList{v1.ResourceCPU: resource.MustParse("1m")}}
			}
		}
	}
	if r.p(0.85) {
		sp.Admission = &kaiadmission.Admission{Service: g.service(pOff), Replicas: g.optInt32(1, 2), GPUSharing: g.optBool(), QueueLabelSelector: g.optBool(),
			ValidatingWebhookConfigurationName: g.optStr("validating-kai-admission", "my-validating"), MutatingWebhookConfigurationName: g.optStr("mutating-kai-admission", "my-mutating"),
			GPUPodRuntimeClassName: g.optStr("nvidia", "")}
		if r.p(0.3) {
			sp.Admission.Webhook = &kaiadmission.Webhook{Port: g.optInt(443, 8443), TargetPort: g.optInt(9443, 9444), ProbePort: g.optInt(8081), MetricsPort: g.optInt(8080, 8090)}
		}
	}
	if r.p(0.85) {
		sp.Scheduler = &kaisched.Scheduler{Service: g.service(pOff), GOGC: g.optInt(100, 400), Replicas: g.optInt32(1, 2)}
		if r.p(0.3) {
			sp.Scheduler.SchedulerService = &kaisched.Service{Type: ptr.To(pick(r, []v1.ServiceType{v1.ServiceTypeClusterIP, v1.ServiceTypeNodePort})), Port: g.optInt(8080, 9090), TargetPort: g.optInt(8080, 9090)}
		}
	}
	if r.p(0.85) {
		sp.QueueController = &kaiqc.QueueController{Service: g.service(pOff), Replicas: g.optInt32(1, 2), MetricsNamespace: g.optStr("kai", "myns"),
			QueueLabelToMetricLabel: g.optStr("priority=queue_priority"), QueueLabelToDefaultMetricValue: g.optStr("priority=normal")}
		if r.p(0.4) {
			sp.QueueController.Webhooks = &kaiqc.QueueControllerWebhooks{EnableValidation: g.optBool(), WebhookConfigurationNamePrefix: g.optStr("kai-queue-validation-", "qv-")}
		}
		if r.p(0.3) {
			sp.QueueController.ControllerService = &kaiqc.Service{Metrics: &kaiqc.PortMapping{Port: g.optInt(8080, 9090), TargetPort: g.optInt(8080), Name: g.optStr("metrics", "m")}}
		}
	}
	if r.p(0.85) {
		sp.PodGroupController = &kaipgc.PodGroupController{Service: g.service(pOff), MaxConcurrentReconciles: g.optInt(1, 4), Replicas: g.optInt32(1, 2)}
		if r.p(0.4) {
			sp.PodGroupController.Webhooks = &kaipgc.PodGroupControllerWebhooks{EnableValidation: g.optBool(), WebhookConfigurationNamePrefix: g.optStr("kai-podgroup-validation-", "pgv-")}
		}
	}
	if r.p(0.85) {
		sp.NodeScaleAdjuster = &kainsa.NodeScaleAdjuster{Service: g.service(pOff)}
		if r.p(0.4) {
			sp.NodeScaleAdjuster.Args = &kainsa.Args{NodeScaleNamespace: g.optStr("kai-scale-adjust", "scale"), NodeScaleServiceAccount: g.optStr("kai-scale-adjust", "scale-sa"),
				GPUMemoryToFractionRatio: ptr.To(0.1)}
			if r.p(0.5) {
				sp.NodeScaleAdjuster.Args.GPUMemoryToFractionRatio = nil
			}
		}
	}
	if r.p(0.45) {
		sp.Prometheus = &kaiprom.Prometheus{Enabled: ptr.To(r.p(0.75)), InstanceName: g.optStr("prometheus", "kai-prom"), RetentionPeriod: g.optStr("2w", "3d"),
			SampleInterval: g.optStr("1m", "30s"), EnablePersistentStorage: g.optBool(), StorageSize: g.optStr("10Gi", "50Gi"), StorageClassName: g.optStr("standard", "fast"),
			AccountingLabelKey: g.optStr("accounting"), AccountingLabelValue: g.optStr("kai")}
		if r.p(0.4) {
			sp.Prometheus.ServiceMonitor = &kaiprom.ServiceMonitor{Enabled: g.optBool(), Interval: g.optStr("30s", "15s"), ScrapeTimeout: g.optStr("10s")}
		}
	}
	return sp
}

// mutateSpec changes a few things of a spec copy (configuration change A -> B). Prometheus enablement is kept:
// disabling it starts a wall-clock dependent graceful deprecation, which is history dependent by design.
func (g *opGen) mutateSpec(a kaiv1.ConfigSpec) (kaiv1.ConfigSpec, []string) {
	b := *a.DeepCopy()
	if g.r.p(0.45) {
		// a change that only removes things: exactly one operand is switched off, everything else stays as it is
		off := func(name string, svc **kaicommon.Service) func() bool {
			return func() bool {
				if *svc == nil {
					*svc = &kaicommon.Service{}
				}
				if (*svc).Enabled != nil && !*(*svc).Enabled {
					return false
				}
				(*svc).Enabled = ptr.To(false)
				return true
			}
		}
		var cands []struct {
			name string
			f    func() bool
		}
		add := func(name string, f func() bool) {
			cands = append(cands, struct {
				name string
				f    func() bool
			}{name, f})
		}
		if b.Binder != nil {
			// (the binder operand rewrites a ServiceAccount on every pass, which gives every other Deploy an update
			// to do; switching the binder itself off is the change where nothing but deletions are left)
			for i := 0; i < 4; i++ {
				add("binder-off", off("binder", &b.Binder.Service))
			}
		}
		if b.Admission != nil {
			add("admission-off", off("admission", &b.Admission.Service))
		}
		if b.PodGrouper != nil {
			add("podGrouper-off", off("podGrouper", &b.PodGrouper.Service))
		}
		if b.QueueController != nil {
			add("queueController-off", off("queueController", &b.QueueController.Service))
		}
		if b.PodGroupController != nil {
			add("podGroupController-off", off("podGroupController", &b.PodGroupController.Service))
		}
		if b.NodeScaleAdjuster != nil {
			add("nodeScaleAdjuster-off", off("nodeScaleAdjuster", &b.NodeScaleAdjuster.Service))
		}
		if b.Scheduler != nil {
			add("scheduler-off", off("scheduler", &b.Scheduler.Service))
		}
		// everything off: the desired state of B is (nearly) empty, so the whole change consists of deletions
		allOff := func() bool {
			any := false
			for _, c := range cands {
				if c.name != "all-off" && c.f() {
					any = true
				}
			}
			return any
		}
		for i := 0; i < 3; i++ {
			add("all-off", allOff)
		}
		if len(cands) > 0 {
			c := cands[g.r.IntN(len(cands))]
			if c.f() {
				return b, []string{c.name}
			}
		}
	}
	n := g.spec()
	var what []string
	take := func(name string, f func()) {
		if g.r.p(0.35) {
			f()
			what = append(what, name)
		}
	}
	take("global", func() { b.Global = n.Global })
	take("podGrouper", func() { b.PodGrouper = n.PodGrouper })
	take("binder", func() { b.Binder = n.Binder })
	take("admission", func() { b.Admission = n.Admission })
	take("scheduler", func() { b.Scheduler = n.Scheduler })
	take("queueController", func() { b.QueueController = n.QueueController })
	take("podGroupController", func() { b.PodGroupController = n.PodGroupController })
	take("nodeScaleAdjuster", func() { b.NodeScaleAdjuster = n.NodeScaleAdjuster })
	if len(what) == 0 {
		b.Binder = n.Binder
		what = append(what, "binder")
	}
	return b, what
}

type opEnv struct {
	PrometheusCRDs bool `json:"prometheusCRDs"`
	QueueCRD       int  `json:"queueCRD"` // 0 none, 1 present, 2 present with a conversion webhook
	ClusterPolicy  int  `json:"clusterPolicy"`
	FakeGPUNode    bool `json:"fakeGPUNode"`
}

type opInput struct {
	Seed    int64             `json:"seed"`
	Index   int               `json:"index"`
	Env     opEnv             `json:"env"`
	SpecA   kaiv1.ConfigSpec  `json:"specA"`
	SpecB   *kaiv1.ConfigSpec `json:"specB,omitempty"`
	Changed []string          `json:"changed,omitempty"`
}

func envObjects(e opEnv) []client.Object {
	var out []client.Object
	crd := func(name string) *apiextensionsv1.CustomResourceDefinition {
		return &apiextensionsv1.CustomResourceDefinition{ObjectMeta: metav1.ObjectMeta{Name: name}}
	}
	if e.PrometheusCRDs {
		out = append(out, crd("prometheuses.monitoring.coreos.com"), crd("servicemonitors.monitoring.coreos.com"))
	}
	if e.QueueCRD > 0 {
		c := crd("queues.scheduling.run.ai")
		c.Spec.Group = "scheduling.run.ai"
		if e.QueueCRD == 2 {
			c.Spec.Conversion = &apiextensionsv1.CustomResourceConversion{Strategy: apiextensionsv1.WebhookConverter,
				Webhook: &apiextensionsv1.WebhookConversion{ConversionReviewVersions: []string{"v1"}}}
		}
		out = append(out, c)
	}
	if e.ClusterPolicy > 0 {
		cp := &nvidiav1.ClusterPolicy{ObjectMeta: metav1.ObjectMeta{Name: "cluster-policy", Labels: map[string]string{}}}
		cp.Spec.CDI.Enabled = ptr.To(true)
		if e.ClusterPolicy == 2 {
			cp.Spec.CDI.Default = ptr.To(true)
		}
		out = append(out, cp)
	}
	if e.FakeGPUNode {
		out = append(out, &v1.Node{ObjectMeta: metav1.ObjectMeta{Name: "fake-gpu-node", Labels: map[string]string{"run.ai/fake.gpu": "true"}}})
	}
	return out
}

// ---------------------------------------------------------------- store + dump

type opStore struct {
	raw client.Client
	cl  client.Client
	mon *calls
	cfg *kaiv1.Config
}

func newOpStore(ctx context.Context, e opEnv) (*opStore, error) {
	b := crfake.NewClientBuilder().WithScheme(opScheme()).WithObjectTracker(newTracker(opScheme())).WithStatusSubresource(&kaiv1.Config{})
	for _, c := range known_types.KAIConfigRegisteredCollectible {
		if c.InitWithFakeClientBuilder != nil {
			c.InitWithFakeClientBuilder(b)
		}
	}
	s := &opStore{raw: b.Build(), mon: newCalls(opScheme())}
	s.cl = interceptor.NewClient(s.raw.(client.WithWatch), s.mon.funcs())
	for _, o := range envObjects(e) {
		if err := s.raw.Create(ctx, o); err != nil {
			return nil, err
		}
	}
	s.cfg = &kaiv1.Config{TypeMeta: metav1.TypeMeta{Kind: "Config", APIVersion: kaiv1.GroupVersion.String()},
		ObjectMeta: metav1.ObjectMeta{Name: known_types.SingletonInstanceName, UID: "uid-kai-config"}}
	return s, s.raw.Create(ctx, s.cfg.DeepCopy())
}

// config returns what ConfigReconciler.Reconcile hands to Deploy: the stored object with the spec defaulted.
func (s *opStore) config(ctx context.Context, spec kaiv1.ConfigSpec) (*kaiv1.Config, error) {
	cur := &kaiv1.Config{}
	if err := s.raw.Get(ctx, client.ObjectKey{Name: known_types.SingletonInstanceName}, cur); err != nil {
		return nil, err
	}
	cur.Spec = *spec.DeepCopy()
	if err := s.raw.Update(ctx, cur); err != nil {
		return nil, err
	}
	got := &kaiv1.Config{}
	if err := s.raw.Get(ctx, client.ObjectKey{Name: known_types.SingletonInstanceName}, got); err != nil {
		return nil, err
	}
	got.TypeMeta = metav1.TypeMeta{Kind: "Config", APIVersion: kaiv1.GroupVersion.String()}
	got.Spec.SetDefaultsWhereNeeded()
	return got, nil
}

var dumpLists = []func() client.ObjectList{
	func() client.ObjectList { return &appsv1.DeploymentList{} },
	func() client.ObjectList { return &appsv1.DaemonSetList{} },
	func() client.ObjectList { return &v1.ServiceAccountList{} },
	func() client.ObjectList { return &v1.ConfigMapList{} },
	func() client.ObjectList { return &v1.ServiceList{} },
	func() client.ObjectList { return &v1.SecretList{} },
	func() client.ObjectList { return &v1.PodList{} },
	func() client.ObjectList { return &admissionv1.MutatingWebhookConfigurationList{} },
	func() client.ObjectList { return &admissionv1.ValidatingWebhookConfigurationList{} },
	func() client.ObjectList { return &apiextensionsv1.CustomResourceDefinitionList{} },
	func() client.ObjectList { return &monitoringv1.PrometheusList{} },
	func() client.ObjectList { return &monitoringv1.ServiceMonitorList{} },
}

// dump returns kind/ns/name -> exact JSON (exact) and -> normalised JSON (without resourceVersion, generated key material and CA bundles).
func (s *opStore) dump(ctx context.Context) (exact, norm map[string]string, err error) {
	exact, norm = map[string]string{}, map[string]string{}
	for _, mk := range dumpLists {
		l := mk()
		if err := s.raw.List(ctx, l); err != nil {
			return nil, nil, err
		}
		items, _ := meta.ExtractList(l)
		for _, it := range items {
			o := it.(client.Object)
			kind := s.mon.kindOf(o)
			key := kind + " " + o.GetNamespace() + "/" + o.GetName()
			b, _ := json.Marshal(o)
			exact[key] = canon(o)
			var m map[string]any
			_ = json.Unmarshal(b, &m)
			if kind == "Secret" {
				if d, ok := m["data"].(map[string]any); ok {
					ks := make([]string, 0, len(d))
					for k := range d {
						ks = append(ks, k)
					}
					sort.Strings(ks)
					m["data"] = ks // only which keys exist
				}
			}
			strip(m)
			nb, _ := json.Marshal(m)
			norm[key] = string(nb)
		}
	}
	return exact, norm, nil
}

func strip(v any) {
	switch x := v.(type) {
	case map[string]any:
		for _, k := range []string{"resourceVersion", "creationTimestamp", "managedFields", "caBundle", "kind", "apiVersion"} {
			if k == "kind" || k == "apiVersion" {
				if _, isMeta := x["metadata"]; !isMeta {
					continue // only the object's own TypeMeta
				}
			}
			delete(x, k)
		}
		for _, c := range x {
			strip(c)
		}
	case []any:
		for _, c := range x {
			strip(c)
		}
	}
}

func diffDumps(a, b map[string]string) []string {
	var out []string
	for k, va := range a {
		vb, ok := b[k]
		if !ok {
			out = append(out, "only-in-first "+k)
		} else if va != vb {
			tag := "differs "
			if loose(va) == loose(vb) {
				tag = "differs-in-order-only "
			}
			out = append(out, tag+k+": "+firstDiff(va, vb))
		}
	}
	for k := range b {
		if _, ok := a[k]; !ok {
			out = append(out, "only-in-second "+k)
		}
	}
	sort.Strings(out)
	return out
}

// loose is an order-insensitive normal form used only to NAME a difference (never to accept one): JSON arrays are
// sorted and comma separated k=v lists inside strings are sorted.
func loose(js string) string {
	var v any
	if json.Unmarshal([]byte(js), &v) != nil {
		return js
	}
	var norm func(x any) any
	norm = func(x any) any {
		switch t := x.(type) {
		case map[string]any:
			for k, c := range t {
				t[k] = norm(c)
			}
			return t
		case []any:
			enc := make([]string, len(t))
			for i, c := range t {
				b, _ := json.Marshal(norm(c))
				enc[i] = string(b)
			}
			sort.Strings(enc)
			return enc
		case string:
			if strings.Contains(t, ",") && strings.Contains(t, "=") {
				parts := strings.Split(t, ",")
				sort.Strings(parts)
				return strings.Join(parts, ",")
			}
			return t
		}
		return x
	}
	b, _ := json.Marshal(norm(v))
	return string(b)
}

// reportDiffs adds one violation per (kind, class of difference): prefix:Kind[:order-only|:only-in-first|:only-in-second].
func reportDiffs(vs *viols, oracle, prefix string, d []string, format string, a ...any) {
	for _, l := range d {
		f := strings.Fields(l)
		if len(f) < 2 {
			continue
		}
		sig := prefix + ":" + f[1]
		switch f[0] {
		case "differs-in-order-only":
			sig += ":order-only"
		case "only-in-first", "only-in-second":
			sig += ":" + f[0]
		}
		vs.add(oracle, sig, "%s; this object: %s; all differences: %v", fmt.Sprintf(format, a...), l, d)
	}
}

// diffClass returns ":order-only" when every difference is one of order.
func diffClass(d []string) string {
	if len(d) == 0 {
		return ""
	}
	for _, l := range d {
		if !strings.HasPrefix(l, "differs-in-order-only ") {
			return ""
		}
	}
	return ":order-only"
}

func firstDiff(a, b string) string {
	i := 0
	for i < len(a) && i < len(b) && a[i] == b[i] {
		i++
	}
	lo := max(0, i-60)
	return fmt.Sprintf("...%s | ...%s", a[lo:min(len(a), i+80)], b[lo:min(len(b), i+80)])
}

// withoutEnv drops the pre-existing environment objects the operator does not own (the CRDs): the queue-controller operand
// strips an old conversion webhook from the Queue CRD once, which is a one-way migration of the environment, not operand state.
func withoutEnv(m map[string]string) map[string]string {
	out := map[string]string{}
	for k, v := range m {
		if !strings.HasPrefix(k, "CustomResourceDefinition ") {
			out[k] = v
		}
	}
	return out
}

func kindsOfDiff(d []string) string {
	set := map[string]bool{}
	for _, l := range d {
		f := strings.Fields(l)
		if len(f) >= 2 {
			set[f[1]] = true
		}
	}
	return strings.Join(keys(set), ",")
}

func kindsOfCalls(c *calls) string {
	set := map[string]bool{}
	for k := range c.ByKind {
		if i := strings.Index(k, ":"); i >= 0 {
			set[k[i+1:]] = true
		}
	}
	return strings.Join(keys(set), ",")
}

func enabledOperands(c *kaiv1.Config) []string {
	var out []string
	on := func(s *kaicommon.Service) bool { return s != nil && s.Enabled != nil && *s.Enabled }
	sp := c.Spec
	if sp.PodGrouper != nil && on(sp.PodGrouper.Service) {
		out = append(out, "pod-grouper")
	}
	if sp.Binder != nil && on(sp.Binder.Service) {
		out = append(out, "binder")
	}
	if sp.QueueController != nil && on(sp.QueueController.Service) {
		out = append(out, "queue-controller")
	}
	if sp.PodGroupController != nil && on(sp.PodGroupController.Service) {
		out = append(out, "podgroup-controller")
	}
	if sp.NodeScaleAdjuster != nil && on(sp.NodeScaleAdjuster.Service) {
		out = append(out, "node-scale-adjuster")
	}
	if sp.Admission != nil && on(sp.Admission.Service) {
		out = append(out, "admission")
	}
	if sp.Scheduler != nil && on(sp.Scheduler.Service) {
		out = append(out, "scheduler")
	}
	if sp.Prometheus != nil && sp.Prometheus.Enabled != nil && *sp.Prometheus.Enabled {
		out = append(out, "prometheus")
	}
	return out
}

// ---------------------------------------------------------------- the case

func runOperatorCase(seed int64, index int, tier string, env *run.Env) run.CaseResult {
	quietLogs()
	ctx := context.Background()
	r := newRng(seed, index, 41)
	g := &opGen{r: r}
	cnt := counters{}
	vs := &viols{}
	res := run.CaseResult{Verdict: run.Held}

	in := opInput{Seed: seed, Index: index, SpecA: g.spec()}
	in.Env = opEnv{PrometheusCRDs: r.p(0.7), QueueCRD: pick(r, []int{0, 1, 1, 2}), ClusterPolicy: pick(r, []int{0, 0, 1, 2}), FakeGPUNode: r.p(0.2)}
	if r.p(0.4) {
		b, what := g.mutateSpec(in.SpecA)
		if in.SpecA.Prometheus != nil {
			b.Prometheus = in.SpecA.Prometheus.DeepCopy()
		} else {
			b.Prometheus = nil
		}
		in.SpecB, in.Changed = &b, what
	}
	res.Hash = hashOf(in)

	inconclusive := func(msg string, err error) run.CaseResult {
		res.Verdict, res.Note = run.Inconclusive, "harness: "+msg+": "+err.Error()
		res.Counters = cnt
		return res
	}
	deploy := func(s *opStore, d *deployable.DeployableOperands, spec kaiv1.ConfigSpec) (*kaiv1.Config, error, error) {
		cfg, herr := s.config(ctx, spec)
		if herr != nil {
			return nil, herr, nil
		}
		s.mon.reset()
		err := d.Deploy(ctx, s.cl, cfg, cfg)
		cnt.inc("deploys")
		cnt.add("mutating_calls", s.mon.Mutating)
		cnt.add("noop_write_requests", s.mon.Noop)
		cnt.add("operator_noop_write_requests", s.mon.Noop)
		cnt.add("operator_mutating_calls", s.mon.Mutating)
		return cfg, nil, err
	}
	// fixpoint clauses on one store for one spec; returns the normalised dump
	settle := func(s *opStore, d *deployable.DeployableOperands, spec kaiv1.ConfigSpec, tag string) (map[string]string, bool) {
		cfg, herr, err := deploy(s, d, spec)
		if herr != nil {
			res = inconclusive("config", herr)
			return nil, false
		}
		if err != nil {
			vs.add("operator-deploy", "operator-deploy-error:"+firstWords(err.Error(), 6), "%s: Deploy failed: %v", tag, err)
			return nil, false
		}
		cnt.add("objects_created_or_changed_by_first_deploy", s.mon.Mutating)
		ops := enabledOperands(cfg)
		if len(ops) >= 2 {
			res.NonTrivial = true
		}
		cnt.add("operands_enabled", len(ops))
		exact, norm, derr := s.dump(ctx)
		if derr != nil {
			res = inconclusive("dump", derr)
			return nil, false
		}
		cnt.add("objects_in_store", len(exact))
		// same operator process: repeated Deploy of the same config
		for i := 0; i < 3; i++ {
			_, herr, err := deploy(s, d, spec)
			cnt.inc("repeat_deploys")
			if herr != nil {
				res = inconclusive("config", herr)
				return nil, false
			}
			if err != nil {
				vs.add("operator-deploy", "operator-deploy-error:"+firstWords(err.Error(), 6), "%s: repeated Deploy failed: %v", tag, err)
				return nil, false
			}
			exact2, _, _ := s.dump(ctx)
			if s.mon.Mutating > 0 {
				dd := diffDumps(exact, exact2)
				if len(dd) == 0 {
					vs.add("operator-fixpoint", "operator-second-deploy-writes:"+kindsOfCalls(s.mon)+":no-net-change", "%s: Deploy #%d with the unchanged config issued %d mutating calls: %v", tag, i+2, s.mon.Mutating, s.mon.Log)
				}
				reportDiffs(vs, "operator-fixpoint", "operator-second-deploy-writes", dd, "%s: Deploy #%d with the unchanged config issued %d mutating calls: %v", tag, i+2, s.mon.Mutating, s.mon.Log)
			} else if d := diffDumps(exact, exact2); len(d) > 0 {
				vs.add("operator-fixpoint", "operator-second-deploy-changes:"+kindsOfDiff(d), "%s: Deploy #%d changed objects without a counted call: %v", tag, i+2, d)
			}
			exact = exact2
		}
		// operator restart: fresh operand instances, same store, same config
		_, herr, err = deploy(s, newDeployable(), spec)
		cnt.inc("restart_deploys")
		if herr != nil {
			res = inconclusive("config", herr)
			return nil, false
		}
		if err != nil {
			vs.add("operator-deploy", "operator-deploy-error:"+firstWords(err.Error(), 6), "%s: Deploy after restart failed: %v", tag, err)
			return nil, false
		}
		exact3, norm3, _ := s.dump(ctx)
		if s.mon.Mutating > 0 {
			dd := diffDumps(exact, exact3)
			if len(dd) == 0 {
				vs.add("operator-fixpoint", "operator-restart-deploy-writes:"+kindsOfCalls(s.mon)+":no-net-change", "%s: Deploy after restart issued %d mutating calls: %v", tag, s.mon.Mutating, s.mon.Log)
			}
			reportDiffs(vs, "operator-fixpoint", "operator-restart-deploy-writes", dd, "%s: Deploy by fresh operand instances (operator restart) with the unchanged config issued %d mutating calls: %v", tag, s.mon.Mutating, s.mon.Log)
		}
		_ = norm
		return norm3, true
	}

	s1, err := newOpStore(ctx, in.Env)
	if err != nil {
		return inconclusive("store", err)
	}
	s2, err := newOpStore(ctx, in.Env)
	if err != nil {
		return inconclusive("store", err)
	}
	d1 := newDeployable()
	normA1, ok := settle(s1, d1, in.SpecA, "store 1, config A")
	if res.Verdict == run.Inconclusive {
		return res
	}
	if ok {
		normA2, ok2 := settle(s2, newDeployable(), in.SpecA, "store 2, config A")
		if res.Verdict == run.Inconclusive {
			return res
		}
		if ok2 {
			cnt.inc("cross_store_comparisons")
			reportDiffs(vs, "operator-determinism", "operator-two-stores-differ", diffDumps(normA1, normA2), "two fresh stores given the same config ended with different objects")
		}
		if in.SpecB != nil {
			// configuration change A -> B on store 1 (same operator process) versus a fresh store that only ever saw B
			normB1, okB := settle(s1, d1, *in.SpecB, "store 1, config A then B")
			if res.Verdict == run.Inconclusive {
				return res
			}
			s3, err := newOpStore(ctx, in.Env)
			if err != nil {
				return inconclusive("store", err)
			}
			normB3, okB3 := settle(s3, newDeployable(), *in.SpecB, "store 3, config B")
			if res.Verdict == run.Inconclusive {
				return res
			}
			cnt.inc("config_changes")
			if okB && okB3 {
				cnt.inc("history_comparisons")
				reportDiffs(vs, "operator-determinism", "operator-history-dependence", diffDumps(withoutEnv(normB1), withoutEnv(normB3)),
					"config A then B (changed: %v) ended differently from a fresh deploy of B", in.Changed)
			}
		}
	}

	cnt.inc("cases_part3_operator")
	cfgA := &kaiv1.Config{Spec: *in.SpecA.DeepCopy()}
	cfgA.Spec.SetDefaultsWhereNeeded()
	res.Sample = map[string]any{"part": "operator", "seed": seed, "index": index, "env": in.Env, "operandsEnabled": enabledOperands(cfgA), "configChange": in.Changed}
	finish(&res, vs, cnt, env, seed, index, in)
	return res
}
