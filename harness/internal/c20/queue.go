package c20

import (
	"context"
	"fmt"
	"sort"
	"strconv"
	"strings"
	"sync"

	v1 "k8s.io/api/core/v1"
	"k8s.io/apimachinery/pkg/api/resource"
	metav1 "k8s.io/apimachinery/pkg/apis/meta/v1"
	"k8s.io/apimachinery/pkg/types"
	ctrl "sigs.k8s.io/controller-runtime"
	"sigs.k8s.io/controller-runtime/pkg/client"
	crfake "sigs.k8s.io/controller-runtime/pkg/client/fake"
	"sigs.k8s.io/controller-runtime/pkg/client/interceptor"

	v2 "github.com/NVIDIA/KAI-scheduler/pkg/apis/scheduling/v2"
	"github.com/NVIDIA/KAI-scheduler/pkg/apis/scheduling/v2alpha2"
	qcommon "github.com/NVIDIA/KAI-scheduler/pkg/queuecontroller/common"
	qc "github.com/NVIDIA/KAI-scheduler/pkg/queuecontroller/controllers"
	qmetrics "github.com/NVIDIA/KAI-scheduler/pkg/queuecontroller/metrics"

	"verif/harness/internal/run"
	"verif/harness/internal/store"
)

var metricsOnce sync.Once

type qGen struct {
	r      rng
	nextPG int
	nextQ  int
}

func (g *qGen) resList(scale int) v1.ResourceList {
	l := v1.ResourceList{}
	if g.r.p(0.9) {
		l[v1.ResourceCPU] = resource.MustParse(pick(g.r, cpuVals))
	}
	if g.r.p(0.85) {
		l[v1.ResourceMemory] = resource.MustParse(pick(g.r, memVals))
	}
	if g.r.p(0.6) {
		l[resGPU] = resource.MustParse(pick(g.r, []string{"1", "2", "500m", "0.25", "1500m", "4", "0.1"}))
	}
	if g.r.p(0.15) {
		l[resGPUMem] = resource.MustParse(pick(g.r, gmemVals))
	}
	if g.r.p(0.1) {
		l["gpu.nvidia.com"] = resource.MustParse(strconv.Itoa(g.r.in(1, 3)))
	}
	return l
}

// pgStatus draws a PodGroup resources status (allocated is a sub-list of requested, the non-preemptible part is all or nothing).
func (g *qGen) pgStatus() v2alpha2.PodGroupResourcesStatus {
	st := v2alpha2.PodGroupResourcesStatus{}
	if g.r.p(0.1) {
		return st // nothing reported yet
	}
	st.Requested = g.resList(1)
	if g.r.p(0.75) {
		st.Allocated = v1.ResourceList{}
		for k, q := range st.Requested {
			if g.r.p(0.8) {
				st.Allocated[k] = q.DeepCopy()
			}
		}
		if g.r.p(0.45) {
			st.AllocatedNonPreemptible = st.Allocated.DeepCopy()
		}
	}
	return st
}

func (g *qGen) newPG(queue string) *v2alpha2.PodGroup {
	g.nextPG++
	return &v2alpha2.PodGroup{ObjectMeta: metav1.ObjectMeta{Name: fmt.Sprintf("pg%d", g.nextPG), Namespace: pick(g.r, []string{"ns-a", "ns-b"}), UID: types.UID(fmt.Sprintf("uid-pg%d", g.nextPG))},
		Spec:   v2alpha2.PodGroupSpec{MinMember: 1, Queue: queue},
		Status: v2alpha2.PodGroupStatus{ResourcesStatus: g.pgStatus()}}
}

func (g *qGen) newQueue(name, parent string) *v2.Queue {
	q := &v2.Queue{ObjectMeta: metav1.ObjectMeta{Name: name, UID: types.UID("uid-" + name)}, Spec: v2.QueueSpec{ParentQueue: parent}}
	if g.r.p(0.6) {
		q.Spec.Resources = &v2.QueueResources{GPU: v2.QueueResource{Quota: float64(g.r.in(0, 8)), OverQuotaWeight: 1, Limit: -1},
			CPU: v2.QueueResource{Quota: -1, OverQuotaWeight: 1, Limit: -1}, Memory: v2.QueueResource{Quota: float64(g.r.in(1000, 9000)), Limit: -1}}
	}
	if g.r.p(0.35) { // stale status from an earlier life
		q.Status.Requested = g.resList(1)
		q.Status.Allocated = g.resList(1)
		if g.r.p(0.5) {
			q.Status.AllocatedNonPreemptible = g.resList(1)
		}
		q.Status.ChildQueues = []string{"gone-queue", name}
	}
	return q
}

type qInput struct {
	Seed      int64                `json:"seed"`
	Index     int                  `json:"index"`
	Shuffle   bool                 `json:"shuffledLists"`
	Queues    []*v2.Queue          `json:"queues"`
	PodGroups []*v2alpha2.PodGroup `json:"podGroups"`
	History   []string             `json:"history"`
}

// ---------------------------------------------------------------- oracle (own code)

type qWorld struct {
	queues map[string]*v2.Queue
	pgs    []v2alpha2.PodGroup
}

func readQWorld(ctx context.Context, c client.Client) (*qWorld, error) {
	w := &qWorld{queues: map[string]*v2.Queue{}}
	var ql v2.QueueList
	if err := c.List(ctx, &ql); err != nil {
		return nil, err
	}
	for i := range ql.Items {
		w.queues[ql.Items[i].Name] = &ql.Items[i]
	}
	var pl v2alpha2.PodGroupList
	if err := c.List(ctx, &pl); err != nil {
		return nil, err
	}
	w.pgs = pl.Items
	return w, nil
}

func (w *qWorld) names() []string {
	var out []string
	for n := range w.queues {
		out = append(out, n)
	}
	sort.Strings(out)
	return out
}

func (w *qWorld) children() map[string][]string {
	ch := map[string][]string{}
	for _, n := range w.names() {
		if p := w.queues[n].Spec.ParentQueue; p != "" {
			ch[p] = append(ch[p], n)
		}
	}
	return ch
}

// height of the forest in levels (a single queue is 1)
func (w *qWorld) levels() int {
	ch := w.children()
	var h func(n string, d int) int
	h = func(n string, d int) int {
		if d > 50 {
			return d
		}
		best := 1
		for _, c := range ch[n] {
			if x := 1 + h(c, d+1); x > best {
				best = x
			}
		}
		return best
	}
	best := 0
	for n := range w.queues {
		if x := h(n, 0); x > best {
			best = x
		}
	}
	return best
}

type qTotals struct{ req, alloc, np rl }

func (w *qWorld) expected() map[string]qTotals {
	own := map[string]qTotals{}
	for n := range w.queues {
		own[n] = qTotals{rl{}, rl{}, rl{}}
	}
	for i := range w.pgs {
		pg := &w.pgs[i]
		t, ok := own[pg.Spec.Queue]
		if !ok || pg.Spec.Queue == "" {
			continue
		}
		t.req.addAll(rlOf(pg.Status.ResourcesStatus.Requested))
		t.alloc.addAll(rlOf(pg.Status.ResourcesStatus.Allocated))
		t.np.addAll(rlOf(pg.Status.ResourcesStatus.AllocatedNonPreemptible))
	}
	ch := w.children()
	memo := map[string]qTotals{}
	var total func(n string) qTotals
	total = func(n string) qTotals {
		if t, ok := memo[n]; ok {
			return t
		}
		t := qTotals{rl{}, rl{}, rl{}}
		t.req.addAll(own[n].req)
		t.alloc.addAll(own[n].alloc)
		t.np.addAll(own[n].np)
		for _, c := range ch[n] {
			ct := total(c)
			t.req.addAll(ct.req)
			t.alloc.addAll(ct.alloc)
			t.np.addAll(ct.np)
		}
		memo[n] = t
		return t
	}
	out := map[string]qTotals{}
	for n := range w.queues {
		out[n] = total(n)
	}
	return out
}

// qView is what a queue's status says, at three strengths of equality.
type qView struct {
	sums     string // exact values of the three resource lists
	childSet string // sorted child names
	childSeq string // child names in stored order
	bytes    string // the whole object without resourceVersion
}

func viewOf(q *v2.Queue) qView {
	ch := append([]string(nil), q.Status.ChildQueues...)
	seq := strings.Join(ch, ",")
	sort.Strings(ch)
	return qView{sums: rlOf(q.Status.Requested).String() + rlOf(q.Status.Allocated).String() + rlOf(q.Status.AllocatedNonPreemptible).String(),
		childSet: strings.Join(ch, ","), childSeq: seq, bytes: canon(q)}
}

// classify names the strongest kind of change between two snapshots: "" none, or a sig suffix.
func classify(a, b map[string]qView) (string, []string) {
	rank, suffix := 0, ""
	var changed []string
	for n, x := range a {
		y, ok := b[n]
		if !ok {
			continue
		}
		switch {
		case x.sums != y.sums || x.childSet != y.childSet:
			if rank < 3 {
				rank, suffix = 3, "values"
			}
			changed = append(changed, fmt.Sprintf("%s: %s children[%s] -> %s children[%s]", n, x.sums, x.childSeq, y.sums, y.childSeq))
		case x.childSeq != y.childSeq:
			if rank < 2 {
				rank, suffix = 2, "childQueues-order"
			}
			changed = append(changed, fmt.Sprintf("%s: childQueues [%s] -> [%s]", n, x.childSeq, y.childSeq))
		case x.bytes != y.bytes:
			if rank < 1 {
				rank, suffix = 1, "quantity-format-only"
			}
			changed = append(changed, fmt.Sprintf("%s: %s -> %s", n, x.bytes, y.bytes))
		}
	}
	sort.Strings(changed)
	return suffix, changed
}

// ---------------------------------------------------------------- the case

func runQueueCase(seed int64, index int, tier string, env *run.Env) run.CaseResult {
	quietLogs()
	metricsOnce.Do(func() { qmetrics.InitMetrics("kai", nil, nil) }) // what cmd/queuecontroller does before starting the manager
	ctx := context.Background()
	r := newRng(seed, index, 31)
	g := &qGen{r: r}
	cnt := counters{}
	vs := &viols{}
	res := run.CaseResult{Verdict: run.Held}

	// ---- forest
	levels := pick(r, []int{1, 2, 2, 3, 3, 3})
	var queues []*v2.Queue
	level := map[string]int{}
	add := func(name, parent string, lvl int) {
		queues = append(queues, g.newQueue(name, parent))
		level[name] = lvl
	}
	nRoots := r.in(1, 2)
	for i := 0; i < nRoots; i++ {
		root := fmt.Sprintf("r%d", i)
		add(root, "", 1)
		if levels < 2 {
			continue
		}
		nc := r.in(0, 3)
		if i == 0 && nc == 0 {
			nc = r.in(1, 3)
		}
		for j := 0; j < nc; j++ {
			child := fmt.Sprintf("%s-%c", root, 'a'+j)
			add(child, root, 2)
			if levels < 3 {
				continue
			}
			ng := r.in(0, 2)
			if i == 0 && j == 0 && ng == 0 {
				ng = r.in(1, 2)
			}
			for k := 0; k < ng; k++ {
				add(fmt.Sprintf("%s-%d", child, k), child, 3)
			}
		}
	}
	if r.p(0.15) {
		add("orphan", "ghost-parent", 1)
	}
	var pgs []*v2alpha2.PodGroup
	for _, q := range queues {
		n := r.in(0, 2)
		if level[q.Name] == levels { // leaves carry most workloads
			n = r.in(0, 3)
		}
		for i := 0; i < n; i++ {
			pgs = append(pgs, g.newPG(q.Name))
		}
	}
	if r.p(0.25) {
		pgs = append(pgs, g.newPG("ghost-queue"))
	}
	if r.p(0.15) {
		pgs = append(pgs, g.newPG(""))
	}
	in := qInput{Seed: seed, Index: index, Shuffle: r.p(0.5)}
	for _, q := range queues {
		in.Queues = append(in.Queues, q.DeepCopy())
	}
	for _, p := range pgs {
		in.PodGroups = append(in.PodGroups, p.DeepCopy())
	}
	res.Hash = hashOf(struct {
		Q []*v2.Queue
		P []*v2alpha2.PodGroup
		S bool
	}{in.Queues, in.PodGroups, in.Shuffle})

	// ---- store + real reconciler (indexes exactly as SetupWithManager registers them)
	scheme := store.Scheme()
	raw := crfake.NewClientBuilder().WithScheme(scheme).WithObjectTracker(newTracker(scheme)).WithStatusSubresource(&v2.Queue{}, &v2alpha2.PodGroup{}).
		WithIndex(&v2.Queue{}, qcommon.ParentQueueIndexName, qc.VerifIndexQueueByParent).
		WithIndex(&v2alpha2.PodGroup{}, qcommon.PodGroupQueueIndexName, qc.VerifIndexPodGroupByQueue).Build()
	createQ := func(q *v2.Queue) error {
		st := q.Status.DeepCopy()
		if err := raw.Create(ctx, q); err != nil {
			return err
		}
		q.Status = *st
		return raw.Status().Update(ctx, q)
	}
	createPG := func(p *v2alpha2.PodGroup) error {
		st := p.Status.DeepCopy()
		if err := raw.Create(ctx, p); err != nil {
			return err
		}
		p.Status = *st
		return raw.Status().Update(ctx, p)
	}
	for _, q := range queues {
		if err := createQ(q); err != nil {
			res.Verdict, res.Note = run.Inconclusive, "harness: create queue: "+err.Error()
			return res
		}
	}
	for _, p := range pgs {
		if err := createPG(p); err != nil {
			res.Verdict, res.Note = run.Inconclusive, "harness: create podgroup: "+err.Error()
			return res
		}
	}
	mon := newCalls(scheme)
	if in.Shuffle {
		mon.shuffle = newRng(seed, index, 32).Rand
		cnt.inc("cases_with_shuffled_lists")
	}
	rec := qc.NewQueueReconcilerForVerif(interceptor.NewClient(raw, mon.funcs()), scheme)

	// one pass = every queue reconciled once (sometimes twice, sometimes a deleted name too) in a PRNG order
	rank := map[string]int{"": 0, "quantity-format-only": 1, "childQueues-order": 2, "values": 3}
	pass := func(w *qWorld) (writes int, log []string, class string, changed []string, err error) {
		order := w.names()
		if r.p(0.3) && len(order) > 0 {
			order = append(order, order[r.IntN(len(order))])
		}
		if r.p(0.2) {
			order = append(order, "never-existed")
		}
		r.Shuffle(len(order), func(i, j int) { order[i], order[j] = order[j], order[i] })
		for _, n := range order {
			before := &v2.Queue{}
			hadBefore := raw.Get(ctx, types.NamespacedName{Name: n}, before) == nil
			mon.reset()
			_, e := rec.Reconcile(ctx, ctrl.Request{NamespacedName: types.NamespacedName{Name: n}})
			cnt.inc("reconciles")
			cnt.add("mutating_calls", mon.Mutating)
			cnt.add("noop_write_requests", mon.Noop)
			cnt.add("queue_noop_write_requests", mon.Noop)
			cnt.add("queue_mutating_calls", mon.Mutating)
			writes += mon.Mutating
			log = append(log, mon.Log...)
			if e != nil {
				return writes, log, class, changed, fmt.Errorf("queue %s: %w", n, e)
			}
			if mon.Mutating > 0 && hadBefore {
				after := &v2.Queue{}
				if raw.Get(ctx, types.NamespacedName{Name: n}, after) == nil {
					c, ch := classify(map[string]qView{n: viewOf(before)}, map[string]qView{n: viewOf(after)})
					if rank[c] > rank[class] {
						class = c
					}
					changed = append(changed, ch...)
				}
			}
		}
		cnt.inc("passes")
		return writes, log, class, changed, nil
	}
	snapshot := func(w *qWorld) map[string]qView {
		out := map[string]qView{}
		for n, q := range w.queues {
			out[n] = viewOf(q)
		}
		return out
	}

	maxQueues, maxLevels := 0, 0
	converge := func(round int, what string) bool {
		at := fmt.Sprintf("round %d (%s)", round, what)
		w, err := readQWorld(ctx, raw)
		if err != nil {
			res.Verdict, res.Note = run.Inconclusive, "harness: "+err.Error()
			return false
		}
		lv := w.levels()
		if len(w.queues) > maxQueues {
			maxQueues = len(w.queues)
		}
		if lv > maxLevels {
			maxLevels = lv
		}
		bound := lv + 2
		converged := false
		lastClass := ""
		var lastLog, lastChanged []string
		for p := 1; p <= bound; p++ {
			writes, log, class, changed, perr := pass(w)
			if perr != nil {
				vs.add("queue-reconcile", "queue-reconcile-error:"+firstWords(perr.Error(), 6), "%s: %v", at, perr)
				return true
			}
			w, _ = readQWorld(ctx, raw)
			lastClass, lastChanged = class, changed
			lastLog = log
			if writes == 0 {
				converged = true
				cnt.add("passes_to_quiescence", p)
				break
			}
		}
		if !converged {
			sig := "queue-no-convergence"
			if lastClass != "values" {
				sig += ":" + lastClass
			}
			vs.add("queue-fixpoint", sig, "%s: %d queues on %d levels still written in pass %d (bound levels+2): %v (shuffled lists=%v); changes of that pass: %s",
				at, len(w.queues), lv, bound, lastLog, in.Shuffle, strings.Join(lastChanged, " | "))
		}
		// sum identity at every level + child sets
		exp := w.expected()
		ch := w.children()
		for _, n := range w.names() {
			q := w.queues[n]
			cnt.inc("queues_judged")
			cnt.inc(fmt.Sprintf("queues_judged_with_%d_children", min(len(ch[n]), 3)))
			e := exp[n]
			detail := func() string {
				return fmt.Sprintf("queue %s (parent %q, children %v) status=%s", n, q.Spec.ParentQueue, ch[n], mustJSON(q.Status))
			}
			if d := e.req.diff(rlOf(q.Status.Requested)); len(d) > 0 {
				vs.add("queue-sum", "queue-sum:requested", "%s: %s; %s", at, strings.Join(d, "; "), detail())
			}
			if d := e.alloc.diff(rlOf(q.Status.Allocated)); len(d) > 0 {
				vs.add("queue-sum", "queue-sum:allocated", "%s: %s; %s", at, strings.Join(d, "; "), detail())
			}
			if d := e.np.diff(rlOf(q.Status.AllocatedNonPreemptible)); len(d) > 0 {
				vs.add("queue-sum", "queue-sum:allocatedNonPreemptible", "%s: %s; %s", at, strings.Join(d, "; "), detail())
			}
			got := append([]string(nil), q.Status.ChildQueues...)
			sort.Strings(got)
			want := append([]string(nil), ch[n]...)
			sort.Strings(want)
			if strings.Join(got, ",") != strings.Join(want, ",") {
				vs.add("queue-children", "queue-childQueues", "%s: queue %s status.childQueues=%v, queues naming it as parent=%v", at, n, q.Status.ChildQueues, want)
			}
		}
		// one more pass: nothing may be written, every queue byte-identical
		before := snapshot(w)
		writes, log, passClass, passChanged, perr := pass(w)
		cnt.inc("fixpoint_passes")
		if perr != nil {
			vs.add("queue-reconcile", "queue-reconcile-error:"+firstWords(perr.Error(), 6), "%s: %v", at, perr)
			return true
		}
		w2, _ := readQWorld(ctx, raw)
		class, changed := classify(before, snapshot(w2))
		if rank[passClass] > rank[class] {
			class = passClass
		}
		changed = append(changed, passChanged...)
		if converged && (writes > 0 || class != "") {
			sig := "queue-fixpoint-write"
			if class != "values" && class != "" {
				sig += ":" + class
			}
			vs.add("queue-fixpoint", sig, "%s: after a pass that wrote nothing, one more pass wrote %v (shuffled lists=%v); changed: %s", at, log, in.Shuffle, strings.Join(changed, " | "))
		}
		return true
	}

	if !converge(0, "initial") {
		return res
	}

	// ---- mutation rounds
	rounds := r.in(0, 3)
	for round := 1; round <= rounds; round++ {
		w, _ := readQWorld(ctx, raw)
		names := w.names()
		ch := w.children()
		what := ""
		var herr error
		switch x := r.Float64(); {
		case x < 0.25 && len(w.pgs) > 0:
			pg := w.pgs[r.IntN(len(w.pgs))].DeepCopy()
			pg.Status.ResourcesStatus = g.pgStatus()
			herr = raw.Status().Update(ctx, pg)
			what = fmt.Sprintf("podgroup %s/%s status -> %s", pg.Namespace, pg.Name, mustJSON(pg.Status.ResourcesStatus))
		case x < 0.40 && len(w.pgs) > 0 && len(names) > 0:
			pg := w.pgs[r.IntN(len(w.pgs))].DeepCopy()
			to := names[r.IntN(len(names))]
			what = fmt.Sprintf("podgroup %s/%s moves from queue %q to %q", pg.Namespace, pg.Name, pg.Spec.Queue, to)
			pg.Spec.Queue = to
			herr = raw.Update(ctx, pg)
		case x < 0.50 && len(w.pgs) > 0:
			pg := w.pgs[r.IntN(len(w.pgs))]
			herr = raw.Delete(ctx, &pg)
			what = fmt.Sprintf("podgroup %s/%s (queue %q) deleted", pg.Namespace, pg.Name, pg.Spec.Queue)
		case x < 0.62 && len(names) > 0:
			pg := g.newPG(names[r.IntN(len(names))])
			herr = createPG(pg)
			what = fmt.Sprintf("podgroup %s/%s added to queue %q with %s", pg.Namespace, pg.Name, pg.Spec.Queue, mustJSON(pg.Status.ResourcesStatus))
		case x < 0.74 && len(names) > 0:
			g.nextQ++
			parent := names[r.IntN(len(names))]
			q := g.newQueue(fmt.Sprintf("new%d", g.nextQ), parent)
			herr = createQ(q)
			if herr == nil && r.p(0.7) {
				pg := g.newPG(q.Name)
				herr = createPG(pg)
			}
			what = fmt.Sprintf("queue %s added under %q", q.Name, parent)
		case x < 0.84 && len(names) > 1:
			var leaves []string
			for _, n := range names {
				if len(ch[n]) == 0 {
					leaves = append(leaves, n)
				}
			}
			n := leaves[r.IntN(len(leaves))]
			herr = raw.Delete(ctx, w.queues[n])
			what = fmt.Sprintf("leaf queue %s (parent %q) deleted", n, w.queues[n].Spec.ParentQueue)
		case len(names) > 1: // re-parent without creating a cycle
			n := names[r.IntN(len(names))]
			desc := map[string]bool{n: true}
			var mark func(x string)
			mark = func(x string) {
				for _, c := range ch[x] {
					desc[c] = true
					mark(c)
				}
			}
			mark(n)
			cands := []string{""}
			for _, m := range names {
				if !desc[m] {
					cands = append(cands, m)
				}
			}
			to := cands[r.IntN(len(cands))]
			q := w.queues[n].DeepCopy()
			what = fmt.Sprintf("queue %s re-parented from %q to %q", n, q.Spec.ParentQueue, to)
			q.Spec.ParentQueue = to
			herr = raw.Update(ctx, q)
		default:
			what = "no change"
		}
		if herr != nil {
			res.Verdict, res.Note = run.Inconclusive, "harness: round '"+what+"': "+herr.Error()
			return res
		}
		in.History = append(in.History, fmt.Sprintf("%d: %s", round, what))
		cnt.inc("mutation_rounds")
		if !converge(round, what) {
			return res
		}
	}

	res.NonTrivial = maxQueues >= 3 && maxLevels >= 2
	cnt.inc("cases_part2_queue")
	cnt.inc(fmt.Sprintf("queue_cases_with_%d_levels", maxLevels))
	res.Sample = map[string]any{"part": "queue", "seed": seed, "index": index, "queues": maxQueues, "levels": maxLevels, "podGroups": len(pgs), "history": in.History, "shuffledLists": in.Shuffle}
	finish(&res, vs, cnt, env, seed, index, in)
	return res
}
