// Package c20 checks property C20: the status controllers (PodGroup, Queue) and the operator's
// deployment of the operands converge to the true aggregate and are fixpoints.
//
// Everything that is judged is produced by the REAL reconcilers running on a controller-runtime
// fake client: pkg/podgroupcontroller/controllers.PodGroupReconciler (part 1),
// pkg/queuecontroller/controllers.QueueReconciler (part 2, built with the verif constructor) and
// pkg/operator/operands/deployable.DeployableOperands over the real operands (part 3). The oracles
// recompute the expected values from the API objects with their own exact (big.Rat) arithmetic.
package c20

import (
	"context"
	"crypto/sha256"
	"encoding/hex"
	"encoding/json"
	"fmt"
	"math/big"
	"math/rand/v2"
	"sort"
	"strings"
	"time"

	v1 "k8s.io/api/core/v1"
	"k8s.io/apimachinery/pkg/api/meta"
	"k8s.io/apimachinery/pkg/api/resource"
	metav1 "k8s.io/apimachinery/pkg/apis/meta/v1"
	"k8s.io/apimachinery/pkg/runtime"
	"k8s.io/apimachinery/pkg/runtime/schema"
	"k8s.io/apimachinery/pkg/runtime/serializer"
	k8stesting "k8s.io/client-go/testing"
	"sigs.k8s.io/controller-runtime/pkg/client"
	"sigs.k8s.io/controller-runtime/pkg/client/interceptor"

	"verif/harness/internal/gen"
	"verif/harness/internal/run"
)

const propID = "C20"

// Check is the C20 check.
type Check struct{}

// New returns the C20 check.
func New() run.Check { return &Check{} }

func (c *Check) ID() string    { return propID }
func (c *Check) Level() string { return "exploration" }
func (c *Check) NumCases(tier string) int {
	if tier == "thorough" {
		return 5000
	}
	return 900
}
func (c *Check) Rule() string {
	return "case index modulo 3 selects the part; every choice from gen.NewRand(seed,index,stream). " +
		"Part 1 (index%3==0): a PodGroup with 1-8 generated pods (Pending without condition / unschedulable / with nodeName only / scheduled, Running, Succeeded, Failed; " +
		"cpu, memory (mixed quantity formats), whole GPUs, gpu-fraction and gpu-memory annotations (optionally x num-devices) on nodes with and without nvidia.com/gpu.memory, DRA claims), " +
		"decoy pods (other PodGroup, other namespace); 3-8 history steps (phase change, schedule, pod add/delete, explicit preemptibility flip, priority-class change across 100, " +
		"priority-class object recreate, global default toggle), a real PodGroupReconciler.Reconcile after each, oracle + second reconcile after each. " +
		"Part 2 (index%3==1): queue forest of depth 1-3 with PodGroup statuses (also on inner queues, orphans, stale initial statuses), real QueueReconciler in random orders until a pass writes nothing " +
		"(bound depth+2), oracle at every level, one more pass, then 0-3 mutation rounds (PodGroup status change/move/add/delete, queue add/delete/re-parent without cycles) each reconverged and re-judged. " +
		"Part 3 (index%3==2): generated kaiv1.Config specs (operands on/off, replicas, resources, images, ports, selectors, GPU sharing, prometheus with CRDs present), real operands through deployable.New(...).Deploy " +
		"on two fresh stores, second Deploy, Deploy by fresh operand instances (operator restart), config change A->B compared with a fresh deploy of B. " +
		"In half of the cases List results are returned in a PRNG-shuffled order (the informer cache's List order is unspecified). " +
		"Non-trivial: part 1 >=3 pods of the group in >=2 phases and >=1 history step; part 2 >=3 queues on >=2 levels; part 3 a config that enables >=2 operands. " +
		"Distinct = distinct hash of the generated input."
}
func (c *Check) Assumptions() []string {
	return []string{
		"the store is controller-runtime's fake client (status subresources and the field indexes that the real SetupWithManager registers) behind a layer that makes it behave like the manager's client: objects read carry their GroupVersionKind, List order is unspecified, and an update/patch request that leaves the stored object unchanged is a no-op request (counted as noop_write_requests, not as a mutating call); the fake bumps resourceVersion on every request, so 'identical' means identical except metadata.resourceVersion",
		"a pod's request is the sum over spec.containers (generated pods have no init containers or overhead); 'scheduled Pending' means condition PodScheduled=True",
		"allocated fractional pods carry received-resource-type=Fraction as the binder writes it; a reconcile that returns an error (gpu-memory pod on a node without a GPU-memory label) is only required not to write",
		"DRA: single-request ExactCount claims; a device class counts as GPU when its name contains 'gpu'",
		"queue graphs are forests (no parent cycles, that is C10's subject); annotation values are well-formed (malformed ones are C19's subject)",
		"operator: external Prometheus URLs are not generated (network) and Prometheus enablement is not changed within a case (disabling starts a wall-clock graceful deprecation); certificate/key bytes and the CA bundles derived from them are excluded from the cross-store comparison; pre-existing CRDs (environment, not owned by the operator) are excluded from the A-then-B versus fresh-B comparison only",
	}
}
func (c *Check) CaseTimeout() time.Duration { return 120 * time.Second }
func (c *Check) CrashIsViolation() bool     { return true }

// RunCase dispatches on the case index.
// A SUT panic is not recovered: it kills the worker and the coordinator records it as sut-crash with the stack.
func (c *Check) RunCase(seed int64, index int, tier string, env *run.Env) (res run.CaseResult) {
	switch index % 3 {
	case 0:
		return runPodGroupCase(seed, index, tier, env)
	case 1:
		return runQueueCase(seed, index, tier, env)
	default:
		return runOperatorCase(seed, index, tier, env)
	}
}

// ---------------------------------------------------------------- small helpers

type rng struct{ *rand.Rand }

func newRng(seed int64, index int, stream uint64) rng { return rng{gen.NewRand(seed, index, stream)} }
func (r rng) p(x float64) bool                        { return r.Float64() < x }
func (r rng) in(lo, hi int) int {
	if hi <= lo {
		return lo
	}
	return lo + r.IntN(hi-lo+1)
}
func pick[T any](r rng, xs []T) T { return xs[r.IntN(len(xs))] }

func hashOf(v any) string {
	b, _ := json.Marshal(v)
	h := sha256.Sum256(b)
	return hex.EncodeToString(h[:8])
}

type viols struct {
	list []run.Violation
	seen map[string]bool
}

// add records a violation once per signature and case.
func (v *viols) add(oracle, sig, format string, a ...any) {
	if v.seen == nil {
		v.seen = map[string]bool{}
	}
	if v.seen[sig] {
		return
	}
	v.seen[sig] = true
	v.list = append(v.list, run.Violation{Property: propID, Oracle: oracle, Sig: sig, Msg: fmt.Sprintf(format, a...)})
}

type counters map[string]int

func (c counters) inc(k string)        { c[k]++ }
func (c counters) add(k string, n int) { c[k] += n }

// ---------------------------------------------------------------- exact resource arithmetic

// rl is a resource list with exact values.
type rl map[string]*big.Rat

func ratOf(q resource.Quantity) *big.Rat {
	d := q.AsDec() // unscaled * 10^-scale
	r := new(big.Rat).SetInt(d.UnscaledBig())
	sc := int64(d.Scale())
	ten := big.NewInt(10)
	if sc > 0 {
		r.Quo(r, new(big.Rat).SetInt(new(big.Int).Exp(ten, big.NewInt(sc), nil)))
	} else if sc < 0 {
		r.Mul(r, new(big.Rat).SetInt(new(big.Int).Exp(ten, big.NewInt(-sc), nil)))
	}
	return r
}

func ratOfString(s string) *big.Rat {
	q, err := resource.ParseQuantity(s)
	if err != nil {
		panic("harness: bad generated quantity " + s)
	}
	return ratOf(q)
}

func (a rl) addQ(name string, x *big.Rat) {
	if cur, ok := a[name]; ok {
		a[name] = new(big.Rat).Add(cur, x)
	} else {
		a[name] = new(big.Rat).Set(x)
	}
}

func (a rl) addAll(b rl) {
	for k, v := range b {
		a.addQ(k, v)
	}
}

func rlOf(l v1.ResourceList) rl {
	out := rl{}
	for k, q := range l {
		out.addQ(string(k), ratOf(q))
	}
	return out
}

// diff returns the resource names on which a and b differ (absent == 0), with both values.
func (a rl) diff(b rl) []string {
	names := map[string]bool{}
	for k := range a {
		names[k] = true
	}
	for k := range b {
		names[k] = true
	}
	var out []string
	zero := new(big.Rat)
	for k := range names {
		x, y := a[k], b[k]
		if x == nil {
			x = zero
		}
		if y == nil {
			y = zero
		}
		if x.Cmp(y) != 0 {
			out = append(out, fmt.Sprintf("%s: expected %s, status has %s", k, x.FloatString(6), y.FloatString(6)))
		}
	}
	sort.Strings(out)
	return out
}

func (a rl) isZero() bool {
	for _, v := range a {
		if v.Sign() != 0 {
			return false
		}
	}
	return true
}

func (a rl) String() string {
	var ks []string
	for k := range a {
		ks = append(ks, k)
	}
	sort.Strings(ks)
	var sb strings.Builder
	sb.WriteString("{")
	for i, k := range ks {
		if i > 0 {
			sb.WriteString(", ")
		}
		sb.WriteString(k + "=" + a[k].FloatString(6))
	}
	sb.WriteString("}")
	return sb.String()
}

func onlyNames(diffs []string, name string) bool {
	for _, d := range diffs {
		if !strings.HasPrefix(d, name+":") {
			return false
		}
	}
	return len(diffs) > 0
}

// ---------------------------------------------------------------- client-boundary monitor

// calls counts what the reconcilers do at the client boundary. The reconcilers get a client that behaves like the
// manager's client over an API server: reads return objects with their GroupVersionKind set (the cache reader does
// that; the bare fake client strips it), List order may be shuffled (the cache's order is a map iteration), and a write
// request that leaves the stored object unchanged is classified as a no-op request (an API server does not persist it
// and does not bump resourceVersion; the fake client always bumps it, so resourceVersion is ignored in comparisons).
type calls struct {
	Mutating int            // requests that changed the store
	Noop     int            // update/patch requests that left the stored object unchanged (incl. empty patches)
	Failed   int            // mutating requests that returned an error
	Reads    int            // Get + List
	ByKind   map[string]int // effective mutating requests by verb:Kind
	Log      []string       // effective mutating requests in order
	NoopLog  []string
	shuffle  *rand.Rand // when set, List results are returned in a shuffled order
	scheme   *runtime.Scheme
}

func newCalls(s *runtime.Scheme) *calls { return &calls{ByKind: map[string]int{}, scheme: s} }

func (c *calls) reset() {
	c.Mutating, c.Noop, c.Reads, c.Failed = 0, 0, 0, 0
	c.ByKind = map[string]int{}
	c.Log, c.NoopLog = nil, nil
}

func (c *calls) kindOf(o runtime.Object) string {
	if gvks, _, err := c.scheme.ObjectKinds(o); err == nil && len(gvks) > 0 {
		return gvks[0].Kind
	}
	return fmt.Sprintf("%T", o)
}

func (c *calls) setGVK(o runtime.Object) {
	if _, isMeta := o.(*metav1.PartialObjectMetadata); isMeta {
		return
	}
	if gvks, _, err := c.scheme.ObjectKinds(o); err == nil && len(gvks) > 0 {
		o.GetObjectKind().SetGroupVersionKind(gvks[0])
	}
}

func (c *calls) mut(verb string, o client.Object) {
	c.Mutating++
	k := verb + ":" + c.kindOf(o)
	c.ByKind[k]++
	if len(c.Log) < 200 {
		c.Log = append(c.Log, k+" "+o.GetNamespace()+"/"+o.GetName())
	}
}

func (c *calls) noop(verb string, o client.Object) {
	c.Noop++
	if len(c.NoopLog) < 50 {
		c.NoopLog = append(c.NoopLog, verb+":"+c.kindOf(o)+" "+o.GetNamespace()+"/"+o.GetName())
	}
}

// canon is the JSON of an object without resourceVersion and managedFields.
func canon(o client.Object) string {
	x := o.DeepCopyObject().(client.Object)
	x.SetResourceVersion("")
	x.SetManagedFields(nil)
	x.GetObjectKind().SetGroupVersionKind(schema.GroupVersionKind{})
	return mustJSON(x)
}

func stored(ctx context.Context, cl client.Client, o client.Object) string {
	x := o.DeepCopyObject().(client.Object)
	if err := cl.Get(ctx, client.ObjectKeyFromObject(o), x); err != nil {
		return "<absent: " + err.Error() + ">"
	}
	return canon(x)
}

// write runs a mutating request and classifies it by its effect on the stored object.
func (c *calls) write(ctx context.Context, cl client.Client, verb string, o client.Object, do func() error) error {
	before := stored(ctx, cl, o)
	err := do()
	switch {
	case err != nil:
		c.Failed++
	case stored(ctx, cl, o) == before:
		c.noop(verb, o)
	default:
		c.mut(verb, o)
	}
	return err
}

// funcs returns the interceptor.
func (c *calls) funcs() interceptor.Funcs {
	return interceptor.Funcs{
		Get: func(ctx context.Context, cl client.WithWatch, key client.ObjectKey, obj client.Object, opts ...client.GetOption) error {
			c.Reads++
			err := cl.Get(ctx, key, obj, opts...)
			if err == nil {
				c.setGVK(obj)
			}
			return err
		},
		List: func(ctx context.Context, cl client.WithWatch, list client.ObjectList, opts ...client.ListOption) error {
			c.Reads++
			err := cl.List(ctx, list, opts...)
			if err != nil {
				return err
			}
			items, e := meta.ExtractList(list)
			if e != nil || len(items) == 0 {
				return nil
			}
			for _, it := range items {
				c.setGVK(it)
			}
			if c.shuffle != nil && len(items) > 1 {
				c.shuffle.Shuffle(len(items), func(i, j int) { items[i], items[j] = items[j], items[i] })
			}
			return meta.SetList(list, items)
		},
		Create: func(ctx context.Context, cl client.WithWatch, obj client.Object, opts ...client.CreateOption) error {
			err := cl.Create(ctx, obj, opts...)
			if err != nil {
				c.Failed++
			} else {
				c.mut("create", obj)
			}
			return err
		},
		Delete: func(ctx context.Context, cl client.WithWatch, obj client.Object, opts ...client.DeleteOption) error {
			err := cl.Delete(ctx, obj, opts...)
			if err != nil {
				c.Failed++
			} else {
				c.mut("delete", obj)
			}
			return err
		},
		DeleteAllOf: func(ctx context.Context, cl client.WithWatch, obj client.Object, opts ...client.DeleteAllOfOption) error {
			c.mut("deleteAllOf", obj)
			return cl.DeleteAllOf(ctx, obj, opts...)
		},
		Update: func(ctx context.Context, cl client.WithWatch, obj client.Object, opts ...client.UpdateOption) error {
			return c.write(ctx, cl, "update", obj, func() error { return cl.Update(ctx, obj, opts...) })
		},
		Patch: func(ctx context.Context, cl client.WithWatch, obj client.Object, patch client.Patch, opts ...client.PatchOption) error {
			return c.write(ctx, cl, "patch", obj, func() error { return cl.Patch(ctx, obj, patch, opts...) })
		},
		SubResourceCreate: func(ctx context.Context, cl client.Client, sub string, obj client.Object, subObj client.Object, opts ...client.SubResourceCreateOption) error {
			c.mut("create/"+sub, obj)
			return cl.SubResource(sub).Create(ctx, obj, subObj, opts...)
		},
		SubResourceUpdate: func(ctx context.Context, cl client.Client, sub string, obj client.Object, opts ...client.SubResourceUpdateOption) error {
			return c.write(ctx, cl, "update/"+sub, obj, func() error { return cl.SubResource(sub).Update(ctx, obj, opts...) })
		},
		SubResourcePatch: func(ctx context.Context, cl client.Client, sub string, obj client.Object, patch client.Patch, opts ...client.SubResourcePatchOption) error {
			return c.write(ctx, cl, "patch/"+sub, obj, func() error { return cl.SubResource(sub).Patch(ctx, obj, patch, opts...) })
		},
	}
}

// newTracker is a plain client-go object tracker (what internal/store uses); giving it to the fake client builder avoids
// the field-managed tracker, whose construction walks the whole scheme (~0.1 s per client).
func newTracker(s *runtime.Scheme) k8stesting.ObjectTracker {
	return k8stesting.NewObjectTracker(s, serializer.NewCodecFactory(s).UniversalDecoder())
}

func mustJSON(v any) string {
	b, err := json.Marshal(v)
	if err != nil {
		return "marshal error: " + err.Error()
	}
	return string(b)
}

func finish(res *run.CaseResult, v *viols, cnt counters, env *run.Env, seed int64, index int, replay any) {
	res.Counters = cnt
	if len(v.list) > 0 {
		res.Verdict = run.Violated
		res.Violations = v.list
		res.Replay = env.SaveReplay(propID, seed, index, map[string]any{"input": replay, "violations": v.list})
	}
}
