package c20

import (
	"context"
	"encoding/json"
	"fmt"
	"math/big"
	"sort"
	"strconv"
	"strings"
	"sync"

	"github.com/go-logr/logr"
	v1 "k8s.io/api/core/v1"
	resourceapi "k8s.io/api/resource/v1"
	schedulingv1 "k8s.io/api/scheduling/v1"
	"k8s.io/apimachinery/pkg/api/resource"
	metav1 "k8s.io/apimachinery/pkg/apis/meta/v1"
	"k8s.io/apimachinery/pkg/types"
	"k8s.io/utils/ptr"
	ctrl "sigs.k8s.io/controller-runtime"
	"sigs.k8s.io/controller-runtime/pkg/client"
	crfake "sigs.k8s.io/controller-runtime/pkg/client/fake"
	"sigs.k8s.io/controller-runtime/pkg/client/interceptor"
	crlog "sigs.k8s.io/controller-runtime/pkg/log"

	"github.com/NVIDIA/KAI-scheduler/pkg/apis/scheduling/v2alpha2"
	pgc "github.com/NVIDIA/KAI-scheduler/pkg/podgroupcontroller/controllers"
	"github.com/NVIDIA/KAI-scheduler/pkg/podgroupcontroller/controllers/cluster_relations"

	"verif/harness/internal/run"
	"verif/harness/internal/store"
)

var logOnce sync.Once

func quietLogs() { logOnce.Do(func() { crlog.SetLogger(logr.Discard()) }) }

const (
	pgNS      = "ns"
	pgName    = "pg"
	annPG     = "pod-group-name"
	annFrac   = "gpu-fraction"
	annMem    = "gpu-memory"
	annNumDev = "gpu-fraction-num-devices"
	annRecv   = "received-resource-type"
	resGPU    = "nvidia.com/gpu"
	resGPUMem = "run.ai/gpu.memory"
	lblGPUMem = "nvidia.com/gpu.memory"
)

// ---------------------------------------------------------------- generation

type pgGen struct {
	r       rng
	nextPod int
	useDRA  bool
	objs    []client.Object // initial objects, in creation order
	log     []string        // history, human readable
}

var (
	cpuVals  = []string{"100m", "250m", "500m", "1", "2", "1500m", "0.1", "3"}
	memVals  = []string{"128Mi", "256Mi", "1Gi", "2Gi", "1073741824", "536870912", "500M", "1G", "1000Mi", "2147483648", "4Gi"}
	fracVals = []string{"0.5", "0.25", "0.1", "0.75", "0.33", "0.2"}
	gmemVals = []string{"1024", "2048", "4096", "8192"}
)

func (g *pgGen) containers() []v1.Container {
	n := 1
	if g.r.p(0.35) {
		n = 2
	}
	var cs []v1.Container
	for i := 0; i < n; i++ {
		req := v1.ResourceList{}
		if g.r.p(0.9) {
			req[v1.ResourceCPU] = resource.MustParse(pick(g.r, cpuVals))
		}
		if g.r.p(0.85) {
			req[v1.ResourceMemory] = resource.MustParse(pick(g.r, memVals))
		}
		if g.r.p(0.08) {
			req["example.com/foo"] = resource.MustParse(strconv.Itoa(g.r.in(1, 3)))
		}
		cs = append(cs, v1.Container{Name: fmt.Sprintf("c%d", i), Image: "img", Resources: v1.ResourceRequirements{Requests: req}})
	}
	return cs
}

// pod phases the generator knows
const (
	kPendingBare = iota
	kPendingUnsched
	kPendingNodeOnly
	kPendingScheduled
	kRunning
	kRunningNoCond
	kSucceeded
	kFailed
	kUnknown
)

var kindWeights = []int{kPendingBare, kPendingBare, kPendingUnsched, kPendingNodeOnly, kPendingScheduled, kPendingScheduled,
	kRunning, kRunning, kRunning, kRunningNoCond, kSucceeded, kFailed, kUnknown}

func isFractional(p *v1.Pod) bool {
	_, f := p.Annotations[annFrac]
	_, m := p.Annotations[annMem]
	return f || m
}

func pickNode(r rng, p *v1.Pod) string {
	if _, m := p.Annotations[annMem]; m && !r.p(0.08) {
		return pick(r, []string{"node-a", "node-b"})
	}
	return pick(r, []string{"node-a", "node-b", "node-c"})
}

// setKind puts a pod into one of the generated situations, keeping it consistent with what kubelet/binder write.
func setKind(r rng, p *v1.Pod, kind int) {
	p.Status.Conditions = nil
	scheduled := func() {
		if p.Spec.NodeName == "" {
			p.Spec.NodeName = pickNode(r, p)
		}
		if isFractional(p) {
			p.Annotations[annRecv] = "Fraction"
		} else if r.p(0.5) {
			p.Annotations[annRecv] = "Regular"
		}
	}
	cond := func(st v1.ConditionStatus, reason string) {
		p.Status.Conditions = append(p.Status.Conditions, v1.PodCondition{Type: v1.PodScheduled, Status: st, Reason: reason})
	}
	switch kind {
	case kPendingBare:
		p.Status.Phase = v1.PodPending
		p.Spec.NodeName = ""
		delete(p.Annotations, annRecv)
	case kPendingUnsched:
		p.Status.Phase = v1.PodPending
		p.Spec.NodeName = ""
		delete(p.Annotations, annRecv)
		cond(v1.ConditionFalse, "Unschedulable")
	case kPendingNodeOnly:
		p.Status.Phase = v1.PodPending
		if p.Spec.NodeName == "" {
			p.Spec.NodeName = pickNode(r, p)
		}
	case kPendingScheduled:
		p.Status.Phase = v1.PodPending
		scheduled()
		p.Status.Conditions = append(p.Status.Conditions, v1.PodCondition{Type: v1.PodInitialized, Status: v1.ConditionFalse})
		cond(v1.ConditionTrue, "")
	case kRunning:
		p.Status.Phase = v1.PodRunning
		scheduled()
		cond(v1.ConditionTrue, "")
		p.Status.Conditions = append(p.Status.Conditions, v1.PodCondition{Type: v1.PodReady, Status: v1.ConditionTrue})
	case kRunningNoCond:
		p.Status.Phase = v1.PodRunning
		scheduled()
	case kSucceeded:
		p.Status.Phase = v1.PodSucceeded
		scheduled()
		cond(v1.ConditionTrue, "")
	case kFailed:
		p.Status.Phase = v1.PodFailed
		scheduled()
		cond(v1.ConditionTrue, "")
	case kUnknown:
		p.Status.Phase = v1.PodUnknown
		scheduled()
		cond(v1.ConditionTrue, "")
	}
}

// newPod draws a pod of the given group/namespace; extra objects (claims) are returned with it.
func (g *pgGen) newPod(ns, group string) (*v1.Pod, []client.Object) {
	g.nextPod++
	p := &v1.Pod{ObjectMeta: metav1.ObjectMeta{Name: fmt.Sprintf("p%d", g.nextPod), Namespace: ns, UID: types.UID(fmt.Sprintf("uid-p%d", g.nextPod)),
		Annotations: map[string]string{}, Labels: map[string]string{"app": "w"}},
		Spec: v1.PodSpec{SchedulerName: "kai-scheduler", Containers: g.containers()}}
	if group != "" {
		p.Annotations[annPG] = group
	}
	var extra []client.Object
	switch x := g.r.Float64(); {
	case x < 0.25:
		p.Annotations[annFrac] = pick(g.r, fracVals)
	case x < 0.43:
		p.Annotations[annMem] = pick(g.r, gmemVals)
	case x < 0.68:
		c := &p.Spec.Containers[0]
		q := resource.MustParse(strconv.Itoa(pick(g.r, []int{1, 1, 2, 4})))
		c.Resources.Requests[resGPU] = q
		c.Resources.Limits = v1.ResourceList{resGPU: q}
	}
	if isFractional(p) && g.r.p(0.2) {
		p.Annotations[annNumDev] = strconv.Itoa(g.r.in(2, 3))
	}
	if g.useDRA && g.r.p(0.35) {
		nClaims := 1
		if g.r.p(0.3) {
			nClaims = 2
		}
		for i := 0; i < nClaims; i++ {
			class := "gpu.nvidia.com"
			if i == 1 && g.r.p(0.6) {
				class = "nic.example.com"
			}
			cname := fmt.Sprintf("%s-claim%d", p.Name, i)
			claim := &resourceapi.ResourceClaim{ObjectMeta: metav1.ObjectMeta{Name: cname, Namespace: ns},
				Spec: resourceapi.ResourceClaimSpec{Devices: resourceapi.DeviceClaim{Requests: []resourceapi.DeviceRequest{{Name: "r",
					Exactly: &resourceapi.ExactDeviceRequest{DeviceClassName: class, AllocationMode: resourceapi.DeviceAllocationModeExactCount, Count: int64(g.r.in(1, 2))}}}}}}
			extra = append(extra, claim)
			ref := v1.PodResourceClaim{Name: fmt.Sprintf("rc%d", i)}
			if g.r.p(0.5) {
				ref.ResourceClaimName = ptr.To(cname)
			} else {
				ref.ResourceClaimTemplateName = ptr.To("tmpl")
				p.Status.ResourceClaimStatuses = append(p.Status.ResourceClaimStatuses, v1.PodResourceClaimStatus{Name: ref.Name, ResourceClaimName: ptr.To(cname)})
			}
			p.Spec.ResourceClaims = append(p.Spec.ResourceClaims, ref)
		}
	}
	setKind(g.r, p, pick(g.r, kindWeights))
	return p, extra
}

type pcSpec struct {
	Name    string
	Value   int32
	Default bool
}

var pcMenu = []pcSpec{{"pc-low", 50, false}, {"pc-99", 99, false}, {"pc-100", 100, false}, {"pc-high", 200, false}, {"pc-dflt", 120, true}}

func pcObj(s pcSpec) *schedulingv1.PriorityClass {
	return &schedulingv1.PriorityClass{ObjectMeta: metav1.ObjectMeta{Name: s.Name}, Value: s.Value, GlobalDefault: s.Default}
}

// ---------------------------------------------------------------- oracle (own code, API objects only)

type world struct {
	pg     *v2alpha2.PodGroup
	pods   []v1.Pod
	nodes  map[string]*v1.Node
	pcs    []schedulingv1.PriorityClass
	claims map[string]*resourceapi.ResourceClaim
}

func readWorld(ctx context.Context, c client.Client) (*world, error) {
	w := &world{nodes: map[string]*v1.Node{}, claims: map[string]*resourceapi.ResourceClaim{}, pg: &v2alpha2.PodGroup{}}
	if err := c.Get(ctx, client.ObjectKey{Namespace: pgNS, Name: pgName}, w.pg); err != nil {
		return nil, err
	}
	var pods v1.PodList
	if err := c.List(ctx, &pods); err != nil {
		return nil, err
	}
	w.pods = pods.Items
	var nodes v1.NodeList
	if err := c.List(ctx, &nodes); err != nil {
		return nil, err
	}
	for i := range nodes.Items {
		w.nodes[nodes.Items[i].Name] = &nodes.Items[i]
	}
	var pcs schedulingv1.PriorityClassList
	if err := c.List(ctx, &pcs); err != nil {
		return nil, err
	}
	w.pcs = pcs.Items
	var cl resourceapi.ResourceClaimList
	if err := c.List(ctx, &cl); err != nil {
		return nil, err
	}
	for i := range cl.Items {
		w.claims[cl.Items[i].Namespace+"/"+cl.Items[i].Name] = &cl.Items[i]
	}
	return w, nil
}

func podScheduledTrue(p *v1.Pod) bool {
	for _, c := range p.Status.Conditions {
		if c.Type == v1.PodScheduled {
			return c.Status == v1.ConditionTrue
		}
	}
	return false
}

type podView struct {
	active, allocated bool
	req, alloc        rl
	undefined         string // non-empty: the allocated share cannot be defined (reconcile is expected to fail)
	multiDevAllocated bool
}

func (w *world) viewPod(p *v1.Pod) podView {
	v := podView{req: rl{}, alloc: rl{}}
	v.active = p.Status.Phase == v1.PodPending || p.Status.Phase == v1.PodRunning
	v.allocated = p.Status.Phase == v1.PodRunning || (p.Status.Phase == v1.PodPending && podScheduledTrue(p))
	base := rl{}
	for _, c := range p.Spec.Containers {
		for name, q := range c.Resources.Requests {
			base.addQ(string(name), ratOf(q))
		}
	}
	count := big.NewRat(1, 1)
	if s, ok := p.Annotations[annNumDev]; ok {
		n, _ := strconv.Atoi(s)
		count = big.NewRat(int64(n), 1)
	}
	shareReq, shareAlloc := rl{}, rl{}
	if s, ok := p.Annotations[annFrac]; ok {
		f := new(big.Rat).Mul(ratOfString(s), count)
		shareReq.addQ(resGPU, f)
		shareAlloc.addQ(resGPU, f)
	} else if s, ok := p.Annotations[annMem]; ok {
		m := new(big.Rat).Mul(ratOfString(s), count)
		shareReq.addQ(resGPUMem, m)
		if v.allocated {
			n := w.nodes[p.Spec.NodeName]
			if n == nil {
				v.undefined = "gpu-memory pod allocated on unknown node " + p.Spec.NodeName
			} else if lbl, ok := n.Labels[lblGPUMem]; !ok {
				v.undefined = "gpu-memory pod allocated on node " + n.Name + " that has no " + lblGPUMem + " label"
			} else {
				per, _ := strconv.ParseInt(lbl, 10, 64)
				shareAlloc.addQ(resGPU, new(big.Rat).Quo(m, big.NewRat(per, 1)))
			}
		}
	}
	dra := rl{}
	for _, ref := range p.Spec.ResourceClaims {
		name := ""
		if ref.ResourceClaimName != nil {
			name = *ref.ResourceClaimName
		} else {
			for _, st := range p.Status.ResourceClaimStatuses {
				if st.Name == ref.Name && st.ResourceClaimName != nil {
					name = *st.ResourceClaimName
				}
			}
		}
		cl := w.claims[p.Namespace+"/"+name]
		if cl == nil {
			v.undefined = "claim " + name + " missing"
			continue
		}
		for _, rq := range cl.Spec.Devices.Requests {
			if rq.Exactly != nil && strings.Contains(strings.ToLower(rq.Exactly.DeviceClassName), "gpu") {
				dra.addQ(rq.Exactly.DeviceClassName, big.NewRat(rq.Exactly.Count, 1))
			}
		}
	}
	if v.active {
		v.req.addAll(base)
		v.req.addAll(shareReq)
		v.req.addAll(dra)
	}
	if v.allocated {
		v.alloc.addAll(base)
		v.alloc.addAll(shareAlloc)
		v.alloc.addAll(dra)
		if isFractional(p) && count.Cmp(big.NewRat(1, 1)) > 0 {
			v.multiDevAllocated = true
		}
	}
	return v
}

type expectation struct {
	requested, allocated, allocNP rl
	preemptible                   bool
	priority                      int32
	undefined                     string
	multiDevAllocated             bool
	phases                        map[string]int
	members                       int
}

func (w *world) effectivePriority() int32 {
	for i := range w.pcs {
		if w.pcs[i].Name == w.pg.Spec.PriorityClassName {
			return w.pcs[i].Value
		}
	}
	for i := range w.pcs {
		if w.pcs[i].GlobalDefault {
			return w.pcs[i].Value
		}
	}
	return 50
}

func (w *world) expect() expectation {
	e := expectation{requested: rl{}, allocated: rl{}, allocNP: rl{}, phases: map[string]int{}}
	for i := range w.pods {
		p := &w.pods[i]
		if p.Namespace != w.pg.Namespace || p.Annotations[annPG] != w.pg.Name {
			continue
		}
		e.members++
		v := w.viewPod(p)
		ph := string(p.Status.Phase)
		if p.Status.Phase == v1.PodPending {
			if podScheduledTrue(p) {
				ph = "Pending-scheduled"
			} else if p.Spec.NodeName != "" {
				ph = "Pending-nodeName-only"
			} else if len(p.Status.Conditions) > 0 {
				ph = "Pending-unschedulable-condition"
			}
		}
		e.phases[ph]++
		e.requested.addAll(v.req)
		e.allocated.addAll(v.alloc)
		if v.allocated && v.undefined != "" {
			e.undefined = v.undefined
		} else if v.active && v.undefined != "" && strings.HasPrefix(v.undefined, "claim") {
			e.undefined = v.undefined
		}
		e.multiDevAllocated = e.multiDevAllocated || v.multiDevAllocated
	}
	e.priority = w.effectivePriority()
	switch w.pg.Spec.Preemptibility {
	case v2alpha2.Preemptible:
		e.preemptible = true
	case v2alpha2.NonPreemptible:
		e.preemptible = false
	default:
		e.preemptible = e.priority < 100
	}
	if !e.preemptible {
		e.allocNP.addAll(e.allocated)
	}
	return e
}

// ---------------------------------------------------------------- the case

type pgInput struct {
	Seed    int64           `json:"seed"`
	Index   int             `json:"index"`
	Shuffle bool            `json:"shuffledLists"`
	Objects []client.Object `json:"objects"`
	History []string        `json:"history"`
}

func runPodGroupCase(seed int64, index int, tier string, env *run.Env) run.CaseResult {
	quietLogs()
	ctx := context.Background()
	r := newRng(seed, index, 21)
	g := &pgGen{r: r, useDRA: r.p(0.3)}
	cnt := counters{}
	vs := &viols{}
	res := run.CaseResult{Verdict: run.Held}

	// ---- initial objects
	var objs []client.Object
	objs = append(objs,
		&v1.Node{ObjectMeta: metav1.ObjectMeta{Name: "node-a", Labels: map[string]string{lblGPUMem: "16384", "nvidia.com/gpu.count": "8"}}},
		&v1.Node{ObjectMeta: metav1.ObjectMeta{Name: "node-b", Labels: map[string]string{lblGPUMem: "40960"}}},
		&v1.Node{ObjectMeta: metav1.ObjectMeta{Name: "node-c", Labels: map[string]string{"kubernetes.io/hostname": "node-c"}}})
	havePC := map[string]pcSpec{}
	for _, s := range pcMenu {
		if s.Default {
			if r.p(0.25) {
				havePC[s.Name] = s
			}
		} else if r.p(0.8) {
			havePC[s.Name] = s
		}
	}
	for _, s := range pcMenu {
		if _, ok := havePC[s.Name]; ok {
			objs = append(objs, pcObj(s))
		}
	}
	pcNames := []string{"pc-low", "pc-99", "pc-100", "pc-high", "pc-missing", ""}
	pg := &v2alpha2.PodGroup{ObjectMeta: metav1.ObjectMeta{Name: pgName, Namespace: pgNS, UID: "uid-pg"},
		Spec: v2alpha2.PodGroupSpec{MinMember: 1, Queue: "q", PriorityClassName: pick(r, pcNames),
			Preemptibility: pick(r, []v2alpha2.Preemptibility{"", "", v2alpha2.Preemptible, v2alpha2.NonPreemptible, v2alpha2.NonPreemptible})}}
	objs = append(objs, pg)
	other := &v2alpha2.PodGroup{ObjectMeta: metav1.ObjectMeta{Name: "pg-other", Namespace: pgNS, UID: "uid-pg-other"},
		Spec: v2alpha2.PodGroupSpec{MinMember: 1, Queue: "q"}}
	objs = append(objs, other)
	nPods := r.in(1, 8)
	if r.p(0.7) && nPods < 3 {
		nPods = r.in(3, 8)
	}
	for i := 0; i < nPods; i++ {
		p, extra := g.newPod(pgNS, pgName)
		objs = append(objs, extra...)
		objs = append(objs, p)
	}
	for i, n := 0, r.in(0, 2); i < n; i++ { // decoys: other group, other namespace, no group
		p, extra := g.newPod(pgNS, "pg-other")
		objs = append(append(objs, extra...), p)
	}
	if r.p(0.4) {
		p, extra := g.newPod("ns2", pgName)
		objs = append(append(objs, extra...), p)
	}
	if r.p(0.3) {
		p, extra := g.newPod(pgNS, "")
		objs = append(append(objs, extra...), p)
	}

	in := pgInput{Seed: seed, Index: index, Shuffle: r.p(0.5)}
	for _, o := range objs {
		in.Objects = append(in.Objects, o.DeepCopyObject().(client.Object))
	}
	res.Hash = hashOf(struct {
		O []client.Object
		S bool
	}{in.Objects, in.Shuffle})

	// ---- store + real reconciler
	scheme := store.Scheme()
	raw := crfake.NewClientBuilder().WithScheme(scheme).WithObjectTracker(newTracker(scheme)).WithStatusSubresource(&v2alpha2.PodGroup{}).
		WithIndex(&v1.Pod{}, cluster_relations.PodGroupToPodsIndexer, cluster_relations.PodGroupNameIndexerFunc).Build()
	for _, o := range objs {
		if err := raw.Create(ctx, o); err != nil {
			res.Verdict, res.Note = run.Inconclusive, "harness: create "+o.GetName()+": "+err.Error()
			return res
		}
	}
	mon := newCalls(scheme)
	if in.Shuffle {
		mon.shuffle = newRng(seed, index, 22).Rand
		cnt.inc("cases_with_shuffled_lists")
	}
	rec := &pgc.PodGroupReconciler{Client: interceptor.NewClient(raw, mon.funcs()), Scheme: scheme}
	req := ctrl.Request{NamespacedName: client.ObjectKey{Namespace: pgNS, Name: pgName}}

	everNonPreemptibleAllocated := false
	var lastPreemptible *bool
	phasesSeen := map[string]bool{}
	maxMembers, maxPhases := 0, 0

	judge := func(step int, what string) bool {
		before := &v2alpha2.PodGroup{}
		_ = raw.Get(ctx, req.NamespacedName, before)
		mon.reset()
		_, err := rec.Reconcile(ctx, req)
		cnt.inc("reconciles")
		cnt.add("mutating_calls", mon.Mutating)
		cnt.add("noop_write_requests", mon.Noop)
		cnt.add("podgroup_noop_write_requests", mon.Noop)
		cnt.add("podgroup_mutating_calls", mon.Mutating)
		w, rerr := readWorld(ctx, raw)
		if rerr != nil {
			res.Verdict, res.Note = run.Inconclusive, "harness: read world: "+rerr.Error()
			return false
		}
		e := w.expect()
		for ph, n := range e.phases {
			phasesSeen[ph] = true
			cnt.add("pods_judged_phase_"+ph, n)
		}
		if e.members > maxMembers {
			maxMembers = e.members
		}
		if len(e.phases) > maxPhases {
			maxPhases = len(e.phases)
		}
		if lastPreemptible != nil && *lastPreemptible != e.preemptible {
			if e.preemptible {
				cnt.inc("flips_nonpreemptible_to_preemptible")
			} else {
				cnt.inc("flips_preemptible_to_nonpreemptible")
			}
		}
		lastPreemptible = ptr.To(e.preemptible)
		at := fmt.Sprintf("step %d (%s)", step, what)

		if err != nil {
			cnt.inc("reconcile_errors")
			if e.undefined == "" {
				vs.add("podgroup-reconcile", "podgroup-reconcile-error:"+firstWords(err.Error(), 6), "%s: Reconcile failed although every input is well defined: %v", at, err)
			}
			if canon(before) != canon(w.pg) || mon.Mutating > 0 {
				vs.add("podgroup-reconcile", "podgroup-reconcile-error-partial-write", "%s: Reconcile returned %v but wrote (mutating calls %v)", at, err, mon.Log)
			}
			return true
		}
		if e.undefined != "" {
			cnt.inc("reconcile_ok_on_undefined_input")
			return true // the SUT invented a value for something the oracle cannot define; nothing to compare against
		}
		st := w.pg.Status.ResourcesStatus
		if d := e.requested.diff(rlOf(st.Requested)); len(d) > 0 {
			vs.add("podgroup-sum", "podgroup-status:requested", "%s: requested != sum over Pending/Running pods: %s; pods=%s", at, strings.Join(d, "; "), describePods(w))
		}
		if d := e.allocated.diff(rlOf(st.Allocated)); len(d) > 0 {
			sig := "podgroup-status:allocated"
			if e.multiDevAllocated && onlyNames(d, resGPU) {
				sig = "podgroup-status:allocated:multi-device-fraction-counted-once"
			}
			vs.add("podgroup-sum", sig, "%s: allocated != sum over Running and scheduled Pending pods: %s; pods=%s", at, strings.Join(d, "; "), describePods(w))
		}
		gotNP := rlOf(st.AllocatedNonPreemptible)
		if d := e.allocNP.diff(gotNP); len(d) > 0 {
			sig := "podgroup-status:allocatedNonPreemptible"
			switch {
			case e.preemptible && everNonPreemptibleAllocated:
				sig = "podgroup-status:allocatedNonPreemptible-stale-after-flip"
			case e.preemptible:
				sig = "podgroup-status:allocatedNonPreemptible-nonzero-while-preemptible"
			case e.multiDevAllocated && onlyNames(d, resGPU) && len(e.allocated.diff(rlOf(st.Allocated))) > 0:
				sig = "podgroup-status:allocatedNonPreemptible:multi-device-fraction-counted-once"
			}
			vs.add("podgroup-sum", sig, "%s: workload is currently %s (spec.preemptibility=%q, priorityClassName=%q, effective priority %d) but allocatedNonPreemptible: %s; status=%s",
				at, map[bool]string{true: "preemptible", false: "non-preemptible"}[e.preemptible], w.pg.Spec.Preemptibility, w.pg.Spec.PriorityClassName, e.priority,
				strings.Join(d, "; "), mustJSON(st))
		}
		if !e.preemptible && !e.allocated.isZero() {
			everNonPreemptibleAllocated = true
		}

		// fixpoint: a second reconcile without any change must not write and must leave the object byte-identical
		snap := canon(w.pg)
		mon.reset()
		_, err2 := rec.Reconcile(ctx, req)
		cnt.inc("reconciles")
		cnt.inc("fixpoint_reconciles")
		cnt.add("mutating_calls", mon.Mutating)
		cnt.add("noop_write_requests", mon.Noop)
		cnt.add("podgroup_noop_write_requests", mon.Noop)
		cnt.add("podgroup_mutating_calls", mon.Mutating)
		after := &v2alpha2.PodGroup{}
		_ = raw.Get(ctx, req.NamespacedName, after)
		if err2 != nil {
			vs.add("podgroup-fixpoint", "podgroup-fixpoint-error", "%s: second reconcile failed: %v", at, err2)
		}
		if mon.Mutating > 0 || canon(after) != snap {
			sig := "podgroup-fixpoint-write"
			if sameStatusSemantically(w.pg, after) {
				sig = "podgroup-fixpoint-write:quantity-format-only"
			}
			vs.add("podgroup-fixpoint", sig, "%s: second reconcile without any change wrote %v (shuffled lists=%v): before=%s after=%s",
				at, mon.Log, in.Shuffle, mustJSON(w.pg.Status.ResourcesStatus), mustJSON(after.Status.ResourcesStatus))
		}
		return true
	}

	if !judge(0, "initial") {
		return res
	}

	// ---- history
	steps := r.in(3, 8)
	listMembers := func() []v1.Pod {
		var pods v1.PodList
		_ = raw.List(ctx, &pods, client.InNamespace(pgNS))
		var out []v1.Pod
		for _, p := range pods.Items {
			if p.Annotations[annPG] == pgName {
				out = append(out, p)
			}
		}
		sort.Slice(out, func(i, j int) bool { return out[i].Name < out[j].Name })
		return out
	}
	updatePod := func(p *v1.Pod) error {
		// replace the stored pod (spec.nodeName, annotations and status change together, as binder+kubelet would do over time)
		cur := &v1.Pod{}
		if err := raw.Get(ctx, client.ObjectKeyFromObject(p), cur); err != nil {
			return err
		}
		want := p.DeepCopy()
		p.ResourceVersion = cur.ResourceVersion
		if err := raw.Update(ctx, p); err != nil { // metadata + spec (the fake keeps the old status here, as an API server does)
			return err
		}
		st := want.DeepCopy()
		st.ResourceVersion = p.ResourceVersion
		if err := raw.Status().Update(ctx, st); err != nil {
			return err
		}
		chk := &v1.Pod{}
		if err := raw.Get(ctx, client.ObjectKeyFromObject(p), chk); err != nil {
			return err
		}
		if chk.Status.Phase != want.Status.Phase || chk.Spec.NodeName != want.Spec.NodeName || podScheduledTrue(chk) != podScheduledTrue(want) ||
			chk.Annotations[annRecv] != want.Annotations[annRecv] {
			return fmt.Errorf("pod update did not take (phase %s vs %s)", chk.Status.Phase, want.Status.Phase)
		}
		return nil
	}
	for s := 1; s <= steps; s++ {
		what := ""
		var herr error
		members := listMembers()
		curPG := &v2alpha2.PodGroup{}
		_ = raw.Get(ctx, req.NamespacedName, curPG)
		switch x := r.Float64(); {
		case x < 0.22 && len(members) > 0: // lifecycle advance
			p := members[r.IntN(len(members))].DeepCopy()
			var to int
			switch p.Status.Phase {
			case v1.PodPending:
				if podScheduledTrue(p) {
					to = pick(r, []int{kRunning, kRunning, kFailed, kPendingBare})
				} else {
					to = pick(r, []int{kPendingScheduled, kPendingScheduled, kRunning, kPendingUnsched})
				}
			case v1.PodRunning:
				to = pick(r, []int{kSucceeded, kFailed, kFailed, kUnknown})
			default:
				to = pick(r, []int{kRunning, kPendingBare, kSucceeded})
			}
			from := p.Status.Phase
			setKind(r, p, to)
			what = fmt.Sprintf("pod %s: %s -> kind %d (%s, node %q, scheduled=%v)", p.Name, from, to, p.Status.Phase, p.Spec.NodeName, podScheduledTrue(p))
			herr = updatePod(p)
			cnt.inc("steps_phase_change")
		case x < 0.32 && len(members) > 0: // arbitrary jump
			p := members[r.IntN(len(members))].DeepCopy()
			to := pick(r, kindWeights)
			from := p.Status.Phase
			setKind(r, p, to)
			what = fmt.Sprintf("pod %s: %s -> kind %d (%s, node %q, scheduled=%v)", p.Name, from, to, p.Status.Phase, p.Spec.NodeName, podScheduledTrue(p))
			herr = updatePod(p)
			cnt.inc("steps_phase_change")
		case x < 0.42:
			p, extra := g.newPod(pgNS, pgName)
			for _, o := range extra {
				if herr == nil {
					herr = raw.Create(ctx, o)
				}
			}
			if herr == nil {
				herr = raw.Create(ctx, p)
			}
			what = fmt.Sprintf("add pod %s (%s, node %q, ann %v)", p.Name, p.Status.Phase, p.Spec.NodeName, p.Annotations)
			cnt.inc("steps_pod_add")
		case x < 0.50 && len(members) > 0:
			p := members[r.IntN(len(members))]
			herr = raw.Delete(ctx, &p)
			what = "delete pod " + p.Name
			cnt.inc("steps_pod_delete")
		case x < 0.70: // explicit preemptibility flip
			var opts []v2alpha2.Preemptibility
			for _, o := range []v2alpha2.Preemptibility{"", v2alpha2.Preemptible, v2alpha2.Preemptible, v2alpha2.NonPreemptible, v2alpha2.NonPreemptible} {
				if o != curPG.Spec.Preemptibility {
					opts = append(opts, o)
				}
			}
			to := pick(r, opts)
			what = fmt.Sprintf("spec.preemptibility %q -> %q", curPG.Spec.Preemptibility, to)
			curPG.Spec.Preemptibility = to
			herr = raw.Update(ctx, curPG)
			cnt.inc("steps_explicit_preemptibility_change")
		case x < 0.84: // priority class name change
			var opts []string
			for _, o := range pcNames {
				if o != curPG.Spec.PriorityClassName {
					opts = append(opts, o)
				}
			}
			to := pick(r, opts)
			what = fmt.Sprintf("spec.priorityClassName %q -> %q", curPG.Spec.PriorityClassName, to)
			curPG.Spec.PriorityClassName = to
			herr = raw.Update(ctx, curPG)
			cnt.inc("steps_priority_class_change")
		case x < 0.92: // priority class object recreated with a value on the other side of 100
			s0 := pick(r, pcMenu[:4])
			old := &schedulingv1.PriorityClass{}
			nv := pick(r, []int32{10, 99, 100, 101, 1000})
			if err := raw.Get(ctx, client.ObjectKey{Name: s0.Name}, old); err == nil {
				herr = raw.Delete(ctx, old)
				what = fmt.Sprintf("priority class %s recreated: %d -> %d", s0.Name, old.Value, nv)
			} else {
				what = fmt.Sprintf("priority class %s created with %d", s0.Name, nv)
			}
			if herr == nil {
				herr = raw.Create(ctx, pcObj(pcSpec{s0.Name, nv, false}))
			}
			cnt.inc("steps_priority_class_recreate")
		case x < 0.96: // global default toggled
			old := &schedulingv1.PriorityClass{}
			if err := raw.Get(ctx, client.ObjectKey{Name: "pc-dflt"}, old); err == nil {
				herr = raw.Delete(ctx, old)
				what = "global default priority class deleted"
			} else {
				nv := pick(r, []int32{40, 120})
				herr = raw.Create(ctx, pcObj(pcSpec{"pc-dflt", nv, true}))
				what = fmt.Sprintf("global default priority class created with %d", nv)
			}
			cnt.inc("steps_global_default_toggle")
		default:
			what = "no change"
			cnt.inc("steps_noop")
		}
		if herr != nil {
			res.Verdict, res.Note = run.Inconclusive, "harness: step '"+what+"': "+herr.Error()
			return res
		}
		in.History = append(in.History, fmt.Sprintf("%d: %s", s, what))
		cnt.inc("history_steps")
		if !judge(s, what) {
			return res
		}
	}

	res.NonTrivial = maxMembers >= 3 && maxPhases >= 2 && steps >= 1
	cnt.add("distinct_pod_situations_in_case", len(phasesSeen))
	for _, o := range in.Objects {
		if p, ok := o.(*v1.Pod); ok {
			if _, ok := p.Annotations[annFrac]; ok {
				cnt.inc("gen_pods_gpu_fraction")
			}
			if _, ok := p.Annotations[annMem]; ok {
				cnt.inc("gen_pods_gpu_memory")
			}
			if _, ok := p.Annotations[annNumDev]; ok {
				cnt.inc("gen_pods_multi_device")
			}
			if len(p.Spec.ResourceClaims) > 0 {
				cnt.inc("gen_pods_dra")
			}
		}
	}
	cnt.inc("cases_part1_podgroup")
	res.Sample = map[string]any{"part": "podgroup", "seed": seed, "index": index, "pods": maxMembers, "situations": keys(phasesSeen), "history": in.History, "shuffledLists": in.Shuffle}
	finish(&res, vs, cnt, env, seed, index, in)
	return res
}

func keys(m map[string]bool) []string {
	var out []string
	for k := range m {
		out = append(out, k)
	}
	sort.Strings(out)
	return out
}

func firstWords(s string, n int) string {
	f := strings.Fields(s)
	if len(f) > n {
		f = f[:n]
	}
	return strings.Join(f, "_")
}

func describePods(w *world) string {
	var out []string
	for i := range w.pods {
		p := &w.pods[i]
		if p.Namespace != w.pg.Namespace || p.Annotations[annPG] != w.pg.Name {
			continue
		}
		var reqs []string
		for _, c := range p.Spec.Containers {
			b, _ := json.Marshal(c.Resources.Requests)
			reqs = append(reqs, string(b))
		}
		ann := map[string]string{}
		for _, k := range []string{annFrac, annMem, annNumDev, annRecv} {
			if v, ok := p.Annotations[k]; ok {
				ann[k] = v
			}
		}
		out = append(out, fmt.Sprintf("%s{%s scheduled=%v node=%q req=%s ann=%v claims=%d}", p.Name, p.Status.Phase, podScheduledTrue(p), p.Spec.NodeName,
			strings.Join(reqs, "+"), ann, len(p.Spec.ResourceClaims)))
	}
	return strings.Join(out, " ")
}

func sameStatusSemantically(a, b *v2alpha2.PodGroup) bool {
	x, y := a.Status.ResourcesStatus, b.Status.ResourcesStatus
	return len(rlOf(x.Requested).diff(rlOf(y.Requested))) == 0 && len(rlOf(x.Allocated).diff(rlOf(y.Allocated))) == 0 &&
		len(rlOf(x.AllocatedNonPreemptible).diff(rlOf(y.AllocatedNonPreemptible))) == 0
}
