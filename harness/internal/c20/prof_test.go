package c20

import (
	"testing"

	"verif/harness/internal/run"
)

func TestProf(t *testing.T) {
	c := New()
	env := &run.Env{WorkDir: t.TempDir(), ReplayDir: t.TempDir()}
	for i := 0; i < 60; i++ {
		c.RunCase(1, i, "quick", env)
	}
}
