// Package k8sm is the harness' own, deliberately independent implementation of the Kubernetes
// hard placement predicates (node selector, required node affinity, taints/tolerations, label
// selectors for inter-pod (anti-)affinity) and of pod resource requests. It does not import the
// kube-scheduler plugins that the system under test wraps.
package k8sm

import (
	"strconv"
	"strings"

	v1 "k8s.io/api/core/v1"
	"k8s.io/apimachinery/pkg/api/resource"
	metav1 "k8s.io/apimachinery/pkg/apis/meta/v1"
)

// NodeReady reports whether the node is Ready and schedulable.
func NodeReady(n *v1.Node) bool {
	if n.Spec.Unschedulable {
		return false
	}
	ready := false
	for _, c := range n.Status.Conditions {
		if c.Type == v1.NodeReady {
			ready = c.Status == v1.ConditionTrue
		}
	}
	return ready
}

func MatchNodeSelector(p *v1.Pod, n *v1.Node) bool {
	for k, v := range p.Spec.NodeSelector {
		if nv, ok := n.Labels[k]; !ok || nv != v {
			return false
		}
	}
	return true
}

func matchReq(labels map[string]string, key string, op v1.NodeSelectorOperator, vals []string) bool {
	v, has := labels[key]
	switch op {
	case v1.NodeSelectorOpIn:
		if !has {
			return false
		}
		for _, x := range vals {
			if x == v {
				return true
			}
		}
		return false
	case v1.NodeSelectorOpNotIn:
		if !has {
			return true
		}
		for _, x := range vals {
			if x == v {
				return false
			}
		}
		return true
	case v1.NodeSelectorOpExists:
		return has
	case v1.NodeSelectorOpDoesNotExist:
		return !has
	case v1.NodeSelectorOpGt, v1.NodeSelectorOpLt:
		if !has || len(vals) != 1 {
			return false
		}
		a, e1 := strconv.ParseInt(v, 10, 64)
		b, e2 := strconv.ParseInt(vals[0], 10, 64)
		if e1 != nil || e2 != nil {
			return false
		}
		if op == v1.NodeSelectorOpGt {
			return a > b
		}
		return a < b
	}
	return false
}

// MatchRequiredNodeAffinity evaluates requiredDuringSchedulingIgnoredDuringExecution.
func MatchRequiredNodeAffinity(p *v1.Pod, n *v1.Node) bool {
	if p.Spec.Affinity == nil || p.Spec.Affinity.NodeAffinity == nil ||
		p.Spec.Affinity.NodeAffinity.RequiredDuringSchedulingIgnoredDuringExecution == nil {
		return true
	}
	terms := p.Spec.Affinity.NodeAffinity.RequiredDuringSchedulingIgnoredDuringExecution.NodeSelectorTerms
	for _, t := range terms {
		if len(t.MatchExpressions) == 0 && len(t.MatchFields) == 0 {
			continue // an empty term matches nothing
		}
		ok := true
		for _, e := range t.MatchExpressions {
			if !matchReq(n.Labels, e.Key, e.Operator, e.Values) {
				ok = false
				break
			}
		}
		if ok {
			for _, e := range t.MatchFields {
				if e.Key != "metadata.name" || !matchReq(map[string]string{"metadata.name": n.Name}, e.Key, e.Operator, e.Values) {
					ok = false
					break
				}
			}
		}
		if ok {
			return true
		}
	}
	return false
}

func tolerates(t *v1.Toleration, taint *v1.Taint) bool {
	if t.Effect != "" && t.Effect != taint.Effect {
		return false
	}
	if t.Key != "" && t.Key != taint.Key {
		return false
	}
	switch t.Operator {
	case v1.TolerationOpExists:
		return true
	case "", v1.TolerationOpEqual:
		if t.Key == "" {
			return false
		}
		return t.Value == taint.Value
	}
	return false
}

// UntoleratedTaint returns the first NoSchedule/NoExecute taint the pod does not tolerate.
func UntoleratedTaint(p *v1.Pod, n *v1.Node) *v1.Taint {
	for i := range n.Spec.Taints {
		taint := &n.Spec.Taints[i]
		if taint.Effect != v1.TaintEffectNoSchedule && taint.Effect != v1.TaintEffectNoExecute {
			continue
		}
		ok := false
		for j := range p.Spec.Tolerations {
			if tolerates(&p.Spec.Tolerations[j], taint) {
				ok = true
				break
			}
		}
		if !ok {
			return taint
		}
	}
	return nil
}

// MatchLabelSelector evaluates a metav1.LabelSelector (nil selects nothing, empty selects everything).
func MatchLabelSelector(sel *metav1.LabelSelector, labels map[string]string) bool {
	if sel == nil {
		return false
	}
	for k, v := range sel.MatchLabels {
		if lv, ok := labels[k]; !ok || lv != v {
			return false
		}
	}
	for _, e := range sel.MatchExpressions {
		var op v1.NodeSelectorOperator
		switch e.Operator {
		case metav1.LabelSelectorOpIn:
			op = v1.NodeSelectorOpIn
		case metav1.LabelSelectorOpNotIn:
			op = v1.NodeSelectorOpNotIn
		case metav1.LabelSelectorOpExists:
			op = v1.NodeSelectorOpExists
		case metav1.LabelSelectorOpDoesNotExist:
			op = v1.NodeSelectorOpDoesNotExist
		}
		if !matchReq(labels, e.Key, op, e.Values) {
			return false
		}
	}
	return true
}

// TermMatchesPod: does the affinity term (owned by a pod in namespace ownerNS) select pod q?
func TermMatchesPod(term *v1.PodAffinityTerm, ownerNS string, q *v1.Pod) bool {
	nsOK := false
	if len(term.Namespaces) == 0 && term.NamespaceSelector == nil {
		nsOK = q.Namespace == ownerNS
	} else {
		for _, ns := range term.Namespaces {
			if ns == q.Namespace {
				nsOK = true
			}
		}
		if term.NamespaceSelector != nil && len(term.NamespaceSelector.MatchLabels) == 0 && len(term.NamespaceSelector.MatchExpressions) == 0 {
			nsOK = true
		}
	}
	if !nsOK {
		return false
	}
	return MatchLabelSelector(term.LabelSelector, q.Labels)
}

func RequiredAntiAffinity(p *v1.Pod) []v1.PodAffinityTerm {
	if p.Spec.Affinity == nil || p.Spec.Affinity.PodAntiAffinity == nil {
		return nil
	}
	return p.Spec.Affinity.PodAntiAffinity.RequiredDuringSchedulingIgnoredDuringExecution
}

func RequiredAffinity(p *v1.Pod) []v1.PodAffinityTerm {
	if p.Spec.Affinity == nil || p.Spec.Affinity.PodAffinity == nil {
		return nil
	}
	return p.Spec.Affinity.PodAffinity.RequiredDuringSchedulingIgnoredDuringExecution
}

// HasHardConstraint reports whether the pod declares any hard placement constraint.
func HasHardConstraint(p *v1.Pod) bool {
	if len(p.Spec.NodeSelector) > 0 || len(RequiredAffinity(p)) > 0 || len(RequiredAntiAffinity(p)) > 0 {
		return true
	}
	return p.Spec.Affinity != nil && p.Spec.Affinity.NodeAffinity != nil &&
		p.Spec.Affinity.NodeAffinity.RequiredDuringSchedulingIgnoredDuringExecution != nil
}

// StaticFeasible: node-local hard constraints (no inter-pod terms).
func StaticFeasible(p *v1.Pod, n *v1.Node) (bool, string) {
	if !NodeReady(n) {
		return false, "node not ready or unschedulable"
	}
	if !MatchNodeSelector(p, n) {
		return false, "nodeSelector does not match"
	}
	if !MatchRequiredNodeAffinity(p, n) {
		return false, "required node affinity does not match"
	}
	if t := UntoleratedTaint(p, n); t != nil {
		return false, "untolerated taint " + t.Key + ":" + string(t.Effect)
	}
	return true, ""
}

// Req is the effective request of a pod as Kubernetes defines it:
// max(sum of containers, each init container) + overhead. Values: milli-units for cpu, plain
// units (bytes / count) for everything else.
type Req map[v1.ResourceName]int64

func qty(name v1.ResourceName, q resource.Quantity) int64 {
	if name == v1.ResourceCPU {
		return q.MilliValue()
	}
	return q.Value()
}

func PodRequest(p *v1.Pod) Req {
	sum := Req{}
	for _, c := range p.Spec.Containers {
		for k, q := range c.Resources.Requests {
			sum[k] += qty(k, q)
		}
	}
	for _, c := range p.Spec.InitContainers {
		for k, q := range c.Resources.Requests {
			if v := qty(k, q); v > sum[k] {
				sum[k] = v
			}
		}
	}
	for k, q := range p.Spec.Overhead {
		sum[k] += qty(k, q)
	}
	sum[v1.ResourcePods] = 1
	return sum
}

func Allocatable(n *v1.Node) Req {
	out := Req{}
	for k, q := range n.Status.Allocatable {
		out[k] = qty(k, q)
	}
	return out
}

func IsMig(name v1.ResourceName) bool { return strings.HasPrefix(string(name), "nvidia.com/mig-") }

// GPUKind classifies a pod's GPU request as the documentation defines it.
type GPUReqInfo struct {
	Whole    int64   // nvidia.com/gpu count (0 if sharing)
	Fraction float64 // gpu-fraction annotation (0 if none)
	Memory   int64   // gpu-memory annotation in MiB (0 if none)
	Devices  int64   // number of fractional devices (>=1 when sharing)
	Mig      map[v1.ResourceName]int64
}

func (g GPUReqInfo) Shared() bool { return g.Fraction > 0 || g.Memory > 0 }

func GPURequest(p *v1.Pod) GPUReqInfo {
	g := GPUReqInfo{Mig: map[v1.ResourceName]int64{}}
	req := PodRequest(p)
	for k, v := range req {
		if IsMig(k) {
			g.Mig[k] = v
		}
	}
	if f, err := strconv.ParseFloat(p.Annotations["gpu-fraction"], 64); err == nil && f > 0 && f <= 1 {
		g.Fraction = f
	}
	if m, err := strconv.ParseInt(p.Annotations["gpu-memory"], 10, 64); err == nil && m > 0 && g.Fraction == 0 {
		g.Memory = m
	}
	if g.Shared() {
		g.Devices = 1
		if d, err := strconv.ParseInt(p.Annotations["gpu-fraction-num-devices"], 10, 64); err == nil && d >= 1 {
			g.Devices = d
		}
		return g
	}
	g.Whole = req["nvidia.com/gpu"]
	return g
}

// NodeGPUMemory is the per-device memory of a node as the scheduler defines it: the
// nvidia.com/gpu.memory label floored to a multiple of 100, default 100.
func NodeGPUMemory(n *v1.Node) int64 {
	v, err := strconv.ParseInt(n.Labels["nvidia.com/gpu.memory"], 10, 64)
	if err != nil {
		return 100
	}
	if v >= 1024*1024 { // label given in bytes instead of MiB
		v = v / (1024 * 1024)
	}
	return v - v%100
}

// PodGPUGroups returns the GPU groups a pod carries in either label form.
func PodGPUGroups(p *v1.Pod) []string {
	var out []string
	if g, ok := p.Labels["runai-gpu-group"]; ok && g != "" {
		out = append(out, g)
	}
	for k, v := range p.Labels {
		if strings.HasPrefix(k, "runai-gpu-group/") {
			out = append(out, v)
		}
	}
	return out
}
