package oracle

// Offline clause "claimed-device-conservation" (reported under C01): devices handed out through Dynamic Resource
// Allocation are a node resource like any other. Over the API store before the cycle and the successful Bind
// calls of the cycle (the allocation each Bind carries is read from the BindRequest object the call created, i.e.
// from the store after the cycle; the call's own copy is the fallback):
//   - no device (driver/pool/device) is allocated to two different claims: not to a claim that is allocated in the
//     store, not to the claim of a BindRequest that is still in flight, not to another claim bound in this cycle;
//   - every device a Bind allocates belongs to a ResourceSlice of the selected node;
//   - a claim that is already allocated keeps its allocation, and its pod is bound to the node the devices are on.
// Everything is recomputed from ResourceSlices, ResourceClaims, BindRequests and pods; nothing is read from the
// scheduler's DRA manager.

import (
	"sort"

	v1 "k8s.io/api/core/v1"
	resourceapi "k8s.io/api/resource/v1"

	"verif/harness/internal/run"
	"verif/harness/internal/sched"
	"verif/harness/internal/spec"
)

func claimNameOf(p *v1.Pod, podClaim string) string {
	for i := range p.Spec.ResourceClaims {
		pc := &p.Spec.ResourceClaims[i]
		if pc.Name != podClaim {
			continue
		}
		if pc.ResourceClaimName != nil {
			return *pc.ResourceClaimName
		}
		for _, s := range p.Status.ResourceClaimStatuses {
			if s.Name == pc.Name && s.ResourceClaimName != nil {
				return *s.ResourceClaimName
			}
		}
	}
	return ""
}

// CheckClaimedDevices is the claimed-device-conservation clause.
func CheckClaimedDevices(m *Model, events []sched.Event, after *spec.Objects, cycle int, st *Stats) []run.Violation {
	if len(m.O.ResourceClaims) == 0 && len(m.O.ResourceSlices) == 0 {
		return nil
	}
	var out []run.Violation
	devNode := map[string]string{}
	for _, s := range m.O.ResourceSlices {
		n := ""
		if s.Spec.NodeName != nil {
			n = *s.Spec.NodeName
		}
		for _, d := range s.Spec.Devices {
			devNode[s.Spec.Driver+"/"+s.Spec.Pool.Name+"/"+d.Name] = n
		}
	}
	claims := map[string]*resourceapi.ResourceClaim{}
	owner := map[string]string{} // device -> claim (ns/name) holding it
	how := map[string]string{}   // device -> where that ownership comes from
	for _, c := range m.O.ResourceClaims {
		k := c.Namespace + "/" + c.Name
		claims[k] = c
		for _, d := range sched.DeviceIDs(c.Status.Allocation) {
			if o, dup := owner[d]; dup && o != k {
				out = append(out, Viol("C01", "claimed-device-conservation", "store-device-in-two-claims", cycle,
					"store before the cycle: device %s is allocated to claims %s and %s", d, o, k))
			}
			owner[d], how[d] = k, "allocated in the store"
		}
	}
	// in-flight BindRequests of earlier cycles
	brKeys := make([]string, 0, len(m.BRs))
	for k := range m.BRs {
		brKeys = append(brKeys, k)
	}
	sort.Strings(brKeys)
	for _, bk := range brKeys {
		br := m.BRs[bk]
		p, ok := m.Pods[bk]
		if !ok || p.DeletionTimestamp != nil {
			continue
		}
		for _, ra := range br.Spec.ResourceClaimAllocations {
			cn := claimNameOf(p, ra.Name)
			if cn == "" {
				continue
			}
			k := p.Namespace + "/" + cn
			if c := claims[k]; c != nil && c.Status.Allocation != nil {
				continue // the store's allocation rules
			}
			for _, d := range sched.DeviceIDs(ra.Allocation) {
				if _, dup := owner[d]; !dup {
					owner[d], how[d] = k, "allocation of the in-flight BindRequest "+br.Name
				}
			}
		}
	}
	afterBR := map[string][]string{} // ns/pod/podClaim -> devices in the created BindRequest
	hasAfterBR := map[string]bool{}
	if after != nil {
		for _, br := range after.BindRequests {
			k := br.Namespace + "/" + br.Spec.PodName
			hasAfterBR[k] = true
			for _, ra := range br.Spec.ResourceClaimAllocations {
				afterBR[k+"/"+ra.Name] = sched.DeviceIDs(ra.Allocation)
			}
		}
	}
	for i := range events {
		e := &events[i]
		if e.Kind != "bind" || !OK(e) || len(e.Claims) == 0 {
			continue
		}
		p, ok := m.Pods[e.Key()]
		if !ok {
			continue
		}
		st.Inc("claim_binds_checked")
		for _, ca := range e.Claims {
			devs := ca.Devices
			if hasAfterBR[e.Key()] {
				if d, ok := afterBR[e.Key()+"/"+ca.PodClaim]; ok {
					devs = d
					st.Inc("claim_allocations_read_from_created_bindrequest")
				}
			}
			cn := claimNameOf(p, ca.PodClaim)
			k := p.Namespace + "/" + cn
			if len(devs) == 0 {
				// the binder rejects such a request ("empty status for claim"): nothing is handed out
				st.Inc("claim_binds_without_allocation")
				continue
			}
			st.Inc("claim_allocations_checked")
			if c := claims[k]; c != nil && c.Status.Allocation != nil {
				have := sched.DeviceIDs(c.Status.Allocation)
				if !sameStrings(have, devs) {
					out = append(out, Viol("C01", "claimed-device-conservation", "allocated-claim-reallocated", cycle,
						"bind of %s to %s carries devices %v for claim %s which is already allocated to %v", e.Key(), e.Node, devs, k, have))
				}
				for _, d := range have {
					if n, ok := devNode[d]; ok && n != e.Node {
						out = append(out, Viol("C01", "claimed-device-conservation", "pod-bound-away-from-its-claim", cycle,
							"pod %s is bound to %s but its claim %s is already allocated to device %s of node %s", e.Key(), e.Node, k, d, n))
					}
				}
				st.Inc("binds_onto_already_allocated_claim")
			}
			for _, d := range devs {
				st.Inc("claim_devices_checked")
				n, known := devNode[d]
				switch {
				case !known:
					out = append(out, Viol("C01", "claimed-device-conservation", "unknown-device", cycle,
						"bind of %s to %s allocates device %s for claim %s which is in no ResourceSlice", e.Key(), e.Node, d, k))
				case n != e.Node:
					out = append(out, Viol("C01", "claimed-device-conservation", "device-of-other-node", cycle,
						"bind of %s to %s allocates device %s for claim %s, a device of node %s", e.Key(), e.Node, d, k, n))
				}
				if o, taken := owner[d]; taken && o != k {
					out = append(out, Viol("C01", "claimed-device-conservation", "device-in-two-claims", cycle,
						"bind of %s to %s allocates device %s for claim %s, but the device belongs to claim %s (%s)", e.Key(), e.Node, d, k, o, how[d]))
				} else if !taken {
					owner[d], how[d] = k, "bind of "+e.Key()+" earlier in this cycle"
				}
			}
		}
	}
	return out
}
