package oracle

import (
	"fmt"
	"sort"

	v1 "k8s.io/api/core/v1"

	kaiv1alpha1 "github.com/NVIDIA/KAI-scheduler/pkg/apis/kai/v1alpha1"
	enginev2alpha2 "github.com/NVIDIA/KAI-scheduler/pkg/apis/scheduling/v2alpha2"

	"verif/harness/internal/k8sm"
	"verif/harness/internal/run"
	"verif/harness/internal/sched"
)

func domainVal(n *v1.Node, key string) (string, bool) {
	v, ok := n.Labels[key]
	return v, ok
}

// CheckC04: hard placement constraints of every bind and nomination of one cycle.
func CheckC04(m *Model, events []sched.Event, cycle int, st *Stats) []run.Violation {
	var out []run.Violation
	evicted := map[string]bool{}
	for i := range events {
		if e := &events[i]; e.Kind == "evict" && OK(e) {
			evicted[e.Key()] = true
		}
	}
	type placed struct {
		pod  *v1.Pod
		node *v1.Node
	}
	// definitely present pods at cycle start
	var present []placed
	var dontCare []placed
	for _, p := range m.O.Pods {
		nn := m.NodeOf(p)
		if nn == "" {
			continue
		}
		node, ok := m.AllNodes[nn]
		if !ok {
			continue
		}
		if p.DeletionTimestamp != nil || evicted[p.Namespace+"/"+p.Name] {
			dontCare = append(dontCare, placed{p, node})
		} else {
			present = append(present, placed{p, node})
		}
	}
	var cycPlaced []placed // bound or nominated in this cycle (any order), for affinity leniency
	for i := range events {
		e := &events[i]
		if (e.Kind == "bind" || e.Kind == "pipeline") && OK(e) {
			if p, ok := m.Pods[e.Key()]; ok {
				if n, ok := m.AllNodes[e.Node]; ok {
					cycPlaced = append(cycPlaced, placed{p, n})
				}
			}
		}
	}
	var boundEarlier []placed
	for i := range events {
		e := &events[i]
		if !(e.Kind == "bind" || e.Kind == "pipeline") || !OK(e) {
			continue
		}
		p, ok := m.Pods[e.Key()]
		if !ok {
			continue
		}
		st.Inc("placements_checked")
		node, inPool := m.Nodes[e.Node]
		if !inPool {
			if _, exists := m.AllNodes[e.Node]; exists {
				out = append(out, Viol("C04", "node-outside-pool", "", cycle, "%s of pod %s to node %s which is outside the scheduler's node pool (%s=%q)", e.Kind, e.Key(), e.Node, m.Cfg.NodePoolKey, m.Cfg.NodePoolValue))
			} else {
				out = append(out, Viol("C04", "unknown-node", "", cycle, "%s of pod %s to unknown node %s", e.Kind, e.Key(), e.Node))
			}
			continue
		}
		if ok, why := k8sm.StaticFeasible(p, node); !ok {
			out = append(out, Viol("C04", "static-constraint", why2sig(why), cycle, "%s of pod %s to node %s: %s", e.Kind, e.Key(), e.Node, why))
		}
		// how selective are this pod's constraints
		excl := 0
		for _, n2 := range m.Nodes {
			if ok, _ := k8sm.StaticFeasible(p, n2); !ok {
				excl++
			}
		}
		if excl > 0 && k8sm.HasHardConstraint(p) || (excl > 0 && len(p.Spec.Tolerations) > 0) {
			st.Inc("placements_with_excluding_constraints")
			st.NonTrivial = true
		}
		// anti-affinity of p against definitely present pods and pods bound earlier in this cycle
		defs := append(append([]placed{}, present...), boundEarlier...)
		for ti := range k8sm.RequiredAntiAffinity(p) {
			term := &k8sm.RequiredAntiAffinity(p)[ti]
			dv, has := domainVal(node, term.TopologyKey)
			if !has {
				continue
			}
			st.Inc("anti_affinity_terms_checked")
			st.NonTrivial = true
			for _, q := range defs {
				if q.pod.UID == p.UID {
					continue
				}
				if _, inPool := m.Nodes[q.node.Name]; !inPool {
					continue
				}
				if qv, ok := domainVal(q.node, term.TopologyKey); ok && qv == dv && k8sm.TermMatchesPod(term, p.Namespace, q.pod) {
					out = append(out, Viol("C04", "own-anti-affinity", "", cycle, "%s of pod %s to node %s violates its required anti-affinity (%s) against pod %s on node %s", e.Kind, e.Key(), e.Node, term.TopologyKey, q.pod.Name, q.node.Name))
				}
			}
		}
		// anti-affinity of present pods against p
		for _, q := range defs {
			if q.pod.UID == p.UID {
				continue
			}
			if _, inPool := m.Nodes[q.node.Name]; !inPool {
				continue
			}
			for ti := range k8sm.RequiredAntiAffinity(q.pod) {
				term := &k8sm.RequiredAntiAffinity(q.pod)[ti]
				dv, has := domainVal(node, term.TopologyKey)
				qv, has2 := domainVal(q.node, term.TopologyKey)
				if has && has2 && dv == qv && k8sm.TermMatchesPod(term, q.pod.Namespace, p) {
					st.Inc("existing_anti_affinity_hits")
					out = append(out, Viol("C04", "existing-pod-anti-affinity", "", cycle, "%s of pod %s to node %s violates the required anti-affinity (%s) of pod %s on node %s", e.Kind, e.Key(), e.Node, term.TopologyKey, q.pod.Name, q.node.Name))
				}
			}
		}
		// required affinity of p
		for ti := range k8sm.RequiredAffinity(p) {
			term := &k8sm.RequiredAffinity(p)[ti]
			st.Inc("affinity_terms_checked")
			st.NonTrivial = true
			dv, has := domainVal(node, term.TopologyKey)
			found := false
			if has {
				for _, set := range [][]placed{present, dontCare, cycPlaced} {
					for _, q := range set {
						if q.pod.UID == p.UID {
							continue
						}
						if qv, ok := domainVal(q.node, term.TopologyKey); ok && qv == dv && k8sm.TermMatchesPod(term, p.Namespace, q.pod) {
							found = true
						}
					}
				}
			}
			if found {
				continue
			}
			// first-pod exception under the most favourable reading
			anyDefinite := false
			for _, q := range present {
				// the upstream filter counts matching pods only on nodes that carry the topology key
				if _, keyed := domainVal(q.node, term.TopologyKey); keyed && q.pod.UID != p.UID && k8sm.TermMatchesPod(term, p.Namespace, q.pod) {
					anyDefinite = true
				}
			}
			if has && !anyDefinite && k8sm.TermMatchesPod(term, p.Namespace, p) {
				continue
			}
			out = append(out, Viol("C04", "own-affinity", "", cycle, "%s of pod %s to node %s: required pod affinity (%s) has no matching pod in the node's domain", e.Kind, e.Key(), e.Node, term.TopologyKey))
		}
		if e.Kind == "bind" {
			boundEarlier = append(boundEarlier, placed{p, node})
		}
	}
	out = append(out, checkTopology(m, events, evicted, cycle, st)...)
	return out
}

func why2sig(why string) string {
	if len(why) > 24 {
		return why[:24]
	}
	return why
}

// checkTopology verifies required topology levels of groups and (nested) sub-groups.
func checkTopology(m *Model, events []sched.Event, evicted map[string]bool, cycle int, st *Stats) []run.Violation {
	var out []run.Violation
	topo := map[string]*kaiv1alpha1.Topology{}
	for _, t := range m.O.Topologies {
		topo[t.Name] = t
	}
	// final placement per pod in this cycle
	final := map[string]string{}
	timesPlaced := map[string]int{} // successful binds + nominations of a pod in this cycle
	finalAction := map[string]string{}
	groupsTouched := map[string]bool{}
	// a pod whose eviction was decided in this cycle but whose Evict call failed: the decision that placed the rest of
	// its workload counted on it leaving. The property quantifies over cluster states, not over failing API calls, so
	// such a pod is not a reference point for "already active pods"
	evictFailed := map[string]bool{}
	for i := range events {
		if e := &events[i]; e.Kind == "evict" && !OK(e) {
			evictFailed[e.Key()] = true
		}
	}
	for i := range events {
		e := &events[i]
		if (e.Kind == "bind" || e.Kind == "pipeline") && OK(e) {
			final[e.Key()] = e.Node
			finalAction[e.Key()] = e.Action
			timesPlaced[e.Key()]++
			groupsTouched[e.Group] = true
		}
	}
	gnames := make([]string, 0, len(groupsTouched))
	for g := range groupsTouched {
		gnames = append(gnames, g)
	}
	sort.Strings(gnames)
	for _, gname := range gnames {
		pg, ok := m.PodGroups[gname]
		if !ok {
			continue
		}
		type cons struct {
			name   string
			tc     enginev2alpha2.TopologyConstraint
			leaves map[string]bool // nil = all pods
		}
		var constraints []cons
		if pg.Spec.TopologyConstraint.Topology != "" && pg.Spec.TopologyConstraint.RequiredTopologyLevel != "" {
			constraints = append(constraints, cons{"<group>", pg.Spec.TopologyConstraint, nil})
		}
		children := map[string][]string{}
		for _, sg := range pg.Spec.SubGroups {
			if sg.Parent != nil {
				children[*sg.Parent] = append(children[*sg.Parent], sg.Name)
			}
		}
		var leavesOf func(name string) map[string]bool
		leavesOf = func(name string) map[string]bool {
			out := map[string]bool{}
			if len(children[name]) == 0 {
				out[name] = true
				return out
			}
			for _, c := range children[name] {
				for l := range leavesOf(c) {
					out[l] = true
				}
			}
			return out
		}
		for _, sg := range pg.Spec.SubGroups {
			if sg.TopologyConstraint != nil && sg.TopologyConstraint.Topology != "" && sg.TopologyConstraint.RequiredTopologyLevel != "" {
				constraints = append(constraints, cons{sg.Name, *sg.TopologyConstraint, leavesOf(sg.Name)})
			}
		}
		for _, c := range constraints {
			var placedNodes, activeNodes []string
			var placedPods, placedActions []string
			for _, p := range m.O.Pods {
				if p.Annotations["pod-group-name"] != gname {
					continue
				}
				if c.leaves != nil && !c.leaves[podSetOf(p)] {
					continue
				}
				k := p.Namespace + "/" + p.Name
				if n, ok := final[k]; ok {
					placedNodes = append(placedNodes, n)
					placedPods = append(placedPods, p.Name)
					placedActions = append(placedActions, finalAction[k])
				} else if m.Active(p) && !evicted[k] {
					if evictFailed[k] {
						st.Inc("topology_active_pod_with_failed_eviction_not_a_reference")
						continue
					}
					activeNodes = append(activeNodes, m.NodeOf(p))
				}
			}
			if len(placedNodes) == 0 {
				continue
			}
			st.Inc("topology_constraints_checked")
			st.NonTrivial = true
			t, ok := topo[c.tc.Topology]
			levelIdx := -1
			if ok {
				for i, l := range t.Spec.Levels {
					if l.NodeLabel == c.tc.RequiredTopologyLevel {
						levelIdx = i
					}
				}
			}
			if !ok || levelIdx < 0 {
				out = append(out, Viol("C04", "placed-with-missing-topology", "", cycle,
					"pod group %s (%s) requires level %q of topology %q which does not exist, but pods %v were placed on %v", gname, c.name, c.tc.RequiredTopologyLevel, c.tc.Topology, placedPods, placedNodes))
				continue
			}
			domainOf := func(nodeName string) (string, bool) {
				n, ok := m.AllNodes[nodeName]
				if !ok {
					return "", false
				}
				d := ""
				for i := 0; i <= levelIdx; i++ {
					v, ok := n.Labels[t.Spec.Levels[i].NodeLabel]
					if !ok {
						return "", false
					}
					d += v + "|"
				}
				return d, true
			}
			// do the active pods pin a domain?
			pinned, pinnedOK := "", false
			if len(activeNodes) > 0 {
				pinnedOK = true
				for i, n := range activeNodes {
					d, ok := domainOf(n)
					if !ok || (i > 0 && d != pinned) {
						pinnedOK = false
						break
					}
					pinned = d
				}
				if pinnedOK {
					st.Inc("topology_with_pinned_domain")
				}
			}
			want := pinned
			for i, n := range placedNodes {
				d, ok := domainOf(n)
				if !ok {
					out = append(out, Viol("C04", "topology-node-missing-labels", "", cycle,
						"pod group %s (%s): pod %s placed on node %s which lacks labels of topology %q down to level %q", gname, c.name, placedPods[i], n, c.tc.Topology, c.tc.RequiredTopologyLevel))
					continue
				}
				if want == "" && !pinnedOK {
					want = d
				}
				if d != want {
					// classify: a solver action (reclaim/preempt/consolidation) extending a workload whose other pods are
					// already active or were placed by another action, vs. a split inside one decision
					sameAction := 0
					for j := range placedActions {
						if j != i && placedActions[j] == placedActions[i] {
							sameAction++
						}
					}
					sig := "within-one-decision:" + placedActions[i]
					if placedActions[i] != "allocate" && sameAction == 0 {
						sig = "solver-extends-placed-workload:" + placedActions[i]
					}
					moved := false
					for _, pp := range m.O.Pods {
						if pp.Name == placedPods[i] && pp.Annotations["pod-group-name"] == gname && timesPlaced[pp.Namespace+"/"+pp.Name] > 1 {
							moved = true
						}
					}
					if moved {
						// the pod had already been nominated in this cycle and a later statement evicted and re-nominated it alone
						sig = "pod-renominated-by-later-statement:" + placedActions[i]
					}
					out = append(out, Viol("C04", "topology-domain-split", sig, cycle,
						"pod group %s (%s) requires one %q domain: pod %s placed by %s on node %s in domain %s but the set (placed %v on %v by %v, active on %v) is in domain %s", gname, c.name, c.tc.RequiredTopologyLevel, placedPods[i], placedActions[i], n, d, placedPods, placedNodes, placedActions, activeNodes, want))
					break
				}
			}
		}
	}
	return out
}

var _ = fmt.Sprintf
