// Package oracle holds the offline checkers over (API store before a cycle, ordered Cache-boundary
// events of the cycle). They recompute everything from API objects with the harness' own code and
// never read scheduler bookkeeping.
package oracle

import (
	"fmt"
	"sort"
	"strings"

	v1 "k8s.io/api/core/v1"

	schedulingv1alpha2 "github.com/NVIDIA/KAI-scheduler/pkg/apis/scheduling/v1alpha2"
	enginev2 "github.com/NVIDIA/KAI-scheduler/pkg/apis/scheduling/v2"
	enginev2alpha2 "github.com/NVIDIA/KAI-scheduler/pkg/apis/scheduling/v2alpha2"

	"verif/harness/internal/k8sm"
	"verif/harness/internal/run"
	"verif/harness/internal/sched"
	"verif/harness/internal/spec"
)

// Model is the harness' view of the API store at the start of a cycle.
type Model struct {
	Cfg       *spec.SchedConfig
	O         *spec.Objects
	Nodes     map[string]*v1.Node // nodes visible to the scheduler (node pool)
	AllNodes  map[string]*v1.Node
	Pods      map[string]*v1.Pod // ns/name
	PodGroups map[string]*enginev2alpha2.PodGroup
	Queues    map[string]*enginev2.Queue
	BRs       map[string]*schedulingv1alpha2.BindRequest // ns/podName -> live (not terminally failed) request
	Prio      map[string]int32
	DefPrio   int32
	// HandoffResidue (set by the C12 check, where a binder can die in the middle of an attempt): what an earlier,
	// terminated attempt left behind is not something the scheduler handed out. An unbound pod with a live BindRequest
	// sits in the groups of that request only (not also in the group a dead attempt labelled it with), and a
	// reservation pod whose group has no member is residue waiting for the binder's Sync (judged by C11 / C17), not a
	// device in use.
	HandoffResidue bool
}

func BRTerminallyFailed(br *schedulingv1alpha2.BindRequest) bool {
	if br.Status.Phase != schedulingv1alpha2.BindRequestPhaseFailed {
		return false
	}
	return br.Spec.BackoffLimit == nil || br.Status.FailedAttempts >= *br.Spec.BackoffLimit
}

func InPool(cfg *spec.SchedConfig, labels map[string]string) bool {
	if cfg.NodePoolKey == "" {
		return true
	}
	v, has := labels[cfg.NodePoolKey]
	if cfg.NodePoolValue == "" {
		return !has
	}
	return has && v == cfg.NodePoolValue
}

func NewModel(cfg *spec.SchedConfig, o *spec.Objects) *Model {
	m := &Model{Cfg: cfg, O: o, Nodes: map[string]*v1.Node{}, AllNodes: map[string]*v1.Node{}, Pods: map[string]*v1.Pod{},
		PodGroups: map[string]*enginev2alpha2.PodGroup{}, Queues: map[string]*enginev2.Queue{}, BRs: map[string]*schedulingv1alpha2.BindRequest{},
		Prio: map[string]int32{}, DefPrio: 50}
	for _, n := range o.Nodes {
		m.AllNodes[n.Name] = n
		if InPool(cfg, n.Labels) {
			m.Nodes[n.Name] = n
		}
	}
	for _, p := range o.Pods {
		m.Pods[p.Namespace+"/"+p.Name] = p
	}
	for _, pg := range o.PodGroups {
		m.PodGroups[pg.Name] = pg
	}
	for _, q := range o.Queues {
		if !cfg.FullHierarchyFairness {
			// project-level fairness (--full-hierarchy-fairness=false): the scheduler drops top-level queues and
			// re-parents every other queue to one synthetic unlimited "default" queue; model the same flat tree.
			if q.Spec.ParentQueue == "" {
				continue
			}
			q = q.DeepCopy()
			q.Spec.ParentQueue = ""
		}
		m.Queues[q.Name] = q
	}
	for _, br := range o.BindRequests {
		if !BRTerminallyFailed(br) {
			m.BRs[br.Namespace+"/"+br.Spec.PodName] = br
		}
	}
	for _, pc := range o.PriorityClasses {
		m.Prio[pc.Name] = pc.Value
		if pc.GlobalDefault {
			m.DefPrio = pc.Value
		}
	}
	return m
}

func alive(p *v1.Pod) bool { return p.Status.Phase == v1.PodPending || p.Status.Phase == v1.PodRunning }

// NodeOf returns the node a pod occupies ("" if none): spec.nodeName, or the node selected by a live BindRequest.
func (m *Model) NodeOf(p *v1.Pod) string {
	if !alive(p) {
		return ""
	}
	if p.Spec.NodeName != "" {
		return p.Spec.NodeName
	}
	if br, ok := m.BRs[p.Namespace+"/"+p.Name]; ok && p.DeletionTimestamp == nil {
		return br.Spec.SelectedNode
	}
	return ""
}

// Active: bound/binding/running and not terminating.
func (m *Model) Active(p *v1.Pod) bool { return p.DeletionTimestamp == nil && m.NodeOf(p) != "" }

// Occupying returns the pods occupying node n, sorted.
func (m *Model) Occupying(n string) []*v1.Pod {
	var out []*v1.Pod
	for _, p := range m.O.Pods {
		if m.NodeOf(p) == n {
			out = append(out, p)
		}
	}
	return out
}

// GroupsOf returns the GPU groups a pod is attached to (labels, or its live BindRequest).
func (m *Model) GroupsOf(p *v1.Pod) []string {
	if br, ok := m.BRs[p.Namespace+"/"+p.Name]; ok && p.Spec.NodeName == "" && p.DeletionTimestamp == nil && len(br.Spec.SelectedGPUGroups) > 0 {
		// not bound yet: the request says where the pod is going; group labels on the pod may be left-overs of an
		// earlier attempt that died half-way (possibly on another node)
		gs := append([]string(nil), br.Spec.SelectedGPUGroups...)
		sort.Strings(gs)
		return gs
	}
	gs := k8sm.PodGPUGroups(p)
	if len(gs) == 0 {
		if br, ok := m.BRs[p.Namespace+"/"+p.Name]; ok && p.Spec.NodeName == "" {
			gs = append(gs, br.Spec.SelectedGPUGroups...)
		} else if ok && len(br.Spec.SelectedGPUGroups) > 0 {
			gs = append(gs, br.Spec.SelectedGPUGroups...)
		}
	}
	sort.Strings(gs)
	return gs
}

func IsReservation(p *v1.Pod) bool {
	return p.Namespace == spec.ReservationNS && p.Labels["app"] == spec.ReservationApp
}

func (m *Model) PodGroupOf(p *v1.Pod) *enginev2alpha2.PodGroup {
	return m.PodGroups[p.Annotations["pod-group-name"]]
}

func (m *Model) Priority(pg *enginev2alpha2.PodGroup) int32 {
	if v, ok := m.Prio[pg.Spec.PriorityClassName]; ok {
		return v
	}
	return m.DefPrio
}

func (m *Model) Preemptible(pg *enginev2alpha2.PodGroup) bool {
	switch pg.Spec.Preemptibility {
	case enginev2alpha2.Preemptible:
		return true
	case enginev2alpha2.NonPreemptible:
		return false
	}
	return m.Priority(pg) < 100
}

// QueuePath returns the queue and its ancestors, leaf first. Stops at missing parents and cycles.
func (m *Model) QueuePath(leaf string) []*enginev2.Queue {
	var out []*enginev2.Queue
	seen := map[string]bool{}
	for cur := leaf; cur != "" && !seen[cur]; {
		q, ok := m.Queues[cur]
		if !ok {
			break
		}
		seen[cur] = true
		out = append(out, q)
		cur = q.Spec.ParentQueue
	}
	return out
}

// Viol builds a violation.
func Viol(prop, oracle, sig string, cycle int, f string, a ...any) run.Violation {
	return run.Violation{Property: prop, Oracle: oracle, Sig: oracle + ":" + sig, Cycle: cycle, Msg: fmt.Sprintf(f, a...)}
}

// OK reports whether an event is a successful call.
func OK(e *sched.Event) bool { return e.Err == "" }

func fmtReq(r k8sm.Req) string {
	ks := make([]string, 0, len(r))
	for k := range r {
		ks = append(ks, string(k))
	}
	sort.Strings(ks)
	var sb strings.Builder
	for _, k := range ks {
		fmt.Fprintf(&sb, "%s=%d ", k, r[v1.ResourceName(k)])
	}
	return sb.String()
}
