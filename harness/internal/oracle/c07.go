package oracle

import (
	"fmt"
	"math"
	"sort"
	"strings"

	v1 "k8s.io/api/core/v1"

	"verif/harness/internal/k8sm"
	"verif/harness/internal/run"
	"verif/harness/internal/sched"
)

// C07Input is what the scheduler itself computed at session open (read through the proportion hook): the fair
// share per queue (its correctness is C09's business) and the scheduler's own allocation per queue, used only to
// decide whether the harness' allocation model and the scheduler agree on the starting point.
type C07Input struct {
	Fair       map[string]Res
	SchedAlloc map[string]Res
}

func within(a, bound float64) bool { // bound < 0 = unlimited
	return bound < 0 || a <= bound+1e-6+1e-9*math.Abs(bound)
}

func withinAll(a, bound Res) bool {
	return within(a.GPU, bound.GPU) && within(a.CPU, bound.CPU) && within(a.Mem, bound.Mem)
}

func capBy(quota, limit float64) float64 {
	if limit >= 0 && (quota < 0 || quota > limit) {
		return limit
	}
	return quota
}

func satRatio(alloc, fair float64) float64 {
	if fair == 0 {
		if alloc > 1e-9 {
			return math.Inf(1)
		}
		return 0
	}
	if fair < 0 {
		return 0
	}
	return alloc / fair
}

func isInt(x float64) bool { return math.Abs(x-math.Round(x)) < 1e-12 }

// CheckC07 judges every committed reclaim decision (one statement commit of the reclaim action) of a cycle.
func CheckC07(m *Model, events []sched.Event, cycle int, st *Stats, in *C07Input) []run.Violation {
	var out []run.Violation
	if in == nil || in.Fair == nil {
		st.Inc("cycles_without_fair_share")
		return nil
	}
	u := NewQueueUsage(m)
	// starting point agreed?
	agree := map[string]bool{}
	for q := range m.Queues {
		a, s := u.Alloc[q], in.SchedAlloc[q]
		agree[q] = math.Abs(a.GPU-s.GPU) < 1e-6 && math.Abs(a.CPU-s.CPU) < 1e-3 && math.Abs(a.Mem-s.Mem) < 1
	}
	apply := func(uu *QueueUsage, e *sched.Event) {
		p, ok := m.Pods[e.Key()]
		if !ok || !OK(e) {
			return
		}
		switch e.Kind {
		case "evict":
			uu.Remove(p)
		case "bind", "pipeline":
			uu.Place(p, m.AllNodes[e.Node])
		}
	}
	i := 0
	for i < len(events) {
		e := &events[i]
		if e.Action != "reclaim" || e.Stmt == 0 {
			apply(u, e)
			i++
			continue
		}
		j := i
		for j < len(events) && events[j].Action == "reclaim" && events[j].Stmt == e.Stmt {
			j++
		}
		dec := events[i:j]
		before := u.Clone()
		for k := range dec {
			apply(u, &dec[k])
		}
		out = append(out, judgeReclaim(m, before, u, dec, cycle, st, in, agree)...)
		i = j
	}
	return out
}

func resOf(u *QueueUsage, key string) Res { return u.counted[key] }

// judgeReclaim judges one decision. A victim that the same statement re-nominates elsewhere ("moved") is read as
// taking nothing from its queue. Without consolidating reclaim the scheduler itself counts moved victims as taken
// (and the pod is in fact killed and its nomination forgotten), so there a report must hold under both readings.
func judgeReclaim(m *Model, before, after *QueueUsage, dec []sched.Event, cycle int, st *Stats, in *C07Input, agree map[string]bool) []run.Violation {
	a := judgeReclaimReading(m, before, after, dec, cycle, st, in, agree, false)
	if len(a) == 0 || m.Cfg.AllowConsolidatingReclaim {
		return a
	}
	afterB := after.Clone()
	placed := map[string]bool{}
	for k := range dec {
		if e := &dec[k]; OK(e) && (e.Kind == "bind" || e.Kind == "pipeline") {
			placed[e.Key()] = true
		}
	}
	for k := range dec {
		if e := &dec[k]; OK(e) && e.Kind == "evict" && placed[e.Key()] {
			if p := m.Pods[e.Key()]; p != nil {
				afterB.Remove(p)
			}
		}
	}
	b := judgeReclaimReading(m, before, afterB, dec, cycle, NewStats(), in, agree, true)
	sigs := map[string]bool{}
	for _, v := range b {
		sigs[v.Sig] = true
	}
	var out []run.Violation
	for _, v := range a {
		if sigs[v.Sig] {
			out = append(out, v)
		} else {
			st.Inc("reports_dropped_hold_only_if_moved_victims_take_nothing")
		}
	}
	return out
}

func judgeReclaimReading(m *Model, before, after *QueueUsage, dec []sched.Event, cycle int, st *Stats, in *C07Input, agree map[string]bool, movedTaken bool) []run.Violation {
	var out []run.Violation
	placed := map[string]bool{}
	preemptor := ""
	for k := range dec {
		e := &dec[k]
		if !OK(e) {
			continue
		}
		if e.Kind == "bind" || e.Kind == "pipeline" {
			placed[e.Key()] = true
		}
		if e.Kind == "evict" && e.Preemptor != "" {
			preemptor = e.Preemptor
		}
	}
	if preemptor == "" {
		return nil
	}
	parts := strings.SplitN(preemptor, "/", 2)
	rpg := m.PodGroups[parts[len(parts)-1]]
	if rpg == nil {
		return nil
	}
	R := rpg.Spec.Queue
	pathR := m.QueuePath(R) // leaf first
	if len(pathR) == 0 {
		return nil
	}
	st.Inc("reclaim_decisions")
	// what the reclaimer received
	var req Res
	for k := range dec {
		e := &dec[k]
		if p := m.Pods[e.Key()]; p != nil && OK(e) && (e.Kind == "bind" || e.Kind == "pipeline") && e.Group == rpg.Name {
			if _, was := before.counted[e.Key()]; !was {
				req = req.Add(resOf(after, e.Key()))
			}
		}
	}
	// what was taken, per victim job
	type taken struct {
		job, leaf string
		res       Res
	}
	byJob := map[string]*taken{}
	for k := range dec {
		e := &dec[k]
		if e.Kind != "evict" || !OK(e) || (placed[e.Key()] && !movedTaken) {
			continue
		}
		p := m.Pods[e.Key()]
		if p == nil {
			continue
		}
		pg := m.PodGroupOf(p)
		if pg == nil {
			continue
		}
		r, was := before.counted[e.Key()]
		if !was {
			continue // not charged (e.g. already terminating): its eviction takes nothing
		}
		t := byJob[pg.Name]
		if t == nil {
			t = &taken{job: pg.Name, leaf: pg.Spec.Queue}
			byJob[pg.Name] = t
		}
		t.res = t.res.Add(r)
	}
	if len(byJob) == 0 {
		st.Inc("reclaim_decisions_without_net_victims")
		return nil
	}
	// class of the decision: "after-shared-gpu-renomination" if it evicts and re-nominates a GPU-sharing pod in the
	// same statement (the scheduler's own queue accounting is known to drift there, see C14), else "plain"
	class := "plain"
	for k := range dec {
		e := &dec[k]
		if e.Kind == "evict" && OK(e) && placed[e.Key()] {
			if p := m.Pods[e.Key()]; p != nil {
				if g := k8sm.GPURequest(p); g.Fraction > 0 || g.Memory > 0 {
					class = "after-shared-gpu-renomination"
					st.Inc("reclaim_decisions_renominating_shared_gpu_pod")
				}
			}
		}
	}
	// all queues involved must start from an allocation both sides agree on
	involved := map[string]bool{}
	for _, q := range pathR {
		involved[q.Name] = true
	}
	for _, t := range byJob {
		for _, q := range m.QueuePath(t.leaf) {
			involved[q.Name] = true
		}
	}
	for q := range involved {
		if !agree[q] {
			st.Inc("reclaim_decisions_not_judged_allocation_model_differs")
			return nil
		}
		if _, ok := in.Fair[q]; !ok {
			st.Inc("reclaim_decisions_not_judged_no_fair_share")
			return nil
		}
	}
	st.Inc("reclaim_decisions_judged")
	st.NonTrivial = true
	if len(byJob) > 1 {
		st.Inc("reclaim_decisions_multi_victim")
	}
	rootFirst := func(leaf string) []string {
		p := m.QueuePath(leaf)
		o := make([]string, len(p))
		for i, q := range p {
			o[len(p)-1-i] = q.Name
		}
		return o
	}
	pr := rootFirst(R)
	// clause 1: a queue within its deserved quota in every resource is never reduced
	lvlVictims := map[string][]*taken{} // leveled victim queue -> jobs
	lvlReclaimer := map[string]string{}
	for _, t := range byJob {
		pv := rootFirst(t.leaf)
		if len(pv) == 0 {
			continue
		}
		k := 0
		for k < len(pr)-1 && k < len(pv)-1 && pr[k] == pv[k] {
			k++
		}
		if pr[k] == pv[k] {
			st.Inc("victims_in_reclaimers_own_queue_path")
			continue // same queue (C06 judges that)
		}
		lvlVictims[pv[k]] = append(lvlVictims[pv[k]], t)
		lvlReclaimer[pv[k]] = pr[k]
	}
	names := make([]string, 0, len(lvlVictims))
	for v := range lvlVictims {
		names = append(names, v)
	}
	sort.Strings(names)
	for _, v := range names {
		limit, quota := QueueLimits(m.Queues[v])
		// a queue above its limit is above what it may hold at all: deserved cannot usefully exceed the limit
		quota = Res{capBy(quota.GPU, limit.GPU), capBy(quota.CPU, limit.CPU), capBy(quota.Mem, limit.Mem)}
		allWithin := true
		desc := ""
		for _, t := range lvlVictims[v] {
			pre := after.Alloc[v].Add(t.res) // allocation before the last chunk was taken (at most)
			if !withinAll(pre, quota) {
				allWithin = false
			}
			desc += fmt.Sprintf("[job %s took gpu=%.3f cpu=%.0f mem=%.0f] ", t.job, t.res.GPU, t.res.CPU, t.res.Mem)
		}
		st.Inc("victim_queues_judged")
		if withinAll(before.Alloc[v], quota) || allWithin {
			kind := "already-within-quota"
			if !withinAll(before.Alloc[v], quota) {
				kind = "cut-below-quota-by-extra-victim"
			}
			out = append(out, Viol("C07", "reclaimed-from-queue-within-deserved-quota", class+":"+kind, cycle,
				"reclaim for %s (queue %s) reduced queue %s from gpu=%.3f cpu=%.0f mem=%.0f to gpu=%.3f cpu=%.0f mem=%.0f although, before the last victim was taken, it was within its deserved quota gpu=%.3f cpu=%.0f mem=%.0f in every resource; %s",
				rpg.Name, R, v, before.Alloc[v].GPU, before.Alloc[v].CPU, before.Alloc[v].Mem, after.Alloc[v].GPU, after.Alloc[v].CPU, after.Alloc[v].Mem,
				quota.GPU, quota.CPU, quota.Mem, desc))
		}
	}
	// clause 2: the reclaiming queue stays within its fair share in the resources it received
	fairR := in.Fair[R]
	for r := 0; r < 3; r++ {
		if req.Get(r) <= 0 {
			continue
		}
		st.Inc("reclaimer_fair_share_checks")
		if a, f := after.Alloc[R].Get(r), fairR.Get(r); f >= 0 && a > f+1e-6+1e-9*math.Abs(f) {
			out = append(out, Viol("C07", "reclaimer-above-fair-share", class+":"+ResNames[r], cycle,
				"reclaim for %s: queue %s ends with %s allocation %.4f > fair share %.4f (received %.4f)", rpg.Name, R, ResNames[r], a, f, req.Get(r)))
		}
	}
	// clause 3: non-preemptible reclaimer keeps the non-preemptible allocation within deserved quota
	if !m.Preemptible(rpg) {
		for _, q := range pathR {
			_, quota := QueueLimits(q)
			for r := 0; r < 3; r++ {
				if req.Get(r) <= 0 || quota.Get(r) < 0 {
					continue
				}
				st.Inc("reclaimer_non_preemptible_checks")
				if a := after.AllocNP[q.Name].Get(r); a > quota.Get(r)+1e-6 && a > before.AllocNP[q.Name].Get(r)+1e-6 {
					lvl := "leaf"
					if q.Name != R {
						lvl = "ancestor"
					}
					out = append(out, Viol("C07", "non-preemptible-reclaimer-over-quota", class+":"+ResNames[r]+":"+lvl, cycle,
						"reclaim for non-preemptible %s: non-preemptible %s allocation of queue %s is %.4f > deserved quota %.4f", rpg.Name, ResNames[r], q.Name, a, quota.Get(r)))
				}
			}
		}
	}
	// clause 4: saturation ordering against every sibling resources were taken from, at every level
	tookFrom := map[string]map[int]bool{} // queue (victim leaf and ancestors) -> resources taken
	for _, t := range byJob {
		for _, q := range m.QueuePath(t.leaf) {
			if tookFrom[q.Name] == nil {
				tookFrom[q.Name] = map[int]bool{}
			}
			for r := 0; r < 3; r++ {
				if t.res.Get(r) > 0 {
					tookFrom[q.Name][r] = true
				}
			}
		}
	}
	for _, a := range pathR {
		for sName, resSet := range tookFrom {
			s := m.Queues[sName]
			if s == nil || sName == a.Name || s.Spec.ParentQueue != a.Spec.ParentQueue {
				continue
			}
			for r := 0; r < 3; r++ {
				if !resSet[r] && req.Get(r) <= 0 {
					continue
				}
				fa, fs := in.Fair[a.Name].Get(r), in.Fair[sName].Get(r)
				if fa < 0 && fs < 0 {
					continue
				}
				st.Inc("saturation_checks")
				ra, rs := satRatio(after.Alloc[a.Name].Get(r), fa), satRatio(after.Alloc[sName].Get(r), fs)
				if !(ra > 1+1e-9 && fs > 0) {
					continue
				}
				margin := 1e-9 * math.Max(1, rs)
				exact := r != 0 || (isInt(after.Alloc[a.Name].GPU) && isInt(after.Alloc[sName].GPU))
				if ra > rs+margin || (exact && ra >= rs) {
					lvl := "leaf"
					if a.Name != R {
						lvl = "ancestor"
					}
					out = append(out, Viol("C07", "reclaimer-at-least-as-saturated-as-sibling", class+":"+ResNames[r]+":"+lvl, cycle,
						"reclaim for %s: queue %s ends above its %s fair share (%.4f / %.4f = %.4f) and at least as saturated as sibling %s it took from (%.4f / %.4f = %.4f)",
						rpg.Name, a.Name, ResNames[r], after.Alloc[a.Name].Get(r), fa, ra, sName, after.Alloc[sName].Get(r), fs, rs))
				}
			}
		}
	}
	return out
}

var _ = v1.ResourceCPU
