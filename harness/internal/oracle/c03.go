package oracle

import (
	"fmt"
	"sort"

	v1 "k8s.io/api/core/v1"

	enginev2alpha2 "github.com/NVIDIA/KAI-scheduler/pkg/apis/scheduling/v2alpha2"

	"verif/harness/internal/run"
	"verif/harness/internal/sched"
)

// PodSets returns leaf pod-set name -> minimum for a pod group ("" is the default set).
func PodSets(pg *enginev2alpha2.PodGroup) map[string]int {
	out := map[string]int{}
	if len(pg.Spec.SubGroups) == 0 {
		m := int(pg.Spec.MinMember)
		if m < 1 {
			m = 1
		}
		out[""] = m
		return out
	}
	hasChild := map[string]bool{}
	for _, sg := range pg.Spec.SubGroups {
		if sg.Parent != nil {
			hasChild[*sg.Parent] = true
		}
	}
	for _, sg := range pg.Spec.SubGroups {
		if hasChild[sg.Name] {
			continue
		}
		m := int(sg.MinMember)
		if m < 1 {
			m = 1
		}
		out[sg.Name] = m
	}
	return out
}

func podSetOf(p *v1.Pod) string { return p.Labels["kai.scheduler/subgroup-name"] }

type setCount struct {
	before, binds, evicts, pipes int
	unbound                      int // pods bound and evicted again in this cycle
	afterLastBind                int // active members right after the set's last bind of the cycle
}

// CheckC03: gang integrity of the decisions of one cycle (only evaluated on cycles without injected write failures).
func CheckC03(m *Model, events []sched.Event, cycle int, st *Stats) []run.Violation {
	var out []run.Violation
	type gstate struct {
		pg         *enginev2alpha2.PodGroup
		sets       map[string]*setCount
		mins       map[string]int
		evActs     map[string]bool   // actions that evicted pods of this group
		evicted    map[string]string // pod key -> node it was evicted from
		evictedSet map[string]string // pod key -> its pod set
		piped      map[string]string // pod key -> node it was nominated to
	}
	groups := map[string]*gstate{}
	get := func(name string) *gstate {
		if g, ok := groups[name]; ok {
			return g
		}
		pg, ok := m.PodGroups[name]
		if !ok {
			return nil
		}
		g := &gstate{pg: pg, sets: map[string]*setCount{}, mins: PodSets(pg), evActs: map[string]bool{}, evicted: map[string]string{}, evictedSet: map[string]string{}, piped: map[string]string{}}
		for s := range g.mins {
			g.sets[s] = &setCount{}
		}
		for _, p := range m.O.Pods {
			if p.Annotations["pod-group-name"] != name {
				continue
			}
			sc, ok := g.sets[podSetOf(p)]
			if !ok {
				continue
			}
			if m.Active(p) {
				sc.before++
			}
		}
		groups[name] = g
		return g
	}
	seenEv := map[string]bool{}
	for i := range events {
		e := &events[i]
		if !OK(e) || e.Group == "" {
			continue
		}
		p, ok := m.Pods[e.Key()]
		if !ok {
			continue
		}
		g := get(e.Group)
		if g == nil {
			continue
		}
		sc, ok := g.sets[podSetOf(p)]
		if !ok {
			continue
		}
		k := e.Kind + "/" + e.Key()
		if seenEv[k] {
			continue
		}
		seenEv[k] = true
		switch e.Kind {
		case "bind":
			sc.binds++
			sc.afterLastBind = sc.before - sc.evicts + sc.binds
		case "evict":
			if !m.Active(p) && seenEv["bind/"+e.Key()] && !seenEv["unbind/"+e.Key()] {
				// bound earlier in this cycle and evicted again (e.g. an elastic pod added by allocate, then the whole
				// workload reclaimed): the bind no longer counts
				seenEv["unbind/"+e.Key()] = true
				sc.binds--
				sc.unbound++
			}
			if m.Active(p) { // evicting an already terminating pod does not change the active count
				sc.evicts++
				g.evActs[e.EvictAction] = true
				g.evicted[e.Key()] = e.Node
				g.evictedSet[e.Key()] = podSetOf(p)
			}
		case "pipeline":
			sc.pipes++
			g.piped[e.Key()] = e.Node
		}
	}
	names := make([]string, 0, len(groups))
	for n := range groups {
		names = append(names, n)
	}
	sort.Strings(names)
	for _, n := range names {
		g := groups[n]
		totalBefore, totalBinds, totalEvicts, totalAfter := 0, 0, 0, 0
		gangMin := 0
		for s, sc := range g.sets {
			totalBefore += sc.before
			totalBinds += sc.binds
			totalEvicts += sc.evicts
			totalAfter += sc.before - sc.evicts + sc.binds
			gangMin += g.mins[s]
		}
		if gangMin >= 2 {
			st.Inc("gangs_acted_on")
			st.NonTrivial = true
		}
		setNames := make([]string, 0, len(g.sets))
		for s := range g.sets {
			setNames = append(setNames, s)
		}
		sort.Strings(setNames)
		desc := func() string {
			d := ""
			for _, s := range setNames {
				sc := g.sets[s]
				d += fmt.Sprintf("[set %q min=%d activeBefore=%d evicted=%d bound=%d nominated=%d] ", s, g.mins[s], sc.before, sc.evicts, sc.binds, sc.pipes)
			}
			return d
		}
		for _, s := range setNames {
			sc := g.sets[s]
			// judged at the moment of the set's last bind: a later action of the same cycle may evict members again
			// (the eviction clauses below judge that)
			if sc.binds > 0 && sc.afterLastBind < g.mins[s] {
				kind := "bound-below-min"
				if sc.pipes > 0 {
					kind = "part-bound-part-nominated"
				}
				out = append(out, Viol("C03", kind, "", cycle, "pod group %s: %s", n, desc()))
			}
		}
		if totalBinds > 0 && totalBefore == 0 {
			st.Inc("fresh_gang_starts")
			for _, s := range setNames {
				sc := g.sets[s]
				if sc.binds > 0 && sc.afterLastBind < g.mins[s] || sc.binds == 0 && g.mins[s] > 0 && sc.unbound == 0 {
					out = append(out, Viol("C03", "gang-started-partially", "", cycle, "pod group %s started with a pod set below its minimum: %s", n, desc()))
					break
				}
			}
		}
		if totalEvicts > 0 {
			st.Inc("groups_with_evictions")
			healthy, allGone, allKept := true, true, true
			for _, s := range setNames {
				sc := g.sets[s]
				if sc.before < g.mins[s] {
					healthy = false
				}
				after := sc.before - sc.evicts
				if after > 0 {
					allGone = false
				}
				if after < g.mins[s] {
					allKept = false
				}
			}
			switch {
			case !healthy && g.evActs["stalegangeviction"] && len(g.evActs) == 1 && !allGone && totalBinds == 0:
				// a gang that is already below its minimum can only be evicted as a whole: the stale-gang action exists
				// to remove what is left of it, members that are still being bound included
				st.Inc("stale_gang_evictions_judged")
				out = append(out, Viol("C03", "stale-gang-partially-evicted", "", cycle, "pod group %s was below its minimum and the stale-gang eviction removed only part of its active pods: %s", n, desc()))
			case !healthy:
				if g.evActs["stalegangeviction"] && allGone {
					st.Inc("stale_gang_evictions_judged")
				}
				st.Inc("evictions_from_already_partial_gang") // precondition of the clause not met; not judged
			case allGone:
				st.Inc("whole_gang_evictions")
			case allKept:
				st.Inc("elastic_shrinks")
			default:
				acts := make([]string, 0, len(g.evActs))
				for a := range g.evActs {
					acts = append(acts, a)
				}
				sort.Strings(acts)
				// In the scheduler's own view nominated (pipelined) pods count as members: the running part falls below
				// the minimum, but together with the pods nominated in the same cycle every pod set still reaches it.
				moved := true
				for _, s := range setNames {
					if sc := g.sets[s]; sc.before-sc.evicts+sc.binds+sc.pipes < g.mins[s] {
						moved = false
					}
				}
				sig := "removed"
				if moved {
					sig = "moved-elsewhere" // the evicted members are replaced by nominations of the same cycle
				}
				for _, a := range acts {
					sig += ":by-" + a
				}
				out = append(out, Viol("C03", "eviction-leaves-partial-gang", sig, cycle, "pod group %s evicted partially (%s): %s", n, sig, desc()))
			}
		}
		_ = totalAfter
	}
	return out
}
