package oracle

import (
	"fmt"
	"sort"

	v1 "k8s.io/api/core/v1"

	"verif/harness/internal/k8sm"
	"verif/harness/internal/run"
	"verif/harness/internal/sched"
)

// Stats collects what a checker observed (for evidence and the non-trivial rule).
type Stats struct {
	Counters   map[string]int
	NonTrivial bool
}

func NewStats() *Stats               { return &Stats{Counters: map[string]int{}} }
func (s *Stats) Inc(k string)        { s.Counters[k]++ }
func (s *Stats) Add(k string, n int) { s.Counters[k] += n }

// unionGroups returns the GPU groups of a pod: labels plus the groups of its live BindRequest.
func (m *Model) unionGroups(p *v1.Pod) []string {
	if m.HandoffResidue {
		return m.GroupsOf(p)
	}
	set := map[string]bool{}
	for _, g := range k8sm.PodGPUGroups(p) {
		set[g] = true
	}
	if br, ok := m.BRs[p.Namespace+"/"+p.Name]; ok {
		for _, g := range br.Spec.SelectedGPUGroups {
			set[g] = true
		}
	}
	out := make([]string, 0, len(set))
	for g := range set {
		out = append(out, g)
	}
	sort.Strings(out)
	return out
}

// CheckC01: node resources are never oversubscribed by the binds of this cycle.
func CheckC01(m *Model, events []sched.Event, cycle int, st *Stats) []run.Violation {
	var out []run.Violation
	bindsByNode := map[string][]*sched.Event{}
	evictedNodes := map[string]bool{}
	for i := range events {
		e := &events[i]
		switch e.Kind {
		case "bind":
			if OK(e) {
				bindsByNode[e.Node] = append(bindsByNode[e.Node], e)
				st.Inc("bind_ok")
			} else {
				st.Inc("bind_failed")
			}
		case "evict":
			if OK(e) {
				evictedNodes[e.Node] = true
				st.Inc("evict_ok")
			}
		case "pipeline":
			st.Inc("pipelined")
		}
	}
	nodes := make([]string, 0, len(bindsByNode))
	for n := range bindsByNode {
		nodes = append(nodes, n)
	}
	sort.Strings(nodes)
	for _, n := range nodes {
		node, ok := m.AllNodes[n]
		if !ok {
			out = append(out, Viol("C01", "bind-to-unknown-node", n, cycle, "pod %s bound to node %q which is not in the store", bindsByNode[n][0].Key(), n))
			continue
		}
		alloc := k8sm.Allocatable(node)
		used := k8sm.Req{}
		groups := map[string]bool{}
		hasTerminating := false
		for _, p := range m.Occupying(n) {
			if p.DeletionTimestamp != nil {
				hasTerminating = true
			}
			req := k8sm.PodRequest(p)
			gr := k8sm.GPURequest(p)
			if IsReservation(p) {
				if g := p.Labels["runai-gpu-group"]; g != "" && !m.HandoffResidue {
					groups[g] = true // (with HandoffResidue a group counts through its members only)
				}
				delete(req, "nvidia.com/gpu")
			} else if gr.Shared() {
				for _, g := range m.unionGroups(p) {
					groups[g] = true
				}
				delete(req, "nvidia.com/gpu")
			}
			for k, v := range req {
				used[k] += v
			}
		}
		used["nvidia.com/gpu"] += int64(len(groups))
		requested := map[v1.ResourceName]bool{}
		offender := map[v1.ResourceName]string{} // resource -> kind of the first bind that pushed it over
		preGroups := len(groups)
		_ = preGroups
		for _, e := range bindsByNode[n] {
			p, ok := m.Pods[e.Key()]
			if !ok {
				out = append(out, Viol("C01", "bind-unknown-pod", e.Key(), cycle, "bind of pod %s which is not in the store", e.Key()))
				continue
			}
			req := k8sm.PodRequest(p)
			gr := k8sm.GPURequest(p)
			kind := "plain"
			if len(req) == 1 {
				kind = "best-effort"
			}
			if gr.Whole > 0 {
				kind = "whole-gpu"
			}
			if len(gr.Mig) > 0 {
				kind = "mig"
			}
			if gr.Shared() {
				kind = "shared-existing-group"
				for _, g := range e.GPUGroups {
					if !groups[g] {
						kind = "shared-new-group"
						used["nvidia.com/gpu"]++
					}
					groups[g] = true
				}
				delete(req, "nvidia.com/gpu")
				requested["nvidia.com/gpu"] = true
			}
			for k, v := range req {
				used[k] += v
				if v > 0 {
					requested[k] = true
				}
			}
			for k := range requested {
				if _, done := offender[k]; !done && used[k] > alloc[k] {
					offender[k] = kind
				}
			}
		}
		if hasTerminating || evictedNodes[n] {
			st.Inc("bind_on_node_with_releasing")
			st.NonTrivial = true
		}
		tight := false
		for k := range requested {
			if used[k] > alloc[k] {
				names := ""
				for _, e := range bindsByNode[n] {
					names += e.Key() + " "
				}
				rel := "no-releasing"
				if hasTerminating || evictedNodes[n] {
					rel = "releasing-present"
				}
				out = append(out, Viol("C01", "node-oversubscribed", string(k)+":"+offender[k]+":"+rel, cycle,
					"node %s resource %s: occupying+bound = %d > allocatable %d (binds this cycle: %s; first bind over the limit is a %s pod; shared groups: %d; terminating-present=%v same-cycle-evictions=%v)",
					n, k, used[k], alloc[k], names, offender[k], len(groups), hasTerminating, evictedNodes[n]))
			}
			if alloc[k] > 0 && float64(alloc[k]-used[k]) < 0.25*float64(alloc[k]) {
				tight = true
			}
		}
		if tight {
			st.Inc("bind_on_tight_node")
			st.NonTrivial = true
		}
	}
	return out
}

// CheckC02: shared GPU devices are never oversubscribed.
func CheckC02(m *Model, events []sched.Event, cycle int, st *Stats) []run.Violation {
	var out []run.Violation
	type grp struct {
		node    string
		mem     float64 // sum of shares in units of device memory (1.0 == whole device)
		sharers int
		names   []string
	}
	groups := map[string]*grp{}
	wholeOnNode := map[string]int64{}
	groupNodes := map[string]map[string]bool{}
	addShare := func(g, node, who string, share float64) {
		x, ok := groups[g]
		if !ok {
			x = &grp{node: node}
			groups[g] = x
		}
		if groupNodes[g] == nil {
			groupNodes[g] = map[string]bool{}
		}
		groupNodes[g][node] = true
		if share > 0 {
			x.mem += share
			x.sharers++
			x.names = append(x.names, who)
		}
	}
	share := func(p *v1.Pod, node *v1.Node) float64 {
		gr := k8sm.GPURequest(p)
		if gr.Fraction > 0 {
			return gr.Fraction
		}
		return float64(gr.Memory) / float64(k8sm.NodeGPUMemory(node))
	}
	for _, p := range m.O.Pods {
		n := m.NodeOf(p)
		if n == "" {
			continue
		}
		node, ok := m.AllNodes[n]
		if !ok {
			continue
		}
		if IsReservation(p) {
			if g := p.Labels["runai-gpu-group"]; g != "" && !m.HandoffResidue {
				addShare(g, n, "", 0)
			}
			continue
		}
		gr := k8sm.GPURequest(p)
		if gr.Shared() {
			for _, g := range m.unionGroups(p) {
				addShare(g, n, p.Name, share(p, node))
			}
		} else {
			wholeOnNode[n] += gr.Whole
		}
	}
	touched := map[string]bool{}
	bindNodes := map[string]bool{}
	for i := range events {
		e := &events[i]
		if e.Kind != "bind" || !OK(e) {
			continue
		}
		p, ok := m.Pods[e.Key()]
		if !ok {
			continue
		}
		node, ok := m.AllNodes[e.Node]
		if !ok {
			continue
		}
		gr := k8sm.GPURequest(p)
		if !gr.Shared() {
			wholeOnNode[e.Node] += gr.Whole
			if gr.Whole > 0 {
				bindNodes[e.Node] = true
			}
			continue
		}
		bindNodes[e.Node] = true
		st.Inc("shared_bind")
		if int64(len(e.GPUGroups)) != gr.Devices {
			out = append(out, Viol("C02", "wrong-device-count", "", cycle, "pod %s asks for %d fractional devices but was bound with GPU groups %v", e.Key(), gr.Devices, e.GPUGroups))
		}
		seen := map[string]bool{}
		for _, g := range e.GPUGroups {
			if seen[g] {
				out = append(out, Viol("C02", "repeated-device", "", cycle, "pod %s bound with repeated GPU group %s (%v)", e.Key(), g, e.GPUGroups))
			}
			seen[g] = true
			if x, ok := groups[g]; ok && x.sharers > 0 {
				st.Inc("bind_into_existing_group")
				st.NonTrivial = true
			} else {
				st.Inc("bind_opens_group")
			}
			addShare(g, e.Node, p.Name, share(p, node))
			touched[g] = true
		}
		if gr.Devices > 1 {
			st.Inc("multi_fraction_bind")
			st.NonTrivial = true
		}
	}
	gnames := make([]string, 0, len(touched))
	for g := range touched {
		gnames = append(gnames, g)
	}
	sort.Strings(gnames)
	for _, g := range gnames {
		x := groups[g]
		node := m.AllNodes[x.node]
		slack := float64(x.sharers) / float64(k8sm.NodeGPUMemory(node))
		if x.mem > 1+slack+1e-9 {
			out = append(out, Viol("C02", "device-oversubscribed", "", cycle,
				"GPU group %s on node %s: shares of %v sum to %.4f of the device (> 1 + %d accounting units)", g, x.node, x.names, x.mem, x.sharers))
		}
		if len(groupNodes[g]) > 1 {
			out = append(out, Viol("C02", "group-on-two-nodes", "", cycle, "GPU group %s appears on nodes %v", g, keys(groupNodes[g])))
		}
	}
	ns := make([]string, 0, len(bindNodes))
	for n := range bindNodes {
		ns = append(ns, n)
	}
	sort.Strings(ns)
	for _, n := range ns {
		node := m.AllNodes[n]
		cnt := int64(0)
		for _, x := range groups {
			if x.node == n {
				cnt++
			}
		}
		gpuQ := node.Status.Allocatable["nvidia.com/gpu"]
		total := gpuQ.Value()
		if wholeOnNode[n]+cnt > total {
			var desc []string
			for g, x := range groups {
				if x.node == n {
					desc = append(desc, fmt.Sprintf("%s%v", g, x.names))
				}
			}
			sort.Strings(desc)
			out = append(out, Viol("C02", "whole-plus-shared-exceeds-node", "", cycle,
				"node %s: %d whole GPUs + %d shared devices in use > %d GPUs; groups and their sharers (a group without sharers is held by its reservation pod only): %v", n, wholeOnNode[n], cnt, total, desc))
		}
		if total-wholeOnNode[n]-cnt <= 1 {
			st.Inc("bind_on_gpu_tight_node")
			st.NonTrivial = true
		}
	}
	return out
}

func keys(m map[string]bool) []string {
	out := make([]string, 0, len(m))
	for k := range m {
		out = append(out, k)
	}
	sort.Strings(out)
	return out
}

var _ = fmt.Sprintf
