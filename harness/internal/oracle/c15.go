package oracle

import (
	"fmt"
	enginev2 "github.com/NVIDIA/KAI-scheduler/pkg/apis/scheduling/v2"
	"sort"
	"strings"

	"verif/harness/internal/run"
	"verif/harness/internal/sched"
	"verif/harness/internal/spec"
)

// Lasso is the per-case state of the C15 oracle: the canonical cluster state before every cycle and the
// evictions of every cycle.
type Lasso struct {
	States    []string
	Evictions []map[string]int // per cycle: action -> successful evictions
	Events    [][]sched.Event  // per cycle
	Quiet     int              // consecutive cycles without any event
	Found     bool
	M         *Model // model of the latest cycle (queues, pod groups) for classifying a period
}

// CanonicalState abstracts the store to: per (pod group, pod set) the sorted multiset of placements, a placement
// being "pending" or node + the pod groups sharing each of its GPU devices. Names and UIDs of re-created pods,
// GPU group ids and timestamps do not appear.
func CanonicalState(m *Model) string {
	sharers := map[string][]string{} // gpu group -> pod groups of its sharers
	for _, p := range m.O.Pods {
		if IsReservation(p) || m.NodeOf(p) == "" {
			continue
		}
		for _, g := range m.GroupsOf(p) {
			sharers[g] = append(sharers[g], p.Annotations["pod-group-name"])
		}
	}
	for g := range sharers {
		sort.Strings(sharers[g])
	}
	by := map[string][]string{}
	for _, p := range m.O.Pods {
		if IsReservation(p) {
			continue
		}
		k := p.Annotations["pod-group-name"] + "/" + p.Labels["kai.scheduler/subgroup-name"]
		if p.Annotations["pod-group-name"] == "" {
			k = "?/" + p.Annotations[spec.LogicalNameAnno] + p.Name
		}
		pl := "pending"
		if !alive(p) {
			pl = "finished"
		} else if n := m.NodeOf(p); n != "" {
			pl = n
			if p.DeletionTimestamp != nil {
				pl += "(terminating)"
			}
			var gs []string
			for _, g := range m.GroupsOf(p) {
				gs = append(gs, strings.Join(sharers[g], "+"))
			}
			sort.Strings(gs)
			if len(gs) > 0 {
				pl += "[" + strings.Join(gs, "|") + "]"
			}
		}
		by[k] = append(by[k], pl)
	}
	ks := make([]string, 0, len(by))
	for k := range by {
		ks = append(ks, k)
	}
	sort.Strings(ks)
	var sb strings.Builder
	for _, k := range ks {
		sort.Strings(by[k])
		fmt.Fprintf(&sb, "%s=%s;", k, strings.Join(by[k], ","))
	}
	return sb.String()
}

// Step records the state before the cycle and the cycle's evictions, and reports a lasso: the state before this
// cycle equals an earlier one with at least one eviction in between.
func (l *Lasso) Step(m *Model, events []sched.Event, cycle int, st *Stats) []run.Violation {
	cur := CanonicalState(m)
	l.M = m
	var out []run.Violation
	if !l.Found {
		for i := len(l.States) - 1; i >= 0; i-- {
			if l.States[i] != cur {
				continue
			}
			acts := map[string]int{}
			n := 0
			for j := i; j < len(l.Evictions); j++ {
				for a, c := range l.Evictions[j] {
					acts[a] += c
					n += c
				}
			}
			if n == 0 {
				break // same state without evictions in between: a fixpoint, not a livelock
			}
			// The canonical state is an abstraction (names of re-created pods, status conditions and timestamps are
			// not in it), so one recurrence could still be followed by different decisions. Demand two full identical
			// periods: the p states before the earlier occurrence equal the p states after it.
			p := len(l.States) - i
			if i-p < 0 {
				st.Inc("recurrences_waiting_for_second_period")
				continue
			}
			same := true
			for t := 0; t < p; t++ {
				if l.States[i-p+t] != l.States[i+t] {
					same = false
				}
			}
			if !same {
				st.Inc("recurrences_not_periodic")
				continue
			}
			as := make([]string, 0, len(acts))
			for a := range acts {
				as = append(as, a)
			}
			sort.Strings(as)
			l.Found = true
			out = append(out, Viol("C15", "eviction-lasso", strings.Join(as, "+")+":"+l.pattern(i), cycle,
				"the cluster state before cycle %d equals the states before cycles %d and %d, the %d states in between repeat, and %d pods are evicted per period (by %v): the scheduler evicts, comes back to where it was and evicts again\n    state: %s",
				cycle, i+1, i-p+1, p, n, acts, cur))
			break
		}
	}
	l.States = append(l.States, cur)
	ev := map[string]int{}
	for i := range events {
		if e := &events[i]; e.Kind == "evict" && OK(e) {
			ev[e.EvictAction]++
			st.Inc("evictions")
			st.NonTrivial = true
		}
	}
	l.Evictions = append(l.Evictions, ev)
	l.Events = append(l.Events, append([]sched.Event(nil), events...))
	if len(events) == 0 {
		l.Quiet++
	} else {
		l.Quiet = 0
	}
	return out
}

// StillEvicting reports whether one of the last n recorded cycles evicted.
func (l *Lasso) StillEvicting(n int) bool {
	for i := len(l.Evictions) - 1; i >= 0 && i >= len(l.Evictions)-n; i-- {
		if len(l.Evictions[i]) > 0 {
			return true
		}
	}
	return false
}

func logicalPod(name string) string {
	if i := strings.LastIndex(name, "-r"); i > 0 {
		if _, err := fmt.Sscanf(name[i+2:], "%d", new(int)); err == nil {
			return name[:i]
		}
	}
	return name
}

// pattern classifies the period starting at cycle index from. Every evicted pod is either a plain victim (evicted,
// not re-nominated by the evicting action) or a moved pod (re-nominated by the evicting action on another node, or on
// the same node with other GPU devices). If the re-creation of every one of them is bound by allocate on the node it
// had been evicted from, the pattern is "victims-return-to-origin" (only plain victims; followed by how the queues
// relate, see queueCause), "moved-pod-returns-to-origin" (only moved pods; ":device-level" if all moves stayed on
// their node) or "mixed-return-to-origin" (both; followed by the queue cause); "other" otherwise.
func (l *Lasso) pattern(from int) string {
	type ev struct {
		origin, target string
		moved          bool
	}
	evicted := map[string]ev{}
	returned := map[string]bool{}
	nMoved, nPlain, nCrossNode := 0, 0, 0
	for c := from; c < len(l.Events); c++ {
		piped := map[string]string{}
		pipedGroups := map[string]string{}
		for i := range l.Events[c] {
			if e := &l.Events[c][i]; e.Kind == "pipeline" && OK(e) {
				piped[e.Pod] = e.Node
				pipedGroups[e.Pod] = strings.Join(e.GPUGroups, ",")
			}
		}
		for i := range l.Events[c] {
			e := &l.Events[c][i]
			if !OK(e) || e.Kind != "evict" {
				continue
			}
			lp := logicalPod(e.Pod)
			origin := e.Node
			if origin == "" { // evicted in the cycle it was bound: origin is that bind's node
				for j := 0; j < i; j++ {
					if b := &l.Events[c][j]; b.Kind == "bind" && b.Pod == e.Pod {
						origin = b.Node
					}
				}
			}
			if origin == "" {
				return "other"
			}
			if to, ok := piped[e.Pod]; ok {
				evicted[lp] = ev{origin, to, true}
				nMoved++
				if to != origin {
					nCrossNode++
				}
			} else {
				evicted[lp] = ev{origin, "", false} // a plain victim: evicted, not re-nominated
				nPlain++
			}
		}
	}
	// the period is a rotation of the loop: the bind that brings a pod back may come before its eviction in the window
	for c := from; c < len(l.Events); c++ {
		for i := range l.Events[c] {
			e := &l.Events[c][i]
			if m, ok := evicted[logicalPod(e.Pod)]; ok && OK(e) && e.Kind == "bind" && e.Action == "allocate" && e.Node == m.origin {
				returned[logicalPod(e.Pod)] = true
			}
		}
	}
	if nMoved+nPlain == 0 {
		return "other"
	}
	for lp := range evicted {
		if !returned[lp] {
			return "other"
		}
	}
	switch {
	case nMoved == 0:
		// victims of reclaim / preempt are re-created and bound by allocate where they were before the pending
		// workload they were evicted for is placed
		return "victims-return-to-origin:" + l.queueCause(from)
	case nPlain == 0 && nCrossNode == 0:
		return "moved-pod-returns-to-origin:device-level"
	case nPlain == 0:
		return "moved-pod-returns-to-origin"
	}
	return "mixed-return-to-origin:" + l.queueCause(from)
}

// queueCause says how the queues of the victims and of the workloads they were evicted for relate in the period
// starting at cycle index from: "victim-queue-priority-higher" if some victim's queue - lifted to the level where its
// path diverges from the preemptor's - has a strictly higher queue priority than the preemptor's (the allocate
// action serves that queue first whatever the quotas say), "same-queue" for victims of the preemptor's own leaf
// queue, "equal-queue-priority" otherwise.
func (l *Lasso) queueCause(from int) string {
	m := l.M
	if m == nil {
		return "unknown"
	}
	queueOfGroup := func(pg string) string {
		if g, ok := m.PodGroups[pg]; ok {
			return g.Spec.Queue
		}
		return ""
	}
	groupOfPod := map[string]string{} // logical pod -> pod group
	for _, p := range m.O.Pods {
		lp := p.Annotations[spec.LogicalNameAnno]
		if lp == "" {
			lp = logicalPod(p.Name)
		}
		groupOfPod[lp] = p.Annotations["pod-group-name"]
	}
	prio := func(q string) int {
		if qu, ok := m.Queues[q]; ok && qu.Spec.Priority != nil {
			return *qu.Spec.Priority
		}
		return 100 // the scheduler's default queue priority
	}
	cause := ""
	dims := map[string]bool{} // resources with a finite deserved quota on the queue paths of victims and preemptors
	noteDims := func(path []*enginev2.Queue) {
		for _, q := range path {
			if r := q.Spec.Resources; r != nil {
				if r.GPU.Quota >= 0 {
					dims["gpu"] = true
				}
				if r.CPU.Quota >= 0 {
					dims["cpu"] = true
				}
				if r.Memory.Quota >= 0 {
					dims["memory"] = true
				}
			}
		}
	}
	depth := 0 // deepest queue path involved (1 = flat forest of leaf queues)
	withDims := func(c string) string {
		var ds []string
		for d := range dims {
			ds = append(ds, d)
		}
		sort.Strings(ds)
		return fmt.Sprintf("%s:quota-dims=%s:queue-depth=%d", c, strings.Join(ds, "+"), depth)
	}
	for c := from; c < len(l.Events); c++ {
		for i := range l.Events[c] {
			e := &l.Events[c][i]
			if e.Kind != "evict" || !OK(e) || e.Preemptor == "" {
				continue
			}
			pre := e.Preemptor
			if j := strings.LastIndex(pre, "/"); j >= 0 {
				pre = pre[j+1:]
			}
			vq, pq := queueOfGroup(groupOfPod[logicalPod(e.Pod)]), queueOfGroup(pre)
			if vq == "" || pq == "" {
				return "unknown"
			}
			if vq == pq {
				if cause == "" {
					cause = "same-queue"
				}
				continue
			}
			// lift both to the level where the paths diverge (paths are leaf first)
			vp, pp := m.QueuePath(vq), m.QueuePath(pq)
			noteDims(vp)
			noteDims(pp)
			if len(vp) > depth {
				depth = len(vp)
			}
			if len(pp) > depth {
				depth = len(pp)
			}
			vi, pi := len(vp)-1, len(pp)-1
			for vi > 0 && pi > 0 && vp[vi].Name == pp[pi].Name {
				vi--
				pi--
			}
			if vi < 0 || pi < 0 {
				return "unknown"
			}
			higher := false
			for a, b := vi, pi; a < len(vp) && b < len(pp); a, b = a+1, b+1 { // the diverging level and above it
				if vp[a].Name == pp[b].Name {
					break
				}
				if prio(vp[a].Name) > prio(pp[b].Name) {
					higher = true
				}
			}
			if higher {
				return "victim-queue-priority-higher"
			}
			cause = "equal-queue-priority"
		}
	}
	if cause == "" {
		return "unknown"
	}
	if cause == "equal-queue-priority" {
		// which resources carry deserved quotas: the allocate order and the reclaim rule can disagree when a queue
		// is over its quota in one resource and under it in another
		return withDims(cause)
	}
	return cause
}
