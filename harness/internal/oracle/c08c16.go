package oracle

import (
	"sort"

	enginev2alpha2 "github.com/NVIDIA/KAI-scheduler/pkg/apis/scheduling/v2alpha2"

	"verif/harness/internal/run"
	"verif/harness/internal/sched"
	"verif/harness/internal/spec"
)

const floatTol = 1e-6

// CheckC08: queue limits and non-preemptible-within-quota at every level, after every placement event.
func CheckC08(m *Model, events []sched.Event, cycle int, st *Stats) []run.Violation {
	var out []run.Violation
	u := NewQueueUsage(m)
	base := u.Clone()
	reported := map[string]bool{}
	for i := range events {
		e := &events[i]
		if !OK(e) {
			continue
		}
		p, ok := m.Pods[e.Key()]
		if !ok {
			continue
		}
		switch e.Kind {
		case "evict":
			u.Remove(p)
		case "bind", "pipeline":
			pg := m.PodGroupOf(p)
			if pg == nil {
				continue
			}
			added := u.Place(p, m.AllNodes[e.Node])
			np := !m.Preemptible(pg)
			for _, q := range m.QueuePath(pg.Spec.Queue) {
				limit, quota := QueueLimits(q)
				for r := 0; r < 3; r++ {
					if added.Get(r) <= 0 {
						continue
					}
					a := u.Alloc[q.Name].Get(r)
					if l := limit.Get(r); l >= 0 {
						st.Inc("limit_checks")
						if a <= l+floatTol && a > l-added.Get(r)-floatTol {
							st.Inc("placements_ending_within_one_request_of_limit")
							st.NonTrivial = true
						}
						if a > l+floatTol && a > base.Alloc[q.Name].Get(r)+floatTol {
							k := "limit/" + q.Name + "/" + ResNames[r]
							if !reported[k] {
								reported[k] = true
								lvl := "leaf"
								if q.Name != pg.Spec.Queue {
									lvl = "ancestor"
								}
								out = append(out, Viol("C08", "queue-over-limit", ResNames[r]+":"+lvl, cycle,
									"%s of pod %s (%s) raised the %s allocation of queue %s (%s of %s) to %.4f > limit %.4f (allocation at cycle start %.4f)",
									e.Kind, e.Key(), e.Action, ResNames[r], q.Name, lvl, pg.Spec.Queue, a, l, base.Alloc[q.Name].Get(r)))
							}
						}
					}
					if np {
						anp := u.AllocNP[q.Name].Get(r)
						if qt := quota.Get(r); qt >= 0 {
							st.Inc("non_preemptible_quota_checks")
							if anp <= qt+floatTol && anp > qt-added.Get(r)-floatTol {
								st.Inc("np_placements_ending_within_one_request_of_quota")
								st.NonTrivial = true
							}
							if anp > qt+floatTol && anp > base.AllocNP[q.Name].Get(r)+floatTol {
								k := "quota/" + q.Name + "/" + ResNames[r]
								if !reported[k] {
									reported[k] = true
									lvl := "leaf"
									if q.Name != pg.Spec.Queue {
										lvl = "ancestor"
									}
									out = append(out, Viol("C08", "non-preemptible-over-quota", ResNames[r]+":"+lvl, cycle,
										"%s of pod %s (%s, non-preemptible workload %s) raised the non-preemptible %s allocation of queue %s (%s) to %.4f > deserved quota %.4f (at cycle start %.4f)",
										e.Kind, e.Key(), e.Action, pg.Name, ResNames[r], q.Name, lvl, anp, qt, base.AllocNP[q.Name].Get(r)))
								}
							}
						}
					}
				}
			}
		}
	}
	return out
}

// CheckC16: priority then FIFO between clone workloads of one leaf queue, on the allocate action.
func CheckC16(m *Model, events []sched.Event, cycle int, st *Stats) []run.Violation {
	var out []run.Violation
	ranAllocate := false
	placed := map[string]bool{}
	for i := range events {
		e := &events[i]
		if e.Action == "allocate" {
			ranAllocate = true
			if (e.Kind == "bind" || e.Kind == "pipeline") && OK(e) {
				placed[e.Group] = true
			}
		}
	}
	_ = ranAllocate
	// candidate clones: every pod pending, ungated, not terminating, no bind request, enough pods for the minimum
	classes := map[string][]*enginev2alpha2.PodGroup{}
	for _, pg := range m.O.PodGroups {
		cls := pg.Annotations[spec.CloneAnno]
		if cls == "" {
			continue
		}
		n, ok := 0, true
		for _, p := range m.O.Pods {
			if p.Annotations["pod-group-name"] != pg.Name {
				continue
			}
			if p.Status.Phase != "Pending" || p.Spec.NodeName != "" || p.DeletionTimestamp != nil || len(p.Spec.SchedulingGates) > 0 {
				ok = false
			}
			if _, has := m.BRs[p.Namespace+"/"+p.Name]; has {
				ok = false
			}
			n++
		}
		if !ok || n < int(pg.Spec.MinMember) || n == 0 {
			continue
		}
		if _, qok := m.Queues[pg.Spec.Queue]; !qok {
			continue
		}
		classes[cls+"@"+pg.Spec.Queue] = append(classes[cls+"@"+pg.Spec.Queue], pg)
	}
	keys := make([]string, 0, len(classes))
	for k := range classes {
		keys = append(keys, k)
	}
	sort.Strings(keys)
	for _, k := range keys {
		pgs := classes[k]
		for _, a := range pgs {
			for _, b := range pgs {
				if a == b || !placed[b.Name] || placed[a.Name] {
					continue
				}
				if m.Preemptible(a) != m.Preemptible(b) {
					continue
				}
				st.Inc("comparable_pairs_with_one_placed")
				st.NonTrivial = true
				pa, pb := m.Priority(a), m.Priority(b)
				if pa > pb {
					out = append(out, Viol("C16", "lower-priority-placed-first", "", cycle,
						"queue %s: clone %s (priority %d) was placed by allocate while clone %s (priority %d) was left unplaced", a.Spec.Queue, b.Name, pb, a.Name, pa))
				} else if pa == pb && a.CreationTimestamp.Time.Before(b.CreationTimestamp.Time) {
					out = append(out, Viol("C16", "younger-placed-first", "", cycle,
						"queue %s: clone %s (created %s) was placed by allocate while the older clone %s (created %s, same priority %d) was left unplaced",
						a.Spec.Queue, b.Name, b.CreationTimestamp.UTC().Format("15:04:05"), a.Name, a.CreationTimestamp.UTC().Format("15:04:05"), pa))
				}
			}
		}
	}
	return out
}
