package oracle

import (
	"regexp"
	"strconv"

	v1 "k8s.io/api/core/v1"

	enginev2 "github.com/NVIDIA/KAI-scheduler/pkg/apis/scheduling/v2"

	"verif/harness/internal/k8sm"
)

// Res is a (gpu devices, cpu milli, memory bytes) triple.
type Res struct{ GPU, CPU, Mem float64 }

func (a Res) Add(b Res) Res { return Res{a.GPU + b.GPU, a.CPU + b.CPU, a.Mem + b.Mem} }
func (a Res) Sub(b Res) Res { return Res{a.GPU - b.GPU, a.CPU - b.CPU, a.Mem - b.Mem} }
func (a Res) Get(i int) float64 {
	switch i {
	case 0:
		return a.GPU
	case 1:
		return a.CPU
	}
	return a.Mem
}

var ResNames = []string{"gpu", "cpu", "memory"}

var migRe = regexp.MustCompile(`^nvidia\.com/mig-(\d+)g\.`)

// PodRes is the quantity a pod charges to its queue when it runs on node n (n may be nil for cpu/memory only).
func PodRes(p *v1.Pod, n *v1.Node) Res {
	req := k8sm.PodRequest(p)
	gr := k8sm.GPURequest(p)
	r := Res{CPU: float64(req[v1.ResourceCPU]), Mem: float64(req[v1.ResourceMemory])}
	switch {
	case gr.Fraction > 0:
		r.GPU = gr.Fraction * float64(gr.Devices)
	case gr.Memory > 0:
		m := int64(100)
		if n != nil {
			m = k8sm.NodeGPUMemory(n)
		}
		r.GPU = float64(gr.Memory) / float64(m) * float64(gr.Devices)
	default:
		r.GPU = float64(gr.Whole)
		for name, cnt := range gr.Mig {
			if mm := migRe.FindStringSubmatch(string(name)); mm != nil {
				g, _ := strconv.Atoi(mm[1])
				r.GPU += float64(g) * float64(cnt)
			}
		}
	}
	return r
}

// QueueLimits returns limit and quota triples of a queue (-1 = unlimited).
func QueueLimits(q *enginev2.Queue) (limit, quota Res) {
	if q.Spec.Resources == nil {
		return Res{}, Res{} // zero quota and limit, like the scheduler reads a nil resources block
	}
	r := q.Spec.Resources
	mb := func(x float64) float64 {
		if x < 0 {
			return -1
		}
		return x * 1000 * 1000
	}
	return Res{r.GPU.Limit, r.CPU.Limit, mb(r.Memory.Limit)}, Res{r.GPU.Quota, r.CPU.Quota, mb(r.Memory.Quota)}
}

// QueueUsage is the running per-queue allocation model.
type QueueUsage struct {
	m       *Model
	Alloc   map[string]Res // queue -> allocation incl. descendants
	AllocNP map[string]Res // non-preemptible part
	counted map[string]Res // pod key -> what is currently charged for it
}

// NewQueueUsage charges every active (bound/binding/running, non-terminating) pod to its queue path.
func NewQueueUsage(m *Model) *QueueUsage {
	u := &QueueUsage{m: m, Alloc: map[string]Res{}, AllocNP: map[string]Res{}, counted: map[string]Res{}}
	for _, p := range m.O.Pods {
		if !m.Active(p) {
			continue
		}
		pg := m.PodGroupOf(p)
		if pg == nil || p.Spec.SchedulerName != "kai-scheduler" {
			continue
		}
		u.charge(p, m.AllNodes[m.NodeOf(p)], +1)
	}
	return u
}

func (u *QueueUsage) charge(p *v1.Pod, n *v1.Node, sign float64) Res {
	pg := u.m.PodGroupOf(p)
	if pg == nil {
		return Res{}
	}
	k := p.Namespace + "/" + p.Name
	var r Res
	if sign > 0 {
		if _, dup := u.counted[k]; dup {
			return Res{}
		}
		r = PodRes(p, n)
		u.counted[k] = r
	} else {
		var ok bool
		r, ok = u.counted[k]
		if !ok {
			return Res{}
		}
		delete(u.counted, k)
	}
	np := !u.m.Preemptible(pg)
	for _, q := range u.m.QueuePath(pg.Spec.Queue) {
		if sign > 0 {
			u.Alloc[q.Name] = u.Alloc[q.Name].Add(r)
			if np {
				u.AllocNP[q.Name] = u.AllocNP[q.Name].Add(r)
			}
		} else {
			u.Alloc[q.Name] = u.Alloc[q.Name].Sub(r)
			if np {
				u.AllocNP[q.Name] = u.AllocNP[q.Name].Sub(r)
			}
		}
	}
	return r
}

// Place charges a bound/nominated pod (no-op if already charged); returns what was added.
func (u *QueueUsage) Place(p *v1.Pod, n *v1.Node) Res { return u.charge(p, n, +1) }

// Remove un-charges an evicted pod; returns what was removed.
func (u *QueueUsage) Remove(p *v1.Pod) Res { return u.charge(p, nil, -1) }

func (u *QueueUsage) Clone() *QueueUsage {
	c := &QueueUsage{m: u.m, Alloc: map[string]Res{}, AllocNP: map[string]Res{}, counted: map[string]Res{}}
	for k, v := range u.Alloc {
		c.Alloc[k] = v
	}
	for k, v := range u.AllocNP {
		c.AllocNP[k] = v
	}
	for k, v := range u.counted {
		c.counted[k] = v
	}
	return c
}
