package oracle

import (
	"fmt"
	"sort"
	"strings"
	"time"

	metav1 "k8s.io/apimachinery/pkg/apis/meta/v1"

	enginev2 "github.com/NVIDIA/KAI-scheduler/pkg/apis/scheduling/v2"
	enginev2alpha2 "github.com/NVIDIA/KAI-scheduler/pkg/apis/scheduling/v2alpha2"

	"verif/harness/internal/run"
	"verif/harness/internal/sched"
)

func pluginDuration(m *Model, plugin, key string) time.Duration {
	if v, ok := m.Cfg.PluginArgs[plugin][key]; ok {
		if d, err := time.ParseDuration(v); err == nil && d >= 0 {
			return d
		}
	}
	return 0
}

// rootPath returns the queue path root-first.
func (m *Model) rootPath(leaf string) []*enginev2.Queue {
	p := m.QueuePath(leaf)
	for i, j := 0, len(p)-1; i < j; i, j = i+1, j-1 {
		p[i], p[j] = p[j], p[i]
	}
	return p
}

// PreemptMinRuntime: first set value walking up from the victim's queue, else the plugin default.
func (m *Model) PreemptMinRuntime(victimQueue string) time.Duration {
	for _, q := range m.QueuePath(victimQueue) {
		if q.Spec.PreemptMinRuntime != nil {
			return q.Spec.PreemptMinRuntime.Duration
		}
	}
	return pluginDuration(m, "minruntime", "defaultPreemptMinRuntime")
}

// ReclaimMinRuntime resolves the documented "queue" and "lca" methods.
func (m *Model) ReclaimMinRuntime(reclaimerQueue, victimQueue string) time.Duration {
	def := pluginDuration(m, "minruntime", "defaultReclaimMinRuntime")
	method := m.Cfg.PluginArgs["minruntime"]["reclaimResolveMethod"]
	first := func(qs []*enginev2.Queue) time.Duration { // qs leaf-first
		for _, q := range qs {
			if q.Spec.ReclaimMinRuntime != nil {
				return q.Spec.ReclaimMinRuntime.Duration
			}
		}
		return def
	}
	if method == "queue" {
		return first(m.QueuePath(victimQueue))
	}
	vp := m.rootPath(victimQueue)
	rp := m.rootPath(reclaimerQueue)
	if len(vp) == 0 {
		return def
	}
	lca := -1
	for i := 0; i < len(vp) && i < len(rp); i++ {
		if vp[i].Name != rp[i].Name {
			break
		}
		lca = i
	}
	start := lca
	if lca+1 < len(vp) {
		start = lca + 1 // one step down from the LCA towards the victim
	}
	if start < 0 {
		start = 0
	}
	var up []*enginev2.Queue
	for i := start; i >= 0; i-- {
		up = append(up, vp[i])
	}
	return first(up)
}

func lastStart(pg *enginev2alpha2.PodGroup) (time.Time, bool) {
	s := pg.Annotations["kai.scheduler/last-start-timestamp"]
	if s == "" {
		return time.Time{}, false
	}
	t, err := time.Parse(time.RFC3339, s)
	if err != nil || t.IsZero() {
		return time.Time{}, false
	}
	return t, true
}

// protectedBy reports whether the workload is inside a min-runtime of duration d at time now, and whether
// the answer is far enough from the boundary to be independent of wall-clock jitter.
func protectedBy(pg *enginev2alpha2.PodGroup, d time.Duration, now time.Time) (protected, robust bool) {
	st, ok := lastStart(pg)
	if obs, seen := observedStart[pg.Name]; seen && (!ok || obs.After(st)) {
		st, ok = obs, true
	}
	if !ok || d <= 0 {
		return false, true
	}
	until := st.Add(d)
	diff := until.Sub(now)
	if diff < 0 {
		diff = -diff
	}
	return now.Before(until), diff > 5*time.Minute
}

// observedStart is the oracle's own record of when a workload (re)started in the current case: the time of the cycle
// in which allocate bound pods of a workload that had no active (non-terminating, placed) pod before. The
// last-start-timestamp annotation in the store is written by the scheduler itself after the first cycle, so the
// oracle only trusts it for what the generator put there. Reset per case (ResetC06).
var observedStart = map[string]time.Time{}

// ResetC06 forgets the observed starts (new case).
func ResetC06() { observedStart = map[string]time.Time{} }

// CheckC06: only eligible victims are evicted, and only to place a workload.
func CheckC06(m *Model, events []sched.Event, cycle int, now time.Time, st *Stats) []run.Violation {
	var out []run.Violation
	// (re)starts of this cycle, in event order: a bind by allocate for a workload without active pods
	activeBefore := map[string]int{}
	for _, p := range m.O.Pods {
		if g := p.Annotations["pod-group-name"]; g != "" && m.Active(p) {
			activeBefore[g]++
		}
	}
	restartAt := map[string]int{} // group -> index of the event that (re)started it in this cycle
	for i := range events {
		e := &events[i]
		if OK(e) && e.Kind == "bind" && e.Action == "allocate" && activeBefore[e.Group] == 0 {
			if _, seen := restartAt[e.Group]; !seen {
				restartAt[e.Group] = i
				st.Inc("workload_starts_observed")
				for _, p := range m.O.Pods {
					if p.Annotations["pod-group-name"] == e.Group && p.DeletionTimestamp != nil && p.Spec.NodeName != "" {
						st.Inc("workload_restarts_while_old_pod_terminating")
						break
					}
				}
			}
		}
	}
	defer func() {
		for g := range restartAt {
			observedStart[g] = now
		}
	}()
	failedInAction := map[string]bool{}
	placedByAction := map[string]map[string]bool{} // action -> group placed (bind/pipeline ok)
	pipedTo := map[string]map[string]string{}      // action -> pod key -> node
	pipedGroups := map[string][]string{}           // action/pod key -> GPU groups of the nomination
	for i := range events {
		e := &events[i]
		if !OK(e) {
			failedInAction[e.Action] = true
			continue
		}
		if e.Kind == "bind" || e.Kind == "pipeline" {
			if placedByAction[e.Action] == nil {
				placedByAction[e.Action] = map[string]bool{}
				pipedTo[e.Action] = map[string]string{}
			}
			placedByAction[e.Action][e.Group] = true
			if e.Kind == "pipeline" {
				pipedTo[e.Action][e.Key()] = e.Node
				pipedGroups[e.Action+"/"+e.Key()] = e.GPUGroups
			}
		}
	}
	// the elastic exception is judged when the evicting action ends: evictions of this cycle up to the last event of
	// that action (a later action may shrink the workload further under its own rules)
	lastOfAction := map[string]int{}
	for i := range events {
		lastOfAction[events[i].Action] = i
	}
	staysAboveMin := func(group, action string) bool {
		pg := m.PodGroups[group]
		mins := PodSets(pg)
		before := map[string]int{}
		for _, p := range m.O.Pods {
			if p.Annotations["pod-group-name"] == group && m.Active(p) {
				before[podSetOf(p)]++
			}
		}
		evicted := map[string]int{}
		seen := map[string]bool{}
		boundNow := map[string]bool{}
		for i := 0; i <= lastOfAction[action] && i < len(events); i++ {
			e := &events[i]
			if e.Kind == "bind" && OK(e) && e.Group == group {
				// a member bound earlier in this cycle (e.g. the replacement of a terminating pod) is a member
				if p, ok := m.Pods[e.Key()]; ok && !m.Active(p) && !boundNow[e.Key()] {
					before[podSetOf(p)]++
					boundNow[e.Key()] = true
				}
				continue
			}
			if e.Kind != "evict" || !OK(e) || e.Group != group {
				continue
			}
			if p, ok := m.Pods[e.Key()]; ok && boundNow[e.Key()] && !seen[e.Key()] {
				seen[e.Key()] = true // bound and evicted again in this cycle
				evicted[podSetOf(p)]++
				continue
			}
			if p, ok := m.Pods[e.Key()]; ok && m.Active(p) && !seen[e.Key()] {
				seen[e.Key()] = true // a pod moved by one action and evicted again by the next is one lost member
				evicted[podSetOf(p)]++
			}
		}
		for s, n := range evicted {
			if min, ok := mins[s]; ok && before[s]-n < min {
				return false
			}
		}
		return true
	}
	for i := range events {
		e := &events[i]
		if ri, ok := restartAt[e.Group]; ok && ri < i {
			observedStart[e.Group] = now // (re)started earlier in this very cycle
		}
		if e.Kind == "evict" && OK(e) {
			if _, restarted := observedStart[e.Group]; restarted {
				st.Inc("evictions_of_workload_started_in_this_case")
			}
		}
		if e.Kind != "evict" || !OK(e) {
			continue
		}
		act := e.EvictAction
		if act != "reclaim" && act != "preempt" && act != "consolidation" {
			st.Inc("evictions_other_action:" + act)
			continue
		}
		st.Inc("evictions_" + act)
		st.NonTrivial = true
		vpg, ok := m.PodGroups[e.Group]
		if !ok {
			out = append(out, Viol("C06", "victim-without-podgroup", act, cycle, "%s evicted pod %s whose pod group %q is not in the store", act, e.Key(), e.Group))
			continue
		}
		if !m.Preemptible(vpg) {
			out = append(out, Viol("C06", "non-preemptible-victim", act, cycle, "%s evicted pod %s of non-preemptible workload %s (priority %d, preemptibility %q)", act, e.Key(), vpg.Name, m.Priority(vpg), vpg.Spec.Preemptibility))
		}
		var ppg *enginev2alpha2.PodGroup
		if e.Preemptor != "" {
			parts := strings.SplitN(e.Preemptor, "/", 2)
			ppg = m.PodGroups[parts[len(parts)-1]]
		}
		if ppg == nil {
			out = append(out, Viol("C06", "eviction-without-preemptor", act, cycle, "%s evicted pod %s without naming an existing preemptor (%q)", act, e.Key(), e.Preemptor))
			continue
		}
		// queue / priority relation
		switch act {
		case "preempt":
			if vpg.Spec.Queue != ppg.Spec.Queue {
				out = append(out, Viol("C06", "preempt-other-queue", "", cycle, "preempt evicted pod %s of queue %s for preemptor %s of queue %s", e.Key(), vpg.Spec.Queue, ppg.Name, ppg.Spec.Queue))
			}
			if m.Priority(vpg) >= m.Priority(ppg) {
				out = append(out, Viol("C06", "preempt-not-lower-priority", "", cycle, "preempt evicted pod %s (priority %d) for preemptor %s (priority %d)", e.Key(), m.Priority(vpg), ppg.Name, m.Priority(ppg)))
			}
		case "reclaim":
			if vpg.Spec.Queue == ppg.Spec.Queue {
				out = append(out, Viol("C06", "reclaim-same-queue", "", cycle, "reclaim evicted pod %s of queue %s for reclaimer %s of the same queue", e.Key(), vpg.Spec.Queue, ppg.Name))
			}
		}
		// min-runtime
		var prot, robust bool
		switch act {
		case "preempt":
			prot, robust = protectedBy(vpg, m.PreemptMinRuntime(vpg.Spec.Queue), now)
		case "reclaim":
			prot, robust = protectedBy(vpg, m.ReclaimMinRuntime(ppg.Spec.Queue, vpg.Spec.Queue), now)
		case "consolidation":
			// the statement does not say which of the two min-runtimes applies: demand only the weakest reading
			p1, r1 := protectedBy(vpg, m.PreemptMinRuntime(vpg.Spec.Queue), now)
			p2, r2 := protectedBy(vpg, m.ReclaimMinRuntime(ppg.Spec.Queue, vpg.Spec.Queue), now)
			prot, robust = p1 && p2, r1 && r2
		}
		if prot {
			st.Inc("evictions_of_protected_workload")
		}
		if prot && robust && !staysAboveMin(e.Group, e.Action) {
			out = append(out, Viol("C06", "victim-inside-min-runtime", act, cycle, "%s evicted pod %s of workload %s which started at %s and is inside its minimum runtime, and the workload does not stay at its minimum size", act, e.Key(), vpg.Name, vpg.Annotations["kai.scheduler/last-start-timestamp"]))
		}
		// committed together with the placement of the preemptor
		if !failedInAction[e.Action] {
			if !placedByAction[e.Action][ppg.Name] {
				out = append(out, Viol("C06", "eviction-without-placement", act, cycle, "%s evicted pod %s for %s but no pod of %s was bound or nominated by the same action in this cycle", act, e.Key(), ppg.Name, ppg.Name))
			}
			if act == "consolidation" {
				if to, ok := pipedTo[e.Action][e.Key()]; !ok || to == e.Node {
					kind := "not-renominated"
					if ok {
						kind = "renominated-on-same-node"
						// a shared-GPU pod moved to another GPU device of its node (GPU defragmentation inside a node)
						if ng := pipedGroups[e.Action+"/"+e.Key()]; len(ng) > 0 && m.Pods[e.Key()] != nil && !sameStrings(ng, m.GroupsOf(m.Pods[e.Key()])) {
							kind = "shared-gpu-pod-moved-to-other-device-of-same-node"
						}
					}
					out = append(out, Viol("C06", "consolidation-without-replacement", kind, cycle, "consolidation evicted pod %s from %s without nominating it on another node (nominated to %q)", e.Key(), e.Node, to))
				} else {
					st.Inc("consolidation_moves")
				}
			}
		}
	}
	return out
}

var _ = fmt.Sprintf
var _ metav1.Duration

func sameStrings(a, b []string) bool {
	a, b = append([]string(nil), a...), append([]string(nil), b...)
	sort.Strings(a)
	sort.Strings(b)
	if len(a) != len(b) {
		return false
	}
	for i := range a {
		if a[i] != b[i] {
			return false
		}
	}
	return true
}
