package mon

// Resource claims (Dynamic Resource Allocation) in the online monitors.
//
// The scheduler's view of a claim lives in the SharedDRAManager of the session's framework handle:
//   - the assume cache (ResourceClaims().List/Get): the informer's object, or the newer object the dynamicresources
//     plugin "assumed" when it (de)allocated the claim for a simulated or real step;
//   - the allocated-device set the structured allocator is given (GatherAllocatedState): maintained from assume
//     cache events, plus the allocations of in-flight BindRequests (SignalClaimPendingAllocation).
// DumpClaims (C13) prints both canonically; CheckClaims (C14) recomputes from the session's PODS which claims must
// be allocated / reserved and where, and compares.

import (
	"fmt"
	"sort"
	"strings"

	v1 "k8s.io/api/core/v1"
	resourceapi "k8s.io/api/resource/v1"
	k8sframework "k8s.io/kubernetes/pkg/scheduler/framework"

	schedulingv1alpha2 "github.com/NVIDIA/KAI-scheduler/pkg/apis/scheduling/v1alpha2"
	"github.com/NVIDIA/KAI-scheduler/pkg/scheduler/api/common_info"
	"github.com/NVIDIA/KAI-scheduler/pkg/scheduler/api/node_info"
	"github.com/NVIDIA/KAI-scheduler/pkg/scheduler/api/pod_info"
	"github.com/NVIDIA/KAI-scheduler/pkg/scheduler/api/pod_status"
	"github.com/NVIDIA/KAI-scheduler/pkg/scheduler/framework"
)

// DRAEnabled is set by the driver of a case: the case contains resource.k8s.io objects (decided from the generated
// API objects, not from anything the scheduler reports - a scheduler that lost its claims must not blind the monitor).
var DRAEnabled bool

// draManager returns the session's DRA manager, or nil for cases without DRA objects (the manager is not even touched
// then, so those sessions behave exactly as before).
func draManager(ssn *framework.Session) k8sframework.SharedDRAManager {
	if !DRAEnabled || ssn == nil || ssn.ClusterInfo == nil {
		return nil
	}
	pl := ssn.InternalK8sPlugins()
	if pl == nil || pl.FrameworkHandle == nil {
		return nil
	}
	return pl.FrameworkHandle.SharedDRAManager()
}

func devIDs(a *resourceapi.AllocationResult) []string {
	if a == nil {
		return nil
	}
	out := make([]string, 0, len(a.Devices.Results))
	for _, d := range a.Devices.Results {
		out = append(out, d.Driver+"/"+d.Pool+"/"+d.Device)
	}
	sort.Strings(out)
	return out
}

func reservedIDs(c *resourceapi.ResourceClaim) []string {
	out := make([]string, 0, len(c.Status.ReservedFor))
	for _, r := range c.Status.ReservedFor {
		out = append(out, r.Resource+":"+r.Name+":"+string(r.UID))
	}
	sort.Strings(out)
	return out
}

func allocatedSet(mgr k8sframework.SharedDRAManager) ([]string, bool) {
	st, err := mgr.ResourceClaims().GatherAllocatedState()
	if err != nil || st == nil {
		return nil, false
	}
	out := make([]string, 0, st.AllocatedDevices.Len())
	for id := range st.AllocatedDevices {
		out = append(out, id.String())
	}
	sort.Strings(out)
	return out, true
}

// claimUser is one pod of the session that references a claim.
type claimUser struct {
	t  *pod_info.PodInfo
	pc string // pod.spec.resourceClaims[].name
	// br: the pod's live BindRequest in the snapshot of the session (API object). Taken from the snapshot's request
	// map, not from PodInfo.BindRequest: PodInfo.Clone() drops that field, and the solvers work on clones.
	br *schedulingv1alpha2.BindRequest
}

// claimUsers maps ns/claim to the pods of the session that reference it (workload pods first, then pods that only
// appear on nodes).
func claimUsers(ssn *framework.Session) map[string][]claimUser {
	users := map[string][]claimUser{}
	seen := map[common_info.PodID]bool{}
	addPod := func(t *pod_info.PodInfo) {
		if t == nil || t.Pod == nil || seen[t.UID] {
			return
		}
		seen[t.UID] = true
		for i := range t.Pod.Spec.ResourceClaims {
			pc := &t.Pod.Spec.ResourceClaims[i]
			if n := podClaimName(t.Pod, pc); n != "" {
				u := claimUser{t: t, pc: pc.Name}
				if bri := ssn.ClusterInfo.BindRequests.GetBindRequestForPod(t.Pod); bri != nil {
					u.br = bri.BindRequest
				} else if t.BindRequest != nil {
					u.br = t.BindRequest.BindRequest
				}
				users[t.Namespace+"/"+n] = append(users[t.Namespace+"/"+n], u)
			}
		}
	}
	for _, job := range ssn.ClusterInfo.PodGroupInfos {
		for _, t := range job.GetAllPodsMap() {
			addPod(t)
		}
	}
	for _, ni := range ssn.ClusterInfo.Nodes {
		for _, t := range ni.PodInfos {
			addPod(t)
		}
	}
	return users
}

// effectiveClaim is the scheduler's view of one claim: the object of the assume cache; if that object is not
// allocated but the manager holds an in-flight allocation for the claim (SignalClaimPendingAllocation at session
// open for the BindRequest of a pod), the allocation and the reservation of that BindRequest. (The in-flight object
// itself cannot be read back from the manager; it is what the plugin built from the pod's BindRequest.)
func effectiveClaim(mgr k8sframework.SharedDRAManager, c *resourceapi.ResourceClaim, users []claimUser) (devs, reserved []string, inFlight bool) {
	devs, reserved = devIDs(c.Status.Allocation), reservedIDs(c)
	if c.Status.Allocation != nil || !mgr.ResourceClaims().ClaimHasPendingAllocation(c.UID) {
		return devs, reserved, false
	}
	for _, u := range users {
		if u.br == nil {
			continue
		}
		for _, ra := range u.br.Spec.ResourceClaimAllocations {
			if ra.Name == u.pc && ra.Allocation != nil {
				devs = devIDs(ra.Allocation)
				id := "pods:" + u.t.Pod.Name + ":" + string(u.t.Pod.UID)
				dup := false
				for _, r := range reserved {
					dup = dup || r == id
				}
				if !dup {
					reserved = append(reserved, id)
				}
				inFlight = true
			}
		}
	}
	sort.Strings(reserved)
	return devs, reserved, inFlight
}

// DumpClaims is the claim part of the canonical dump: every claim of the manager's assume cache (allocated devices
// sorted, reservedFor sorted), the device set the allocator sees as taken, and per pod the allocation the pod
// remembers for each of its claims (PodInfo.ResourceClaimInfo: read by the plugin when the pod is allocated again
// and copied into the BindRequest).
func DumpClaims(ssn *framework.Session) []string {
	mgr := draManager(ssn)
	if mgr == nil {
		return nil
	}
	var out []string
	claims, err := mgr.ResourceClaims().List()
	if err != nil {
		return []string{"claims list-error " + err.Error()}
	}
	users := claimUsers(ssn)
	for _, c := range claims {
		devs, reserved, _ := effectiveClaim(mgr, c, users[c.Namespace+"/"+c.Name])
		out = append(out, fmt.Sprintf("claim %s/%s devices=%v reservedFor=%v", c.Namespace, c.Name, devs, reserved))
	}
	if set, ok := allocatedSet(mgr); ok {
		out = append(out, fmt.Sprintf("claims allocated-devices %v", set))
	}
	for id, job := range ssn.ClusterInfo.PodGroupInfos {
		for _, t := range job.GetAllPodsMap() {
			if t.Pod == nil || len(t.Pod.Spec.ResourceClaims) == 0 {
				continue
			}
			var parts []string
			for name, info := range t.ResourceClaimInfo {
				if info != nil {
					parts = append(parts, fmt.Sprintf("%s=%v", name, devIDs(info.Allocation)))
				}
			}
			sort.Strings(parts)
			out = append(out, fmt.Sprintf("claiminfo job %s pod %s %s", id, t.Name, strings.Join(parts, ",")))
		}
	}
	return out
}

// podClaimName resolves a pod.spec.resourceClaims entry with the monitor's own code.
func podClaimName(p *v1.Pod, pc *v1.PodResourceClaim) string {
	if pc.ResourceClaimName != nil {
		return *pc.ResourceClaimName
	}
	for _, s := range p.Status.ResourceClaimStatuses {
		if s.Name == pc.Name && s.ResourceClaimName != nil {
			return *s.ResourceClaimName
		}
	}
	return ""
}

// CheckClaims recomputes from the pods of the session which claims must be allocated and reserved, and compares
// with the manager's view:
//   - a pod that holds a place on a node (Allocated, Pipelined, Binding, Bound, Running) holds its claims: each is
//     allocated and lists the pod in reservedFor; a claim's devices belong to slices of that pod's node;
//   - a claim is allocated only if somebody holds it: a pod as above, a pod that is really terminating (deletion
//     timestamp in the API object) or finished (still in reservedFor until the claim controller removes it), or a
//     consumer the session does not know; a pod that is pending or was evicted in this session holds nothing;
//   - a pod that is Running / Bound / Binding in the API and a consumer of an allocated API claim uses exactly the
//     devices of the API object (an allocation does not change while it has consumers);
//   - no device belongs to two claims;
//   - the device set given to the allocator equals the union of the devices of the allocated claims (plus the
//     allocations of in-flight BindRequests).
//
// For a Binding pod whose claim is unallocated in the cache the allocation of its BindRequest counts (in flight).
func CheckClaims(ssn *framework.Session, st map[string]int) []string {
	mgr := draManager(ssn)
	if mgr == nil {
		return nil
	}
	claims, err := mgr.ResourceClaims().List()
	if err != nil {
		return nil
	}
	st["claim_checks"]++
	// device -> node, from the ResourceSlices
	devNode := map[string]string{}
	if slices, err := mgr.ResourceSlices().ListWithDeviceTaintRules(); err == nil {
		for _, s := range slices {
			n := ""
			if s.Spec.NodeName != nil {
				n = *s.Spec.NodeName
			}
			for _, d := range s.Spec.Devices {
				devNode[s.Spec.Driver+"/"+s.Spec.Pool.Name+"/"+d.Name] = n
			}
		}
	}
	users := claimUsers(ssn)
	// the API objects the session was opened on (snapshot of the claim lister)
	api := map[string]*resourceapi.ResourceClaim{}
	for _, c := range ssn.ClusterInfo.ResourceClaims {
		api[c.Namespace+"/"+c.Name] = c
	}
	var out []string
	owner := map[string]string{} // device -> claim
	union := map[string]bool{}
	keys := make([]string, 0, len(claims))
	byKey := map[string]*resourceapi.ResourceClaim{}
	for _, c := range claims {
		k := c.Namespace + "/" + c.Name
		keys = append(keys, k)
		byKey[k] = c
	}
	sort.Strings(keys)
	viewOwner := map[string]string{} // device -> claim that holds it in the scheduler's view (pre-pass)
	for _, k := range keys {
		ds, _, _ := effectiveClaim(mgr, byKey[k], users[k])
		for _, d := range ds {
			viewOwner[d] = k
		}
	}
	for _, k := range keys {
		c := byKey[k]
		st["claim_comparisons"]++
		devs, reservedList, inFlight := effectiveClaim(mgr, c, users[k])
		reserved := map[string]bool{}
		known := map[string]bool{}
		for _, u := range users[k] {
			known[string(u.t.UID)] = true
		}
		foreignConsumer := false
		for _, r := range reservedList {
			f := strings.SplitN(r, ":", 3)
			if len(f) == 3 && f[0] == "pods" && known[f[2]] {
				reserved[f[2]] = true
			} else {
				foreignConsumer = true
			}
		}
		if inFlight {
			st["claims_in_flight"]++
		}
		shared := "sole-consumer"
		if len(users[k]) > 1 {
			shared = "shared-claim"
		}
		mustHold, mayHold := 0, 0
		for _, u := range users[k] {
			t := u.t
			switch {
			case pod_status.IsActiveAllocatedStatus(t.Status) && t.NodeName != "":
				mustHold++
				st["claim_holders_"+t.Status.String()]++
				if len(devs) == 0 {
					out = append(out, fmt.Sprintf("claim %s unallocated:%v:%s: pod %s is %v on node %s but its claim holds no device", k, t.Status, shared, t.Name, t.Status, t.NodeName))
				} else if !reserved[string(t.UID)] {
					out = append(out, fmt.Sprintf("claim %s reservedFor-missing:%v:%s: pod %s is %v on node %s but is not in reservedFor %v", k, t.Status, shared, t.Name, t.Status, t.NodeName, reservedList))
				}
				// a pod that holds its place in the API (Running / Bound / being bound - not a placement of this session)
				// and is a consumer of the claim in the API uses the devices the API object names: an allocation is
				// immutable while it has consumers
				if ac := api[k]; ac != nil && ac.Status.Allocation != nil && len(devs) > 0 &&
					(t.Status == pod_status.Running || t.Status == pod_status.Bound || t.Status == pod_status.Binding) {
					for _, r := range ac.Status.ReservedFor {
						if r.Resource == "pods" && string(r.UID) == string(t.UID) {
							st["claim_api_allocation_comparisons"]++
							if want := devIDs(ac.Status.Allocation); strings.Join(want, ",") != strings.Join(devs, ",") {
								// where is the device the pod really uses in the scheduler's view: given to another claim
								// (the pod was evicted in a scenario, its device went to the preemptor, the pod was
								// re-placed on its node on another free device) or held by nobody (the view lost it)
								where := "api-device-free-in-view"
								for _, d := range want {
									if o, ok := viewOwner[d]; ok && o != k {
										where = "api-device-given-to-other-claim"
									}
								}
								out = append(out, fmt.Sprintf("claim %s devices-differ-from-api:%s:%v:%s: pod %s is %v on node %s and uses %v according to the API object, the scheduler's view says %v",
									k, where, t.Status, shared, t.Name, t.Status, t.NodeName, want, devs))
							}
						}
					}
				}
				// a pod that is being bound uses the devices its BindRequest (API object) names, unless the claim was
				// already allocated (then the binder keeps the existing allocation, compared above)
				if ac := api[k]; ac != nil && ac.Status.Allocation == nil && len(devs) > 0 && t.Status == pod_status.Binding &&
					u.br != nil {
					for _, ra := range u.br.Spec.ResourceClaimAllocations {
						if ra.Name == u.pc && ra.Allocation != nil {
							st["claim_api_allocation_comparisons"]++
							if want := devIDs(ra.Allocation); strings.Join(want, ",") != strings.Join(devs, ",") {
								out = append(out, fmt.Sprintf("claim %s devices-differ-from-api:%v:%s: pod %s is being bound to node %s with %v according to its BindRequest, the scheduler's view says %v",
									k, t.Status, shared, t.Name, t.NodeName, want, devs))
							}
						}
					}
				}
				for _, d := range devs {
					if n, ok := devNode[d]; !ok {
						out = append(out, fmt.Sprintf("claim %s unknown-device: device %s (held for pod %s) is in no ResourceSlice", k, d, t.Name))
					} else if n != t.NodeName {
						out = append(out, fmt.Sprintf("claim %s device-on-other-node:%v:%s: device %s is on node %s but holder pod %s is %v on node %s", k, t.Status, shared, d, n, t.Name, t.Status, t.NodeName))
					}
				}
			case (t.Status == pod_status.Releasing && t.Pod.DeletionTimestamp != nil) || t.Status == pod_status.Succeeded || t.Status == pod_status.Failed ||
				t.Status == pod_status.Unknown || t.Status == pod_status.Deleted:
				// really terminating (the API object carries a deletion timestamp) or finished: still a consumer until the
				// claim controller removes it. (PodInfo.IsVirtualStatus is set after the event handlers ran, so it cannot
				// be used inside a handler.)
				mayHold++
			case inFlight && u.br != nil:
				// the pod of an in-flight BindRequest was (virtually) evicted: the manager offers no way to withdraw an
				// in-flight allocation, the device stays taken until the request is gone - not judged
				mayHold++
				st["claims_in_flight_of_evicted_binding_pod"]++
			default:
				// pending, gated, or evicted in this session (virtually or by a committed Evict): holds nothing
				if reserved[string(t.UID)] {
					out = append(out, fmt.Sprintf("claim %s reservedFor-stale:%v:%s: pod %s is %v and holds nothing but is in reservedFor %v", k, t.Status, shared, t.Name, t.Status, reservedList))
				}
			}
		}
		if len(devs) > 0 && mustHold == 0 && mayHold == 0 && !foreignConsumer {
			out = append(out, fmt.Sprintf("claim %s allocated-without-holder:%s: devices %v are held but no pod of the session holds the claim (inFlight=%v)", k, shared, devs, inFlight))
		}
		for _, d := range devs {
			if o, dup := owner[d]; dup && o != k {
				out = append(out, fmt.Sprintf("claim %s device-in-two-claims: device %s is also allocated to claim %s", k, d, o))
			}
			owner[d] = k
			union[d] = true
		}
		if len(devs) > 0 {
			st["claims_seen_allocated"]++
		} else {
			st["claims_seen_unallocated"]++
		}
	}
	if set, ok := allocatedSet(mgr); ok {
		inSet := map[string]bool{}
		for _, d := range set {
			inSet[d] = true
			if !union[d] {
				out = append(out, fmt.Sprintf("claims device-set-ghost: the allocator's device set holds %s which no claim of the cache (or in-flight BindRequest of a pod) has", d))
			}
		}
		for d := range union {
			if !inSet[d] {
				out = append(out, fmt.Sprintf("claims device-set-missing: %s is allocated to claim %s but is not in the allocator's device set", d, owner[d]))
			}
		}
		st["claim_device_set_comparisons"]++
	}
	sort.Strings(out)
	return out
}

// claimSig condenses a CheckClaims message to its clause.
func claimSig(msg string) string {
	f := strings.Fields(msg)
	if len(f) >= 3 && f[0] == "claim" {
		return strings.TrimSuffix(f[2], ":")
	}
	if len(f) >= 2 {
		return strings.TrimSuffix(f[1], ":")
	}
	return msg
}

// traceClaims describes the claims of a pod for the event trace: what the manager's cache holds for the claim
// (devices, number of reservations) and what the pod remembers (PodInfo.ResourceClaimInfo).
func traceClaims(ssn *framework.Session, t *pod_info.PodInfo) string {
	if t == nil || t.Pod == nil || len(t.Pod.Spec.ResourceClaims) == 0 {
		return ""
	}
	mgr := draManager(ssn)
	if mgr == nil {
		return ""
	}
	var parts []string
	for i := range t.Pod.Spec.ResourceClaims {
		pc := &t.Pod.Spec.ResourceClaims[i]
		n := podClaimName(t.Pod, pc)
		cache := "?"
		if c, err := mgr.ResourceClaims().Get(t.Namespace, n); err == nil {
			cache = fmt.Sprintf("%v/res%d", shortDevs(devIDs(c.Status.Allocation)), len(c.Status.ReservedFor))
		}
		mem := "-"
		if info, ok := t.ResourceClaimInfo[pc.Name]; ok && info != nil {
			mem = fmt.Sprint(shortDevs(devIDs(info.Allocation)))
		}
		parts = append(parts, fmt.Sprintf("%s:cache=%s,pod=%s", n, cache, mem))
	}
	return ",claims{" + strings.Join(parts, ";") + "}"
}

func shortDevs(d []string) []string {
	out := make([]string, 0, len(d))
	for _, x := range d {
		if i := strings.Index(x, "/"); i >= 0 {
			x = x[i+1:]
		}
		out = append(out, x)
	}
	return out
}

// ClaimHistory refines the where-tag of the devices-differ-from-api clause over the events of ONE session. CheckClaims
// is stateless: it tags a deviation by where the pod's real device is in the view at that moment. A deviation that
// begins as "api-device-given-to-other-claim" (the victim was re-placed on its node while the preemptor of the same
// scenario held its device, so it was shown on another free device) is sticky for the rest of the session: the other
// claim may be undone or evicted again a few steps later, and the victim itself may be evicted and re-placed again -
// every evict operation saves, and every un-evict restores, the allocation the task had, i.e. the permuted one. The
// same incident then reads "api-device-free-in-view". A report for a claim whose deviating devices in the view are
// the ones it was given in such an incident earlier in the session keeps that tag (suffix "-earlier"); a deviation
// that is first seen with the real device free in the view (the view lost the allocation: the F3 shape), or that
// shows other devices than the incident did, keeps "api-device-free-in-view". Nothing is dropped, only classified.
type ClaimHistory struct {
	permuted map[string]map[string]bool // claim -> views ("... view says [devices]") seen as given-to-other-claim
}

const (
	tagGiven = "devices-differ-from-api:api-device-given-to-other-claim:"
	tagFree  = "devices-differ-from-api:api-device-free-in-view:"
)

// Classify rewrites the tags of one CheckClaims result and updates the history.
func (h *ClaimHistory) Classify(msgs []string) []string {
	if h.permuted == nil {
		h.permuted = map[string]map[string]bool{}
	}
	out := make([]string, 0, len(msgs))
	for _, m := range msgs {
		f := strings.Fields(m)
		if len(f) < 3 || f[0] != "claim" || !strings.HasPrefix(f[2], "devices-differ-from-api:api-device-") {
			out = append(out, m)
			continue
		}
		k, view := f[1], ""
		if i := strings.LastIndex(m, "the scheduler's view says "); i >= 0 {
			view = m[i:]
		}
		switch {
		case strings.HasPrefix(f[2], tagGiven):
			if h.permuted[k] == nil {
				h.permuted[k] = map[string]bool{}
			}
			h.permuted[k][view] = true
		case strings.HasPrefix(f[2], tagFree) && view != "" && h.permuted[k][view]:
			m = strings.Replace(m, tagFree, "devices-differ-from-api:api-device-given-to-other-claim-earlier:", 1)
		}
		out = append(out, m)
	}
	return out
}

// ---------------------------------------------------------------- GPU-class claims (pods whose GPUs are DRA devices)

// isGpuName is the scheduler's documented rule (pkg/common/resources.IsGPUDeviceClass), restated: a device class / a
// slice driver whose name contains "gpu" is a GPU class / driver.
func isGpuName(s string) bool { return strings.Contains(strings.ToLower(s), "gpu") }

// draGpuCapacity recomputes the GPU capacity of a node from API objects: nvidia.com/gpu of the node object plus the
// devices of the ResourceSlices of that node whose driver is a GPU driver. ok=false for cases without DRA objects.
func draGpuCapacity(ssn *framework.Session, ni *node_info.NodeInfo) (float64, bool) {
	mgr := draManager(ssn)
	if mgr == nil || ni.Node == nil {
		return 0, false
	}
	slices, err := mgr.ResourceSlices().ListWithDeviceTaintRules()
	if err != nil {
		return 0, false
	}
	n := 0.0
	if q, ok := ni.Node.Status.Allocatable["nvidia.com/gpu"]; ok {
		n = float64(q.Value())
	}
	for _, s := range slices {
		if s.Spec.NodeName != nil && *s.Spec.NodeName == ni.Name && isGpuName(s.Spec.Driver) {
			n += float64(len(s.Spec.Devices))
		}
	}
	return n, true
}

// CheckDraGpuRequests recomputes, for every pod of the session, how many GPUs it requests through ResourceClaims
// (API objects of the snapshot: every request of a GPU device class counts its ExactCount, "All" counts 1 - the
// documented bookkeeping rule) and compares with what the scheduler charges: PodInfo.ResReq for every pod,
// PodInfo.AcceptedResource for a pod that holds a place on a node. These numbers feed node, workload and queue
// accounting; the other C14 oracles take them from the PodInfo.
func CheckDraGpuRequests(ssn *framework.Session, st map[string]int) []string {
	if !DRAEnabled || ssn == nil || ssn.ClusterInfo == nil {
		return nil
	}
	api := map[string]*resourceapi.ResourceClaim{}
	gpuClaims := 0
	for _, c := range ssn.ClusterInfo.ResourceClaims {
		api[c.Namespace+"/"+c.Name] = c
		for _, r := range c.Spec.Devices.Requests {
			if r.Exactly != nil && isGpuName(r.Exactly.DeviceClassName) {
				gpuClaims++
				break
			}
		}
	}
	if gpuClaims == 0 {
		return nil
	}
	var out []string
	seen := map[common_info.PodID]bool{}
	check := func(t *pod_info.PodInfo) {
		if t == nil || t.Pod == nil || seen[t.UID] {
			return
		}
		seen[t.UID] = true
		want := int64(0)
		for i := range t.Pod.Spec.ResourceClaims {
			c := api[t.Namespace+"/"+podClaimName(t.Pod, &t.Pod.Spec.ResourceClaims[i])]
			if c == nil {
				continue
			}
			for _, r := range c.Spec.Devices.Requests {
				if r.Exactly == nil || !isGpuName(r.Exactly.DeviceClassName) {
					continue
				}
				switch {
				case r.Exactly.AllocationMode == resourceapi.DeviceAllocationModeAll:
					want++
				case r.Exactly.Count > 0:
					want += r.Exactly.Count
				default:
					want++
				}
			}
		}
		st["dra_gpu_request_comparisons"]++
		if want > 0 {
			st["dra_gpu_pods_seen_"+t.Status.String()]++
		}
		if got := t.ResReq.GetDraGpusCount(); got != want {
			out = append(out, fmt.Sprintf("task %s dra-gpu-request: scheduler has %d GPUs from resource claims in ResReq, recomputed %d from the claims of the pod", t.Name, got, want))
		}
		if pod_status.IsActiveUsedStatus(t.Status) && t.NodeName != "" && t.AcceptedResource != nil {
			if got := t.AcceptedResource.GetDraGpusCount(); got != want {
				out = append(out, fmt.Sprintf("task %s dra-gpu-accepted: pod is %v on node %s and is charged %d GPUs from resource claims (AcceptedResource), recomputed %d", t.Name, t.Status, t.NodeName, got, want))
			}
		}
	}
	for _, job := range ssn.ClusterInfo.PodGroupInfos {
		for _, t := range job.GetAllPodsMap() {
			check(t)
		}
	}
	for _, ni := range ssn.ClusterInfo.Nodes {
		for _, t := range ni.PodInfos {
			check(t)
		}
	}
	sort.Strings(out)
	return out
}
