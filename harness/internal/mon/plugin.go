package mon

import (
	"fmt"
	"os"
	"sort"
	"strings"

	"github.com/NVIDIA/KAI-scheduler/pkg/scheduler/api/common_info"
	"github.com/NVIDIA/KAI-scheduler/pkg/scheduler/api/pod_info"
	"github.com/NVIDIA/KAI-scheduler/pkg/scheduler/api/pod_status"
	"github.com/NVIDIA/KAI-scheduler/pkg/scheduler/framework"
	rs "github.com/NVIDIA/KAI-scheduler/pkg/scheduler/plugins/proportion/resource_share"

	"verif/harness/internal/sched"
)

// Finding is one monitor report.
type Finding struct {
	Prop   string
	Oracle string
	Sig    string
	Msg    string
	Action string
}

// Monitor is the per-worker online monitor. All state is touched only from the goroutine that drives the session.
type Monitor struct {
	CheckAccounting bool // C14
	CheckStatements bool // C13
	Findings        []Finding
	Stats           map[string]int
	ssn             *framework.Session
	rc              *sched.RecCache
	action          string
	seenSig         map[string]bool
	// statements
	stmts       map[*framework.Statement]*stmtState
	commitSeq   int
	inCommit    *framework.Statement
	maxFind     int
	trace       []string
	movedOnNode map[string]bool
	initNode    map[common_info.PodID]string
	initGroups  map[common_info.PodID][]string
}

type stmtState struct {
	d0        []string
	cps       map[int][]string
	commitSeq int
	evStart   int
	expect    map[string]string // pod uid -> expected event kind sequence key
	ops       int
}

// Cur is the monitor used by the registered plugin and the statement observer.
var Cur *Monitor

const PluginName = "verifmon"

type plugin struct{}

func (plugin) Name() string { return PluginName }
func (plugin) OnSessionOpen(ssn *framework.Session) {
	m := Cur
	if m == nil {
		return
	}
	m.ssn = ssn
	m.stmts = map[*framework.Statement]*stmtState{}
	ssn.AddEventHandler(&framework.EventHandler{
		AllocateFunc:   func(e *framework.Event) { m.onEvent("allocate-event", e) },
		DeallocateFunc: func(e *framework.Event) { m.onEvent("deallocate-event", e) },
	})
}
func (plugin) OnSessionClose(ssn *framework.Session) {
	if Cur != nil {
		Cur.ssn = nil
	}
}

var registered bool

// Register installs the plugin builder and the statement observer (idempotent).
func Register() {
	if registered {
		return
	}
	registered = true
	framework.RegisterPluginBuilder(PluginName, func(framework.PluginArguments) framework.Plugin { return plugin{} })
	framework.VerifStatementObserver = func(ssn *framework.Session, s *framework.Statement, phase string, cp int) {
		if Cur != nil && Cur.CheckStatements && Cur.ssn == ssn {
			Cur.onStatement(s, phase, cp)
		}
	}
}

func New(accounting, statements bool) *Monitor {
	return &Monitor{CheckAccounting: accounting, CheckStatements: statements, Stats: map[string]int{}, seenSig: map[string]bool{}, maxFind: 40}
}

// Hooks returns the runner hooks that attach the monitor to a cycle.
func (m *Monitor) Hooks() sched.Hooks {
	Register()
	return sched.Hooks{
		Extra: []sched.ExtraPlugin{{Name: PluginName}},
		AfterOpen: func(ssn *framework.Session, rc *sched.RecCache) {
			m.rc = rc
			m.action = "open"
			m.recordInitial()
			m.movedOnNode = nil
			m.checkAll("after-open")
		},
		BeforeAction: func(ssn *framework.Session, name string) { m.action = name },
		AfterAction:  func(ssn *framework.Session, name string) { m.checkAll("after-action") },
	}
}

func (m *Monitor) report(prop, oracle, msg string) {
	sig := oracle + ":" + SigOf(msg)
	key := prop + sig + m.action
	if m.seenSig[key] || len(m.Findings) >= m.maxFind {
		return
	}
	m.seenSig[key] = true
	m.Findings = append(m.Findings, Finding{Prop: prop, Oracle: oracle, Sig: sig + ":" + actionClass(m.action), Msg: fmt.Sprintf("[%s] %s; last events: %s", m.action, msg, strings.Join(m.trace, " ")), Action: m.action})
}

func actionClass(a string) string {
	switch a {
	case "open":
		return "snapshot"
	case "allocate":
		return "allocate"
	}
	return "solver"
}

func (m *Monitor) onEvent(kind string, e *framework.Event) {
	m.Stats[kind]++
	if e != nil && e.Task != nil {
		m.Stats["event_status_"+e.Task.Status.String()]++
		if e.Task.IsSharedGPUAllocation() {
			m.Stats["event_shared_gpu"]++
		}
	}
	if e != nil && e.Task != nil {
		// remember where an evicted pod's releasing copy lives (see Ghost)
		t := e.Task
		switch {
		case kind == "deallocate-event" && t.Status == pod_status.Releasing:
			m.initNode[t.UID] = t.NodeName
			m.initGroups[t.UID] = append([]string(nil), t.GPUGroups...)
		case kind == "allocate-event" && t.Status == pod_status.Pipelined:
			if n, ok := m.initNode[t.UID]; ok && n == t.NodeName && t.IsSharedGPUAllocation() {
				// a shared-GPU pod evicted from this node is nominated back onto the same node
				if m.movedOnNode == nil {
					m.movedOnNode = map[string]bool{}
				}
				m.movedOnNode[t.NodeName] = true
				m.Stats["same_node_shared_gpu_renominations"]++
			}
		case kind == "allocate-event" && t.Status != pod_status.Pipelined:
			delete(m.initNode, t.UID) // un-evicted or freshly allocated: no releasing copy
			delete(m.initGroups, t.UID)
		}
		m.trace = append(m.trace, fmt.Sprintf("%s(%s,%v,node=%s,groups=%v)", kind[:3], e.Task.Name, e.Task.Status, e.Task.NodeName, e.Task.GPUGroups))
		if os.Getenv("VERIF_TRACE") != "" {
			fmt.Fprintf(os.Stderr, "TRACE [%s] %s\n", m.action, m.trace[len(m.trace)-1])
		}
		if len(m.trace) > 12 {
			m.trace = m.trace[len(m.trace)-12:]
		}
	}
	if m.CheckAccounting {
		m.checkAll(kind)
	}
}

// recordInitial remembers, per pod, the node and GPU groups it had when the session was opened.
func (m *Monitor) recordInitial() {
	m.initNode = map[common_info.PodID]string{}
	m.initGroups = map[common_info.PodID][]string{}
}

func sameSet(a, b []string) bool {
	if len(a) != len(b) {
		return false
	}
	x := append([]string(nil), a...)
	y := append([]string(nil), b...)
	sort.Strings(x)
	sort.Strings(y)
	for i := range x {
		if x[i] != y[i] {
			return false
		}
	}
	return true
}

// ghosts lists the releasing copies that the scheduler keeps charged without a PodInfos entry.
func (m *Monitor) ghosts() map[string][]Ghost {
	out := map[string][]Ghost{}
	for name, ni := range m.ssn.ClusterInfo.Nodes {
		for _, t := range ni.PodInfos {
			if t.Status != pod_status.Pipelined || !t.IsSharedGPUAllocation() {
				continue
			}
			if n, ok := m.initNode[t.UID]; ok && n == name {
				out[name] = append(out[name], Ghost{Task: t, Groups: m.initGroups[t.UID], Uncertain: sameSet(m.initGroups[t.UID], t.GPUGroups)})
			}
		}
	}
	// second form: the pipelined copy was already removed again (unpipeline during a rollback) and the pod is
	// back to Releasing, but its releasing copy is still absent from PodInfos until unevict re-adds the pod
	for _, job := range m.ssn.ClusterInfo.PodGroupInfos {
		for uid, t := range job.GetAllPodsMap() {
			if t.Status != pod_status.Releasing || !t.IsSharedGPUAllocation() {
				continue
			}
			n, ok := m.initNode[uid]
			if !ok || n != t.NodeName {
				continue
			}
			ni, ok := m.ssn.ClusterInfo.Nodes[n]
			if !ok {
				continue
			}
			if _, onNode := ni.PodInfos[pod_info.PodKey(t.Pod)]; !onNode {
				out[n] = append(out[n], Ghost{Task: t, Groups: m.initGroups[uid]})
			}
		}
	}
	return out
}

func (m *Monitor) checkAll(where string) {
	if !m.CheckAccounting || m.ssn == nil || m.ssn.ClusterInfo == nil {
		return
	}
	m.Stats["accounting_checks"]++
	for _, s := range CheckNodes(m.ssn, m.ghosts(), m.Stats) {
		oracle := "node-accounting"
		if f := strings.Fields(s); len(f) > 1 && m.movedOnNode[f[1]] {
			oracle = "node-accounting-after-same-node-shared-gpu-renomination"
		}
		m.report("C14", oracle, s)
	}
	for _, s := range CheckJobs(m.ssn, m.Stats) {
		m.report("C14", "job-accounting", s)
	}
	// queue usage is updated by the proportion handler which runs before this one for the same event
	for _, s := range CheckQueues(m.ssn, sched.CurrentProportion, m.Stats) {
		m.report("C14", "queue-accounting", s)
	}
}

// ---------------------------------------------------------------- canonical dump (C13)

func fmtRes(v vec) string {
	ks := make([]string, 0, len(v))
	for k, x := range v {
		if x != 0 {
			ks = append(ks, fmt.Sprintf("%s=%.4f", k, x))
		}
	}
	sort.Strings(ks)
	return strings.Join(ks, ",")
}

func fmtGroups(g map[string]int64) string {
	ks := make([]string, 0, len(g))
	for k, x := range g {
		if x != 0 {
			ks = append(ks, fmt.Sprintf("%s=%d", k, x))
		}
	}
	sort.Strings(ks)
	return strings.Join(ks, ",")
}

// Dump returns the canonical view of the session as sorted lines.
func Dump(ssn *framework.Session) []string {
	var out []string
	for name, ni := range ssn.ClusterInfo.Nodes {
		out = append(out, fmt.Sprintf("node %s idle{%s} used{%s} releasing{%s}", name, fmtRes(resVec(ni.Idle)), fmtRes(resVec(ni.Used)), fmtRes(resVec(ni.Releasing))))
		out = append(out, fmt.Sprintf("node %s sharedUsed{%s} sharedAllocated{%s} sharedReleasing{%s}", name, fmtGroups(ni.UsedSharedGPUsMemory), fmtGroups(ni.AllocatedSharedGPUsMemory), fmtGroups(ni.ReleasingSharedGPUsMemory)))
		rel := make([]string, 0)
		for g, v := range ni.ReleasingSharedGPUs {
			if v {
				rel = append(rel, g)
			}
		}
		sort.Strings(rel)
		out = append(out, fmt.Sprintf("node %s releasingGroups%v", name, rel))
		for _, t := range ni.PodInfos {
			gs := append([]string(nil), t.GPUGroups...)
			sort.Strings(gs)
			out = append(out, fmt.Sprintf("node %s holds %s/%s status=%v groups=%v", name, t.Namespace, t.Name, t.Status, gs))
		}
	}
	for id, job := range ssn.ClusterInfo.PodGroupInfos {
		al := resVec(job.Allocated)
		out = append(out, fmt.Sprintf("job %s allocated{%s} activeAllocated=%d", id, fmtRes(al), job.GetActiveAllocatedTasksCount()))
		for _, t := range job.GetAllPodsMap() {
			gs := []string{}
			if pod_status.IsActiveUsedStatus(t.Status) {
				gs = append(gs, t.GPUGroups...)
				sort.Strings(gs)
			}
			node := t.NodeName
			if !pod_status.IsActiveUsedStatus(t.Status) {
				node = ""
			}
			out = append(out, fmt.Sprintf("job %s pod %s status=%v node=%s groups=%v virtual=%v", id, t.Name, t.Status, node, gs, t.IsVirtualStatus))
		}
		for name, ps := range job.GetSubGroups() {
			out = append(out, fmt.Sprintf("job %s set %q counters=%d/%d/%d", id, name, ps.GetNumActiveAllocatedTasks(), ps.GetNumActiveUsedTasks(), ps.GetNumAliveTasks()))
		}
	}
	if queues := queuesOf(sched.CurrentProportion); queues != nil {
		for id, qa := range queues {
			var parts []string
			for _, r := range rs.AllResources {
				sh := qa.ResourceShare(r)
				parts = append(parts, fmt.Sprintf("%s:%.4f/%.4f/%.4f", r, sh.Allocated, sh.AllocatedNotPreemptible, sh.Request))
			}
			out = append(out, fmt.Sprintf("queue %s alloc/np/request %s", id, strings.Join(parts, " ")))
		}
	}
	sort.Strings(out)
	return out
}

func diffDump(a, b []string) []string {
	inA, inB := map[string]bool{}, map[string]bool{}
	for _, l := range a {
		inA[l] = true
	}
	for _, l := range b {
		inB[l] = true
	}
	var out []string
	for _, l := range a {
		if !inB[l] {
			out = append(out, "- "+l)
		}
	}
	for _, l := range b {
		if !inA[l] {
			out = append(out, "+ "+l)
		}
	}
	return out
}

func diffSig(d []string) string {
	kinds := map[string]bool{}
	for _, l := range d {
		f := strings.Fields(l)
		if len(f) >= 4 {
			k := f[1]
			switch {
			case f[1] == "node" && strings.HasPrefix(f[3], "holds"):
				k = "node-pods"
			case f[1] == "node" && strings.HasPrefix(f[3], "shared"):
				k = "node-shared-gpu"
			case f[1] == "node":
				k = "node-resources"
			case f[1] == "job":
				k = "job"
			case f[1] == "queue":
				k = "queue"
			}
			kinds[k] = true
		}
	}
	ks := make([]string, 0, len(kinds))
	for k := range kinds {
		ks = append(ks, k)
	}
	sort.Strings(ks)
	return strings.Join(ks, "+")
}

func (m *Monitor) liveOthers(s *framework.Statement) bool {
	for o, st := range m.stmts {
		if o != s && st.ops > 0 && len(o.VerifOps()) > 0 {
			return true
		}
	}
	return false
}

func (m *Monitor) onStatement(s *framework.Statement, phase string, cp int) {
	st, known := m.stmts[s]
	switch phase {
	case "op-begin":
		if !known || (cp == 0 && len(s.VerifOps()) == 0) {
			// first operation of this statement (or of a statement object reused after clearOperations)
			m.stmts[s] = &stmtState{d0: Dump(m.ssn), cps: map[int][]string{}, commitSeq: m.commitSeq}
			m.Stats["statements"]++
			st = m.stmts[s]
		}
		st.ops++
	case "checkpoint":
		if !known {
			m.stmts[s] = &stmtState{d0: Dump(m.ssn), cps: map[int][]string{}, commitSeq: m.commitSeq}
			st = m.stmts[s]
			m.Stats["statements"]++
		}
		st.cps[cp] = Dump(m.ssn)
		m.Stats["checkpoints"]++
	case "rollback-end":
		if !known {
			return
		}
		want, ok := st.cps[cp]
		if !ok || st.commitSeq != m.commitSeq || m.liveOthers(s) {
			m.Stats["rollbacks_not_judged"]++
			return
		}
		m.Stats["rollbacks_checked"]++
		if d := diffDump(want, Dump(m.ssn)); len(d) > 0 {
			m.reportDiff("rollback-dump-mismatch", d, s)
		}
		// checkpoints taken later than cp are no longer valid
		for k := range st.cps {
			if k > cp {
				delete(st.cps, k)
			}
		}
	case "discard-begin":
		if known {
			m.Stats["op_log_len_"+bucket(len(s.VerifOps()))]++
		}
	case "discard-end":
		if !known {
			return
		}
		delete(m.stmts, s)
		if st.ops == 0 {
			return
		}
		if st.commitSeq != m.commitSeq || m.liveOthers(s) {
			m.Stats["discards_not_judged"]++
			return
		}
		m.Stats["discards_checked"]++
		if d := diffDump(st.d0, Dump(m.ssn)); len(d) > 0 {
			m.reportDiff("discard-dump-mismatch", d, s)
		}
	case "commit-begin":
		m.inCommit = s
		if known {
			m.Stats["op_log_len_"+bucket(len(s.VerifOps()))]++
			st.evStart = m.eventCount()
			st.expect = expectedEffect(s.VerifOps())
		}
	case "commit-end":
		m.inCommit = nil
		m.commitSeq++
		if !known {
			return
		}
		delete(m.stmts, s)
		if st.ops == 0 {
			return
		}
		m.Stats["commits_checked"]++
		m.checkCommit(st)
	}
}

func bucket(n int) string {
	switch {
	case n <= 1:
		return "1"
	case n <= 3:
		return "2-3"
	case n <= 7:
		return "4-7"
	case n <= 15:
		return "8-15"
	}
	return "16+"
}

func (m *Monitor) reportDiff(oracle string, d []string, s *framework.Statement) {
	msg := fmt.Sprintf("%d lines differ (%s); first: %s", len(d), diffSig(d), strings.Join(head(d, 8), " || "))
	ops := s.VerifOps()
	var sb strings.Builder
	for i, o := range ops {
		if i >= 24 {
			sb.WriteString(" ...")
			break
		}
		name := ""
		if o.Task != nil {
			name = o.Task.Name
		}
		fmt.Fprintf(&sb, " %d:%s(%s->%s)", i, o.Kind, name, o.Node)
		if o.Kind == "undo" {
			fmt.Fprintf(&sb, "#%d", o.Target)
		}
	}
	key := "C13" + oracle + diffSig(d) + m.action
	if m.seenSig[key] || len(m.Findings) >= m.maxFind {
		return
	}
	m.seenSig[key] = true
	m.Findings = append(m.Findings, Finding{Prop: "C13", Oracle: oracle, Sig: oracle + ":" + diffSig(d) + ":" + actionClass(m.action),
		Msg: fmt.Sprintf("[%s] %s; remaining op log:%s", m.action, msg, sb.String()), Action: m.action})
}

func head(s []string, n int) []string {
	if len(s) > n {
		return s[:n]
	}
	return s
}

func (m *Monitor) eventCount() int {
	if m.rc == nil {
		return 0
	}
	return m.rc.Len()
}

// expectedEffect replays the op kinds: per pod, the list of still valid operations in order.
func expectedEffect(ops []framework.VerifOp) map[string]string {
	out := map[string]string{}
	for _, o := range ops {
		if o.Kind == "undo" || !o.Valid || o.Task == nil {
			continue
		}
		k := string(o.Task.UID)
		switch o.Kind {
		case "evict":
			out[k] += "E"
		case "pipeline":
			out[k] += "P"
		case "allocate":
			out[k] += "A"
		}
	}
	return out
}

// checkCommit compares the Cache calls made during the commit with the net effect of the valid operations:
// each pod at most one Evict, at most one placement (Bind or TaskPipelined), nothing for pods without valid operations.
func (m *Monitor) checkCommit(st *stmtState) {
	if m.rc == nil {
		return
	}
	evs := m.rc.Since(st.evStart)
	got := map[string]string{}
	failedBind := false
	for _, e := range evs {
		switch e.Kind {
		case "evict":
			got[e.UID] += "E"
		case "pipeline":
			got[e.UID] += "P"
		case "bind":
			got[e.UID] += "A"
			if e.Err != "" {
				failedBind = true
			}
		}
	}
	for uid, g := range got {
		want := st.expect[uid]
		if strings.Count(g, "E") > 1 {
			m.report13("commit-duplicate-evict", fmt.Sprintf("pod %s was evicted %d times by one commit (valid ops %q, emitted %q)", uid, strings.Count(g, "E"), want, g))
		}
		if strings.Count(g, "P")+strings.Count(g, "A") > 1 {
			m.report13("commit-duplicate-placement", fmt.Sprintf("pod %s was bound/nominated %d times by one commit (valid ops %q, emitted %q)", uid, strings.Count(g, "P")+strings.Count(g, "A"), want, g))
		}
		if want == "" {
			m.report13("commit-emits-undone-step", fmt.Sprintf("pod %s has no valid operation in the statement but the commit emitted %q", uid, g))
		}
	}
	if !failedBind {
		for uid, want := range st.expect {
			if got[uid] != want {
				if _, emitted := got[uid]; !emitted {
					m.report13("commit-drops-valid-step", fmt.Sprintf("pod %s has valid operations %q but the commit emitted nothing", uid, want))
				} else if sortStr(got[uid]) != sortStr(want) {
					m.report13("commit-effect-differs", fmt.Sprintf("pod %s: valid operations %q, emitted %q", uid, want, got[uid]))
				}
			}
		}
	}
}

func sortStr(s string) string {
	b := []byte(s)
	sort.Slice(b, func(i, j int) bool { return b[i] < b[j] })
	return string(b)
}

func (m *Monitor) report13(oracle, msg string) {
	key := "C13" + oracle + m.action
	if m.seenSig[key] || len(m.Findings) >= m.maxFind {
		return
	}
	m.seenSig[key] = true
	m.Findings = append(m.Findings, Finding{Prop: "C13", Oracle: oracle, Sig: oracle + ":" + actionClass(m.action), Msg: fmt.Sprintf("[%s] %s", m.action, msg), Action: m.action})
}

var _ = common_info.PodID("")
