package mon

import (
	"fmt"
	"github.com/NVIDIA/KAI-scheduler/pkg/scheduler/api"
	"math"
	"os"
	"regexp"
	"sort"
	"strings"

	"github.com/NVIDIA/KAI-scheduler/pkg/scheduler/api/common_info"
	"github.com/NVIDIA/KAI-scheduler/pkg/scheduler/api/pod_status"
	"github.com/NVIDIA/KAI-scheduler/pkg/scheduler/framework"
	rs "github.com/NVIDIA/KAI-scheduler/pkg/scheduler/plugins/proportion/resource_share"

	"verif/harness/internal/sched"
)

// Finding is one monitor report.
type Finding struct {
	Prop   string
	Oracle string
	Sig    string
	Msg    string
	Action string
}

// Monitor is the per-worker online monitor. All state is touched only from the goroutine that drives the session.
type Monitor struct {
	CheckAccounting bool // C14
	CheckStatements bool // C13
	Findings        []Finding
	Stats           map[string]int
	ssn             *framework.Session
	rc              *sched.RecCache
	action          string
	seenSig         map[string]bool
	// statements
	stmts            map[*framework.Statement]*stmtState
	commitSeq        int
	activity         int
	lastOpsText      string
	lastSharedRenom  bool
	inCommit         *framework.Statement
	maxFind          int
	trace            []string
	movedOnNode      map[string]bool
	dupKinds         map[string]bool // kind:status:action of handler calls that fired twice in a row for one pod
	sharedEvicted    map[string]bool // nodes on which a GPU-sharing pod was (virtually) evicted in this session
	evictedNominated map[string]bool // nodes on which a pod that was only nominated in this session was evicted
	lastStatus       map[common_info.PodID]pod_status.PodStatus
	seenNodes        map[common_info.PodID]map[string]bool
	everReleasing    map[common_info.PodID]bool
	lastKind         map[common_info.PodID]string
	dupHandler       bool
	claimHist        ClaimHistory // DRA (dra.go): per session
	initNode         map[common_info.PodID]string
	initGroups       map[common_info.PodID][]string
	// the scenario the reclaim / preempt validators accepted last (this monitor's validator runs after all others)
	lastScenario *validatedScenario
}

type validatedScenario struct {
	victims   map[string]bool // pod UIDs
	preemptor string
	activity  int // statement activity counter when it was accepted
}

type stmtState struct {
	d0          []string
	cps         map[int][]string
	commitSeq   int
	evStart     int
	expect      map[string]string // pod uid -> expected event kind sequence key
	ops         int
	lastOps     string      // op log when the last discard/rollback began
	sharedRenom bool        // the op log evicted and nominated the same shared-GPU pod
	own         int         // lifecycle events of this statement since d0
	actAtD0     int         // global activity counter when d0 was taken
	cpAct       map[int]int // checkpoint -> (global activity, own) when taken
	cpOwn       map[int]int
	acc0        map[string]string // accounting mismatches (object+field -> message) when the commit began
}

// Cur is the monitor used by the registered plugin and the statement observer.
var Cur *Monitor

const PluginName = "verifmon"

type plugin struct{}

func (plugin) Name() string { return PluginName }
func (plugin) OnSessionOpen(ssn *framework.Session) {
	m := Cur
	if m == nil {
		return
	}
	m.ssn = ssn
	m.stmts = map[*framework.Statement]*stmtState{}
	ssn.AddEventHandler(&framework.EventHandler{
		AllocateFunc:   func(e *framework.Event) { m.onEvent("allocate-event", e) },
		DeallocateFunc: func(e *framework.Event) { m.onEvent("deallocate-event", e) },
	})
	if m.CheckStatements {
		// registered last, so it only sees scenarios every validator of the system accepted: the solution the
		// solver is about to hand back. It never rejects.
		record := func(sc api.ScenarioInfo) bool {
			vs := &validatedScenario{victims: map[string]bool{}, activity: m.activity}
			if p := sc.GetPreemptor(); p != nil {
				vs.preemptor = p.Namespace + "/" + p.Name
			}
			for _, v := range sc.GetVictims() {
				for _, t := range v.Tasks {
					vs.victims[string(t.UID)] = true
				}
			}
			m.lastScenario = vs
			m.Stats["validated_scenarios_recorded"]++
			return true
		}
		ssn.AddReclaimScenarioValidatorFn(record)
		ssn.AddPreemptScenarioValidatorFn(record)
	}
}
func (plugin) OnSessionClose(ssn *framework.Session) {
	if Cur != nil {
		Cur.ssn = nil
	}
}

var registered bool

// Register installs the plugin builder and the statement observer (idempotent).
func Register() {
	if registered {
		return
	}
	registered = true
	framework.RegisterPluginBuilder(PluginName, func(framework.PluginArguments) framework.Plugin { return plugin{} })
	sched.StmtObserver = func(ssn *framework.Session, s *framework.Statement, phase string, cp int) {
		if Cur != nil && Cur.CheckStatements && Cur.ssn == ssn {
			Cur.onStatement(s, phase, cp)
		}
	}
}

func New(accounting, statements bool) *Monitor {
	return &Monitor{CheckAccounting: accounting, CheckStatements: statements, Stats: map[string]int{}, seenSig: map[string]bool{}, maxFind: 40}
}

// Hooks returns the runner hooks that attach the monitor to a cycle.
func (m *Monitor) Hooks() sched.Hooks {
	Register()
	return sched.Hooks{
		Extra: []sched.ExtraPlugin{{Name: PluginName}},
		AfterOpen: func(ssn *framework.Session, rc *sched.RecCache) {
			m.rc = rc
			m.action = "open"
			m.recordInitial()
			m.movedOnNode = nil
			m.evictedNominated = nil
			m.sharedEvicted = nil
			m.checkAll("after-open")
		},
		BeforeAction: func(ssn *framework.Session, name string) { m.action = name },
		AfterAction:  func(ssn *framework.Session, name string) { m.checkAll("after-action") },
	}
}

func (m *Monitor) report(prop, oracle, msg string) {
	sig := oracle + ":" + SigOf(msg)
	key := prop + sig + m.action
	if m.seenSig[key] || len(m.Findings) >= m.maxFind {
		return
	}
	m.seenSig[key] = true
	m.Findings = append(m.Findings, Finding{Prop: prop, Oracle: oracle, Sig: sig + ":" + actionClass(m.action), Msg: fmt.Sprintf("[%s] %s; last events: %s", m.action, msg, strings.Join(m.trace, " ")), Action: m.action})
}

// reportClaim files a claim-accounting finding; the signature is the violated clause (never object names).
func (m *Monitor) reportClaim(msg string) {
	sig := "claim-accounting:" + claimSig(msg)
	key := "C14" + sig + m.action
	if m.seenSig[key] || len(m.Findings) >= m.maxFind {
		return
	}
	m.seenSig[key] = true
	m.Stats["claim_accounting_findings"]++
	m.Findings = append(m.Findings, Finding{Prop: "C14", Oracle: "claim-accounting", Sig: sig + ":" + actionClass(m.action),
		Msg: fmt.Sprintf("[%s] %s; last events: %s", m.action, msg, strings.Join(m.trace, " ")), Action: m.action})
}

func actionClass(a string) string {
	switch a {
	case "open":
		return "snapshot"
	case "allocate":
		return "allocate"
	}
	return "solver"
}

func (m *Monitor) onEvent(kind string, e *framework.Event) {
	m.Stats[kind]++
	if e != nil && e.Task != nil {
		m.Stats["event_status_"+e.Task.Status.String()]++
		if e.Task.IsSharedGPUAllocation() {
			m.Stats["event_shared_gpu"]++
		}
		if e.Task.Pod != nil && len(e.Task.Pod.Spec.ResourceClaims) > 0 {
			// DRA: the dynamicresources plugin's handler ran for this event just before this one
			m.Stats["dra_"+kind]++
			m.Stats["dra_event_status_"+e.Task.Status.String()]++
		}
	}
	if e != nil && e.Task != nil {
		// remember where an evicted pod's releasing copy lives (see Ghost)
		t := e.Task
		prev, hadPrev := m.lastStatus[t.UID]
		if hadPrev && prev == t.Status && m.lastKind[t.UID] == kind {
			// the same handler fired twice in a row for one pod with the same status (e.g. pipelined twice):
			// queue usage is added or subtracted twice
			m.dupHandler = true
			m.dupKinds[strings.TrimSuffix(kind, "-event")+":"+t.Status.String()+":"+m.action] = true
			m.Stats["duplicate_handler_calls"]++
		}
		m.lastKind[t.UID] = kind
		if m.seenNodes[t.UID] == nil {
			m.seenNodes[t.UID] = map[string]bool{}
		}
		if t.NodeName != "" {
			m.seenNodes[t.UID][t.NodeName] = true
		}
		if kind == "deallocate-event" && (t.IsSharedGPUAllocation() || len(t.GPUGroups) > 0) {
			// a GPU-sharing pod is (virtually) evicted, or its allocation / nomination is undone
			if m.sharedEvicted == nil {
				m.sharedEvicted = map[string]bool{}
			}
			for n := range m.seenNodes[t.UID] {
				m.sharedEvicted[n] = true
			}
		}
		switch {
		case kind == "deallocate-event" && t.Status == pod_status.Releasing:
			m.everReleasing[t.UID] = true
			if hadPrev && prev == pod_status.Pipelined {
				// a pod that was only nominated (pipelined) in this session is evicted: it holds nothing, yet it is
				// re-added as a releasing pod (Idle is charged, Releasing credited twice)
				if m.evictedNominated == nil {
					m.evictedNominated = map[string]bool{}
				}
				m.evictedNominated[t.NodeName] = true
				m.Stats["evictions_of_nominated_pods"]++
			}
			if !(hadPrev && prev == pod_status.Pipelined) {
				// a (virtual) eviction of a placed pod: this is where its releasing copy lives
				m.initNode[t.UID] = t.NodeName
				m.initGroups[t.UID] = append([]string(nil), t.GPUGroups...)
			}
		case kind == "allocate-event" && t.Status == pod_status.Pipelined:
			if m.everReleasing[t.UID] && t.IsSharedGPUAllocation() {
				// a shared-GPU pod that was (virtually) evicted - from a node or from an earlier nomination - is
				// nominated again: releasing and pipelined copies of the same pod are charged side by side and the
				// scheduler keeps only one of them in NodeInfo.PodInfos. Every node the pod touched is marked.
				if m.movedOnNode == nil {
					m.movedOnNode = map[string]bool{}
				}
				for n := range m.seenNodes[t.UID] {
					m.movedOnNode[n] = true
				}
				m.Stats["shared_gpu_renominations_after_eviction"]++
			}
		case kind == "allocate-event" && t.Status != pod_status.Pipelined:
			delete(m.initNode, t.UID) // un-evicted or freshly allocated: no releasing copy
			delete(m.initGroups, t.UID)
		}
		m.lastStatus[t.UID] = t.Status
		m.trace = append(m.trace, fmt.Sprintf("%s(%s,%v,node=%s,groups=%v%s)", kind[:3], e.Task.Name, e.Task.Status, e.Task.NodeName, e.Task.GPUGroups, traceClaims(m.ssn, e.Task)))
		if os.Getenv("VERIF_TRACE") != "" {
			fmt.Fprintf(os.Stderr, "TRACE [%s] %s\n", m.action, m.trace[len(m.trace)-1])
			if nn := os.Getenv("VERIF_TRACE_NODE"); nn != "" {
				if ni := m.ssn.ClusterInfo.Nodes[nn]; ni != nil {
					fmt.Fprintf(os.Stderr, "      node %s idleGPU=%v releasingGPU=%v usedGPU=%v usedShared=%v releasingShared=%v allocShared=%v\n", nn,
						ni.Idle.GPUs(), ni.Releasing.GPUs(), ni.Used.GPUs(), ni.UsedSharedGPUsMemory, ni.ReleasingSharedGPUs, ni.AllocatedSharedGPUsMemory)
				}
			}
		}
		if len(m.trace) > 12 {
			m.trace = m.trace[len(m.trace)-12:]
		}
	}
	if m.CheckAccounting {
		m.checkAll(kind)
	}
}

// recordInitial remembers, per pod, the node and GPU groups it had when the session was opened.
func (m *Monitor) recordInitial() {
	m.claimHist = ClaimHistory{}
	m.initNode = map[common_info.PodID]string{}
	m.initGroups = map[common_info.PodID][]string{}
	m.lastStatus = map[common_info.PodID]pod_status.PodStatus{}
	m.seenNodes = map[common_info.PodID]map[string]bool{}
	m.everReleasing = map[common_info.PodID]bool{}
	m.lastKind = map[common_info.PodID]string{}
	m.dupHandler = false
	m.dupKinds = map[string]bool{}
}

func sameSet(a, b []string) bool {
	if len(a) != len(b) {
		return false
	}
	x := append([]string(nil), a...)
	y := append([]string(nil), b...)
	sort.Strings(x)
	sort.Strings(y)
	for i := range x {
		if x[i] != y[i] {
			return false
		}
	}
	return true
}

// ghosts lists the releasing copies that the scheduler keeps charged without a PodInfos entry.
func (m *Monitor) ghosts() map[string][]Ghost {
	out := map[string][]Ghost{}
	for name, ni := range m.ssn.ClusterInfo.Nodes {
		for _, t := range ni.PodInfos {
			if t.Status != pod_status.Pipelined || !t.IsSharedGPUAllocation() {
				continue
			}
			if n, ok := m.initNode[t.UID]; ok && n == name {
				out[name] = append(out[name], Ghost{Task: t, Groups: m.initGroups[t.UID], Uncertain: true})
			}
		}
	}
	return out
}

func (m *Monitor) checkAll(where string) {
	if !m.CheckAccounting || m.ssn == nil || m.ssn.ClusterInfo == nil {
		return
	}
	m.Stats["accounting_checks"]++
	for _, s := range CheckNodes(m.ssn, m.ghosts(), m.Stats) {
		oracle := "node-accounting"
		if f := strings.Fields(s); len(f) > 1 && m.movedOnNode[f[1]] {
			oracle = "node-accounting-after-shared-gpu-renomination"
		} else if len(f) > 1 && m.evictedNominated[f[1]] {
			oracle = "node-accounting-after-eviction-of-nominated-pod"
		} else if len(f) > 1 && m.sharedEvicted[f[1]] && strings.Contains(s, "vs rebuilt[gpu]") {
			// the whole-GPU counters of a node drift when a GPU-sharing pod is (virtually) evicted and restored while
			// other pods are nominated on the node (same root as the C13 finding "only-whole-gpu-counters")
			oracle = "node-whole-gpu-counters-after-shared-gpu-deallocation"
		}
		m.report("C14", oracle, s)
	}
	for _, s := range CheckJobs(m.ssn, m.Stats) {
		m.report("C14", "job-accounting", s)
	}
	// DRA (dra.go): claims recomputed from the pods vs the DRA manager's view
	for _, s := range m.claimHist.Classify(CheckClaims(m.ssn, m.Stats)) {
		m.reportClaim(s)
	}
	// GPU-class claims: what a pod is charged for them, recomputed from its claims
	for _, s := range CheckDraGpuRequests(m.ssn, m.Stats) {
		m.report("C14", "dra-gpu-request", s)
	}
	// queue usage is updated by the proportion handler which runs before this one for the same event
	for _, s := range CheckQueues(m.ssn, sched.CurrentProportion, m.Stats) {
		if strings.HasPrefix(s, "task ") {
			// what a pod is charged (accepted resource) does not match its request on the node it is on
			m.report("C14", "task-accepted-resource", s)
			continue
		}
		if m.dupHandler {
			ks := make([]string, 0, len(m.dupKinds))
			for k := range m.dupKinds {
				ks = append(ks, k)
			}
			sort.Strings(ks)
			m.report("C14", "queue-accounting-after-duplicate-handler-call:"+strings.Join(ks, "+"), s)
		} else if len(m.movedOnNode) > 0 {
			m.report("C14", "queue-accounting-after-shared-gpu-renomination", s)
		} else {
			m.report("C14", "queue-accounting", s)
		}
	}
}

// ---------------------------------------------------------------- canonical dump (C13)

func nz(x float64) float64 {
	if math.Abs(x) < 5e-5 {
		return 0
	}
	return x
}

func fmtRes(v vec) string {
	ks := make([]string, 0, len(v))
	for k, x := range v {
		if math.Abs(x) >= 5e-5 {
			ks = append(ks, fmt.Sprintf("%s=%.4f", k, x))
		}
	}
	sort.Strings(ks)
	return strings.Join(ks, ",")
}

func fmtGroups(g map[string]int64) string {
	ks := make([]string, 0, len(g))
	for k, x := range g {
		if x != 0 {
			ks = append(ks, fmt.Sprintf("%s=%d", k, x))
		}
	}
	sort.Strings(ks)
	return strings.Join(ks, ",")
}

// Dump returns the canonical view of the session as sorted lines.
func Dump(ssn *framework.Session) []string {
	var out []string
	for name, ni := range ssn.ClusterInfo.Nodes {
		out = append(out, fmt.Sprintf("node %s idle{%s} used{%s} releasing{%s}", name, fmtRes(resVec(ni.Idle)), fmtRes(resVec(ni.Used)), fmtRes(resVec(ni.Releasing))))
		out = append(out, fmt.Sprintf("node %s sharedUsed{%s} sharedAllocated{%s} sharedReleasing{%s}", name, fmtGroups(ni.UsedSharedGPUsMemory), fmtGroups(ni.AllocatedSharedGPUsMemory), fmtGroups(ni.ReleasingSharedGPUsMemory)))
		rel := make([]string, 0)
		for g, v := range ni.ReleasingSharedGPUs {
			if v {
				rel = append(rel, g)
			}
		}
		sort.Strings(rel)
		out = append(out, fmt.Sprintf("node %s releasingGroups%v", name, rel))
		for _, t := range ni.PodInfos {
			gs := append([]string(nil), t.GPUGroups...)
			sort.Strings(gs)
			st := t.Status.String()
			if t.Status == pod_status.Binding {
				// the node's copy of a pod bound earlier in the cycle keeps status Allocated until the next update of
				// that copy; both are charged identically
				st = "Allocated"
			}
			out = append(out, fmt.Sprintf("node %s holds %s/%s status=%v groups=%v", name, t.Namespace, t.Name, st, gs))
		}
	}
	for id, job := range ssn.ClusterInfo.PodGroupInfos {
		al := resVec(job.Allocated)
		out = append(out, fmt.Sprintf("job %s allocated{%s} activeAllocated=%d", id, fmtRes(al), job.GetActiveAllocatedTasksCount()))
		for _, t := range job.GetAllPodsMap() {
			gs := []string{}
			if pod_status.IsActiveUsedStatus(t.Status) {
				gs = append(gs, t.GPUGroups...)
				sort.Strings(gs)
			}
			node := t.NodeName
			if !pod_status.IsActiveUsedStatus(t.Status) {
				node = ""
			}
			out = append(out, fmt.Sprintf("job %s pod %s status=%v node=%s groups=%v virtual=%v", id, t.Name, t.Status, node, gs, t.IsVirtualStatus))
		}
		for name, ps := range job.GetSubGroups() {
			out = append(out, fmt.Sprintf("job %s set %q counters=%d/%d/%d", id, name, ps.GetNumActiveAllocatedTasks(), ps.GetNumActiveUsedTasks(), ps.GetNumAliveTasks()))
		}
	}
	if queues := queuesOf(sched.CurrentProportion); queues != nil {
		for id, qa := range queues {
			var parts []string
			for _, r := range rs.AllResources {
				sh := qa.ResourceShare(r)
				parts = append(parts, fmt.Sprintf("%s:%.4f/%.4f/%.4f", r, nz(sh.Allocated), nz(sh.AllocatedNotPreemptible), nz(sh.Request)))
			}
			out = append(out, fmt.Sprintf("queue %s alloc/np/request %s", id, strings.Join(parts, " ")))
		}
	}
	// DRA (dra.go): the scheduler's view of every resource claim
	out = append(out, DumpClaims(ssn)...)
	sort.Strings(out)
	return out
}

func diffDump(a, b []string) []string {
	inA, inB := map[string]bool{}, map[string]bool{}
	for _, l := range a {
		inA[l] = true
	}
	for _, l := range b {
		inB[l] = true
	}
	var out []string
	for _, l := range a {
		if !inB[l] {
			out = append(out, "- "+l)
		}
	}
	for _, l := range b {
		if !inA[l] {
			out = append(out, "+ "+l)
		}
	}
	return out
}

// diffSig condenses a dump difference into a signature: which kinds of lines differ and, for the two
// recurring special shapes, what exactly differs.
func diffSig(d []string) string {
	kinds := map[string]bool{}
	minus, plus := map[string]string{}, map[string]string{}
	for _, l := range d {
		f := strings.Fields(l)
		if len(f) < 4 {
			continue
		}
		k := f[1]
		switch {
		case f[1] == "node" && strings.HasPrefix(f[3], "holds"):
			k = "node-pods"
		case f[1] == "node" && strings.HasPrefix(f[3], "shared"):
			k = "node-shared-gpu"
		case f[1] == "node" && strings.HasPrefix(f[3], "releasingGroups"):
			k = "node-shared-gpu"
		case f[1] == "node":
			k = "node-resources"
		case f[1] == "claim":
			k = "claim"
		case f[1] == "claims":
			k = "claim-device-set"
		case f[1] == "claiminfo":
			k = "pod-claim-info"
		}
		kinds[k] = true
		key := f[1] + " " + f[2]
		if k == "job" && len(f) > 4 && f[3] == "pod" {
			key += " " + f[4]
		}
		if l[0] == '-' {
			minus[k+"|"+key] = l[2:]
		} else {
			plus[k+"|"+key] = l[2:]
		}
	}
	ks := make([]string, 0, len(kinds))
	for k := range kinds {
		ks = append(ks, k)
	}
	sort.Strings(ks)
	sig := strings.Join(ks, "+")
	if sig == "node-resources" {
		// do only whole-GPU counters differ?
		onlyGPU := true
		for k, a := range minus {
			b, ok := plus[k]
			if !ok || stripGPU(a) != stripGPU(b) {
				onlyGPU = false
			}
		}
		if onlyGPU && len(minus) == len(plus) {
			sig += ":only-whole-gpu-counters"
		}
	}
	if sig == "job" {
		// do only the GPU groups of (virtually) evicted pods differ?
		only := true
		for k, a := range minus {
			b, ok := plus[k]
			if !ok || !strings.Contains(a, "status=Releasing") || stripGroups(a) != stripGroups(b) {
				only = false
			}
		}
		if only && len(minus) == len(plus) {
			sig += ":only-gpu-groups-of-evicted-pod"
		}
	}
	return sig
}

var gpuRe = regexp.MustCompile(`gpu=-?[0-9.]+,?`)
var groupsRe = regexp.MustCompile(`groups=\[[^\]]*\]`)

func stripGPU(s string) string    { return strings.ReplaceAll(gpuRe.ReplaceAllString(s, ""), ",}", "}") }
func stripGroups(s string) string { return groupsRe.ReplaceAllString(s, "groups=[]") }

func (m *Monitor) liveOthers(s *framework.Statement) bool {
	for o, st := range m.stmts {
		if o != s && st.ops > 0 && len(o.VerifOps()) > 0 {
			return true
		}
	}
	return false
}

func (m *Monitor) onStatement(s *framework.Statement, phase string, cp int) {
	st, known := m.stmts[s]
	// foreign activity: lifecycle events of OTHER statements between this statement's reference dump and now
	m.activity++
	if os.Getenv("VERIF_TRACE") != "" {
		fmt.Fprintf(os.Stderr, "STMT [%s] %p %s cp=%d known=%v ops=%d\n", m.action, s, phase, cp, known, len(s.VerifOps()))
	}
	if known {
		st.own++
	}
	switch phase {
	case "op-begin":
		if !known || (cp == 0 && len(s.VerifOps()) == 0) {
			// first operation of this statement (or of a statement object reused after clearOperations)
			m.stmts[s] = &stmtState{d0: Dump(m.ssn), cps: map[int][]string{}, commitSeq: m.commitSeq, actAtD0: m.activity, own: 1, cpAct: map[int]int{}, cpOwn: map[int]int{}}
			m.Stats["statements"]++
			st = m.stmts[s]
		}
		st.ops++
	case "checkpoint":
		if !known {
			m.stmts[s] = &stmtState{d0: Dump(m.ssn), cps: map[int][]string{}, commitSeq: m.commitSeq, actAtD0: m.activity, own: 1, cpAct: map[int]int{}, cpOwn: map[int]int{}}
			st = m.stmts[s]
			m.Stats["statements"]++
		}
		st.cps[cp] = Dump(m.ssn)
		st.cpAct[cp], st.cpOwn[cp] = m.activity, st.own
		m.Stats["checkpoints"]++
	case "rollback-end":
		if !known {
			return
		}
		want, ok := st.cps[cp]
		foreign := (m.activity - st.cpAct[cp]) - (st.own - st.cpOwn[cp])
		if !ok || st.commitSeq != m.commitSeq || m.liveOthers(s) || foreign > 0 {
			m.Stats["rollbacks_not_judged"]++
			return
		}
		m.Stats["rollbacks_checked"]++
		if DRAEnabled {
			m.Stats["rollbacks_checked_with_claim_view"]++ // DRA: the compared dumps contain the claim lines
		}
		if d := diffDump(want, Dump(m.ssn)); len(d) > 0 {
			m.reportDiff("rollback-dump-mismatch", d, s)
		}
		// checkpoints taken later than cp are no longer valid
		for k := range st.cps {
			if k > cp {
				delete(st.cps, k)
			}
		}
	case "discard-begin", "rollback-begin":
		if known {
			if phase == "discard-begin" {
				m.Stats["op_log_len_"+bucket(len(s.VerifOps()))]++
			}
			st.lastOps = opLog(s.VerifOps())
			st.sharedRenom = hasSharedRenomination(s.VerifOps())
		}
	case "discard-end":
		if !known {
			return
		}
		delete(m.stmts, s)
		m.lastOpsText = st.lastOps
		m.lastSharedRenom = st.sharedRenom
		if st.ops == 0 {
			return
		}
		if st.commitSeq != m.commitSeq || m.liveOthers(s) || (m.activity-st.actAtD0)-(st.own-1) > 0 {
			m.Stats["discards_not_judged"]++
			return
		}
		m.Stats["discards_checked"]++
		if DRAEnabled {
			m.Stats["discards_checked_with_claim_view"]++
		}
		if d := diffDump(st.d0, Dump(m.ssn)); len(d) > 0 {
			m.reportDiff("discard-dump-mismatch", d, s)
		}
	case "commit-begin":
		m.inCommit = s
		if known {
			m.Stats["op_log_len_"+bucket(len(s.VerifOps()))]++
			st.evStart = m.eventCount()
			st.expect = expectedEffect(s.VerifOps())
			st.acc0 = m.accountingMismatches()
		}
	case "commit-end":
		m.inCommit = nil
		m.commitSeq++
		if !known {
			return
		}
		delete(m.stmts, s)
		if st.ops == 0 {
			return
		}
		m.Stats["commits_checked"]++
		m.checkCommit(st)
		// a commit emits decisions; it must not change what the scheduler believes beyond the steps it undoes after a
		// failed call, and that undo must be exact: the accounting recomputed from the pods must be as consistent
		// after the commit as it was before it
		if st.acc0 != nil {
			for k, msg := range m.accountingMismatches() {
				if _, before := st.acc0[k]; !before {
					m.Stats["commit_accounting_new_mismatches"]++
					m.report13("commit-breaks-accounting:"+SigOf(msg), "after the commit the scheduler's view no longer agrees with its pods (it did before the commit): "+msg)
				}
			}
			m.Stats["commit_accounting_comparisons"]++
		}
	}
}

// accountingMismatches recomputes node, workload and queue accounting from the pods (the C14 oracle) and returns the
// mismatches keyed by object and field.
func (m *Monitor) accountingMismatches() map[string]string {
	if m.ssn == nil || m.ssn.ClusterInfo == nil {
		return nil
	}
	out := map[string]string{}
	scratch := map[string]int{}
	add := func(msgs []string) {
		for _, s := range msgs {
			f := strings.Fields(s)
			k := s
			if len(f) >= 3 {
				k = strings.Join(f[:3], " ")
			}
			out[k] = s
		}
	}
	add(CheckNodes(m.ssn, m.ghosts(), scratch))
	add(CheckJobs(m.ssn, scratch))
	add(CheckQueues(m.ssn, sched.CurrentProportion, scratch))
	add(m.claimHist.Classify(CheckClaims(m.ssn, scratch))) // DRA (dra.go)
	add(CheckDraGpuRequests(m.ssn, scratch))
	return out
}

func bucket(n int) string {
	switch {
	case n <= 1:
		return "1"
	case n <= 3:
		return "2-3"
	case n <= 7:
		return "4-7"
	case n <= 15:
		return "8-15"
	}
	return "16+"
}

func (m *Monitor) reportDiff(oracle string, d []string, s *framework.Statement) {
	msg := fmt.Sprintf("%d lines differ (%s); first: %s", len(d), diffSig(d), strings.Join(head(d, 8), " || "))
	opsText := opLog(s.VerifOps())
	if st, ok := m.stmts[s]; ok && st.lastOps != "" {
		opsText = st.lastOps
	} else if m.lastOpsText != "" {
		opsText = m.lastOpsText
	}
	class := "plain"
	if st, ok := m.stmts[s]; ok {
		if st.sharedRenom {
			class = "shared-gpu-renomination"
		}
	} else if m.lastSharedRenom {
		class = "shared-gpu-renomination"
	}
	var sb strings.Builder
	sb.WriteString(opsText)
	key := "C13" + oracle + diffSig(d) + m.action
	if m.seenSig[key] || len(m.Findings) >= m.maxFind {
		return
	}
	m.seenSig[key] = true
	m.Findings = append(m.Findings, Finding{Prop: "C13", Oracle: oracle, Sig: oracle + ":" + class + ":" + diffSig(d) + ":" + actionClass(m.action),
		Msg: fmt.Sprintf("[%s] %s; op log before the undo:%s", m.action, msg, sb.String()), Action: m.action})
}

// hasSharedRenomination: the statement evicted a shared-GPU pod and nominated the same pod again.
func hasSharedRenomination(ops []framework.VerifOp) bool {
	ev, pi := map[common_info.PodID]bool{}, map[common_info.PodID]bool{}
	for _, o := range ops {
		if o.Task == nil || !(o.Task.IsSharedGPUAllocation() || o.Task.IsSharedGPURequest()) {
			continue
		}
		switch o.Kind {
		case "evict":
			ev[o.Task.UID] = true
		case "pipeline":
			pi[o.Task.UID] = true
		}
	}
	for uid := range ev {
		if pi[uid] {
			return true
		}
	}
	return false
}

func opLog(ops []framework.VerifOp) string {
	var sb strings.Builder
	for i, o := range ops {
		if i >= 30 {
			sb.WriteString(" ...")
			break
		}
		name, status, shared := "", "", ""
		if o.Task != nil {
			name = o.Task.Name
			status = o.Task.Status.String()
			if o.Task.IsSharedGPUAllocation() || o.Task.IsSharedGPURequest() {
				shared = ",shared-gpu"
			}
		}
		fmt.Fprintf(&sb, " %d:%s(%s->%s,now=%s%s)", i, o.Kind, name, o.Node, status, shared)
		if o.Kind == "undo" {
			fmt.Fprintf(&sb, "#%d", o.Target)
		}
	}
	return sb.String()
}

func head(s []string, n int) []string {
	if len(s) > n {
		return s[:n]
	}
	return s
}

func (m *Monitor) eventCount() int {
	if m.rc == nil {
		return 0
	}
	return m.rc.Len()
}

// expectedEffect replays the op kinds: per pod, the list of still valid operations in order.
func expectedEffect(ops []framework.VerifOp) map[string]string {
	out := map[string]string{}
	for _, o := range ops {
		if o.Kind == "undo" || !o.Valid || o.Task == nil {
			continue
		}
		k := string(o.Task.UID)
		switch o.Kind {
		case "evict":
			out[k] += "E"
		case "pipeline":
			out[k] += "P"
		case "allocate":
			out[k] += "A"
		}
	}
	return out
}

// checkCommit compares the Cache calls made during the commit with the net effect of the valid operations:
// each pod at most one Evict, at most one placement (Bind or TaskPipelined), nothing for pods without valid operations.
func (m *Monitor) checkCommit(st *stmtState) {
	if m.rc == nil {
		return
	}
	evs := m.rc.Since(st.evStart)
	got := map[string]string{}
	failedBind := false
	failedEvict := map[string]bool{} // the pod keeps running: the steps that re-placed it are void and not emitted
	for _, e := range evs {
		switch e.Kind {
		case "evict":
			got[e.UID] += "E"
			if e.Err != "" {
				failedEvict[e.UID] = true
			}
		case "pipeline":
			got[e.UID] += "P"
		case "bind":
			got[e.UID] += "A"
			if e.Err != "" {
				failedBind = true
			}
		}
	}
	for uid, g := range got {
		want := st.expect[uid]
		if strings.Count(g, "E") > 1 {
			m.report13("commit-duplicate-evict", fmt.Sprintf("pod %s was evicted %d times by one commit (valid ops %q, emitted %q)", uid, strings.Count(g, "E"), want, g))
		}
		if strings.Count(g, "P")+strings.Count(g, "A") > 1 {
			m.report13("commit-duplicate-placement", fmt.Sprintf("pod %s was bound/nominated %d times by one commit (valid ops %q, emitted %q)", uid, strings.Count(g, "P")+strings.Count(g, "A"), want, g))
		}
		if want == "" {
			m.report13("commit-emits-undone-step", fmt.Sprintf("pod %s has no valid operation in the statement but the commit emitted %q", uid, g))
		}
	}
	// reclaim / preempt: what reaches the cluster is the solution the validators accepted. A pod evicted by this commit
	// that is not a victim of that solution was evicted for a scenario the solver abandoned.
	if (m.action == "reclaim" || m.action == "preempt") && m.lastScenario != nil && m.lastScenario.activity >= st.actAtD0 {
		m.Stats["commits_compared_with_validated_solution"]++
		for uid, g := range got {
			if strings.Contains(g, "E") && !m.lastScenario.victims[uid] {
				m.report13("commit-evicts-outside-validated-solution", fmt.Sprintf("pod %s is evicted by the commit for %s but is not among the %d victims of the solution the validators accepted (emitted %q): an eviction of an abandoned scenario reached the cluster",
					uid, m.lastScenario.preemptor, len(m.lastScenario.victims), g))
			}
		}
	}
	if !failedBind {
		for uid, want := range st.expect {
			if failedEvict[uid] {
				continue
			}
			if got[uid] != want {
				if _, emitted := got[uid]; !emitted {
					m.report13("commit-drops-valid-step", fmt.Sprintf("pod %s has valid operations %q but the commit emitted nothing", uid, want))
				} else if sortStr(got[uid]) != sortStr(want) {
					m.report13("commit-effect-differs", fmt.Sprintf("pod %s: valid operations %q, emitted %q", uid, want, got[uid]))
				}
			}
		}
	}
}

func sortStr(s string) string {
	b := []byte(s)
	sort.Slice(b, func(i, j int) bool { return b[i] < b[j] })
	return string(b)
}

func (m *Monitor) report13(oracle, msg string) {
	key := "C13" + oracle + m.action
	if m.seenSig[key] || len(m.Findings) >= m.maxFind {
		return
	}
	m.seenSig[key] = true
	m.Findings = append(m.Findings, Finding{Prop: "C13", Oracle: oracle, Sig: oracle + ":" + actionClass(m.action), Msg: fmt.Sprintf("[%s] %s", m.action, msg), Action: m.action})
}

var _ = common_info.PodID("")
