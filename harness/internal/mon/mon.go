// Package mon holds the online monitors that run inside real scheduler sessions:
//   - C14: after every Allocate/Deallocate event (every simulated step of every action and solver) the
//     scheduler's node / workload / queue accounting is compared with values recomputed from scratch;
//   - C13: through the verif statement hooks, a canonical dump of the session taken before a statement's
//     first operation / at a checkpoint is compared with the dump after Discard / Rollback, and the Cache
//     calls of a Commit are compared with the net effect of the statement's operation log.
package mon

import (
	"fmt"
	"math"
	"sort"
	"strings"

	v1 "k8s.io/api/core/v1"

	"github.com/NVIDIA/KAI-scheduler/pkg/scheduler/api/common_info"
	"github.com/NVIDIA/KAI-scheduler/pkg/scheduler/api/node_info"
	"github.com/NVIDIA/KAI-scheduler/pkg/scheduler/api/pod_info"
	"github.com/NVIDIA/KAI-scheduler/pkg/scheduler/api/pod_status"
	"github.com/NVIDIA/KAI-scheduler/pkg/scheduler/api/podgroup_info"
	"github.com/NVIDIA/KAI-scheduler/pkg/scheduler/api/resource_info"
	"github.com/NVIDIA/KAI-scheduler/pkg/scheduler/framework"
	rs "github.com/NVIDIA/KAI-scheduler/pkg/scheduler/plugins/proportion/resource_share"
)

const relTol = 1e-9

func feq(a, b float64) bool {
	d := math.Abs(a - b)
	return d <= 1e-6 || d <= relTol*math.Max(math.Abs(a), math.Abs(b))
}

// queuesOf returns the proportion plugin's queue attributes (nil if unavailable).
func queuesOf(p framework.Plugin) map[common_info.QueueID]*rs.QueueAttributes {
	if p == nil {
		return nil
	}
	if q, ok := p.(interface {
		VerifQueues() map[common_info.QueueID]*rs.QueueAttributes
	}); ok {
		return q.VerifQueues()
	}
	return nil
}

// QueuesOf is queuesOf for other packages.
func QueuesOf(p framework.Plugin) map[common_info.QueueID]*rs.QueueAttributes { return queuesOf(p) }

func isReservation(p *v1.Pod) bool { return p.Labels["app"] == "kai-resource-reservation" }

// acc mirrors what a pod charges to a node outside shared GPUs (cpu, memory, whole gpus, scalars).
type vec map[string]float64

func (a vec) add(b vec, s float64) {
	for k, v := range b {
		a[k] += s * v
	}
}

func accOf(t *pod_info.PodInfo) vec {
	out := vec{}
	r := t.AcceptedResource
	if r == nil {
		return out
	}
	out["cpu"] = r.Cpu()
	out["memory"] = r.Memory()
	g := r.GPUs() + float64(r.GetDraGpusCount())
	if t.IsSharedGPUAllocation() || isReservation(t.Pod) {
		g = 0
	}
	out["gpu"] = g
	for k, v := range r.MigResources() {
		out[string(k)] += float64(v)
	}
	for k, v := range r.ScalarResources() {
		out[string(k)] = float64(v)
	}
	return out
}

func resVec(r *resource_info.Resource) vec {
	out := vec{"cpu": r.Cpu(), "memory": r.Memory(), "gpu": r.GPUs()}
	for k, v := range r.ScalarResources() {
		out[string(k)] = float64(v)
	}
	return out
}

func cmpVec(what string, got, want vec, skip map[string]bool, out *[]string) {
	keys := map[string]bool{}
	for k := range got {
		keys[k] = true
	}
	for k := range want {
		keys[k] = true
	}
	ks := make([]string, 0, len(keys))
	for k := range keys {
		ks = append(ks, k)
	}
	sort.Strings(ks)
	for _, k := range ks {
		if skip[k] {
			continue
		}
		if !feq(got[k], want[k]) {
			*out = append(*out, fmt.Sprintf("%s[%s]: scheduler has %.6g, recomputed %.6g", what, k, got[k], want[k]))
		}
	}
}

// CheckNodes recomputes each node from its own PodInfos (closed forms for the linear part, the per-group
// shared-GPU memory maps) and by rebuilding a fresh NodeInfo with the system's own constructor.
// Ghost describes the releasing copy of a shared-GPU pod that Statement.Pipeline moved to another GPU of the SAME
// node: the scheduler keeps that copy charged on the node but can hold only one PodInfo per pod, so the copy is not
// in PodInfos (NodeInfo.ConsolidateSharedPodInfoToDifferentGPU). The monitor re-creates it from the pod's groups
// at session open.
type Ghost struct {
	Task   *pod_info.PodInfo
	Groups []string
	// Uncertain: the state alone does not tell whether the releasing copy exists (pod nominated back onto the
	// GPU it was evicted from: Pipeline either replaced the releasing copy or added a second one); both are accepted.
	Uncertain bool
}

func CheckNodes(ssn *framework.Session, ghosts map[string][]Ghost, st map[string]int) []string {
	var out []string
	for name := range ssn.ClusterInfo.Nodes {
		var certain, uncertain []Ghost
		for _, g := range ghosts[name] {
			if g.Uncertain {
				uncertain = append(uncertain, g)
			} else {
				certain = append(certain, g)
			}
		}
		if len(uncertain) > 4 {
			st["nodes_not_judged_too_many_uncertain_ghosts"]++
			continue
		}
		var best []string
		for mask := 0; mask < 1<<len(uncertain); mask++ {
			gs := append([]Ghost(nil), certain...)
			for i, g := range uncertain {
				if mask&(1<<i) != 0 {
					gs = append(gs, g)
				}
			}
			scratch := map[string]int{}
			res := checkNode(ssn, name, gs, scratch)
			if mask == 0 || len(res) < len(best) {
				best = res
				if mask == 0 {
					for k, v := range scratch {
						st[k] += v
					}
				}
			}
			if len(res) == 0 {
				break
			}
		}
		out = append(out, best...)
	}
	sort.Strings(out)
	return out
}

func checkNode(ssn *framework.Session, only string, ghostList []Ghost, st map[string]int) []string {
	var out []string
	ghosts := map[string][]Ghost{only: ghostList}
	names := []string{only}
	for _, name := range names {
		ni := ssn.ClusterInfo.Nodes[name]
		used, nonPipe, rel := vec{}, vec{}, vec{}
		usedG, allocG, relG := map[string]int64{}, map[string]int64{}, map[string]int64{}
		for _, gh := range ghosts[name] {
			a := accOf(gh.Task)
			used.add(a, 1)
			rel.add(a, 1)
			nonPipe.add(a, 1)
			mem := ni.GetResourceGpuMemory(gh.Task.ResReq)
			for _, g := range gh.Groups {
				usedG[g] += mem
				relG[g] += mem
				allocG[g] += mem
			}
			st["ghost_releasing_copies"]++
		}
		for _, t := range ni.PodInfos {
			a := accOf(t)
			used.add(a, 1)
			switch t.Status {
			case pod_status.Releasing:
				rel.add(a, 1)
				nonPipe.add(a, 1)
			case pod_status.Pipelined:
				rel.add(a, -1)
			default:
				nonPipe.add(a, 1)
			}
			if t.IsSharedGPUAllocation() {
				mem := ni.GetResourceGpuMemory(t.ResReq)
				for _, g := range t.GPUGroups {
					usedG[g] += mem
					switch t.Status {
					case pod_status.Releasing:
						relG[g] += mem
						allocG[g] += mem
					case pod_status.Pipelined:
						relG[g] -= mem
					default:
						allocG[g] += mem
					}
				}
			}
		}
		gpuOnly := map[string]bool{"gpu": true} // whole-GPU idle/releasing also move with shared groups: checked by the rebuild below
		if ni.HasDRAGPUs && !hasSharedGPU(ni) {
			// a node whose GPUs are DRA devices hosts no device-plugin / shared GPU pods: the linear closed forms are
			// exact for the gpu field too (DRA GPUs are charged like whole GPUs, see accOf)
			gpuOnly = nil
			st["dra_gpu_node_closed_form_checks"]++
		}
		if want, ok := draGpuCapacity(ssn, ni); ok {
			// GPU capacity of the node recomputed from the API objects: device-plugin GPUs of the node object plus the
			// devices of its ResourceSlices whose driver is a GPU driver
			st["dra_gpu_node_capacity_checks"]++
			if !feq(ni.Allocatable.GPUs(), want) {
				out = append(out, fmt.Sprintf("node %s Allocatable[gpu]: scheduler has %.6g, recomputed %.6g (device-plugin GPUs + GPU devices of its ResourceSlices)", name, ni.Allocatable.GPUs(), want))
			}
		}
		cmpVec("node "+name+" Used", resVec(ni.Used), used, nil, &out)
		idle := vec{}
		idle.add(resVec(ni.Allocatable), 1)
		idle.add(nonPipe, -1)
		cmpVec("node "+name+" Idle", resVec(ni.Idle), idle, gpuOnly, &out)
		cmpVec("node "+name+" Releasing", resVec(ni.Releasing), rel, gpuOnly, &out)
		cmpGroups := func(what string, got, want map[string]int64) {
			keys := map[string]bool{}
			for k := range got {
				keys[k] = true
			}
			for k := range want {
				keys[k] = true
			}
			for k := range keys {
				if got[k] != want[k] {
					out = append(out, fmt.Sprintf("node %s %s[%s]: scheduler has %d, recomputed %d", name, what, k, got[k], want[k]))
				}
			}
		}
		cmpGroups("UsedSharedGPUsMemory", ni.UsedSharedGPUsMemory, usedG)
		cmpGroups("AllocatedSharedGPUsMemory", ni.AllocatedSharedGPUsMemory, allocG)
		cmpGroups("ReleasingSharedGPUsMemory", ni.ReleasingSharedGPUsMemory, relG)
		// vector == structured
		if ni.VectorMap != nil {
			for _, pair := range []struct {
				n string
				v resource_info.ResourceVector
				r *resource_info.Resource
			}{{"Idle", ni.IdleVector, ni.Idle}, {"Used", ni.UsedVector, ni.Used}, {"Releasing", ni.ReleasingVector, ni.Releasing}, {"Allocatable", ni.AllocatableVector, ni.Allocatable}} {
				want := pair.r.ToVector(ni.VectorMap)
				for i := 0; i < ni.VectorMap.Len() && i < len(pair.v) && i < len(want); i++ {
					if !feq(pair.v[i], want[i]) {
						out = append(out, fmt.Sprintf("node %s %sVector[%s]=%.6g but structured %s=%.6g", name, pair.n, ni.VectorMap.ResourceAt(i), pair.v[i], pair.n, want[i]))
					}
				}
			}
			st["vector_checks"]++
		}
		out = append(out, rebuildNode(ni, ghosts[name], st)...)
	}
	return out
}

func hasSharedGPU(ni *node_info.NodeInfo) bool {
	for _, t := range ni.PodInfos {
		if t.IsSharedGPUAllocation() || isReservation(t.Pod) {
			return true
		}
	}
	return false
}

type nopAffinity struct{ name string }

func (nopAffinity) AddPod(*v1.Pod)                   {}
func (nopAffinity) RemovePod(*v1.Pod) error          { return nil }
func (nopAffinity) HasPodsWithPodAffinity() bool     { return false }
func (nopAffinity) HasPodsWithPodAntiAffinity() bool { return false }
func (n nopAffinity) Name() string                   { return n.name }

// rebuildNode constructs a fresh NodeInfo with the system's own code from clones of the node's PodInfos
// (reservation pods, then non-pipelined, then pipelined - the snapshot's order) and compares it.
func rebuildNode(ni *node_info.NodeInfo, ghosts []Ghost, st map[string]int) []string {
	var out []string
	if ni.Node == nil {
		return nil
	}
	// a group that holds only pipelined pods depends on insertion order: skip the whole-GPU comparison then
	groupHasNonPipelined := map[string]bool{}
	groupSeen := map[string]bool{}
	for _, t := range ni.PodInfos {
		if t.IsSharedGPUAllocation() {
			for _, g := range t.GPUGroups {
				groupSeen[g] = true
				if t.Status != pod_status.Pipelined {
					groupHasNonPipelined[g] = true
				}
			}
		}
	}
	pipelinedOnly := false
	for _, t := range ni.PodInfos {
		if t.IsSharedGPUAllocation() && (t.Status == pod_status.Pipelined || t.Status == pod_status.Releasing) {
			// whole-GPU idle/releasing counts depend on the order in which pipelined sharers were added relative to
			// the releasing ones: the rebuild (snapshot order) is not comparable for the gpu field
			pipelinedOnly = true
		}
	}
	for g := range groupSeen {
		if !groupHasNonPipelined[g] {
			pipelinedOnly = true
		}
	}
	fresh := node_info.NewNodeInfo(ni.Node, nopAffinity{ni.Name}, ni.VectorMap)
	if ni.HasDRAGPUs {
		// the snapshot adds the GPU devices of the node's ResourceSlices after constructing the node (populateDRAGPUs):
		// same here, with the count the scheduler's own Allocatable carries beyond the node object (that count is
		// compared with the slices separately, see draGpuCapacity)
		fresh.AddDRAGPUs(ni.Allocatable.GPUs() - fresh.Allocatable.GPUs())
		fresh.HasDRAGPUs = true
		st["dra_gpu_node_rebuilds"]++
	}
	var first, second, third []*pod_info.PodInfo
	keys := make([]string, 0, len(ni.PodInfos))
	byKey := map[string]*pod_info.PodInfo{}
	for k, t := range ni.PodInfos {
		keys = append(keys, string(k))
		byKey[string(k)] = t
	}
	sort.Strings(keys)
	for _, k := range keys {
		t := byKey[k]
		switch {
		case isReservation(t.Pod):
			first = append(first, t)
		case t.Status == pod_status.Pipelined:
			third = append(third, t)
		default:
			second = append(second, t)
		}
	}
	ghostKey := map[string]bool{}
	for _, gh := range ghosts {
		c := gh.Task.Clone()
		c.Status = pod_status.Releasing
		c.GPUGroups = append([]string(nil), gh.Groups...)
		if err := fresh.AddTask(c); err != nil {
			return nil
		}
		ghostKey[string(pod_info.PodKey(gh.Task.Pod))] = true
	}
	for _, t := range append(append(first, second...), third...) {
		c := t.Clone()
		var err error
		if ghostKey[string(pod_info.PodKey(t.Pod))] {
			err = fresh.ConsolidateSharedPodInfoToDifferentGPU(c)
		} else {
			err = fresh.AddTask(c)
		}
		if err != nil {
			return nil // cannot rebuild (e.g. status not addable): not judged
		}
	}
	st["node_rebuilds"]++
	skip := map[string]bool{}
	if pipelinedOnly {
		skip["gpu"] = true
		st["node_rebuilds_gpu_field_skipped_pipelined_sharer"]++
	}
	cmpVec("node "+ni.Name+" Idle vs rebuilt", resVec(ni.Idle), resVec(fresh.Idle), skip, &out)
	cmpVec("node "+ni.Name+" Releasing vs rebuilt", resVec(ni.Releasing), resVec(fresh.Releasing), skip, &out)
	cmpVec("node "+ni.Name+" Used vs rebuilt", resVec(ni.Used), resVec(fresh.Used), nil, &out)
	return out
}

// CheckJobs recounts every workload from its pods.
func CheckJobs(ssn *framework.Session, st map[string]int) []string {
	var out []string
	ids := make([]string, 0, len(ssn.ClusterInfo.PodGroupInfos))
	for id := range ssn.ClusterInfo.PodGroupInfos {
		ids = append(ids, string(id))
	}
	sort.Strings(ids)
	for _, id := range ids {
		job := ssn.ClusterInfo.PodGroupInfos[common_info.PodGroupID(id)]
		alloc := vec{}
		active := 0
		byStatus := map[pod_status.PodStatus]map[common_info.PodID]bool{}
		for uid, t := range job.GetAllPodsMap() {
			if pod_status.AllocatedStatus(t.Status) {
				alloc["cpu"] += t.ResReq.Cpu()
				alloc["memory"] += t.ResReq.Memory()
				alloc["gpu"] += t.ResReq.GPUs() + float64(t.ResReq.GetDraGpusCount())
				for k, v := range t.ResReq.ScalarResources() {
					alloc[string(k)] += float64(v)
				}
				for k, v := range t.ResReq.MigResources() {
					alloc[string(k)] += float64(v)
				}
			}
			if pod_status.IsActiveAllocatedStatus(t.Status) {
				active++
			}
			if byStatus[t.Status] == nil {
				byStatus[t.Status] = map[common_info.PodID]bool{}
			}
			byStatus[t.Status][uid] = true
		}
		got := resVec(job.Allocated)
		for k, v := range job.Allocated.MigResources() {
			got[string(k)] = float64(v)
		}
		cmpVec("job "+id+" Allocated", got, alloc, nil, &out)
		if n := job.GetActiveAllocatedTasksCount(); n != active {
			out = append(out, fmt.Sprintf("job %s GetActiveAllocatedTasksCount=%d, recounted %d", id, n, active))
		}
		// status index
		for s, tasks := range job.PodStatusIndex {
			for uid, t := range tasks {
				if t.Status != s {
					out = append(out, fmt.Sprintf("job %s PodStatusIndex[%v] holds pod %s whose status is %v", id, s, t.Name, t.Status))
				}
				if !byStatus[s][uid] {
					out = append(out, fmt.Sprintf("job %s PodStatusIndex[%v] holds pod %s which the pod sets list with another status", id, s, t.Name))
				}
			}
		}
		for s, uids := range byStatus {
			for uid := range uids {
				if _, ok := job.PodStatusIndex[s][uid]; !ok {
					out = append(out, fmt.Sprintf("job %s pod %s has status %v but is missing from PodStatusIndex[%v]", id, uid, s, s))
				}
			}
		}
		// pod set counters
		for name, ps := range job.GetSubGroups() {
			na, nu, nl := 0, 0, 0
			for _, t := range ps.GetPodInfos() {
				if pod_status.IsActiveAllocatedStatus(t.Status) {
					na++
				}
				if pod_status.IsActiveUsedStatus(t.Status) {
					nu++
				}
				if pod_status.IsAliveStatus(t.Status) {
					nl++
				}
			}
			if ps.GetNumActiveAllocatedTasks() != na || ps.GetNumActiveUsedTasks() != nu || ps.GetNumAliveTasks() != nl {
				out = append(out, fmt.Sprintf("job %s pod set %q counters (activeAllocated,activeUsed,alive)=(%d,%d,%d), recounted (%d,%d,%d)",
					id, name, ps.GetNumActiveAllocatedTasks(), ps.GetNumActiveUsedTasks(), ps.GetNumAliveTasks(), na, nu, nl))
			}
		}
		if len(job.AllocatedVector) > 0 && job.VectorMap != nil {
			want := job.Allocated.ToVector(job.VectorMap)
			for i := 0; i < job.VectorMap.Len() && i < len(want) && i < len(job.AllocatedVector); i++ {
				if !feq(job.AllocatedVector[i], want[i]) {
					out = append(out, fmt.Sprintf("job %s AllocatedVector[%s]=%.6g but structured Allocated=%.6g", id, job.VectorMap.ResourceAt(i), job.AllocatedVector[i], want[i]))
				}
			}
		}
		st["job_checks"]++
	}
	return out
}

// CheckQueues recomputes queue Allocated / AllocatedNotPreemptible from the pods of the session.
func CheckQueues(ssn *framework.Session, prop framework.Plugin, st map[string]int) []string {
	var out []string
	queues := queuesOf(prop)
	if queues == nil {
		return nil
	}
	type pair struct{ all, np map[rs.ResourceName]float64 }
	want := map[common_info.QueueID]*pair{}
	for id := range queues {
		want[id] = &pair{map[rs.ResourceName]float64{}, map[rs.ResourceName]float64{}}
	}
	for _, job := range ssn.ClusterInfo.PodGroupInfos {
		for _, t := range job.GetAllPodsMap() {
			if !(pod_status.AllocatedStatus(t.Status) || t.Status == pod_status.Pipelined) {
				continue
			}
			q := map[rs.ResourceName]float64{rs.CpuResource: t.AcceptedResource.Cpu(), rs.MemoryResource: t.AcceptedResource.Memory(), rs.GpuResource: t.AcceptedResource.GetGpusQuota()}
			// a gpu-memory request is worth a node-dependent share of a device: recompute it from the request and the
			// node the pod is on instead of trusting the cached accepted resource
			if mem := t.ResReq.GpuMemory(); mem > 0 && t.NodeName != "" {
				if ni := ssn.ClusterInfo.Nodes[t.NodeName]; ni != nil && ni.MemoryOfEveryGpuOnNode > 0 {
					portion := math.Ceil(float64(mem)/float64(ni.MemoryOfEveryGpuOnNode)*100) / 100
					own := portion * float64(t.ResReq.GetNumOfGpuDevices())
					if !feq(own, q[rs.GpuResource]) {
						out = append(out, fmt.Sprintf("task %s AcceptedResource[gpu]: scheduler has %.6g, recomputed %.6g (gpu-memory %d on node %s with %d per device)",
							t.Name, q[rs.GpuResource], own, mem, t.NodeName, ni.MemoryOfEveryGpuOnNode))
					}
					q[rs.GpuResource] = own
				}
			}
			seen := map[common_info.QueueID]bool{}
			for qa, ok := queues[job.Queue]; ok && !seen[qa.UID]; qa, ok = queues[qa.ParentQueue] {
				seen[qa.UID] = true
				for r, v := range q {
					want[qa.UID].all[r] += v
					if !job.IsPreemptibleJob() {
						want[qa.UID].np[r] += v
					}
				}
			}
		}
	}
	ids := make([]string, 0, len(queues))
	for id := range queues {
		ids = append(ids, string(id))
	}
	sort.Strings(ids)
	for _, id := range ids {
		qa := queues[common_info.QueueID(id)]
		for _, r := range rs.AllResources {
			sh := qa.ResourceShare(r)
			if !feq(sh.Allocated, want[qa.UID].all[r]) {
				out = append(out, fmt.Sprintf("queue %s Allocated[%s]: scheduler has %.6g, recomputed %.6g", id, r, sh.Allocated, want[qa.UID].all[r]))
			}
			if !feq(sh.AllocatedNotPreemptible, want[qa.UID].np[r]) {
				out = append(out, fmt.Sprintf("queue %s AllocatedNotPreemptible[%s]: scheduler has %.6g, recomputed %.6g", id, r, sh.AllocatedNotPreemptible, want[qa.UID].np[r]))
			}
		}
		st["queue_checks"]++
	}
	return out
}

// sigOf condenses a mismatch message to a stable signature: object kind + field.
func SigOf(msg string) string {
	f := strings.Fields(msg)
	if len(f) < 3 {
		return msg
	}
	if f[0] == "claim" || f[0] == "claims" {
		return "claim:" + claimSig(msg) // DRA (dra.go): the violated clause, never device or object names
	}
	field := f[2]
	if i := strings.IndexAny(field, "[:="); i > 0 {
		field = field[:i]
	}
	extra := ""
	if strings.Contains(msg, "rebuilt") {
		extra = "-vs-rebuilt"
	}
	res := ""
	if i := strings.Index(msg, "["); i > 0 {
		if j := strings.Index(msg[i:], "]"); j > 0 {
			res = msg[i+1 : i+j]
			if f[0] == "node" && (strings.HasPrefix(field, "UsedShared") || strings.HasPrefix(field, "AllocatedShared") || strings.HasPrefix(field, "ReleasingShared")) {
				res = "group"
			}
		}
	}
	return f[0] + ":" + field + extra + ":" + res
}

var _ = podgroup_info.DefaultSubGroup
