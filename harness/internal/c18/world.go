package c18

import (
	"context"
	"encoding/json"
	"fmt"
	"sort"
	"strings"

	"github.com/go-logr/logr"
	v1 "k8s.io/api/core/v1"
	apierrors "k8s.io/apimachinery/pkg/api/errors"
	metav1 "k8s.io/apimachinery/pkg/apis/meta/v1"
	"k8s.io/apimachinery/pkg/apis/meta/v1/unstructured"
	"k8s.io/apimachinery/pkg/runtime"
	"k8s.io/apimachinery/pkg/runtime/schema"
	"k8s.io/apimachinery/pkg/types"
	ctrl "sigs.k8s.io/controller-runtime"
	"sigs.k8s.io/controller-runtime/pkg/client"
	crfake "sigs.k8s.io/controller-runtime/pkg/client/fake"
	"sigs.k8s.io/controller-runtime/pkg/client/interceptor"
	"sigs.k8s.io/controller-runtime/pkg/log"

	v2alpha2 "github.com/NVIDIA/KAI-scheduler/pkg/apis/scheduling/v2alpha2"
	controllers "github.com/NVIDIA/KAI-scheduler/pkg/podgrouper"
	"github.com/NVIDIA/KAI-scheduler/pkg/podgrouper/podgroup"
	"github.com/NVIDIA/KAI-scheduler/pkg/podgrouper/podgrouper"
	pluginshub "github.com/NVIDIA/KAI-scheduler/pkg/podgrouper/podgrouper/hub"

	"verif/harness/internal/store"
)

// Call is one mutating client call observed at the SUT's client boundary.
type Call struct {
	Verb string `json:"verb"` // create, update, patch, delete, deleteallof, apply, status-update, status-patch, status-create
	Kind string `json:"kind"`
	Name string `json:"name"`
}

func (c Call) String() string { return c.Verb + "-" + strings.ToLower(c.Kind) + ":" + c.Name }

type countingRecorder struct{ events []string }

func (r *countingRecorder) Event(_ runtime.Object, eventtype, reason, message string) {
	r.events = append(r.events, eventtype+"/"+reason+": "+message)
}
func (r *countingRecorder) Eventf(o runtime.Object, eventtype, reason, f string, a ...interface{}) {
	r.Event(o, eventtype, reason, fmt.Sprintf(f, a...))
}
func (r *countingRecorder) AnnotatedEventf(o runtime.Object, _ map[string]string, eventtype, reason, f string, a ...interface{}) {
	r.Event(o, eventtype, reason, fmt.Sprintf(f, a...))
}

// world is one fresh API store + the real reconciler wired to it.
type world struct {
	sc     *Scenario
	scheme *runtime.Scheme
	raw    client.WithWatch // harness / foreign actor: not counted
	sut    client.WithWatch // what the pod-grouper sees: counted
	rec    *controllers.PodReconciler
	events *countingRecorder
	calls  []Call
	ctx    context.Context
	reads  int
	// failAt: 1-based index (over all mutating calls of this world) of the call that is rejected once with a
	// server-timeout error and not applied (0 = no fault); failed records which call it was
	failAt int
	failed *Call
}

func toUnstructured(o Obj) (*unstructured.Unstructured, error) {
	b, err := json.Marshal(o)
	if err != nil {
		return nil, err
	}
	u := &unstructured.Unstructured{}
	if err := u.UnmarshalJSON(b); err != nil {
		return nil, err
	}
	return u, nil
}

func kindOf(scheme *runtime.Scheme, o runtime.Object) string {
	if k := o.GetObjectKind().GroupVersionKind().Kind; k != "" {
		return k
	}
	if gvks, _, err := scheme.ObjectKinds(o); err == nil && len(gvks) > 0 {
		return gvks[0].Kind
	}
	return fmt.Sprintf("%T", o)
}

func newWorld(sc *Scenario) (*world, error) {
	w := &world{sc: sc, scheme: store.Scheme(), events: &countingRecorder{}}
	w.ctx = log.IntoContext(context.Background(), logr.Discard())
	var objs []client.Object
	for _, o := range append(append([]Obj{}, sc.Objects...), sc.Pods...) {
		u, err := toUnstructured(o)
		if err != nil {
			return nil, fmt.Errorf("object %v: %w", o["kind"], err)
		}
		// Kinds the scheme does not know are registered as Unstructured up front. Otherwise the fake client registers
		// them lazily with the Go type of the FIRST access - the pod-grouper's first access is a PartialObjectMetadata
		// Get - and a later write by the harness (workload change) would be decoded into that type and lose the spec.
		if gvk := u.GroupVersionKind(); !w.scheme.Recognizes(gvk) {
			w.scheme.AddKnownTypeWithName(gvk, &unstructured.Unstructured{})
			lk := gvk
			lk.Kind += "List"
			w.scheme.AddKnownTypeWithName(lk, &unstructured.UnstructuredList{})
		}
		objs = append(objs, u)
	}
	w.raw = crfake.NewClientBuilder().WithScheme(w.scheme).WithStatusSubresource(&v2alpha2.PodGroup{}).WithObjects(objs...).Build()
	rec := func(verb string, o runtime.Object) error {
		name := ""
		if a, ok := o.(metav1.Object); ok {
			name = a.GetName()
		}
		w.calls = append(w.calls, Call{Verb: verb, Kind: kindOf(w.scheme, o), Name: name})
		if w.failAt > 0 && len(w.calls) == w.failAt {
			c := w.calls[len(w.calls)-1]
			w.failed = &c
			return apierrors.NewServerTimeout(schema.GroupResource{Resource: strings.ToLower(c.Kind)}, verb, 1)
		}
		return nil
	}
	w.sut = interceptor.NewClient(w.raw, interceptor.Funcs{
		Get: func(ctx context.Context, c client.WithWatch, key client.ObjectKey, obj client.Object, opts ...client.GetOption) error {
			w.reads++
			err := c.Get(ctx, key, obj, opts...)
			if err == nil {
				// The pod-grouper's client is the manager's cache-backed client; its CacheReader sets the GVK on typed
				// objects it returns (controller-runtime pkg/cache/internal/cache_reader.go). The fake client blanks
				// TypeMeta of typed objects, so restore it here to match production.
				_, isU := obj.(runtime.Unstructured)
				_, isP := obj.(*metav1.PartialObjectMetadata)
				if !isU && !isP {
					if gvks, _, e := w.scheme.ObjectKinds(obj); e == nil && len(gvks) > 0 {
						obj.GetObjectKind().SetGroupVersionKind(gvks[0])
					}
				}
			}
			return err
		},
		List: func(ctx context.Context, c client.WithWatch, list client.ObjectList, opts ...client.ListOption) error {
			w.reads++
			return c.List(ctx, list, opts...)
		},
		Create: func(ctx context.Context, c client.WithWatch, obj client.Object, opts ...client.CreateOption) error {
			if err := rec("create", obj); err != nil {
				return err
			}
			return c.Create(ctx, obj, opts...)
		},
		Update: func(ctx context.Context, c client.WithWatch, obj client.Object, opts ...client.UpdateOption) error {
			if err := rec("update", obj); err != nil {
				return err
			}
			return c.Update(ctx, obj, opts...)
		},
		Patch: func(ctx context.Context, c client.WithWatch, obj client.Object, p client.Patch, opts ...client.PatchOption) error {
			if err := rec("patch", obj); err != nil {
				return err
			}
			return c.Patch(ctx, obj, p, opts...)
		},
		Delete: func(ctx context.Context, c client.WithWatch, obj client.Object, opts ...client.DeleteOption) error {
			if err := rec("delete", obj); err != nil {
				return err
			}
			return c.Delete(ctx, obj, opts...)
		},
		DeleteAllOf: func(ctx context.Context, c client.WithWatch, obj client.Object, opts ...client.DeleteAllOfOption) error {
			if err := rec("deleteallof", obj); err != nil {
				return err
			}
			return c.DeleteAllOf(ctx, obj, opts...)
		},
		Apply: func(ctx context.Context, c client.WithWatch, obj runtime.ApplyConfiguration, opts ...client.ApplyOption) error {
			w.calls = append(w.calls, Call{Verb: "apply", Kind: fmt.Sprintf("%T", obj)})
			return c.Apply(ctx, obj, opts...)
		},
		SubResourceCreate: func(ctx context.Context, c client.Client, sub string, obj client.Object, subObj client.Object, opts ...client.SubResourceCreateOption) error {
			if err := rec(sub+"-create", obj); err != nil {
				return err
			}
			return c.SubResource(sub).Create(ctx, obj, subObj, opts...)
		},
		SubResourceUpdate: func(ctx context.Context, c client.Client, sub string, obj client.Object, opts ...client.SubResourceUpdateOption) error {
			if err := rec(sub+"-update", obj); err != nil {
				return err
			}
			return c.SubResource(sub).Update(ctx, obj, opts...)
		},
		SubResourcePatch: func(ctx context.Context, c client.Client, sub string, obj client.Object, p client.Patch, opts ...client.SubResourcePatchOption) error {
			if err := rec(sub+"-patch", obj); err != nil {
				return err
			}
			return c.SubResource(sub).Patch(ctx, obj, p, opts...)
		},
	})
	cmName, cmNs := "", ""
	if sc.Cfg.DefaultsCM {
		cmName, cmNs = defaultsCMName, defaultsCMNs
	}
	cfg := controllers.Configs{
		NodePoolLabelKey: nodePoolLabel, MaxConcurrentReconciles: 1, SearchForLegacyPodGroups: sc.Cfg.SearchLegacy,
		KnativeGangSchedule: sc.Cfg.KnativeGang, SchedulerName: schedulerName, SchedulingQueueLabelKey: queueLabel,
		DefaultConfigPerTypeConfigMapName: cmName, DefaultConfigPerTypeConfigMapNamespace: cmNs,
	}
	// exactly what cmd/podgrouper/app + PodReconciler.SetupWithManager do
	hub := pluginshub.NewDefaultPluginsHub(w.sut, cfg.SearchForLegacyPodGroups, cfg.KnativeGangSchedule, cfg.SchedulingQueueLabelKey,
		cfg.NodePoolLabelKey, cfg.DefaultConfigPerTypeConfigMapName, cfg.DefaultConfigPerTypeConfigMapNamespace)
	grouper := podgrouper.NewPodgrouper(w.sut, w.sut, hub)
	handler := podgroup.NewHandler(w.sut, cfg.NodePoolLabelKey, cfg.SchedulingQueueLabelKey)
	w.rec = controllers.NewPodReconcilerForVerif(w.sut, w.scheme, grouper, handler, cfg, w.events)
	return w, nil
}

// reconcile runs the real Reconcile for sibling pod i and returns the mutating calls it made and its error.
func (w *world) reconcile(i int) (calls []Call, errMsg string) {
	return w.reconcileName(nameOf(w.sc.Pods[i]))
}

// reconcileName runs the real Reconcile for the pod of that name.
func (w *world) reconcileName(name string) (calls []Call, errMsg string) {
	before := len(w.calls)
	func() {
		defer func() {
			if r := recover(); r != nil {
				errMsg = fmt.Sprintf("PANIC: %v", r)
			}
		}()
		_, err := w.rec.Reconcile(w.ctx, ctrl.Request{NamespacedName: types.NamespacedName{Namespace: ns, Name: name}})
		if err != nil {
			errMsg = err.Error()
		}
	}()
	return append([]Call(nil), w.calls[before:]...), errMsg
}

// ------------------------------------------------------------------------------------------ canonical state

// SG is the canonical form of a sub-group.
type SG struct {
	Name      string `json:"name"`
	MinMember int32  `json:"minMember"`
	Parent    string `json:"parent,omitempty"`
	Topology  string `json:"topology,omitempty"`
}

// PG is the canonical form of a PodGroup: everything the grouper sets plus the foreign-owned fields.
type PG struct {
	Name              string            `json:"name"`
	Namespace         string            `json:"namespace"`
	MinMember         int32             `json:"minMember"`
	Queue             string            `json:"queue"`
	Priority          string            `json:"priorityClassName"`
	Preemptibility    string            `json:"preemptibility"`
	Topology          string            `json:"topologyConstraint"`
	SubGroups         []SG              `json:"subGroups,omitempty"`
	Owners            []string          `json:"ownerReferences"`
	Labels            map[string]string `json:"labels,omitempty"`
	Annotations       map[string]string `json:"annotations,omitempty"`
	MarkUnschedulable string            `json:"markUnschedulable"`
	SchedulingBackoff string            `json:"schedulingBackoff"`
	Status            string            `json:"status"`
}

// State is the observable outcome of a run.
type State struct {
	PodGroups []PG                 `json:"podGroups"`
	Pods      map[string][2]string `json:"pods"` // pod -> (pod-group-name annotation, subgroup label)
}

func tcString(t *v2alpha2.TopologyConstraint) string {
	if t == nil {
		return ""
	}
	if t.Topology == "" && t.RequiredTopologyLevel == "" && t.PreferredTopologyLevel == "" {
		return ""
	}
	return fmt.Sprintf("topology=%s required=%s preferred=%s", t.Topology, t.RequiredTopologyLevel, t.PreferredTopologyLevel)
}

func (w *world) state() (*State, error) {
	st := &State{Pods: map[string][2]string{}}
	var pgs v2alpha2.PodGroupList
	if err := w.raw.List(w.ctx, &pgs); err != nil {
		return nil, err
	}
	for i := range pgs.Items {
		p := &pgs.Items[i]
		c := PG{Name: p.Name, Namespace: p.Namespace, MinMember: p.Spec.MinMember, Queue: p.Spec.Queue, Priority: p.Spec.PriorityClassName,
			Preemptibility: string(p.Spec.Preemptibility), Topology: tcString(&p.Spec.TopologyConstraint), Labels: p.Labels, Annotations: p.Annotations,
			MarkUnschedulable: "nil", SchedulingBackoff: "nil"}
		for _, sg := range p.Spec.SubGroups {
			s := SG{Name: sg.Name, MinMember: sg.MinMember, Topology: tcString(sg.TopologyConstraint)}
			if sg.Parent != nil {
				s.Parent = *sg.Parent
			}
			c.SubGroups = append(c.SubGroups, s)
		}
		for _, o := range p.OwnerReferences {
			c.Owners = append(c.Owners, fmt.Sprintf("%s/%s/%s/%s", o.APIVersion, o.Kind, o.Name, o.UID))
		}
		if p.Spec.MarkUnschedulable != nil {
			c.MarkUnschedulable = fmt.Sprint(*p.Spec.MarkUnschedulable)
		}
		if p.Spec.SchedulingBackoff != nil {
			c.SchedulingBackoff = fmt.Sprint(*p.Spec.SchedulingBackoff)
		}
		sb, _ := json.Marshal(p.Status)
		c.Status = string(sb)
		if len(c.Labels) == 0 {
			c.Labels = nil
		}
		if len(c.Annotations) == 0 {
			c.Annotations = nil
		}
		st.PodGroups = append(st.PodGroups, c)
	}
	sort.Slice(st.PodGroups, func(i, j int) bool {
		return st.PodGroups[i].Namespace+"/"+st.PodGroups[i].Name < st.PodGroups[j].Namespace+"/"+st.PodGroups[j].Name
	})
	for _, po := range w.sc.Pods {
		var p v1.Pod
		if err := w.raw.Get(w.ctx, types.NamespacedName{Namespace: ns, Name: nameOf(po)}, &p); err != nil {
			return nil, err
		}
		st.Pods[p.Name] = [2]string{p.Annotations["pod-group-name"], p.Labels["kai.scheduler/subgroup-name"]}
	}
	return st, nil
}

func (s *State) key() string {
	b, _ := json.Marshal(s)
	return string(b)
}

// diffStates lists the fields in which two states differ ("" when equal).
func diffStates(a, b *State) (fields []string, details map[string]string) {
	details = map[string]string{}
	am, bm := map[string]*PG{}, map[string]*PG{}
	for i := range a.PodGroups {
		am[a.PodGroups[i].Name] = &a.PodGroups[i]
	}
	for i := range b.PodGroups {
		bm[b.PodGroups[i].Name] = &b.PodGroups[i]
	}
	add := func(f, d string) {
		fields = append(fields, f)
		details[f] = d
	}
	var names []string
	for n := range am {
		names = append(names, n)
	}
	for n := range bm {
		if am[n] == nil {
			names = append(names, n)
		}
	}
	sort.Strings(names)
	seen := map[string]bool{}
	for _, n := range names {
		x, y := am[n], bm[n]
		if x == nil || y == nil {
			if !seen["podgroup-set"] {
				seen["podgroup-set"] = true
				add("podgroup-set", fmt.Sprintf("PodGroup %s exists in one run only", n))
			}
			continue
		}
		xj, yj := map[string]any{}, map[string]any{}
		xb, _ := json.Marshal(x)
		yb, _ := json.Marshal(y)
		_ = json.Unmarshal(xb, &xj)
		_ = json.Unmarshal(yb, &yj)
		var ks []string
		for k := range xj {
			ks = append(ks, k)
		}
		for k := range yj {
			if _, ok := xj[k]; !ok {
				ks = append(ks, k)
			}
		}
		sort.Strings(ks)
		for _, k := range ks {
			xv, _ := json.Marshal(xj[k])
			yv, _ := json.Marshal(yj[k])
			if string(xv) != string(yv) && !seen[k] {
				seen[k] = true
				add("podgroup."+k, fmt.Sprintf("PodGroup %s %s: %s vs %s", n, k, xv, yv))
			}
		}
	}
	var pods []string
	for p := range a.Pods {
		pods = append(pods, p)
	}
	sort.Strings(pods)
	for _, p := range pods {
		if a.Pods[p] != b.Pods[p] {
			if a.Pods[p][0] != b.Pods[p][0] && !seen["pod.pod-group-name"] {
				seen["pod.pod-group-name"] = true
				add("pod.pod-group-name", fmt.Sprintf("pod %s pod-group-name %q vs %q", p, a.Pods[p][0], b.Pods[p][0]))
			}
			if a.Pods[p][1] != b.Pods[p][1] && !seen["pod.subgroup-label"] {
				seen["pod.subgroup-label"] = true
				add("pod.subgroup-label", fmt.Sprintf("pod %s subgroup label %q vs %q", p, a.Pods[p][1], b.Pods[p][1]))
			}
		}
	}
	return fields, details
}
