package c18

import (
	"crypto/sha256"
	"encoding/hex"
	"encoding/json"
	"fmt"
	"math/rand/v2"
	"os"
	"sort"
	"strings"
	"time"

	v1 "k8s.io/api/core/v1"
	metav1 "k8s.io/apimachinery/pkg/apis/meta/v1"
	"k8s.io/apimachinery/pkg/apis/meta/v1/unstructured"
	"k8s.io/apimachinery/pkg/types"
	"k8s.io/utils/ptr"
	"sigs.k8s.io/controller-runtime/pkg/client"

	v2alpha2 "github.com/NVIDIA/KAI-scheduler/pkg/apis/scheduling/v2alpha2"

	"verif/harness/internal/run"
)

const propID = "C18"

// maxConvergePasses bounds the search for a content fixpoint after an order has been played.
const maxConvergePasses = 4

type check struct{}

// New returns the C18 check.
func New() run.Check { return &check{} }

func (c *check) ID() string    { return propID }
func (c *check) Level() string { return "exploration" }
func (c *check) NumCases(tier string) int {
	if tier == "thorough" {
		return 5000
	}
	return 912
}
func (c *check) Rule() string {
	return "owner chains drawn from PCG(seed, index, stream 18): bare Pod, Spark driver+executors, Job, CronJob->Job, Deployment->ReplicaSet, StatefulSet, ReplicaSet, " +
		"PyTorchJob/TFJob/MPIJob/XGBoostJob/JAXJob, RayCluster, RayJob->RayCluster, JobSet->Job, LeaderWorkerSet->StatefulSet->leader Pod->StatefulSet, " +
		"Argo Workflow->{Pod,PyTorchJob,Job,CRD}, Knative Service->Configuration->Revision->Deployment->ReplicaSet, unknown CRD; 1-6 sibling pods; " +
		"queue/project/priority/preemptibility/user/node-pool labels and topology annotations on owner vs intermediate owner vs pod template; replica counts; " +
		"pod-grouper flags (legacy search, knative gang, defaults ConfigMap). The real PodReconciler.Reconcile (real podgrouper, DefaultPluginsHub, podgroup.Handler) " +
		"runs on a fresh controller-runtime fake client per reconcile order (4-5 orders with multiplicities 1-3), then passes over all pods until the content is stable, " +
		"plus one run with a foreign update of the PodGroup (and optionally a workload change) at a random point, runs with one mutating call rejected once, a run with the workload " +
		"deleted and re-created under the same name, and a run in a store that also holds same-named twins of every object of the workload (and a running launcher-role pod with its " +
		"kubeflow job-name label) in another namespace: the result for the workload's namespace must be what it was without them. " +
		"Non-trivial: a case with >=2 sibling pods, >=2 reconcile orders compared and >=2 successful reconciles. Distinct = hash of (objects, pods, config, orders, foreign plan)."
}
func (c *check) Assumptions() []string {
	return []string{
		"the pod-grouper client returns typed objects with TypeMeta set (the manager's cache-backed client does; the fake client's blank TypeMeta is restored in the Get interceptor)",
		"grouping keys are asserted only where docs/developer/pod-grouper.md or plugin comments state them; LeaderWorkerSet is checked per leader-worker replica group (name suffix -group-<index> in lws_grouper.go); knative without gang scheduling is not asserted",
		"sibling pods share one pod template (queue/priority/preemptibility labels identical across siblings); per-pod index/role labels differ",
		"LeaderReady LeaderWorkerSets have their workers only when the leader is scheduled (as the LWS controller creates them)",
		"reconciles are sequential (MaxConcurrentReconciles=1); no API write failures are injected (that is C11)",
		"reconcile errors are compared across orders like any other outcome but are not violations by themselves",
	}
}
func (c *check) CaseTimeout() time.Duration { return 120 * time.Second }
func (c *check) CrashIsViolation() bool     { return true }

// OrderRun is what one order produced (kept in replay files).
type OrderRun struct {
	Order          []int          `json:"order"`
	Errors         map[string]int `json:"errors,omitempty"` // error text -> count
	WritesDuring   int            `json:"writesDuringOrder"`
	Final          *State         `json:"final,omitempty"`
	SameAsOrder0   bool           `json:"finalSameAsOrder0,omitempty"`
	ConvergePasses int            `json:"convergePasses"`
	FixpointWrites []Call         `json:"fixpointWrites,omitempty"`
	FixpointCauses []string       `json:"fixpointCauses,omitempty"`
	Converged      bool           `json:"converged"`
}

// Replay is the replay file format.
type Replay struct {
	Scenario   *Scenario       `json:"scenario"`
	Runs       []OrderRun      `json:"runs"`
	ForeignLog []string        `json:"foreignLog,omitempty"`
	Violations []run.Violation `json:"violations"`
}

type caseRun struct {
	sc       *Scenario
	counters map[string]int
	viols    []run.Violation
	seen     map[string]bool
	okRecs   int

	foreignErrs []string
}

func (cr *caseRun) inc(k string, n int) { cr.counters[k] += n }
func (cr *caseRun) viol(oracle, sig, f string, a ...any) {
	if cr.seen[sig] {
		return
	}
	cr.seen[sig] = true
	cr.viols = append(cr.viols, run.Violation{Property: propID, Oracle: oracle, Sig: sig, Msg: fmt.Sprintf(f, a...)})
}

func hashScenario(sc *Scenario) string {
	b, _ := json.Marshal(struct {
		K string
		C Cfg
		O []Obj
		P []Obj
		R [][]int
		F Foreign
	}{sc.Kind, sc.Cfg, sc.Objects, sc.Pods, sc.Orders, sc.Foreign})
	h := sha256.Sum256(b)
	return hex.EncodeToString(h[:8])
}

func (c *check) RunCase(seed int64, index int, tier string, env *run.Env) run.CaseResult {
	sc := Generate(seed, index, tier)
	sc.Tier = tier
	return RunScenario(sc, env)
}

// Replay re-runs the scenario stored in a replay file.
func (c *check) Replay(path string, env *run.Env) run.CaseResult {
	b, err := os.ReadFile(path)
	if err != nil {
		return run.CaseResult{Verdict: run.Inconclusive, Note: err.Error()}
	}
	var rp Replay
	if err := json.Unmarshal(b, &rp); err != nil || rp.Scenario == nil {
		return run.CaseResult{Verdict: run.Inconclusive, Note: "bad replay file"}
	}
	_ = os.MkdirAll(env.WorkDir, 0o755)
	return RunScenario(rp.Scenario, env)
}

// RunScenario runs one scenario (also usable for replay).
func RunScenario(sc *Scenario, env *run.Env) run.CaseResult {
	res := run.CaseResult{Verdict: run.Held, Hash: hashScenario(sc)}
	cr := &caseRun{sc: sc, counters: map[string]int{}, seen: map[string]bool{}}
	cr.inc("kind:"+sc.Kind, 1)
	cr.inc("sibling_pods", len(sc.Pods))
	if b, err := json.Marshal(sc); err == nil && env != nil && env.WorkDir != "" {
		_ = os.WriteFile(fmt.Sprintf("%s/case-C18-%d.json", env.WorkDir, sc.Index), b, 0o644) // input on disk before running
	}

	var runs []OrderRun
	for oi, order := range sc.Orders {
		or, err := cr.playOrder(order)
		if err != nil {
			res.Verdict = run.Inconclusive
			res.Note = fmt.Sprintf("order %d: %v", oi, err)
			res.Counters = cr.counters
			return res
		}
		runs = append(runs, *or)
	}
	cr.inc("orders_played", len(runs))

	// (a) documented grouping, on the outcome of order 0
	cr.oracleGrouping(runs[0].Final)

	// (b) order / repeat independence
	for oi := 1; oi < len(runs); oi++ {
		cr.inc("order_pairs_compared", 1)
		fields, details := diffStates(runs[0].Final, runs[oi].Final)
		for _, f := range fields {
			cr.viol("order-independence", "order-dependence:"+f+":"+sc.Kind,
				"%s (%s): final state after order %v (first value) differs from order %v (second value) in %s: %s", sc.Kind, sc.Detail, runs[0].Order, runs[oi].Order, f, details[f])
		}
		if !sameErrs(runs[0].Errors, runs[oi].Errors) {
			cr.viol("order-independence", "order-dependence:reconcile-errors:"+sc.Kind,
				"%s (%s): reconcile errors depend on the order: %v for order %v vs %v for order %v", sc.Kind, sc.Detail, keys(runs[0].Errors), runs[0].Order, keys(runs[oi].Errors), runs[oi].Order)
		}
	}

	// (c) fixpoint
	for _, r := range runs {
		if !r.Converged {
			cr.viol("fixpoint", "no-convergence:"+sc.Kind, "%s (%s): PodGroups/pod assignments still change after %d full passes over all pods (order %v)",
				sc.Kind, sc.Detail, maxConvergePasses, r.Order)
			continue
		}
		cr.inc("fixpoint_passes_checked", 1)
		cr.inc("fixpoint_pass_writes", len(r.FixpointWrites))
		for ci, call := range r.FixpointWrites {
			cause := r.FixpointCauses[ci]
			cr.inc("fixpoint_write_cause:"+cause, 1)
			cr.viol("fixpoint", "fixpoint-write:"+call.Verb+"-"+strings.ToLower(call.Kind)+":"+sc.Kind+":"+cause,
				"%s (%s): with the store content already stable, one more reconcile of every pod issued %d mutating call(s) %v (order %v); first: %s; stored object: %s",
				sc.Kind, sc.Detail, len(r.FixpointWrites), callStrings(r.FixpointWrites), r.Order, call, cause)
		}
	}

	// (d) foreign fields
	flog := cr.playForeign()

	// (e) a transient API write failure followed by retries ends in the same state
	cr.playFaults(runs[0])

	// (f) the workload is deleted and re-created under the same name while pods of the first incarnation still exist
	cr.playRecreate(runs[0])

	// (g) same-named workloads of another namespace do not influence the result
	cr.playBystanders(runs[0])

	res.Counters = cr.counters
	res.NonTrivial = len(sc.Pods) >= 2 && len(runs) >= 2 && cr.okRecs >= 2
	res.Sample = map[string]any{"seed": sc.Seed, "index": sc.Index, "kind": sc.Kind, "detail": sc.Detail, "cfg": sc.Cfg, "pods": podNames(sc),
		"orders": sc.Orders, "foreign": sc.Foreign, "finalPodGroups": runs[0].Final.PodGroups, "podAssignment": runs[0].Final.Pods,
		"fixpointWrites": callStrings(runs[0].FixpointWrites), "errors": keys(runs[0].Errors), "foreignRunErrors": cr.foreignErrs}
	if len(cr.viols) > 0 {
		res.Verdict = run.Violated
		res.Violations = cr.viols
		if env != nil {
			// keep replay files small: the final state of an order is stored only when it differs from order 0
			k0 := runs[0].Final.key()
			for i := 1; i < len(runs); i++ {
				if runs[i].Final.key() == k0 {
					runs[i].Final = nil
					runs[i].SameAsOrder0 = true
				}
			}
			res.Replay = env.SaveReplay(propID, sc.Seed, sc.Index, Replay{Scenario: sc, Runs: runs, ForeignLog: flog, Violations: cr.viols})
		}
	}
	return res
}

func podNames(sc *Scenario) []string {
	var out []string
	for _, p := range sc.Pods {
		out = append(out, nameOf(p))
	}
	return out
}

func callStrings(cs []Call) []string {
	var out []string
	for _, c := range cs {
		out = append(out, c.String())
	}
	return out
}

func keys(m map[string]int) []string {
	var out []string
	for k := range m {
		out = append(out, k)
	}
	sort.Strings(out)
	return out
}

func sameErrs(a, b map[string]int) bool {
	// multiplicities legitimately differ with the order's multiplicities: compare the sets
	if len(a) != len(b) {
		return false
	}
	for k := range a {
		if _, ok := b[k]; !ok {
			return false
		}
	}
	return true
}

func (cr *caseRun) countCalls(cs []Call) {
	for _, c := range cs {
		cr.inc("write:"+c.Verb+"-"+strings.ToLower(c.Kind), 1)
	}
	cr.inc("writes_total", len(cs))
}

func (cr *caseRun) doReconcile(w *world, i int, errs map[string]int) []Call {
	calls, e := w.reconcile(i)
	cr.inc("reconciles", 1)
	cr.countCalls(calls)
	if e != "" {
		cr.inc("reconcile_errors", 1)
		cr.inc("reconcile_error:"+cr.sc.Kind, 1)
		if errs != nil {
			errs[nameOf(cr.sc.Pods[i])+": "+e]++
		}
		if strings.HasPrefix(e, "PANIC") {
			cr.viol("sut-panic", "reconcile-panic:"+cr.sc.Kind, "%s (%s): Reconcile of pod %s panicked: %s", cr.sc.Kind, cr.sc.Detail, nameOf(cr.sc.Pods[i]), e)
		}
	} else {
		cr.okRecs++
	}
	return calls
}

// playOrder plays one order on a fresh store, records the final state, then looks for the content fixpoint.
func (cr *caseRun) playOrder(order []int) (*OrderRun, error) {
	w, err := newWorld(cr.sc)
	if err != nil {
		return nil, err
	}
	or := &OrderRun{Order: order, Errors: map[string]int{}}
	for _, i := range order {
		or.WritesDuring += len(cr.doReconcile(w, i, or.Errors))
	}
	if or.Final, err = w.state(); err != nil {
		return nil, err
	}
	cr.inc("podgroups_final", len(or.Final.PodGroups))
	cr.inc("events_recorded", len(w.events.events))
	// convergence: full passes (index order) until a pass leaves the content unchanged; the writes of that pass are
	// the "one more reconcile of every pod after convergence"
	cur := or.Final.key()
	for pass := 1; pass <= maxConvergePasses; pass++ {
		var calls []Call
		for i := range cr.sc.Pods {
			calls = append(calls, cr.doReconcile(w, i, nil)...)
		}
		st, err := w.state()
		if err != nil {
			return nil, err
		}
		or.ConvergePasses = pass
		if k := st.key(); k == cur {
			or.Converged = true
			or.FixpointWrites = calls
			for _, c := range calls {
				or.FixpointCauses = append(or.FixpointCauses, writeCause(w, c))
			}
			break
		} else {
			cur = k
		}
	}
	cr.inc("converge_passes", or.ConvergePasses)
	return or, nil
}

// writeCause describes the stored object of a redundant write: which of the known "desired never equals stored"
// shapes it has (the desired PodGroup always carries SubGroups: []{} and non-nil label/annotation maps; an empty slice
// or map is dropped by omitempty serialisation, so the stored object decodes to nil).
func writeCause(w *world, c Call) string {
	if c.Kind != "PodGroup" || c.Verb != "update" {
		return "n/a"
	}
	var pg v2alpha2.PodGroup
	if err := w.raw.Get(w.ctx, types.NamespacedName{Namespace: ns, Name: c.Name}, &pg); err != nil {
		return "unreadable"
	}
	var cs []string
	if len(pg.Spec.SubGroups) == 0 {
		cs = append(cs, "empty-subgroups")
	}
	if pg.Labels == nil {
		cs = append(cs, "nil-labels")
	}
	if pg.Annotations == nil {
		cs = append(cs, "nil-annotations")
	}
	if len(cs) == 0 {
		return "other"
	}
	return strings.Join(cs, "+")
}

// ---------------------------------------------------------------------------------------- (a) grouping

func (cr *caseRun) oracleGrouping(st *State) {
	sc := cr.sc
	pgByName := map[string]*PG{}
	for i := range st.PodGroups {
		pgByName[st.PodGroups[i].Name] = &st.PodGroups[i]
	}
	type pa struct {
		pod, pg string
		e       PodExpect
	}
	var ps []pa
	for i, p := range sc.Pods {
		a := st.Pods[nameOf(p)]
		if a[0] == "" {
			cr.inc("pods_without_group", 1)
			continue
		}
		if pgByName[a[0]] == nil {
			cr.viol("grouping", "grouping:dangling-pod-group-name:"+sc.Kind, "%s: pod %s is annotated with pod-group-name %q but no such PodGroup exists", sc.Kind, nameOf(p), a[0])
			continue
		}
		ps = append(ps, pa{nameOf(p), a[0], sc.Expect[i]})
	}
	for i := 0; i < len(ps); i++ {
		for j := i + 1; j < len(ps); j++ {
			x, y := ps[i], ps[j]
			if x.e.Mode == "none" || y.e.Mode == "none" {
				continue
			}
			same := x.pg == y.pg
			switch {
			case x.e.Mode == "per-pod" || y.e.Mode == "per-pod":
				cr.inc("grouping_pairs_asserted_distinct", 1)
				if same {
					cr.viol("grouping", "grouping:per-pod-kind-shares-group:"+sc.Kind, "%s (%s): pods %s and %s share PodGroup %s but the kind is documented as one group per pod [%s]",
						sc.Kind, sc.Detail, x.pod, y.pod, x.pg, x.e.Source)
				}
			case x.e.Key == y.e.Key:
				cr.inc("grouping_pairs_asserted_same", 1)
				if !same {
					cr.viol("grouping", "grouping:siblings-split:"+sc.Kind, "%s (%s): sibling pods %s and %s of the same workload got different PodGroups %s and %s [%s]",
						sc.Kind, sc.Detail, x.pod, y.pod, x.pg, y.pg, x.e.Source)
				}
			default:
				cr.inc("grouping_pairs_asserted_distinct", 1)
				if same {
					cr.viol("grouping", "grouping:distinct-keys-share-group:"+sc.Kind, "%s (%s): pods %s (key %s) and %s (key %s) share PodGroup %s [%s]",
						sc.Kind, sc.Detail, x.pod, x.e.Key, y.pod, y.e.Key, x.pg, x.e.Source)
				}
			}
		}
	}
	// documented values
	for _, x := range ps {
		pg := pgByName[x.pg]
		ks := []string{""}
		if x.e.Key != "" {
			ks = append(ks, x.e.Key)
		}
		for _, k := range ks {
			ge, ok := sc.GroupExpect[k]
			if !ok {
				continue
			}
			if ge.MinMember != nil {
				cr.inc("documented_minmember_checked", 1)
				if pg.MinMember != *ge.MinMember {
					cr.viol("grouping", "documented-value:minMember:"+sc.Kind, "%s (%s): PodGroup %s of pod %s has minMember %d, documented %d [%s]",
						sc.Kind, sc.Detail, pg.Name, x.pod, pg.MinMember, *ge.MinMember, ge.Source)
				}
			}
			if ge.Priority != "" {
				cr.inc("documented_priority_checked", 1)
				if pg.Priority != ge.Priority {
					cr.viol("grouping", "documented-value:priorityClassName:"+sc.Kind, "%s (%s): PodGroup %s of pod %s has priorityClassName %q, documented default %q [%s]",
						sc.Kind, sc.Detail, pg.Name, x.pod, pg.Priority, ge.Priority, ge.Source)
				}
			}
			if ge.Name != "" {
				cr.inc("documented_name_checked", 1)
				if pg.Name != ge.Name {
					cr.viol("grouping", "documented-value:name:"+sc.Kind, "%s (%s): PodGroup of pod %s is named %q, documented %q [%s]",
						sc.Kind, sc.Detail, x.pod, pg.Name, ge.Name, ge.Source)
				}
			}
		}
	}
}

// ---------------------------------------------------------------------------------------- (d) foreign fields

func (cr *caseRun) playForeign() []string {
	sc := cr.sc
	var logs []string
	logf := func(f string, a ...any) { logs = append(logs, fmt.Sprintf(f, a...)) }
	w, err := newWorld(sc)
	if err != nil {
		return nil
	}
	order := sc.Orders[sc.Foreign.Order]
	// after the order, one more full pass so that every pod is reconciled after the injection
	seq := append(append([]int{}, order...), sc.Orders[0]...)
	var target types.NamespacedName
	injected := false
	want := map[string]string{}
	updatesAfter := 0
	ferrs := map[string]int{}
	defer func() {
		for e := range ferrs {
			cr.foreignErrs = append(cr.foreignErrs, e)
		}
		sort.Strings(cr.foreignErrs)
	}()
	for step, i := range seq {
		calls := cr.doReconcile(w, i, ferrs)
		if injected {
			for _, c := range calls {
				if c.Kind == "PodGroup" && c.Name == target.Name && c.Verb == "update" {
					updatesAfter++
				}
			}
		}
		if injected || step+1 < sc.Foreign.AfterStep {
			continue
		}
		var pgs v2alpha2.PodGroupList
		if err := w.raw.List(w.ctx, &pgs); err != nil || len(pgs.Items) == 0 {
			continue
		}
		sort.Slice(pgs.Items, func(a, b int) bool { return pgs.Items[a].Name < pgs.Items[b].Name })
		pg := pgs.Items[sc.Foreign.TargetPick%len(pgs.Items)].DeepCopy()
		target = types.NamespacedName{Namespace: pg.Namespace, Name: pg.Name}
		injected = true
		cr.inc("foreign_injections", 1)
		logf("after step %d (pod %s): foreign actor updates PodGroup %s fields %v", step+1, nameOf(sc.Pods[i]), pg.Name, sc.Foreign.Fields)
		statusWanted := false
		for _, f := range sc.Foreign.Fields {
			cr.inc("foreign_field:"+f, 1)
			switch f {
			case "queue":
				pg.Spec.Queue = "foreign-queue"
				want["queue"] = "foreign-queue"
			case "markUnschedulable":
				pg.Spec.MarkUnschedulable = ptr.To(true)
				want["markUnschedulable"] = "true"
			case "schedulingBackoff":
				pg.Spec.SchedulingBackoff = ptr.To(sc.Foreign.Backoff)
				want["schedulingBackoff"] = fmt.Sprint(sc.Foreign.Backoff)
			case "nodePoolSet":
				if pg.Labels == nil {
					pg.Labels = map[string]string{}
				}
				pg.Labels[nodePoolLabel] = "foreign-pool"
				want["nodePool"] = "foreign-pool"
			case "nodePoolRemove":
				delete(pg.Labels, nodePoolLabel)
				want["nodePool"] = "<absent>"
			case "status":
				statusWanted = true
			case "annotation":
				// what the scheduler's status updater writes on the PodGroup
				if pg.Annotations == nil {
					pg.Annotations = map[string]string{}
				}
				pg.Annotations["kai.scheduler/last-start-timestamp"] = "2026-01-01T00:00:00Z"
				want["annotation"] = "2026-01-01T00:00:00Z"
			}
		}
		if err := w.raw.Update(w.ctx, pg); err != nil {
			logf("foreign update failed: %v", err)
			injected = false
			continue
		}
		if statusWanted {
			pg.Status = v2alpha2.PodGroupStatus{Phase: "Running", Running: 1, Pending: 2,
				SchedulingConditions: []v2alpha2.SchedulingCondition{{Type: v2alpha2.UnschedulableOnNodePool, NodePool: "default", Reason: "foreign", Message: "set by the scheduler", TransitionID: "7"}},
				ResourcesStatus:      v2alpha2.PodGroupResourcesStatus{}}
			if err := w.raw.Status().Update(w.ctx, pg); err != nil {
				logf("foreign status update failed: %v", err)
			} else {
				var got v2alpha2.PodGroup
				_ = w.raw.Get(w.ctx, target, &got)
				sb, _ := json.Marshal(got.Status)
				want["status"] = string(sb)
			}
		}
		if sc.Foreign.BumpOwner && sc.BumpTarget != nil {
			u := &unstructured.Unstructured{}
			u.SetAPIVersion(sc.BumpTarget.APIVersion)
			u.SetKind(sc.BumpTarget.Kind)
			if err := w.raw.Get(w.ctx, types.NamespacedName{Namespace: sc.BumpTarget.Namespace, Name: sc.BumpTarget.Name}, u); err == nil {
				orig := u.DeepCopy()
				an := u.GetAnnotations()
				if an == nil {
					an = map[string]string{}
				}
				an["verif.example/bump"] = "1"
				u.SetAnnotations(an)
				if err := w.raw.Patch(w.ctx, u, client.MergeFrom(orig)); err == nil {
					cr.inc("foreign_with_workload_change", 1)
					logf("workload change: annotation verif.example/bump=1 on %s %s", sc.BumpTarget.Kind, sc.BumpTarget.Name)
				} else {
					logf("workload change failed: %v", err)
				}
			}
		}
	}
	if !injected {
		cr.inc("foreign_not_injected", 1)
		return logs
	}
	cr.inc("foreign_podgroup_updates_after_injection", updatesAfter)
	if updatesAfter > 0 {
		cr.inc("foreign_cases_with_update_path", 1)
	}
	var got v2alpha2.PodGroup
	if err := w.raw.Get(w.ctx, target, &got); err != nil {
		cr.viol("foreign-fields", "foreign-overwrite:podgroup-gone:"+sc.Kind, "%s: PodGroup %s disappeared after a foreign update: %v", sc.Kind, target.Name, err)
		return logs
	}
	have := map[string]string{"queue": got.Spec.Queue, "markUnschedulable": "nil", "schedulingBackoff": "nil", "nodePool": "<absent>"}
	if got.Spec.MarkUnschedulable != nil {
		have["markUnschedulable"] = fmt.Sprint(*got.Spec.MarkUnschedulable)
	}
	if got.Spec.SchedulingBackoff != nil {
		have["schedulingBackoff"] = fmt.Sprint(*got.Spec.SchedulingBackoff)
	}
	if v, ok := got.Labels[nodePoolLabel]; ok {
		have["nodePool"] = v
	}
	sb, _ := json.Marshal(got.Status)
	have["status"] = string(sb)
	have["annotation"] = got.Annotations["kai.scheduler/last-start-timestamp"]
	// write-free fixpoint after the foreign update: one more pass over all pods must not write the PodGroup again
	if len(ferrs) == 0 {
		extra := 0
		for _, i := range sc.Orders[0] {
			for _, c := range cr.doReconcile(w, i, ferrs) {
				if c.Kind == "PodGroup" && c.Name == target.Name && (c.Verb == "update" || c.Verb == "patch") {
					extra++
				}
			}
		}
		cr.inc("foreign_fixpoint_passes", 1)
		if extra > 0 {
			cr.viol("foreign-fields", "writes-after-foreign-update:"+strings.Join(sc.Foreign.Fields, "+")+":"+sc.Kind,
				"%s (%s): after a foreign actor changed %v on PodGroup %s and every pod was reconciled again, one more pass still wrote the PodGroup %d times (no write-free fixpoint). log: %v",
				sc.Kind, sc.Detail, sc.Foreign.Fields, target.Name, extra, logs)
		}
	}
	var fs []string
	for f := range want {
		fs = append(fs, f)
	}
	sort.Strings(fs)
	for _, f := range fs {
		cr.inc("foreign_fields_checked", 1)
		if have[f] != want[f] {
			cr.viol("foreign-fields", "foreign-overwrite:"+f+":"+sc.Kind,
				"%s (%s): foreign actor set %s=%s on PodGroup %s; after %d later reconciles (%d PodGroup updates by the grouper) it is %s. log: %v",
				sc.Kind, sc.Detail, f, want[f], target.Name, len(seq)-sc.Foreign.AfterStep, updatesAfter, have[f], logs)
		}
	}
	return logs
}

var _ = metav1.ObjectMeta{}
var _ = v1.Pod{}

// ------------------------------------------------------------------------------------------ (e) transient write faults

// faultPoints: which mutating calls of order 0 are rejected (one run each): all of them in the thorough tier, up to
// three PRNG-chosen ones otherwise.
func (cr *caseRun) faultPoints(n int) []int {
	var all []int
	for k := 1; k <= n; k++ {
		all = append(all, k)
	}
	if cr.sc.Tier == "thorough" || n <= 3 {
		return all
	}
	r := rand.New(rand.NewPCG(uint64(cr.sc.Seed), uint64(cr.sc.Index)*7919+181))
	r.Shuffle(len(all), func(i, j int) { all[i], all[j] = all[j], all[i] })
	out := all[:3]
	sort.Ints(out)
	return out
}

// playFaults replays order 0 on a fresh store with the k-th mutating call rejected once (server timeout, not applied).
// The controller retries a failed reconcile, so every pod is then reconciled until the content is stable. The final
// PodGroups and pod assignments must equal those of the fault-free run: they depend only on the workload, not on how
// often or with which interruptions its pods were reconciled.
func (cr *caseRun) playFaults(base OrderRun) {
	if base.Final == nil || !base.Converged || base.WritesDuring == 0 || len(base.Errors) > 0 {
		return
	}
	for _, k := range cr.faultPoints(base.WritesDuring) {
		w, err := newWorld(cr.sc)
		if err != nil {
			return
		}
		w.failAt = k
		for _, i := range base.Order {
			cr.doReconcile(w, i, nil)
		}
		if w.failed == nil {
			cr.inc("fault_runs_fault_not_reached", 1)
			continue
		}
		cr.inc("fault_runs", 1)
		cr.inc("fault_at:"+w.failed.Verb+"-"+strings.ToLower(w.failed.Kind), 1)
		var st *State
		cur := ""
		converged := false
		for pass := 1; pass <= maxConvergePasses+1; pass++ {
			for i := range cr.sc.Pods {
				cr.doReconcile(w, i, nil)
			}
			if st, err = w.state(); err != nil {
				return
			}
			if k := st.key(); k == cur {
				converged = true
				break
			} else {
				cur = k
			}
		}
		if !converged {
			cr.viol("fault-independence", "no-convergence-after-fault:"+cr.sc.Kind, "%s (%s): after %s was rejected once, the content still changes after %d passes", cr.sc.Kind, cr.sc.Detail, *w.failed, maxConvergePasses+1)
			continue
		}
		fields, details := diffStates(base.Final, st)
		for _, f := range fields {
			cr.viol("fault-independence", "fault-dependence:"+f+":"+w.failed.Verb+"-"+strings.ToLower(w.failed.Kind)+":"+cr.sc.Kind,
				"%s (%s): mutating call #%d of order %v (%s) was rejected once with a server timeout and every pod was reconciled again until nothing changed; the final state (second value) differs from the fault-free run (first value) in %s: %s",
				cr.sc.Kind, cr.sc.Detail, k, base.Order, *w.failed, f, details[f])
		}
	}
}

// ------------------------------------------------------------------------------------------ (g) bystanders

const bystanderNS = "ns2"

// playBystanders replays order 0 in a store that also holds, in another namespace, a twin of every namespaced object of
// the scenario (same names, labels and annotations, other UIDs; the twin pods are Running and are never reconciled),
// plus for every workload object a running launcher-role pod carrying the kubeflow job-name label of that name. The
// pod-grouper's result for the original namespace is a function of the workload's own owner chain and pod template: it
// has to be what it was without the twins.
func (cr *caseRun) playBystanders(base OrderRun) {
	sc := cr.sc
	if base.Final == nil || !base.Converged || len(base.Errors) > 0 {
		return
	}
	twin := func(o Obj) Obj {
		b, err := json.Marshal(o)
		if err != nil {
			return nil
		}
		var c Obj
		if json.Unmarshal(b, &c) != nil {
			return nil
		}
		md, ok := c["metadata"].(map[string]any)
		if !ok || md["namespace"] != ns {
			return nil
		}
		md["namespace"] = bystanderNS
		if u, ok := md["uid"].(string); ok {
			md["uid"] = u + "-twin"
		}
		delete(md, "resourceVersion")
		if refs, ok := md["ownerReferences"].([]any); ok {
			for _, r := range refs {
				if rm, ok := r.(map[string]any); ok {
					if u, ok := rm["uid"].(string); ok {
						rm["uid"] = u + "-twin"
					}
				}
			}
		}
		if c["kind"] == "Pod" {
			if ann, ok := md["annotations"].(map[string]any); ok {
				delete(ann, "pod-group-name")
			}
			c["status"] = map[string]any{"phase": "Running"}
		}
		return c
	}
	sc2 := *sc
	sc2.Objects = append([]Obj{}, sc.Objects...)
	n := 0
	for _, o := range append(append([]Obj{}, sc.Objects...), sc.Pods...) {
		if c := twin(o); c != nil {
			sc2.Objects = append(sc2.Objects, c)
			n++
		}
		if o["kind"] != "Pod" && o["kind"] != "PodGroup" && o["kind"] != "ConfigMap" {
			if md, ok := o["metadata"].(Obj); ok && md["namespace"] == ns {
				name := nameOf(o)
				pn := strings.ToLower(fmt.Sprint(o["kind"])) + "-" + name + "-launcher-twin"
				sc2.Objects = append(sc2.Objects, Obj{"apiVersion": "v1", "kind": "Pod",
					"metadata": Obj{"name": pn, "namespace": bystanderNS, "uid": "uid-" + pn,
						"labels": Obj{"training.kubeflow.org/job-name": name, "training.kubeflow.org/job-role": "launcher", "training.kubeflow.org/replica-type": "launcher",
							"app": name, "job-name": name}},
					"spec":   Obj{"schedulerName": schedulerName, "containers": []any{Obj{"name": "main", "image": "img"}}},
					"status": Obj{"phase": "Running"}})
				n++
			}
		}
	}
	if n == 0 {
		return
	}
	w, err := newWorld(&sc2)
	if err != nil {
		cr.inc("bystander_runs_world_error", 1)
		return
	}
	errs := map[string]int{}
	for _, i := range base.Order {
		cr.doReconcile(w, i, errs)
	}
	var st *State
	cur := ""
	converged := false
	for pass := 1; pass <= maxConvergePasses+1; pass++ {
		for i := range sc.Pods {
			cr.doReconcile(w, i, nil)
		}
		if st, err = w.state(); err != nil {
			return
		}
		if k := st.key(); k == cur {
			converged = true
			break
		} else {
			cur = k
		}
	}
	cr.inc("bystander_runs", 1)
	cr.inc("bystander_objects", n)
	// twins of PodGroups the scenario holds itself (legacy PodGroups) are bystanders too, not results
	own := st.PodGroups[:0:0]
	for _, pg := range st.PodGroups {
		if pg.Namespace != bystanderNS {
			own = append(own, pg)
		}
	}
	st.PodGroups = own
	if !converged {
		cr.viol("bystander-independence", "no-convergence-with-bystanders:"+sc.Kind, "%s (%s): with twins of the workload in namespace %s the content still changes after %d passes", sc.Kind, sc.Detail, bystanderNS, maxConvergePasses+1)
		return
	}
	if !sameErrs(base.Errors, errs) {
		cr.viol("bystander-independence", "bystander-dependence:reconcile-errors:"+sc.Kind, "%s (%s): reconcile errors %v with twins of the workload in namespace %s, %v without", sc.Kind, sc.Detail, keys(errs), bystanderNS, keys(base.Errors))
	}
	fields, details := diffStates(base.Final, st)
	for _, f := range fields {
		cr.viol("bystander-independence", "bystander-dependence:"+f+":"+sc.Kind,
			"%s (%s): order %v was replayed in a store that also holds same-named twins of the workload and a running launcher-role pod in namespace %s; the final state (second value) differs from the run without them (first value) in %s: %s",
			sc.Kind, sc.Detail, base.Order, bystanderNS, f, details[f])
	}
}

// ------------------------------------------------------------------------------------------ (f) re-created workload

// playRecreate: after order 0, every object of the owner chain is deleted and created again under the same name with
// a new UID (kubectl delete + apply), together with a new generation of pods; the pods of the first incarnation still
// exist (terminating with a grace period, or orphaned) and are reconciled again, before or after the new ones. Pods
// of different incarnations have different top-level owners: no PodGroup may hold pods of both, and a pod of the first
// incarnation keeps the assignment it had.
func (cr *caseRun) playRecreate(base OrderRun) {
	sc := cr.sc
	if base.Final == nil || len(base.Errors) > 0 || len(sc.Objects) == 0 {
		return
	}
	// only chains in which every pod has an owner that is part of the scenario
	uids := map[string]bool{}
	for _, o := range sc.Objects {
		uids[uidOf(o)] = true
	}
	for _, p := range sc.Pods {
		refs, _ := p["metadata"].(Obj)["ownerReferences"].([]any)
		if len(refs) == 0 {
			return
		}
		for _, r := range refs {
			if u, _ := r.(Obj)["uid"].(string); !uids[u] {
				return
			}
		}
	}
	w, err := newWorld(sc)
	if err != nil {
		return
	}
	for _, i := range base.Order {
		cr.doReconcile(w, i, nil)
	}
	before, err := w.state()
	if err != nil {
		return
	}
	// new incarnation: same names, new UIDs
	newUID := map[string]string{}
	for _, o := range sc.Objects {
		if o["kind"] == "ConfigMap" || o["kind"] == "PriorityClass" {
			continue
		}
		newUID[uidOf(o)] = uidOf(o) + "-v2"
	}
	remap := func(o Obj) Obj {
		b, _ := json.Marshal(o)
		s := string(b)
		for old, nu := range newUID {
			s = strings.ReplaceAll(s, `"`+old+`"`, `"`+nu+`"`)
		}
		var out Obj
		_ = json.Unmarshal([]byte(s), &out)
		return out
	}
	for _, o := range sc.Objects {
		if _, ok := newUID[uidOf(o)]; !ok {
			continue
		}
		u, err := toUnstructured(o)
		if err != nil {
			return
		}
		if err := w.raw.Delete(w.ctx, u); err != nil {
			return
		}
		nu, err := toUnstructured(remap(o))
		if err != nil {
			return
		}
		nu.SetResourceVersion("")
		if err := w.raw.Create(w.ctx, nu); err != nil {
			cr.inc("recreate_harness_errors", 1)
			return
		}
	}
	var newPods []string
	for _, p := range sc.Pods {
		np := remap(p)
		md := np["metadata"].(Obj)
		md["name"] = md["name"].(string) + "-v2"
		md["uid"] = md["uid"].(string) + "-v2"
		delete(md, "resourceVersion")
		if ann, ok := md["annotations"].(Obj); ok {
			delete(ann, "pod-group-name")
		}
		u, err := toUnstructured(np)
		if err != nil {
			return
		}
		if err := w.raw.Create(w.ctx, u); err != nil {
			cr.inc("recreate_harness_errors", 1)
			return
		}
		newPods = append(newPods, md["name"].(string))
	}
	// reconcile old and new pods, old first in half of the cases, twice
	var names []string
	for _, p := range sc.Pods {
		names = append(names, nameOf(p))
	}
	oldFirst := (sc.Index/2)%2 == 0
	seq := append(append([]string{}, newPods...), names...)
	if oldFirst {
		seq = append(append([]string{}, names...), newPods...)
	}
	for round := 0; round < 2; round++ {
		for _, n := range seq {
			_, e := w.reconcileName(n)
			cr.inc("recreate_reconciles", 1)
			if e != "" {
				cr.inc("recreate_reconcile_errors", 1)
			}
		}
	}
	cr.inc("recreate_runs", 1)
	// oracle
	assign := func(name string) string {
		var p v1.Pod
		if err := w.raw.Get(w.ctx, types.NamespacedName{Namespace: ns, Name: name}, &p); err != nil {
			return "?"
		}
		return p.Annotations["pod-group-name"]
	}
	newGroups := map[string]string{}
	for _, n := range newPods {
		if g := assign(n); g != "" {
			newGroups[g] = n
		}
	}
	order := "new-pods-first"
	if oldFirst {
		order = "old-pods-first"
	}
	for _, n := range names {
		g := assign(n)
		if was := before.Pods[n][0]; was != "" && g != was {
			cr.viol("recreated-owner", "old-pod-reassigned:"+sc.Kind+":"+order, "%s (%s): the workload was deleted and re-created under the same name (new UIDs); pod %s of the first incarnation was in PodGroup %q and is now assigned to %q",
				sc.Kind, sc.Detail, n, was, g)
		}
		if other, shared := newGroups[g]; shared && g != "" {
			cr.viol("recreated-owner", "incarnations-share-podgroup:"+sc.Kind+":"+order, "%s (%s): the workload was deleted and re-created under the same name (new UIDs); pod %s of the first incarnation and pod %s of the new one are both assigned to PodGroup %q although their top-level owners differ",
				sc.Kind, sc.Detail, n, other, g)
		}
	}
}
