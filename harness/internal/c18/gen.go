// Package c18 is the runtime monitor for property C18 (pod-grouper determinism and idempotence).
//
// It drives the REAL pkg/podgrouper PodReconciler.Reconcile (real podgrouper, DefaultPluginsHub, podgroup.Handler)
// on a controller-runtime fake client with counting interceptors, for generated owner chains and sibling pods, in
// several reconcile orders/multiplicities on fresh stores, and checks: (a) documented grouping keys, (b) order/repeat
// independence of the final PodGroups, (c) write-free fixpoint, (d) survival of foreign-owned fields.
package c18

import (
	"fmt"
	"math/rand/v2"
	"sort"
	"strconv"

	"verif/harness/internal/gen"
)

// Obj is a JSON object (an API object in its wire form). Scenarios hold API objects in this form so a scenario
// is JSON-able as a whole (replay files) and is loaded through unstructured.UnmarshalJSON (int64 numbers).
type Obj = map[string]any

// Cfg is the pod-grouper configuration of a scenario (the flags of cmd/podgrouper).
type Cfg struct {
	SearchLegacy bool `json:"searchLegacy"`
	KnativeGang  bool `json:"knativeGang"`
	DefaultsCM   bool `json:"defaultsConfigMap"`
}

// PodExpect is what documentation says about the group of one pod.
type PodExpect struct {
	Mode   string `json:"mode"`          // "shared" (all pods with equal Key share one group, different keys differ), "per-pod", "none"
	Key    string `json:"key,omitempty"` // grouping key for "shared"
	Source string `json:"source"`        // where the expectation is documented
}

// GroupExpect are documented values of the PodGroup of a grouping key ("" = of every group of the scenario).
type GroupExpect struct {
	Name      string `json:"name,omitempty"`
	MinMember *int32 `json:"minMember,omitempty"`
	Priority  string `json:"priority,omitempty"`
	Source    string `json:"source"`
}

// ObjRef names an API object.
type ObjRef struct {
	APIVersion string `json:"apiVersion"`
	Kind       string `json:"kind"`
	Namespace  string `json:"namespace"`
	Name       string `json:"name"`
}

// Foreign is the plan of the foreign-actor run.
type Foreign struct {
	Order      int      `json:"order"`     // which order's sequence is used
	AfterStep  int      `json:"afterStep"` // inject after this many reconciles (then as soon as a PodGroup exists)
	TargetPick int      `json:"targetPick"`
	Fields     []string `json:"fields"` // queue, markUnschedulable, schedulingBackoff, nodePoolSet, nodePoolRemove, status
	Backoff    int32    `json:"backoff"`
	BumpOwner  bool     `json:"bumpOwner"` // also change the workload (annotation on the object whose annotations are inherited) so the next reconcile must Update
}

// Scenario is one generated case.
type Scenario struct {
	Seed        int64                  `json:"seed"`
	Index       int                    `json:"index"`
	Kind        string                 `json:"kind"`
	Detail      string                 `json:"detail"`
	Cfg         Cfg                    `json:"cfg"`
	Objects     []Obj                  `json:"objects"` // everything except the sibling pods
	Pods        []Obj                  `json:"pods"`    // the sibling pods that get reconciled
	Expect      []PodExpect            `json:"expect"`
	GroupExpect map[string]GroupExpect `json:"groupExpect,omitempty"`
	BumpTarget  *ObjRef                `json:"bumpTarget,omitempty"`
	Orders      [][]int                `json:"orders"`
	Foreign     Foreign                `json:"foreign"`
	Tier        string                 `json:"tier,omitempty"`
}

const (
	ns             = "ns1"
	schedulerName  = "kai-scheduler"
	queueLabel     = "kai.scheduler/queue"
	nodePoolLabel  = "kai.scheduler/node-pool"
	defaultsCMName = "kai-default-priorities"
	defaultsCMNs   = "kai-system"
)

var kindWeights = []struct {
	k string
	w int
}{
	{"Pod", 5}, {"SparkPods", 2}, {"Job", 8}, {"CronJob", 5}, {"Deployment", 6}, {"StatefulSet", 4}, {"ReplicaSet", 4},
	{"PyTorchJob", 8}, {"TFJob", 5}, {"MPIJob", 6}, {"XGBoostJob", 4}, {"JAXJob", 4},
	{"RayCluster", 6}, {"RayJob", 5}, {"JobSet", 8}, {"LeaderWorkerSet", 8},
	{"ArgoWorkflow", 7}, {"Knative", 6}, {"UnknownCRD", 5},
}

type builder struct {
	r   *rand.Rand
	sc  *Scenario
	uid int
	// label plan
	ownerLabels map[string]string
	ownerAnn    map[string]string
	midLabels   map[string]string // labels for an intermediate owner
	podLabels   map[string]string
	podAnn      map[string]string
	podPrio     string
	prioPlan    string
}

func (b *builder) p(x float64) bool { return b.r.Float64() < x }
func (b *builder) n(lo, hi int) int { return lo + b.r.IntN(hi-lo+1) }
func (b *builder) pick(xs ...string) string {
	return xs[b.r.IntN(len(xs))]
}
func (b *builder) newUID(prefix string) string {
	b.uid++
	return fmt.Sprintf("%s-%04d-%08x", prefix, b.uid, b.r.Uint32())
}

func cp(m map[string]string, extra ...map[string]string) map[string]any {
	out := map[string]any{}
	for k, v := range m {
		out[k] = v
	}
	for _, e := range extra {
		for k, v := range e {
			out[k] = v
		}
	}
	return out
}

// object builds an API object; owner may be nil.
func (b *builder) object(apiVersion, kind, name string, labels, ann map[string]any, owner Obj) Obj {
	md := Obj{"name": name, "namespace": ns, "uid": b.newUID(name)}
	if len(labels) > 0 {
		md["labels"] = labels
	}
	if len(ann) > 0 {
		md["annotations"] = ann
	}
	if owner != nil {
		md["ownerReferences"] = []any{ownerRef(owner)}
	}
	return Obj{"apiVersion": apiVersion, "kind": kind, "metadata": md}
}

func ownerRef(o Obj) Obj {
	md := o["metadata"].(Obj)
	return Obj{"apiVersion": o["apiVersion"], "kind": o["kind"], "name": md["name"], "uid": md["uid"], "controller": true, "blockOwnerDeletion": true}
}

func nameOf(o Obj) string { return o["metadata"].(Obj)["name"].(string) }
func uidOf(o Obj) string  { return o["metadata"].(Obj)["uid"].(string) }
func refOf(o Obj) *ObjRef {
	return &ObjRef{APIVersion: o["apiVersion"].(string), Kind: o["kind"].(string), Namespace: ns, Name: nameOf(o)}
}

// pod builds a sibling pod from the pod template labels/annotations of the plan plus per-pod extras.
func (b *builder) pod(name string, owner Obj, extraLabels, extraAnn map[string]string, nodeName string) Obj {
	o := b.object("v1", "Pod", name, cp(b.podLabels, extraLabels), cp(b.podAnn, extraAnn), owner)
	spec := Obj{"schedulerName": schedulerName, "containers": []any{Obj{"name": "main", "image": "img"}}}
	if b.podPrio != "" {
		spec["priorityClassName"] = b.podPrio
	}
	if nodeName != "" {
		spec["nodeName"] = nodeName
	}
	o["spec"] = spec
	o["status"] = Obj{"phase": "Pending"}
	return o
}

func (b *builder) addPod(p Obj, e PodExpect) {
	b.sc.Pods = append(b.sc.Pods, p)
	b.sc.Expect = append(b.sc.Expect, e)
}
func (b *builder) add(o ...Obj) { b.sc.Objects = append(b.sc.Objects, o...) }

// planLabels draws the queue/priority/preemptibility/user/node-pool/topology labels for owner vs pod template.
func (b *builder) planLabels() {
	b.ownerLabels, b.ownerAnn, b.midLabels = map[string]string{}, map[string]string{}, map[string]string{}
	b.podLabels, b.podAnn = map[string]string{}, map[string]string{}
	switch b.r.IntN(7) {
	case 0: // nothing -> default-queue
	case 1:
		b.ownerLabels[queueLabel] = "q-owner"
	case 2:
		b.podLabels[queueLabel] = "q-pod"
	case 3:
		b.ownerLabels[queueLabel] = "q-owner"
		b.podLabels[queueLabel] = "q-pod"
	case 4:
		b.ownerLabels["project"] = "proj-owner"
	case 5:
		b.podLabels["project"] = "proj-pod"
	case 6:
		b.ownerLabels["project"] = "proj-owner"
		b.podLabels[queueLabel] = "q-pod"
	}
	if b.p(0.3) {
		b.podLabels[nodePoolLabel] = b.pick("pool-a", "pool-b")
	}
	b.prioPlan = b.pick("none", "none", "owner", "pod", "both", "owner-missing", "mid", "spec", "ownerlabel-default")
	switch b.prioPlan {
	case "owner":
		b.ownerLabels["priorityClassName"] = "prio-hi"
	case "pod":
		b.podLabels["priorityClassName"] = "prio-lo"
	case "both":
		b.ownerLabels["priorityClassName"] = "prio-hi"
		b.podLabels["priorityClassName"] = "prio-lo"
	case "owner-missing":
		b.ownerLabels["priorityClassName"] = "no-such-class"
		if b.p(0.5) {
			b.podLabels["priorityClassName"] = "prio-lo"
		}
	case "mid":
		b.midLabels["priorityClassName"] = "prio-lo"
	case "spec":
		b.podPrio = b.pick("prio-hi", "prio-lo", "build")
	case "ownerlabel-default":
		b.ownerLabels["priorityClassName"] = b.pick("train", "inference", "build")
	}
	switch b.r.IntN(8) {
	case 0:
		b.ownerLabels["kai.scheduler/preemptibility"] = "preemptible"
	case 1:
		b.podLabels["kai.scheduler/preemptibility"] = "non-preemptible"
	case 2:
		b.ownerLabels["kai.scheduler/preemptibility"] = "non-preemptible"
		b.podLabels["kai.scheduler/preemptibility"] = "preemptible"
	case 3:
		b.ownerLabels["kai.scheduler/preemptibility"] = "sometimes" // invalid
		b.podLabels["kai.scheduler/preemptibility"] = "preemptible"
	case 4:
		b.midLabels["kai.scheduler/preemptibility"] = "preemptible"
	}
	if b.p(0.3) {
		b.podLabels["user"] = "alice"
	}
	if b.p(0.15) {
		b.podAnn["user"] = "alice-ann"
	}
	if b.p(0.15) {
		b.ownerLabels["user"] = "bob"
	}
	if b.p(0.3) {
		b.ownerAnn["kai.scheduler/topology"] = "topo-1"
		if b.p(0.7) {
			b.ownerAnn["kai.scheduler/topology-required-placement"] = b.pick("rack", "zone")
		}
		if b.p(0.5) {
			b.ownerAnn["kai.scheduler/topology-preferred-placement"] = b.pick("rack", "host")
		}
	}
	if b.p(0.3) {
		b.ownerAnn["example.com/note"] = "x" + strconv.Itoa(b.r.IntN(100))
	}
	if b.p(0.3) {
		b.ownerLabels["app"] = "a" + strconv.Itoa(b.r.IntN(100))
	}
}

// priorityOverridden reports whether the plan sets an explicit, existing priority class (doc: labels on top owner
// or pod override the default).
func (b *builder) docPriority(def string) string {
	if b.sc.Cfg.DefaultsCM {
		return "" // defaults come from the ConfigMap: the documented built-in default does not apply
	}
	switch b.prioPlan {
	case "none":
		return def
	}
	return "" // an override (or an attempt) is present: not asserted
}

func i32(v int) *int32 { x := int32(v); return &x }

// Generate draws scenario (seed, index).
func Generate(seed int64, index int, tier string) *Scenario {
	r := gen.NewRand(seed, index, 18)
	sc := &Scenario{Seed: seed, Index: index, GroupExpect: map[string]GroupExpect{}}
	b := &builder{r: r, sc: sc}
	sc.Cfg = Cfg{SearchLegacy: b.p(0.6), KnativeGang: b.p(0.7), DefaultsCM: b.p(0.2)}

	total := 0
	for _, kw := range kindWeights {
		total += kw.w
	}
	// the first len(kindWeights) indices cover every kind once, the rest are weighted
	if index < len(kindWeights) {
		sc.Kind = kindWeights[index].k
	} else {
		x := r.IntN(total)
		for _, kw := range kindWeights {
			if x < kw.w {
				sc.Kind = kw.k
				break
			}
			x -= kw.w
		}
	}
	b.planLabels()

	// cluster-scoped / shared objects
	for _, pc := range []struct {
		n string
		v int
	}{{"prio-hi", 200}, {"prio-lo", 40}, {"train", 50}, {"inference", 125}, {"build", 100}} {
		b.add(Obj{"apiVersion": "scheduling.k8s.io/v1", "kind": "PriorityClass", "metadata": Obj{"name": pc.n, "uid": b.newUID(pc.n)}, "value": pc.v})
	}
	if sc.Cfg.DefaultsCM {
		b.add(Obj{"apiVersion": "v1", "kind": "ConfigMap", "metadata": Obj{"name": defaultsCMName, "namespace": defaultsCMNs, "uid": b.newUID("cm")},
			"data": Obj{"types": `[{"typeName":"Job","group":"batch","priorityName":"prio-lo","preemptibility":"preemptible"},` +
				`{"typeName":"Deployment","group":"apps","priorityName":"prio-hi","preemptibility":"non-preemptible"},` +
				`{"typeName":"PyTorchJob","group":"kubeflow.org","priorityName":"build","preemptibility":""},` +
				`{"typeName":"StatefulSet","priorityName":"no-such-class","preemptibility":"Preemptible"},` +
				`{"typeName":"Pod","priorityName":"prio-lo","preemptibility":"non-preemptible"}]`}})
	}

	nSib := b.n(1, 6)
	if b.p(0.85) && nSib < 2 {
		nSib = b.n(2, 6)
	}
	switch sc.Kind {
	case "Pod":
		b.genBarePods(nSib, nil)
	case "SparkPods":
		b.genSpark(nSib)
	case "Job":
		b.genJob(nSib, nil)
	case "CronJob":
		b.genCronJob(nSib)
	case "Deployment":
		b.genDeployment(nSib)
	case "StatefulSet":
		b.genSimple("apps/v1", "StatefulSet", nSib, nil)
	case "ReplicaSet":
		b.genSimple("apps/v1", "ReplicaSet", nSib, nil)
	case "UnknownCRD":
		b.genSimple("example.com/v1", "Widget", nSib, nil)
	case "PyTorchJob":
		b.genPyTorch(nSib, nil)
	case "TFJob":
		b.genKubeflow("TFJob", "tfReplicaSpecs", nSib)
	case "XGBoostJob":
		b.genKubeflow("XGBoostJob", "xgbReplicaSpecs", nSib)
	case "JAXJob":
		b.genKubeflow("JAXJob", "jaxReplicaSpecs", nSib)
	case "MPIJob":
		b.genMPI(nSib)
	case "RayCluster":
		b.genRay(nSib, false)
	case "RayJob":
		b.genRay(nSib, true)
	case "JobSet":
		b.genJobSet(nSib)
	case "LeaderWorkerSet":
		b.genLWS(nSib)
	case "ArgoWorkflow":
		b.genArgo(nSib)
	case "Knative":
		b.genKnative(nSib)
	}

	// reconcile orders: order 0 = each pod once in index order; the others are random orders with multiplicities 1..3
	n := len(sc.Pods)
	nOrders := b.n(4, 5)
	base := make([]int, n)
	for i := range base {
		base[i] = i
	}
	sc.Orders = append(sc.Orders, base)
	for o := 1; o < nOrders; o++ {
		var seq []int
		for i := 0; i < n; i++ {
			m := 1
			if b.p(0.5) {
				m = b.n(2, 3)
			}
			for j := 0; j < m; j++ {
				seq = append(seq, i)
			}
		}
		r.Shuffle(len(seq), func(i, j int) { seq[i], seq[j] = seq[j], seq[i] })
		sc.Orders = append(sc.Orders, seq)
	}
	// foreign plan
	fo := b.r.IntN(nOrders)
	all := []string{"queue", "markUnschedulable", "schedulingBackoff", "nodePoolSet", "nodePoolRemove", "status", "annotation", "annotation"}
	var fields []string
	for _, f := range all {
		if b.p(0.45) {
			fields = append(fields, f)
		}
	}
	if len(fields) == 0 {
		fields = []string{all[b.r.IntN(len(all))]}
	}
	// nodePoolSet and nodePoolRemove exclude each other
	hasSet := false
	var ff []string
	for _, f := range fields {
		if f == "nodePoolSet" {
			hasSet = true
		}
		if f == "nodePoolRemove" && hasSet {
			continue
		}
		ff = append(ff, f)
	}
	sort.Strings(ff)
	sc.Foreign = Foreign{Order: fo, AfterStep: b.n(1, len(sc.Orders[fo])), TargetPick: b.r.IntN(1 << 16), Fields: ff,
		Backoff: []int32{1, -1, 3}[b.r.IntN(3)], BumpOwner: b.p(0.6)}
	return sc
}

// ---------------------------------------------------------------------------------------------- kinds

const docTop = "docs/developer/pod-grouper.md 'Top Owner Identification': pods that belong to the same parent workload are grouped together"

// genBarePods: pods without owner (doc 'Pod Grouping': a train PodGroup with MinMember=1 per pod). When wrap != nil the
// pods are owned by wrap (Argo Workflow: skip-top-owner -> grouped by the pod itself).
func (b *builder) genBarePods(n int, wrap Obj) {
	b.sc.Detail = fmt.Sprintf("%d pods", n)
	for i := 0; i < n; i++ {
		lab := cpS(b.ownerLabels) // a bare pod is its own top owner: give it the owner labels too
		p := b.pod(fmt.Sprintf("solo-%d", i), wrap, lab, b.ownerAnn, "")
		src := "docs/developer/pod-grouper.md 'Pod Grouping': for pods with no owner a train PodGroup with MinMember=1 is created"
		if wrap != nil {
			src = "docs/developer/pod-grouper.md 'Skipping Top Owner': the second-highest owner (here the pod itself) is used for grouping"
		}
		b.addPod(p, PodExpect{Mode: "per-pod", Source: src})
	}
	// priority: the pod's own labels are both "owner" and "pod" labels here; only assert the plain default
	ge := GroupExpect{MinMember: i32(1), Source: "docs/developer/pod-grouper.md 'Pod Grouping'"}
	if wrap == nil && !b.sc.Cfg.DefaultsCM && b.prioPlan == "none" {
		ge.Priority = "train"
	}
	b.sc.GroupExpect[""] = ge
	if wrap == nil && len(b.sc.Pods) > 0 {
		b.sc.BumpTarget = nil // a bare pod with a pod-group annotation is skipped by the reconciler (orphan rule): no bump
	}
}

func cpS(m map[string]string) map[string]string {
	out := map[string]string{}
	for k, v := range m {
		out[k] = v
	}
	return out
}

// genSpark: a driver pod without owner and executor pods owned by the driver; all carry the spark labels.
func (b *builder) genSpark(n int) {
	b.sc.Detail = fmt.Sprintf("driver+%d executors", n-1)
	sel := "spark-" + strconv.Itoa(b.r.IntN(1000))
	sl := map[string]string{"spark-app-name": "app", "spark-app-selector": sel}
	for k, v := range b.ownerLabels {
		sl[k] = v
	}
	drv := b.pod("spark-driver", nil, sl, b.ownerAnn, "")
	b.addPod(drv, PodExpect{Mode: "shared", Key: "spark", Source: docTop + " (top owner = driver pod)"})
	for i := 1; i < n; i++ {
		// same label set as the driver: driver and executors are treated as one template (see Assumptions)
		ex := b.pod(fmt.Sprintf("spark-exec-%d", i), drv, sl, nil, "")
		b.addPod(ex, PodExpect{Mode: "shared", Key: "spark", Source: docTop + " (top owner = driver pod)"})
	}
}

// jobDocumentedAsOneGroup: docs/developer/pod-grouper.md says about Jobs "Creates a PodGroup matching the Job's identity"
// (singular; Deployment is the only kind documented as one group per pod) and 'Top Owner Identification' says pods of the
// same parent workload are grouped together. job_grouper.go names the group pg-<POD name>-<job uid>, i.e. one per pod, and
// job_grouper_test.go asserts the names of two pods of one Job differ - so the code is deliberate and the documentation /
// property statement disagree with it. With true the check reports this (Sig grouping:siblings-split:Job); set to false to
// treat Job as a per-pod kind.
const jobDocumentedAsOneGroup = true

func (b *builder) genJob(n int, wrap Obj) Obj {
	par := n
	if b.p(0.3) {
		par = 1
	}
	spec := Obj{"parallelism": par}
	if b.p(0.5) {
		spec["completions"] = par + b.r.IntN(3)
	}
	job := b.object("batch/v1", "Job", "job-a", cp(b.ownerLabels), cp(b.ownerAnn), wrap)
	job["spec"] = spec
	b.add(job)
	legacy := false
	if wrap == nil && par <= 1 && b.p(0.25) {
		// a PodGroup with the legacy name (pg-<job name>-<job uid>) left by an older version; used when search-legacy-pg is on
		legacy = true
		b.add(Obj{"apiVersion": "scheduling.run.ai/v2alpha2", "kind": "PodGroup",
			"metadata": Obj{"name": fmt.Sprintf("pg-job-a-%s", uidOf(job)), "namespace": ns, "uid": b.newUID("legacy-pg"),
				"ownerReferences": []any{ownerRef(job)}, "labels": Obj{"legacy": "true"}},
			"spec": Obj{"minMember": 1, "queue": "legacy-queue", "priorityClassName": "train"}})
	}
	b.sc.Detail = fmt.Sprintf("parallelism=%d pods=%d legacyPodGroup=%v", par, n, legacy)
	b.sc.BumpTarget = refOf(job)
	for i := 0; i < n; i++ {
		e := PodExpect{Mode: "shared", Key: "job-a", Source: "docs/developer/pod-grouper.md 'Job/BatchJob Grouping': creates a PodGroup matching the Job's identity; " + docTop}
		if !jobDocumentedAsOneGroup {
			e = PodExpect{Mode: "none", Key: "job-a", Source: "job_grouper.go: pg-<pod name>-<job uid> (undocumented)"}
		}
		b.addPod(b.pod(fmt.Sprintf("job-a-%s", suffix(b.r)), job, map[string]string{"job-name": "job-a"}, nil, ""), e)
	}
	ge := GroupExpect{MinMember: i32(1), Source: "docs/developer/pod-grouper.md 'Job/BatchJob Grouping': MinMember 1, priority class train"}
	if wrap == nil {
		ge.Priority = b.docPriority("train")
	}
	b.sc.GroupExpect["job-a"] = ge
	return job
}

func suffix(r *rand.Rand) string {
	const letters = "bcdfghjklmnpqrstvwxz2456789"
	s := make([]byte, 5)
	for i := range s {
		s[i] = letters[r.IntN(len(letters))]
	}
	return string(s)
}

func (b *builder) genCronJob(n int) {
	cj := b.object("batch/v1", "CronJob", "cron-a", cp(b.ownerLabels), cp(b.ownerAnn), nil)
	cj["spec"] = Obj{"schedule": "*/5 * * * *"}
	// the Job created by a CronJob carries the job template's labels; the plan's "mid" labels go there
	jl := cp(b.midLabels)
	if b.p(0.5) {
		for k, v := range b.ownerLabels {
			jl[k] = v
		}
	}
	job := b.object("batch/v1", "Job", "cron-a-28000001", jl, cp(b.ownerAnn), cj)
	job["spec"] = Obj{"parallelism": n}
	b.add(cj, job)
	b.sc.BumpTarget = refOf(job)
	b.sc.Detail = fmt.Sprintf("cronjob->job pods=%d", n)
	for i := 0; i < n; i++ {
		b.addPod(b.pod(fmt.Sprintf("cron-a-28000001-%s", suffix(b.r)), job, nil, nil, ""),
			PodExpect{Mode: "shared", Key: "cron-job", Source: docTop})
	}
}

func (b *builder) genDeployment(n int) {
	dep := b.object("apps/v1", "Deployment", "dep-a", cp(b.ownerLabels), cp(b.ownerAnn), nil)
	dep["spec"] = Obj{"replicas": n}
	rs := b.object("apps/v1", "ReplicaSet", "dep-a-7c9d", cp(b.midLabels), nil, dep)
	rs["spec"] = Obj{"replicas": n}
	b.add(dep, rs)
	b.sc.BumpTarget = refOf(dep)
	b.sc.Detail = fmt.Sprintf("deployment->replicaset pods=%d", n)
	for i := 0; i < n; i++ {
		b.addPod(b.pod(fmt.Sprintf("dep-a-7c9d-%s", suffix(b.r)), rs, nil, nil, ""),
			PodExpect{Mode: "per-pod", Source: "docs/developer/pod-grouper.md 'Deployment Grouping': a Pod Group is created per pod of the deployment"})
	}
	b.sc.GroupExpect[""] = GroupExpect{Priority: b.docPriority("inference"), Source: "docs/developer/pod-grouper.md 'Deployment Grouping': default priority class Inference"}
}

// genSimple: owner -> pods, default grouper (StatefulSet, ReplicaSet, unknown CRD).
func (b *builder) genSimple(apiVersion, kind string, n int, wrap Obj) {
	o := b.object(apiVersion, kind, "wl-a", cp(b.ownerLabels), cp(b.ownerAnn), wrap)
	o["spec"] = Obj{"replicas": n}
	b.add(o)
	b.sc.BumpTarget = refOf(o)
	b.sc.Detail = fmt.Sprintf("%s pods=%d", kind, n)
	for i := 0; i < n; i++ {
		b.addPod(b.pod(fmt.Sprintf("wl-a-%d", i), o, nil, nil, ""), PodExpect{Mode: "shared", Key: "wl-a", Source: docTop})
	}
}

func (b *builder) kubeflowRunPolicy(spec Obj, total int) (minAvail int, has bool) {
	if b.p(0.3) {
		m := b.n(1, total)
		spec["runPolicy"] = Obj{"schedulingPolicy": Obj{"minAvailable": m}}
		return m, true
	}
	return 0, false
}

// genPyTorch: Master (optional) + Worker replicas; optional elastic policy, scheduling policy, worker segments.
func (b *builder) genPyTorch(n int, wrap Obj) {
	workers := b.n(1, 6)
	master := 0
	if b.p(0.7) {
		master = 1
	}
	specs := Obj{}
	if master == 1 {
		specs["Master"] = Obj{"replicas": 1, "template": Obj{"spec": Obj{}}}
	}
	wtmpl := Obj{"spec": Obj{}}
	seg := 0
	if b.p(0.3) && workers >= 2 {
		seg = b.n(1, workers)
		ann := Obj{"kai.scheduler/segment-size": strconv.Itoa(seg)}
		if b.p(0.6) {
			ann["kai.scheduler/topology"] = "topo-1"
			ann["kai.scheduler/segment-topology-required-placement"] = "rack"
		}
		wtmpl["metadata"] = Obj{"annotations": ann}
	}
	specs["Worker"] = Obj{"replicas": workers, "template": wtmpl}
	spec := Obj{"pytorchReplicaSpecs": specs}
	if b.p(0.2) {
		spec["elasticPolicy"] = Obj{"minReplicas": b.n(1, workers), "maxReplicas": workers}
	}
	b.kubeflowRunPolicy(spec, master+workers)
	o := b.object("kubeflow.org/v1", "PyTorchJob", "pt-a", cp(b.ownerLabels), cp(b.ownerAnn), wrap)
	o["spec"] = spec
	b.add(o)
	b.sc.BumpTarget = refOf(o)
	b.sc.Detail = fmt.Sprintf("master=%d workers=%d segment=%d", master, workers, seg)
	// which pods exist: master first then workers, n of them (at least the master or one worker)
	type pp struct {
		typ string
		idx int
	}
	var all []pp
	if master == 1 {
		all = append(all, pp{"master", 0})
	}
	for i := 0; i < workers; i++ {
		all = append(all, pp{"worker", i})
	}
	b.r.Shuffle(len(all), func(i, j int) { all[i], all[j] = all[j], all[i] })
	if n > len(all) {
		n = len(all)
	}
	all = all[:n]
	sort.Slice(all, func(i, j int) bool { return all[i].typ+strconv.Itoa(all[i].idx) < all[j].typ+strconv.Itoa(all[j].idx) })
	for _, x := range all {
		b.addPod(b.pod(fmt.Sprintf("pt-a-%s-%d", x.typ, x.idx), o, map[string]string{
			"training.kubeflow.org/job-name": "pt-a", "training.kubeflow.org/replica-type": x.typ, "training.kubeflow.org/replica-index": strconv.Itoa(x.idx)},
			nil, ""), PodExpect{Mode: "shared", Key: "pt-a", Source: docTop})
	}
}

// genKubeflow: TFJob / XGBoostJob / JAXJob.
func (b *builder) genKubeflow(kind, specName string, n int) {
	specs := Obj{}
	type role struct {
		name string
		n    int
	}
	var roles []role
	switch kind {
	case "TFJob":
		if b.p(0.5) {
			roles = append(roles, role{"Chief", 1})
		}
		if b.p(0.5) {
			roles = append(roles, role{"PS", b.n(1, 2)})
		}
		roles = append(roles, role{"Worker", b.n(1, 4)})
	case "XGBoostJob":
		roles = []role{{"Master", 1}, {"Worker", b.n(1, 5)}}
	case "JAXJob":
		roles = []role{{"Worker", b.n(1, 6)}}
	}
	total := 0
	for _, ro := range roles {
		specs[ro.name] = Obj{"replicas": ro.n, "template": Obj{"spec": Obj{}}}
		total += ro.n
	}
	spec := Obj{specName: specs}
	b.kubeflowRunPolicy(spec, total)
	o := b.object("kubeflow.org/v1", kind, "kf-a", cp(b.ownerLabels), cp(b.ownerAnn), nil)
	o["spec"] = spec
	b.add(o)
	b.sc.BumpTarget = refOf(o)
	b.sc.Detail = fmt.Sprintf("%s replicas=%d", kind, total)
	cnt := 0
	for _, ro := range roles {
		for i := 0; i < ro.n && cnt < n; i++ {
			b.addPod(b.pod(fmt.Sprintf("kf-a-%s-%d", lower(ro.name), i), o, map[string]string{
				"training.kubeflow.org/job-name": "kf-a", "training.kubeflow.org/replica-type": lower(ro.name), "training.kubeflow.org/replica-index": strconv.Itoa(i)},
				nil, ""), PodExpect{Mode: "shared", Key: "kf-a", Source: docTop})
			cnt++
		}
	}
}

func lower(s string) string {
	bs := []byte(s)
	for i, c := range bs {
		if c >= 'A' && c <= 'Z' {
			bs[i] = c + 32
		}
	}
	return string(bs)
}

// genMPI: Launcher + Workers; optional WaitForWorkersReady launcher policy (launcher pod present or not).
func (b *builder) genMPI(n int) {
	workers := b.n(1, 5)
	ver := b.pick("v1", "v2beta1")
	specs := Obj{"Launcher": Obj{"replicas": 1, "template": Obj{"spec": Obj{}}}, "Worker": Obj{"replicas": workers, "template": Obj{"spec": Obj{}}}}
	spec := Obj{"mpiReplicaSpecs": specs}
	minAvail, hasMin := b.kubeflowRunPolicy(spec, workers+1)
	delayed := b.p(0.4)
	launcherExists := true
	if delayed {
		spec["launcherCreationPolicy"] = "WaitForWorkersReady"
		launcherExists = b.p(0.5)
	}
	o := b.object("kubeflow.org/"+ver, "MPIJob", "mpi-a", cp(b.ownerLabels), cp(b.ownerAnn), nil)
	o["spec"] = spec
	b.add(o)
	b.sc.BumpTarget = refOf(o)
	b.sc.Detail = fmt.Sprintf("%s workers=%d delayedLauncher=%v launcherExists=%v minAvailable=%v", ver, workers, delayed, launcherExists, hasMin)
	exp := PodExpect{Mode: "shared", Key: "mpi-a", Source: docTop}
	cnt := 0
	if launcherExists {
		b.addPod(b.pod("mpi-a-launcher", o, map[string]string{"training.kubeflow.org/job-name": "mpi-a", "training.kubeflow.org/job-role": "launcher",
			"training.kubeflow.org/replica-type": "launcher"}, nil, ""), exp)
		cnt++
	}
	for i := 0; i < workers && (cnt < n || cnt == 0); i++ {
		b.addPod(b.pod(fmt.Sprintf("mpi-a-worker-%d", i), o, map[string]string{"training.kubeflow.org/job-name": "mpi-a",
			"training.kubeflow.org/replica-type": "worker", "training.kubeflow.org/replica-index": strconv.Itoa(i)}, nil, ""), exp)
		cnt++
	}
	want := workers + 1
	src := "docs/developer/pod-grouper.md 'MPI Job Grouping': minAvailable from schedulingPolicy.minAvailable, otherwise all the replicas"
	if hasMin {
		want = minAvail
	}
	if delayed && !launcherExists {
		want--
		src += "; mpi-grouper.go comment: with WaitForWorkersReady and no launcher pod yet the launcher is not counted"
	}
	b.sc.GroupExpect["mpi-a"] = GroupExpect{MinMember: i32(want), Priority: b.docPriority("train"), Source: src}
}

// genRay: RayCluster (optionally owned by a RayJob) with a head group and worker groups.
func (b *builder) genRay(n int, withJob bool) {
	ver := b.pick("v1", "v1", "v1alpha1")
	var top Obj
	var rj Obj
	if withJob {
		rj = b.object("ray.io/"+ver, "RayJob", "rayjob-a", cp(b.ownerLabels), cp(b.ownerAnn), nil)
		rj["spec"] = Obj{"entrypoint": "python x.py"}
		rj["status"] = Obj{"rayClusterName": "ray-a"}
		top = rj
	}
	var cl, ca map[string]any
	if withJob {
		cl = cp(b.midLabels)
	} else {
		cl, ca = cp(b.ownerLabels), cp(b.ownerAnn)
		if b.p(0.2) {
			cl["ray.io/priority-class-name"] = "prio-hi"
		}
	}
	rc := b.object("ray.io/"+ver, "RayCluster", "ray-a", cl, ca, rj)
	groups := b.n(0, 3)
	var wgs []any
	type wg struct {
		name string
		reps int
	}
	var wgl []wg
	headT := Obj{"spec": Obj{}}
	if b.p(0.2) {
		headT["metadata"] = Obj{"annotations": Obj{"kai.scheduler/topology": "topo-1", "kai.scheduler/topology-required-placement": "rack"}}
	}
	for g := 0; g < groups; g++ {
		reps := b.n(0, 3)
		gs := Obj{"replicas": reps, "template": Obj{"spec": Obj{}}}
		name := fmt.Sprintf("worker-group-%d", g)
		if b.p(0.7) {
			name = fmt.Sprintf("wg%d", g)
			gs["groupName"] = name
		}
		if b.p(0.5) && reps > 0 {
			gs["minReplicas"] = b.n(0, reps)
		}
		if b.p(0.2) {
			gs["numOfHosts"] = 2
		}
		if b.p(0.1) {
			gs["suspended"] = true
		}
		if b.p(0.2) {
			gs["template"] = Obj{"metadata": Obj{"annotations": Obj{"kai.scheduler/topology": "topo-1", "kai.scheduler/topology-preferred-placement": "host"}}, "spec": Obj{}}
		}
		wgs = append(wgs, gs)
		wgl = append(wgl, wg{name, reps})
	}
	spec := Obj{"headGroupSpec": Obj{"template": headT}}
	if len(wgs) > 0 {
		spec["workerGroupSpecs"] = wgs
	}
	rc["spec"] = spec
	if top == nil {
		top = rc
	}
	if rj != nil {
		b.add(rj)
	}
	b.add(rc)
	b.sc.BumpTarget = refOf(top)
	b.sc.Detail = fmt.Sprintf("%s rayjob=%v workerGroups=%d", ver, withJob, groups)
	exp := PodExpect{Mode: "shared", Key: "ray-a", Source: docTop}
	b.addPod(b.pod("ray-a-head", rc, map[string]string{"ray.io/cluster": "ray-a", "ray.io/group": "headgroup", "ray.io/node-type": "head"}, nil, ""), exp)
	cnt := 1
	for _, g := range wgl {
		for i := 0; i < g.reps && cnt < n; i++ {
			b.addPod(b.pod(fmt.Sprintf("ray-a-%s-%d", g.name, i), rc, map[string]string{"ray.io/cluster": "ray-a", "ray.io/group": g.name, "ray.io/node-type": "worker"}, nil, ""), exp)
			cnt++
		}
	}
}

// genJobSet: JobSet -> Jobs (one per replicatedJob replica) -> pods.
func (b *builder) genJobSet(n int) {
	nrj := b.n(1, 3)
	order := b.pick("", "InOrder", "AnyOrder")
	js := b.object("jobset.x-k8s.io/v1alpha2", "JobSet", "js-a", cp(b.ownerLabels), cp(b.ownerAnn), nil)
	var rjs []any
	type rjT struct {
		name            string
		reps, par, comp int
	}
	var rl []rjT
	sum := 0
	for i := 0; i < nrj; i++ {
		t := rjT{name: fmt.Sprintf("rj%d", i), reps: b.n(1, 2), par: b.n(1, 3)}
		js1 := Obj{}
		if b.p(0.8) {
			js1["parallelism"] = t.par
		} else {
			t.par = 1
		}
		eff := t.par
		if b.p(0.4) {
			t.comp = b.n(1, 3)
			js1["completions"] = t.comp
			if t.comp < eff {
				eff = t.comp
			}
		}
		rjs = append(rjs, Obj{"name": t.name, "replicas": t.reps, "template": Obj{"spec": js1}})
		rl = append(rl, t)
		sum += t.reps * eff
		name := fmt.Sprintf("pg-js-a-%s-%s", uidOf(js), t.name)
		if order == "" || order == "InOrder" {
			b.sc.GroupExpect[t.name] = GroupExpect{Name: name, MinMember: i32(t.reps * eff),
				Source: "docs/developer/pod-grouper.md 'JobSet Grouping' (InOrder/default): one PodGroup per replicatedJob, name pg-<jobset-name>-<jobset-uid>-<replicatedjob-name>, MinAvailable replicas*min(parallelism, completions)"}
		}
	}
	spec := Obj{"replicatedJobs": rjs}
	if order != "" {
		spec["startupPolicy"] = Obj{"startupPolicyOrder": order}
	}
	js["spec"] = spec
	b.add(js)
	b.sc.BumpTarget = refOf(js)
	b.sc.Detail = fmt.Sprintf("startupPolicyOrder=%q replicatedJobs=%d", order, nrj)
	if order == "AnyOrder" {
		b.sc.GroupExpect["js-a"] = GroupExpect{Name: fmt.Sprintf("pg-js-a-%s", uidOf(js)), MinMember: i32(sum),
			Source: "docs/developer/pod-grouper.md 'JobSet Grouping' (not InOrder): a single PodGroup pg-<jobset-name>-<jobset-uid>, MinAvailable = sum over replicatedJobs"}
	}
	cnt := 0
	// spread the n pods round-robin over the replicated jobs so that several groups are hit
	idx := make([]int, len(rl))
	for cnt < n {
		progress := false
		for ri, t := range rl {
			if cnt >= n {
				break
			}
			capacity := t.reps * t.par
			if idx[ri] >= capacity {
				continue
			}
			rep := idx[ri] / t.par
			jobName := fmt.Sprintf("js-a-%s-%d", t.name, rep)
			var job Obj
			for _, o := range b.sc.Objects {
				if o["kind"] == "Job" && nameOf(o) == jobName {
					job = o
				}
			}
			if job == nil {
				job = b.object("batch/v1", "Job", jobName, map[string]any{"jobset.sigs.k8s.io/jobset-name": "js-a", "jobset.sigs.k8s.io/replicatedjob-name": t.name}, nil, js)
				job["spec"] = Obj{"parallelism": t.par}
				b.add(job)
			}
			key := t.name
			if order == "AnyOrder" {
				key = "js-a"
			}
			b.addPod(b.pod(fmt.Sprintf("%s-%d-%s", jobName, idx[ri]%t.par, suffix(b.r)), job,
				map[string]string{"jobset.sigs.k8s.io/jobset-name": "js-a", "jobset.sigs.k8s.io/replicatedjob-name": t.name,
					"jobset.sigs.k8s.io/job-index": strconv.Itoa(rep)}, nil, ""),
				PodExpect{Mode: "shared", Key: key, Source: "docs/developer/pod-grouper.md 'JobSet Grouping'"})
			idx[ri]++
			cnt++
			progress = true
		}
		if !progress {
			break
		}
	}
}

// genLWS: LeaderWorkerSet -> leader StatefulSet -> leader pod -> worker StatefulSet -> worker pods (the real LWS chain).
func (b *builder) genLWS(n int) {
	size := b.n(1, 5)
	replicas := b.n(1, 2)
	lwt := Obj{"size": size}
	wt := Obj{"spec": Obj{}}
	policy := b.pick("", "LeaderCreated", "LeaderReady")
	seg := 0
	if size >= 3 && b.p(0.4) {
		seg = b.n(2, size)
		styp := b.pick("", "LeaderWorker", "LeaderExcluded")
		if styp == "LeaderExcluded" {
			// only supported when (size-1) is divisible by the segment size
			ok := false
			for s := 2; s <= size-1; s++ {
				if (size-1)%s == 0 {
					seg, ok = s, true
					break
				}
			}
			if !ok {
				styp = "LeaderWorker"
			}
		}
		how := b.r.IntN(3)
		switch {
		case how == 0 || styp != "":
			sp := Obj{"subGroupSize": seg}
			if styp != "" {
				sp["subGroupPolicyType"] = styp
			}
			lwt["subGroupPolicy"] = sp
		case how == 1:
			b.ownerAnn["kai.scheduler/segment-size"] = strconv.Itoa(seg)
		default:
			wt["metadata"] = Obj{"annotations": Obj{"kai.scheduler/segment-size": strconv.Itoa(seg)}}
		}
		if b.p(0.5) {
			md, _ := wt["metadata"].(Obj)
			if md == nil {
				md = Obj{"annotations": Obj{}}
			}
			an := md["annotations"].(Obj)
			an["kai.scheduler/topology"] = "topo-1"
			an["kai.scheduler/segment-topology-preferred-placement"] = "rack"
			wt["metadata"] = md
		}
	}
	lwt["workerTemplate"] = wt
	spec := Obj{"replicas": replicas, "leaderWorkerTemplate": lwt}
	if policy != "" {
		spec["startupPolicy"] = policy
	}
	lw := b.object("leaderworkerset.x-k8s.io/v1", "LeaderWorkerSet", "lws-a", cp(b.ownerLabels), cp(b.ownerAnn), nil)
	lw["spec"] = spec
	lsts := b.object("apps/v1", "StatefulSet", "lws-a", cp(b.midLabels), nil, lw)
	lsts["spec"] = Obj{"replicas": replicas}
	b.add(lw, lsts)
	b.sc.BumpTarget = refOf(lw)
	b.sc.Detail = fmt.Sprintf("size=%d replicas=%d startupPolicy=%q segment=%d", size, replicas, policy, seg)
	src := "lws_grouper.go: pod-group name is pg-<lws>-<uid>-group-<group-index> (one group per leader-worker replica); " + docTop
	cnt := 0
	for g := 0; g < replicas && cnt < n; g++ {
		// LeaderReady: workers are only created once the leader is ready, i.e. scheduled
		withWorkers := size > 1 && (n-cnt) > 1
		node := ""
		if policy == "LeaderReady" && withWorkers {
			node = "node-1"
		} else if b.p(0.2) {
			node = "node-1"
		}
		gl := map[string]string{"leaderworkerset.sigs.k8s.io/name": "lws-a", "leaderworkerset.sigs.k8s.io/group-index": strconv.Itoa(g)}
		la := map[string]string{"leaderworkerset.sigs.k8s.io/size": strconv.Itoa(size)}
		ll := cpS(gl)
		ll["leaderworkerset.sigs.k8s.io/worker-index"] = "0"
		leader := b.pod(fmt.Sprintf("lws-a-%d", g), lsts, ll, la, node)
		b.addPod(leader, PodExpect{Mode: "shared", Key: "group-" + strconv.Itoa(g), Source: src})
		cnt++
		if !withWorkers {
			continue
		}
		wsts := b.object("apps/v1", "StatefulSet", fmt.Sprintf("lws-a-%d", g), nil, nil, leader)
		wsts["spec"] = Obj{"replicas": size - 1}
		b.add(wsts)
		for w := 1; w < size && cnt < n; w++ {
			wl := cpS(gl)
			wl["leaderworkerset.sigs.k8s.io/worker-index"] = strconv.Itoa(w)
			b.addPod(b.pod(fmt.Sprintf("lws-a-%d-%d", g, w), wsts, wl, la, ""), PodExpect{Mode: "shared", Key: "group-" + strconv.Itoa(g), Source: src})
			cnt++
		}
	}
}

// genArgo: Argo Workflow (skip-top-owner) owning pods directly, a PyTorchJob, a Job or an unknown CRD.
func (b *builder) genArgo(n int) {
	wf := b.object("argoproj.io/v1alpha1", "Workflow", "wf-a", cp(b.ownerLabels), cp(b.ownerAnn), nil)
	wf["spec"] = Obj{"entrypoint": "main"}
	b.add(wf)
	inner := b.pick("Pod", "Pod", "PyTorchJob", "Job", "Widget")
	// the inner owner gets the "mid" labels only: queue/priority/... of the workflow must be propagated down
	ol, oa := b.ownerLabels, b.ownerAnn
	b.ownerLabels, b.ownerAnn = b.midLabels, map[string]string{}
	switch inner {
	case "Pod":
		b.genBarePods(n, wf)
	case "PyTorchJob":
		b.genPyTorch(n, wf)
	case "Job":
		b.genJob(n, wf)
	case "Widget":
		b.genSimple("example.com/v1", "Widget", n, wf)
	}
	b.ownerLabels, b.ownerAnn = ol, oa
	b.sc.BumpTarget = refOf(wf)
	b.sc.Kind = "ArgoWorkflow/" + inner
	b.sc.Detail = "workflow->" + inner + " " + b.sc.Detail
	for i := range b.sc.Expect {
		b.sc.Expect[i].Source += "; 'Skipping Top Owner': an Argo Workflow is not used as the grouping key"
	}
}

// genKnative: Service -> Configuration -> Revision -> Deployment -> ReplicaSet -> pods.
func (b *builder) genKnative(n int) {
	svc := b.object("serving.knative.dev/v1", "Service", "ksvc-a", cp(b.ownerLabels), cp(b.ownerAnn), nil)
	cfg := b.object("serving.knative.dev/v1", "Configuration", "ksvc-a", nil, nil, svc)
	ra := cp(b.ownerAnn)
	if b.p(0.6) {
		ra["autoscaling.knative.dev/min-scale"] = b.pick("1", "2", "3", "abc")
	}
	rev := b.object("serving.knative.dev/v1", "Revision", "ksvc-a-00001", cp(b.ownerLabels, b.midLabels), ra, cfg)
	dep := b.object("apps/v1", "Deployment", "ksvc-a-00001-deployment", nil, nil, rev)
	dep["spec"] = Obj{"replicas": n}
	rs := b.object("apps/v1", "ReplicaSet", "ksvc-a-00001-deployment-5d5f", nil, nil, dep)
	b.add(svc, cfg, rev, dep, rs)
	b.sc.BumpTarget = refOf(rev)
	b.sc.Detail = fmt.Sprintf("gang=%v pods=%d", b.sc.Cfg.KnativeGang, n)
	for i := 0; i < n; i++ {
		e := PodExpect{Mode: "shared", Key: "rev", Source: docTop + " (knative-gang-schedule=true)"}
		if !b.sc.Cfg.KnativeGang {
			e = PodExpect{Mode: "none", Source: "knative without gang scheduling is not documented"}
		}
		b.addPod(b.pod(fmt.Sprintf("ksvc-a-00001-deployment-5d5f-%s", suffix(b.r)), rs, map[string]string{"serving.knative.dev/revision": "ksvc-a-00001"}, nil, ""), e)
	}
}
