package c12

import (
	"fmt"
	"regexp"
	"sort"
	"strings"

	v1 "k8s.io/api/core/v1"

	schedulingv1alpha2 "github.com/NVIDIA/KAI-scheduler/pkg/apis/scheduling/v1alpha2"

	"verif/harness/internal/k8sm"
	"verif/harness/internal/oracle"
	"verif/harness/internal/run"
	"verif/harness/internal/spec"
)

// judge evaluates every oracle on the recorded history. It reads only d.hist (steps), d.incs (what was drawn per
// request), d.befores (the API store before each cycle) and the case.
type judge struct {
	d     *driver
	viol  []run.Violation
	seen  map[string]bool
	count map[string]int
}

func (j *judge) report(clause, sig string, cycle int, f string, a ...any) {
	full := clause + ":" + sig
	if sig == "" {
		full = clause
	}
	j.count["violation_"+clause]++
	if j.seen[full] {
		return
	}
	j.seen[full] = true
	j.viol = append(j.viol, run.Violation{Property: "C12", Oracle: clause, Sig: full, Cycle: cycle, Msg: fmt.Sprintf(f, a...)})
}

func limStr(b *int32) string {
	if b == nil {
		return "nil"
	}
	return fmt.Sprint(*b)
}

func failureClass(fateDrawn string) string {
	switch {
	case strings.HasPrefix(fateDrawn, "persistent"), fateDrawn == "failed-not-recorded":
		return "persistent-failure"
	case fateDrawn == "transient-errors":
		return "transient-failure"
	case strings.HasPrefix(fateDrawn, "node-deleted"):
		return "node-deleted"
	}
	return "other-" + fateDrawn
}

var nodeRe = regexp.MustCompile(`node (\S+?)[: ]`)

type cycleCtx struct {
	s       *step
	o       *spec.Objects
	m       *oracle.Model
	nodes   map[string]*v1.Node
	pods    map[string]*v1.Pod
	handoff map[string][]string // node -> pods in hand-off on it (binding, or bound with a request not yet Succeeded)
}

func (j *judge) ctxOf(s *step, cyc int) *cycleCtx {
	o := j.d.befores[cyc]
	c := &cycleCtx{s: s, o: o, m: oracle.NewModel(&j.d.c.Config, o), nodes: map[string]*v1.Node{}, pods: map[string]*v1.Pod{}, handoff: map[string][]string{}}
	c.m.HandoffResidue = true
	for _, n := range o.Nodes {
		c.nodes[n.Name] = n
	}
	for _, p := range o.Pods {
		c.pods[p.Namespace+"/"+p.Name] = p
	}
	for _, b := range s.Before {
		ns, _, _ := strings.Cut(b.Key, "/")
		p := c.pods[ns+"/"+b.Pod]
		if p == nil || b.terminal() || c.nodes[b.Node] == nil {
			continue
		}
		if p.Spec.NodeName == "" {
			c.handoff[b.Node] = append(c.handoff[b.Node], p.Name)
		} else if b.Phase != schedulingv1alpha2.BindRequestPhaseSucceeded {
			c.handoff[p.Spec.NodeName] = append(c.handoff[p.Spec.NodeName], p.Name)
		}
	}
	return c
}

func podAlive(p *v1.Pod) bool {
	return (p.Status.Phase == v1.PodPending || p.Status.Phase == v1.PodRunning) && p.DeletionTimestamp == nil
}

func sameSet(a, b []string) bool {
	if len(a) != len(b) {
		return false
	}
	x := append([]string(nil), a...)
	y := append([]string(nil), b...)
	sort.Strings(x)
	sort.Strings(y)
	for i := range x {
		if x[i] != y[i] {
			return false
		}
	}
	return true
}

// ---------------------------------------------------------------- (a) conservation during hand-off

func (j *judge) conservation(c *cycleCtx, cyc int) {
	st := oracle.NewStats()
	vs := append(oracle.CheckC01(c.m, c.s.Events, cyc, st), oracle.CheckC02(c.m, c.s.Events, cyc, st)...)
	vs = append(vs, oracle.CheckClaimedDevices(c.m, c.s.Events, nil, cyc, st)...) // DRA: claimed devices are conserved too
	for k, v := range st.Counters {
		j.count["conservation_"+k] += v
	}
	for _, v := range vs {
		where := "no-request-on-node"
		for _, mt := range nodeRe.FindAllStringSubmatch(v.Msg+" ", -1) {
			if len(c.handoff[mt[1]]) > 0 {
				where = "request-live-on-node"
			}
		}
		clause := "conservation"
		if where == "no-request-on-node" {
			clause = "conservation-outside-handoff"
		}
		j.report(clause, v.Sig+":"+where, cyc, "[%s/%s] %s (pods in hand-off per node at cycle start: %v)", v.Property, v.Oracle, v.Msg, c.handoff)
	}

	// what the snapshot itself says about every pod that has a request
	sp := map[string]*snapPod{}
	for i := range c.s.SnapPods {
		sp[c.s.SnapPods[i].Key] = &c.s.SnapPods[i]
	}
	for _, b := range c.s.Before {
		ns, _, _ := strings.Cut(b.Key, "/")
		pk := ns + "/" + b.Pod
		p := c.pods[pk]
		if p == nil || !podAlive(p) {
			j.count["snapshot_skipped_pod_gone_or_terminating"]++
			continue
		}
		s := sp[pk]
		if s == nil {
			continue
		}
		nodeGone := c.nodes[b.Node] == nil
		stale := nodeGone || b.terminal()
		cause := "terminally-failed"
		if nodeGone {
			cause = "node-deleted"
		}
		desc := fmt.Sprintf("request %s uid=%s node=%s groups=%v phase=%q failedAttempts=%d backoffLimit=%s; snapshot: %+v", b.Key, b.UID, b.Node, b.Groups, b.Phase, b.Failed, limStr(b.Backoff), *s)
		switch {
		case stale && p.Spec.NodeName == "":
			j.count["snapshot_stale_request_pod_checked"]++
			if !s.Found || s.Status != "Pending" {
				j.report("pod-not-schedulable-after-cleanup", cause+":status-"+s.Status, cyc, "the request is stale (%s) but its pod is not Pending in this cycle's snapshot: %s", cause, desc)
			}
		case stale:
		case p.Spec.NodeName == "":
			j.count["snapshot_binding_pod_checked"]++
			switch {
			case !s.Found:
				j.report("snapshot-not-charged", "pod-missing", cyc, "pod with a live request is not in the snapshot: %s", desc)
			case s.Status != "Binding":
				j.report("snapshot-not-charged", "status-"+s.Status, cyc, "pod with a live request is %s, not Binding: %s", s.Status, desc)
			case s.Node != b.Node:
				j.report("snapshot-not-charged", "wrong-node", cyc, "pod with a live request is placed on %q: %s", s.Node, desc)
			case !s.OnNode:
				j.report("snapshot-not-charged", "not-in-node-podinfos", cyc, "pod with a live request is not among the PodInfos of the selected node: %s", desc)
			case len(b.Groups) > 0 && !sameSet(b.Groups, s.Groups):
				j.report("snapshot-not-charged", "gpu-groups-differ", cyc, "GPU groups of the binding pod differ from the request: %s", desc)
			default:
				for _, g := range b.Groups {
					j.count["snapshot_binding_gpu_group_checked"]++
					if s.GroupUsed[g] <= 0 {
						j.report("snapshot-not-charged", "gpu-group-memory-not-used", cyc, "GPU group %s of the binding pod has no used memory on the node: %s", g, desc)
					}
				}
				// DRA: the binding pod carries the claim allocations of its request, and the devices are taken in the
				// scheduler's view (so no later cycle hands them out again)
				names := make([]string, 0, len(b.Claims))
				for n := range b.Claims {
					names = append(names, n)
				}
				sort.Strings(names)
				for _, n := range names {
					want := b.Claims[n]
					if len(want) == 0 {
						continue
					}
					j.count["snapshot_binding_claim_checked"]++
					if !sameSet(want, s.ClaimDevs[n]) {
						j.report("snapshot-not-charged", "claim-allocation-differs", cyc, "claim %s of the binding pod: the request allocates %v, the snapshot's pod carries %v: %s", n, want, s.ClaimDevs[n], desc)
						continue
					}
					for _, dev := range want {
						if !s.DevTaken[dev] {
							j.report("snapshot-not-charged", "claimed-device-not-taken", cyc, "device %s allocated by the request (claim %s) is not in the scheduler's allocated-device set at session open: %s", dev, n, desc)
						}
					}
				}
			}
		default:
			j.count["snapshot_bound_pod_with_request_checked"]++
			if b.Phase != schedulingv1alpha2.BindRequestPhaseSucceeded {
				j.count["snapshot_bound_but_request_not_updated_checked"]++
			}
			if !s.Found || s.Node != p.Spec.NodeName || !s.OnNode || (s.Status != "Bound" && s.Status != "Running") {
				j.report("snapshot-not-charged", "bound-pod:status-"+s.Status, cyc, "pod bound to %s (request phase %q) is not charged to that node: %s", p.Spec.NodeName, b.Phase, desc)
			}
		}
	}

	// idle resources of nodes that host a pod in hand-off: idle <= allocatable - requests of the occupying pods
	for _, sn := range c.s.SnapNodes {
		if len(c.handoff[sn.Name]) == 0 {
			continue
		}
		node := c.nodes[sn.Name]
		if node == nil {
			continue
		}
		alloc := k8sm.Allocatable(node)
		used := k8sm.Req{}
		groups := map[string]bool{}
		for _, p := range c.m.Occupying(sn.Name) {
			req := k8sm.PodRequest(p)
			gr := k8sm.GPURequest(p)
			if oracle.IsReservation(p) {
				if g := p.Labels["runai-gpu-group"]; g != "" {
					groups[g] = true
				}
				delete(req, "nvidia.com/gpu")
			} else if gr.Shared() {
				for _, g := range c.m.GroupsOf(p) {
					groups[g] = true
				}
				delete(req, "nvidia.com/gpu")
			}
			for k, v := range req {
				used[k] += v
			}
		}
		used["nvidia.com/gpu"] += int64(len(groups))
		j.count["snapshot_idle_nodes_checked"]++
		chk := func(res string, idle float64, free int64, tol float64) {
			if idle > float64(free)+tol {
				j.report("snapshot-idle-too-high", res, cyc, "node %s: snapshot idle %s = %v, but allocatable - requests of occupying pods (incl. pods in hand-off %v) = %d", sn.Name, res, idle, c.handoff[sn.Name], free)
			}
		}
		chk("cpu", sn.IdleCPU, alloc[v1.ResourceCPU]-used[v1.ResourceCPU], 1)
		chk("memory", sn.IdleMem, alloc[v1.ResourceMemory]-used[v1.ResourceMemory], 1)
		chk("gpu", sn.IdleGPUs, alloc["nvidia.com/gpu"]-used["nvidia.com/gpu"], 1e-6)
	}
}

// ---------------------------------------------------------------- (b) clean-up of stale requests

func (j *judge) cleanup(c *cycleCtx, cyc int, cycles map[int]*step) {
	after := map[string]bool{}
	for _, a := range c.s.After {
		after[a.UID] = true
	}
	for _, b := range c.s.Before {
		cause := ""
		switch {
		case c.nodes[b.Node] == nil:
			cause = "node-deleted"
		case b.terminal():
			cause = "terminally-failed"
		default:
			continue
		}
		j.count["stale_requests_seen_"+cause]++
		if after[b.UID] {
			j.report("stale-request-not-deleted", cause, cyc, "request %s uid=%s (node %s, phase %q, failedAttempts %d, backoffLimit %s) was stale (%s) when cycle %d started and still exists after the cycle",
				b.Key, b.UID, b.Node, b.Phase, b.Failed, limStr(b.Backoff), cause, cyc)
			continue
		}
		j.count["cleanups_seen_"+cause]++
		ns, _, _ := strings.Cut(b.Key, "/")
		if ns != ctlNS || b.Pod != ctlPod {
			continue
		}
		p := c.pods[ns+"/"+b.Pod]
		if p == nil || !podAlive(p) || p.Spec.NodeName != "" {
			continue
		}
		// control: capacity certainly exists, so the pod must get a new request in this cycle or the next
		next, hasNext := cycles[cyc+1]
		rebound := func(s *step) bool {
			for i := range s.Events {
				e := &s.Events[i]
				if e.Kind == "bind" && e.NS == ctlNS && e.Pod == ctlPod && e.Err == "" {
					return true
				}
			}
			return false
		}
		switch {
		case rebound(c.s):
			j.count["control_rescheduled_same_cycle_"+cause]++
		case hasNext && rebound(next):
			j.count["control_rescheduled_next_cycle_"+cause]++
		case !hasNext:
			j.count["control_reschedule_unjudged_last_cycle"]++
		default:
			j.report("control-pod-not-rescheduled", cause, cyc, "the control pod's request %s uid=%s was cleaned (%s) in cycle %d but the pod got no new request in cycles %d-%d although a dedicated node with free capacity exists",
				b.Key, b.UID, cause, cyc, cyc, cyc+1)
		}
	}
}

// ---------------------------------------------------------------- (c) bounded retries, persisted count

type retryState struct {
	attemptsLive int // attempts begun while the stored request was not terminally failed
	statusFaults int
	failed       int
	lastFA       int32
	haveFA       bool
	exceeded     bool
}

func (j *judge) retries() {
	st := map[string]*retryState{}
	get := func(uid string) *retryState {
		r, ok := st[uid]
		if !ok {
			r = &retryState{}
			st[uid] = r
		}
		return r
	}
	mono := func(v *brView, where string, n int) {
		if v == nil {
			return
		}
		r := get(v.UID)
		if r.haveFA && v.Failed < r.lastFA {
			j.report("failed-attempts-decreased", "", 0, "request %s uid=%s: status.failedAttempts went from %d to %d (step %d, %s)", v.Key, v.UID, r.lastFA, v.Failed, n, where)
		}
		r.lastFA, r.haveFA = v.Failed, true
	}
	for _, s := range j.d.hist {
		switch s.Kind {
		case "cycle":
			for _, v := range s.Before {
				mono(v, "before cycle", s.N)
			}
			for _, v := range s.After {
				mono(v, "after cycle", s.N)
			}
			continue
		case "reconcile":
		default:
			continue
		}
		mono(s.BRBefore, "before reconcile", s.N)
		mono(s.BRAfter, "after reconcile", s.N)
		inc := j.d.incs[s.UID]
		if inc == nil || !s.Attempt {
			continue
		}
		r := get(s.UID)
		class := failureClass(inc.FateDrawn)
		switch {
		case s.NodeGone:
			class = "node-deleted"
		case !s.Injected && !strings.HasPrefix(class, "persistent") && class != "transient-failure":
			class = "unprovoked-failure"
		}
		L := s.BRBefore.Backoff
		j.count["bind_attempts"]++
		j.count["binding_calls"] += s.BindCalls
		if s.WasTerm {
			j.count["attempts_on_terminally_failed_request"]++
		} else {
			r.attemptsLive++
			if s.StatusHit {
				r.statusFaults++
			}
		}
		failed := s.PodNodeAft == ""
		bound := s.PodNodeBef == "" && s.PodNodeAft != ""
		switch {
		case failed:
			r.failed++
			j.count["failed_attempts"]++
			j.count["failed_attempts_"+class]++
			if r.failed > 1 {
				j.count["retries_seen"]++
			}
			if s.StatusHit || s.BRAfter == nil {
				j.count["failed_attempts_status_write_faulted"]++
				break
			}
			if s.BRAfter.Phase != schedulingv1alpha2.BindRequestPhaseFailed {
				j.report("failure-not-recorded", "phase-"+s.BRAfter.Phase, 0, "step %d: attempt on %s uid=%s failed (pod unbound, reconcile err=%q) and the status write was not faulted, but phase=%q",
					s.N, s.Key, s.UID, s.Result.Err, s.BRAfter.Phase)
			}
			if L != nil {
				exp := s.BRBefore.Failed
				if exp < *L {
					exp++
				}
				j.count["persisted_count_checks"]++
				if s.BRAfter.Failed != exp {
					j.report("retry-count-not-persisted", class, 0,
						"step %d: failed attempt #%d on request %s uid=%s (backoffLimit %d): stored status.failedAttempts was %d before and is %d after the reconcile, expected %d (phase before %q, after %q; status write not faulted; requeueAfter=%v err=%q)",
						s.N, r.failed, s.Key, s.UID, *L, s.BRBefore.Failed, s.BRAfter.Failed, exp, s.BRBefore.Phase, s.BRAfter.Phase, s.Result.Requeue, s.Result.Err)
				}
			}
		case bound:
			j.count["successful_attempts"]++
			if r.failed > 0 {
				j.count["success_after_failures"]++
			}
			if !s.StatusHit && s.BRAfter != nil && s.BRAfter.Phase != schedulingv1alpha2.BindRequestPhaseSucceeded {
				j.report("success-not-recorded", "phase-"+s.BRAfter.Phase, 0, "step %d: %s uid=%s bound its pod to %s, status write not faulted, but phase=%q", s.N, s.Key, s.UID, s.PodNodeAft, s.BRAfter.Phase)
			}
			if s.StatusHit {
				j.count["bound_but_request_not_updated"]++
			}
		}
		limit := 1
		if L != nil {
			limit = int(*L) + 1
		}
		if !s.WasTerm && r.attemptsLive > limit+r.statusFaults && !r.exceeded {
			r.exceeded = true
			j.report("retries-exceed-backoff-limit", class, 0,
				"step %d: request %s uid=%s (backoffLimit %s) is on attempt %d begun while the stored request was not terminally failed (%d of them could not write their status); at most %d are allowed; stored phase=%q failedAttempts=%d - the request is still not failed for the scheduler",
				s.N, s.Key, s.UID, limStr(L), r.attemptsLive, r.statusFaults, limit, s.BRBefore.Phase, s.BRBefore.Failed)
		}
	}
}

// ---------------------------------------------------------------- end state

func (j *judge) endState() {
	o := j.d.befores[j.d.cycle]
	if o == nil {
		return
	}
	nodes := map[string]bool{}
	for _, n := range o.Nodes {
		nodes[n.Name] = true
	}
	pods := map[string]*v1.Pod{}
	for _, p := range o.Pods {
		pods[p.Namespace+"/"+p.Name] = p
	}
	for _, br := range o.BindRequests {
		v := viewOf(br)
		p := pods[br.Namespace+"/"+br.Spec.PodName]
		switch {
		case v.Phase == schedulingv1alpha2.BindRequestPhaseSucceeded:
			j.count["end_requests_succeeded"]++
			if p != nil && podAlive(p) && p.Spec.NodeName == "" {
				j.report("succeeded-but-unbound", "", 0, "end: request %s uid=%s is Succeeded but its pod is not bound", v.Key, v.UID)
			}
		case v.terminal() || !nodes[v.Node]:
			j.count["end_requests_stale_awaiting_scheduler"]++
		case p == nil || !podAlive(p) || p.Spec.NodeName != "":
			j.count["end_requests_other"]++
		default:
			j.report("handoff-not-terminated", failureClass(j.fateOf(v.UID)), 0,
				"end: after all faults were removed, 4 rounds of fault-free reconciles, 2 scheduler cycles and 4 more rounds, request %s uid=%s is neither Succeeded nor terminally failed: phase=%q failedAttempts=%d backoffLimit=%s, pod unbound",
				v.Key, v.UID, v.Phase, v.Failed, limStr(v.Backoff))
		}
	}
}

func (j *judge) fateOf(uid string) string {
	if inc := j.d.incs[uid]; inc != nil {
		return inc.FateDrawn
	}
	return "unknown"
}

func (j *judge) run() {
	cycles := map[int]*step{}
	n := 0
	for _, s := range j.d.hist {
		if s.Kind == "cycle" {
			n++
			cycles[n] = s
		}
	}
	for cyc := 1; cyc <= n; cyc++ {
		s := cycles[cyc]
		if s.Panic != "" {
			j.report("sut-panic", "scheduler-cycle", cyc, "scheduler cycle %d panicked: %s", cyc, firstLine(s.Panic))
			continue
		}
		if s.OpenErr != "" {
			j.count["cycles_open_error"]++
			continue
		}
		c := j.ctxOf(s, cyc)
		// progress states of the requests this cycle's snapshot was taken over
		live := false
		for _, b := range s.Before {
			ns, _, _ := strings.Cut(b.Key, "/")
			p := c.pods[ns+"/"+b.Pod]
			state := "other"
			switch {
			case c.nodes[b.Node] == nil:
				state = "node-deleted"
			case b.terminal():
				state = "terminally-failed"
			case p != nil && p.Spec.NodeName != "" && b.Phase != schedulingv1alpha2.BindRequestPhaseSucceeded:
				state = "bound-request-not-updated"
				live = true
			case b.Phase == schedulingv1alpha2.BindRequestPhaseSucceeded:
				state = "succeeded"
			case b.Phase == schedulingv1alpha2.BindRequestPhaseFailed:
				state = fmt.Sprintf("failed-%d-times-retrying", b.Failed)
				live = true
			case p != nil && p.Spec.NodeName == "":
				state = "not-started"
				live = true
			}
			j.count["cycle_saw_request_"+state]++
		}
		if live {
			j.count["cycles_with_live_request"]++
		}
		j.conservation(c, cyc)
		j.cleanup(c, cyc, cycles)
	}
	j.retries()
	j.endState()
	for _, s := range j.d.hist {
		if s.Kind != "cycle" && s.Panic != "" {
			j.report("sut-panic", "binder-"+s.Kind, 0, "binder %s panicked (step %d): %s", s.Kind, s.N, firstLine(s.Panic))
		}
	}
}

func firstLine(s string) string {
	if i := strings.IndexByte(s, '\n'); i >= 0 {
		return s[:i]
	}
	return s
}
