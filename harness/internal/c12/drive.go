package c12

import (
	"fmt"
	"math/rand/v2"
	"sort"
	"strings"
	"sync"

	v1 "k8s.io/api/core/v1"
	"k8s.io/apimachinery/pkg/runtime"
	"k8s.io/apimachinery/pkg/runtime/schema"
	"k8s.io/apimachinery/pkg/types"
	k8stesting "k8s.io/client-go/testing"
	"k8s.io/utils/ptr"

	schedulingv1alpha2 "github.com/NVIDIA/KAI-scheduler/pkg/apis/scheduling/v1alpha2"
	featuregates "github.com/NVIDIA/KAI-scheduler/pkg/common/feature_gates"
	"github.com/NVIDIA/KAI-scheduler/pkg/scheduler/api/pod_info"
	"github.com/NVIDIA/KAI-scheduler/pkg/scheduler/framework"

	"verif/harness/internal/c11"
	"verif/harness/internal/gen"
	"verif/harness/internal/sched"
	"verif/harness/internal/spec"
	"verif/harness/internal/store"
	"verif/harness/internal/world"
)

var (
	podGVR  = schema.GroupVersionResource{Version: "v1", Resource: "pods"}
	nodeGVR = schema.GroupVersionResource{Version: "v1", Resource: "nodes"}
	brGVR   = schedulingv1alpha2.GroupVersion.WithResource("bindrequests")
)

// ---------------------------------------------------------------- recorded history

// brView is a BindRequest as stored at some moment.
type brView struct {
	Key     string   `json:"key"` // namespace/name
	UID     string   `json:"uid"`
	Pod     string   `json:"pod"`
	Node    string   `json:"selectedNode"`
	Groups  []string `json:"selectedGPUGroups,omitempty"`
	Backoff *int32   `json:"backoffLimit"`
	Phase   string   `json:"phase"`
	Failed  int32    `json:"failedAttempts"`
	Reason  string   `json:"reason,omitempty"`
	RV      string   `json:"resourceVersion,omitempty"`
	// Claims: spec.resourceClaimAllocations (pod claim name -> sorted driver/pool/device ids)
	Claims map[string][]string `json:"claimAllocations,omitempty"`
}

// terminal is the harness' statement of "terminally failed": phase Failed and (no backoffLimit, or failedAttempts
// reached it). (Same rule as BindRequestInfo.IsFailed, restated here on the stored object.)
func (b *brView) terminal() bool {
	return b.Phase == schedulingv1alpha2.BindRequestPhaseFailed && (b.Backoff == nil || b.Failed >= *b.Backoff)
}

func viewOf(br *schedulingv1alpha2.BindRequest) *brView {
	r := br.Status.Reason
	if len(r) > 160 {
		r = r[:160] + "..."
	}
	v := &brView{Key: br.Namespace + "/" + br.Name, UID: string(br.UID), Pod: br.Spec.PodName, Node: br.Spec.SelectedNode,
		Groups: append([]string(nil), br.Spec.SelectedGPUGroups...), Backoff: br.Spec.BackoffLimit, Phase: br.Status.Phase,
		Failed: br.Status.FailedAttempts, Reason: r, RV: br.ResourceVersion}
	for _, ra := range br.Spec.ResourceClaimAllocations { // DRA
		if v.Claims == nil {
			v.Claims = map[string][]string{}
		}
		v.Claims[ra.Name] = sched.DeviceIDs(ra.Allocation)
	}
	return v
}

// snapPod is what the scheduler's snapshot of a cycle says about a pod that had a BindRequest at cycle start.
type snapPod struct {
	Key        string           `json:"pod"`
	Found      bool             `json:"inSnapshot"`
	Status     string           `json:"status,omitempty"`
	Node       string           `json:"nodeName,omitempty"`
	Groups     []string         `json:"gpuGroups,omitempty"`
	OnNode     bool             `json:"inPodInfosOfThatNode"`
	GroupUsed  map[string]int64 `json:"usedSharedGPUMemoryOfItsGroups,omitempty"`
	AcceptedGP float64          `json:"acceptedGPUs,omitempty"`
	// DRA: per pod claim the devices the pod's PodInfo carries, and for each of those devices whether the DRA
	// manager's allocated-device set (what the allocator is told is taken) holds it at session open
	ClaimDevs map[string][]string `json:"claimDevices,omitempty"`
	DevTaken  map[string]bool     `json:"claimedDeviceInAllocatedSet,omitempty"`
}

type snapNode struct {
	Name     string  `json:"node"`
	IdleCPU  float64 `json:"idleCPUMilli"`
	IdleMem  float64 `json:"idleMemory"`
	IdleGPUs float64 `json:"idleGPUs"`
}

type step struct {
	N     int    `json:"n"`
	Kind  string `json:"kind"` // cycle | reconcile | delete-node | restart | kubelet | request-deleted | sync
	Cycle int    `json:"afterCycle"`
	Note  string `json:"note,omitempty"`

	// cycle
	Before    []*brView     `json:"requestsBefore,omitempty"`
	After     []*brView     `json:"requestsAfter,omitempty"`
	Events    []sched.Event `json:"events,omitempty"`
	SnapPods  []snapPod     `json:"snapshotPods,omitempty"`
	SnapNodes []snapNode    `json:"snapshotNodes,omitempty"`
	OpenErr   string        `json:"openErr,omitempty"`
	Panic     string        `json:"panic,omitempty"`

	// reconcile
	Key        string      `json:"request,omitempty"`
	UID        string      `json:"uid,omitempty"`
	Fate       string      `json:"fate,omitempty"`
	Trigger    string      `json:"trigger,omitempty"`
	Plan       *c11.Plan   `json:"plan,omitempty"`
	FaultKinds []string    `json:"faultAt,omitempty"`
	Calls      []string    `json:"calls,omitempty"`
	Result     *c11.Result `json:"result,omitempty"`
	BRBefore   *brView     `json:"requestBefore,omitempty"`
	BRAfter    *brView     `json:"requestAfter,omitempty"`
	PodNodeBef string      `json:"podNodeBefore,omitempty"`
	PodNodeAft string      `json:"podNodeAfter,omitempty"`
	Attempt    bool        `json:"attempt,omitempty"`      // the reconcile went past the initial checks
	BindCalls  int         `json:"bindingCalls,omitempty"` // pods/binding calls it made
	StatusHit  bool        `json:"statusWriteFaulted,omitempty"`
	WasTerm    bool        `json:"requestWasTerminal,omitempty"`
	NodeGone   bool        `json:"selectedNodeGone,omitempty"`
	Injected   bool        `json:"faultInjected,omitempty"`
}

// fate is the binder-side future the harness drew for one request incarnation.
type fate struct {
	Kind    string `json:"kind"`
	Delay   int    `json:"gapsUntouched,omitempty"`
	J       int    `json:"failuresLeft,omitempty"`
	Target  string `json:"targetCall,omitempty"`
	Restart bool   `json:"restartBeforeEveryAttempt,omitempty"`
	stage   int
}

// incarnation is one BindRequest object (one UID) over its life.
type incarnation struct {
	UID        string `json:"uid"`
	Key        string `json:"key"`
	Node       string `json:"selectedNode"`
	Backoff    *int32 `json:"backoffLimit"`
	Control    bool   `json:"control,omitempty"`
	Fate       fate   `json:"fateNow"`
	Drawn      fate   `json:"fateDrawnAtCreation"`
	FateDrawn  string `json:"fateDrawn"`
	Created    int    `json:"createdInCycle"` // 0 = part of the initial cluster
	Deleted    int    `json:"deletedInCycle,omitempty"`
	DeletedBy  string `json:"deletedBy,omitempty"`
	trigger    string
	delayedGap int
}

type driver struct {
	c         *spec.Case
	pl        *Plan
	st        *store.Store
	b         *c11.Binder
	run       *sched.Runner
	notSynced int        // cycles before which a persistent scheduler cache did not catch up with the store
	rng       *rand.Rand // schedule choices
	frng      *rand.Rand // fates
	brng      *rand.Rand // backoff limits of created requests

	mu       sync.Mutex
	uidSeq   int
	hist     []*step
	incs     map[string]*incarnation // by UID
	incOrder []string
	cycle    int
	befores  map[int]*spec.Objects // store before each cycle (for the conservation oracles)
	counters map[string]int

	watch     map[string]bool // pods to observe in the next snapshot
	snapPods  []snapPod
	snapNodes []snapNode

	genericNodeDeleted bool
	ctlFirstUID        string
	err                error
}

func (d *driver) add(s *step) *step {
	s.N = len(d.hist)
	s.Cycle = d.cycle
	d.hist = append(d.hist, s)
	return s
}

func newDriver(c *spec.Case, pl *Plan) (*driver, error) {
	d := &driver{c: c, pl: pl, st: store.New(), incs: map[string]*incarnation{}, befores: map[int]*spec.Objects{}, counters: map[string]int{},
		rng: gen.NewRand(c.Seed, c.Index, 120), frng: gen.NewRand(c.Seed, c.Index, 121), brng: gen.NewRand(c.Seed, c.Index, 122)}
	if err := d.st.Add(c.Objects.All()...); err != nil {
		return nil, fmt.Errorf("store add: %w", err)
	}
	d.st.GracefulPods.Store(true)
	// the API server's part on a BindRequest create: a UID; and the defaulting stand-in that sets spec.backoffLimit
	// (the scheduler leaves it unset)
	d.st.AddHook(func(cl string, a k8stesting.Action) (bool, runtime.Object, error) {
		ca, ok := a.(k8stesting.CreateActionImpl)
		if !ok || cl != "kai" || a.GetResource().Resource != "bindrequests" {
			return false, nil, nil
		}
		br, ok := ca.GetObject().(*schedulingv1alpha2.BindRequest)
		if !ok {
			return false, nil, nil
		}
		d.mu.Lock()
		defer d.mu.Unlock()
		d.uidSeq++
		br.UID = types.UID(fmt.Sprintf("brc-%d", d.uidSeq))
		br.Spec.BackoffLimit = d.backoffFor(br)
		return false, nil, nil
	})
	// DRA: the binder decides which plugins it builds from the DynamicResourceAllocation gate at start-up, the
	// scheduler sets the gate from API discovery whenever it builds a cache: both see the same API server
	if c.Objects.HasDRA() {
		d.st.EnableDRA()
		d.counters["dra_cases"]++
		d.counters["dra_claims_generated"] += len(c.Objects.ResourceClaims)
	}
	_ = featuregates.SetDRAFeatureGate(d.st.Kube.Discovery())
	var err error
	if d.b, err = c11.NewBinderOn(d.st, pl.Cdi); err != nil {
		return nil, err
	}
	hooks := sched.Hooks{AfterOpen: func(ssn *framework.Session, _ *sched.RecCache) { d.observe(ssn) }}
	if d.run, err = sched.NewRunner(d.st, c, gen.NewRand(c.Seed, c.Index, 2), hooks); err != nil {
		return nil, err
	}
	return d, nil
}

func (d *driver) backoffFor(br *schedulingv1alpha2.BindRequest) *int32 {
	if br.Namespace == ctlNS && br.Spec.PodName == ctlPod {
		if d.pl.CtlBackoff < 0 {
			return nil
		}
		return ptr.To(int32(d.pl.CtlBackoff))
	}
	switch {
	case d.pl.BackoffPolicy == "nil":
		return nil
	case strings.HasPrefix(d.pl.BackoffPolicy, "fixed:"):
		var n int
		fmt.Sscanf(d.pl.BackoffPolicy, "fixed:%d", &n)
		return ptr.To(int32(n))
	}
	x := []int{-1, -1, 0, 1, 2, 3, 4}[d.brng.IntN(7)]
	if x < 0 {
		return nil
	}
	return ptr.To(int32(x))
}

// observe runs inside the cycle right after OpenSession: what does the snapshot say about the watched pods?
func (d *driver) observe(ssn *framework.Session) {
	d.snapPods, d.snapNodes = nil, nil
	ci := ssn.ClusterInfo
	if ci == nil {
		return
	}
	keys := make([]string, 0, len(d.watch))
	for k := range d.watch {
		keys = append(keys, k)
	}
	sort.Strings(keys)
	type loc struct {
		status, node, onNode string
		groups               []string
		acc                  float64
		claims               map[string][]string
	}
	taken := map[string]bool{}
	if d.c.Objects.HasDRA() {
		if pl := ssn.InternalK8sPlugins(); pl != nil && pl.FrameworkHandle != nil {
			if mgr := pl.FrameworkHandle.SharedDRAManager(); mgr != nil {
				if st, err := mgr.ResourceClaims().GatherAllocatedState(); err == nil && st != nil {
					for id := range st.AllocatedDevices {
						taken[id.String()] = true
					}
				}
			}
		}
	}
	claimsOf := func(t *pod_info.PodInfo) map[string][]string {
		if len(t.ResourceClaimInfo) == 0 {
			return nil
		}
		out := map[string][]string{}
		for name, info := range t.ResourceClaimInfo {
			if info != nil {
				out[name] = sched.DeviceIDs(info.Allocation)
			}
		}
		return out
	}
	found := map[string]*loc{}
	note := func(ns, name, status, node string, groups []string, acc float64) *loc {
		k := ns + "/" + name
		if !d.watch[k] {
			return nil
		}
		l, ok := found[k]
		if !ok {
			l = &loc{status: status, node: node, groups: append([]string(nil), groups...), acc: acc}
			found[k] = l
		}
		return l
	}
	for _, pg := range ci.PodGroupInfos {
		for _, t := range pg.GetAllPodsMap() {
			acc := 0.0
			if t.AcceptedResource != nil {
				acc = t.AcceptedResource.GPUs()
			}
			if l := note(t.Namespace, t.Name, t.Status.String(), t.NodeName, t.GPUGroups, acc); l != nil && l.claims == nil {
				l.claims = claimsOf(t)
			}
		}
	}
	for nn, ni := range ci.Nodes {
		for _, t := range ni.PodInfos {
			acc := 0.0
			if t.AcceptedResource != nil {
				acc = t.AcceptedResource.GPUs()
			}
			if l := note(t.Namespace, t.Name, t.Status.String(), t.NodeName, t.GPUGroups, acc); l != nil {
				l.onNode = nn
			}
		}
	}
	for _, k := range keys {
		sp := snapPod{Key: k}
		if l, ok := found[k]; ok {
			sp.Found, sp.Status, sp.Node, sp.Groups, sp.AcceptedGP = true, l.status, l.node, l.groups, l.acc
			sp.OnNode = l.onNode != "" && l.onNode == l.node
			if len(l.claims) > 0 {
				sp.ClaimDevs, sp.DevTaken = l.claims, map[string]bool{}
				for _, devs := range l.claims {
					for _, dev := range devs {
						sp.DevTaken[dev] = taken[dev]
					}
				}
			}
			if ni, ok := ci.Nodes[l.node]; ok && len(l.groups) > 0 {
				sp.GroupUsed = map[string]int64{}
				for _, g := range l.groups {
					sp.GroupUsed[g] = ni.UsedSharedGPUsMemory[g]
				}
			}
		}
		d.snapPods = append(d.snapPods, sp)
	}
	names := make([]string, 0, len(ci.Nodes))
	for n := range ci.Nodes {
		names = append(names, n)
	}
	sort.Strings(names)
	for _, n := range names {
		ni := ci.Nodes[n]
		d.snapNodes = append(d.snapNodes, snapNode{Name: n, IdleCPU: ni.Idle.Cpu(), IdleMem: ni.Idle.Memory(), IdleGPUs: ni.Idle.GPUs()})
	}
}

func views(o *spec.Objects) []*brView {
	var out []*brView
	for _, br := range o.BindRequests {
		out = append(out, viewOf(br))
	}
	return out
}

func (d *driver) getBR(key string) *schedulingv1alpha2.BindRequest {
	ns, name, _ := strings.Cut(key, "/")
	o, err := d.st.Tracker.Get(brGVR, ns, name)
	if err != nil {
		return nil
	}
	return o.(*schedulingv1alpha2.BindRequest).DeepCopy()
}

func (d *driver) getPod(ns, name string) *v1.Pod {
	o, err := d.st.Tracker.Get(podGVR, ns, name)
	if err != nil {
		return nil
	}
	return o.(*v1.Pod).DeepCopy()
}

// ---------------------------------------------------------------- fates

func (d *driver) drawFate(inc *incarnation) {
	if inc.Control && d.ctlFirstUID == "" {
		d.ctlFirstUID = inc.UID
		f := fate{Kind: d.pl.Scenario}
		switch d.pl.Scenario {
		case "persistent-bind-error":
			f.Target = "binding-subresource"
		case "persistent-prebind-error":
			f.Target = "" // PRNG-chosen call before the binding call, then that kind for ever
		case "transient-errors":
			f.J = d.pl.TransientJ
		case "binder-not-started":
			f.Delay = 3
		case "persistent-with-restarts":
			f.Target, f.Restart = "binding-subresource", true
		case "failed-not-recorded":
			f.Target = "binding-subresource"
		}
		inc.Fate, inc.Drawn = f, f
		inc.FateDrawn = f.Kind
		return
	}
	x := d.frng.Float64()
	var f fate
	multi := false
	if br := d.getBR(inc.Key); br != nil && len(br.Spec.SelectedGPUGroups) > 1 {
		multi = true // several reservation steps: the interesting place to die is between them
	}
	switch {
	case x < 0.22 || (x < 0.30 && !multi && d.frng.Float64() < 0.5):
		f = fate{Kind: "clean"}
	case x < 0.30:
		f = fate{Kind: "dies-mid-attempt"}
	case x < 0.42:
		f = fate{Kind: "binder-not-started", Delay: 1 + d.frng.IntN(3)}
	case x < 0.58:
		f = fate{Kind: "transient-errors", J: 1 + d.frng.IntN(3)}
	case x < 0.72:
		f = fate{Kind: "persistent-bind-error", Target: "binding-subresource"}
	case x < 0.80:
		f = fate{Kind: "persistent-prebind-error"}
	case x < 0.88:
		f = fate{Kind: "bound-not-updated"}
	case x < 0.92:
		f = fate{Kind: "failed-not-recorded", Target: "binding-subresource"}
	case x < 0.96:
		f = fate{Kind: "node-deleted-before-start"}
	default:
		f = fate{Kind: "node-deleted-after-failure"}
	}
	if strings.HasPrefix(f.Kind, "persistent") && d.frng.Float64() < 0.3 {
		f.Restart = true
	}
	inc.Fate, inc.Drawn = f, f
	inc.FateDrawn = f.Kind
}

// register notes new request incarnations (sorted by key) and gives them a create trigger.
func (d *driver) register(o *spec.Objects, created int) {
	for _, br := range o.BindRequests {
		uid := string(br.UID)
		if _, ok := d.incs[uid]; ok {
			continue
		}
		inc := &incarnation{UID: uid, Key: br.Namespace + "/" + br.Name, Node: br.Spec.SelectedNode, Backoff: br.Spec.BackoffLimit,
			Control: br.Namespace == ctlNS && br.Spec.PodName == ctlPod, Created: created, trigger: "create"}
		d.drawFate(inc)
		d.incs[uid] = inc
		d.incOrder = append(d.incOrder, uid)
		d.counters["requests_observed"]++
		if created > 0 {
			d.counters["requests_created_by_scheduler"]++
		} else {
			d.counters["requests_preexisting"]++
		}
		d.counters["fate_"+inc.Fate.Kind]++
		if br.Spec.BackoffLimit == nil {
			d.counters["request_backoff_nil"]++
		} else {
			d.counters[fmt.Sprintf("request_backoff_%d", *br.Spec.BackoffLimit)]++
		}
	}
}

// ---------------------------------------------------------------- the world between cycles

// kubelet: terminating pods go away; owner garbage collection removes the BindRequest of a pod that is gone; a pod
// bound to a node starts running.
func (d *driver) kubelet() {
	o := d.st.ReadAll()
	var notes []string
	terminated := 0
	pods := map[string]*v1.Pod{}
	for _, p := range o.Pods {
		if p.DeletionTimestamp != nil && d.rng.Float64() < 0.7 {
			terminated++
			_ = d.st.Tracker.Delete(podGVR, p.Namespace, p.Name)
			notes = append(notes, "terminated "+p.Namespace+"/"+p.Name)
			continue
		}
		pods[p.Namespace+"/"+p.Name] = p
		if p.Spec.NodeName != "" && p.Status.Phase == v1.PodPending && p.Namespace != spec.ReservationNS && d.rng.Float64() < 0.6 {
			p.Status.Phase = v1.PodRunning
			_ = d.st.Tracker.Update(podGVR, p, p.Namespace)
			notes = append(notes, "running "+p.Namespace+"/"+p.Name)
		}
	}
	for _, br := range o.BindRequests {
		p, ok := pods[br.Namespace+"/"+br.Spec.PodName]
		owner := ""
		for _, or := range br.OwnerReferences {
			if or.Kind == "Pod" {
				owner = string(or.UID)
			}
		}
		if ok && (owner == "" || owner == string(p.UID)) {
			continue
		}
		_ = d.st.Tracker.Delete(brGVR, br.Namespace, br.Name)
		notes = append(notes, "gc request "+br.Namespace+"/"+br.Name+" (pod gone)")
		d.requestDeleted(br, "owner-gc")
	}
	// DRA: resource claim controller + garbage collector (consumers that are gone leave reservedFor, a claim nobody
	// reserves is deallocated)
	if logs, writes := world.ReconcileClaims(d.st); writes > 0 || len(logs) > 0 {
		notes = append(notes, logs...)
		d.counters["dra_claim_controller_writes"] += writes
	}
	if len(notes) > 0 {
		d.add(&step{Kind: "kubelet", Note: strings.Join(notes, "; ")})
	}
	if terminated > 0 {
		// the binder's pod controller reacts to deleted pods by syncing their GPU groups (reservation pods without
		// consumers are removed); stand-in: the reservation service's real Sync()
		r := d.b.Sync()
		s := d.add(&step{Kind: "sync", Note: fmt.Sprintf("binder reacts to %d deleted pods: reservation Sync()", terminated)})
		s.Calls = kinds(r.Calls)
		s.Panic = r.Panic
	}
}

func (d *driver) requestDeleted(br *schedulingv1alpha2.BindRequest, by string) {
	if inc, ok := d.incs[string(br.UID)]; ok && inc.Deleted == 0 {
		inc.Deleted, inc.DeletedBy = max(d.cycle, 1), by
	}
	d.counters["requests_deleted_by_"+by]++
	r := d.b.Deleted(br) // the binder's real delete handler
	s := d.add(&step{Kind: "request-deleted", Key: br.Namespace + "/" + br.Name, UID: string(br.UID), Note: "deleted by " + by + "; binder delete handler ran"})
	s.Calls = kinds(r.Calls)
	if r.Panic != "" {
		s.Panic = r.Panic
	}
}

func kinds(cs []c11.Call) []string {
	out := make([]string, 0, len(cs))
	for _, c := range cs {
		k := c.Kind
		if c.Faulted {
			k += "!"
		}
		out = append(out, k)
	}
	return out
}

func (d *driver) deleteNode(name, why string) {
	if _, err := d.st.Tracker.Get(nodeGVR, "", name); err != nil {
		return
	}
	_ = d.st.Tracker.Delete(nodeGVR, "", name)
	o := d.st.ReadAll()
	n := 0
	for _, p := range o.Pods {
		if p.Spec.NodeName == name { // pod garbage collection of a deleted node
			_ = d.st.Tracker.Delete(podGVR, p.Namespace, p.Name)
			n++
		}
	}
	d.counters["nodes_deleted"]++
	d.add(&step{Kind: "delete-node", Note: fmt.Sprintf("node %s deleted (%s); %d pods bound to it removed", name, why, n)})
	if n > 0 {
		r := d.b.Sync()
		s := d.add(&step{Kind: "sync", Note: fmt.Sprintf("binder reacts to %d deleted pods: reservation Sync()", n)})
		s.Calls = kinds(r.Calls)
		s.Panic = r.Panic
	}
}

func (d *driver) restart(why string) {
	if err := d.b.Restart(); err != nil {
		d.err = err
		return
	}
	d.counters["binder_restarts"]++
	r := d.b.Sync()
	s := d.add(&step{Kind: "restart", Note: "new binder process (" + why + "), start-up Sync()"})
	s.Calls = kinds(r.Calls)
	if r.Panic != "" {
		s.Panic = r.Panic
	}
	// the new process lists every existing request: a create event each
	for _, br := range d.st.ReadAll().BindRequests {
		if inc, ok := d.incs[string(br.UID)]; ok && inc.trigger == "" {
			inc.trigger = "restart"
		}
	}
}

// ---------------------------------------------------------------- one reconcile

func indexOf(calls []c11.Call, kind string) int {
	for i, c := range calls {
		if c.Kind == kind {
			return i + 1
		}
	}
	return 0
}

func isStatusWrite(kind string) bool { return kind == "status-patch" }

// planFor turns the incarnation's fate into the fault plan of its next reconcile. ok=false: do not reconcile now.
func (d *driver) planFor(inc *incarnation, br *schedulingv1alpha2.BindRequest) (pl c11.Plan, note string, ok bool) {
	f := &inc.Fate
	ns, name, _ := strings.Cut(inc.Key, "/")
	dry := func() []c11.Call {
		r, err := d.b.DryRun(ns, name)
		if err != nil {
			d.err = err
			return nil
		}
		d.counters["dry_runs"]++
		return r.Calls
	}
	switch f.Kind {
	case "clean", "binder-not-started":
		return c11.Plan{}, "", true
	case "transient-errors":
		if f.J <= 0 {
			return c11.Plan{}, "", true
		}
		calls := dry()
		if len(calls) < 3 {
			return c11.Plan{}, "", true // nothing left to attempt
		}
		f.J--
		k := 2 + d.rng.IntN(len(calls)-1)
		return c11.Plan{ErrAt: []int{k}}, fmt.Sprintf("transient error at call %d/%d", k, len(calls)), true
	case "persistent-bind-error", "persistent-prebind-error", "persistent-with-restarts":
		calls := dry()
		if f.Target == "" {
			// a call after the pod and node reads and before the binding call, not a status write
			bi := indexOf(calls, "binding-subresource")
			var cand []int
			for i := 3; i < bi-1; i++ {
				if !isStatusWrite(calls[i].Kind) {
					cand = append(cand, i+1)
				}
			}
			if len(cand) == 0 {
				f.Target = "binding-subresource"
			} else {
				f.Target = calls[cand[d.rng.IntN(len(cand))]-1].Kind
			}
		}
		k := indexOf(calls, f.Target)
		if k == 0 {
			k = indexOf(calls, "binding-subresource")
		}
		if k == 0 {
			return c11.Plan{}, "persistent fault: target call does not occur", true
		}
		return c11.Plan{ErrAt: []int{k}}, fmt.Sprintf("persistent error at %s (call %d/%d)", f.Target, k, len(calls)), true
	case "bound-not-updated":
		if f.stage > 0 {
			return c11.Plan{}, "", true
		}
		calls := dry()
		k := indexOf(calls, "status-patch")
		if k == 0 || indexOf(calls, "binding-subresource") == 0 {
			return c11.Plan{}, "", true
		}
		f.stage = 1
		return c11.Plan{CrashAt: k}, fmt.Sprintf("binder dies at the status patch (call %d/%d)", k, len(calls)), true
	case "dies-mid-attempt":
		if f.stage > 0 {
			return c11.Plan{}, "", true
		}
		calls := dry()
		bi := indexOf(calls, "binding-subresource")
		if bi < 3 {
			return c11.Plan{}, "", true
		}
		f.stage = 1
		k := 2 + d.rng.IntN(bi-1) // any call of the attempt up to and including the binding call
		inc.delayedGap = 1        // the scheduler runs before a new binder process looks at the request again
		return c11.Plan{CrashAt: k}, fmt.Sprintf("binder dies at call %d/%d (%s) in the middle of the attempt; a scheduler cycle runs before the new binder retries", k, len(calls), calls[k-1].Kind), true
	case "failed-not-recorded":
		calls := dry()
		k := indexOf(calls, "binding-subresource")
		if k == 0 {
			return c11.Plan{}, "", true
		}
		if f.stage == 0 {
			f.stage = 1
			return c11.Plan{CrashAt: k}, fmt.Sprintf("binder dies at the binding call (call %d/%d): nothing recorded", k, len(calls)), true
		}
		return c11.Plan{ErrAt: []int{k}}, fmt.Sprintf("persistent error at binding-subresource (call %d/%d)", k, len(calls)), true
	case "node-deleted-before-start":
		if f.stage == 0 {
			f.stage = 1
			if d.mayDeleteNode(inc) {
				d.deleteNode(br.Spec.SelectedNode, "selected by "+inc.Key+", binder has not started")
				return c11.Plan{}, "", d.rng.Float64() < 0.5 // the binder may or may not look at the request before the scheduler
			}
		}
		return c11.Plan{}, "", true
	case "node-deleted-after-failure":
		switch f.stage {
		case 0:
			calls := dry()
			k := indexOf(calls, "binding-subresource")
			f.stage = 1
			if k == 0 {
				return c11.Plan{}, "", true
			}
			return c11.Plan{ErrAt: []int{k}}, fmt.Sprintf("error at binding-subresource (call %d/%d)", k, len(calls)), true
		case 1:
			f.stage = 2
			if d.mayDeleteNode(inc) {
				d.deleteNode(br.Spec.SelectedNode, "selected by "+inc.Key+", after a failed attempt")
				return c11.Plan{}, "", d.rng.Float64() < 0.5
			}
		}
		return c11.Plan{}, "", true
	}
	return c11.Plan{}, "", true
}

// mayDeleteNode: a control node only for the control request; at most one generated node per case, never the last one.
func (d *driver) mayDeleteNode(inc *incarnation) bool {
	if inc.Control {
		return inc.UID == d.ctlFirstUID
	}
	if inc.Node == ctlNodeA || inc.Node == ctlNodeB || d.genericNodeDeleted {
		return false
	}
	n := 0
	for _, nd := range d.st.ReadAll().Nodes {
		if nd.Name != ctlNodeA && nd.Name != ctlNodeB {
			n++
		}
	}
	if n < 2 {
		return false
	}
	d.genericNodeDeleted = true
	return true
}

func (d *driver) reconcile(inc *incarnation) {
	br := d.getBR(inc.Key)
	if br == nil || string(br.UID) != inc.UID {
		inc.trigger = ""
		return
	}
	before := viewOf(br)
	if inc.Fate.Restart {
		d.restart("fate of " + inc.Key)
	}
	pl, note, ok := d.planFor(inc, br)
	if d.err != nil {
		return
	}
	if !ok {
		return
	}
	ns, name, _ := strings.Cut(inc.Key, "/")
	podBef := ""
	if p := d.getPod(ns, br.Spec.PodName); p != nil {
		podBef = p.Spec.NodeName
	}
	trig := inc.trigger
	inc.trigger = ""
	res := d.b.Reconcile(ns, name, pl)
	s := d.add(&step{Kind: "reconcile", Key: inc.Key, UID: inc.UID, Fate: inc.Fate.Kind, Trigger: trig, Note: note, BRBefore: before, PodNodeBef: podBef, WasTerm: before.terminal()})
	if len(pl.ErrAt) > 0 || pl.CrashAt > 0 {
		s.Plan = &pl
		s.Injected = true
	}
	if _, err := d.st.Tracker.Get(nodeGVR, "", br.Spec.SelectedNode); err != nil {
		s.NodeGone = true
	}
	s.Calls = kinds(res.Calls)
	r := res
	r.Calls = nil
	s.Result = &r
	crashedFrom := 0
	for i, c := range res.Calls {
		if c.Faulted {
			if pl.CrashAt > 0 && i+1 >= pl.CrashAt {
				if crashedFrom == 0 {
					crashedFrom = i + 1
					s.FaultKinds = append(s.FaultKinds, "crash-from:"+c.Kind)
				}
			} else {
				s.FaultKinds = append(s.FaultKinds, c.Kind)
			}
			if isStatusWrite(c.Kind) {
				s.StatusHit = true
			}
		}
		if c.Kind == "binding-subresource" {
			s.BindCalls++
		}
	}
	if crashedFrom > 0 {
		s.StatusHit = true // a dead process writes nothing
	}
	s.Attempt = len(res.Calls) >= 2 && !res.Calls[0].Faulted && before.Phase != schedulingv1alpha2.BindRequestPhaseSucceeded
	if p := d.getPod(ns, br.Spec.PodName); p != nil {
		s.PodNodeAft = p.Spec.NodeName
	}
	after := d.getBR(inc.Key)
	if after != nil && string(after.UID) == inc.UID {
		s.BRAfter = viewOf(after)
	}
	d.counters["reconciles"]++
	d.counters["reconcile_trigger_"+trig]++
	for _, k := range s.FaultKinds {
		d.counters["fault_at_"+k]++
	}
	if res.Panic != "" {
		s.Panic = res.Panic
	}
	// work queue: the reconcile's own request (RequeueAfter or error) and the update event of its own status write
	switch {
	case crashedFrom > 0:
		d.restart("process died in reconcile of " + inc.Key)
	case res.Requeue > 0 || res.Err != "":
		inc.trigger = "requeue"
		d.counters["requeues_requested"]++
	}
	if inc.trigger == "" && s.BRAfter != nil && (s.BRAfter.RV != before.RV || s.BRAfter.Phase != before.Phase || s.BRAfter.Failed != before.Failed || s.BRAfter.Reason != before.Reason) {
		inc.trigger = "update-event"
	}
}

// gap is everything between two scheduler cycles.
func (d *driver) gap(drain bool) {
	d.kubelet()
	rounds := 1 + d.rng.IntN(3)
	if drain {
		rounds = 4
	}
	if !drain && d.rng.Float64() < 0.12 {
		d.restart("chosen by the schedule")
	}
	for _, uid := range d.incOrder {
		inc := d.incs[uid]
		inc.delayedGap = 0
		if drain {
			inc.Fate = fate{Kind: "clean"}
		}
		if inc.Fate.Delay > 0 && inc.Deleted == 0 {
			inc.Fate.Delay--
			inc.delayedGap = 1
			d.counters["gaps_binder_not_started"]++
		}
	}
	for round := 0; round < rounds && d.err == nil; round++ {
		o := d.st.ReadAll()
		for _, br := range o.BindRequests { // sorted by key
			inc, ok := d.incs[string(br.UID)]
			if !ok || inc.trigger == "" {
				continue
			}
			if inc.delayedGap == 1 {
				continue
			}
			v := viewOf(br)
			if v.terminal() && !drain && d.rng.Float64() < 0.5 {
				continue // the scheduler gets to see the failed request before the queued reconcile runs
			}
			if !drain && inc.trigger == "update-event" && br.Status.Phase == schedulingv1alpha2.BindRequestPhaseSucceeded && d.rng.Float64() < 0.5 {
				continue
			}
			d.reconcile(inc)
			if d.err != nil {
				return
			}
		}
	}
}

// ---------------------------------------------------------------- the run

func (d *driver) runCycle() *step {
	d.cycle++
	before := d.st.ReadAll()
	d.befores[d.cycle] = before
	d.register(before, d.cycle-1)
	d.watch = map[string]bool{}
	for _, br := range before.BindRequests {
		d.watch[br.Namespace+"/"+br.Spec.PodName] = true
	}
	d.watch[ctlNS+"/"+ctlPod] = true
	cr := d.run.Cycle()
	if cr.NotSynced {
		d.notSynced++
	}
	after := d.st.ReadAll()
	s := d.add(&step{Kind: "cycle", Before: views(before), After: views(after), Events: cr.Events, SnapPods: d.snapPods, SnapNodes: d.snapNodes, OpenErr: cr.OpenErr, Panic: cr.Panic})
	d.counters["cycles"]++
	d.counters["events"] += len(cr.Events)
	// requests the scheduler deleted in this cycle: the binder gets the delete event
	alive := map[string]bool{}
	for _, br := range after.BindRequests {
		alive[string(br.UID)] = true
	}
	for _, br := range before.BindRequests {
		if !alive[string(br.UID)] {
			d.requestDeleted(br, "scheduler")
		}
	}
	d.register(after, d.cycle)
	return s
}

func (d *driver) runAll() error {
	d.register(d.st.ReadAll(), 0)
	if r := d.b.Sync(); r.Panic != "" {
		d.add(&step{Kind: "sync", Panic: r.Panic})
	}
	for i := 0; i < d.pl.Cycles && d.err == nil; i++ {
		s := d.runCycle()
		if s.Panic != "" {
			return nil
		}
		d.gap(false)
	}
	// drain: all faults are gone, the binder works off its queue, the scheduler runs twice more
	for i := 0; i < 2 && d.err == nil; i++ {
		d.gap(true)
		if s := d.runCycle(); s.Panic != "" {
			return nil
		}
	}
	d.gap(true)
	d.cycle++
	d.befores[d.cycle] = d.st.ReadAll() // final state
	return d.err
}
