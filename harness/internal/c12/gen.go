package c12

import (
	"crypto/sha256"
	"encoding/hex"
	"encoding/json"
	"fmt"
	"time"

	v1 "k8s.io/api/core/v1"
	"k8s.io/apimachinery/pkg/api/resource"
	metav1 "k8s.io/apimachinery/pkg/apis/meta/v1"
	"k8s.io/apimachinery/pkg/types"

	admplugins "github.com/NVIDIA/KAI-scheduler/pkg/admission/plugins"
	admgpu "github.com/NVIDIA/KAI-scheduler/pkg/admission/webhook/v1alpha2/gpusharing"
	schedulingv1alpha2 "github.com/NVIDIA/KAI-scheduler/pkg/apis/scheduling/v1alpha2"
	enginev2 "github.com/NVIDIA/KAI-scheduler/pkg/apis/scheduling/v2"
	enginev2alpha2 "github.com/NVIDIA/KAI-scheduler/pkg/apis/scheduling/v2alpha2"

	"verif/harness/internal/gen"
	"verif/harness/internal/k8sm"
	"verif/harness/internal/spec"
)

const (
	ctlNS      = "ns"
	ctlPod     = "ctl-0"
	ctlNodeA   = "ctl-a"
	ctlNodeB   = "ctl-b"
	ctlQueue   = "ctl-queue"
	ctlLabel   = "verif/ctl"
	cmAnnot    = "runai/shared-gpu-configmap"
	allActions = "allocate, consolidation, reclaim, preempt, stalegangeviction"
)

// control scenarios (enumerated by case index)
var scenarios = []string{
	"persistent-bind-error",      // every attempt of the first request fails at the pods/binding call
	"persistent-prebind-error",   // every attempt of the first request fails at a call before the binding call
	"transient-errors",           // j attempts of the first request fail at a PRNG-chosen call, then the fault is gone
	"node-deleted-before-start",  // the selected node is deleted before the binder touches the request
	"node-deleted-after-failure", // one failed attempt, then the selected node is deleted
	"bound-not-updated",          // the bind succeeds, the binder dies at the status patch, a new binder starts
	"binder-not-started",         // the binder does not touch the request for 3 cycles
	"persistent-with-restarts",   // persistent binding error and a binder restart before every attempt
	"failed-not-recorded",        // an attempt fails and its status patch fails too (once), then persistent binding error
}

var backoffs = []int{-1, 0, 1, 2, 3, 5} // -1 = spec.backoffLimit not set (what the scheduler creates today)
var ctlShapes = []string{"cpu", "whole", "fraction"}

// Plan is everything that was drawn for a case besides the cluster.
type Plan struct {
	Scenario   string `json:"controlScenario"`
	CtlBackoff int    `json:"controlBackoffLimit"` // -1 = nil
	CtlShape   string `json:"controlPodShape"`
	TransientJ int    `json:"transientFailures,omitempty"`
	// BackoffPolicy for the other requests the scheduler creates: "nil" (as created), "fixed:<n>" or "mixed"
	BackoffPolicy string `json:"backoffPolicyOtherRequests"`
	Cycles        int    `json:"cycles"`
	Cdi           bool   `json:"cdi,omitempty"`
}

var admission = func() *admplugins.KaiAdmissionPlugins {
	a := admplugins.New()
	a.RegisterPlugin(admgpu.New(nil, true)) // cmd/admission registerPlugins, GPU sharing enabled
	return a
}()

func knobs() gen.Knobs {
	k := gen.Base()
	k.NodesMin, k.NodesMax = 1, 3
	k.GPUChoices = []int{1, 2, 2, 4}
	k.PGpuMemLabel = 0.8
	k.PMigNode, k.PExtRes = 0, 0
	k.PSmallPods = 0.2
	k.PTaint, k.PNotReady, k.PUnschedulable = 0, 0, 0
	k.WorkloadsMin, k.WorkloadsMax = 3, 9
	k.GangMax, k.PGang, k.PSubGroups, k.PElastic = 3, 0.25, 0, 0.3
	k.KindWeights = map[string]int{"cpu": 2, "whole": 4, "fraction": 4, "gpumem": 2, "multifrac": 1}
	k.PNodeSelector, k.PNodeAffinity, k.PToleration, k.PAntiAffinity, k.PAffinity, k.PTopology = 0.05, 0, 0, 0, 0, 0
	k.Fill, k.PTerminating, k.PBinding, k.PBoundPending = 0.35, 0.1, 0.25, 0.05
	k.ActionsChoices = []string{"allocate", "allocate", "allocate", allActions}
	k.PFaults = 0
	k.PNodePool = 0
	k.PForeignPod = 0
	k.PMinRuntime = 0
	k.PDRA = 0.25 // DRA (gen/dra.go): claims handed over through BindRequest.Spec.ResourceClaimAllocations
	return k
}

func mq(n int64) resource.Quantity { return *resource.NewMilliQuantity(n, resource.DecimalSI) }
func qq(n int64) resource.Quantity { return *resource.NewQuantity(n, resource.DecimalSI) }

// genCase draws the cluster (internal/gen with this package's knobs), applies the admission webhook's mutation to
// every not yet bound GPU-sharing pod (the real binder needs the env vars / volume / config map name it writes),
// adds the control workload and draws the plan.
func genCase(seed int64, index int, tier string) (*spec.Case, *Plan, error) {
	c := gen.GenerateWith(knobs(), "handoff", seed, index, tier)
	c.Property = "C12"
	c.Faults = spec.Faults{}
	r := gen.NewRand(seed, index, 12)

	pl := &Plan{}
	// systematic part: scenario x backoff x shape cycle through the index
	pl.Scenario = scenarios[index%len(scenarios)]
	pl.CtlBackoff = backoffs[(index/len(scenarios))%len(backoffs)]
	pl.CtlShape = ctlShapes[(index/(len(scenarios)*len(backoffs)))%len(ctlShapes)]
	pl.TransientJ = 1 + r.IntN(3)
	switch r.IntN(4) {
	case 0:
		pl.BackoffPolicy = "nil"
	case 1:
		pl.BackoffPolicy = fmt.Sprintf("fixed:%d", []int{0, 1, 2, 3}[r.IntN(4)])
	default:
		pl.BackoffPolicy = "mixed"
	}
	pl.Cycles = 7 + r.IntN(3)
	if pl.CtlBackoff >= 3 {
		pl.Cycles += 2
	}
	pl.Cdi = r.Float64() < 0.2
	c.Cycles = pl.Cycles
	if (index/7)%4 == 0 {
		// the default node pool of a sharded deployment: the label key is configured, the value is empty (objects
		// without the label belong to this scheduler; what it creates must not fall out of its own selector)
		c.Config.NodePoolKey, c.Config.NodePoolValue = "kai.scheduler/node-pool", ""
	}

	// a pod the admission webhook rejects never reaches the scheduler: it is dropped together with its request
	var kept []*v1.Pod
	rejected := map[string]bool{}
	for _, p := range c.Objects.Pods {
		if p.Spec.NodeName == "" && p.Namespace != spec.ReservationNS {
			if err := admit(p); err != nil {
				rejected[p.Namespace+"/"+p.Name] = true
				continue
			}
		}
		kept = append(kept, p)
	}
	c.Objects.Pods = kept
	var keptBR []*schedulingv1alpha2.BindRequest
	for _, br := range c.Objects.BindRequests {
		if !rejected[br.Namespace+"/"+br.Spec.PodName] {
			keptBR = append(keptBR, br)
		}
	}
	c.Objects.BindRequests = keptBR
	c.Meta["rejectedByAdmission"] = len(rejected)
	if err := addControl(c, pl); err != nil {
		return nil, nil, err
	}
	return c, pl, nil
}

func admit(p *v1.Pod) error {
	if !k8sm.GPURequest(p).Shared() {
		return nil
	}
	if p.Annotations == nil {
		p.Annotations = map[string]string{}
	}
	p.Annotations[cmAnnot] = p.Name + "-vrfcm00-shared-gpu" // the webhook draws 7 random characters here
	if err := admission.Mutate(p); err != nil {
		return fmt.Errorf("harness: admission Mutate %s: %w", p.Name, err)
	}
	if err := admission.Validate(p); err != nil {
		// a request the admission webhook rejects never reaches the scheduler
		return fmt.Errorf("harness: admission Validate %s: %w", p.Name, err)
	}
	return nil
}

// addControl adds the control workload: its own queue, two dedicated tainted GPU nodes nothing else tolerates, and one
// pod. Capacity for the control pod certainly exists on either node at any time.
func addControl(c *spec.Case, pl *Plan) error {
	now := time.Now().Truncate(time.Second)
	unl := enginev2.QueueResource{Quota: -1, Limit: -1, OverQuotaWeight: 1}
	for _, q := range []struct{ n, p string }{{"ctl-dept", ""}, {ctlQueue, "ctl-dept"}} {
		c.Objects.Queues = append(c.Objects.Queues, &enginev2.Queue{ObjectMeta: metav1.ObjectMeta{Name: q.n, UID: types.UID("queue-" + q.n), CreationTimestamp: metav1.NewTime(now.Add(-2000 * time.Hour))},
			Spec: enginev2.QueueSpec{ParentQueue: q.p, Resources: &enginev2.QueueResources{GPU: unl, CPU: unl, Memory: unl}}})
	}
	for _, name := range []string{ctlNodeA, ctlNodeB} {
		alloc := v1.ResourceList{v1.ResourceCPU: mq(64000), v1.ResourceMemory: qq(512 << 30), v1.ResourcePods: qq(110), "nvidia.com/gpu": qq(4)}
		c.Objects.Nodes = append(c.Objects.Nodes, &v1.Node{ObjectMeta: metav1.ObjectMeta{Name: name, UID: types.UID("node-" + name),
			Labels: map[string]string{"kubernetes.io/hostname": name, ctlLabel: "true", "nvidia.com/gpu.count": "4", "nvidia.com/gpu.memory": "40000"}},
			Spec:   v1.NodeSpec{Taints: []v1.Taint{{Key: ctlLabel, Value: "true", Effect: v1.TaintEffectNoSchedule}}},
			Status: v1.NodeStatus{Allocatable: alloc, Capacity: alloc.DeepCopy(), Conditions: []v1.NodeCondition{{Type: v1.NodeReady, Status: v1.ConditionTrue}}}})
	}
	c.Objects.PodGroups = append(c.Objects.PodGroups, &enginev2alpha2.PodGroup{ObjectMeta: metav1.ObjectMeta{Name: "pg-ctl", Namespace: ctlNS, UID: "pgu-ctl",
		CreationTimestamp: metav1.NewTime(now.Add(-time.Hour)), Annotations: map[string]string{spec.ControlAnno: "true"}},
		Spec: enginev2alpha2.PodGroupSpec{MinMember: 1, Queue: ctlQueue, PriorityClassName: "p-train"}})
	req := v1.ResourceList{v1.ResourceCPU: mq(100), v1.ResourceMemory: qq(64 << 20)}
	lim := v1.ResourceList{}
	ann := map[string]string{"pod-group-name": "pg-ctl", spec.ControlAnno: "true"}
	switch pl.CtlShape {
	case "whole":
		req["nvidia.com/gpu"] = qq(1)
		lim["nvidia.com/gpu"] = qq(1)
	case "fraction":
		ann["gpu-fraction"] = "0.5"
	}
	p := &v1.Pod{ObjectMeta: metav1.ObjectMeta{Name: ctlPod, Namespace: ctlNS, UID: "uid-ctl-0", Annotations: ann, Labels: map[string]string{},
		CreationTimestamp: metav1.NewTime(now.Add(-time.Hour))},
		Spec: v1.PodSpec{SchedulerName: spec.SchedulerName, NodeSelector: map[string]string{ctlLabel: "true"},
			Tolerations: []v1.Toleration{{Key: ctlLabel, Operator: v1.TolerationOpExists}},
			Containers:  []v1.Container{{Name: "main", Image: "img", Resources: v1.ResourceRequirements{Requests: req, Limits: lim}}}},
		Status: v1.PodStatus{Phase: v1.PodPending}}
	if err := admit(p); err != nil {
		return err
	}
	c.Objects.Pods = append(c.Objects.Pods, p)
	return nil
}

func hashCase(c *spec.Case, pl *Plan) string {
	b, _ := json.Marshal(struct {
		O spec.Objects
		C spec.SchedConfig
		P *Plan
	}{c.Objects, c.Config, pl})
	h := sha256.Sum256(b)
	return hex.EncodeToString(h[:8])
}
