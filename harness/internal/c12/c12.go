// Package c12 is the check of property C12: the BindRequest hand-off between scheduler and binder conserves resources
// and terminates.
//
// One in-memory API store; the REAL scheduler (cache.New + OpenSession + actions + CloseSession per cycle, package
// sched) and the REAL binder (BindRequestReconciler + binding.Binder + resource reservation service + plugins, wired
// as cmd/binder does, package c11) both work on it. Between two scheduler cycles the harness plays the binder's work
// queue: for every BindRequest that has a queue entry (create event, update event, requeue asked for by the last
// reconcile, restart of the binder) a PRNG-chosen schedule decides whether the real Reconcile runs now and under which
// fault plan. Everything is recorded; the oracles are functions of the recorded history.
package c12

import (
	"fmt"
	"time"

	"verif/harness/internal/run"
)

type check struct{}

func New() run.Check { return check{} }

func (check) ID() string    { return "C12" }
func (check) Level() string { return "exploration" }
func (check) NumCases(tier string) int {
	if tier == "thorough" {
		return 3240 // 20 x (9 scenarios x 6 backoff limits x 3 control shapes)
	}
	return 324 // 2 x (9 x 6 x 3)
}
func (check) CaseTimeout() time.Duration { return 3 * time.Minute }
func (check) CrashIsViolation() bool     { return true }

func (check) Rule() string {
	return "case i: cluster drawn by internal/gen (GenerateWith, knobs of this package: 1-3 GPU nodes, 3-9 workloads of cpu / whole-GPU / gpu-fraction / gpu-memory / multi-fraction pods, 35% pre-placed incl. pods that already have a pending BindRequest, " +
		"actions 'allocate' (75%) or all five) from stream (seed,i,1); every not yet bound GPU-sharing pod is passed through the real admission plugin; plus a control workload (own queue, two dedicated tainted 4-GPU nodes, one pod: cpu / whole GPU / 0.5 fraction). " +
		"Systematic part: control scenario = i mod 9 of {persistent-bind-error, persistent-prebind-error, transient-errors(1-3), node-deleted-before-start, node-deleted-after-failure, bound-not-updated, binder-not-started(3 gaps), persistent-with-restarts, failed-not-recorded}, " +
		"control backoffLimit = (i/9) mod 6 of {nil,0,1,2,3,5}, control shape = (i/54) mod 3. backoffLimit of the other requests the scheduler creates: nil / fixed 0-3 / mixed (set by a defaulting stand-in at create time, the scheduler itself never sets it). " +
		"Every other request incarnation draws a fate from stream (seed,i,121): clean 30%, binder-not-started 1-3 gaps 12%, transient 1-3 errors at a PRNG-chosen client call 16%, persistent error at the pods/binding call 14%, persistent error at a call before it 8%, " +
		"bound-not-updated (binder dies at the status patch) 8%, failed-not-recorded (binder dies at the binding call) 4%, node deleted before start 4% / after one failure 4%; 30% of the persistent ones restart the binder before every attempt. " +
		"History: 7-11 x [real scheduler cycle; kubelet step; 1-3 rounds in which each queued request is reconciled by the real binder under its fate (fault index found by a fault-free dry run on a copy of the store); 12% binder restart], then drain: faults removed, 2 x [4 rounds; cycle], 4 rounds. " +
		"Non-trivial: the scheduler created >= 1 BindRequest, >= 1 cycle ran while a request was live (not started / failed k times / bound but not updated), and >= 1 bind attempt failed or a selected node was deleted. Distinct = hash of (objects, config, plan)."
}

func (check) Assumptions() []string {
	return []string{
		"scheduler and binder steps are atomic with respect to each other (a reconcile never overlaps a cycle); the progress states of the quantifier are the states between reconciles, plus 'binder dies at the status patch / at the binding call'",
		"the scheduler never sets spec.backoffLimit (createBindRequest); the harness sets it at create time like a defaulting webhook would, from {nil,0,1,2,3,4,5}",
		"work-queue model: a request is reconciled only when it has a queue entry - create event, update event (any write to the request, including the binder's own status patch), RequeueAfter>0 or an error returned by the last reconcile, or a binder restart (initial list); RequeueAfter is recorded, never slept on",
		"terminally failed = phase Failed and (backoffLimit nil or failedAttempts >= backoffLimit), the rule of BindRequestInfo.IsFailed restated on the stored object",
		"clean-up bound: cleanStaleBindRequest runs synchronously inside Cache.Snapshot and every cycle of the harness starts with freshly synced informers, so a request that is stale in the store when a cycle starts must be gone when that cycle ends (1 cycle); with informer lag a production scheduler may need one more",
		"retry bound demanded: attempts begun while the stored request is not terminally failed <= backoffLimit+1 (nil: 1), plus one for every attempt whose status write was made to fail by the harness; attempts the binder makes on an already terminally failed request (its own update event re-queues it) are only counted (attempts_on_terminally_failed_request)",
		"persisted count demanded: after a failed attempt whose status write was not faulted, stored failedAttempts = previous+1 while below backoffLimit (the code caps it at the limit), never decreasing; not judged for backoffLimit nil",
		"status-write faults are only transient (a binder that can never write status cannot make anything observable)",
		"injected faults are 500 errors that are NOT applied; API server pods/binding, kubelet index of reservation pods and initial watch events are emulated as in C11",
		"node deletion = node object removed + pods bound to it removed (pod GC); the unbound pod of the request stays",
		"conservation oracle = internal/oracle CheckC01 + CheckC02 on (store before the cycle, events of the cycle), which count live requests as occupying; a report on a node without a pod in hand-off is signed conservation-outside-handoff",
		"snapshot idle check only for cpu, memory and whole-GPU count of nodes hosting a pod in hand-off",
		"DRA: 25% of the clusters carry resource.k8s.io objects (internal/gen/dra.go: one non-GPU device class, node-local slices of 1-4 devices, claims of 1-2 devices, own / template / gang-shared); scheduler and binder run with the DynamicResourceAllocation gate on for them; the conservation oracle adds the claimed-device-conservation clause, the snapshot oracle demands for a binding pod the claim allocations of its request and their devices in the scheduler's allocated-device set; a stand-in for the resource claim controller removes consumers that are gone and deallocates unreserved claims in the kubelet step",
		"control reschedule: judged in the cleaning cycle and the next one; the control nodes are tainted and only the control pod tolerates them; only the first control request may lose its node",
	}
}

func (check) RunCase(seed int64, index int, tier string, env *run.Env) run.CaseResult {
	res := run.CaseResult{Verdict: run.Held}
	c, pl, err := genCase(seed, index, tier)
	if err != nil {
		res.Verdict, res.Note = run.Inconclusive, err.Error()
		return res
	}
	res.Hash = hashCase(c, pl)
	_ = c.Save(fmt.Sprintf("%s/case-C12-%d.json", env.WorkDir, index))
	d, err := newDriver(c, pl)
	if err != nil {
		res.Verdict, res.Note = run.Inconclusive, err.Error()
		return res
	}
	defer d.b.Close()
	// half of the cases keep ONE scheduler cache for the whole history (cross-cycle in-memory state of the scheduler
	// process is then part of what is observed); the other half gets a fresh cache per cycle
	d.run.Persistent = index%2 == 1
	defer d.run.Close()
	if d.run.Persistent {
		d.counters["cases_with_persistent_scheduler_cache"]++
	}
	runErr := d.runAll()
	if d.notSynced > 0 && runErr == nil {
		runErr = fmt.Errorf("scheduler cache listers did not reach the store content before %d cycle(s)", d.notSynced)
	}
	j := &judge{d: d, seen: map[string]bool{}, count: d.counters}
	j.run()
	cn := d.counters
	cn["scenario_"+pl.Scenario]++
	cn["control_backoff_"+limName(pl.CtlBackoff)]++
	cn["control_shape_"+pl.CtlShape]++
	res.Counters = cn
	res.NonTrivial = cn["requests_created_by_scheduler"] >= 1 && cn["cycles_with_live_request"] >= 1 && (cn["failed_attempts"] >= 1 || cn["nodes_deleted"] >= 1)
	res.Sample = map[string]any{"seed": seed, "index": index, "plan": pl, "nodes": len(c.Objects.Nodes), "pods": len(c.Objects.Pods), "podGroups": len(c.Objects.PodGroups),
		"preexistingRequests": len(c.Objects.BindRequests), "actions": c.Config.Actions, "steps": len(d.hist), "requests": cn["requests_observed"], "reconciles": cn["reconciles"]}
	if runErr != nil {
		res.Verdict, res.Note = run.Inconclusive, "harness: "+runErr.Error()
	}
	if len(j.viol) > 0 {
		res.Verdict = run.Violated
		res.Violations = j.viol
		var incs []*incarnation
		for _, uid := range d.incOrder {
			incs = append(incs, d.incs[uid])
		}
		res.Replay = env.SaveReplay("C12", seed, index, map[string]any{"property": "C12", "seed": seed, "index": index, "tier": tier,
			"plan": pl, "case": c, "requests": incs, "history": d.hist, "violations": j.viol, "counters": cn})
	}
	return res
}

func limName(n int) string {
	if n < 0 {
		return "nil"
	}
	return fmt.Sprint(n)
}
