// Package sched runs real scheduler cycles (cache.New -> OpenSession -> actions -> CloseSession)
// over a store.Store and records every Bind / Evict / TaskPipelined call at the Cache boundary.
package sched

import (
	"fmt"
	apiequality "k8s.io/apimachinery/pkg/api/equality"
	metav1 "k8s.io/apimachinery/pkg/apis/meta/v1"
	"k8s.io/apimachinery/pkg/runtime/schema"
	"math/rand/v2"
	"net/http"
	"os"
	"runtime/debug"
	"sort"
	"strconv"
	"strings"
	"sync"
	"time"

	v1 "k8s.io/api/core/v1"
	resourceapi "k8s.io/api/resource/v1"
	"k8s.io/apimachinery/pkg/runtime"
	k8stesting "k8s.io/client-go/testing"

	commonresources "github.com/NVIDIA/KAI-scheduler/pkg/common/resources"
	"github.com/NVIDIA/KAI-scheduler/pkg/scheduler/actions"
	"github.com/NVIDIA/KAI-scheduler/pkg/scheduler/api"
	"github.com/NVIDIA/KAI-scheduler/pkg/scheduler/api/eviction_info"
	"github.com/NVIDIA/KAI-scheduler/pkg/scheduler/api/pod_info"
	"github.com/NVIDIA/KAI-scheduler/pkg/scheduler/api/podgroup_info"
	"github.com/NVIDIA/KAI-scheduler/pkg/scheduler/cache"
	"github.com/NVIDIA/KAI-scheduler/pkg/scheduler/conf"
	"github.com/NVIDIA/KAI-scheduler/pkg/scheduler/conf_util"
	"github.com/NVIDIA/KAI-scheduler/pkg/scheduler/framework"
	kailog "github.com/NVIDIA/KAI-scheduler/pkg/scheduler/log"
	"github.com/NVIDIA/KAI-scheduler/pkg/scheduler/plugins"

	"verif/harness/internal/spec"
	"verif/harness/internal/store"
)

// Event is one call at the Cache boundary.
type Event struct {
	Cycle  int    `json:"cycle"`
	Action string `json:"action"`
	Seq    int    `json:"seq"`
	Kind   string `json:"kind"` // bind | evict | pipeline
	NS     string `json:"ns"`
	Pod    string `json:"pod"`
	UID    string `json:"uid"`
	Group  string `json:"group"` // pod group name
	Sub    string `json:"sub,omitempty"`
	Node   string `json:"node,omitempty"`

	GPUGroups    []string `json:"gpuGroups,omitempty"`
	ReceivedType string   `json:"receivedType,omitempty"`
	AccGPUs      float64  `json:"accGpus,omitempty"`     // AcceptedResource: whole GPUs or fraction
	AccGPUMem    int64    `json:"accGpuMem,omitempty"`   // AcceptedResource: GPU memory
	AccDevices   int64    `json:"accDevices,omitempty"`  // number of devices
	PrevStatus   string   `json:"prevStatus,omitempty"`  // status string of the PodInfo at the call
	EvictAction  string   `json:"evictAction,omitempty"` // EvictionMetadata.Action
	Preemptor    string   `json:"preemptor,omitempty"`   // ns/name of the preemptor pod group
	GangSize     int      `json:"gangSize,omitempty"`    // EvictionMetadata.EvictionGangSize
	Err          string   `json:"err,omitempty"`         // error returned to the scheduler ("" = success)
	Injected     bool     `json:"injected,omitempty"`    // the error was injected by the harness
	Stmt         int64    `json:"stmt,omitempty"`        // statement commit id (0 = outside a commit)
	Message      string   `json:"message,omitempty"`
	// Claims: the ResourceClaim allocations the call carries (PodInfo.ResourceClaimInfo, which Cache.Bind copies into
	// BindRequest.Spec.ResourceClaimAllocations), one entry per pod.spec.resourceClaims reference
	Claims []ClaimAlloc `json:"claims,omitempty"`
}

// ClaimAlloc is one ResourceClaim allocation carried by a Bind / TaskPipelined call.
type ClaimAlloc struct {
	PodClaim string   `json:"podClaim"`          // pod.spec.resourceClaims[].name
	Claim    string   `json:"claim,omitempty"`   // name of the ResourceClaim object ("" = not resolvable)
	Devices  []string `json:"devices,omitempty"` // driver/pool/device, sorted; empty = no allocation
}

// DeviceIDs returns the sorted driver/pool/device ids of an allocation result.
func DeviceIDs(a *resourceapi.AllocationResult) []string {
	if a == nil {
		return nil
	}
	var out []string
	for _, d := range a.Devices.Results {
		out = append(out, d.Driver+"/"+d.Pool+"/"+d.Device)
	}
	sort.Strings(out)
	return out
}

func claimAllocs(t *pod_info.PodInfo) []ClaimAlloc {
	if t.Pod == nil || len(t.Pod.Spec.ResourceClaims) == 0 {
		return nil
	}
	var out []ClaimAlloc
	for i := range t.Pod.Spec.ResourceClaims {
		pc := &t.Pod.Spec.ResourceClaims[i]
		ca := ClaimAlloc{PodClaim: pc.Name}
		if n, err := commonresources.GetResourceClaimName(t.Pod, pc); err == nil {
			ca.Claim = n
		}
		if info, ok := t.ResourceClaimInfo[pc.Name]; ok && info != nil {
			ca.Devices = DeviceIDs(info.Allocation)
		}
		out = append(out, ca)
	}
	return out
}

func (e *Event) Key() string { return e.NS + "/" + e.Pod }

// RecCache wraps the real cache and records calls.
type RecCache struct {
	cache.Cache
	mu        sync.Mutex
	Cycle     int
	CurAction string
	Events    []Event
	rng       *rand.Rand
	faults    spec.Faults
	// CurStmt is set by the statement hook (if enabled) around Commit.
	CurStmt int64
	// OnEvent, if set, is called synchronously for every recorded event (online monitors).
	OnEvent func(*Event)
}

func (r *RecCache) add(e Event) *Event {
	r.mu.Lock()
	defer r.mu.Unlock()
	e.Cycle = r.Cycle
	e.Action = r.CurAction
	e.Seq = len(r.Events)
	e.Stmt = r.CurStmt
	r.Events = append(r.Events, e)
	return &r.Events[len(r.Events)-1]
}

func podEvent(kind string, t *pod_info.PodInfo) Event {
	e := Event{Kind: kind, NS: t.Namespace, Pod: t.Name, UID: string(t.UID), Group: string(t.Job), Sub: t.SubGroupName,
		Node: t.NodeName, GPUGroups: append([]string(nil), t.GPUGroups...), ReceivedType: string(t.ResourceReceivedType),
		PrevStatus: t.Status.String()}
	e.Claims = claimAllocs(t)
	if t.AcceptedResource != nil {
		e.AccGPUs = t.AcceptedResource.GPUs()
		e.AccGPUMem = t.AcceptedResource.GpuMemory()
		e.AccDevices = t.AcceptedResource.GetNumOfGpuDevices()
	}
	return e
}

func (r *RecCache) Bind(t *pod_info.PodInfo, hostname string, ann map[string]string) error {
	e := podEvent("bind", t)
	e.Node = hostname
	err := r.Cache.Bind(t, hostname, ann)
	if err != nil {
		e.Err = err.Error()
		if strings.Contains(e.Err, InjectedMarker) {
			e.Injected = true
		}
	}
	ev := r.add(e)
	if r.OnEvent != nil {
		r.OnEvent(ev)
	}
	return err
}

func (r *RecCache) Evict(p *v1.Pod, job *podgroup_info.PodGroupInfo, md eviction_info.EvictionMetadata, message string) error {
	e := Event{Kind: "evict", NS: p.Namespace, Pod: p.Name, UID: string(p.UID), Node: p.Spec.NodeName, Message: message,
		EvictAction: md.Action, GangSize: md.EvictionGangSize}
	if job != nil {
		e.Group = job.Name
	}
	if md.Preemptor != nil {
		e.Preemptor = md.Preemptor.Namespace + "/" + md.Preemptor.Name
	}
	var err error
	if r.faults.PEvictCallFails > 0 && r.rng.Float64() < r.faults.PEvictCallFails {
		err = fmt.Errorf("%s: evict call failed", InjectedMarker)
		e.Injected = true
	} else {
		err = r.Cache.Evict(p, job, md, message)
	}
	if err != nil {
		e.Err = err.Error()
	}
	ev := r.add(e)
	if r.OnEvent != nil {
		r.OnEvent(ev)
	}
	return err
}

func (r *RecCache) TaskPipelined(t *pod_info.PodInfo, message string) {
	e := podEvent("pipeline", t)
	e.Message = message
	r.Cache.TaskPipelined(t, message)
	ev := r.add(e)
	if r.OnEvent != nil {
		r.OnEvent(ev)
	}
}

// InjectedMarker prefixes every injected error message.
const InjectedMarker = "verif-injected"

var initOnce sync.Once

// CurrentProportion holds the proportion plugin instance of the currently open session (captured
// by wrapping the plugin builder); nil outside sessions.
var CurrentProportion framework.Plugin

// ExtraPluginBuilders are appended (in order) as the last plugins of the last tier.
type ExtraPlugin struct {
	Name string
	Args map[string]string
}

// StmtObserver, if set, receives the statement lifecycle callbacks of the framework hook (after this package
// stamped the commit id on the recording cache).
var StmtObserver func(ssn *framework.Session, s *framework.Statement, phase string, checkpoint int)

var (
	curRC     *RecCache
	stmtCount int64
)

func onStatement(ssn *framework.Session, s *framework.Statement, phase string, cp int) {
	if rc := curRC; rc != nil {
		switch phase {
		case "commit-begin":
			stmtCount++
			rc.CurStmt = stmtCount
		case "commit-end":
			rc.CurStmt = 0
		}
	}
	if StmtObserver != nil {
		StmtObserver(ssn, s, phase, cp)
	}
}

// Init registers actions and plugins once and wraps the proportion builder.
func Init() {
	initOnce.Do(func() {
		framework.VerifStatementObserver = onStatement
		if v := os.Getenv("VERIF_LOG"); v != "" {
			if n, err := strconv.Atoi(v); err == nil {
				_ = kailog.InitLoggers(n)
			}
		}
		actions.InitDefaultActions()
		plugins.InitDefaultPlugins()
		if pb, ok := framework.GetPluginBuilder("proportion"); ok {
			framework.RegisterPluginBuilder("proportion", func(a framework.PluginArguments) framework.Plugin {
				p := pb(a)
				CurrentProportion = p
				return p
			})
		}
	})
}

// BuildConf builds the scheduler configuration for a case.
func BuildConf(c *spec.SchedConfig, extra []ExtraPlugin) (*conf.SchedulerConfiguration, *conf.SchedulerParams, error) {
	Init()
	cfg, err := conf_util.GetDefaultSchedulerConf()
	if err != nil {
		return nil, nil, err
	}
	if c.Actions != "" {
		cfg.Actions = c.Actions
	}
	for ti := range cfg.Tiers {
		for pi := range cfg.Tiers[ti].Plugins {
			p := &cfg.Tiers[ti].Plugins[pi]
			if args, ok := c.PluginArgs[p.Name]; ok {
				if p.Arguments == nil {
					p.Arguments = map[string]string{}
				}
				for k, v := range args {
					p.Arguments[k] = v
				}
			}
		}
	}
	// gpupack / gpuspread follow nodeplacement's gpu argument like the operator does
	if v := c.PluginArgs["nodeplacement"]["gpu"]; v == "spread" {
		for ti := range cfg.Tiers {
			for pi := range cfg.Tiers[ti].Plugins {
				if cfg.Tiers[ti].Plugins[pi].Name == "gpupack" {
					cfg.Tiers[ti].Plugins[pi].Name = "gpuspread"
				}
			}
		}
	}
	last := len(cfg.Tiers) - 1
	for _, e := range extra {
		cfg.Tiers[last].Plugins = append(cfg.Tiers[last].Plugins, conf.PluginOption{Name: e.Name, Arguments: e.Args})
	}
	if len(c.QueueDepth) > 0 {
		cfg.QueueDepthPerAction = c.QueueDepth
	}
	if _, err := conf_util.GetActionsFromConfig(cfg); err != nil {
		return nil, nil, err
	}
	params := &conf.SchedulerParams{
		SchedulerName:                     spec.SchedulerName,
		PartitionParams:                   &conf.SchedulingNodePoolParams{NodePoolLabelKey: c.NodePoolKey, NodePoolLabelValue: c.NodePoolValue},
		MaxNumberConsolidationPreemptees:  c.MaxNumberConsolidationPreemptees,
		UseSchedulingSignatures:           c.UseSchedulingSignatures,
		FullHierarchyFairness:             c.FullHierarchyFairness,
		AllowConsolidatingReclaim:         c.AllowConsolidatingReclaim,
		RestrictSchedulingNodes:           c.RestrictNodeScheduling,
		DetailedFitErrors:                 c.DetailedFitErrors,
		NumOfStatusRecordingWorkers:       2,
		GlobalDefaultStalenessGracePeriod: 60 * time.Second,
	}
	return cfg, params, nil
}

// CycleResult is what one cycle produced.
type CycleResult struct {
	Cycle    int           `json:"cycle"`
	Events   []Event       `json:"events"`
	Panic    string        `json:"panic,omitempty"`
	OpenErr  string        `json:"openErr,omitempty"`
	Dur      time.Duration `json:"dur"`
	NotQuiet bool
	// NotSynced: persistent mode only - the cache's listers did not reach the store content within 5 s
	NotSynced bool `json:"notQuiet,omitempty"`
}

// Hooks lets callers observe a cycle from inside.
type Hooks struct {
	AfterOpen    func(ssn *framework.Session, rc *RecCache)
	BeforeAction func(ssn *framework.Session, name string)
	AfterAction  func(ssn *framework.Session, name string)
	BeforeClose  func(ssn *framework.Session)
	// Snapshot, if set, receives the ClusterInfo the session was opened on.
	Extra []ExtraPlugin
	// WrapCache lets a caller wrap the recording cache further.
	OnEvent func(*Event)
}

// Runner runs cycles of one case.
type Runner struct {
	St     *store.Store
	Cfg    *conf.SchedulerConfiguration
	Params *conf.SchedulerParams
	Faults spec.Faults
	Rng    *rand.Rand
	Hooks  Hooks
	cycle  int
	// Persistent keeps ONE scheduler cache (informers, status updater, any cross-cycle in-memory state) for all
	// cycles of the case, as the real scheduler process does, instead of a fresh cache per cycle. Before every
	// cycle the runner waits until the cache's listers show exactly the store content (no informer lag is
	// modelled); if they do not within 5 s the cycle result carries NotSynced. Call Close when done.
	Persistent bool
	// PodGroupLag (with Persistent): the cache's PodGroup informer sees a modification of a PodGroup - in practice the
	// scheduler's own status / annotation patches - only after the NEXT session has taken its snapshot (slow watch).
	// The snapshot then has to be completed from the status updater's record of applied-but-unobserved updates.
	PodGroupLag bool
	pcache      cache.Cache
	pstop       chan struct{}
}

// Close stops a persistent cache.
func (r *Runner) Close() {
	if r.pstop != nil {
		close(r.pstop)
		r.pstop, r.pcache = nil, nil
	}
}

func metaKey(o metav1.Object) string { return o.GetNamespace() + "/" + o.GetName() }

// listersInSync compares what the cache's listers return with the store.
func (r *Runner) listersInSync(c cache.Cache) bool {
	o := r.St.ReadAll()
	dl := c.GetDataLister()
	type obj interface {
		metav1.Object
		runtime.Object
	}
	same := func(a, b obj) bool {
		x, y := a.DeepCopyObject().(obj), b.DeepCopyObject().(obj)
		x.GetObjectKind().SetGroupVersionKind(schema.GroupVersionKind{})
		y.GetObjectKind().SetGroupVersionKind(schema.GroupVersionKind{})
		x.SetResourceVersion("")
		y.SetResourceVersion("")
		return apiequality.Semantic.DeepEqual(x, y)
	}
	pods, err := dl.ListPods()
	if err != nil || len(pods) != len(o.Pods) {
		return false
	}
	sp := map[string]*v1.Pod{}
	for _, p := range o.Pods {
		sp[metaKey(p)] = p
	}
	for _, p := range pods {
		if q, ok := sp[metaKey(p)]; !ok || !same(p, q) {
			return false
		}
	}
	brs, err := dl.ListBindRequests()
	if err != nil {
		return false
	}
	sb := map[string]obj{}
	for _, b := range o.BindRequests {
		sb[metaKey(b)] = b
	}
	for _, b := range brs {
		if q, ok := sb[metaKey(b)]; !ok || !same(b, q) {
			return false
		}
	}
	nodes, err := dl.ListNodes()
	if err != nil {
		return false
	}
	sn := map[string]obj{}
	for _, n := range o.Nodes {
		sn[metaKey(n)] = n
	}
	for _, n := range nodes {
		if q, ok := sn[metaKey(n)]; !ok || !same(n, q) {
			return false
		}
	}
	pgs, err := dl.ListPodGroups()
	if err != nil {
		return false
	}
	sg := map[string]obj{}
	for _, g := range o.PodGroups {
		sg[metaKey(g)] = g
	}
	for _, g := range pgs {
		if q, ok := sg[metaKey(g)]; !ok || (!same(g, q) && !r.PodGroupLag) {
			return false
		}
	}
	if r.St.DRAEnabled() {
		claims, err := dl.ListResourceClaims()
		if err != nil || len(claims) != len(o.ResourceClaims) {
			return false
		}
		sc := map[string]obj{}
		for _, c := range o.ResourceClaims {
			sc[metaKey(c)] = c
		}
		for _, c := range claims {
			if q, ok := sc[metaKey(c)]; !ok || !same(c, q) {
				return false
			}
		}
	}
	// every BindRequest of the store must be visible unless the node-pool selector hides it
	if r.Params.PartitionParams == nil || r.Params.PartitionParams.NodePoolLabelKey == "" {
		if len(brs) != len(o.BindRequests) || len(nodes) != len(o.Nodes) || len(pgs) != len(o.PodGroups) {
			return false
		}
	}
	return true
}

// draInSync: the DRA manager of the cache has seen every ResourceClaim (by resourceVersion), ResourceSlice and
// DeviceClass of the store; for a cache that has not opened a session yet also: the allocated-device set is exactly
// the set of devices allocated in the store.
func (r *Runner) draInSync(c cache.Cache, fresh bool) bool {
	pl := c.InternalK8sPlugins()
	if pl == nil || pl.FrameworkHandle == nil {
		return true
	}
	mgr := pl.FrameworkHandle.SharedDRAManager()
	if mgr == nil {
		return true
	}
	o := r.St.ReadAll()
	claims, err := mgr.ResourceClaims().List()
	if err != nil || len(claims) != len(o.ResourceClaims) {
		return false
	}
	want := map[string]bool{}
	for _, sc := range o.ResourceClaims {
		got, err := mgr.ResourceClaims().Get(sc.Namespace, sc.Name)
		if err != nil || got.ResourceVersion != sc.ResourceVersion {
			return false
		}
		for _, d := range DeviceIDs(sc.Status.Allocation) {
			want[d] = true
		}
	}
	if sl, err := mgr.ResourceSlices().ListWithDeviceTaintRules(); err != nil || len(sl) != len(o.ResourceSlices) {
		return false
	}
	if dc, err := mgr.DeviceClasses().List(); err != nil || len(dc) != len(o.DeviceClasses) {
		return false
	}
	if fresh {
		st, err := mgr.ResourceClaims().GatherAllocatedState()
		if err != nil || st == nil || st.AllocatedDevices.Len() != len(want) {
			return false
		}
		for id := range st.AllocatedDevices {
			if !want[id.String()] {
				return false
			}
		}
	} else {
		time.Sleep(2 * time.Millisecond) // the handler of the last delivered event may still be running
	}
	return true
}

func NewRunner(st *store.Store, c *spec.Case, rng *rand.Rand, hooks Hooks) (*Runner, error) {
	cfg, params, err := BuildConf(&c.Config, hooks.Extra)
	if err != nil {
		return nil, err
	}
	if c.Objects.HasDRA() {
		// the API server of a cluster with DRA objects serves resource.k8s.io: every cache.New of this case switches
		// the DynamicResourceAllocation gate on (cases without DRA objects keep the gate off, as before)
		st.EnableDRA()
	}
	r := &Runner{St: st, Cfg: cfg, Params: params, Faults: c.Faults, Rng: rng, Hooks: hooks}
	r.installFaultHooks()
	return r, nil
}

func (r *Runner) installFaultHooks() {
	var mu sync.Mutex
	f := r.Faults
	if f.PBindRequestCreateFails <= 0 && f.PPodDeleteFails <= 0 {
		return
	}
	r.St.AddHook(func(client string, action k8stesting.Action) (bool, runtime.Object, error) {
		switch a := action.(type) {
		case k8stesting.CreateActionImpl:
			if client == "kai" && a.GetResource().Resource == "bindrequests" && f.PBindRequestCreateFails > 0 {
				mu.Lock()
				x := r.Rng.Float64()
				mu.Unlock()
				if x < f.PBindRequestCreateFails {
					return true, nil, fmt.Errorf("%s: bindrequest create failed", InjectedMarker)
				}
			}
		case k8stesting.DeleteActionImpl:
			if client == "kube" && a.GetResource().Resource == "pods" && f.PPodDeleteFails > 0 {
				mu.Lock()
				x := r.Rng.Float64()
				mu.Unlock()
				if x < f.PPodDeleteFails {
					return true, nil, fmt.Errorf("%s: pod delete failed", InjectedMarker)
				}
			}
		}
		return false, nil, nil
	})
}

// Cycle runs one full scheduling cycle.
func (r *Runner) Cycle() (res *CycleResult) {
	r.cycle++
	res = &CycleResult{Cycle: r.cycle}
	t0 := time.Now()
	defer func() { res.Dur = time.Since(t0) }()

	params := &cache.SchedulerCacheParams{
		KubeClient:                  r.St.Kube,
		KAISchedulerClient:          r.St.Kai,
		SchedulerName:               r.Params.SchedulerName,
		NodePoolParams:              r.Params.PartitionParams,
		RestrictNodeScheduling:      r.Params.RestrictSchedulingNodes,
		DetailedFitErrors:           r.Params.DetailedFitErrors,
		FullHierarchyFairness:       r.Params.FullHierarchyFairness,
		AllowConsolidatingReclaim:   r.Params.AllowConsolidatingReclaim,
		NumOfStatusRecordingWorkers: r.Params.NumOfStatusRecordingWorkers,
		DiscoveryClient:             r.St.Kube.Discovery(),
	}
	var real cache.Cache
	var stop chan struct{}
	fresh := false
	if r.Persistent && r.pcache != nil {
		real, stop = r.pcache, r.pstop
	} else {
		fresh = true
		real = cache.New(params)
		stop = make(chan struct{})
		real.Run(stop)
		real.WaitForCacheSync(stop)
		if r.Persistent {
			r.pcache, r.pstop = real, stop
		}
	}
	if r.Persistent && r.PodGroupLag {
		r.St.PodGroupLag.Store(true)
	}
	if r.Persistent {
		deadline := time.Now().Add(5 * time.Second)
		for !r.listersInSync(real) {
			if time.Now().After(deadline) {
				res.NotSynced = true
				break
			}
			time.Sleep(2 * time.Millisecond)
		}
	}
	if r.St.DRAEnabled() {
		// no informer lag is modelled for DRA objects either: the claim informer feeds the DRA manager's assume cache
		// and, through it, the allocated-device set by event handlers that WaitForCacheSync does not wait for
		deadline := time.Now().Add(3 * time.Second)
		for !r.draInSync(real, fresh) {
			if time.Now().After(deadline) {
				res.NotSynced = true
				break
			}
			time.Sleep(time.Millisecond)
		}
	}
	rc := &RecCache{Cache: real, Cycle: r.cycle, rng: r.Rng, faults: r.Faults, OnEvent: r.Hooks.OnEvent}
	curRC = rc
	defer func() { curRC = nil }()

	func() {
		defer func() {
			if p := recover(); p != nil {
				res.Panic = fmt.Sprintf("%v\n%s", p, debug.Stack())
			}
		}()
		rc.CurAction = "open"
		ssn, err := framework.OpenSession(rc, r.Cfg, r.Params, fmt.Sprintf("c%d", r.cycle), &http.ServeMux{})
		if err != nil {
			res.OpenErr = err.Error()
			return
		}
		defer func() {
			rc.CurAction = "close"
			if r.Hooks.BeforeClose != nil {
				r.Hooks.BeforeClose(ssn)
			}
			framework.CloseSession(ssn)
			CurrentProportion = nil
		}()
		if r.Persistent && r.PodGroupLag {
			r.St.ReleasePodGroupEvents() // the snapshot is taken: now the informer catches up with the previous cycle
		}
		if r.Hooks.AfterOpen != nil {
			r.Hooks.AfterOpen(ssn, rc)
		}
		acts, _ := conf_util.GetActionsFromConfig(r.Cfg)
		for _, a := range acts {
			rc.CurAction = string(a.Name())
			if r.Hooks.BeforeAction != nil {
				r.Hooks.BeforeAction(ssn, rc.CurAction)
			}
			a.Execute(ssn)
			if r.Hooks.AfterAction != nil {
				r.Hooks.AfterAction(ssn, rc.CurAction)
			}
		}
	}()
	// let asynchronous evictions and status updates land before the world model moves on
	real.WaitForWorkers(stop)
	if !r.St.WaitQuiescent(15*time.Millisecond, 3*time.Second) {
		res.NotQuiet = true
	}
	if !r.Persistent {
		close(stop)
	}
	rc.mu.Lock()
	res.Events = append([]Event(nil), rc.Events...)
	rc.mu.Unlock()
	return res
}

// SnapshotOnly opens the cache and returns the scheduler's ClusterInfo snapshot without running actions.
func (r *Runner) SnapshotOnly() (*api.ClusterInfo, error) {
	params := &cache.SchedulerCacheParams{
		KubeClient: r.St.Kube, KAISchedulerClient: r.St.Kai, SchedulerName: r.Params.SchedulerName,
		NodePoolParams: r.Params.PartitionParams, FullHierarchyFairness: r.Params.FullHierarchyFairness,
		NumOfStatusRecordingWorkers: 1, DiscoveryClient: r.St.Kube.Discovery(),
	}
	real := cache.New(params)
	stop := make(chan struct{})
	defer close(stop)
	real.Run(stop)
	real.WaitForCacheSync(stop)
	return real.Snapshot()
}

// SortedKeys is a helper for deterministic iteration.
func SortedKeys[V any](m map[string]V) []string {
	ks := make([]string, 0, len(m))
	for k := range m {
		ks = append(ks, k)
	}
	sort.Strings(ks)
	return ks
}

// Len returns the number of events recorded so far in this cycle.
func (r *RecCache) Len() int {
	r.mu.Lock()
	defer r.mu.Unlock()
	return len(r.Events)
}

// Since returns a copy of the events recorded from index i on.
func (r *RecCache) Since(i int) []Event {
	r.mu.Lock()
	defer r.mu.Unlock()
	if i > len(r.Events) {
		i = len(r.Events)
	}
	return append([]Event(nil), r.Events[i:]...)
}
