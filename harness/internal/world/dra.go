package world

// The DRA part of the world model: what the binder's DynamicResources plugin writes when a bind completes, and what
// kube-controller-manager's resource claim controller and the garbage collector do when pods go away.

import (
	"fmt"

	v1 "k8s.io/api/core/v1"
	resourceapi "k8s.io/api/resource/v1"
	metav1 "k8s.io/apimachinery/pkg/apis/meta/v1"
	"k8s.io/apimachinery/pkg/types"
	"k8s.io/utils/ptr"

	schedulingv1alpha2 "github.com/NVIDIA/KAI-scheduler/pkg/apis/scheduling/v1alpha2"

	"verif/harness/internal/store"
)

var claimGVR = resourceapi.SchemeGroupVersion.WithResource("resourceclaims")

// claimNameOf resolves a pod.spec.resourceClaims entry to the name of the ResourceClaim object.
func claimNameOf(p *v1.Pod, pc *v1.PodResourceClaim) string {
	if pc.ResourceClaimName != nil {
		return *pc.ResourceClaimName
	}
	for _, s := range p.Status.ResourceClaimStatuses {
		if s.Name == pc.Name && s.ResourceClaimName != nil {
			return *s.ResourceClaimName
		}
	}
	return ""
}

func (w *World) getClaim(ns, name string) *resourceapi.ResourceClaim {
	obj, err := w.St.Tracker.Get(claimGVR, ns, name)
	if err != nil {
		return nil
	}
	c, _ := obj.(*resourceapi.ResourceClaim)
	if c == nil {
		return nil
	}
	return c.DeepCopy()
}

// bindClaims does what pkg/binder/plugins/k8s-plugins/dynamicresources Bind does for a BindRequest: for every
// entry of spec.resourceClaimAllocations add the pod to the claim's status.reservedFor and, if the claim is not
// allocated yet, write the allocation of the request. An entry without allocation, an entry that names no claim of
// the pod, or a missing claim object fails the bind (as in the binder).
func (w *World) bindClaims(p *v1.Pod, br *schedulingv1alpha2.BindRequest) error {
	for i := range br.Spec.ResourceClaimAllocations {
		ra := &br.Spec.ResourceClaimAllocations[i]
		if ra.Allocation == nil {
			return fmt.Errorf("empty status for claim %s in bind request", ra.Name)
		}
		name := ""
		for j := range p.Spec.ResourceClaims {
			if p.Spec.ResourceClaims[j].Name == ra.Name {
				name = claimNameOf(p, &p.Spec.ResourceClaims[j])
			}
		}
		if name == "" {
			return fmt.Errorf("claim %s from bind request not found in pod", ra.Name)
		}
		c := w.getClaim(p.Namespace, name)
		if c == nil {
			return fmt.Errorf("resource claim %s/%s not found", p.Namespace, name)
		}
		present := false
		for _, r := range c.Status.ReservedFor {
			if r.Resource == "pods" && r.Name == p.Name && r.UID == p.UID {
				present = true
			}
		}
		if !present {
			c.Status.ReservedFor = append(c.Status.ReservedFor, resourceapi.ResourceClaimConsumerReference{Resource: "pods", Name: p.Name, UID: p.UID})
		}
		if c.Status.Allocation == nil {
			c.Status.Allocation = ra.Allocation.DeepCopy()
		}
		if err := w.St.Tracker.Update(claimGVR, c, c.Namespace); err != nil {
			return err
		}
		w.ClaimWrites++
		w.logf("claim %s/%s: reserved for %s, devices %v", c.Namespace, c.Name, p.Name, devicesOf(c))
	}
	return nil
}

func devicesOf(c *resourceapi.ResourceClaim) []string {
	var out []string
	if c.Status.Allocation != nil {
		for _, d := range c.Status.Allocation.Devices.Results {
			out = append(out, d.Pool+"/"+d.Device)
		}
	}
	return out
}

// reconcileClaims is the resource claim controller + garbage collector: a consumer that no longer exists (or whose
// pod reached a terminal phase) is removed from status.reservedFor; a claim nobody reserves is deallocated; a claim
// generated from a template is deleted with its owner pod.
func (w *World) reconcileClaims() {
	logs, writes := ReconcileClaims(w.St)
	w.Log = append(w.Log, logs...)
	w.ClaimWrites += writes
}

// ReconcileClaims is the stand-alone form (used by drivers with their own kubelet step, e.g. C12).
func ReconcileClaims(st *store.Store) (logs []string, writes int) {
	w := &claimReconciler{St: st}
	w.run()
	return w.Log, w.ClaimWrites
}

type claimReconciler struct {
	St          *store.Store
	Log         []string
	ClaimWrites int
}

func (w *claimReconciler) logf(f string, a ...any) { w.Log = append(w.Log, fmt.Sprintf(f, a...)) }

func (w *claimReconciler) run() {
	o := w.St.ReadAll()
	if len(o.ResourceClaims) == 0 {
		return
	}
	live := map[types.UID]*v1.Pod{}
	for _, p := range o.Pods {
		if p.Status.Phase == v1.PodSucceeded || p.Status.Phase == v1.PodFailed {
			continue
		}
		live[p.UID] = p
	}
	for _, c := range o.ResourceClaims {
		ownerGone := false
		for _, or := range c.OwnerReferences {
			if or.Kind == "Pod" {
				if _, ok := live[or.UID]; !ok {
					ownerGone = true
				}
			}
		}
		if ownerGone {
			_ = w.St.Tracker.Delete(claimGVR, c.Namespace, c.Name)
			w.logf("gc claim %s/%s (owner pod gone)", c.Namespace, c.Name)
			continue
		}
		var keep []resourceapi.ResourceClaimConsumerReference
		for _, r := range c.Status.ReservedFor {
			if r.Resource == "pods" {
				if p, ok := live[r.UID]; !ok || p.Name != r.Name {
					continue
				}
			}
			keep = append(keep, r)
		}
		changed := len(keep) != len(c.Status.ReservedFor)
		c.Status.ReservedFor = keep
		if len(keep) == 0 && c.Status.Allocation != nil {
			c.Status.Allocation = nil
			changed = true
		}
		if changed {
			_ = w.St.Tracker.Update(claimGVR, c, c.Namespace)
			w.ClaimWrites++
			w.logf("claim %s/%s: reservedFor=%d allocated=%v", c.Namespace, c.Name, len(keep), c.Status.Allocation != nil)
		}
	}
}

// recreateClaims gives the re-created pod (closed system) what the controllers would give it: claims referenced by
// name stay as they are (the new pod refers to the same claim); for a template reference a new claim object is
// generated for the new pod (same spec as the old pod's generated claim, which is garbage collected with the old
// pod) and recorded in pod.status.resourceClaimStatuses.
func (w *World) recreateClaims(old, p *v1.Pod) {
	p.Status.ResourceClaimStatuses = nil
	for i := range old.Spec.ResourceClaims {
		pc := &old.Spec.ResourceClaims[i]
		if pc.ResourceClaimTemplateName == nil {
			continue
		}
		oc := w.getClaim(old.Namespace, claimNameOf(old, pc))
		if oc == nil {
			continue
		}
		nc := &resourceapi.ResourceClaim{ObjectMeta: metav1.ObjectMeta{Name: p.Name + "-" + pc.Name, Namespace: p.Namespace, UID: types.UID("claim-" + p.Name + "-" + pc.Name),
			Annotations:     map[string]string{"resource.kubernetes.io/pod-claim-name": pc.Name},
			OwnerReferences: []metav1.OwnerReference{{APIVersion: "v1", Kind: "Pod", Name: p.Name, UID: p.UID, Controller: ptr.To(true), BlockOwnerDeletion: ptr.To(true)}}},
			Spec: *oc.Spec.DeepCopy()}
		_ = w.St.Tracker.Add(nc)
		p.Status.ResourceClaimStatuses = append(p.Status.ResourceClaimStatuses, v1.PodResourceClaimStatus{Name: pc.Name, ResourceClaimName: ptr.To(nc.Name)})
		w.logf("generated claim %s for re-created pod %s", nc.Name, p.Name)
	}
}
