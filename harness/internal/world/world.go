// Package world is the part of a cluster KAI does not implement: kubelet (pods finish terminating),
// a simple stand-in for the binder (BindRequests are completed, failed or left pending), owner
// garbage collection, and in closed-system mode the workload controller that re-creates evicted pods.
// It only writes API objects; every oracle reads API objects, never this package's state.
package world

import (
	"fmt"
	"math/rand/v2"
	"sort"
	"strconv"
	"strings"

	v1 "k8s.io/api/core/v1"
	"k8s.io/apimachinery/pkg/api/resource"
	metav1 "k8s.io/apimachinery/pkg/apis/meta/v1"
	"k8s.io/apimachinery/pkg/runtime/schema"
	"k8s.io/apimachinery/pkg/types"

	schedulingv1alpha2 "github.com/NVIDIA/KAI-scheduler/pkg/apis/scheduling/v1alpha2"

	"verif/harness/internal/k8sm"
	"verif/harness/internal/spec"
	"verif/harness/internal/store"
)

var (
	podGVR = schema.GroupVersionResource{Version: "v1", Resource: "pods"}
	brGVR  = schedulingv1alpha2.GroupVersion.WithResource("bindrequests")
)

type World struct {
	St      *store.Store
	Rng     *rand.Rand
	Opts    spec.WorldOpts
	termAge map[types.UID]int
	termMax map[types.UID]int
	// recreated: terminating pods whose replacement was already created (EarlyRecreate)
	recreated map[types.UID]bool
	regen     int
	lagging   []*v1.Pod // pod updates of successful binds that become visible in the next step
	// Log of what the world did in the last step (for replay files)
	Log []string
	// ClaimWrites counts ResourceClaim status updates (DRA, see dra.go)
	ClaimWrites int
}

func New(st *store.Store, rng *rand.Rand, opts spec.WorldOpts) *World {
	return &World{St: st, Rng: rng, Opts: opts, termAge: map[types.UID]int{}, termMax: map[types.UID]int{}}
}

func (w *World) logf(f string, a ...any) { w.Log = append(w.Log, fmt.Sprintf(f, a...)) }

func (w *World) updatePod(p *v1.Pod) { _ = w.St.Tracker.Update(podGVR, p, p.Namespace) }
func (w *World) deletePod(p *v1.Pod) { _ = w.St.Tracker.Delete(podGVR, p.Namespace, p.Name) }

// Step advances the world by one inter-cycle step.
func (w *World) Step() {
	w.Log = nil
	o := w.St.ReadAll()
	nodes := map[string]*v1.Node{}
	for _, n := range o.Nodes {
		nodes[n.Name] = n
	}
	pods := map[string]*v1.Pod{}
	for _, p := range o.Pods {
		pods[p.Namespace+"/"+p.Name] = p
	}

	// 0. pod updates that lagged behind their BindRequest become visible
	for _, lp := range w.lagging {
		cur, ok := pods[lp.Namespace+"/"+lp.Name]
		if !ok || cur.UID != lp.UID {
			continue
		}
		cur = cur.DeepCopy()
		cur.Spec.NodeName = lp.Spec.NodeName
		cur.Status.Phase = lp.Status.Phase
		if cur.Labels == nil {
			cur.Labels = map[string]string{}
		}
		if cur.Annotations == nil {
			cur.Annotations = map[string]string{}
		}
		for k, v := range lp.Labels {
			cur.Labels[k] = v
		}
		for k, v := range lp.Annotations {
			cur.Annotations[k] = v
		}
		w.updatePod(cur)
		pods[lp.Namespace+"/"+lp.Name] = cur
		w.logf("lagging pod update of %s/%s applied (node %s)", cur.Namespace, cur.Name, cur.Spec.NodeName)
	}
	w.lagging = nil

	// 1. terminating pods disappear
	for _, p := range o.Pods {
		if p.DeletionTimestamp == nil {
			continue
		}
		if _, ok := w.termMax[p.UID]; !ok {
			w.termMax[p.UID] = 0
			if w.Opts.MaxTerminateCycles > 0 {
				w.termMax[p.UID] = w.Rng.IntN(w.Opts.MaxTerminateCycles + 1)
			}
		}
		if p.Annotations[spec.RecreatedAnno] != "" && !w.recreated[p.UID] {
			if w.recreated == nil {
				w.recreated = map[types.UID]bool{}
			}
			w.recreated[p.UID] = true
		}
		if w.Opts.Closed && w.Opts.EarlyRecreate && !w.recreated[p.UID] && p.Namespace != spec.ReservationNS && p.Annotations["pod-group-name"] != "" &&
			(w.Opts.PRecreateNow <= 0 || w.Rng.Float64() < w.Opts.PRecreateNow) {
			w.recreate(p)
			if w.recreated == nil {
				w.recreated = map[types.UID]bool{}
			}
			w.recreated[p.UID] = true
		}
		if w.termAge[p.UID] >= w.termMax[p.UID] {
			w.deletePod(p)
			delete(pods, p.Namespace+"/"+p.Name)
			w.logf("terminated %s/%s", p.Namespace, p.Name)
			if w.Opts.Closed && p.Namespace != spec.ReservationNS && !w.recreated[p.UID] {
				w.recreate(p)
			}
		} else {
			w.termAge[p.UID]++
		}
	}

	// 2. BindRequests progress
	for _, br := range o.BindRequests {
		p, ok := pods[br.Namespace+"/"+br.Spec.PodName]
		if !ok || string(p.UID) != ownerUID(br, p) {
			_ = w.St.Tracker.Delete(brGVR, br.Namespace, br.Name)
			w.logf("gc bindrequest %s/%s (pod gone)", br.Namespace, br.Name)
			continue
		}
		if br.Status.Phase == schedulingv1alpha2.BindRequestPhaseSucceeded || p.Spec.NodeName != "" || p.DeletionTimestamp != nil {
			continue
		}
		if br.Status.Phase == schedulingv1alpha2.BindRequestPhaseFailed &&
			(br.Spec.BackoffLimit == nil || br.Status.FailedAttempts >= *br.Spec.BackoffLimit) {
			continue // terminal; the scheduler must clean it
		}
		node, ok := nodes[br.Spec.SelectedNode]
		if !ok {
			continue // the scheduler must clean it
		}
		x := w.Rng.Float64()
		switch {
		case x < w.Opts.PBindSucceeds:
			w.bind(p, br, node, o)
		case x < w.Opts.PBindSucceeds+w.Opts.PBindFails:
			br.Status.Phase = schedulingv1alpha2.BindRequestPhaseFailed
			br.Status.FailedAttempts++
			br.Status.Reason = "world: bind failed"
			_ = w.St.Tracker.Update(brGVR, br, br.Namespace)
			w.logf("bind failed %s/%s attempts=%d", br.Namespace, br.Name, br.Status.FailedAttempts)
		}
	}

	// 3. reservation pods without consumers are removed (what the binder's sync does)
	w.gcReservations()

	// 4. DRA: resource claim controller + garbage collection of generated claims (dra.go)
	w.reconcileClaims()
}

func ownerUID(br *schedulingv1alpha2.BindRequest, p *v1.Pod) string {
	for _, or := range br.OwnerReferences {
		if or.Kind == "Pod" {
			return string(or.UID)
		}
	}
	return string(p.UID)
}

func (w *World) bind(p *v1.Pod, br *schedulingv1alpha2.BindRequest, node *v1.Node, o *spec.Objects) {
	p = p.DeepCopy()
	// DRA (dra.go): the binder writes the claims before it binds the pod; a claim it cannot write fails the attempt
	if err := w.bindClaims(p, br); err != nil {
		br.Status.Phase = schedulingv1alpha2.BindRequestPhaseFailed
		br.Status.FailedAttempts++
		br.Status.Reason = "world: " + err.Error()
		_ = w.St.Tracker.Update(brGVR, br, br.Namespace)
		w.logf("bind failed %s/%s: %v", br.Namespace, br.Name, err)
		return
	}
	p.Spec.NodeName = node.Name
	if w.Rng.Float64() < 0.85 {
		p.Status.Phase = v1.PodRunning
	}
	if p.Annotations == nil {
		p.Annotations = map[string]string{}
	}
	if p.Labels == nil {
		p.Labels = map[string]string{}
	}
	p.Annotations["received-resource-type"] = br.Spec.ReceivedResourceType
	if br.Spec.ReceivedResourceType == "Fraction" {
		gr := k8sm.GPURequest(p)
		for _, g := range br.Spec.SelectedGPUGroups {
			if gr.Devices > 1 {
				p.Labels["runai-gpu-group/"+g] = g
			} else {
				p.Labels["runai-gpu-group"] = g
			}
			w.ensureReservation(node, g)
		}
	}
	if w.Opts.PPodUpdateLags > 0 && w.Rng.Float64() < w.Opts.PPodUpdateLags {
		w.lagging = append(w.lagging, p)
		w.logf("pod update of %s/%s lags one step behind its BindRequest", p.Namespace, p.Name)
	} else {
		w.updatePod(p)
	}
	br.Status.Phase = schedulingv1alpha2.BindRequestPhaseSucceeded
	_ = w.St.Tracker.Update(brGVR, br, br.Namespace)
	w.logf("bound %s/%s -> %s groups=%v", p.Namespace, p.Name, node.Name, br.Spec.SelectedGPUGroups)
}

func (w *World) ensureReservation(node *v1.Node, group string) {
	o := w.St.ReadAll()
	used := map[int]bool{}
	for _, p := range o.Pods {
		if p.Namespace != spec.ReservationNS {
			continue
		}
		if p.Labels["runai-gpu-group"] == group {
			return
		}
		if p.Spec.NodeName == node.Name {
			if i, err := strconv.Atoi(p.Annotations[spec.GpuIndexAnnot]); err == nil {
				used[i] = true
			}
		}
	}
	idx := 0
	for used[idx] {
		idx++
	}
	one := *resource.NewQuantity(1, resource.DecimalSI)
	rp := &v1.Pod{ObjectMeta: metav1.ObjectMeta{Name: fmt.Sprintf("gpu-reservation-%s-%s", node.Name, group), Namespace: spec.ReservationNS,
		UID:    types.UID("uid-res-" + group),
		Labels: map[string]string{"app": spec.ReservationApp, "runai-gpu-group": group}, Annotations: map[string]string{spec.GpuIndexAnnot: strconv.Itoa(idx)}},
		Spec: v1.PodSpec{NodeName: node.Name, Containers: []v1.Container{{Name: "resource-reservation", Image: "img",
			Resources: v1.ResourceRequirements{Requests: v1.ResourceList{"nvidia.com/gpu": one}, Limits: v1.ResourceList{"nvidia.com/gpu": one}}}}},
		Status: v1.PodStatus{Phase: v1.PodRunning}}
	_ = w.St.Tracker.Add(rp)
	w.logf("reservation pod for %s on %s idx %d", group, node.Name, idx)
}

func (w *World) gcReservations() {
	o := w.St.ReadAll()
	live := map[string]bool{}
	for _, p := range o.Pods {
		if p.Namespace == spec.ReservationNS {
			continue
		}
		if p.Status.Phase != v1.PodPending && p.Status.Phase != v1.PodRunning {
			continue
		}
		for _, g := range k8sm.PodGPUGroups(p) {
			live[g] = true
		}
	}
	for _, br := range o.BindRequests {
		if br.Status.Phase == schedulingv1alpha2.BindRequestPhaseFailed {
			continue
		}
		for _, g := range br.Spec.SelectedGPUGroups {
			live[g] = true
		}
	}
	for _, p := range o.Pods {
		if p.Namespace == spec.ReservationNS && !live[p.Labels["runai-gpu-group"]] {
			w.deletePod(p)
			w.logf("gc reservation pod %s", p.Name)
		}
	}
}

// recreate re-creates an evicted pod as a fresh pending pod of the same workload (closed system).
func (w *World) recreate(old *v1.Pod) {
	w.regen++
	p := old.DeepCopy()
	logical := old.Annotations[spec.LogicalNameAnno]
	if logical == "" {
		logical = old.Name
	}
	p.Name = fmt.Sprintf("%s-r%d", logical, w.regen)
	p.UID = types.UID("uid-" + p.Name)
	p.Annotations[spec.LogicalNameAnno] = logical
	p.ResourceVersion = ""
	p.DeletionTimestamp = nil
	p.Finalizers = nil
	p.Spec.NodeName = ""
	p.Status = v1.PodStatus{Phase: v1.PodPending}
	delete(p.Annotations, "received-resource-type")
	for k := range p.Labels {
		if k == "runai-gpu-group" || strings.HasPrefix(k, "runai-gpu-group/") {
			delete(p.Labels, k)
		}
	}
	w.recreateClaims(old, p) // DRA (dra.go)
	_ = w.St.Tracker.Add(p)
	w.logf("recreated %s as %s", old.Name, p.Name)
}

// SortedPodKeys is a helper for deterministic output.
func SortedPodKeys(m map[string]*v1.Pod) []string {
	ks := make([]string, 0, len(m))
	for k := range m {
		ks = append(ks, k)
	}
	sort.Strings(ks)
	return ks
}
