package c05

import (
	"fmt"
	"sort"
	"strings"

	"github.com/NVIDIA/KAI-scheduler/pkg/scheduler/api/common_info"
	"github.com/NVIDIA/KAI-scheduler/pkg/scheduler/framework"
	rs "github.com/NVIDIA/KAI-scheduler/pkg/scheduler/plugins/proportion/resource_share"

	"verif/harness/internal/sched"
)

// sessionDiag collects diagnostics from inside the session. Nothing collected here decides a verdict: it is
// only quoted in violation messages and replay files (what the scheduler itself said about a workload).
type sessionDiag struct {
	fitErrors map[string]string // pod group name -> fit errors recorded by the allocate action
	queueDiag map[string]string // queue -> "deserved/fairShare/allocated" as the scheduler computed them at session open
}

func (d *sessionDiag) reset() {
	d.fitErrors = map[string]string{}
	d.queueDiag = map[string]string{}
}

func (d *sessionDiag) afterOpen(ssn *framework.Session, _ *sched.RecCache) {
	pq, ok := sched.CurrentProportion.(interface {
		VerifQueues() map[common_info.QueueID]*rs.QueueAttributes
	})
	if !ok || d.queueDiag == nil {
		return
	}
	for id, q := range pq.VerifQueues() {
		d.queueDiag[string(id)] = fmt.Sprintf("gpu(deserved=%.3g fair=%.3g alloc=%.3g allocNP=%.3g req=%.3g limit=%.3g) cpu(deserved=%.6g fair=%.6g alloc=%.6g)",
			q.GPU.Deserved, q.GPU.FairShare, q.GPU.Allocated, q.GPU.AllocatedNotPreemptible, q.GPU.Request, q.GPU.MaxAllowed,
			q.CPU.Deserved, q.CPU.FairShare, q.CPU.Allocated)
	}
}

func (d *sessionDiag) afterAction(ssn *framework.Session, name string) {
	if name != "allocate" || d.fitErrors == nil {
		return
	}
	for _, job := range ssn.ClusterInfo.PodGroupInfos {
		var parts []string
		for _, e := range job.JobFitErrors {
			parts = append(parts, e.DetailedMessage())
		}
		ids := make([]string, 0, len(job.TasksFitErrors))
		for id := range job.TasksFitErrors {
			ids = append(ids, string(id))
		}
		sort.Strings(ids)
		for _, id := range ids {
			parts = append(parts, job.TasksFitErrors[common_info.PodID(id)].Error())
		}
		if len(parts) > 0 {
			s := strings.Join(parts, " | ")
			if len(s) > 900 {
				s = s[:900] + "..."
			}
			d.fitErrors[job.Name] = s
		}
	}
}

func (d *sessionDiag) queues(names ...string) string {
	var sb strings.Builder
	for _, n := range names {
		if s, ok := d.queueDiag[n]; ok {
			fmt.Fprintf(&sb, " [%s: %s]", n, s)
		}
	}
	return sb.String()
}
