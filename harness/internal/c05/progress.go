package c05

import (
	"fmt"
	"reflect"
	"sort"
	"strings"

	v1 "k8s.io/api/core/v1"

	enginev2 "github.com/NVIDIA/KAI-scheduler/pkg/apis/scheduling/v2"
	enginev2alpha2 "github.com/NVIDIA/KAI-scheduler/pkg/apis/scheduling/v2alpha2"

	"verif/harness/internal/k8sm"
	"verif/harness/internal/oracle"
	"verif/harness/internal/run"
	"verif/harness/internal/sched"
	"verif/harness/internal/spec"
)

const eps = 1e-9

// unitWorkload is a single-pod workload of the unobstructed class.
type unitWorkload struct {
	pg      *enginev2alpha2.PodGroup
	pod     *v1.Pod
	running bool
	prio    int32
	preempt bool
}

// unobstructed verifies (from the API objects) that the cluster is in the class the statement names and returns
// the workloads and the per-workload charge. A non-empty reason means "not judged".
func unobstructed(m *oracle.Model, cs *spec.Case) (ws []*unitWorkload, charge oracle.Res, reason string) {
	acts := splitActions(m.Cfg.Actions)
	has := map[string]bool{}
	for _, a := range acts {
		has[a] = true
	}
	if !has["allocate"] || !has["reclaim"] || !has["preempt"] || len(acts) == 0 || acts[0] != "allocate" {
		return nil, charge, "actions"
	}
	if len(m.Cfg.QueueDepth) > 0 || m.Cfg.RestrictNodeScheduling {
		return nil, charge, "config"
	}
	if a := m.Cfg.PluginArgs["minruntime"]; a != nil {
		for _, k := range []string{"defaultReclaimMinRuntime", "defaultPreemptMinRuntime"} {
			if v := a[k]; v != "" && v != "0s" && v != "0" {
				return nil, charge, "min-runtime"
			}
		}
	}
	if len(m.O.BindRequests) > 0 {
		return nil, charge, "bind-requests"
	}
	if len(m.Nodes) == 0 || len(m.Nodes) != len(m.AllNodes) {
		return nil, charge, "nodes"
	}
	var first *v1.Node
	for _, name := range sortedKeys(m.Nodes) {
		n := m.Nodes[name]
		if ok, _ := nodeHealthy(n); !ok || len(n.Spec.Taints) > 0 {
			return nil, charge, "unhealthy-node"
		}
		if _, mig := n.Labels["nvidia.com/mig.strategy"]; mig {
			return nil, charge, "mig-node"
		}
		if first == nil {
			first = n
		} else if !reflect.DeepEqual(k8sm.Allocatable(first), k8sm.Allocatable(n)) {
			return nil, charge, "different-nodes"
		}
	}
	for _, q := range m.O.Queues {
		if q.Spec.PreemptMinRuntime != nil || q.Spec.ReclaimMinRuntime != nil {
			return nil, charge, "min-runtime"
		}
		if q.Spec.Resources == nil {
			return nil, charge, "queue-without-resources"
		}
	}
	podsOf := map[string][]*v1.Pod{}
	var shape k8sm.Req
	for _, p := range m.O.Pods {
		if p.DeletionTimestamp != nil {
			return nil, charge, "terminating-pod"
		}
		g := p.Annotations["pod-group-name"]
		if p.Spec.SchedulerName != spec.SchedulerName || g == "" || oracle.IsReservation(p) {
			return nil, charge, "foreign-pod"
		}
		if unsupported(p) != "" || len(p.Spec.NodeSelector) > 0 || p.Spec.Affinity != nil || len(p.Spec.SchedulingGates) > 0 || len(p.Spec.InitContainers) > 0 || p.Spec.Overhead != nil {
			return nil, charge, "constrained-pod"
		}
		gr := k8sm.GPURequest(p)
		if gr.Shared() {
			return nil, charge, "fraction-pod"
		}
		req := k8sm.PodRequest(p)
		if shape == nil {
			shape = req
			charge = oracle.PodRes(p, nil)
		} else if !reflect.DeepEqual(shape, req) {
			return nil, charge, "different-pods"
		}
		switch podState(m, p) {
		case "pending", "active":
		default:
			return nil, charge, "pod-state"
		}
		podsOf[g] = append(podsOf[g], p)
	}
	if shape == nil {
		return nil, charge, "no-pods"
	}
	// a workload must need exactly one scarce unit: either one whole GPU, or (cpu variant) no GPU at all
	for _, name := range sortedKeys(m.PodGroups) {
		pg := m.PodGroups[name]
		ps := podsOf[name]
		if len(ps) != 1 || pg.Spec.MinMember != 1 || len(pg.Spec.SubGroups) > 0 || pg.Spec.SchedulingBackoff != nil ||
			pg.Spec.TopologyConstraint != (enginev2alpha2.TopologyConstraint{}) {
			return nil, charge, "not-single-pod-workload"
		}
		p := ps[0]
		st := podState(m, p)
		w := &unitWorkload{pg: pg, pod: p, running: st == "active", prio: m.Priority(pg), preempt: m.Preemptible(pg)}
		if w.running {
			if _, ok := m.Nodes[p.Spec.NodeName]; !ok {
				return nil, charge, "pod-on-unknown-node"
			}
		}
		ws = append(ws, w)
	}
	for g := range podsOf {
		if _, ok := m.PodGroups[g]; !ok {
			return nil, charge, "pod-without-group"
		}
	}
	return ws, charge, ""
}

func sortedKeys[V any](m map[string]V) []string {
	ks := make([]string, 0, len(m))
	for k := range m {
		ks = append(ks, k)
	}
	sort.Strings(ks)
	return ks
}

// leafOK: the queue is a leaf whose whole ancestor chain exists (what the scheduler needs to consider its jobs).
func leafOK(m *oracle.Model, name string, hasChild map[string]bool) bool {
	q, ok := m.Queues[name]
	if !ok || hasChild[name] {
		return false
	}
	path := m.QueuePath(q.Name)
	return path[len(path)-1].Spec.ParentQueue == ""
}

// geq: is allocation strictly above the deserved quota in some resource (quota finite)?
func above(alloc, quota oracle.Res) bool {
	for r := 0; r < 3; r++ {
		if quota.Get(r) >= 0 && alloc.Get(r) > quota.Get(r)+eps {
			return true
		}
	}
	return false
}

// fitsUnder: alloc+add <= bound in every resource (bound < 0 = unlimited).
func fitsUnder(alloc, add, bound oracle.Res) bool {
	for r := 0; r < 3; r++ {
		if bound.Get(r) >= 0 && add.Get(r) > 0 && alloc.Get(r)+add.Get(r) > bound.Get(r)+eps {
			return false
		}
	}
	return true
}

// fitsUnderAll: like fitsUnder, but also resources the workload does not request must not already exceed.
func underLimit(alloc, bound oracle.Res, add oracle.Res) bool {
	for r := 0; r < 3; r++ {
		if bound.Get(r) >= 0 && add.Get(r) > 0 && alloc.Get(r) > bound.Get(r)+eps {
			return false
		}
	}
	return true
}

// ProgressWitness is stored in the replay file.
type ProgressWitness struct {
	Clause   string   `json:"clause"`
	Workload string   `json:"workload"`
	Queue    string   `json:"queue"`
	Victims  []string `json:"victims"`
	Why      string   `json:"why"`
}

func checkProgress(m *oracle.Model, cs *spec.Case, events []sched.Event, cycle int, diag *sessionDiag, st *oracle.Stats) ([]run.Violation, []any) {
	for i := range events {
		if events[i].Err != "" {
			st.Inc("progress_cycles_skipped_failed_call")
			return nil, nil
		}
	}
	ws, charge, why := unobstructed(m, cs)
	if why != "" {
		st.Inc("progress_not_judged:obstructed:" + why)
		return nil, nil
	}
	st.Inc("progress_cycles_in_class")
	variant := "gpu"
	if charge.GPU == 0 {
		variant = "cpu"
	}
	structure := metaString(cs, "structure")
	if structure == "" {
		structure = "unknown"
	}
	hasChild := map[string]bool{}
	for _, q := range m.Queues {
		if q.Spec.ParentQueue != "" {
			hasChild[q.Spec.ParentQueue] = true
		}
	}
	u := oracle.NewQueueUsage(m)
	placed := map[string]string{} // pod group -> action that bound / nominated it
	evicted := map[string]bool{}
	evictAction := map[string]string{}
	// three views of the per-queue allocation: at cycle start, and an upper / lower bound that holds at every moment
	// of the cycle (hi ignores evictions, lo ignores placements). The non-preemptible allocation only grows.
	type view struct{ alloc, allocNP map[string]oracle.Res }
	clone := func(a map[string]oracle.Res) map[string]oracle.Res {
		c := map[string]oracle.Res{}
		for k, v := range a {
			c[k] = v
		}
		return c
	}
	startV := view{u.Alloc, u.AllocNP}
	hiV := view{clone(u.Alloc), clone(u.AllocNP)}
	loV := view{clone(u.Alloc), clone(u.AllocNP)}
	for i := range events {
		e := &events[i]
		pg, ok := m.PodGroups[e.Group]
		if !ok {
			continue
		}
		np := !m.Preemptible(pg)
		switch e.Kind {
		case "bind", "pipeline":
			if _, dup := placed[e.Group]; !dup {
				placed[e.Group] = e.Action
			}
			for _, q := range m.QueuePath(pg.Spec.Queue) {
				hiV.alloc[q.Name] = hiV.alloc[q.Name].Add(charge)
				if np {
					hiV.allocNP[q.Name] = hiV.allocNP[q.Name].Add(charge)
				}
			}
		case "evict":
			evicted[e.Group] = true
			evictAction[e.Group] = e.EvictAction + " for " + strings.TrimPrefix(e.Preemptor, "ns/")
			st.Inc("progress_evictions_" + e.EvictAction)
			for _, q := range m.QueuePath(pg.Spec.Queue) {
				loV.alloc[q.Name] = loV.alloc[q.Name].Sub(charge)
			}
		}
	}
	var pendings, runnings []*unitWorkload
	byQueue := map[string][]*unitWorkload{}
	for _, w := range ws {
		if !leafOK(m, w.pg.Spec.Queue, hasChild) {
			continue
		}
		byQueue[w.pg.Spec.Queue] = append(byQueue[w.pg.Spec.Queue], w)
		if w.running {
			runnings = append(runnings, w)
		} else {
			pendings = append(pendings, w)
		}
	}
	st.Add("progress_pending_workloads", len(pendings))
	st.Add("progress_running_workloads", len(runnings))
	limits := func(q *enginev2.Queue) (oracle.Res, oracle.Res) { return oracle.QueueLimits(q) }
	var allQueues []string
	for _, q := range m.O.Queues {
		allQueues = append(allQueues, q.Name)
	}
	sort.Strings(allQueues)

	// orderedBefore: pending workload a of the same leaf queue is popped before b (priority, then creation time)
	orderedBefore := func(a, b *unitWorkload) bool {
		if a.prio != b.prio {
			return a.prio > b.prio
		}
		return !a.pg.CreationTimestamp.Time.After(b.pg.CreationTimestamp.Time)
	}
	podSig := func(w *unitWorkload) string {
		pr := ""
		if w.pod.Spec.Priority != nil {
			pr = fmt.Sprint(*w.pod.Spec.Priority)
		}
		return w.pod.Spec.PriorityClassName + "/" + pr
	}
	// cause classifies a missing progress for the signature: with scheduling signatures on, a job of the same leaf queue
	// with the same pod-level scheduling signature that is tried earlier and cannot succeed for a reason of its own
	// (it is not eligible) makes the action skip the eligible one.
	cause := func(w *unitWorkload, eligible map[string]bool) string {
		if !m.Cfg.UseSchedulingSignatures {
			return "plain"
		}
		for _, o := range byQueue[w.pg.Spec.Queue] {
			if !o.running && o != w && !eligible[o.pg.Name] && orderedBefore(o, w) && podSig(o) == podSig(w) {
				return "after-failed-same-signature-job"
			}
		}
		return "plain"
	}

	var out []run.Violation
	var wits []any
	sigTail := fmt.Sprintf("%s:%s:signatures=%v", variant, structure, m.Cfg.UseSchedulingSignatures)

	// ------------------------------------------------------------------ (b) reclaim progress
	// eligibleB: is w eligible when the reclaimer side is read from view r and the victim side from view v, with the
	// given predicate for "this running workload can still be taken"?
	eligibleB := func(w *unitWorkload, r, v view, available func(*unitWorkload) bool) (bool, string) {
		rq := w.pg.Spec.Queue
		rpath := m.QueuePath(rq)
		for _, q := range rpath { // the non-preemptible rule holds at every level
			_, quota := limits(q)
			if !w.preempt && !fitsUnder(r.allocNP[q.Name], charge, quota) {
				return false, ""
			}
		}
		inR := map[string]bool{}
		for _, q := range rpath {
			inR[q.Name] = true
		}
		for _, vq := range sortedKeys(byQueue) {
			if vq == rq {
				continue
			}
			has := false
			for _, x := range byQueue[vq] {
				if x.preempt && available(x) {
					has = true
				}
			}
			if !has {
				continue
			}
			vpath := m.QueuePath(vq)
			inV := map[string]bool{}
			for _, q := range vpath {
				inV[q.Name] = true
			}
			good := true
			// reclaimer side: within deserved quota (and limit) from the leaf up to the level below the common ancestor
			for _, q := range rpath {
				limit, quota := limits(q)
				if inV[q.Name] {
					// common ancestor: the exchange keeps its allocation; it must not already exceed its limit
					if !underLimit(r.alloc[q.Name], limit, charge) {
						good = false
					}
					continue
				}
				if !fitsUnder(r.alloc[q.Name], charge, quota) || !fitsUnder(r.alloc[q.Name], charge, limit) {
					good = false
				}
			}
			// victim side: strictly above deserved quota from the leaf up to the level below the common ancestor
			for _, q := range vpath {
				if inR[q.Name] {
					continue
				}
				_, quota := limits(q)
				if !above(v.alloc[q.Name], quota) {
					good = false
				}
			}
			if good {
				return true, fmt.Sprintf("queue %s stays within deserved quota with it; queue %s is above its deserved quota and runs a preemptible workload", rq, vq)
			}
		}
		return false, ""
	}
	always := func(x *unitWorkload) bool { return x.running }
	notEvicted := func(x *unitWorkload) bool { return x.running && !evicted[x.pg.Name] }
	var eligB []*unitWorkload
	eligBNames := map[string]bool{}
	for _, w := range pendings {
		if ok, _ := eligibleB(w, startV, startV, always); ok {
			eligB = append(eligB, w)
			eligBNames[w.pg.Name] = true
		}
	}
	if len(eligB) > 0 {
		st.Inc("reclaim_situations_found")
		st.Add("reclaim_eligible_workloads", len(eligB))
		done := false
		var names []string
		for _, w := range eligB {
			names = append(names, w.pg.Name)
			if a, ok := placed[w.pg.Name]; ok {
				done = true
				st.Inc("reclaim_eligible_placed_by_" + a)
			}
		}
		if done {
			st.Inc("reclaim_situations_judged")
			st.Inc("reclaim_progress_seen")
			st.NonTrivial = true
		} else {
			// still eligible under the bounds that hold at every moment of the cycle (nobody else used up the victims
			// or the reclaimer's quota)?
			var robust *unitWorkload
			whyW := ""
			for _, w := range eligB {
				if ok, why := eligibleB(w, hiV, loV, notEvicted); ok {
					robust, whyW = w, why
					break
				}
			}
			if robust == nil {
				st.Inc("reclaim_not_judged:victims-or-quota-used-by-others")
			} else {
				st.Inc("reclaim_situations_judged")
				st.NonTrivial = true
				w := robust
				wits = append(wits, ProgressWitness{Clause: "reclaim", Workload: w.pg.Name, Queue: w.pg.Spec.Queue, Why: whyW})
				cz := cause(w, eligBNames)
				if cz == "plain" {
					// is there a preemptible running workload elsewhere that is NOT a legitimate victim for w? (With
					// AllowConsolidatingReclaim=false the reclaim validator is handed every accumulated potential victim;
					// with true the solver still evicts every potential victim of a node and lets the fairness order pick.)
					for _, x := range ws {
						if !x.preempt || x.pg.Spec.Queue == w.pg.Spec.Queue || !leafOK(m, x.pg.Spec.Queue, hasChild) {
							continue
						}
						only := func(y *unitWorkload) bool { return y == x }
						if x.running {
							if ok, _ := eligibleB(w, startV, startV, only); !ok {
								cz = "non-reclaimable-potential-victims-present"
								break
							}
						} else if _, nominated := placed[x.pg.Name]; nominated {
							// a workload nominated earlier in this cycle is a potential victim as well
							if ok, _ := eligibleB(w, hiV, hiV, only); !ok {
								cz = "non-reclaimable-potential-victims-present"
								break
							}
						}
					}
				}
				cz += fmt.Sprintf(":consolidating-reclaim=%v", m.Cfg.AllowConsolidatingReclaim)
				out = append(out, oracle.Viol("C05", "reclaim-progress", cz+":"+sigTail, cycle,
					"no eligible pending workload was nominated or bound in one full cycle: eligible at cycle start %v; %s in queue %s (%s) is eligible at every moment of the cycle: %s; evictions seen in the cycle: %v; placed: %v; queue usage at cycle start (own model): %s; scheduler's view at session open:%s",
					names, w.pg.Name, w.pg.Spec.Queue, preemptWord(m, w.pg), whyW, evictAction, placed, usageString(m, u), diag.queues(allQueues...)))
			}
		}
	} else if len(pendings) > 0 {
		st.Inc("reclaim_no_eligible_pair")
	}

	// ------------------------------------------------------------------ (c) preempt progress
	eligibleC := func(w *unitWorkload, r view, available func(*unitWorkload) bool) []*unitWorkload {
		qn := w.pg.Spec.Queue
		for _, q := range m.QueuePath(qn) {
			limit, quota := limits(q)
			// the exchange keeps the allocation of the queue and every ancestor: it must be within the limit already
			if !underLimit(r.alloc[q.Name], limit, charge) {
				return nil
			}
			if !w.preempt && !fitsUnder(r.allocNP[q.Name], charge, quota) {
				return nil
			}
		}
		var vs []*unitWorkload
		for _, v := range byQueue[qn] {
			if v.running && v.preempt && v.prio < w.prio && available(v) {
				vs = append(vs, v)
			}
		}
		return vs
	}
	for _, qn := range sortedKeys(byQueue) {
		var eligible []*unitWorkload
		eligibleNames := map[string]bool{}
		for _, w := range byQueue[qn] {
			if !w.running && len(eligibleC(w, startV, always)) > 0 {
				eligible = append(eligible, w)
				eligibleNames[w.pg.Name] = true
			}
		}
		if len(eligible) == 0 {
			continue
		}
		st.Inc("preempt_situations_found")
		done := false
		for _, w := range eligible {
			if a, ok := placed[w.pg.Name]; ok {
				done = true
				st.Inc("preempt_eligible_placed_by_" + a)
			}
		}
		if done {
			st.Inc("preempt_situations_judged")
			st.Inc("preempt_progress_seen")
			st.NonTrivial = true
			continue
		}
		var robust *unitWorkload
		var victims []*unitWorkload
		for _, w := range eligible {
			if vs := eligibleC(w, hiV, notEvicted); len(vs) > 0 {
				robust, victims = w, vs
				break
			}
		}
		if robust == nil {
			st.Inc("preempt_not_judged:victims-or-quota-used-by-others")
			continue
		}
		st.Inc("preempt_situations_judged")
		st.NonTrivial = true
		w := robust
		var names []string
		for _, e := range eligible {
			names = append(names, fmt.Sprintf("%s(prio %d,%s)", e.pg.Name, e.prio, preWord(e.preempt)))
		}
		var vs []string
		for _, v := range victims {
			vs = append(vs, fmt.Sprintf("%s(prio %d on %s)", v.pg.Name, v.prio, v.pod.Spec.NodeName))
		}
		var others []string
		for _, o := range byQueue[qn] {
			if !o.running && !eligibleNames[o.pg.Name] {
				others = append(others, fmt.Sprintf("%s(prio %d,%s,class %s)", o.pg.Name, o.prio, preWord(o.preempt), o.pod.Spec.PriorityClassName))
			}
		}
		var qs []string
		for _, q := range m.QueuePath(qn) {
			qs = append(qs, q.Name)
		}
		wits = append(wits, ProgressWitness{Clause: "preempt", Workload: w.pg.Name, Queue: qn, Victims: vs, Why: "strictly lower-priority preemptible running workloads in the same queue"})
		out = append(out, oracle.Viol("C05", "preempt-progress", cause(w, eligibleNames)+":"+sigTail, cycle,
			"queue %s: none of the eligible pending workloads %v was nominated or bound in one full cycle; %s (priority %d, %s, pod priority class %q) is eligible at every moment of the cycle: strictly lower-priority preemptible workloads of the same queue kept running: %v (other pending workloads of the queue, not eligible: %v); evictions seen: %v; placed: %v; queue usage at cycle start (own model): %s; scheduler's view at session open:%s",
			qn, names, w.pg.Name, w.prio, preWord(w.preempt), w.pod.Spec.PriorityClassName, vs, others, evictAction, placed, usageString(m, u), diag.queues(qs...)))
	}
	return out, wits
}

func preWord(p bool) string {
	if p {
		return "preemptible"
	}
	return "non-preemptible"
}

func usageString(m *oracle.Model, u *oracle.QueueUsage) string {
	var sb strings.Builder
	for _, name := range sortedKeys(m.Queues) {
		limit, quota := oracle.QueueLimits(m.Queues[name])
		a, np := u.Alloc[name], u.AllocNP[name]
		fmt.Fprintf(&sb, "[%s parent=%q alloc(g%.4g c%.6g) np(g%.4g c%.6g) quota(g%.4g c%.6g) limit(g%.4g c%.6g)]", name, m.Queues[name].Spec.ParentQueue,
			a.GPU, a.CPU, np.GPU, np.CPU, quota.GPU, quota.CPU, limit.GPU, limit.CPU)
	}
	return sb.String()
}
