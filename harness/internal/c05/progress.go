package c05

import (
	"fmt"
	"reflect"
	"sort"
	"strings"

	v1 "k8s.io/api/core/v1"

	enginev2 "github.com/NVIDIA/KAI-scheduler/pkg/apis/scheduling/v2"
	enginev2alpha2 "github.com/NVIDIA/KAI-scheduler/pkg/apis/scheduling/v2alpha2"

	"verif/harness/internal/k8sm"
	"verif/harness/internal/oracle"
	"verif/harness/internal/run"
	"verif/harness/internal/sched"
	"verif/harness/internal/spec"
)

const eps = 1e-9

// unitWorkload is a single-pod workload of the unobstructed class.
type unitWorkload struct {
	pg      *enginev2alpha2.PodGroup
	pod     *v1.Pod
	running bool
	prio    int32
	preempt bool
}

// unobstructed verifies (from the API objects) that the cluster is in the class the statement names and returns
// the workloads and the per-workload charge. A non-empty reason means "not judged".
func unobstructed(m *oracle.Model, cs *spec.Case) (ws []*unitWorkload, charge oracle.Res, reason string) {
	acts := splitActions(m.Cfg.Actions)
	has := map[string]bool{}
	for _, a := range acts {
		has[a] = true
	}
	if !has["allocate"] || !has["reclaim"] || !has["preempt"] || len(acts) == 0 || acts[0] != "allocate" {
		return nil, charge, "actions"
	}
	if len(m.Cfg.QueueDepth) > 0 || m.Cfg.RestrictNodeScheduling {
		return nil, charge, "config"
	}
	if a := m.Cfg.PluginArgs["minruntime"]; a != nil {
		for _, k := range []string{"defaultReclaimMinRuntime", "defaultPreemptMinRuntime"} {
			if v := a[k]; v != "" && v != "0s" && v != "0" {
				return nil, charge, "min-runtime"
			}
		}
	}
	if len(m.O.BindRequests) > 0 {
		return nil, charge, "bind-requests"
	}
	if len(m.Nodes) == 0 || len(m.Nodes) != len(m.AllNodes) {
		return nil, charge, "nodes"
	}
	var first *v1.Node
	for _, name := range sortedKeys(m.Nodes) {
		n := m.Nodes[name]
		if ok, _ := nodeHealthy(n); !ok || len(n.Spec.Taints) > 0 {
			return nil, charge, "unhealthy-node"
		}
		if _, mig := n.Labels["nvidia.com/mig.strategy"]; mig {
			return nil, charge, "mig-node"
		}
		if first == nil {
			first = n
		} else if !reflect.DeepEqual(k8sm.Allocatable(first), k8sm.Allocatable(n)) {
			return nil, charge, "different-nodes"
		}
	}
	for _, q := range m.O.Queues {
		if q.Spec.PreemptMinRuntime != nil || q.Spec.ReclaimMinRuntime != nil {
			return nil, charge, "min-runtime"
		}
		if q.Spec.Resources == nil {
			return nil, charge, "queue-without-resources"
		}
	}
	podsOf := map[string][]*v1.Pod{}
	var shape k8sm.Req
	for _, p := range m.O.Pods {
		if p.DeletionTimestamp != nil {
			return nil, charge, "terminating-pod"
		}
		g := p.Annotations["pod-group-name"]
		if p.Spec.SchedulerName != spec.SchedulerName || g == "" || oracle.IsReservation(p) {
			return nil, charge, "foreign-pod"
		}
		if unsupported(p) != "" || len(p.Spec.NodeSelector) > 0 || p.Spec.Affinity != nil || len(p.Spec.SchedulingGates) > 0 || len(p.Spec.InitContainers) > 0 || p.Spec.Overhead != nil {
			return nil, charge, "constrained-pod"
		}
		gr := k8sm.GPURequest(p)
		if gr.Shared() {
			return nil, charge, "fraction-pod"
		}
		req := k8sm.PodRequest(p)
		if shape == nil {
			shape = req
			charge = oracle.PodRes(p, nil)
		} else if !reflect.DeepEqual(shape, req) {
			return nil, charge, "different-pods"
		}
		switch podState(m, p) {
		case "pending", "active":
		default:
			return nil, charge, "pod-state"
		}
		podsOf[g] = append(podsOf[g], p)
	}
	if shape == nil {
		return nil, charge, "no-pods"
	}
	// a workload must need exactly one scarce unit: either one whole GPU, or (cpu variant) no GPU at all
	for _, name := range sortedKeys(m.PodGroups) {
		pg := m.PodGroups[name]
		ps := podsOf[name]
		if len(ps) != 1 || pg.Spec.MinMember != 1 || len(pg.Spec.SubGroups) > 0 || pg.Spec.SchedulingBackoff != nil ||
			pg.Spec.TopologyConstraint != (enginev2alpha2.TopologyConstraint{}) {
			return nil, charge, "not-single-pod-workload"
		}
		p := ps[0]
		st := podState(m, p)
		w := &unitWorkload{pg: pg, pod: p, running: st == "active", prio: m.Priority(pg), preempt: m.Preemptible(pg)}
		if w.running {
			if _, ok := m.Nodes[p.Spec.NodeName]; !ok {
				return nil, charge, "pod-on-unknown-node"
			}
		}
		ws = append(ws, w)
	}
	for g := range podsOf {
		if _, ok := m.PodGroups[g]; !ok {
			return nil, charge, "pod-without-group"
		}
	}
	return ws, charge, ""
}

func sortedKeys[V any](m map[string]V) []string {
	ks := make([]string, 0, len(m))
	for k := range m {
		ks = append(ks, k)
	}
	sort.Strings(ks)
	return ks
}

// leafOK: the queue is a leaf whose whole ancestor chain exists (what the scheduler needs to consider its jobs).
func leafOK(m *oracle.Model, name string, hasChild map[string]bool) bool {
	q, ok := m.Queues[name]
	if !ok || hasChild[name] {
		return false
	}
	path := m.QueuePath(q.Name)
	return path[len(path)-1].Spec.ParentQueue == ""
}

// geq: is allocation strictly above the deserved quota in some resource (quota finite)?
func above(alloc, quota oracle.Res) bool {
	for r := 0; r < 3; r++ {
		if quota.Get(r) >= 0 && alloc.Get(r) > quota.Get(r)+eps {
			return true
		}
	}
	return false
}

// fitsUnder: alloc+add <= bound in every resource (bound < 0 = unlimited).
func fitsUnder(alloc, add, bound oracle.Res) bool {
	for r := 0; r < 3; r++ {
		if bound.Get(r) >= 0 && add.Get(r) > 0 && alloc.Get(r)+add.Get(r) > bound.Get(r)+eps {
			return false
		}
	}
	return true
}

// fitsUnderAll: like fitsUnder, but also resources the workload does not request must not already exceed.
func underLimit(alloc, bound oracle.Res, add oracle.Res) bool {
	for r := 0; r < 3; r++ {
		if bound.Get(r) >= 0 && add.Get(r) > 0 && alloc.Get(r) > bound.Get(r)+eps {
			return false
		}
	}
	return true
}

// ProgressWitness is stored in the replay file.
type ProgressWitness struct {
	Clause   string   `json:"clause"`
	Workload string   `json:"workload"`
	Queue    string   `json:"queue"`
	Victims  []string `json:"victims"`
	Why      string   `json:"why"`
}

func checkProgress(m *oracle.Model, cs *spec.Case, events []sched.Event, cycle int, diag *sessionDiag, st *oracle.Stats) ([]run.Violation, []any) {
	for i := range events {
		if events[i].Err != "" {
			st.Inc("progress_cycles_skipped_failed_call")
			return nil, nil
		}
	}
	ws, charge, why := unobstructed(m, cs)
	if why != "" {
		st.Inc("progress_not_judged:obstructed:" + why)
		return nil, nil
	}
	st.Inc("progress_cycles_in_class")
	variant := "gpu"
	if charge.GPU == 0 {
		variant = "cpu"
	}
	structure := metaString(cs, "structure")
	if structure == "" {
		structure = "unknown"
	}
	hasChild := map[string]bool{}
	for _, q := range m.Queues {
		if q.Spec.ParentQueue != "" {
			hasChild[q.Spec.ParentQueue] = true
		}
	}
	u := oracle.NewQueueUsage(m)
	placed := map[string]string{} // pod group -> action that bound / nominated it
	evictedBy := map[string]string{}
	evictAction := map[string]string{}
	for i := range events {
		e := &events[i]
		switch e.Kind {
		case "bind", "pipeline":
			if _, dup := placed[e.Group]; !dup {
				placed[e.Group] = e.Action
			}
		case "evict":
			evictedBy[e.Group] = strings.TrimPrefix(e.Preemptor, "ns/")
			evictAction[e.Group] = e.EvictAction
			st.Inc("progress_evictions_" + e.EvictAction)
		}
	}
	// free slots: the statement is about a full cluster; with free capacity allocate must place (clause a)
	var pendings, runnings []*unitWorkload
	byQueue := map[string][]*unitWorkload{}
	for _, w := range ws {
		if !leafOK(m, w.pg.Spec.Queue, hasChild) {
			continue
		}
		byQueue[w.pg.Spec.Queue] = append(byQueue[w.pg.Spec.Queue], w)
		if w.running {
			runnings = append(runnings, w)
		} else {
			pendings = append(pendings, w)
		}
	}
	st.Add("progress_pending_workloads", len(pendings))
	st.Add("progress_running_workloads", len(runnings))
	limits := func(q *enginev2.Queue) (oracle.Res, oracle.Res) { return oracle.QueueLimits(q) }

	var out []run.Violation
	var wits []any
	sigTail := fmt.Sprintf("%s:%s:signatures=%v", variant, structure, m.Cfg.UseSchedulingSignatures)

	// ------------------------------------------------------------------ (b) reclaim progress
	// over-quota victim queues: leaf V with a preemptible running workload
	victimLeaves := []string{}
	for _, qn := range sortedKeys(byQueue) {
		for _, w := range byQueue[qn] {
			if w.running && w.preempt {
				victimLeaves = append(victimLeaves, qn)
				break
			}
		}
	}
	var eligibleB []*unitWorkload
	whyB := map[string]string{}
	for _, w := range pendings {
		rq := w.pg.Spec.Queue
		rpath := m.QueuePath(rq)
		// limits and the non-preemptible rule at every level
		ok := true
		for _, q := range rpath {
			_, quota := limits(q)
			if !w.preempt && !fitsUnder(u.AllocNP[q.Name], charge, quota) {
				ok = false
			}
		}
		if !ok {
			continue
		}
		for _, vq := range victimLeaves {
			if vq == rq {
				continue
			}
			vpath := m.QueuePath(vq)
			inV := map[string]bool{}
			for _, q := range vpath {
				inV[q.Name] = true
			}
			inR := map[string]bool{}
			for _, q := range rpath {
				inR[q.Name] = true
			}
			good := true
			// reclaimer side: within deserved quota from the leaf up to the level below the common ancestor
			for _, q := range rpath {
				if inV[q.Name] {
					// common ancestor: the swap keeps its allocation; it must not already exceed its limit
					limit, _ := limits(q)
					if !underLimit(u.Alloc[q.Name], limit, charge) {
						good = false
					}
					continue
				}
				limit, quota := limits(q)
				if !fitsUnder(u.Alloc[q.Name], charge, quota) || !fitsUnder(u.Alloc[q.Name], charge, limit) {
					good = false
				}
			}
			// victim side: strictly above deserved quota from the leaf up to the level below the common ancestor
			for _, q := range vpath {
				if inR[q.Name] {
					continue
				}
				_, quota := limits(q)
				if !above(u.Alloc[q.Name], quota) {
					good = false
				}
			}
			if good {
				eligibleB = append(eligibleB, w)
				whyB[w.pg.Name] = fmt.Sprintf("queue %s stays within deserved quota with it; queue %s is above its deserved quota and runs a preemptible workload", rq, vq)
				break
			}
		}
	}
	if len(eligibleB) > 0 {
		st.Inc("reclaim_situations_judged")
		st.Add("reclaim_eligible_workloads", len(eligibleB))
		st.NonTrivial = true
		done := false
		var names []string
		for _, w := range eligibleB {
			names = append(names, w.pg.Name)
			if a, ok := placed[w.pg.Name]; ok {
				done = true
				st.Inc("reclaim_eligible_placed_by_" + a)
			}
		}
		if done {
			st.Inc("reclaim_progress_seen")
		} else {
			w := eligibleB[0]
			var qs []string
			for _, q := range m.O.Queues {
				qs = append(qs, q.Name)
			}
			sort.Strings(qs)
			wits = append(wits, ProgressWitness{Clause: "reclaim", Workload: w.pg.Name, Queue: w.pg.Spec.Queue, Victims: victimLeaves, Why: whyB[w.pg.Name]})
			out = append(out, oracle.Viol("C05", "reclaim-progress", sigTail, cycle,
				"no eligible pending workload was nominated or bound in one full cycle: eligible %v (e.g. %s in queue %s, %s: %s); evictions seen in the cycle: %v; placed: %v; queue usage (own model): %s; scheduler's view at session open:%s",
				names, w.pg.Name, w.pg.Spec.Queue, preemptWord(m, w.pg), whyB[w.pg.Name], evictAction, placed, usageString(m, u), diag.queues(qs...)))
		}
	} else if len(pendings) > 0 {
		st.Inc("reclaim_no_eligible_pair")
	}

	// ------------------------------------------------------------------ (c) preempt progress
	for _, qn := range sortedKeys(byQueue) {
		path := m.QueuePath(qn)
		var eligible []*unitWorkload
		victimsOf := map[string][]string{}
		allVictims := map[string]*unitWorkload{}
		for _, w := range byQueue[qn] {
			if w.running {
				continue
			}
			ok := true
			for _, q := range path {
				limit, quota := limits(q)
				// the swap keeps the allocation of every ancestor: it must be within the limit already
				if !underLimit(u.Alloc[q.Name], limit, charge) {
					ok = false
				}
				if !w.preempt && !fitsUnder(u.AllocNP[q.Name], charge, quota) {
					ok = false
				}
			}
			if !ok {
				continue
			}
			for _, v := range byQueue[qn] {
				if v.running && v.preempt && v.prio < w.prio {
					victimsOf[w.pg.Name] = append(victimsOf[w.pg.Name], v.pg.Name)
					allVictims[v.pg.Name] = v
				}
			}
			if len(victimsOf[w.pg.Name]) > 0 {
				eligible = append(eligible, w)
			}
		}
		if len(eligible) == 0 {
			continue
		}
		st.Inc("preempt_situations_found")
		eligibleNames := map[string]bool{}
		for _, w := range eligible {
			eligibleNames[w.pg.Name] = true
		}
		done := false
		for _, w := range eligible {
			if a, ok := placed[w.pg.Name]; ok {
				done = true
				st.Inc("preempt_eligible_placed_by_" + a)
			}
		}
		if done {
			st.Inc("preempt_situations_judged")
			st.Inc("preempt_progress_seen")
			st.NonTrivial = true
			continue
		}
		// victims taken away earlier in the cycle by somebody who is not one of the eligible workloads
		// (another queue's reclaim): then nothing is demanded of this queue
		stillThere := false
		for _, w := range eligible {
			for _, vn := range victimsOf[w.pg.Name] {
				if by, gone := evictedBy[vn]; !gone || eligibleNames[by] {
					stillThere = true
				}
			}
		}
		if !stillThere {
			st.Inc("preempt_not_judged:victims-taken-by-other-queues")
			continue
		}
		st.Inc("preempt_situations_judged")
		st.NonTrivial = true
		w := eligible[0]
		var names []string
		for _, e := range eligible {
			names = append(names, fmt.Sprintf("%s(prio %d,%s)", e.pg.Name, e.prio, preWord(e.preempt)))
		}
		var vs []string
		for _, vn := range sortedKeys(allVictims) {
			v := allVictims[vn]
			vs = append(vs, fmt.Sprintf("%s(prio %d on %s)", vn, v.prio, v.pod.Spec.NodeName))
		}
		var others []string
		for _, o := range byQueue[qn] {
			if !o.running && !eligibleNames[o.pg.Name] {
				others = append(others, fmt.Sprintf("%s(prio %d,%s)", o.pg.Name, o.prio, preWord(o.preempt)))
			}
		}
		var qs []string
		for _, q := range path {
			qs = append(qs, q.Name)
		}
		wits = append(wits, ProgressWitness{Clause: "preempt", Workload: w.pg.Name, Queue: qn, Victims: vs, Why: "strictly lower-priority preemptible running workloads in the same queue"})
		out = append(out, oracle.Viol("C05", "preempt-progress", sigTail, cycle,
			"queue %s: none of the eligible pending workloads %v was nominated or bound in one full cycle although strictly lower-priority preemptible workloads run in the same queue: %v (other pending workloads of the queue, not eligible: %v); evictions seen: %v; placed: %v; queue usage (own model): %s; scheduler's view at session open:%s",
			qn, names, vs, others, evictAction, placed, usageString(m, u), diag.queues(qs...)))
	}
	return out, wits
}

func preWord(p bool) string {
	if p {
		return "preemptible"
	}
	return "non-preemptible"
}

func usageString(m *oracle.Model, u *oracle.QueueUsage) string {
	var sb strings.Builder
	for _, name := range sortedKeys(m.Queues) {
		limit, quota := oracle.QueueLimits(m.Queues[name])
		a, np := u.Alloc[name], u.AllocNP[name]
		fmt.Fprintf(&sb, "[%s parent=%q alloc(g%.4g c%.6g) np(g%.4g c%.6g) quota(g%.4g c%.6g) limit(g%.4g c%.6g)]", name, m.Queues[name].Spec.ParentQueue,
			a.GPU, a.CPU, np.GPU, np.CPU, quota.GPU, quota.CPU, limit.GPU, limit.CPU)
	}
	return sb.String()
}
