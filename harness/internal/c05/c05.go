// Package c05 is the runtime monitor for property C05 (progress, bounded to one cycle):
//
//	(a) work conservation after the allocate action,
//	(b) reclaim progress and (c) preempt progress in the "unobstructed" class
//	    (interchangeable single-pod workloads on interchangeable nodes).
//
// Every verdict comes from observing cycles of the REAL scheduler (cache.New -> OpenSession -> actions ->
// CloseSession on the shared in-memory store). The oracles recompute everything from API objects with the
// harness' own code (internal/k8sm, internal/oracle); scheduler state read through hooks is used for
// diagnostics in messages only, never for a verdict.
package c05

import (
	"crypto/sha256"
	"encoding/hex"
	"encoding/json"
	"fmt"
	"os"
	"time"

	"verif/harness/internal/gen"
	"verif/harness/internal/oracle"
	"verif/harness/internal/run"
	"verif/harness/internal/sched"
	"verif/harness/internal/spec"
	"verif/harness/internal/store"
	"verif/harness/internal/world"
)

// Check implements run.Check for C05.
type Check struct{}

// New returns the C05 check.
func New() run.Check { return &Check{} }

func (c *Check) ID() string    { return "C05" }
func (c *Check) Level() string { return "exploration" }
func (c *Check) NumCases(tier string) int {
	if tier == "thorough" {
		return 24000
	}
	return 3200
}
func (c *Check) CaseTimeout() time.Duration { return 120 * time.Second }
func (c *Check) CrashIsViolation() bool     { return true }

func (c *Check) Rule() string {
	return "case index mod 4: 0,1 = work conservation on heterogeneous clusters drawn by internal/gen (4 knob variants: mixed, limits, gangs, fractions; actions allocate-only or all five; 1-2 cycles with the world model in between; no API faults; queue depth unlimited): after the allocate action every ready pending workload without a bind/nomination is judged if its class has a greedy-robust witness (single pod, elastic extra pod, gang or gang remainder of k identical pods; no inter-pod affinity / PVC / DRA / topology / sub-groups / MIG; sharing pods single-device only: free whole device + 2 pod slots, or an existing group with room) by searching a witness on the final residual capacity (allocatable - occupying incl. terminating - binds - nominations of the cycle) under the harness' own node predicates and its own queue limit / non-preemptible-quota model. " +
		"2 = reclaim and 3 = preempt clusters built by this package (identical nodes, identical single-pod whole-GPU or CPU-only workloads, flat / one root / two-level queue trees with or without root, cpu+memory quotas unlimited (GPU variant), no min-runtime, cluster full; binpack/spread, consolidation on/off, scheduling signatures on/off, consolidating reclaim on/off, saturation multiplier, integer and fractional quotas (also oversubscribed), over-quota weights, queue priorities, limits, explicit preemptibility, priority gaps of 1): one full cycle (allocate, consolidation, reclaim, preempt, stalegangeviction) must nominate or bind an eligible workload; both clauses (b) and (c) are evaluated on every such cluster. " +
		"Non-trivial: a case in which at least one workload (a) or one progress situation (b)/(c) was judged. Distinct = distinct hash of (objects, config)."
}

func (c *Check) Assumptions() []string {
	return []string{
		"(a) is judged on the allocate action only (it is the first action of every configuration); a workload that received a nomination (TaskPipelined) counts as placed",
		"(a) residual capacity subtracts terminating pods AND pods nominated in the cycle (never larger than the scheduler's Idle and Idle+Releasing), so a witness implies both FittingNode and IsTaskAllocatable; capacity only shrinks during allocate, so a witness on the final residual was a witness when the workload was tried",
		"(a) node feasibility = Ready, schedulable, no pressure / network-unavailable condition, node pool, nodeSelector, required node affinity, NoSchedule/NoExecute taints, required anti-affinity of pods already on nodes; GPU pods are not witnessed on MIG nodes; gpu-memory pods need the gpu.memory label",
		"(a) queue model: requests of active non-terminating pods + binds + nominations of the cycle rolled up the tree (flattened like the scheduler does with full-hierarchy-fairness off); gpu-memory pods charged ceil(memory/deviceMemory,0.01); a sum that reaches a limit exactly is accepted only if all addends are dyadic (exact in float64), otherwise 1e-6 below the bound is required",
		"(a) cycles in which a Bind call failed or the session did not open are not judged; pending pods of one workload must be identical; workloads of missing / non-leaf queues are not judged",
		"(b) a pending workload is eligible if its leaf queue and every ancestor below the common ancestor stay within deserved quota and limit with it (which implies within fair share: fair share >= min(deserved, requestable) at every level), a non-preemptible reclaimer stays within deserved quota at every level, and some other leaf queue with a preemptible running workload is strictly above deserved quota at every level up to the level where the two paths diverge; demanded: some eligible workload is bound or nominated",
		"(c) a pending workload is eligible if a strictly lower-priority preemptible running workload exists in the same leaf queue, the exchange keeps the queue and every ancestor within its limit, and a non-preemptible preemptor stays within deserved quota at every level; demanded per leaf queue: some eligible workload is bound or nominated (by any action)",
		"(b)/(c) a missing progress is reported only if some eligible workload is still eligible under bounds that hold at every moment of the cycle (upper bound of the reclaimer-side allocation = start + every placement of the cycle, lower bound of the victim-side allocation = start - every eviction, victims not evicted by anybody): contention with other workloads of the same cycle is never reported",
		"(b)/(c) the oracle verifies the unobstructed class itself from the API objects (identical healthy untainted nodes, identical unconstrained single-pod workloads, no terminating pods, no bind requests, no min-runtime, all three actions configured) and does not judge otherwise",
		"the SUT breaks score ties between nodes in goroutine completion order, so a replay can pick another node than the recorded run; verdicts do not depend on which node was picked",
	}
}

// CycleRecord is kept for replay files.
type CycleRecord struct {
	Cycle  int           `json:"cycle"`
	Events []sched.Event `json:"events"`
	Panic  string        `json:"panic,omitempty"`
	World  []string      `json:"world,omitempty"`
	Diag   any           `json:"diag,omitempty"`
}

// Replay is the replay file format (same shape as the scheduler-side checks, plus witnesses).
type Replay struct {
	Case       *spec.Case      `json:"case"`
	Cycles     []CycleRecord   `json:"cycles"`
	Violations []run.Violation `json:"violations"`
	Witnesses  []any           `json:"witnesses,omitempty"`
}

func hashCase(c *spec.Case) string {
	b, _ := json.Marshal(struct {
		O spec.Objects
		C spec.SchedConfig
	}{c.Objects, c.Config})
	h := sha256.Sum256(b)
	return hex.EncodeToString(h[:8])
}

// RunCase generates and runs one case.
func (c *Check) RunCase(seed int64, index int, tier string, env *run.Env) run.CaseResult {
	var cs *spec.Case
	switch index % 4 {
	case 0, 1:
		cs = genWorkConservation(seed, index, tier)
	case 2:
		cs = genProgress(seed, index, tier, "reclaim")
	default:
		cs = genProgress(seed, index, tier, "preempt")
	}
	cs.Property = "C05"
	return c.RunGenerated(cs, env)
}

// Replay re-runs the case stored in a replay file.
func (c *Check) Replay(path string, env *run.Env) run.CaseResult {
	b, err := os.ReadFile(path)
	if err != nil {
		return run.CaseResult{Verdict: run.Inconclusive, Note: err.Error()}
	}
	var rp Replay
	if err := json.Unmarshal(b, &rp); err != nil || rp.Case == nil {
		return run.CaseResult{Verdict: run.Inconclusive, Note: "bad replay file"}
	}
	_ = os.MkdirAll(env.WorkDir, 0o755)
	return c.RunGenerated(rp.Case, env)
}

func metaString(c *spec.Case, k string) string {
	if v, ok := c.Meta[k]; ok {
		return fmt.Sprint(v)
	}
	return ""
}

// RunGenerated runs a given case.
func (c *Check) RunGenerated(cs *spec.Case, env *run.Env) run.CaseResult {
	res := run.CaseResult{Verdict: run.Held, Hash: hashCase(cs)}
	_ = cs.Save(fmt.Sprintf("%s/case-C05-%d.json", env.WorkDir, cs.Index))
	st := store.New()
	if err := st.Add(cs.Objects.All()...); err != nil {
		res.Verdict = run.Inconclusive
		res.Note = "store add: " + err.Error()
		return res
	}
	st.GracefulPods.Store(true)
	stats := oracle.NewStats()
	kind := metaString(cs, "c05kind") // "wc" | "reclaim" | "preempt"
	if kind == "" {
		kind = "wc"
	}
	stats.Inc("cases_" + kind)

	diag := &sessionDiag{}
	hooks := sched.Hooks{AfterOpen: diag.afterOpen, AfterAction: diag.afterAction}
	r, err := sched.NewRunner(st, cs, gen.NewRand(cs.Seed, cs.Index, 2), hooks)
	if err != nil {
		res.Verdict = run.Inconclusive
		res.Note = "runner: " + err.Error()
		return res
	}
	w := world.New(st, gen.NewRand(cs.Seed, cs.Index, 3), cs.World)
	var viols []run.Violation
	var witnesses []any
	var hist []CycleRecord
	panicked := false
	for cyc := 1; cyc <= cs.Cycles; cyc++ {
		before := st.ReadAll()
		diag.reset()
		cr := r.Cycle()
		rec := CycleRecord{Cycle: cyc, Events: cr.Events, Panic: cr.Panic}
		stats.Inc("cycles")
		stats.Add("events", len(cr.Events))
		for i := range cr.Events {
			e := &cr.Events[i]
			if e.Err == "" {
				stats.Inc("events_" + e.Action + "_" + e.Kind)
			}
		}
		m := oracle.NewModel(&cs.Config, before)
		switch {
		case cr.Panic != "":
			stats.Inc("sut_panics")
			panicked = true
		case cr.OpenErr != "":
			stats.Inc("open_session_errors")
		case kind == "wc":
			v, ws := checkWorkConservation(m, cr.Events, cyc, diag, stats)
			viols = append(viols, v...)
			witnesses = append(witnesses, ws...)
		default:
			v, ws := checkProgress(m, cs, cr.Events, cyc, diag, stats)
			viols = append(viols, v...)
			witnesses = append(witnesses, ws...)
			rec.Diag = diag.queueDiag
		}
		w.Step()
		rec.World = w.Log
		hist = append(hist, rec)
		if cr.Panic != "" {
			break
		}
	}
	res.Counters = stats.Counters
	res.NonTrivial = stats.NonTrivial
	if panicked && len(viols) == 0 {
		res.Verdict = run.Inconclusive
		res.Note = "scheduler cycle panicked (see C10)"
	}
	if len(viols) > 0 {
		res.Verdict = run.Violated
		res.Violations = viols
		res.Replay = env.SaveReplay("C05", cs.Seed, cs.Index, Replay{Case: cs, Cycles: hist, Violations: viols, Witnesses: witnesses})
	}
	res.Sample = sampleOf(cs, hist, kind)
	return res
}

func sampleOf(c *spec.Case, hist []CycleRecord, kind string) any {
	type ev struct {
		Cycle  int    `json:"cycle"`
		Action string `json:"action"`
		Kind   string `json:"kind"`
		Pod    string `json:"pod"`
		Node   string `json:"node,omitempty"`
	}
	var evs []ev
	for _, h := range hist {
		for _, e := range h.Events {
			if len(evs) < 30 {
				evs = append(evs, ev{h.Cycle, e.Action, e.Kind, e.Pod, e.Node})
			}
		}
	}
	return map[string]any{"seed": c.Seed, "index": c.Index, "kind": kind, "profile": c.Profile, "nodes": len(c.Objects.Nodes), "queues": len(c.Objects.Queues),
		"podGroups": len(c.Objects.PodGroups), "pods": len(c.Objects.Pods), "actions": c.Config.Actions, "cycles": c.Cycles,
		"signatures": c.Config.UseSchedulingSignatures, "consolidationPreemptees": c.Config.MaxNumberConsolidationPreemptees,
		"placement": c.Config.PluginArgs["nodeplacement"], "meta": c.Meta, "events": evs}
}
