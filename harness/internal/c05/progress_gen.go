package c05

import (
	"fmt"
	"math/rand/v2"
	"strconv"
	"time"

	v1 "k8s.io/api/core/v1"
	schedulingv1 "k8s.io/api/scheduling/v1"
	"k8s.io/apimachinery/pkg/api/resource"
	metav1 "k8s.io/apimachinery/pkg/apis/meta/v1"
	"k8s.io/apimachinery/pkg/types"
	"k8s.io/utils/ptr"

	enginev2 "github.com/NVIDIA/KAI-scheduler/pkg/apis/scheduling/v2"
	enginev2alpha2 "github.com/NVIDIA/KAI-scheduler/pkg/apis/scheduling/v2alpha2"

	"verif/harness/internal/gen"
	"verif/harness/internal/spec"
)

// priority classes of the unobstructed clusters (value < 100 = preemptible unless stated explicitly)
var progPrios = []struct {
	name string
	val  int32
}{{"p-low", 40}, {"p-train", 50}, {"p-51", 51}, {"p-mid", 75}, {"p-99", 99}, {"p-build", 100}, {"p-inf", 125}}

type progGen struct {
	r       *rand.Rand
	c       *spec.Case
	now     time.Time
	variant string // "gpu" | "cpu"
	wid     int
	// free slots per node
	free []int
}

func pickR[T any](r *rand.Rand, xs ...T) T { return xs[r.IntN(len(xs))] }

func qty(n int64) resource.Quantity  { return *resource.NewQuantity(n, resource.DecimalSI) }
func mqty(n int64) resource.Quantity { return *resource.NewMilliQuantity(n, resource.DecimalSI) }

const (
	unitCPU = 1000      // milli-cpu of one workload in the cpu variant
	podCPU  = 100       // milli-cpu of one workload in the gpu variant
	podMem  = 128 << 20 // bytes
)

// genProgress builds an "unobstructed" cluster: identical nodes, identical single-pod workloads, cluster full.
// kind = "reclaim": some queue is within quota with pending work while another is above quota;
// kind = "preempt": a queue holds lower-priority preemptible running work and higher-priority pending work.
func genProgress(seed int64, index int, tier string, kind string) *spec.Case {
	r := gen.NewRand(seed, index, 11)
	g := &progGen{r: r, now: time.Now().Truncate(time.Second), variant: "gpu"}
	if r.IntN(4) == 0 {
		g.variant = "cpu"
	}
	c := &spec.Case{Seed: seed, Index: index, Profile: "c05-" + kind, Meta: map[string]any{"c05kind": kind, "variant": g.variant}, Cycles: 1}
	g.c = c
	c.World = spec.WorldOpts{PBindSucceeds: 1}

	// ---- configuration (the quantifier of the property)
	cfg := &c.Config
	cfg.Actions = allActions
	cfg.PluginArgs = map[string]map[string]string{"nodeplacement": {"cpu": pickR(r, "binpack", "spread"), "gpu": pickR(r, "binpack", "spread")}}
	if r.IntN(2) == 0 {
		cfg.PluginArgs["proportion"] = map[string]string{"relcaimerSaturationMultiplier": pickR(r, "1", "1.2", "2")}
	}
	cfg.MaxNumberConsolidationPreemptees = pickR(r, 0, 0, 16, 4, -1)
	cfg.UseSchedulingSignatures = r.IntN(2) == 0
	cfg.AllowConsolidatingReclaim = r.IntN(2) == 0
	cfg.FullHierarchyFairness = true

	for _, pc := range progPrios {
		c.Objects.PriorityClasses = append(c.Objects.PriorityClasses, &schedulingv1.PriorityClass{ObjectMeta: metav1.ObjectMeta{Name: pc.name}, Value: pc.val})
	}

	// ---- nodes
	nNodes := 1 + r.IntN(4)
	slots := pickR(r, 1, 2, 2, 4)
	if tier == "thorough" && r.IntN(4) == 0 {
		nNodes += r.IntN(4)
	}
	capacity := nNodes * slots
	for i := 0; i < nNodes; i++ {
		name := fmt.Sprintf("n%d", i)
		alloc := v1.ResourceList{v1.ResourceMemory: qty(512 << 30), v1.ResourcePods: qty(110)}
		labels := map[string]string{"kubernetes.io/hostname": name}
		if g.variant == "gpu" {
			alloc[v1.ResourceCPU] = mqty(64000)
			alloc["nvidia.com/gpu"] = qty(int64(slots))
			labels["nvidia.com/gpu.count"] = strconv.Itoa(slots)
		} else {
			alloc[v1.ResourceCPU] = mqty(int64(slots) * unitCPU)
		}
		c.Objects.Nodes = append(c.Objects.Nodes, &v1.Node{ObjectMeta: metav1.ObjectMeta{Name: name, Labels: labels, UID: types.UID("node-" + name)},
			Status: v1.NodeStatus{Allocatable: alloc, Capacity: alloc.DeepCopy(), Conditions: []v1.NodeCondition{{Type: v1.NodeReady, Status: v1.ConditionTrue}}}})
		g.free = append(g.free, slots)
	}

	// ---- queue tree
	structure := pickR(r, "flat", "root", "root", "two-level", "two-level-noroot", "uneven", "uneven-root")
	c.Meta["structure"] = structure
	nLeaves := 2 + r.IntN(4)
	if kind == "preempt" {
		nLeaves = 1 + r.IntN(3)
	}
	type leaf struct {
		name, parent string
		alloc        int
		quota        float64
	}
	var leaves []*leaf
	parents := []string{""}
	switch structure {
	case "root":
		parents = []string{"root"}
		if r.IntN(4) == 0 {
			cfg.FullHierarchyFairness = false // the root is dropped; the leaves become a flat forest
		}
	case "two-level":
		parents = []string{"dep-a", "dep-b"}
		if r.IntN(3) == 0 {
			parents = append(parents, "dep-c")
		}
	case "two-level-noroot":
		parents = []string{"dep-a", "dep-b"}
	case "uneven": // leaf queues at different depths: some under a department, some top-level
		parents = []string{"dep-a", ""}
	case "uneven-root": // root -> dep-a -> leaves and root -> leaves
		parents = []string{"dep-a", "root"}
	}
	for i := 0; i < nLeaves; i++ {
		leaves = append(leaves, &leaf{name: fmt.Sprintf("q%d", i), parent: parents[i%len(parents)]})
	}
	// allocation per leaf: the cluster is full
	for i := 0; i < capacity; i++ {
		leaves[r.IntN(len(leaves))].alloc++
	}
	// quotas: pick a starved and an over-quota leaf on purpose in most cases, the rest at random
	quotaChoices := func(a int) float64 {
		return pickR(r, 0, 0.5, 1, 1.5, 2, 3, float64(a), float64(a)+1, float64(a)+0.5, float64(a)-1, float64(a)-0.5, float64(a)+2)
	}
	for _, l := range leaves {
		l.quota = quotaChoices(l.alloc)
		if l.quota < 0 {
			l.quota = 0
		}
		if r.IntN(12) == 0 {
			l.quota = -1
		}
	}
	var starved, over *leaf
	if len(leaves) >= 2 && r.IntN(5) != 0 {
		perm := r.Perm(len(leaves))
		starved = leaves[perm[0]]
		starved.quota = float64(starved.alloc) + pickR(r, 1, 1, 1.5, 2, 1.25)
		for _, i := range perm[1:] {
			if leaves[i].alloc > 0 {
				over = leaves[i]
				over.quota = float64(over.alloc) - pickR(r, 0.5, 1, 1, 2, float64(over.alloc))
				if over.quota < 0 {
					over.quota = 0
				}
				break
			}
		}
	}
	_ = over
	// preempt clusters: in a third of the cases the first leaf holds a higher-priority non-preemptible pending workload
	// that is blocked by the non-preemptible quota rule next to a preemptible pending workload with victims
	npBlock := kind == "preempt" && r.IntN(3) == 0
	if npBlock {
		leaves[0].quota = 0
	}

	mkQueue := func(name, parent string, quota, limit, oqw float64, prio *int) {
		scale := 1.0
		if g.variant == "cpu" {
			scale = unitCPU
		}
		sc := func(x float64) float64 {
			if x < 0 {
				return -1
			}
			return x * scale
		}
		unl := enginev2.QueueResource{Quota: -1, Limit: -1, OverQuotaWeight: 1}
		main := enginev2.QueueResource{Quota: sc(quota), Limit: sc(limit), OverQuotaWeight: oqw}
		res := &enginev2.QueueResources{GPU: unl, CPU: unl, Memory: unl}
		if g.variant == "gpu" {
			res.GPU = main
		} else {
			res.CPU = main
		}
		q := &enginev2.Queue{ObjectMeta: metav1.ObjectMeta{Name: name, UID: types.UID("queue-" + name),
			CreationTimestamp: metav1.NewTime(g.now.Add(-time.Duration(1000-len(c.Objects.Queues)) * time.Hour))},
			Spec: enginev2.QueueSpec{ParentQueue: parent, Resources: res, Priority: prio}}
		c.Objects.Queues = append(c.Objects.Queues, q)
	}
	// limits of inner queues (own stream: the other draws of the case stay what they were): in a third of the reclaim
	// clusters a department / the root carries a limit equal to what its sub-tree holds right now (the cluster is
	// full) or one unit more - an exchange below it keeps its allocation and is not obstructed by it
	rl := gen.NewRand(seed, index, 12)
	innerLimit := func(held int) float64 {
		if kind != "reclaim" || rl.IntN(3) != 0 {
			return -1
		}
		return float64(held) + pickR(rl, 0.0, 0, 1)
	}
	if structure == "two-level" || structure == "uneven-root" {
		mkQueue("root", "", pickR(r, -1, float64(capacity), float64(capacity)/2), innerLimit(capacity), 1, nil)
	}
	for _, p := range parents {
		if p == "" || (p == "root" && structure == "uneven-root") {
			continue
		}
		sum := 0.0
		unlimited := false
		held := 0
		for _, l := range leaves {
			if l.parent == p {
				if l.quota < 0 {
					unlimited = true
				}
				sum += l.quota
				held += l.alloc
			}
		}
		pq := sum
		switch r.IntN(6) {
		case 0:
			pq = -1
		case 1:
			pq = sum + 1
		case 2:
			pq = sum / 2
		}
		if unlimited && r.IntN(2) == 0 {
			pq = -1
		}
		top := ""
		if structure == "two-level" || structure == "uneven-root" {
			top = "root"
		}
		if structure == "root" {
			pq = pickR(r, -1, float64(capacity), sum)
		}
		mkQueue(p, top, pq, innerLimit(held), pickR(r, 1.0, 1, 2), nil)
	}
	for _, l := range leaves {
		limit := -1.0
		if kind == "preempt" && r.IntN(3) == 0 {
			limit = float64(l.alloc) + pickR(r, 0.0, 0, 1, -1)
			if limit < 0 {
				limit = 0
			}
		}
		var prio *int
		if r.IntN(5) == 0 {
			prio = ptr.To(pickR(r, 50, 100, 200))
		}
		mkQueue(l.name, l.parent, l.quota, limit, pickR(r, 0.0, 1, 1, 1, 2, 5), prio)
	}

	// ---- running workloads (fill every slot; placement order shuffled so that queues are spread over the nodes)
	type runSpec struct {
		queue, prio string
		pre         enginev2alpha2.Preemptibility
	}
	var runs []runSpec
	for _, l := range leaves {
		allNP := r.IntN(5) == 0 // a queue whose running work is entirely non-preemptible
		lowOnly := kind == "preempt" && (r.IntN(2) == 0 || (npBlock && l == leaves[0]))
		if npBlock && l == leaves[0] {
			allNP = false
		}
		for i := 0; i < l.alloc; i++ {
			prio := pickR(r, "p-low", "p-train", "p-train", "p-mid", "p-99")
			var pre enginev2alpha2.Preemptibility
			switch {
			case allNP:
				prio = pickR(r, "p-build", "p-inf")
				if r.IntN(3) == 0 {
					prio, pre = "p-train", enginev2alpha2.NonPreemptible
				}
			case lowOnly:
				prio = pickR(r, "p-low", "p-train")
			case r.IntN(6) == 0:
				prio = pickR(r, "p-build", "p-inf")
			case r.IntN(10) == 0:
				pre = enginev2alpha2.NonPreemptible
			case r.IntN(12) == 0:
				prio, pre = "p-build", enginev2alpha2.Preemptible
			}
			runs = append(runs, runSpec{l.name, prio, pre})
		}
	}
	r.Shuffle(len(runs), func(i, j int) { runs[i], runs[j] = runs[j], runs[i] })
	for _, rs := range runs {
		g.workload(rs.queue, rs.prio, rs.pre, true)
	}
	// ---- pending workloads
	for _, l := range leaves {
		n := 0
		switch {
		case kind == "reclaim" && l == starved:
			n = 1 + r.IntN(3)
		case kind == "reclaim":
			n = pickR(r, 0, 0, 1, 2)
		case kind == "preempt" && l == leaves[0]:
			n = 1 + r.IntN(3)
		default: // other queues of a preempt cluster: mostly quiet, sometimes competing (mixed)
			n = pickR(r, 0, 0, 0, 1)
		}
		if npBlock && l == leaves[0] && n < 2 {
			n = 2
		}
		for i := 0; i < n; i++ {
			prio := pickR(r, "p-train", "p-51", "p-mid", "p-mid", "p-99", "p-build", "p-inf", "p-low")
			var pre enginev2alpha2.Preemptibility
			switch r.IntN(10) {
			case 0:
				pre = enginev2alpha2.NonPreemptible
			case 1:
				pre = enginev2alpha2.Preemptible
			}
			if npBlock && l == leaves[0] && i < 2 {
				if i == 0 {
					prio, pre = pickR(r, "p-build", "p-inf", "p-inf"), ""
				} else {
					prio, pre = pickR(r, "p-51", "p-mid", "p-99"), ""
				}
			}
			g.workload(l.name, prio, pre, false)
		}
	}
	return c
}

// workload adds one single-pod workload (running on the next free slot, or pending).
func (g *progGen) workload(queue, prio string, pre enginev2alpha2.Preemptibility, running bool) {
	name := fmt.Sprintf("w%d", g.wid)
	g.wid++
	created := g.now.Add(-time.Duration(600-g.wid) * time.Minute)
	pg := &enginev2alpha2.PodGroup{ObjectMeta: metav1.ObjectMeta{Name: "pg-" + name, Namespace: "ns", UID: types.UID("pgu-" + name),
		CreationTimestamp: metav1.NewTime(created), Annotations: map[string]string{}},
		Spec: enginev2alpha2.PodGroupSpec{MinMember: 1, Queue: queue, PriorityClassName: prio, Preemptibility: pre}}
	req := v1.ResourceList{v1.ResourceMemory: qty(podMem)}
	lim := v1.ResourceList{}
	if g.variant == "gpu" {
		req[v1.ResourceCPU] = mqty(podCPU)
		req["nvidia.com/gpu"] = qty(1)
		lim["nvidia.com/gpu"] = qty(1)
	} else {
		req[v1.ResourceCPU] = mqty(unitCPU)
	}
	pod := &v1.Pod{ObjectMeta: metav1.ObjectMeta{Name: name + "-0", Namespace: "ns", UID: types.UID("uid-" + name + "-0"),
		Annotations: map[string]string{"pod-group-name": pg.Name, spec.LogicalNameAnno: name + "-0"}, Labels: map[string]string{},
		CreationTimestamp: metav1.NewTime(created)},
		Spec: v1.PodSpec{SchedulerName: spec.SchedulerName, PriorityClassName: prio,
			Containers: []v1.Container{{Name: "main", Image: "img", Resources: v1.ResourceRequirements{Requests: req, Limits: lim}}}},
		Status: v1.PodStatus{Phase: v1.PodPending}}
	if running {
		ni := -1
		for i, f := range g.free {
			if f > 0 {
				ni = i
				break
			}
		}
		if ni < 0 {
			return
		}
		g.free[ni]--
		pod.Spec.NodeName = g.c.Objects.Nodes[ni].Name
		pod.Status.Phase = v1.PodRunning
		pod.Annotations["received-resource-type"] = "Regular"
		pg.Annotations["kai.scheduler/last-start-timestamp"] = g.now.Add(-10 * time.Hour).Format(time.RFC3339)
	}
	g.c.Objects.PodGroups = append(g.c.Objects.PodGroups, pg)
	g.c.Objects.Pods = append(g.c.Objects.Pods, pod)
}
