package c05

import (
	"encoding/json"
	"fmt"
	"math"
	"sort"
	"strconv"

	v1 "k8s.io/api/core/v1"

	enginev2alpha2 "github.com/NVIDIA/KAI-scheduler/pkg/apis/scheduling/v2alpha2"

	"verif/harness/internal/gen"
	"verif/harness/internal/k8sm"
	"verif/harness/internal/oracle"
	"verif/harness/internal/run"
	"verif/harness/internal/sched"
	"verif/harness/internal/spec"
)

const gpuRes = v1.ResourceName("nvidia.com/gpu")

const allActions = "allocate, consolidation, reclaim, preempt, stalegangeviction"

// genWorkConservation draws a heterogeneous cluster for clause (a).
func genWorkConservation(seed int64, index int, tier string) *spec.Case {
	k := gen.Base()
	variant := (index / 4) % 4
	name := "c05-mixed"
	k.PFaults = 0
	k.ActionsChoices = []string{"allocate", "allocate", allActions}
	k.CyclesMin, k.CyclesMax = 1, 2
	k.PAffinity, k.PAntiAffinity, k.PTopology, k.PSubGroups = 0.02, 0.05, 0.05, 0.08
	k.PMinRuntime = 0.05
	k.Fill = 0.5
	switch variant {
	case 1:
		name = "c05-limits"
		k.PLimit, k.PFiniteCPUQuota, k.Fill = 0.6, 0.4, 0.55
		k.PExplicitPreemptibility, k.PSmallPods = 0.4, 0.4
		k.KindWeights = map[string]int{"cpu": 3, "besteffort": 1, "whole": 6, "fraction": 2, "gpumem": 1, "ext": 1}
	case 2:
		name = "c05-gangs"
		k.PGang, k.GangMax, k.PSubGroups, k.PElastic = 0.6, 4, 0.03, 0.35
		k.KindWeights = map[string]int{"cpu": 4, "besteffort": 1, "whole": 6, "fraction": 1}
		k.PTerminating = 0.25
	case 3:
		name = "c05-fractions"
		k.NodesMax = 3
		k.GPUChoices = []int{1, 2, 2, 4}
		k.PGpuMemLabel, k.PMigNode = 0.75, 0
		k.KindWeights = map[string]int{"cpu": 1, "whole": 3, "fraction": 6, "gpumem": 3, "multifrac": 1}
		k.PGang, k.PTopology, k.PAffinity = 0.15, 0, 0
		k.Fill, k.PTerminating = 0.6, 0.25
	}
	c := gen.GenerateWith(k, name, seed, index, tier)
	c.Faults = spec.Faults{}
	if (index/16)%4 == 3 {
		// a quarter of the cases: BindRequest creation fails now and then (the workloads hit are not judged)
		c.Faults = spec.Faults{PBindRequestCreateFails: 0.3}
	}
	c.Config.QueueDepth = nil // queue depth unlimited (quantifier of the property)
	c.Meta["c05kind"] = "wc"
	return c
}

// ---------------------------------------------------------------------------------------------
// residual capacity model

type antiTerm struct {
	term    v1.PodAffinityTerm
	ownerNS string
	node    *v1.Node
	owner   string
}

type groupState struct {
	share    float64 // sum of shares of the sharers (fraction of one device)
	sharers  int
	tainted  bool // has a terminating or merely nominated sharer: not used as a witness
	reserved bool // its reservation pod exists (and holds its pod slot)
}

type nodeRes struct {
	node     *v1.Node
	healthy  bool
	why      string
	alloc    k8sm.Req
	used     k8sm.Req // every resource except nvidia.com/gpu
	gpuAlloc int64
	whole    int64 // whole devices held by non-sharing pods (incl. terminating, bound and nominated this cycle)
	groups   map[string]*groupState
	mig      bool
	memLabel bool
}

func (n *nodeRes) gpuFree() int64 { return n.gpuAlloc - n.whole - int64(len(n.groups)) }

func (n *nodeRes) residual(r v1.ResourceName) int64 { return n.alloc[r] - n.used[r] }

// nodeHealthy mirrors what the scheduler demands of node conditions (independently written): Ready must be
// True, the node schedulable, and no pressure / network-unavailable condition may be anything but False.
func nodeHealthy(n *v1.Node) (bool, string) {
	if n.Spec.Unschedulable {
		return false, "unschedulable"
	}
	ready := false
	for _, c := range n.Status.Conditions {
		switch c.Type {
		case v1.NodeReady:
			ready = c.Status == v1.ConditionTrue
		case v1.NodeMemoryPressure, v1.NodeDiskPressure, v1.NodePIDPressure, v1.NodeNetworkUnavailable:
			if c.Status != v1.ConditionFalse {
				return false, "condition " + string(c.Type)
			}
		}
	}
	if !ready {
		return false, "not ready"
	}
	return true, ""
}

type residualModel struct {
	m     *oracle.Model
	nodes map[string]*nodeRes
	names []string
	anti  []antiTerm
}

func (rm *residualModel) addPod(p *v1.Pod, nodeName string, groups []string, weak bool) {
	n, ok := rm.nodes[nodeName]
	if !ok {
		return
	}
	req := k8sm.PodRequest(p)
	gr := k8sm.GPURequest(p)
	for k, v := range req {
		if k == gpuRes {
			continue
		}
		n.used[k] += v
	}
	switch {
	case oracle.IsReservation(p):
		if g := p.Labels["runai-gpu-group"]; g != "" {
			if n.groups[g] == nil {
				n.groups[g] = &groupState{}
			}
			n.groups[g].reserved = true
		} else {
			n.whole += req[gpuRes]
		}
	case gr.Shared():
		if len(groups) == 0 {
			// a sharing pod whose device is unknown: charge whole devices (conservative)
			n.whole += gr.Devices
			break
		}
		share := gr.Fraction
		if share == 0 {
			share = float64(gr.Memory) / float64(k8sm.NodeGPUMemory(n.node))
		}
		for _, g := range groups {
			gs := n.groups[g]
			if gs == nil {
				gs = &groupState{}
				n.groups[g] = gs
			}
			gs.share += share
			gs.sharers++
			if weak {
				gs.tainted = true
			}
		}
	default:
		n.whole += gr.Whole
	}
	for _, t := range k8sm.RequiredAntiAffinity(p) {
		rm.anti = append(rm.anti, antiTerm{term: t, ownerNS: p.Namespace, node: n.node, owner: p.Name})
	}
}

func unionGroups(m *oracle.Model, p *v1.Pod) []string {
	set := map[string]bool{}
	for _, g := range k8sm.PodGPUGroups(p) {
		set[g] = true
	}
	if br, ok := m.BRs[p.Namespace+"/"+p.Name]; ok {
		for _, g := range br.Spec.SelectedGPUGroups {
			set[g] = true
		}
	}
	out := make([]string, 0, len(set))
	for g := range set {
		out = append(out, g)
	}
	sort.Strings(out)
	return out
}

// newResidualModel builds the final residual of the allocate action: allocatable - occupying pods (bound, binding,
// running, terminating) - binds of the action - nominations of the action.
func newResidualModel(m *oracle.Model, events []sched.Event) *residualModel {
	rm := &residualModel{m: m, nodes: map[string]*nodeRes{}}
	for name, n := range m.Nodes {
		h, why := nodeHealthy(n)
		gq := n.Status.Allocatable[gpuRes]
		_, mig := n.Labels["nvidia.com/mig.strategy"]
		_, err := strconv.ParseInt(n.Labels["nvidia.com/gpu.memory"], 10, 64)
		rm.nodes[name] = &nodeRes{node: n, healthy: h, why: why, alloc: k8sm.Allocatable(n), used: k8sm.Req{}, gpuAlloc: gq.Value(),
			groups: map[string]*groupState{}, mig: mig, memLabel: err == nil}
		rm.names = append(rm.names, name)
	}
	sort.Strings(rm.names)
	for _, p := range m.O.Pods {
		nn := m.NodeOf(p)
		if nn == "" {
			continue
		}
		rm.addPod(p, nn, unionGroups(m, p), p.DeletionTimestamp != nil)
	}
	for i := range events {
		e := &events[i]
		if e.Action != "allocate" || e.Err != "" || (e.Kind != "bind" && e.Kind != "pipeline") {
			continue
		}
		p, ok := m.Pods[e.Key()]
		if !ok {
			continue
		}
		rm.addPod(p, e.Node, e.GPUGroups, e.Kind == "pipeline")
	}
	// a GPU group without reservation pod (created in this cycle, or its reservation pod is still to come) will get
	// one: that pod slot is taken
	for _, n := range rm.nodes {
		for _, gs := range n.groups {
			if !gs.reserved {
				n.used[v1.ResourcePods]++
			}
		}
	}
	return rm
}

// ---------------------------------------------------------------------------------------------
// queue model (over-approximates the scheduler's charge, so that "fits the limit" is never claimed wrongly)

type qUsage struct {
	m       *oracle.Model
	alloc   map[string]oracle.Res
	allocNP map[string]oracle.Res
	inexact map[string]bool // the GPU sum of this queue contains a non-dyadic addend
	counted map[string]bool
}

func dyadic(x float64) bool { return x*64 == math.Trunc(x*64) }

// chargeOf is the quantity a pod charges when it runs on node n: like oracle.PodRes, but gpu-memory requests are
// rounded up to 0.01 device like the scheduler does (never smaller than the scheduler's own charge).
func chargeOf(p *v1.Pod, n *v1.Node) oracle.Res {
	r := oracle.PodRes(p, n)
	gr := k8sm.GPURequest(p)
	if gr.Memory > 0 && gr.Fraction == 0 {
		mem := int64(100)
		if n != nil {
			mem = k8sm.NodeGPUMemory(n)
		}
		if mem <= 0 {
			mem = 100
		}
		r.GPU = math.Ceil(float64(gr.Memory)/float64(mem)*100) / 100 * float64(gr.Devices)
	}
	return r
}

func newQUsage(m *oracle.Model, events []sched.Event) *qUsage {
	u := &qUsage{m: m, alloc: map[string]oracle.Res{}, allocNP: map[string]oracle.Res{}, inexact: map[string]bool{}, counted: map[string]bool{}}
	for _, p := range m.O.Pods {
		if !m.Active(p) || p.Spec.SchedulerName != spec.SchedulerName {
			continue
		}
		u.add(p, m.AllNodes[m.NodeOf(p)])
	}
	for i := range events {
		e := &events[i]
		if e.Action != "allocate" || e.Err != "" || (e.Kind != "bind" && e.Kind != "pipeline") {
			continue
		}
		if p, ok := m.Pods[e.Key()]; ok {
			u.add(p, m.AllNodes[e.Node])
		}
	}
	return u
}

func (u *qUsage) add(p *v1.Pod, n *v1.Node) {
	pg := u.m.PodGroupOf(p)
	k := p.Namespace + "/" + p.Name
	if pg == nil || u.counted[k] {
		return
	}
	u.counted[k] = true
	c := chargeOf(p, n)
	np := !u.m.Preemptible(pg)
	for _, q := range u.m.QueuePath(pg.Spec.Queue) {
		u.alloc[q.Name] = u.alloc[q.Name].Add(c)
		if np {
			u.allocNP[q.Name] = u.allocNP[q.Name].Add(c)
		}
		if !dyadic(c.GPU) {
			u.inexact[q.Name] = true
		}
	}
}

// within reports whether cur+add <= bound can be claimed safely (bound < 0 = unlimited).
func within(cur, add, bound float64, exact bool) bool {
	if bound < 0 || add <= 0 {
		return true
	}
	s := cur + add
	if s <= bound-1e-6 {
		return true
	}
	return exact && s <= bound
}

// queueAdmits: may k pods with per-pod charge c be added to the leaf queue of pg under the limit rule and the
// non-preemptible-within-deserved-quota rule at every level? Returns the blocking queue otherwise.
func (u *qUsage) queueAdmits(pg *enginev2alpha2.PodGroup, c oracle.Res, k int) (bool, string) {
	np := !u.m.Preemptible(pg)
	tot := oracle.Res{GPU: c.GPU * float64(k), CPU: c.CPU * float64(k), Mem: c.Mem * float64(k)}
	for _, q := range u.m.QueuePath(pg.Spec.Queue) {
		limit, quota := oracle.QueueLimits(q)
		exact := !u.inexact[q.Name] && dyadic(c.GPU)
		for r := 0; r < 3; r++ {
			ex := exact || r != 0
			if !within(u.alloc[q.Name].Get(r), tot.Get(r), limit.Get(r), ex) {
				return false, fmt.Sprintf("limit of queue %s (%s: allocated %.4g + %.4g > %.4g)", q.Name, oracle.ResNames[r], u.alloc[q.Name].Get(r), tot.Get(r), limit.Get(r))
			}
			if np && !within(u.allocNP[q.Name].Get(r), tot.Get(r), quota.Get(r), ex) {
				return false, fmt.Sprintf("non-preemptible quota of queue %s (%s: allocated non-preemptible %.4g + %.4g > %.4g)", q.Name, oracle.ResNames[r], u.allocNP[q.Name].Get(r), tot.Get(r), quota.Get(r))
			}
		}
	}
	return true, ""
}

// ---------------------------------------------------------------------------------------------
// workload classification

func podState(m *oracle.Model, p *v1.Pod) string {
	switch p.Status.Phase {
	case v1.PodRunning:
		if p.DeletionTimestamp != nil {
			return "releasing"
		}
		return "active"
	case v1.PodPending:
		if p.DeletionTimestamp != nil {
			return "releasing"
		}
		if p.Spec.NodeName != "" {
			return "active"
		}
		if _, ok := m.BRs[p.Namespace+"/"+p.Name]; ok {
			return "active"
		}
		if len(p.Spec.SchedulingGates) > 0 {
			return "gated"
		}
		return "pending"
	}
	return "dead"
}

// podShape is what must be equal for two pods to be interchangeable for the witness.
func podShape(p *v1.Pod) string {
	labels := map[string]string{}
	for k, v := range p.Labels {
		if k != "kai.scheduler/subgroup-name" {
			labels[k] = v
		}
	}
	ann := map[string]string{}
	for _, k := range []string{"gpu-fraction", "gpu-memory", "gpu-fraction-num-devices"} {
		if v, ok := p.Annotations[k]; ok {
			ann[k] = v
		}
	}
	b, _ := json.Marshal([]any{k8sm.PodRequest(p), p.Spec.NodeSelector, p.Spec.Affinity, p.Spec.Tolerations, labels, ann, p.Namespace,
		p.Spec.TopologySpreadConstraints, p.Spec.SchedulerName})
	return string(b)
}

// unsupported returns a reason why the pod is outside the judged classes ("" = judged).
func unsupported(p *v1.Pod) string {
	if len(k8sm.RequiredAffinity(p)) > 0 || len(k8sm.RequiredAntiAffinity(p)) > 0 {
		return "inter-pod-affinity"
	}
	if len(p.Spec.TopologySpreadConstraints) > 0 {
		return "topology-spread"
	}
	if len(p.Spec.ResourceClaims) > 0 {
		return "dra"
	}
	for _, v := range p.Spec.Volumes {
		if v.PersistentVolumeClaim != nil || v.Ephemeral != nil || v.ConfigMap != nil {
			return "volumes"
		}
	}
	for _, c := range append(append([]v1.Container{}, p.Spec.Containers...), p.Spec.InitContainers...) {
		for _, port := range c.Ports {
			if port.HostPort != 0 {
				return "host-ports"
			}
		}
		for _, e := range c.EnvFrom {
			if e.ConfigMapRef != nil {
				return "volumes"
			}
		}
	}
	if p.Spec.SchedulerName != spec.SchedulerName {
		return "foreign-scheduler"
	}
	for k := range p.Annotations {
		if k8sm.IsMig(v1.ResourceName(k)) {
			return "mig"
		}
	}
	gr := k8sm.GPURequest(p)
	if len(gr.Mig) > 0 {
		return "mig"
	}
	if gr.Shared() {
		if gr.Devices != 1 {
			return "multi-fraction"
		}
		if gr.Fraction >= 1 {
			return "fraction-of-one"
		}
		if k8sm.PodRequest(p)[gpuRes] > 0 {
			return "fraction-plus-whole"
		}
	} else {
		// annotations the harness does not understand but the scheduler might
		for _, k := range []string{"gpu-fraction", "gpu-memory"} {
			if v, ok := p.Annotations[k]; ok && v != "" {
				return "odd-gpu-annotation"
			}
		}
	}
	return ""
}

func gpuClass(p *v1.Pod) string {
	gr := k8sm.GPURequest(p)
	req := k8sm.PodRequest(p)
	switch {
	case gr.Fraction > 0:
		return "fraction"
	case gr.Memory > 0:
		return "gpu-memory"
	case gr.Whole > 0:
		return "whole-gpu"
	case req[v1.ResourceCPU] == 0 && req[v1.ResourceMemory] == 0 && len(req) == 1:
		return "best-effort"
	}
	return "cpu-only"
}

// ---------------------------------------------------------------------------------------------
// node feasibility and slots

func (rm *residualModel) feasible(p *v1.Pod, n *nodeRes) (bool, string) {
	if !n.healthy {
		return false, n.why
	}
	if !k8sm.MatchNodeSelector(p, n.node) {
		return false, "nodeSelector"
	}
	if !k8sm.MatchRequiredNodeAffinity(p, n.node) {
		return false, "node affinity"
	}
	if t := k8sm.UntoleratedTaint(p, n.node); t != nil {
		return false, "taint " + t.Key
	}
	for i := range rm.anti {
		a := &rm.anti[i]
		va, ok1 := a.node.Labels[a.term.TopologyKey]
		vb, ok2 := n.node.Labels[a.term.TopologyKey]
		if ok1 && ok2 && va == vb && k8sm.TermMatchesPod(&a.term, a.ownerNS, p) {
			return false, "anti-affinity of " + a.owner
		}
	}
	gr := k8sm.GPURequest(p)
	if gr.Whole > 0 || gr.Shared() {
		if n.mig {
			return false, "MIG node"
		}
		if n.gpuAlloc == 0 {
			return false, "no GPUs"
		}
	}
	if gr.Memory > 0 && gr.Fraction == 0 {
		if !n.memLabel {
			return false, "no gpu.memory label"
		}
		if gr.Memory > k8sm.NodeGPUMemory(n.node) {
			return false, "gpu-memory larger than a device"
		}
	}
	return true, ""
}

// slots: how many pods shaped like p fit into the residual of node n (whole-GPU / CPU-only / scalar pods).
func (n *nodeRes) slots(p *v1.Pod) int64 {
	req := k8sm.PodRequest(p)
	best := int64(math.MaxInt32)
	for k, v := range req {
		if v <= 0 {
			continue
		}
		var have int64
		if k == gpuRes {
			have = n.gpuFree()
		} else {
			have = n.residual(k)
		}
		if have < 0 {
			have = 0
		}
		if s := have / v; s < best {
			best = s
		}
	}
	return best
}

// sharedFits: a single-device sharing pod fits on node n - onto a free whole device (needs a second pod slot for the
// reservation pod) or into an existing group with room. Returns a description of the witness.
func (n *nodeRes) sharedFits(p *v1.Pod) (bool, string) {
	req := k8sm.PodRequest(p)
	for k, v := range req {
		if k == gpuRes || v <= 0 {
			continue
		}
		if n.residual(k) < v {
			return false, ""
		}
	}
	gr := k8sm.GPURequest(p)
	share := gr.Fraction
	if share == 0 {
		share = float64(gr.Memory) / float64(k8sm.NodeGPUMemory(n.node))
	}
	if share <= 0 || share > 1 {
		return false, ""
	}
	if n.gpuFree() >= 1 && n.residual(v1.ResourcePods) >= 2 {
		return true, "free whole device"
	}
	names := make([]string, 0, len(n.groups))
	for g := range n.groups {
		names = append(names, g)
	}
	sort.Strings(names)
	unit := 1 / float64(k8sm.NodeGPUMemory(n.node))
	for _, g := range names {
		gs := n.groups[g]
		if gs.tainted || gs.sharers == 0 {
			continue
		}
		// one accounting unit of slack per sharer (the scheduler truncates to MiB)
		if gs.share+share <= 1-unit*float64(gs.sharers+1)-1e-9 {
			return true, fmt.Sprintf("group %s with %.3f of the device in use", g, gs.share)
		}
	}
	return false, ""
}

// ---------------------------------------------------------------------------------------------
// the oracle

// Witness is stored in the replay file.
type Witness struct {
	Cycle     int              `json:"cycle"`
	PodGroup  string           `json:"podGroup"`
	Class     string           `json:"class"`
	Need      int              `json:"podsNeeded"`
	Request   k8sm.Req         `json:"requestPerPod"`
	Nodes     map[string]int64 `json:"slotsPerNode"`
	NodeNote  string           `json:"nodeNote,omitempty"`
	Residual  map[string]any   `json:"residual"`
	QueuePath []string         `json:"queuePath"`
	FitErrors string           `json:"schedulerFitErrors,omitempty"`
}

func checkWorkConservation(m *oracle.Model, events []sched.Event, cycle int, diag *sessionDiag, st *oracle.Stats) ([]run.Violation, []any) {
	ranAllocate := false
	// a workload one of whose binds failed (API error) legitimately stays pending: it is not judged, the others are -
	// the capacity the failed bind would have used is free again (the residual model counts successful binds only)
	failedGroups := map[string]bool{}
	for i := range events {
		e := &events[i]
		if e.Action == "allocate" && e.Err != "" {
			failedGroups[e.Group] = true
		}
	}
	if len(failedGroups) > 0 {
		st.Inc("wc_cycles_with_failed_bind_judged")
	}
	for _, a := range splitActions(m.Cfg.Actions) {
		if a == "allocate" {
			ranAllocate = true
		}
	}
	if !ranAllocate || m.Cfg.RestrictNodeScheduling {
		st.Inc("wc_cycles_skipped_config")
		return nil, nil
	}
	st.Inc("wc_cycles_judged")
	rm := newResidualModel(m, events)
	qu := newQUsage(m, events)

	placed := map[string]bool{} // pod key -> bound or nominated by allocate
	for i := range events {
		e := &events[i]
		if e.Action == "allocate" && (e.Kind == "bind" || e.Kind == "pipeline") {
			placed[e.Key()] = true
		}
	}
	children := map[string]bool{}
	for _, q := range m.Queues {
		if q.Spec.ParentQueue != "" {
			children[q.Spec.ParentQueue] = true
		}
	}
	podsOf := map[string][]*v1.Pod{}
	for _, p := range m.O.Pods {
		if g := p.Annotations["pod-group-name"]; g != "" {
			podsOf[g] = append(podsOf[g], p)
		}
	}
	names := make([]string, 0, len(m.PodGroups))
	for n := range m.PodGroups {
		names = append(names, n)
	}
	sort.Strings(names)

	var out []run.Violation
	var wits []any
	skip := func(reason string) { st.Inc("wc_not_judged:" + reason) }
	for _, name := range names {
		pg := m.PodGroups[name]
		var pending []*v1.Pod
		nPending, nActive, nGated, nPlaced := 0, 0, 0, 0
		for _, p := range podsOf[name] {
			switch podState(m, p) {
			case "pending":
				nPending++
				if placed[p.Namespace+"/"+p.Name] {
					nPlaced++
				} else {
					pending = append(pending, p)
				}
			case "active":
				nActive++
			case "gated":
				nGated++
			}
		}
		if nPending == 0 {
			continue
		}
		if failedGroups[name] {
			skip("own-bind-failed")
			continue
		}
		st.Inc("wc_workloads_with_pending_pods")
		if len(pending) == 0 {
			st.Inc("wc_workloads_fully_placed")
			continue
		}
		// --- is it a job the allocate action considers at all?
		if len(pg.Spec.SubGroups) > 0 {
			skip("sub-groups")
			continue
		}
		tc := pg.Spec.TopologyConstraint
		if tc.Topology != "" || tc.RequiredTopologyLevel != "" || tc.PreferredTopologyLevel != "" {
			skip("topology-constraint")
			continue
		}
		if pg.Spec.SchedulingBackoff != nil {
			skip("scheduling-backoff")
			continue
		}
		q, ok := m.Queues[pg.Spec.Queue]
		if !ok {
			skip("queue-missing")
			continue
		}
		if children[q.Name] {
			skip("queue-not-leaf")
			continue
		}
		if q.Spec.ParentQueue != "" {
			if _, ok := m.Queues[q.Spec.ParentQueue]; !ok {
				skip("parent-queue-missing")
				continue
			}
		}
		if path := m.QueuePath(q.Name); path[len(path)-1].Spec.ParentQueue != "" {
			skip("ancestor-queue-missing")
			continue
		}
		min := int(pg.Spec.MinMember)
		if min < 1 {
			skip("min-member-below-1")
			continue
		}
		if nPending+nActive < min {
			skip("not-ready")
			continue
		}
		activeNow := nActive + nPlaced
		kind, need := "", 0
		switch {
		case activeNow >= min:
			kind, need = "elastic-extra", 1
			if nActive == 0 && nPlaced == 0 {
				kind = "single-pod"
			}
		case nPlaced > 0:
			skip("partially-placed-gang")
			continue
		default:
			need = min - activeNow
			kind = "gang"
			if need == 1 && nActive == 0 {
				kind = "single-pod"
			} else if nActive > 0 {
				kind = "gang-remainder"
			}
		}
		if len(pending) < need {
			skip("not-ready")
			continue
		}
		shape := podShape(pending[0])
		hetero := false
		for _, p := range pending[1:] {
			if podShape(p) != shape {
				hetero = true
			}
		}
		if hetero {
			skip("heterogeneous-pods")
			continue
		}
		p := pending[0]
		if why := unsupported(p); why != "" {
			skip(why)
			continue
		}
		gr := k8sm.GPURequest(p)
		cls := gpuClass(p)
		if gr.Shared() && need > 1 {
			skip("fraction-gang")
			continue
		}
		class := kind + ":" + cls
		st.Inc("wc_judged:" + class)
		st.NonTrivial = true

		// --- witness search on the final residual
		slots := map[string]int64{}
		total := int64(0)
		note := ""
		anyFeasible := false
		onePodSlotOnly := gr.Shared() // every witness is "join an existing group on a node with exactly one free pod slot"
		freeDevice := false           // ... and such a node also has a free whole device
		var worst oracle.Res
		for _, nn := range rm.names {
			n := rm.nodes[nn]
			if ok, _ := rm.feasible(p, n); !ok {
				continue
			}
			anyFeasible = true
			var s int64
			if gr.Shared() {
				if ok, how := n.sharedFits(p); ok {
					s = 1
					note = nn + ": " + how
					if n.residual(v1.ResourcePods) != 1 {
						onePodSlotOnly = false
					} else if n.gpuFree() >= 1 {
						freeDevice = true
					}
				}
			} else {
				s = n.slots(p)
			}
			if s > 0 {
				slots[nn] = s
				total += s
				c := chargeOf(p, n.node)
				if c.GPU > worst.GPU {
					worst.GPU = c.GPU
				}
				worst.CPU, worst.Mem = c.CPU, c.Mem
			}
		}
		if total < int64(need) {
			if anyFeasible {
				st.Inc("wc_no_witness:nodes-full")
			} else {
				st.Inc("wc_no_witness:no-feasible-node")
			}
			continue
		}
		if ok, why := qu.queueAdmits(pg, worst, need); !ok {
			st.Inc("wc_no_witness:queue-rule")
			_ = why
			continue
		}
		st.Inc("wc_witness_found")
		var path []string
		for _, qq := range m.QueuePath(q.Name) {
			limit, quota := oracle.QueueLimits(qq)
			path = append(path, fmt.Sprintf("%s alloc=%+v allocNP=%+v limit=%+v quota=%+v", qq.Name, qu.alloc[qq.Name], qu.allocNP[qq.Name], limit, quota))
		}
		resid := map[string]any{}
		for nn := range slots {
			n := rm.nodes[nn]
			r := map[string]int64{"gpuFree": n.gpuFree()}
			for k := range k8sm.PodRequest(p) {
				if k != gpuRes {
					r[string(k)] = n.residual(k)
				}
			}
			resid[nn] = r
		}
		sig := class
		if gr.Shared() && onePodSlotOnly {
			// known family: the predicates plugin demands a second pod slot (for a reservation pod) although the pod would
			// join an existing GPU group
			if freeDevice && m.Cfg.PluginArgs["nodeplacement"]["gpu"] == "spread" {
				sig = "shared-gpu-one-pod-slot:free-device-preferred:" + class
			} else {
				sig = "shared-gpu-one-pod-slot:group-preferred:" + class
			}
		}
		w := Witness{Cycle: cycle, PodGroup: name, Class: class, Need: need, Request: k8sm.PodRequest(p), Nodes: slots, NodeNote: note,
			Residual: resid, QueuePath: path, FitErrors: diag.fitErrors[name]}
		wits = append(wits, w)
		wb, _ := json.Marshal(w.Nodes)
		out = append(out, oracle.Viol("C05", "work-conservation", sig, cycle,
			"after allocate, ready pending workload %s (queue %s, %s, needs %d pod(s) of request %v%s) has no bind and no nomination although it fits the residual capacity left after the action: slots per node %s %s; every queue on its path admits it (%v); scheduler's own fit errors: %q",
			name, pg.Spec.Queue, preemptWord(m, pg), need, k8sm.PodRequest(p), gpuNote(p), string(wb), note, path, diag.fitErrors[name]))
	}
	return out, wits
}

func preemptWord(m *oracle.Model, pg *enginev2alpha2.PodGroup) string {
	if m.Preemptible(pg) {
		return fmt.Sprintf("preemptible, priority %d", m.Priority(pg))
	}
	return fmt.Sprintf("non-preemptible, priority %d", m.Priority(pg))
}

func gpuNote(p *v1.Pod) string {
	gr := k8sm.GPURequest(p)
	switch {
	case gr.Fraction > 0:
		return fmt.Sprintf(", gpu-fraction %v", gr.Fraction)
	case gr.Memory > 0:
		return fmt.Sprintf(", gpu-memory %d", gr.Memory)
	}
	return ""
}

func splitActions(s string) []string {
	var out []string
	cur := ""
	for _, ch := range s {
		if ch == ',' {
			out = append(out, trim(cur))
			cur = ""
		} else {
			cur += string(ch)
		}
	}
	if t := trim(cur); t != "" {
		out = append(out, t)
	}
	return out
}

func trim(s string) string {
	for len(s) > 0 && (s[0] == ' ' || s[0] == '\t') {
		s = s[1:]
	}
	for len(s) > 0 && (s[len(s)-1] == ' ' || s[len(s)-1] == '\t') {
		s = s[:len(s)-1]
	}
	return s
}
