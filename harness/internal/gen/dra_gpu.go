package gen

// GPU-class Dynamic Resource Allocation: pods whose GPUs come from a ResourceClaim.
//
// The scheduler recognises them by NAME: a ResourceSlice whose driver name contains "gpu" adds its devices to the
// node's GPU capacity (cluster_info.populateDRAGPUs; the node then refuses device-plugin GPU requests), a claim
// request whose device class name contains "gpu" adds its count to the pod's GPU request
// (resources.ExtractDRAGPUResourcesFromClaims -> GpuResourceRequirement.draGpuCounts), which is charged to the node,
// the workload and the queues like whole GPUs.
//
// genDRAGpu is the last drawing step of genDRA (only in cases that already carry DRA objects, only when
// Knobs.PDRAGpu fires). It adds
//   - a second DeviceClass (DRAGpuClass) that selects the devices of DRAGpuDriver; the accelerator class gets the
//     matching selector for its own driver, so that no claim is ever given a device of the other kind;
//   - on nodes WITHOUT device-plugin GPUs (no nvidia.com/gpu, no MIG) a node-local ResourceSlice of 1-4 GPU devices; if
//     there is no such node (or with probability 0.3) a device-plugin GPU node that hosts no GPU pod is converted: its
//     nvidia.com/gpu capacity goes, the same number of GPUs (at most 4) comes back as DRA devices;
//   - for workloads that got no accelerator claim and either request no GPU otherwise, or request whole device-plugin
//     GPUs and are entirely pending (then nvidia.com/gpu is removed from the pods): one template-style claim per pod
//     (resourceClaimTemplateName + generated claim owned by the pod + pod.status.resourceClaimStatuses) of 1-2 GPU
//     devices - generated claims need no queue label (the plugin demands one on GPU claims referenced by name).
//     Pods already on a node (Running / terminating / Bound) get an allocation on that node's GPU devices and are in
//     reservedFor; Binding pods carry it in their BindRequest; a workload whose placed pods cannot be served is left
//     alone; pending workloads ask for more than there is.

import (
	"fmt"

	v1 "k8s.io/api/core/v1"
	resourceapi "k8s.io/api/resource/v1"
	metav1 "k8s.io/apimachinery/pkg/apis/meta/v1"
	"k8s.io/apimachinery/pkg/types"
	"k8s.io/utils/ptr"

	schedulingv1alpha2 "github.com/NVIDIA/KAI-scheduler/pkg/apis/scheduling/v1alpha2"

	"verif/harness/internal/k8sm"
)

const (
	DRAGpuDriver       = "gpu.nvidia.com"
	DRAGpuClass        = "gpu.nvidia.com"
	DRAGpuPodClaimName = "gpu" // pod.spec.resourceClaims[].name
)

func driverSelector(driver string) []resourceapi.DeviceSelector {
	return []resourceapi.DeviceSelector{{CEL: &resourceapi.CELDeviceSelector{Expression: fmt.Sprintf("device.driver == %q", driver)}}}
}

func (g *G) genDRAGpu(podsOf map[string][]*v1.Pod, brOf map[string]*schedulingv1alpha2.BindRequest, meta map[string]int) {
	o := &g.c.Objects
	nodeOf := func(p *v1.Pod) string {
		if p.Spec.NodeName != "" {
			return p.Spec.NodeName
		}
		if b, ok := brOf[p.Namespace+"/"+p.Name]; ok {
			return b.Spec.SelectedNode
		}
		return ""
	}
	// nodes without device-plugin GPUs; if there is none (or with probability 0.3) a device-plugin GPU node that no
	// GPU pod occupies is converted: its nvidia.com/gpu capacity and GPU labels go, its GPUs come back as DRA devices
	gpuUsers := map[string]bool{}
	for _, p := range o.Pods {
		gr := k8sm.GPURequest(p)
		if n := nodeOf(p); n != "" && (gr.Whole > 0 || gr.Shared() || len(gr.Mig) > 0) {
			gpuUsers[n] = true
		}
	}
	var cand, convertible []*v1.Node
	converted := map[string]int{}
	for _, n := range o.Nodes {
		if _, mig := n.Labels["nvidia.com/mig.strategy"]; mig {
			continue
		}
		if q, ok := n.Status.Allocatable["nvidia.com/gpu"]; ok && !q.IsZero() {
			if !gpuUsers[n.Name] {
				convertible = append(convertible, n)
			}
			continue
		}
		cand = append(cand, n)
	}
	if len(convertible) > 0 && (len(cand) == 0 || g.p(0.3)) {
		n := convertible[g.r.IntN(len(convertible))]
		q := n.Status.Allocatable["nvidia.com/gpu"]
		converted[n.Name] = int(min(q.Value(), 4))
		delete(n.Status.Allocatable, "nvidia.com/gpu")
		delete(n.Status.Capacity, "nvidia.com/gpu")
		delete(n.Labels, "nvidia.com/gpu.count")
		delete(n.Labels, "nvidia.com/gpu.memory")
		cand = append([]*v1.Node{n}, cand...)
		meta["gpuNodesConverted"]++
	}
	if len(cand) == 0 {
		return
	}
	free := map[string][]string{}
	for i, n := range cand {
		if i > 0 && !g.p(0.7) {
			continue
		}
		k := g.in(1, 4)
		if c, ok := converted[n.Name]; ok {
			k = c
		}
		sl := &resourceapi.ResourceSlice{ObjectMeta: metav1.ObjectMeta{Name: "gpuslice-" + n.Name, UID: types.UID("gpuslice-" + n.Name)},
			Spec: resourceapi.ResourceSliceSpec{Driver: DRAGpuDriver, NodeName: ptr.To(n.Name),
				Pool: resourceapi.ResourcePool{Name: n.Name, Generation: 1, ResourceSliceCount: 1}}}
		for j := 0; j < k; j++ {
			d := fmt.Sprintf("g%d", j)
			sl.Spec.Devices = append(sl.Spec.Devices, resourceapi.Device{Name: d})
			free[n.Name] = append(free[n.Name], d)
		}
		o.ResourceSlices = append(o.ResourceSlices, sl)
		meta["gpuDevices"] += k
	}
	for _, dc := range o.DeviceClasses {
		if dc.Name == DRAClass {
			dc.Spec.Selectors = driverSelector(DRADriver)
		}
	}
	o.DeviceClasses = append(o.DeviceClasses, &resourceapi.DeviceClass{ObjectMeta: metav1.ObjectMeta{Name: DRAGpuClass, UID: types.UID("dc-" + DRAGpuClass)},
		Spec: resourceapi.DeviceClassSpec{Selectors: driverSelector(DRAGpuDriver)}})

	for _, pg := range o.PodGroups {
		pods := podsOf[pg.Name]
		if len(pods) == 0 || pg.Annotations[DRAStyleAnno] != "" {
			continue
		}
		// eligible: the pods request no GPU otherwise; or they request whole device-plugin GPUs and none of them is
		// placed yet - then the request moves from nvidia.com/gpu to the claim
		plain, wholePending := true, true
		whole := int64(0)
		for _, p := range pods {
			gr := k8sm.GPURequest(p)
			if gr.Whole > 0 || gr.Shared() || len(gr.Mig) > 0 || len(p.Spec.ResourceClaims) > 0 {
				plain = false
			}
			if gr.Whole == 0 || gr.Shared() || len(gr.Mig) > 0 || len(p.Spec.ResourceClaims) > 0 || nodeOf(p) != "" {
				wholePending = false
			}
			whole = gr.Whole
		}
		if !(plain || wholePending) || !g.p(0.6) {
			continue
		}
		count := pick(g, []int{1, 1, 2})
		if wholePending && !plain {
			count = int(min(whole, 2))
			for _, p := range pods {
				for i := range p.Spec.Containers {
					delete(p.Spec.Containers[i].Resources.Requests, "nvidia.com/gpu")
					delete(p.Spec.Containers[i].Resources.Limits, "nvidia.com/gpu")
				}
			}
			meta["gpuWorkloadsFromWholeGPU"]++
		}
		need := map[string]int{}
		for _, p := range pods {
			if n := nodeOf(p); n != "" {
				need[n] += count
			}
		}
		feasible := func() bool {
			for n, k := range need {
				if len(free[n]) < k {
					return false
				}
			}
			return true
		}
		if !feasible() && count == 2 {
			count = 1
			for n := range need {
				need[n] /= 2
			}
		}
		if !feasible() {
			continue
		}
		if pg.Annotations == nil {
			pg.Annotations = map[string]string{}
		}
		pg.Annotations[DRAStyleAnno] = "gpu-template"
		meta["gpuWorkloads"]++
		for _, p := range pods {
			c := &resourceapi.ResourceClaim{ObjectMeta: metav1.ObjectMeta{Name: p.Name + "-" + DRAGpuPodClaimName, Namespace: "ns", UID: types.UID("claim-" + p.Name + "-" + DRAGpuPodClaimName),
				Annotations:     map[string]string{"resource.kubernetes.io/pod-claim-name": DRAGpuPodClaimName},
				OwnerReferences: []metav1.OwnerReference{{APIVersion: "v1", Kind: "Pod", Name: p.Name, UID: p.UID, Controller: ptr.To(true), BlockOwnerDeletion: ptr.To(true)}}},
				Spec: resourceapi.ResourceClaimSpec{Devices: resourceapi.DeviceClaim{Requests: []resourceapi.DeviceRequest{{Name: "req",
					Exactly: &resourceapi.ExactDeviceRequest{DeviceClassName: DRAGpuClass, AllocationMode: resourceapi.DeviceAllocationModeExactCount, Count: int64(count)}}}}}}
			p.Spec.ResourceClaims = []v1.PodResourceClaim{{Name: DRAGpuPodClaimName, ResourceClaimTemplateName: ptr.To("gputmpl-" + pg.Name)}}
			p.Status.ResourceClaimStatuses = []v1.PodResourceClaimStatus{{Name: DRAGpuPodClaimName, ResourceClaimName: ptr.To(c.Name)}}
			if n := nodeOf(p); n != "" {
				devs := free[n][:count]
				free[n] = free[n][count:]
				a := &resourceapi.AllocationResult{NodeSelector: &v1.NodeSelector{NodeSelectorTerms: []v1.NodeSelectorTerm{{
					MatchFields: []v1.NodeSelectorRequirement{{Key: "metadata.name", Operator: v1.NodeSelectorOpIn, Values: []string{n}}}}}}}
				for _, d := range devs {
					a.Devices.Results = append(a.Devices.Results, resourceapi.DeviceRequestAllocationResult{Request: "req", Driver: DRAGpuDriver, Pool: n, Device: d})
				}
				if p.Spec.NodeName != "" {
					c.Status.Allocation = a.DeepCopy()
					c.Status.ReservedFor = []resourceapi.ResourceClaimConsumerReference{{Resource: "pods", Name: p.Name, UID: p.UID}}
					meta["gpuClaimsAllocated"]++
				}
				if b, ok := brOf[p.Namespace+"/"+p.Name]; ok {
					b.Spec.ResourceClaimAllocations = append(b.Spec.ResourceClaimAllocations,
						schedulingv1alpha2.ResourceClaimAllocation{Name: DRAGpuPodClaimName, Allocation: a.DeepCopy()})
				}
			}
			o.ResourceClaims = append(o.ResourceClaims, c)
			meta["gpuClaims"]++
		}
	}
}
