package gen

import (
	"fmt"
	"strconv"
	"time"

	v1 "k8s.io/api/core/v1"
	schedulingv1 "k8s.io/api/scheduling/v1"
	metav1 "k8s.io/apimachinery/pkg/apis/meta/v1"
	"k8s.io/apimachinery/pkg/types"

	enginev2 "github.com/NVIDIA/KAI-scheduler/pkg/apis/scheduling/v2"
	enginev2alpha2 "github.com/NVIDIA/KAI-scheduler/pkg/apis/scheduling/v2alpha2"

	"verif/harness/internal/spec"
)

// Fragmented builds a closed whole-GPU cluster whose free devices are scattered: 2-3 nodes of different sizes, each
// with 1-2 idle devices between running 1-GPU pods of several queues, and a pending single-pod job that needs more
// devices than any node has idle but no more than a node has in total - it can only start if running pods are moved
// (consolidation, consolidating reclaim) or reclaimed. Placement strategy is mostly "spread": the node a moved pod is
// sent to by the simulation and the node the allocate action picks for its re-creation in the next cycle must agree.
func Fragmented(seed int64, index int, tier string) *spec.Case {
	r := NewRand(seed, index, 23)
	now := time.Now().Truncate(time.Second)
	c := &spec.Case{Seed: seed, Index: index, Profile: "fragmented", Meta: map[string]any{"tier": tier, "pattern": "fragmented"}, Cycles: 4}
	pk := func(xs ...int) int { return xs[r.IntN(len(xs))] }
	ps := func(xs ...string) string { return xs[r.IntN(len(xs))] }

	cfg := &c.Config
	cfg.Actions = ps(allActions, "allocate, reclaim, preempt, stalegangeviction", "allocate, consolidation, reclaim", "allocate, reclaim")
	cfg.PluginArgs = map[string]map[string]string{"nodeplacement": {"cpu": ps("binpack", "spread", "spread"), "gpu": ps("spread", "spread", "spread", "binpack")}}
	cfg.MaxNumberConsolidationPreemptees = pk(16, 16, 4, -1)
	cfg.UseSchedulingSignatures = r.IntN(2) == 0
	cfg.FullHierarchyFairness = true
	cfg.AllowConsolidatingReclaim = r.IntN(5) != 0
	c.World = spec.WorldOpts{PBindSucceeds: 1, Closed: true}
	for _, pc := range []struct {
		n string
		v int32
	}{{"p-low", 40}, {"p-train", 50}, {"p-mid", 75}} {
		c.Objects.PriorityClasses = append(c.Objects.PriorityClasses, &schedulingv1.PriorityClass{ObjectMeta: metav1.ObjectMeta{Name: pc.n}, Value: pc.v})
	}

	// ---- nodes
	nNodes := pk(2, 2, 3)
	sizes := make([]int, nNodes)
	idle := make([]int, nNodes)
	G, maxIdle, maxIdleSize := 0, 0, 0
	for i := range sizes {
		sizes[i] = pk(2, 3, 4, 4)
		idle[i] = pk(1, 1, 2)
		if idle[i] >= sizes[i] {
			idle[i] = sizes[i] - 1
		}
		G += sizes[i]
		name := fmt.Sprintf("n%d", i)
		alloc := v1.ResourceList{v1.ResourceCPU: mq(64000), v1.ResourceMemory: q(512 << 30), v1.ResourcePods: q(110), "nvidia.com/gpu": q(int64(sizes[i]))}
		c.Objects.Nodes = append(c.Objects.Nodes, &v1.Node{ObjectMeta: metav1.ObjectMeta{Name: name, UID: types.UID("node-" + name),
			Labels: map[string]string{"kubernetes.io/hostname": name, "nvidia.com/gpu.count": strconv.Itoa(sizes[i])}},
			Status: v1.NodeStatus{Allocatable: alloc, Capacity: alloc.DeepCopy(), Conditions: []v1.NodeCondition{{Type: v1.NodeReady, Status: v1.ConditionTrue}}}})
		if idle[i] > maxIdle || (idle[i] == maxIdle && sizes[i] > maxIdleSize) {
			maxIdle, maxIdleSize = idle[i], sizes[i]
		}
	}

	// ---- queues: 2-3 leaf queues, flat or under one department each
	nQ := pk(2, 2, 3)
	quotas := composition(r, G, nQ)
	twoLevel := r.IntN(2) == 0
	unl := enginev2.QueueResource{Quota: -1, Limit: -1, OverQuotaWeight: 1}
	var leaves []string
	for i := 0; i < nQ; i++ {
		parent := ""
		if twoLevel {
			parent = fmt.Sprintf("dep%d", i)
			c.Objects.Queues = append(c.Objects.Queues, &enginev2.Queue{ObjectMeta: metav1.ObjectMeta{Name: parent, UID: types.UID("queue-" + parent),
				CreationTimestamp: metav1.NewTime(now.Add(-time.Duration(1000-len(c.Objects.Queues)) * time.Hour))},
				Spec: enginev2.QueueSpec{Resources: &enginev2.QueueResources{GPU: enginev2.QueueResource{Quota: float64(quotas[i]), Limit: -1, OverQuotaWeight: 1}, CPU: unl, Memory: unl}}})
		}
		name := fmt.Sprintf("team%d", i)
		c.Objects.Queues = append(c.Objects.Queues, &enginev2.Queue{ObjectMeta: metav1.ObjectMeta{Name: name, UID: types.UID("queue-" + name),
			CreationTimestamp: metav1.NewTime(now.Add(-time.Duration(1000-len(c.Objects.Queues)) * time.Hour))},
			Spec: enginev2.QueueSpec{ParentQueue: parent, Resources: &enginev2.QueueResources{GPU: enginev2.QueueResource{Quota: float64(quotas[i]), Limit: -1, OverQuotaWeight: float64(pk(1, 1, 2))}, CPU: unl, Memory: unl}}})
		leaves = append(leaves, name)
	}

	// ---- workloads
	wid := 0
	workload := func(queue string, gpus int, node int, age time.Duration) {
		name := fmt.Sprintf("w%d", wid)
		wid++
		prio := ps("p-train", "p-train", "p-train", "p-low", "p-mid")
		pg := &enginev2alpha2.PodGroup{ObjectMeta: metav1.ObjectMeta{Name: "pg-" + name, Namespace: "ns", UID: types.UID("pgu-" + name),
			CreationTimestamp: metav1.NewTime(now.Add(-age)), Annotations: map[string]string{}},
			Spec: enginev2alpha2.PodGroupSpec{MinMember: 1, Queue: queue, PriorityClassName: prio}}
		req := v1.ResourceList{v1.ResourceCPU: mq(100), v1.ResourceMemory: q(128 << 20), "nvidia.com/gpu": q(int64(gpus))}
		pod := &v1.Pod{ObjectMeta: metav1.ObjectMeta{Name: name + "-0", Namespace: "ns", UID: types.UID("uid-" + name + "-0"),
			Annotations: map[string]string{"pod-group-name": pg.Name, spec.LogicalNameAnno: name + "-0"}, Labels: map[string]string{},
			CreationTimestamp: metav1.NewTime(now.Add(-age))},
			Spec: v1.PodSpec{SchedulerName: spec.SchedulerName, PriorityClassName: prio,
				Containers: []v1.Container{{Name: "main", Image: "img", Resources: v1.ResourceRequirements{Requests: req, Limits: v1.ResourceList{"nvidia.com/gpu": q(int64(gpus))}}}}},
			Status: v1.PodStatus{Phase: v1.PodPending}}
		if node >= 0 {
			pod.Spec.NodeName = c.Objects.Nodes[node].Name
			pod.Status.Phase = v1.PodRunning
			pod.Annotations["received-resource-type"] = "Regular"
			pg.Annotations["kai.scheduler/last-start-timestamp"] = now.Add(-10 * time.Hour).Format(time.RFC3339)
		}
		c.Objects.PodGroups = append(c.Objects.PodGroups, pg)
		c.Objects.Pods = append(c.Objects.Pods, pod)
	}
	// running 1-GPU pods fill every node up to its idle share; queues take turns, biased to stay near their quota
	used := make([]int, nQ)
	for i := range sizes {
		for k := 0; k < sizes[i]-idle[i]; k++ {
			qi := r.IntN(nQ)
			for t := 0; t < nQ && used[qi] >= quotas[qi]+1; t++ {
				qi = (qi + 1) % nQ
			}
			used[qi]++
			workload(leaves[qi], 1, i, time.Duration(600+wid)*time.Minute)
		}
	}
	// pending: the job that needs one more device than the roomiest node has idle, in a queue that stays within quota
	// if possible; plus a few small jobs
	need := maxIdle + 1
	if need > maxIdleSize {
		need = maxIdleSize
	}
	big := r.IntN(nQ)
	for t := 0; t < nQ && used[big]+need > quotas[big]; t++ {
		big = (big + 1) % nQ
	}
	workload(leaves[big], need, -1, time.Duration(300)*time.Minute)
	for i, n := 0, pk(0, 1, 2); i < n; i++ {
		workload(leaves[r.IntN(nQ)], pk(1, 1, 2), -1, time.Duration(200-10*i)*time.Minute)
	}
	return c
}
