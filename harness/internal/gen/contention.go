package gen

import (
	"fmt"
	"math/rand/v2"
	"strconv"
	"time"

	v1 "k8s.io/api/core/v1"
	schedulingv1 "k8s.io/api/scheduling/v1"
	metav1 "k8s.io/apimachinery/pkg/apis/meta/v1"
	"k8s.io/apimachinery/pkg/types"

	enginev2 "github.com/NVIDIA/KAI-scheduler/pkg/apis/scheduling/v2"
	enginev2alpha2 "github.com/NVIDIA/KAI-scheduler/pkg/apis/scheduling/v2alpha2"

	"verif/harness/internal/spec"
)

// Contention builds a "department contention" cluster, the shape in which the order of organisations / departments
// decides who gets a freed device: G whole GPUs on 1-2 nodes, a queue forest of 2-3 organisations whose chains are 1-3
// levels deep with 1-2 leaf queues at the bottom, quotas that sum to the capacity at every level, running single-pod
// jobs of 1-2 GPUs that fill the cluster with one organisation above its quota, and pending jobs of 1-3 GPUs with
// staggered creation times (a bigger, older job at the head of a queue in half of the cases) in the other organisations.
// All workloads are preemptible train jobs unless drawn otherwise. Used by the closed-system check (C15) next to the
// general generator.
func Contention(seed int64, index int, tier string) *spec.Case {
	return ContentionWith(seed, index, tier, ContentionOpts{})
}

// ContentionOpts adds what the victim-eligibility check (C06) needs to the contention clusters.
type ContentionOpts struct {
	// MinRuntime: half of the queues (any level) get a 1h reclaim and/or preempt min-runtime; 30 % of the running
	// workloads started a minute ago (inside it), the rest ten hours ago; some workloads are non-preemptible
	MinRuntime bool
	// EarlyRecreate: open system with workload controllers - an evicted pod is replaced by a pending one as soon as it
	// is terminating and stays terminating for 1-2 cycles
	EarlyRecreate bool
	// ElasticFocus (with MinRuntime): the organisation above its quota runs its elastic workload whenever it has three
	// devices, the workload started a minute ago, and its queue and all ancestors carry a 1h reclaim and preempt
	// min-runtime - several reclaimers / preemptors of ONE cycle then compete for the surplus of a protected workload
	ElasticFocus bool
	// LateReclaimers (with MinRuntime): one device is free, the organisation above its quota has pending work and all
	// its queues (and their ancestors) carry reclaim and preempt min-runtimes; the pending jobs of the other
	// organisations are submitted before cycle 2 or 3 only. So work of the over-quota organisation STARTS in cycle 1 and
	// the reclaimers that arrive next meet a workload that has just started
	LateReclaimers bool
	// Surplus: the organisations' quotas add up to this many devices less than the capacity (taken from the largest
	// quotas, no extra draws): the rest is divided by over-quota weight, so that fair shares lie above the quotas and
	// reclaim has to stop at a fair share, not at a quota
	Surplus int
}

func ContentionWith(seed int64, index int, tier string, opts ContentionOpts) *spec.Case {
	r := NewRand(seed, index, 21)
	now := time.Now().Truncate(time.Second)
	c := &spec.Case{Seed: seed, Index: index, Profile: "contention", Meta: map[string]any{"tier": tier}, Cycles: 4}
	pk := func(xs ...int) int { return xs[r.IntN(len(xs))] }
	pf := func(xs ...float64) float64 { return xs[r.IntN(len(xs))] }
	ps := func(xs ...string) string { return xs[r.IntN(len(xs))] }

	cfg := &c.Config
	cfg.Actions = ps(allActions, allActions, "allocate, reclaim", "allocate, reclaim, preempt", "allocate, consolidation, reclaim")
	cfg.PluginArgs = map[string]map[string]string{"nodeplacement": {"cpu": ps("binpack", "spread"), "gpu": ps("binpack", "binpack", "spread")}}
	if r.IntN(3) == 0 {
		cfg.PluginArgs["proportion"] = map[string]string{"relcaimerSaturationMultiplier": ps("1", "1.2", "2")}
	}
	cfg.MaxNumberConsolidationPreemptees = pk(16, 4, 0, -1)
	cfg.UseSchedulingSignatures = r.IntN(2) == 0
	cfg.FullHierarchyFairness = r.IntN(8) != 0
	cfg.AllowConsolidatingReclaim = r.IntN(2) == 0
	c.World = spec.WorldOpts{PBindSucceeds: 1, Closed: true}

	for _, pc := range []struct {
		n string
		v int32
	}{{"p-low", 40}, {"p-train", 50}, {"p-mid", 75}, {"p-build", 100}} {
		c.Objects.PriorityClasses = append(c.Objects.PriorityClasses, &schedulingv1.PriorityClass{ObjectMeta: metav1.ObjectMeta{Name: pc.n}, Value: pc.v})
	}

	// pattern "blocked head" (half of the cases): every organisation below its quota is exactly one device short of it
	// and its oldest pending job is too big for that device while a younger one fits - the head job decides how the
	// organisation / department is ordered, the younger one is the job that can actually reclaim. These cases are
	// kept canonical (one node, quotas that add up, mostly two organisations and one priority).
	blockedHead := r.IntN(2) == 0
	uniformPrio := blockedHead && r.IntN(10) < 7
	c.Meta["pattern"] = map[bool]string{true: "blocked-head", false: "random"}[blockedHead]

	// ---- nodes
	G := pk(3, 4, 5, 5, 6, 8)
	if tier == "thorough" && r.IntN(4) == 0 {
		G += pk(2, 4, 8)
	}
	split := []int{G}
	if G >= 4 && r.IntN(3) == 0 && !(blockedHead && r.IntN(5) != 0) {
		a := 2 + r.IntN(G-3)
		split = []int{a, G - a}
	}
	free := make([]int, len(split))
	for i, g := range split {
		name := fmt.Sprintf("n%d", i)
		alloc := v1.ResourceList{v1.ResourceCPU: mq(64000), v1.ResourceMemory: q(512 << 30), v1.ResourcePods: q(110), "nvidia.com/gpu": q(int64(g))}
		c.Objects.Nodes = append(c.Objects.Nodes, &v1.Node{ObjectMeta: metav1.ObjectMeta{Name: name, UID: types.UID("node-" + name),
			Labels: map[string]string{"kubernetes.io/hostname": name, "nvidia.com/gpu.count": strconv.Itoa(g)}},
			Status: v1.NodeStatus{Allocatable: alloc, Capacity: alloc.DeepCopy(), Conditions: []v1.NodeCondition{{Type: v1.NodeReady, Status: v1.ConditionTrue}}}})
		free[i] = g
	}

	// ---- queue forest
	nOrg := pk(2, 2, 3)
	if blockedHead {
		nOrg = pk(2, 2, 2, 3)
	}
	if nOrg > G {
		nOrg = G
	}
	quotas := composition(r, G, nOrg)   // org quotas sum to the capacity
	if r.IntN(5) == 0 && !blockedHead { // sometimes the quotas do not add up
		quotas[r.IntN(nOrg)] += pk(-1, 1)
		for i := range quotas {
			if quotas[i] < 0 {
				quotas[i] = 0
			}
		}
	}
	for s := 0; s < opts.Surplus; s++ {
		big := 0
		for i := range quotas {
			if quotas[i] > quotas[big] {
				big = i
			}
		}
		if quotas[big] > 1 {
			quotas[big]--
		}
	}
	type leaf struct {
		name  string
		org   int
		quota float64
	}
	var leaves []*leaf
	mkQueue := func(name, parent string, quota, oqw float64) {
		unl := enginev2.QueueResource{Quota: -1, Limit: -1, OverQuotaWeight: 1}
		qu := &enginev2.Queue{ObjectMeta: metav1.ObjectMeta{Name: name, UID: types.UID("queue-" + name),
			CreationTimestamp: metav1.NewTime(now.Add(-time.Duration(1000-len(c.Objects.Queues)) * time.Hour))},
			Spec: enginev2.QueueSpec{ParentQueue: parent, Resources: &enginev2.QueueResources{
				GPU: enginev2.QueueResource{Quota: quota, Limit: -1, OverQuotaWeight: oqw}, CPU: unl, Memory: unl}}}
		if opts.MinRuntime {
			if r.IntN(3) == 0 {
				qu.Spec.ReclaimMinRuntime = &metav1.Duration{Duration: time.Hour}
			}
			if r.IntN(3) == 0 {
				qu.Spec.PreemptMinRuntime = &metav1.Duration{Duration: time.Hour}
			}
		}
		c.Objects.Queues = append(c.Objects.Queues, qu)
	}
	commonDepth := pk(1, 2, 2, 3, 3)
	uneven := r.IntN(4) == 0
	for o := 0; o < nOrg; o++ {
		depth := commonDepth
		if uneven {
			depth = pk(1, 2, 3)
		}
		oq := float64(quotas[o])
		oqw := pf(1, 1, oq, 2)
		parent := ""
		chain := []string{"org", "dep", "team"}
		for lvl := 0; lvl < depth-1; lvl++ {
			name := fmt.Sprintf("%s%d", chain[lvl], o)
			mkQueue(name, parent, oq, oqw)
			oqw = 1
			parent = name
		}
		// bottom level: 1-2 leaf queues sharing the organisation's quota
		nl := 1
		if depth > 1 && (r.IntN(2) == 0 || (blockedHead && r.IntN(3) == 0)) {
			nl = 2
		}
		if nl == 1 {
			name := fmt.Sprintf("%s%d", chain[depth-1], o)
			mkQueue(name, parent, oq, oqw)
			leaves = append(leaves, &leaf{name, o, oq})
		} else {
			a := float64(r.IntN(quotas[o] + 1))
			whole := r.IntN(2) == 0 || (blockedHead && r.IntN(2) == 0) // both leaves may use the whole quota of the department
			if whole {
				a = oq
			}
			for i, lq := range []float64{a, oq - a} {
				if whole && i == 1 {
					lq = pf(0, oq, oq, oq)
				}
				name := fmt.Sprintf("%s%d%c", chain[depth-1], o, 'a'+i)
				mkQueue(name, parent, lq, pf(1, 1, 2))
				leaves = append(leaves, &leaf{name, o, lq})
			}
		}
	}
	leavesOf := func(o int) []*leaf {
		var out []*leaf
		for _, l := range leaves {
			if l.org == o {
				out = append(out, l)
			}
		}
		return out
	}

	// ---- workloads
	wid := 0
	workload := func(queue string, gpus int, prio string, running bool, age time.Duration) bool {
		name := fmt.Sprintf("w%d", wid)
		pg := &enginev2alpha2.PodGroup{ObjectMeta: metav1.ObjectMeta{Name: "pg-" + name, Namespace: "ns", UID: types.UID("pgu-" + name),
			CreationTimestamp: metav1.NewTime(now.Add(-age)), Annotations: map[string]string{}},
			Spec: enginev2alpha2.PodGroupSpec{MinMember: 1, Queue: queue, PriorityClassName: prio}}
		req := v1.ResourceList{v1.ResourceCPU: mq(100), v1.ResourceMemory: q(128 << 20), "nvidia.com/gpu": q(int64(gpus))}
		pod := &v1.Pod{ObjectMeta: metav1.ObjectMeta{Name: name + "-0", Namespace: "ns", UID: types.UID("uid-" + name + "-0"),
			Annotations: map[string]string{"pod-group-name": pg.Name, spec.LogicalNameAnno: name + "-0"}, Labels: map[string]string{},
			CreationTimestamp: metav1.NewTime(now.Add(-age))},
			Spec: v1.PodSpec{SchedulerName: spec.SchedulerName, PriorityClassName: prio,
				Containers: []v1.Container{{Name: "main", Image: "img", Resources: v1.ResourceRequirements{Requests: req, Limits: v1.ResourceList{"nvidia.com/gpu": q(int64(gpus))}}}}},
			Status: v1.PodStatus{Phase: v1.PodPending}}
		if running {
			ni := -1
			for i, f := range free {
				if f >= gpus {
					ni = i
					break
				}
			}
			if ni < 0 {
				return false
			}
			free[ni] -= gpus
			pod.Spec.NodeName = c.Objects.Nodes[ni].Name
			pod.Status.Phase = v1.PodRunning
			pod.Annotations["received-resource-type"] = "Regular"
			start := now.Add(-10 * time.Hour)
			if opts.MinRuntime && r.IntN(10) < 3 {
				start = now.Add(-time.Minute)
			}
			pg.Annotations["kai.scheduler/last-start-timestamp"] = start.Format(time.RFC3339)
		}
		if opts.MinRuntime && r.IntN(8) == 0 {
			pg.Spec.Preemptibility = enginev2alpha2.NonPreemptible
		}
		wid++
		c.Objects.PodGroups = append(c.Objects.PodGroups, pg)
		c.Objects.Pods = append(c.Objects.Pods, pod)
		return true
	}
	// elastic adds one running workload of n single-GPU pods with the given minimum; returns the pods placed
	elastic := func(queue string, min, n int, recent bool) int {
		name := fmt.Sprintf("w%d", wid)
		wid++
		start := now.Add(-10 * time.Hour)
		if recent {
			start = now.Add(-time.Minute)
		}
		pg := &enginev2alpha2.PodGroup{ObjectMeta: metav1.ObjectMeta{Name: "pg-" + name, Namespace: "ns", UID: types.UID("pgu-" + name),
			CreationTimestamp: metav1.NewTime(now.Add(-700 * time.Minute)), Annotations: map[string]string{"kai.scheduler/last-start-timestamp": start.Format(time.RFC3339)}},
			Spec: enginev2alpha2.PodGroupSpec{MinMember: int32(min), Queue: queue, PriorityClassName: "p-train"}}
		placed := 0
		for i := 0; i < n; i++ {
			ni := -1
			for j, f := range free {
				if f >= 1 {
					ni = j
					break
				}
			}
			if ni < 0 {
				break
			}
			free[ni]--
			req := v1.ResourceList{v1.ResourceCPU: mq(100), v1.ResourceMemory: q(128 << 20), "nvidia.com/gpu": q(1)}
			pn := fmt.Sprintf("%s-%d", name, i)
			c.Objects.Pods = append(c.Objects.Pods, &v1.Pod{ObjectMeta: metav1.ObjectMeta{Name: pn, Namespace: "ns", UID: types.UID("uid-" + pn),
				Annotations: map[string]string{"pod-group-name": pg.Name, spec.LogicalNameAnno: pn, "received-resource-type": "Regular"}, Labels: map[string]string{},
				CreationTimestamp: metav1.NewTime(now.Add(-700 * time.Minute))},
				Spec: v1.PodSpec{SchedulerName: spec.SchedulerName, PriorityClassName: "p-train", NodeName: c.Objects.Nodes[ni].Name,
					Containers: []v1.Container{{Name: "main", Image: "img", Resources: v1.ResourceRequirements{Requests: req, Limits: v1.ResourceList{"nvidia.com/gpu": q(1)}}}}},
				Status: v1.PodStatus{Phase: v1.PodRunning}})
			placed++
		}
		if placed > 0 {
			c.Objects.PodGroups = append(c.Objects.PodGroups, pg)
		}
		return placed
	}
	// running: one organisation above its quota, the others at or below; the cluster is full or one device short
	over := r.IntN(nOrg)
	run := make([]int, nOrg)
	left := G - pk(0, 0, 0, 1)
	if blockedHead {
		left = G
	}
	if opts.LateReclaimers {
		left = G - 1
	}
	for o := 0; o < nOrg; o++ {
		if o != over {
			run[o] = quotas[o] - pk(0, 1, 1, 2)
			if blockedHead {
				run[o] = quotas[o] - 1
			}
			if run[o] < 0 {
				run[o] = 0
			}
			left -= run[o]
		}
	}
	if left < 0 {
		left = 0
	}
	run[over] = left
	prio := func() string {
		if uniformPrio {
			return "p-train"
		}
		return ps("p-train", "p-train", "p-train", "p-train", "p-low", "p-mid")
	}
	for o := 0; o < nOrg; o++ {
		ls := leavesOf(o)
		if opts.MinRuntime && o == over && run[o] >= 3 && (r.IntN(2) == 0 || opts.ElasticFocus) {
			// the organisation above its quota runs one elastic workload instead of single-pod jobs: minimum 1-2,
			// the rest is surplus that several reclaimers of one cycle may take, but never more than that while the
			// workload is inside its min-runtime
			n := run[o]
			if n > 4 {
				n = 4
			}
			min := 1 + r.IntN(2)
			eq, recent := ls[r.IntN(len(ls))].name, r.IntN(2) == 0
			if opts.ElasticFocus {
				recent = true
				for qn := eq; qn != ""; {
					next := ""
					for _, qu := range c.Objects.Queues {
						if qu.Name == qn {
							qu.Spec.ReclaimMinRuntime = &metav1.Duration{Duration: time.Hour}
							qu.Spec.PreemptMinRuntime = &metav1.Duration{Duration: time.Hour}
							next = qu.Spec.ParentQueue
						}
					}
					qn = next
				}
			}
			if placed := elastic(eq, min, n, recent); placed > 0 {
				run[o] -= placed
			}
		}
		for n := run[o]; n > 0; {
			g := 1
			if n >= 2 && r.IntN(4) == 0 && !blockedHead {
				g = 2
			}
			l := ls[r.IntN(len(ls))]
			if blockedHead && len(ls) == 2 {
				l = ls[1] // the running work of a starved department sits in its second leaf queue
			}
			if !workload(l.name, g, prio(), true, time.Duration(600+wid)*time.Minute) {
				if g == 1 {
					break
				}
				continue
			}
			n -= g
		}
	}
	// pending: in the organisations below their quota (sometimes also in the one above it)
	for o := 0; o < nOrg; o++ {
		ls := leavesOf(o)
		n := pk(1, 2, 2, 3)
		if o == over {
			n = pk(0, 0, 1)
			if opts.LateReclaimers && n == 0 {
				n = 1
			}
		}
		bigFirst := r.IntN(2) == 0
		if blockedHead && o != over {
			n, bigFirst = pk(2, 2, 3), true
		}
		for i := 0; i < n; i++ {
			g := pk(1, 1, 2, 2, 3)
			if bigFirst && i == 0 {
				g = pk(2, 2, 3)
			} else if bigFirst {
				g = 1
			}
			if g > G {
				g = G
			}
			l := ls[r.IntN(len(ls))]
			if blockedHead && len(ls) == 2 && o != over {
				// the big job in the first leaf queue, the small ones next to the running work (or all in one queue)
				l = ls[1]
				if i == 0 && r.IntN(4) != 0 {
					l = ls[0]
				}
			}
			// jobs are created in index order: the first one is the oldest
			workload(l.name, g, prio(), false, time.Duration(300-10*i-o)*time.Minute)
		}
	}
	if opts.MinRuntime {
		c.Config.PluginArgs["minruntime"] = map[string]string{"defaultReclaimMinRuntime": "0s", "reclaimResolveMethod": ps("lca", "queue")}
	}
	if opts.EarlyRecreate {
		c.World.EarlyRecreate = true
		c.World.MaxTerminateCycles = pk(1, 2)
		c.Cycles = 6
	}
	if opts.LateReclaimers {
		overQ := map[string]bool{}
		for _, l := range leavesOf(over) {
			for qn := l.name; qn != ""; {
				next := ""
				for _, qu := range c.Objects.Queues {
					if qu.Name == qn {
						qu.Spec.ReclaimMinRuntime = &metav1.Duration{Duration: time.Hour}
						qu.Spec.PreemptMinRuntime = &metav1.Duration{Duration: time.Hour}
						next = qu.Spec.ParentQueue
					}
				}
				qn = next
			}
			overQ[l.name] = true
		}
		pendingOnly := map[string]bool{}
		for _, pod := range c.Objects.Pods {
			if g := pod.Annotations["pod-group-name"]; g != "" {
				if _, seen := pendingOnly[g]; !seen {
					pendingOnly[g] = true
				}
				if pod.Spec.NodeName != "" {
					pendingOnly[g] = false
				}
			}
		}
		rl := NewRand(seed, index, 24)
		// in half of these cases one running single-pod workload of the over-quota organisation that started ten hours
		// ago is being restarted: its pod is terminating and the replacement is pending. If the replacement gets the
		// free device while the old pod is still there, the workload has (re)started NOW
		if rl.IntN(2) == 0 {
			for _, pg := range c.Objects.PodGroups {
				if !overQ[pg.Spec.Queue] || pg.Spec.MinMember != 1 || pg.Spec.Preemptibility == enginev2alpha2.NonPreemptible {
					continue
				}
				var own []*v1.Pod
				for _, pod := range c.Objects.Pods {
					if pod.Annotations["pod-group-name"] == pg.Name {
						own = append(own, pod)
					}
				}
				if len(own) != 1 || own[0].Spec.NodeName == "" || own[0].DeletionTimestamp != nil {
					continue
				}
				old := own[0]
				repl := old.DeepCopy()
				repl.Name = old.Name + "-r0"
				repl.UID = types.UID("uid-" + repl.Name)
				repl.Spec.NodeName = ""
				repl.Status = v1.PodStatus{Phase: v1.PodPending}
				delete(repl.Annotations, "received-resource-type")
				repl.CreationTimestamp = metav1.NewTime(now.Add(-time.Minute))
				dt := metav1.NewTime(now)
				old.DeletionTimestamp = &dt
				old.Finalizers = []string{"verif/terminating"}
				old.Annotations[spec.RecreatedAnno] = "true"
				pg.Annotations["kai.scheduler/last-start-timestamp"] = now.Add(-10 * time.Hour).Format(time.RFC3339)
				c.Objects.Pods = append(c.Objects.Pods, repl)
				c.Meta["restarting_workload"] = pg.Name
				break
			}
		}
		for _, pg := range c.Objects.PodGroups {
			if overQ[pg.Spec.Queue] || !pendingOnly[pg.Name] {
				continue
			}
			k := 2 + rl.IntN(2)
			pg.Annotations[spec.ArriveAnno] = strconv.Itoa(k)
			created := metav1.NewTime(now.Add(time.Duration(k) * time.Second))
			pg.CreationTimestamp = created
			for _, pod := range c.Objects.Pods {
				if pod.Annotations["pod-group-name"] == pg.Name {
					pod.CreationTimestamp = created
				}
			}
		}
	} else if opts.MinRuntime && opts.EarlyRecreate {
		// open system: a third of the pending jobs are submitted later (own stream: the other draws stay what they were).
		// Work that started in an earlier cycle of the case is then what a late reclaimer meets
		MarkArrivals(c, NewRand(seed, index, 22), 0.3)
	}
	return c
}

// composition splits n into k non-negative parts, each >= 1 when n >= k.
func composition(r *rand.Rand, n, k int) []int {
	out := make([]int, k)
	rest := n
	if n >= k {
		for i := range out {
			out[i] = 1
		}
		rest = n - k
	}
	for ; rest > 0; rest-- {
		out[r.IntN(k)]++
	}
	return out
}
