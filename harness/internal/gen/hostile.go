package gen

import (
	"fmt"
	"k8s.io/apimachinery/pkg/api/resource"
	"math"
	"math/rand/v2"
	"time"

	v1 "k8s.io/api/core/v1"
	metav1 "k8s.io/apimachinery/pkg/apis/meta/v1"
	"k8s.io/apimachinery/pkg/types"
	"k8s.io/utils/ptr"

	kaiv1alpha1 "github.com/NVIDIA/KAI-scheduler/pkg/apis/kai/v1alpha1"
	schedulingv1alpha2 "github.com/NVIDIA/KAI-scheduler/pkg/apis/scheduling/v1alpha2"
	enginev2 "github.com/NVIDIA/KAI-scheduler/pkg/apis/scheduling/v2"
	enginev2alpha2 "github.com/NVIDIA/KAI-scheduler/pkg/apis/scheduling/v2alpha2"

	"verif/harness/internal/spec"
)

const (
	ControlPod   = "ctl-0"
	ControlPod2  = "ctl2-0"
	ControlNode  = "ctl-node"
	ControlQueue = "ctl-q"
)

var hostileNumbers = []string{"NaN", "Inf", "-Inf", "-1", "0", "1e309", "0x1p-2", " 0.5", "", "9223372036854775808", "-9223372036854775808", "1.5", "abc", "1e-400", "+0.5", "0.5 ", "nan", "18446744073709551615", "00000.5", "1_0"}

// AddControl adds a healthy control workload: its own two-level queue, a dedicated tainted node and one small pod.
func AddControl(c *spec.Case) {
	now := time.Now().Truncate(time.Second)
	unl := enginev2.QueueResource{Quota: -1, Limit: -1, OverQuotaWeight: 1}
	for _, q := range []struct{ n, p string }{{"ctl-dept", ""}, {ControlQueue, "ctl-dept"}} {
		c.Objects.Queues = append(c.Objects.Queues, &enginev2.Queue{ObjectMeta: metav1.ObjectMeta{Name: q.n, UID: types.UID("queue-" + q.n), CreationTimestamp: metav1.NewTime(now.Add(-2000 * time.Hour))},
			Spec: enginev2.QueueSpec{ParentQueue: q.p, Resources: &enginev2.QueueResources{GPU: unl, CPU: unl, Memory: unl}}})
	}
	labels := map[string]string{"kubernetes.io/hostname": ControlNode, "verif/ctl": "true"}
	if c.Config.NodePoolKey != "" && c.Config.NodePoolValue != "" {
		labels[c.Config.NodePoolKey] = c.Config.NodePoolValue
	}
	// huge, so that generated pods tolerating every taint cannot fill it
	alloc := v1.ResourceList{v1.ResourceCPU: mq(1000000), v1.ResourceMemory: q(100 << 40), v1.ResourcePods: q(2000)}
	c.Objects.Nodes = append(c.Objects.Nodes, &v1.Node{ObjectMeta: metav1.ObjectMeta{Name: ControlNode, Labels: labels, UID: "node-ctl"},
		Spec:   v1.NodeSpec{Taints: []v1.Taint{{Key: "verif/ctl", Value: "true", Effect: v1.TaintEffectNoSchedule}}},
		Status: v1.NodeStatus{Allocatable: alloc, Capacity: alloc.DeepCopy(), Conditions: []v1.NodeCondition{{Type: v1.NodeReady, Status: v1.ConditionTrue}}}})
	c.Objects.PodGroups = append(c.Objects.PodGroups, &enginev2alpha2.PodGroup{ObjectMeta: metav1.ObjectMeta{Name: "pg-ctl", Namespace: "ns", UID: "pgu-ctl",
		CreationTimestamp: metav1.NewTime(now.Add(-time.Hour)), Annotations: map[string]string{spec.ControlAnno: "true"}},
		Spec: enginev2alpha2.PodGroupSpec{MinMember: 1, Queue: ControlQueue, PriorityClassName: "p-train"}})
	c.Objects.Pods = append(c.Objects.Pods, &v1.Pod{ObjectMeta: metav1.ObjectMeta{Name: ControlPod, Namespace: "ns", UID: "uid-ctl-0",
		Annotations: map[string]string{"pod-group-name": "pg-ctl", spec.ControlAnno: "true"}, CreationTimestamp: metav1.NewTime(now.Add(-time.Hour))},
		Spec: v1.PodSpec{SchedulerName: spec.SchedulerName, NodeSelector: map[string]string{"verif/ctl": "true"},
			Tolerations: []v1.Toleration{{Key: "verif/ctl", Operator: v1.TolerationOpExists}},
			Containers:  []v1.Container{{Name: "main", Image: "img", Resources: v1.ResourceRequirements{Requests: v1.ResourceList{v1.ResourceCPU: mq(100), v1.ResourceMemory: q(64 << 20)}}}}},
		Status: v1.PodStatus{Phase: v1.PodPending}})
	// a second, younger control workload in the same queue: once the first one is allocated the queue has a share and
	// goes behind the queues that hold nothing yet, so this one is attempted AFTER the jobs of the other (possibly
	// malformed) queues in the same action
	pg2 := c.Objects.PodGroups[len(c.Objects.PodGroups)-1].DeepCopy()
	pg2.Name, pg2.UID, pg2.CreationTimestamp = "pg-ctl2", "pgu-ctl2", metav1.NewTime(now.Add(-time.Minute))
	p2 := c.Objects.Pods[len(c.Objects.Pods)-1].DeepCopy()
	p2.Name, p2.UID, p2.CreationTimestamp = ControlPod2, "uid-ctl2-0", metav1.NewTime(now.Add(-time.Minute))
	p2.Annotations["pod-group-name"] = "pg-ctl2"
	c.Objects.PodGroups = append(c.Objects.PodGroups, pg2)
	c.Objects.Pods = append(c.Objects.Pods, p2)
	LabelForNodePool(c)
}

// Hostile applies n malformed-object mutations to the case and returns their names. The control workload
// (added afterwards by the caller) is never touched.
func Hostile(c *spec.Case, r *rand.Rand, n int) []string {
	pick := func(k int) int {
		if k <= 0 {
			return 0
		}
		return r.IntN(k)
	}
	num := func() string { return hostileNumbers[r.IntN(len(hostileNumbers))] }
	o := &c.Objects
	muts := []struct {
		name string
		f    func() bool
	}{
		{"queue-self-parent", func() bool {
			if len(o.Queues) == 0 {
				return false
			}
			q := o.Queues[pick(len(o.Queues))]
			q.Spec.ParentQueue = q.Name
			return true
		}},
		{"queue-2-cycle", func() bool {
			if len(o.Queues) < 2 {
				return false
			}
			a, b := o.Queues[pick(len(o.Queues))], o.Queues[pick(len(o.Queues))]
			if a == b {
				return false
			}
			a.Spec.ParentQueue, b.Spec.ParentQueue = b.Name, a.Name
			return true
		}},
		{"queue-3-cycle", func() bool {
			if len(o.Queues) < 3 {
				return false
			}
			p := r.Perm(len(o.Queues))
			a, b, d := o.Queues[p[0]], o.Queues[p[1]], o.Queues[p[2]]
			a.Spec.ParentQueue, b.Spec.ParentQueue, d.Spec.ParentQueue = b.Name, d.Name, a.Name
			return true
		}},
		{"queue-missing-parent", func() bool {
			if len(o.Queues) == 0 {
				return false
			}
			o.Queues[pick(len(o.Queues))].Spec.ParentQueue = "no-such-queue"
			return true
		}},
		{"queue-nil-resources", func() bool {
			if len(o.Queues) == 0 {
				return false
			}
			o.Queues[pick(len(o.Queues))].Spec.Resources = nil
			return true
		}},
		{"queue-negative-or-huge-quota", func() bool {
			if len(o.Queues) == 0 {
				return false
			}
			q := o.Queues[pick(len(o.Queues))]
			if q.Spec.Resources == nil {
				return false
			}
			vals := []float64{-5, 1e308, -1e308, 1e18, -0.5}
			q.Spec.Resources.GPU.Quota = vals[pick(len(vals))]
			q.Spec.Resources.CPU.Limit = vals[pick(len(vals))]
			q.Spec.Resources.Memory.OverQuotaWeight = vals[pick(len(vals))]
			return true
		}},
		{"queue-negative-priority-and-minruntime", func() bool {
			if len(o.Queues) == 0 {
				return false
			}
			q := o.Queues[pick(len(o.Queues))]
			q.Spec.Priority = ptr.To(-1 << 31)
			q.Spec.PreemptMinRuntime = &metav1.Duration{Duration: -time.Hour}
			q.Spec.ReclaimMinRuntime = &metav1.Duration{Duration: 1 << 62}
			return true
		}},
		{"podgroup-missing-queue", func() bool {
			if len(o.PodGroups) == 0 {
				return false
			}
			o.PodGroups[pick(len(o.PodGroups))].Spec.Queue = "no-such-queue"
			return true
		}},
		{"podgroup-in-non-leaf-queue", func() bool {
			if len(o.PodGroups) == 0 {
				return false
			}
			for _, q := range o.Queues {
				if q.Spec.ParentQueue != "" {
					o.PodGroups[pick(len(o.PodGroups))].Spec.Queue = q.Spec.ParentQueue
					return true
				}
			}
			return false
		}},
		{"podgroup-empty-queue", func() bool {
			if len(o.PodGroups) == 0 {
				return false
			}
			o.PodGroups[pick(len(o.PodGroups))].Spec.Queue = ""
			return true
		}},
		{"subgroups-duplicate-names", func() bool {
			if len(o.PodGroups) == 0 {
				return false
			}
			pg := o.PodGroups[pick(len(o.PodGroups))]
			pg.Spec.SubGroups = append(pg.Spec.SubGroups, enginev2alpha2.SubGroup{Name: "dup", MinMember: 1}, enginev2alpha2.SubGroup{Name: "dup", MinMember: 2})
			return true
		}},
		{"subgroups-unknown-parent", func() bool {
			if len(o.PodGroups) == 0 {
				return false
			}
			pg := o.PodGroups[pick(len(o.PodGroups))]
			pg.Spec.SubGroups = append(pg.Spec.SubGroups, enginev2alpha2.SubGroup{Name: "orphan", MinMember: 1, Parent: ptr.To("nowhere")})
			return true
		}},
		{"subgroups-parent-cycle", func() bool {
			if len(o.PodGroups) == 0 {
				return false
			}
			pg := o.PodGroups[pick(len(o.PodGroups))]
			pg.Spec.SubGroups = append(pg.Spec.SubGroups, enginev2alpha2.SubGroup{Name: "ca", MinMember: 1, Parent: ptr.To("cb")},
				enginev2alpha2.SubGroup{Name: "cb", MinMember: 1, Parent: ptr.To("ca")}, enginev2alpha2.SubGroup{Name: "self", MinMember: 1, Parent: ptr.To("self")})
			return true
		}},
		{"minmember-nonpositive-or-huge", func() bool {
			if len(o.PodGroups) == 0 {
				return false
			}
			pg := o.PodGroups[pick(len(o.PodGroups))]
			vals := []int32{0, -1, -2147483648, 2147483647, 1000}
			pg.Spec.MinMember = vals[pick(len(vals))]
			for i := range pg.Spec.SubGroups {
				pg.Spec.SubGroups[i].MinMember = vals[pick(len(vals))]
			}
			return true
		}},
		{"pod-without-containers", func() bool {
			for _, p := range o.Pods {
				if p.Status.Phase == v1.PodPending && p.Spec.NodeName == "" && r.IntN(3) == 0 {
					p.Spec.Containers = nil
					p.Spec.InitContainers = nil
					return true
				}
			}
			return false
		}},
		{"pod-without-podgroup", func() bool {
			for _, p := range o.Pods {
				if p.Status.Phase == v1.PodPending && r.IntN(3) == 0 {
					p.Annotations["pod-group-name"] = "no-such-podgroup"
					return true
				}
			}
			return false
		}},
		{"pod-unknown-subgroup-label", func() bool {
			for _, p := range o.Pods {
				if r.IntN(4) == 0 && p.Namespace == "ns" {
					if p.Labels == nil {
						p.Labels = map[string]string{}
					}
					p.Labels["kai.scheduler/subgroup-name"] = "no-such-subgroup"
					return true
				}
			}
			return false
		}},
		{"gpu-annotations-garbage", func() bool {
			done := false
			for _, p := range o.Pods {
				if p.Namespace == "ns" && r.IntN(3) == 0 {
					switch r.IntN(4) {
					case 0:
						p.Annotations["gpu-fraction"] = num()
					case 1:
						p.Annotations["gpu-memory"] = num()
					case 2:
						p.Annotations["gpu-fraction"] = "0.5"
						p.Annotations["gpu-fraction-num-devices"] = num()
					default:
						p.Annotations["nvidia.com/mig-1g.5gb"] = num()
					}
					done = true
				}
			}
			return done
		}},
		{"gpu-annotations-garbage-combined", func() bool {
			// several sharing annotations at once, each possibly garbage: the parsers branch on which ones are present
			done := false
			for _, p := range o.Pods {
				if p.Namespace == "ns" && r.IntN(3) == 0 {
					val := func(ok string) string {
						if r.IntN(2) == 0 {
							return num()
						}
						return ok
					}
					if r.IntN(2) == 0 {
						p.Annotations["gpu-fraction"] = val("0.5")
					}
					if r.IntN(2) == 0 {
						p.Annotations["gpu-memory"] = val("1000")
					}
					p.Annotations["gpu-fraction-num-devices"] = val([]string{"1", "2", "3"}[r.IntN(3)])
					done = true
				}
			}
			return done
		}},
		{"topology-odd-level-labels", func() bool {
			// a level whose node label is the name the plugin uses for its own root domain, a level listed twice, an
			// empty label; nodes carry matching labels
			lvls := [][]string{{"root", "zone"}, {"zone", "zone"}, {"", "zone"}, {"root"}, {"kubernetes.io/hostname", "root"}}[r.IntN(5)]
			tp := &kaiv1alpha1.Topology{ObjectMeta: metav1.ObjectMeta{Name: "odd-topo"}}
			for _, l := range lvls {
				tp.Spec.Levels = append(tp.Spec.Levels, kaiv1alpha1.TopologyLevel{NodeLabel: l})
			}
			o.Topologies = append(o.Topologies, tp)
			for _, n := range o.Nodes {
				if n.Name == ControlNode {
					continue
				}
				if n.Labels == nil {
					n.Labels = map[string]string{}
				}
				n.Labels["root"] = []string{"root", "r1", n.Name}[r.IntN(3)]
			}
			if len(o.PodGroups) > 0 {
				pg := o.PodGroups[pick(len(o.PodGroups))]
				pg.Spec.TopologyConstraint = enginev2alpha2.TopologyConstraint{Topology: "odd-topo", RequiredTopologyLevel: lvls[len(lvls)-1]}
				pg2 := o.PodGroups[pick(len(o.PodGroups))]
				pg2.Spec.TopologyConstraint = enginev2alpha2.TopologyConstraint{Topology: "odd-topo", PreferredTopologyLevel: lvls[0]}
			}
			return true
		}},
		{"running-fraction-pod-without-group-or-with-garbage", func() bool {
			for _, p := range o.Pods {
				if p.Spec.NodeName != "" && p.Namespace == "ns" && r.IntN(2) == 0 {
					p.Annotations["gpu-fraction"] = num()
					if r.IntN(2) == 0 {
						p.Labels["runai-gpu-group"] = ""
					}
					return true
				}
			}
			return false
		}},
		{"node-without-labels", func() bool {
			if len(o.Nodes) == 0 {
				return false
			}
			o.Nodes[pick(len(o.Nodes))].Labels = nil
			return true
		}},
		{"node-zero-or-negative-allocatable", func() bool {
			if len(o.Nodes) == 0 {
				return false
			}
			n := o.Nodes[pick(len(o.Nodes))]
			for k := range n.Status.Allocatable {
				vals := []int64{0, -1, -1000}
				n.Status.Allocatable[k] = q(vals[pick(len(vals))])
			}
			return true
		}},
		{"node-empty-allocatable", func() bool {
			if len(o.Nodes) == 0 {
				return false
			}
			n := o.Nodes[pick(len(o.Nodes))]
			n.Status.Allocatable = nil
			n.Status.Capacity = nil
			n.Status.Conditions = nil
			return true
		}},
		{"node-garbage-gpu-labels", func() bool {
			if len(o.Nodes) == 0 {
				return false
			}
			n := o.Nodes[pick(len(o.Nodes))]
			if n.Labels == nil {
				n.Labels = map[string]string{}
			}
			n.Labels["nvidia.com/gpu.count"] = num()
			n.Labels["nvidia.com/gpu.memory"] = num()
			n.Labels["nvidia.com/mig.strategy"] = num()
			return true
		}},
		{"bindrequest-for-missing-pod-or-node", func() bool {
			o.BindRequests = append(o.BindRequests, &schedulingv1alpha2.BindRequest{ObjectMeta: metav1.ObjectMeta{Name: "ghost", Namespace: "ns", UID: "br-ghost"},
				Spec: schedulingv1alpha2.BindRequestSpec{PodName: "no-such-pod", SelectedNode: "no-such-node", ReceivedResourceType: "Fraction"}})
			for _, p := range o.Pods {
				if p.Status.Phase == v1.PodPending && p.Spec.NodeName == "" && p.Namespace == "ns" {
					o.BindRequests = append(o.BindRequests, &schedulingv1alpha2.BindRequest{ObjectMeta: metav1.ObjectMeta{Name: p.Name + "-x", Namespace: "ns", UID: types.UID("br-x-" + p.Name)},
						Spec: schedulingv1alpha2.BindRequestSpec{PodName: p.Name, SelectedNode: "no-such-node", ReceivedResourceType: "Fraction", ReceivedGPU: nil}})
					break
				}
			}
			return true
		}},
		{"bindrequest-fraction-with-empty-groups", func() bool {
			for _, p := range o.Pods {
				if p.Status.Phase == v1.PodPending && p.Spec.NodeName == "" && p.Namespace == "ns" && len(o.Nodes) > 0 {
					dup := false
					for _, b := range o.BindRequests {
						dup = dup || (b.Name == p.Name && b.Namespace == "ns")
					}
					if dup {
						continue
					}
					o.BindRequests = append(o.BindRequests, &schedulingv1alpha2.BindRequest{ObjectMeta: metav1.ObjectMeta{Name: p.Name, Namespace: "ns", UID: types.UID("br-e-" + p.Name)},
						Spec: schedulingv1alpha2.BindRequestSpec{PodName: p.Name, SelectedNode: o.Nodes[0].Name, ReceivedResourceType: "Fraction", SelectedGPUGroups: nil,
							ReceivedGPU: &schedulingv1alpha2.ReceivedGPU{Count: -1, Portion: "abc"}, BackoffLimit: ptr.To(int32(-1))}})
					return true
				}
			}
			return false
		}},
		{"topology-zero-levels-and-dangling-constraints", func() bool {
			o.Topologies = append(o.Topologies, &kaiv1alpha1.Topology{ObjectMeta: metav1.ObjectMeta{Name: "empty-topo"}})
			if len(o.PodGroups) > 0 {
				pg := o.PodGroups[pick(len(o.PodGroups))]
				pg.Spec.TopologyConstraint = enginev2alpha2.TopologyConstraint{Topology: "empty-topo", RequiredTopologyLevel: "zone"}
				pg2 := o.PodGroups[pick(len(o.PodGroups))]
				pg2.Spec.TopologyConstraint = enginev2alpha2.TopologyConstraint{Topology: "", RequiredTopologyLevel: "zone", PreferredTopologyLevel: "rack"}
			}
			return true
		}},
		{"topology-constraint-unknown-level-or-topology", func() bool {
			// pod groups (pending ones first) whose constraint names an existing Topology but a level it does not have,
			// as required or preferred level, on the group or on a sub-group; or a Topology that does not exist
			if len(o.Topologies) == 0 || len(o.PodGroups) == 0 {
				return false
			}
			done := 0
			for _, pg := range o.PodGroups {
				if done >= 2 || r.IntN(3) != 0 {
					continue
				}
				tc := enginev2alpha2.TopologyConstraint{Topology: o.Topologies[pick(len(o.Topologies))].Name}
				if r.IntN(6) == 0 {
					tc.Topology = "no-such-topology"
				}
				switch r.IntN(3) {
				case 0:
					tc.PreferredTopologyLevel = "no-such-level"
				case 1:
					tc.RequiredTopologyLevel = "no-such-level"
				default:
					tc.PreferredTopologyLevel, tc.RequiredTopologyLevel = "no-such-level", "kubernetes.io/hostname"
				}
				if len(pg.Spec.SubGroups) > 0 && r.IntN(2) == 0 {
					pg.Spec.SubGroups[pick(len(pg.Spec.SubGroups))].TopologyConstraint = &tc
				} else {
					pg.Spec.TopologyConstraint = tc
				}
				done++
			}
			return done > 0
		}},
		{"pod-running-without-node-or-on-missing-node", func() bool {
			done := false
			for _, p := range o.Pods {
				if p.Namespace != "ns" {
					continue
				}
				if p.Spec.NodeName != "" && r.IntN(3) == 0 {
					p.Spec.NodeName = "no-such-node"
					done = true
				} else if p.Spec.NodeName == "" && r.IntN(4) == 0 {
					p.Status.Phase = v1.PodRunning
					done = true
				}
			}
			return done
		}},
		{"queue-named-default-and-odd-names", func() bool {
			// with project-level fairness the scheduler synthesises a parent queue called "default"
			unl := enginev2.QueueResource{Quota: -1, Limit: -1, OverQuotaWeight: 1}
			o.Queues = append(o.Queues, &enginev2.Queue{ObjectMeta: metav1.ObjectMeta{Name: "default", UID: "queue-default-user"},
				Spec: enginev2.QueueSpec{ParentQueue: "", Resources: &enginev2.QueueResources{GPU: unl, CPU: unl, Memory: unl}}})
			if len(o.Queues) > 1 {
				o.Queues[pick(len(o.Queues)-1)].Spec.ParentQueue = "default"
			}
			return true
		}},
		{"podgroup-garbage-annotations-and-timestamps", func() bool {
			if len(o.PodGroups) == 0 {
				return false
			}
			pg := o.PodGroups[pick(len(o.PodGroups))]
			if pg.Annotations == nil {
				pg.Annotations = map[string]string{}
			}
			pg.Annotations["kai.scheduler/last-start-timestamp"] = []string{"yesterday", "", "0001-01-01T00:00:00Z", "9999-12-31T23:59:59Z", "2026-13-45T99:99:99Z"}[pick(5)]
			pg.Annotations["kai.scheduler/stale-podgroup-timestamp"] = []string{"never", "", "9999-12-31T23:59:59Z"}[pick(3)]
			pg.Spec.PriorityClassName = []string{"", "no-such-class", "system-node-critical"}[pick(3)]
			pg.Spec.Preemptibility = enginev2alpha2.Preemptibility([]string{"", "maybe", "PREEMPTIBLE"}[pick(3)])
			return true
		}},
		{"pod-negative-or-huge-requests", func() bool {
			for _, p := range o.Pods {
				if p.Namespace == "ns" && len(p.Spec.Containers) > 0 && r.IntN(3) == 0 {
					c0 := &p.Spec.Containers[0]
					if c0.Resources.Requests == nil {
						c0.Resources.Requests = v1.ResourceList{}
					}
					switch pick(4) {
					case 0:
						c0.Resources.Requests[v1.ResourceCPU] = *resource.NewMilliQuantity(-500, resource.DecimalSI)
					case 1:
						c0.Resources.Requests[v1.ResourceMemory] = *resource.NewQuantity(math.MaxInt64, resource.BinarySI)
					case 2:
						c0.Resources.Requests["nvidia.com/gpu"] = *resource.NewQuantity(-1, resource.DecimalSI)
					case 3:
						c0.Resources.Requests["nvidia.com/gpu"] = *resource.NewQuantity(1<<40, resource.DecimalSI)
					}
					return true
				}
			}
			return false
		}},
		{"pod-dangling-resource-claims-and-volumes", func() bool {
			for _, p := range o.Pods {
				if p.Namespace == "ns" && p.Spec.NodeName == "" && r.IntN(2) == 0 {
					none := "no-such-claim"
					p.Spec.ResourceClaims = append(p.Spec.ResourceClaims, v1.PodResourceClaim{Name: "c1", ResourceClaimName: &none},
						v1.PodResourceClaim{Name: "c2", ResourceClaimTemplateName: &none}, v1.PodResourceClaim{Name: "c3"})
					p.Spec.Volumes = append(p.Spec.Volumes, v1.Volume{Name: "v", VolumeSource: v1.VolumeSource{PersistentVolumeClaim: &v1.PersistentVolumeClaimVolumeSource{ClaimName: "no-such-pvc"}}})
					return true
				}
			}
			return false
		}},
		{"pod-odd-affinity-and-selectors", func() bool {
			for _, p := range o.Pods {
				if p.Namespace == "ns" && p.Spec.NodeName == "" && r.IntN(2) == 0 {
					p.Spec.Affinity = &v1.Affinity{
						NodeAffinity:    &v1.NodeAffinity{RequiredDuringSchedulingIgnoredDuringExecution: &v1.NodeSelector{NodeSelectorTerms: []v1.NodeSelectorTerm{{}, {MatchExpressions: []v1.NodeSelectorRequirement{{Key: "zone", Operator: "Bogus", Values: []string{"a"}}, {Key: "", Operator: v1.NodeSelectorOpGt, Values: []string{"x"}}}}}}},
						PodAntiAffinity: &v1.PodAntiAffinity{RequiredDuringSchedulingIgnoredDuringExecution: []v1.PodAffinityTerm{{TopologyKey: "", LabelSelector: &metav1.LabelSelector{MatchExpressions: []metav1.LabelSelectorRequirement{{Key: "a", Operator: "Bogus"}}}}}},
					}
					p.Spec.NodeSelector = map[string]string{"": "", "kubernetes.io/hostname": ""}
					p.Spec.Tolerations = append(p.Spec.Tolerations, v1.Toleration{Operator: "Bogus"}, v1.Toleration{Key: "", Operator: v1.TolerationOpEqual, Value: "x"})
					return true
				}
			}
			return false
		}},
		{"stale-gang-in-missing-queue", func() bool {
			// a gang below its minimum with running pods (stale) whose queue does not exist
			for _, pg := range o.PodGroups {
				running := 0
				for _, p := range o.Pods {
					if p.Annotations["pod-group-name"] == pg.Name && p.Spec.NodeName != "" && p.DeletionTimestamp == nil && p.Status.Phase == v1.PodRunning {
						running++
					}
				}
				if running == 0 || r.IntN(2) == 0 {
					continue
				}
				pg.Spec.MinMember = int32(running + 2)
				pg.Spec.SubGroups = nil
				pg.Spec.Queue = []string{"no-such-queue", ""}[pick(2)]
				if pg.Annotations == nil {
					pg.Annotations = map[string]string{}
				}
				pg.Annotations["kai.scheduler/stale-podgroup-timestamp"] = "2020-01-01T00:00:00Z"
				return true
			}
			return false
		}},
		{"running-workload-subgroups-without-minimum", func() bool {
			// a RUNNING workload gets two leaf sub-groups that omit minMember (0 passes the CRD schema) or carry a
			// negative one: the running pods are in the first, the second is empty or holds one pending pod and sorts
			// after it. Victim selection (reclaim, preempt, consolidation) then has to take tasks from a job whose pod
			// sets have no minimum
			for _, pg := range o.PodGroups {
				var running []*v1.Pod
				for _, p := range o.Pods {
					if p.Annotations["pod-group-name"] == pg.Name && p.Spec.NodeName != "" && p.DeletionTimestamp == nil && p.Status.Phase == v1.PodRunning {
						running = append(running, p)
					}
				}
				if len(running) == 0 || len(pg.Spec.SubGroups) > 0 || r.IntN(2) == 0 {
					continue
				}
				vals := []int32{0, 0, 0, -1}
				pg.Spec.SubGroups = []enginev2alpha2.SubGroup{{Name: "a-workers", MinMember: vals[pick(len(vals))]}, {Name: "z-spare", MinMember: vals[pick(len(vals))]}}
				for _, p := range running {
					if p.Labels == nil {
						p.Labels = map[string]string{}
					}
					p.Labels["kai.scheduler/subgroup-name"] = "a-workers"
				}
				if r.IntN(2) == 0 {
					spare := running[0].DeepCopy()
					spare.Name, spare.UID = running[0].Name+"-spare", running[0].UID+"-spare"
					spare.Spec.NodeName, spare.Status = "", v1.PodStatus{Phase: v1.PodPending}
					spare.Labels["kai.scheduler/subgroup-name"] = "z-spare"
					spare.Annotations[spec.LogicalNameAnno] = spare.Name
					for k := range spare.Labels {
						if k == "runai-gpu-group" || len(k) > 16 && k[:16] == "runai-gpu-group/" {
							delete(spare.Labels, k)
						}
					}
					delete(spare.Annotations, "received-resource-type")
					o.Pods = append(o.Pods, spare)
				}
				return true
			}
			return false
		}},
		{"priority-classes-missing", func() bool {
			o.PriorityClasses = nil
			return true
		}},
		{"pod-terminated-phases-and-unknown", func() bool {
			for _, p := range o.Pods {
				if p.Spec.NodeName != "" && r.IntN(3) == 0 {
					phases := []v1.PodPhase{v1.PodSucceeded, v1.PodFailed, v1.PodUnknown, ""}
					p.Status.Phase = phases[pick(len(phases))]
				}
			}
			return true
		}},
	}
	var applied []string
	used := map[string]bool{}
	for tries := 0; len(applied) < n && tries < 40; tries++ {
		m := muts[r.IntN(len(muts))]
		if used[m.name] { // object-adding mutations must not run twice (duplicate names)
			continue
		}
		if m.f() {
			used[m.name] = true
			applied = append(applied, m.name)
		}
	}
	return applied
}

var _ = fmt.Sprintf
