// Package gen draws cluster cases (API object sets + scheduler configuration + fault plan) from a
// PCG stream. Cases are fully determined by (seed, index, profile, tier).
package gen

import (
	"fmt"
	"math/rand/v2"
	"os"
	"sort"
	"strconv"
	"time"

	v1 "k8s.io/api/core/v1"
	schedulingv1 "k8s.io/api/scheduling/v1"
	"k8s.io/apimachinery/pkg/api/resource"
	metav1 "k8s.io/apimachinery/pkg/apis/meta/v1"
	"k8s.io/apimachinery/pkg/types"
	"k8s.io/utils/ptr"

	kaiv1alpha1 "github.com/NVIDIA/KAI-scheduler/pkg/apis/kai/v1alpha1"
	schedulingv1alpha2 "github.com/NVIDIA/KAI-scheduler/pkg/apis/scheduling/v1alpha2"
	enginev2 "github.com/NVIDIA/KAI-scheduler/pkg/apis/scheduling/v2"
	enginev2alpha2 "github.com/NVIDIA/KAI-scheduler/pkg/apis/scheduling/v2alpha2"

	"verif/harness/internal/k8sm"
	"verif/harness/internal/spec"
)

// Knobs bias the generator; every profile is a Knobs value.
type Knobs struct {
	NodesMin, NodesMax         int
	GPUChoices                 []int
	PGpuMemLabel               float64
	PMigNode                   float64
	PExtRes                    float64
	PSmallPods                 float64 // node with a tiny pod capacity
	PNodeLabels                float64 // zone/rack labels present
	PTaint                     float64
	PNotReady                  float64
	PUnschedulable             float64
	QueueDepthMax              int
	QueueChildrenMax           int
	PFiniteCPUQuota            float64
	PLimit                     float64
	PMinRuntime                float64
	WorkloadsMin, WorkloadsMax int
	GangMax                    int
	PGang                      float64
	PSubGroups                 float64
	PElastic                   float64
	PExplicitPreemptibility    float64
	KindWeights                map[string]int // cpu, besteffort, whole, fraction, gpumem, multifrac, mig, ext
	PNodeSelector              float64
	PNodeAffinity              float64
	PToleration                float64
	PAntiAffinity              float64
	PAffinity                  float64
	PTopology                  float64
	Fill                       float64 // probability that a workload is pre-placed
	PTerminating               float64 // pre-placed pod is terminating
	PBinding                   float64 // pre-placed pod is Pending + BindRequest
	PBoundPending              float64 // pre-placed pod is Pending with nodeName
	ActionsChoices             []string
	PFaults                    float64
	CyclesMin, CyclesMax       int
	CloneClasses               int // C16: number of clone classes
	PNodePool                  float64
	SmallNodes                 bool // capacities chosen so that few pods fill a node
	PForeignPod                float64
	PInitContainers            float64
	Closed                     bool
	NoMinRuntimeNearBoundary   bool
	NoEvictCallFaults          bool    // C13/C14 do not quantify over failing Evict calls
	PStaleGang                 float64 // probability that a running workload is a stale gang (below minimum for long)
	PQueueDepth                float64 // C16: probability of a finite per-action queue depth for allocate
	PExtremePriority           float64 // workload priority class with a value near the int32 limits
	PDanglingQueue             float64 // the cluster contains 1-2 pending pod groups whose queue does not exist
	PEarlyRecreate             float64 // workload controllers: a terminating pod is replaced by a pending one at once
	// DRA (see dra.go): probability that the case contains resource.k8s.io objects; 0 = no extra draws, no objects
	PDRA float64
	// PDRAGpu (dra_gpu.go): share of the DRA cases that also carry a GPU device class, GPU-driver ResourceSlices on
	// nodes without device-plugin GPUs and pods whose GPUs come from a ResourceClaim; 0 = no extra draws
	PDRAGpu float64
	// PGpuSpread > 0 replaces the generic choice of the GPU placement strategy: spread (plugin gpuspread: whole devices
	// are preferred to shared ones) with this probability, binpack otherwise
	PGpuSpread float64
	// PNodeGone: one node object that holds pods of generated workloads is missing from the API state (the node was
	// deleted, its pods are not garbage-collected yet): those pods are Running on a node the session does not know.
	// Drawn after everything else; 0 = no extra draws
	PNodeGone float64
	// PArrival: probability (per entirely pending, claim-less workload) that the workload is not there at the start
	// but submitted between two cycles (spec.ArriveAnno), as the youngest workload of the cluster. Open systems only.
	// Drawn after everything else; 0 = no extra draws
	PArrival float64
}

var allActions = "allocate, consolidation, reclaim, preempt, stalegangeviction"

// draGpuShare: share of the DRA cases of the accounting profile (C13/C14) with GPU-class claims.
const draGpuShare = 0.8

// draAccounting: share of C13/C14 cases with ResourceClaims (VERIF_DRA_ACCOUNTING=0 switches them off).
var draAccounting = func() float64 {
	if os.Getenv("VERIF_DRA_ACCOUNTING") == "0" {
		return 0
	}
	return 0.35
}()

func Base() Knobs {
	return Knobs{
		NodesMin: 1, NodesMax: 5, GPUChoices: []int{0, 1, 2, 4, 8}, PGpuMemLabel: 0.6, PMigNode: 0.08, PExtRes: 0.15,
		PSmallPods: 0.2, PNodeLabels: 0.7, PTaint: 0.15, PNotReady: 0.05, PUnschedulable: 0.05,
		QueueDepthMax: 3, QueueChildrenMax: 3, PFiniteCPUQuota: 0.3, PLimit: 0.3, PMinRuntime: 0.15,
		WorkloadsMin: 3, WorkloadsMax: 16, GangMax: 4, PGang: 0.35, PSubGroups: 0.2, PElastic: 0.3,
		PExplicitPreemptibility: 0.2,
		KindWeights:             map[string]int{"cpu": 3, "besteffort": 1, "whole": 5, "fraction": 3, "gpumem": 2, "multifrac": 1, "mig": 1, "ext": 1},
		PNodeSelector:           0.15, PNodeAffinity: 0.1, PToleration: 0.3, PAntiAffinity: 0.08, PAffinity: 0.05, PTopology: 0.12,
		Fill: 0.55, PTerminating: 0.2, PBinding: 0.12, PBoundPending: 0.08,
		ActionsChoices:   []string{allActions, allActions, allActions, "allocate", "allocate, reclaim", "allocate, preempt", "allocate, consolidation", "allocate, reclaim, preempt"},
		PStaleGang:       0.04,
		PExtremePriority: 0.05, PDanglingQueue: 0.04,
		PFaults: 0.3, CyclesMin: 2, CyclesMax: 5, PNodePool: 0.1, SmallNodes: true, PForeignPod: 0.1, PInitContainers: 0.15,
	}
}

// Profile returns the knobs of a named profile.
func Profile(name string) Knobs {
	k := Base()
	switch name {
	case "tight": // C01
		k.Fill, k.PTerminating, k.PBinding = 0.7, 0.3, 0.15
		k.PFaults, k.PGang = 0.5, 0.45 // commits that fail part-way: a BindRequest of a later gang member cannot be created
		k.PSmallPods = 0.4
		k.PExtRes = 0.4
		k.KindWeights = map[string]int{"cpu": 3, "besteffort": 1, "whole": 5, "fraction": 3, "gpumem": 2, "multifrac": 1, "mig": 1, "ext": 4}
		k.PDRA = draAccounting * 0.3 / 0.35 // DRA (dra.go); see draAccounting
		k.PArrival = 0.15
	case "fractions": // C02
		k.NodesMax = 3
		k.GPUChoices = []int{1, 2, 2, 4}
		k.PGpuMemLabel = 0.75
		k.PMigNode = 0
		k.KindWeights = map[string]int{"cpu": 1, "whole": 3, "fraction": 6, "gpumem": 4, "multifrac": 3}
		k.Fill, k.PTerminating = 0.6, 0.3
		k.CyclesMin, k.CyclesMax = 3, 7
		k.PTopology, k.PAntiAffinity, k.PAffinity = 0, 0.02, 0
		k.PArrival = 0.15
	case "sharing": // C01 / C02: multi-device fractions next to shared, idle and releasing devices on few small nodes
		k.NodesMin, k.NodesMax = 1, 2
		k.GPUChoices = []int{2, 3, 3, 4}
		k.PGpuMemLabel = 0.75
		k.PMigNode, k.PExtRes = 0, 0
		k.KindWeights = map[string]int{"whole": 4, "fraction": 5, "gpumem": 2, "multifrac": 6}
		k.Fill, k.PTerminating, k.PBinding = 0.9, 0.4, 0.1
		k.PGang, k.PSubGroups = 0.1, 0
		k.WorkloadsMin, k.WorkloadsMax = 8, 18
		k.CyclesMin, k.CyclesMax = 2, 4
		k.PTopology, k.PAntiAffinity, k.PAffinity, k.PNodeSelector, k.PNodeAffinity, k.PTaint = 0, 0, 0, 0.05, 0.03, 0.05
		k.PNotReady, k.PUnschedulable, k.PSmallPods = 0, 0, 0
		k.PGpuSpread = 0.6
	case "gangs": // C03
		k.PGang, k.GangMax, k.PSubGroups, k.PElastic = 0.8, 6, 0.4, 0.4
		k.PStaleGang = 0.12
		k.PEarlyRecreate = 0.35
		k.PNodeGone = 0.1
		k.PArrival = 0.15
		k.Fill, k.PTerminating = 0.5, 0.35
		k.PFaults = 0
		k.KindWeights = map[string]int{"cpu": 2, "whole": 6, "fraction": 2, "gpumem": 1}
	case "constraints": // C04
		k.NodesMin, k.NodesMax = 2, 6
		k.PNodeLabels = 0.9
		k.PTaint, k.PNotReady, k.PUnschedulable = 0.35, 0.12, 0.1
		k.PNodeSelector, k.PNodeAffinity, k.PToleration, k.PAntiAffinity, k.PAffinity, k.PTopology = 0.35, 0.3, 0.4, 0.25, 0.12, 0.4
		k.PGang, k.PSubGroups = 0.5, 0.35
		k.PNodePool = 0.3
		k.KindWeights = map[string]int{"cpu": 4, "whole": 5, "fraction": 2}
		k.PArrival = 0.15
	case "victims": // C06
		k.Fill, k.PTerminating = 0.8, 0.05
		k.PMinRuntime = 0.5
		k.PElastic = 0.4
		k.PExplicitPreemptibility = 0.4
		k.PFaults = 0.1
		k.KindWeights = map[string]int{"cpu": 1, "whole": 7, "fraction": 2}
		k.NoMinRuntimeNearBoundary = true
		k.PEarlyRecreate = 0.5
		k.PArrival = 0.2
	case "fairness": // C07
		k.Fill, k.PTerminating = 0.85, 0.05
		k.QueueChildrenMax = 4
		k.PFiniteCPUQuota = 0.35
		k.PLimit = 0.15
		k.PFaults = 0
		k.KindWeights = map[string]int{"cpu": 1, "whole": 8, "fraction": 2}
		k.WorkloadsMin, k.WorkloadsMax = 6, 20
		k.PArrival = 0.2
		k.PNodeSelector, k.PNodeAffinity, k.PAntiAffinity, k.PAffinity, k.PTopology, k.PTaint = 0.03, 0.02, 0, 0, 0, 0.05
	case "limits": // C08
		k.PLimit = 0.8
		k.PFiniteCPUQuota = 0.5
		k.PElastic = 0.5
		k.Fill = 0.4
		k.PArrival = 0.15
		k.PExplicitPreemptibility = 0.5
		k.KindWeights = map[string]int{"cpu": 3, "whole": 5, "fraction": 3, "gpumem": 2, "multifrac": 1}
	case "order": // C16
		k.PStaleGang = 0
		k.CloneClasses = 3
		k.PQueueDepth = 0.3
		k.PExtremePriority, k.PDanglingQueue = 0.3, 0.4
		k.Fill = 0.45
		k.ActionsChoices = []string{"allocate", allActions}
		k.PFaults = 0
		k.CyclesMin, k.CyclesMax = 1, 2
		k.PAffinity, k.PAntiAffinity = 0, 0.03
	case "closed": // C15
		k.Closed = true
		k.PDanglingQueue = 0
		k.PStaleGang = 0
		k.PFaults = 0
		k.PTerminating, k.PBinding, k.PBoundPending = 0, 0, 0
		k.PMinRuntime = 0
		k.Fill = 0.9
		k.NodesMin, k.NodesMax = 2, 4
		k.WorkloadsMin, k.WorkloadsMax = 6, 20
		k.PGang = 0.45
		k.ActionsChoices = []string{allActions, allActions, "allocate, reclaim, preempt", "allocate, consolidation, reclaim"}
		k.KindWeights = map[string]int{"cpu": 1, "whole": 7, "fraction": 3, "gpumem": 1}
		k.PNotReady, k.PUnschedulable = 0, 0
		k.PDRA = 0.3 // DRA (dra.go)
	case "accounting": // C13 / C14: many simulated steps, shared GPUs, solver actions
		k.PStaleGang = 0.12
		k.Fill, k.PTerminating, k.PBinding = 0.75, 0.2, 0.1
		k.PGang, k.PElastic, k.PSubGroups = 0.45, 0.4, 0.25
		k.KindWeights = map[string]int{"cpu": 2, "besteffort": 1, "whole": 5, "fraction": 5, "gpumem": 3, "multifrac": 2, "mig": 1, "ext": 1}
		k.ActionsChoices = []string{allActions}
		k.PFaults = 0.2
		k.NoEvictCallFaults = true
		k.PTopology = 0.1
		k.PDRA = draAccounting  // DRA (dra.go)
		k.PDRAGpu = draGpuShare // DRA GPU-class claims (dra_gpu.go)
		k.PNodeGone = 0.08
		k.PArrival = 0.15
	case "mixed":
	}
	return k
}

type nodeState struct {
	node    *v1.Node
	free    k8sm.Req
	gpuFree int64            // whole devices not used
	groups  map[string]int64 // group -> used memory units (of NodeGPUMemory)
	gpuMem  int64
	nextIdx int
	pods    []*v1.Pod
}

type G struct {
	r     *rand.Rand
	k     Knobs
	c     *spec.Case
	nodes []*nodeState
	leafQ []string
	now   time.Time
	seq   int
	tier  string
	topo  bool
	pcs   []string
	plan  *groupPlan
}

func (g *G) p(x float64) bool { return g.r.Float64() < x }
func (g *G) in(lo, hi int) int {
	if hi <= lo {
		return lo
	}
	return lo + g.r.IntN(hi-lo+1)
}
func pick[T any](g *G, xs []T) T { return xs[g.r.IntN(len(xs))] }

func (g *G) weighted(w map[string]int) string {
	keys := make([]string, 0, len(w))
	tot := 0
	for k, v := range w {
		if v > 0 {
			keys = append(keys, k)
			tot += v
		}
	}
	sort.Strings(keys)
	x := g.r.IntN(tot)
	for _, k := range keys {
		x -= w[k]
		if x < 0 {
			return k
		}
	}
	return keys[0]
}

// NewRand returns the deterministic PRNG of a (seed, index) pair.
func NewRand(seed int64, index int, stream uint64) *rand.Rand {
	return rand.New(rand.NewPCG(uint64(seed)*0x9E3779B97F4A7C15+uint64(index), stream^0xD1B54A32D192ED03))
}

// Generate draws one case.
func Generate(profile string, seed int64, index int, tier string) *spec.Case {
	k := Profile(profile)
	return GenerateWith(k, profile, seed, index, tier)
}

func GenerateWith(k Knobs, profile string, seed int64, index int, tier string) *spec.Case {
	g := &G{r: NewRand(seed, index, 1), k: k, tier: tier, now: time.Now().Truncate(time.Second)}
	if tier == "thorough" && g.p(0.3) {
		g.k.NodesMax += 6
		g.k.WorkloadsMax += 12
	}
	g.c = &spec.Case{Seed: seed, Index: index, Profile: profile, Meta: map[string]any{"tier": tier}}
	g.config()
	g.priorityClasses()
	g.genNodes()
	g.genTopology()
	g.genQueues()
	g.genWorkloads()
	g.c.Cycles = g.in(k.CyclesMin, k.CyclesMax)
	g.c.World = spec.WorldOpts{PBindSucceeds: pick(g, []float64{1, 0.8, 0.5}), PBindFails: pick(g, []float64{0, 0, 0.1}), MaxTerminateCycles: g.in(0, 2), Closed: k.Closed}
	g.c.World.PPodUpdateLags = pick(g, []float64{0, 0, 0.25})
	if k.Closed {
		g.c.World.PBindSucceeds, g.c.World.PBindFails, g.c.World.MaxTerminateCycles, g.c.World.PPodUpdateLags = 1, 0, 0, 0
	}
	if !k.Closed && k.PEarlyRecreate > 0 && g.p(k.PEarlyRecreate) {
		g.c.World.Closed, g.c.World.EarlyRecreate = true, true
		g.c.World.MaxTerminateCycles = g.in(1, 2)
		g.c.World.PRecreateNow = pick(g, []float64{0, 0.5, 0.3})
		g.c.Cycles += 2
	}
	if g.p(k.PFaults) {
		g.c.Faults = spec.Faults{PBindRequestCreateFails: pick(g, []float64{0.1, 0.5}), PPodDeleteFails: pick(g, []float64{0, 0.1, 0.5}), PEvictCallFails: pick(g, []float64{0, 0, 0.2})}
		if k.NoEvictCallFaults {
			g.c.Faults.PEvictCallFails = 0
		}
	}
	g.staleGangs()
	LabelForNodePool(g.c)
	g.genDRA() // DRA (dra.go): draws nothing when PDRA == 0
	g.nodeGone()
	MarkArrivals(g.c, g.r, g.k.PArrival)
	return g.c
}

// MarkArrivals turns entirely pending workloads (no pod placed, binding or gated, no resource claims, not a clone) into
// late arrivals with probability p each: submitted before cycle 2..Cycles, younger than everything else.
func MarkArrivals(c *spec.Case, r *rand.Rand, p float64) {
	if p <= 0 || c.Cycles < 2 || (c.World.Closed && !c.World.EarlyRecreate) {
		return
	}
	binding := map[string]bool{}
	for _, br := range c.Objects.BindRequests {
		binding[br.Namespace+"/"+br.Spec.PodName] = true
	}
	now := time.Now().Truncate(time.Second)
	for _, pg := range c.Objects.PodGroups {
		if pg.Annotations[spec.CloneAnno] != "" || pg.Annotations[spec.ControlAnno] != "" || pg.Annotations["kai.scheduler/stale-podgroup-timestamp"] != "" {
			continue
		}
		var pods []*v1.Pod
		ok := true
		for _, pod := range c.Objects.Pods {
			if pod.Namespace != pg.Namespace || pod.Annotations["pod-group-name"] != pg.Name {
				continue
			}
			pods = append(pods, pod)
			if pod.Spec.NodeName != "" || pod.Status.Phase != v1.PodPending || pod.DeletionTimestamp != nil || binding[pod.Namespace+"/"+pod.Name] ||
				len(pod.Spec.ResourceClaims) > 0 || len(pod.Spec.SchedulingGates) > 0 {
				ok = false
			}
		}
		if !ok || len(pods) == 0 || r.Float64() >= p {
			continue
		}
		k := 2 + r.IntN(c.Cycles-1)
		if pg.Annotations == nil {
			pg.Annotations = map[string]string{}
		}
		pg.Annotations[spec.ArriveAnno] = strconv.Itoa(k)
		created := metav1.NewTime(now.Add(time.Duration(k) * time.Second))
		pg.CreationTimestamp = created
		for _, pod := range pods {
			pod.CreationTimestamp = created
		}
	}
}

// nodeGone removes the object of one node that runs generated pods (see Knobs.PNodeGone). Nodes with reservation pods,
// DRA slices or binding pods are left alone: only plainly running pods stay behind on the deleted node.
func (g *G) nodeGone() {
	if g.k.PNodeGone <= 0 || !g.p(g.k.PNodeGone) || len(g.c.Objects.Nodes) < 2 {
		return
	}
	var cand []int
	for i, n := range g.c.Objects.Nodes {
		pods, plain := 0, true
		for _, p := range g.c.Objects.Pods {
			if p.Spec.NodeName != n.Name {
				continue
			}
			pods++
			if p.Namespace != "ns" || p.Status.Phase != v1.PodRunning || p.Annotations["received-resource-type"] != "Regular" || len(p.Spec.ResourceClaims) > 0 {
				plain = false
			}
		}
		for _, br := range g.c.Objects.BindRequests {
			if br.Spec.SelectedNode == n.Name {
				plain = false
			}
		}
		for _, sl := range g.c.Objects.ResourceSlices {
			if sl.Spec.NodeName != nil && *sl.Spec.NodeName == n.Name {
				plain = false
			}
		}
		if pods > 0 && plain {
			cand = append(cand, i)
		}
	}
	if len(cand) == 0 {
		return
	}
	i := cand[g.r.IntN(len(cand))]
	g.c.Meta["node_gone"] = g.c.Objects.Nodes[i].Name
	g.c.Objects.Nodes = append(g.c.Objects.Nodes[:i:i], g.c.Objects.Nodes[i+1:]...)
}

// staleGangs turns some running workloads into stale gangs: fewer active pods than the minimum for longer than the
// staleness grace period (the stalegangeviction action evicts what is left of them).
func (g *G) staleGangs() {
	if g.k.PStaleGang <= 0 {
		return
	}
	for _, pg := range g.c.Objects.PodGroups {
		if len(pg.Spec.SubGroups) > 0 || pg.Annotations[spec.CloneAnno] != "" || !g.p(g.k.PStaleGang) {
			continue
		}
		active := 0
		binding := map[string]bool{} // pods that are being bound (Pending + live BindRequest) count as active members too
		for _, br := range g.c.Objects.BindRequests {
			binding[br.Namespace+"/"+br.Spec.PodName] = true
		}
		for _, p := range g.c.Objects.Pods {
			if p.Annotations["pod-group-name"] != pg.Name || p.DeletionTimestamp != nil {
				continue
			}
			if (p.Spec.NodeName != "" && (p.Status.Phase == v1.PodRunning || p.Status.Phase == v1.PodPending)) || binding[p.Namespace+"/"+p.Name] {
				active++
			}
		}
		if active == 0 {
			continue
		}
		if int(pg.Spec.MinMember) <= active {
			pg.Spec.MinMember = int32(active + 1 + g.r.IntN(2))
		}
		if pg.Annotations == nil {
			pg.Annotations = map[string]string{}
		}
		pg.Annotations["kai.scheduler/stale-podgroup-timestamp"] = "2020-01-01T00:00:00Z"
	}
}

// LabelForNodePool gives every queue and pod group the node-pool label the scheduler shard selects on
// (the scheduler lists nodes, queues and pod groups with the partition selector).
func LabelForNodePool(c *spec.Case) {
	if c.Config.NodePoolKey == "" || c.Config.NodePoolValue == "" {
		return
	}
	for _, q := range c.Objects.Queues {
		if q.Labels == nil {
			q.Labels = map[string]string{}
		}
		q.Labels[c.Config.NodePoolKey] = c.Config.NodePoolValue
	}
	for _, pg := range c.Objects.PodGroups {
		if pg.Labels == nil {
			pg.Labels = map[string]string{}
		}
		pg.Labels[c.Config.NodePoolKey] = c.Config.NodePoolValue
	}
}

func (g *G) config() {
	c := &g.c.Config
	c.Actions = pick(g, g.k.ActionsChoices)
	c.PluginArgs = map[string]map[string]string{}
	place := map[string]string{"cpu": pick(g, []string{"binpack", "spread"}), "gpu": pick(g, []string{"binpack", "binpack", "spread"})}
	if g.k.PGpuSpread > 0 {
		place["gpu"] = "binpack"
		if g.p(g.k.PGpuSpread) {
			place["gpu"] = "spread"
		}
	}
	c.PluginArgs["nodeplacement"] = place
	if g.p(0.4) {
		c.PluginArgs["proportion"] = map[string]string{"relcaimerSaturationMultiplier": pick(g, []string{"1", "1.2", "2"})}
	}
	if g.p(0.3) {
		c.PluginArgs["minruntime"] = map[string]string{"defaultReclaimMinRuntime": "0s", "reclaimResolveMethod": pick(g, []string{"lca", "queue"})}
	}
	if g.k.PQueueDepth > 0 && g.p(g.k.PQueueDepth) {
		// per-action queue depth: only the first k jobs of a leaf queue are tried by the action
		c.QueueDepth = map[string]int{"allocate": g.in(1, 4)}
	}
	c.MaxNumberConsolidationPreemptees = pick(g, []int{16, 16, 4, 1, 0, -1})
	c.UseSchedulingSignatures = g.p(0.5)
	c.FullHierarchyFairness = g.p(0.8)
	c.AllowConsolidatingReclaim = g.p(0.5)
	if g.p(g.k.PNodePool) {
		c.NodePoolKey = "kai.scheduler/node-pool"
		c.NodePoolValue = pick(g, []string{"", "pool-a"})
	}
}

func (g *G) priorityClasses() {
	vals := map[string]int32{"p-low": 40, "p-train": 50, "p-mid": 75, "p-99": 99, "p-build": 100, "p-inf": 125, "p-high": 150}
	names := make([]string, 0, len(vals))
	for n := range vals {
		names = append(names, n)
	}
	sort.Strings(names)
	for _, n := range names {
		g.c.Objects.PriorityClasses = append(g.c.Objects.PriorityClasses, &schedulingv1.PriorityClass{ObjectMeta: metav1.ObjectMeta{Name: n}, Value: vals[n]})
	}
	g.pcs = names
	// classes near the int32 limits (legal PriorityClass values); drawn separately (PExtremePriority)
	for _, e := range extremePCs {
		g.c.Objects.PriorityClasses = append(g.c.Objects.PriorityClasses, &schedulingv1.PriorityClass{ObjectMeta: metav1.ObjectMeta{Name: e.name}, Value: e.val})
	}
}

var extremePCs = []struct {
	name string
	val  int32
}{{"p-scavenger", -1000000000}, {"p-min", -2147483648}, {"p-critical", 2000000000}, {"p-max", 2147483647}}

func (g *G) extremePC() string { return extremePCs[g.r.IntN(len(extremePCs))].name }

var migProfiles = []v1.ResourceName{"nvidia.com/mig-1g.5gb", "nvidia.com/mig-2g.10gb", "nvidia.com/mig-3g.20gb"}

const extRes = v1.ResourceName("example.com/widget")

func q(n int64) resource.Quantity  { return *resource.NewQuantity(n, resource.DecimalSI) }
func mq(n int64) resource.Quantity { return *resource.NewMilliQuantity(n, resource.DecimalSI) }

func (g *G) genNodes() {
	n := g.in(g.k.NodesMin, g.k.NodesMax)
	zones := []string{"z1", "z2"}
	racks := []string{"r1", "r2", "r3"}
	for i := 0; i < n; i++ {
		name := fmt.Sprintf("n%d", i)
		gpus := int64(pick(g, g.k.GPUChoices))
		var cpu, mem, pods int64
		if g.k.SmallNodes {
			cpu = int64(pick(g, []int{2000, 4000, 8000, 16000}))
			mem = int64(pick(g, []int{4, 8, 16, 64})) << 30
		} else {
			cpu = int64(pick(g, []int{16000, 32000, 64000}))
			mem = int64(pick(g, []int{64, 128, 512})) << 30
		}
		pods = 110
		if g.p(g.k.PSmallPods) {
			pods = int64(g.in(3, 8))
		}
		labels := map[string]string{"kubernetes.io/hostname": name}
		alloc := v1.ResourceList{v1.ResourceCPU: mq(cpu), v1.ResourceMemory: q(mem), v1.ResourcePods: q(pods)}
		mig := false
		if gpus > 0 && g.p(g.k.PMigNode) {
			mig = true
			labels["nvidia.com/mig.strategy"] = pick(g, []string{"mixed", "single"})
			if labels["nvidia.com/mig.strategy"] == "mixed" {
				for _, prof := range migProfiles {
					if g.p(0.6) {
						alloc[prof] = q(int64(g.in(1, 4)))
					}
				}
				alloc["nvidia.com/gpu"] = q(0)
				gpus = 0
			} else {
				alloc["nvidia.com/gpu"] = q(gpus)
			}
		} else if gpus > 0 {
			alloc["nvidia.com/gpu"] = q(gpus)
		}
		if gpus > 0 {
			labels["nvidia.com/gpu.count"] = strconv.FormatInt(gpus, 10)
			if g.p(g.k.PGpuMemLabel) {
				labels["nvidia.com/gpu.memory"] = pick(g, []string{"16384", "40960", "81559", "8000", "15109"})
			}
		}
		_ = mig
		if g.p(g.k.PExtRes) {
			alloc[extRes] = q(int64(g.in(1, 4)))
		}
		if g.p(g.k.PNodeLabels) {
			labels["zone"] = pick(g, zones)
			if g.p(0.85) {
				labels["rack"] = labels["zone"] + "-" + pick(g, racks)
			}
		}
		if g.p(0.5) {
			labels["disk"] = pick(g, []string{"ssd", "hdd"})
			labels["gen"] = pick(g, []string{"1", "2", "3"})
		}
		if g.c.Config.NodePoolKey != "" && g.p(0.6) {
			labels[g.c.Config.NodePoolKey] = pick(g, []string{"pool-a", "pool-a", "pool-b"})
		}
		node := &v1.Node{ObjectMeta: metav1.ObjectMeta{Name: name, Labels: labels, UID: types.UID("node-" + name)},
			Status: v1.NodeStatus{Allocatable: alloc, Capacity: alloc.DeepCopy(),
				Conditions: []v1.NodeCondition{{Type: v1.NodeReady, Status: v1.ConditionTrue}}}}
		if g.p(g.k.PNotReady) {
			node.Status.Conditions[0].Status = pick(g, []v1.ConditionStatus{v1.ConditionFalse, v1.ConditionUnknown})
		}
		if g.p(g.k.PUnschedulable) {
			node.Spec.Unschedulable = true
		}
		if g.p(0.1) {
			node.Status.Conditions = append(node.Status.Conditions, v1.NodeCondition{Type: v1.NodeMemoryPressure, Status: v1.ConditionTrue})
		}
		if g.p(g.k.PTaint) {
			node.Spec.Taints = append(node.Spec.Taints, v1.Taint{Key: pick(g, []string{"dedicated", "gpu"}), Value: pick(g, []string{"a", "b"}),
				Effect: pick(g, []v1.TaintEffect{v1.TaintEffectNoSchedule, v1.TaintEffectNoExecute, v1.TaintEffectPreferNoSchedule})})
		}
		g.c.Objects.Nodes = append(g.c.Objects.Nodes, node)
		ns := &nodeState{node: node, free: k8sm.Allocatable(node), gpuFree: gpus, groups: map[string]int64{}, gpuMem: k8sm.NodeGPUMemory(node)}
		g.nodes = append(g.nodes, ns)
	}
}

func (g *G) genTopology() {
	if g.k.PTopology <= 0 {
		return
	}
	g.topo = true
	levels := []kaiv1alpha1.TopologyLevel{{NodeLabel: "zone"}, {NodeLabel: "rack"}, {NodeLabel: "kubernetes.io/hostname"}}
	g.c.Objects.Topologies = append(g.c.Objects.Topologies, &kaiv1alpha1.Topology{ObjectMeta: metav1.ObjectMeta{Name: "topo"}, Spec: kaiv1alpha1.TopologySpec{Levels: levels}})
	if g.p(0.6) {
		// a second topology: a prefix of the first one, or one over other node labels (so that a sub-group can name a
		// different topology than its parent)
		l2 := levels[:g.in(1, 2)]
		if g.p(0.6) {
			l2 = pick(g, [][]kaiv1alpha1.TopologyLevel{{{NodeLabel: "disk"}}, {{NodeLabel: "gen"}}, {{NodeLabel: "gen"}, {NodeLabel: "kubernetes.io/hostname"}}, {{NodeLabel: "disk"}, {NodeLabel: "rack"}}})
		}
		g.c.Objects.Topologies = append(g.c.Objects.Topologies, &kaiv1alpha1.Topology{ObjectMeta: metav1.ObjectMeta{Name: "topo2"}, Spec: kaiv1alpha1.TopologySpec{Levels: l2}})
	}
}

func (g *G) qres(totalGPU float64) *enginev2.QueueResources {
	quota := func(total float64, finite bool) enginev2.QueueResource {
		r := enginev2.QueueResource{Quota: -1, Limit: -1, OverQuotaWeight: pick(g, []float64{1, 1, 1, 2, 5, 0})}
		if finite {
			r.Quota = pick(g, []float64{0, 0, 1, 1, 2, 3, 4, 0.5, total / 2, -1})
			if r.Quota > 0 && total > 0 && g.p(0.2) {
				r.Quota = float64(int(total*g.r.Float64()*4)) / 4
			}
		}
		if g.p(g.k.PLimit) {
			r.Limit = pick(g, []float64{0, 1, 2, 3, 0.5, 1.5, 4, 6})
			if r.Quota > r.Limit && g.p(0.7) {
				r.Limit = r.Quota
			}
		}
		return r
	}
	res := &enginev2.QueueResources{GPU: quota(totalGPU, true)}
	cpuFinite := g.p(g.k.PFiniteCPUQuota)
	res.CPU = quota(0, false)
	res.Memory = quota(0, false)
	if cpuFinite {
		res.CPU.Quota = pick(g, []float64{0, 1000, 2000, 4000, 8000})
		res.Memory.Quota = pick(g, []float64{0, 1000, 4000, 16000}) // MB
	}
	if g.p(g.k.PLimit * 0.5) {
		res.CPU.Limit = pick(g, []float64{1000, 2000, 4000, 8000})
	} else {
		res.CPU.Limit = -1
	}
	if g.p(g.k.PLimit * 0.3) {
		res.Memory.Limit = pick(g, []float64{2000, 8000, 32000})
	} else {
		res.Memory.Limit = -1
	}
	return res
}

func (g *G) genQueues() {
	var totalGPU float64
	for _, n := range g.nodes {
		totalGPU += float64(n.gpuFree)
	}
	depth := g.in(1, g.k.QueueDepthMax)
	id := 0
	var build func(parent string, level int)
	build = func(parent string, level int) {
		nchild := g.in(1, g.k.QueueChildrenMax)
		if level == 1 && depth == 1 {
			nchild = g.in(2, g.k.QueueChildrenMax+1)
		}
		for i := 0; i < nchild; i++ {
			name := fmt.Sprintf("q%d", id)
			id++
			qu := &enginev2.Queue{ObjectMeta: metav1.ObjectMeta{Name: name, UID: types.UID("queue-" + name),
				CreationTimestamp: metav1.NewTime(g.now.Add(-time.Duration(1000-id) * time.Hour))},
				Spec: enginev2.QueueSpec{ParentQueue: parent, Resources: g.qres(totalGPU)}}
			if g.p(0.25) {
				qu.Spec.Priority = ptr.To(pick(g, []int{50, 100, 200}))
			}
			if g.p(g.k.PMinRuntime) {
				qu.Spec.PreemptMinRuntime = &metav1.Duration{Duration: time.Hour}
			}
			if g.p(g.k.PMinRuntime) {
				qu.Spec.ReclaimMinRuntime = &metav1.Duration{Duration: time.Hour}
			}
			g.c.Objects.Queues = append(g.c.Objects.Queues, qu)
			if level < depth && (level == 1 || g.p(0.7)) {
				build(name, level+1)
			} else {
				g.leafQ = append(g.leafQ, name)
			}
		}
	}
	build("", 1)
}

type podTemplate struct {
	kind     string
	cpu, mem int64
	gpus     int64
	frac     string
	gpuMem   string
	devices  int64
	mig      v1.ResourceName
	ext      int64
	init     bool
	overhead bool
	sel      map[string]string
	aff      *v1.Affinity
	tol      []v1.Toleration
	labels   map[string]string
}

func (g *G) template() podTemplate {
	t := podTemplate{kind: g.weighted(g.k.KindWeights)}
	t.cpu = int64(pick(g, []int{100, 250, 500, 1000, 2000}))
	t.mem = int64(pick(g, []int{128, 512, 1024, 4096})) << 20
	switch t.kind {
	case "besteffort":
		t.cpu, t.mem = 0, 0
	case "whole":
		t.gpus = int64(pick(g, []int{1, 1, 1, 2, 2, 4}))
	case "fraction":
		t.frac = pick(g, []string{"0.5", "0.25", "0.3", "0.7", "0.1", "0.33", "0.6", "1", "0.45", "0.05", "0.9"})
	case "gpumem":
		t.gpuMem = pick(g, []string{"1000", "4000", "8000", "2048", "12000", "50", "20000"})
		if g.p(0.2) {
			// exactly one device, or an integral multiple of a device of some node of this cluster
			var mems []int64
			for _, n := range g.c.Objects.Nodes {
				if m, err := strconv.ParseInt(n.Labels["nvidia.com/gpu.memory"], 10, 64); err == nil && m > 0 {
					mems = append(mems, m)
				}
			}
			if len(mems) > 0 {
				t.gpuMem = strconv.FormatInt(mems[g.r.IntN(len(mems))]*int64(g.in(1, 2)), 10)
			}
		}
	case "multifrac":
		t.devices = int64(g.in(2, 3))
		if g.p(0.7) {
			t.frac = pick(g, []string{"0.5", "0.25", "0.4", "0.6"})
		} else {
			t.gpuMem = pick(g, []string{"2000", "4000", "8000"})
		}
	case "mig":
		t.mig = pick(g, migProfiles)
	case "ext":
		t.ext = int64(g.in(1, 2))
		if g.p(0.5) {
			t.gpus = 1
		} else if g.p(0.6) {
			// nothing but the extended resource: no cpu / memory / GPU request at all
			t.cpu, t.mem = 0, 0
		}
	}
	if g.p(g.k.PInitContainers) {
		t.init = true
		t.overhead = g.p(0.3)
	}
	if g.p(g.k.PNodeSelector) {
		switch g.r.IntN(3) {
		case 0:
			t.sel = map[string]string{"disk": pick(g, []string{"ssd", "hdd"})}
		case 1:
			t.sel = map[string]string{"zone": pick(g, []string{"z1", "z2"})}
		default:
			t.sel = map[string]string{"kubernetes.io/hostname": fmt.Sprintf("n%d", g.r.IntN(len(g.nodes)))}
		}
	}
	if g.p(g.k.PNodeAffinity) {
		var e v1.NodeSelectorRequirement
		switch g.r.IntN(4) {
		case 0:
			e = v1.NodeSelectorRequirement{Key: "zone", Operator: v1.NodeSelectorOpIn, Values: []string{pick(g, []string{"z1", "z2"})}}
		case 1:
			e = v1.NodeSelectorRequirement{Key: "disk", Operator: v1.NodeSelectorOpNotIn, Values: []string{"hdd"}}
		case 2:
			e = v1.NodeSelectorRequirement{Key: "rack", Operator: v1.NodeSelectorOpExists}
		default:
			e = v1.NodeSelectorRequirement{Key: "gen", Operator: v1.NodeSelectorOpGt, Values: []string{pick(g, []string{"1", "2"})}}
		}
		t.aff = &v1.Affinity{NodeAffinity: &v1.NodeAffinity{RequiredDuringSchedulingIgnoredDuringExecution: &v1.NodeSelector{
			NodeSelectorTerms: []v1.NodeSelectorTerm{{MatchExpressions: []v1.NodeSelectorRequirement{e}}}}}}
	}
	if g.p(g.k.PToleration) {
		switch g.r.IntN(3) {
		case 0:
			t.tol = []v1.Toleration{{Operator: v1.TolerationOpExists}}
		case 1:
			t.tol = []v1.Toleration{{Key: "dedicated", Operator: v1.TolerationOpExists, Effect: v1.TaintEffectNoSchedule}}
		default:
			t.tol = []v1.Toleration{{Key: pick(g, []string{"dedicated", "gpu"}), Operator: v1.TolerationOpEqual, Value: pick(g, []string{"a", "b"})}}
		}
	}
	t.labels = map[string]string{"app-kind": pick(g, []string{"web", "db", "train"})}
	if g.p(g.k.PAntiAffinity) {
		if t.aff == nil {
			t.aff = &v1.Affinity{}
		}
		t.aff.PodAntiAffinity = &v1.PodAntiAffinity{RequiredDuringSchedulingIgnoredDuringExecution: []v1.PodAffinityTerm{{
			LabelSelector: &metav1.LabelSelector{MatchLabels: map[string]string{"app-kind": pick(g, []string{"web", "db", "train"})}},
			TopologyKey:   pick(g, []string{"kubernetes.io/hostname", "kubernetes.io/hostname", "zone"})}}}
	} else if g.p(g.k.PAffinity) {
		if t.aff == nil {
			t.aff = &v1.Affinity{}
		}
		t.aff.PodAffinity = &v1.PodAffinity{RequiredDuringSchedulingIgnoredDuringExecution: []v1.PodAffinityTerm{{
			LabelSelector: &metav1.LabelSelector{MatchLabels: map[string]string{"app-kind": pick(g, []string{"web", "db", "train"})}},
			TopologyKey:   pick(g, []string{"kubernetes.io/hostname", "zone"})}}}
	}
	return t
}

func (g *G) mkPod(name, group, sub string, t podTemplate, created time.Time) *v1.Pod {
	req := v1.ResourceList{}
	if t.cpu > 0 {
		req[v1.ResourceCPU] = mq(t.cpu)
	}
	if t.mem > 0 {
		req[v1.ResourceMemory] = q(t.mem)
	}
	if t.gpus > 0 {
		req["nvidia.com/gpu"] = q(t.gpus)
	}
	if t.mig != "" {
		req[t.mig] = q(1)
	}
	if t.ext > 0 {
		req[extRes] = q(t.ext)
	}
	ann := map[string]string{"pod-group-name": group, spec.LogicalNameAnno: name}
	if t.frac != "" {
		ann["gpu-fraction"] = t.frac
	}
	if t.gpuMem != "" {
		ann["gpu-memory"] = t.gpuMem
	}
	if t.devices > 1 {
		ann["gpu-fraction-num-devices"] = strconv.FormatInt(t.devices, 10)
	}
	labels := map[string]string{}
	for k, v := range t.labels {
		labels[k] = v
	}
	if sub != "" {
		labels["kai.scheduler/subgroup-name"] = sub
	}
	lim := v1.ResourceList{}
	if t.gpus > 0 {
		lim["nvidia.com/gpu"] = q(t.gpus)
	}
	pod := &v1.Pod{ObjectMeta: metav1.ObjectMeta{Name: name, Namespace: "ns", UID: types.UID("uid-" + name), Annotations: ann, Labels: labels,
		CreationTimestamp: metav1.NewTime(created)},
		Spec: v1.PodSpec{SchedulerName: spec.SchedulerName, NodeSelector: t.sel, Affinity: t.aff, Tolerations: t.tol,
			Containers: []v1.Container{{Name: "main", Image: "img", Resources: v1.ResourceRequirements{Requests: req, Limits: lim}}}},
		Status: v1.PodStatus{Phase: v1.PodPending}}
	if t.init {
		ireq := v1.ResourceList{v1.ResourceCPU: mq(t.cpu * 2), v1.ResourceMemory: q(t.mem / 2)}
		pod.Spec.InitContainers = []v1.Container{{Name: "init", Image: "img", Resources: v1.ResourceRequirements{Requests: ireq}}}
		if t.overhead {
			pod.Spec.Overhead = v1.ResourceList{v1.ResourceCPU: mq(50)}
		}
	}
	return pod
}

type workload struct {
	pg   *enginev2alpha2.PodGroup
	pods []*v1.Pod
	subs map[string]int // leaf subgroup -> min
}

func (g *G) genWorkloads() {
	n := g.in(g.k.WorkloadsMin, g.k.WorkloadsMax)
	// C16 clone classes
	type cloneClass struct {
		t      podTemplate
		queue  string
		size   int
		min    int32
		preemp enginev2alpha2.Preemptibility
		count  int
	}
	var classes []cloneClass
	for i := 0; i < g.k.CloneClasses; i++ {
		t := g.template()
		if t.aff != nil {
			t.aff.PodAffinity, t.aff.PodAntiAffinity = nil, nil
		}
		size := 1
		if g.p(0.4) {
			size = g.in(2, 3)
		}
		classes = append(classes, cloneClass{t: t, queue: pick(g, g.leafQ), size: size, min: int32(size), count: g.in(2, 5),
			preemp: pick(g, []enginev2alpha2.Preemptibility{"", "", enginev2alpha2.Preemptible, enginev2alpha2.NonPreemptible})})
	}
	wid := 0
	mk := func(t podTemplate, queue string, size int, min int32, prio string, preemp enginev2alpha2.Preemptibility, created time.Time, cloneClass string, allowPreplace bool, subs bool) {
		wl := fmt.Sprintf("w%d", wid)
		wid++
		pg := &enginev2alpha2.PodGroup{ObjectMeta: metav1.ObjectMeta{Name: "pg-" + wl, Namespace: "ns", UID: types.UID("pgu-" + wl),
			CreationTimestamp: metav1.NewTime(created), Annotations: map[string]string{}},
			Spec: enginev2alpha2.PodGroupSpec{MinMember: min, Queue: queue, PriorityClassName: prio, Preemptibility: preemp}}
		if cloneClass != "" {
			pg.Annotations[spec.CloneAnno] = cloneClass
		}
		w := &workload{pg: pg, subs: map[string]int{}}
		if subs && size >= 2 {
			// two leaf sub-groups, optionally under a parent set
			a := size / 2
			b := size - a
			minA, minB := int32(g.in(1, a)), int32(g.in(1, b))
			var parent *string
			if g.p(0.4) {
				parent = ptr.To("set")
				sg := enginev2alpha2.SubGroup{Name: "set"}
				pg.Spec.SubGroups = append(pg.Spec.SubGroups, sg)
			}
			pg.Spec.SubGroups = append(pg.Spec.SubGroups, enginev2alpha2.SubGroup{Name: "sa", MinMember: minA, Parent: parent},
				enginev2alpha2.SubGroup{Name: "sb", MinMember: minB, Parent: parent})
			pg.Spec.MinMember = minA + minB
			w.subs["sa"], w.subs["sb"] = int(minA), int(minB)
			for i := 0; i < size; i++ {
				sub := "sa"
				if i >= a {
					sub = "sb"
				}
				w.pods = append(w.pods, g.mkPod(fmt.Sprintf("%s-%d", wl, i), pg.Name, sub, t, created))
			}
		} else {
			for i := 0; i < size; i++ {
				w.pods = append(w.pods, g.mkPod(fmt.Sprintf("%s-%d", wl, i), pg.Name, "", t, created))
			}
		}
		if cloneClass == "" && g.topo && g.p(g.k.PTopology) {
			tc := enginev2alpha2.TopologyConstraint{Topology: pick(g, []string{"topo", "topo", "topo", "topo-missing"})}
			lvl := pick(g, []string{"zone", "rack", "kubernetes.io/hostname", "no-such-level"})
			if len(g.c.Objects.Topologies) > 1 && g.p(0.35) {
				t2 := g.c.Objects.Topologies[1]
				tc.Topology = t2.Name
				lvl = t2.Spec.Levels[g.r.IntN(len(t2.Spec.Levels))].NodeLabel
			}
			if g.p(0.75) {
				tc.RequiredTopologyLevel = lvl
			} else {
				tc.PreferredTopologyLevel = lvl
			}
			if len(pg.Spec.SubGroups) > 0 && g.p(0.5) {
				idx := g.r.IntN(len(pg.Spec.SubGroups))
				pg.Spec.SubGroups[idx].TopologyConstraint = &tc
				if g.p(0.5) {
					pg.Spec.TopologyConstraint = enginev2alpha2.TopologyConstraint{Topology: "topo", RequiredTopologyLevel: pick(g, []string{"zone", "zone", "rack"})}
					if len(g.c.Objects.Topologies) > 1 && g.p(0.6) {
						// nested constraint over ANOTHER topology than the parent's
						t2 := g.c.Objects.Topologies[1]
						tc.Topology = t2.Name
						tc.RequiredTopologyLevel, tc.PreferredTopologyLevel = t2.Spec.Levels[g.r.IntN(len(t2.Spec.Levels))].NodeLabel, ""
					}
				}
			} else {
				pg.Spec.TopologyConstraint = tc
			}
		}
		placed := false
		if allowPreplace && g.p(g.k.Fill) {
			placed = g.preplace(w)
		}
		if placed {
			start := g.now.Add(-10 * time.Hour)
			if g.p(0.4) {
				start = g.now.Add(-time.Minute)
			}
			pg.Annotations["kai.scheduler/last-start-timestamp"] = start.Format(time.RFC3339)
		}
		if !placed && g.p(0.05) {
			for _, p := range w.pods {
				p.Spec.SchedulingGates = []v1.PodSchedulingGate{{Name: "gate"}}
			}
		}
		g.c.Objects.PodGroups = append(g.c.Objects.PodGroups, pg)
		g.c.Objects.Pods = append(g.c.Objects.Pods, w.pods...)
	}
	for ci, cc := range classes {
		compPrio := ""
		if g.p(0.4) {
			// a companion in the clones' leaf queue: an older workload with two sub-groups of which one runs above its
			// minimum and the other is below it (a worker was lost, its replacement is pending). It is not a clone; it
			// is what the job comparators of the queue have to rank the clones against.
			compPrio = g.mixedSubGroupCompanion(fmt.Sprintf("comp%d", ci), cc.queue, cc.preemp, &wid)
		}
		sameAsCompanion := compPrio != "" && g.p(0.7) // the clones compete with the companion at its priority
		for j := 0; j < cc.count; j++ {
			prio := pick(g, []string{"p-train", "p-train", "p-mid", "p-low", "p-99"})
			if cc.preemp == enginev2alpha2.NonPreemptible || (cc.preemp == "" && g.p(0.2)) {
				prio = pick(g, []string{"p-build", "p-inf", "p-build"})
			}
			if cc.preemp != "" && g.p(g.k.PExtremePriority) {
				// explicit preemptibility keeps the clones comparable whatever the priority value
				prio = g.extremePC()
			}
			if sameAsCompanion {
				prio = compPrio
			}
			created := g.now.Add(-time.Duration(g.in(1, 500)) * time.Minute)
			// clones are always pending: the oracle compares pending workloads only
			mk(cc.t, cc.queue, cc.size, cc.min, prio, cc.preemp, created, fmt.Sprintf("class%d", ci), false, false)
		}
	}
	for i := 0; i < n; i++ {
		t := g.template()
		size := 1
		if g.p(g.k.PGang) {
			size = g.in(2, g.k.GangMax)
		}
		min := int32(size)
		if g.p(g.k.PElastic) && size >= 1 {
			extra := g.in(1, 3)
			size += extra
		}
		if t.kind == "multifrac" && size > 2 {
			size, min = 2, min1(min, 2)
		}
		prio := pick(g, g.pcs)
		var preemp enginev2alpha2.Preemptibility
		if g.p(g.k.PExplicitPreemptibility) {
			preemp = pick(g, []enginev2alpha2.Preemptibility{enginev2alpha2.Preemptible, enginev2alpha2.NonPreemptible})
		}
		if g.p(g.k.PExtremePriority) {
			prio = g.extremePC()
		}
		created := g.now.Add(-time.Duration(g.in(1, 500)) * time.Minute)
		mk(t, pick(g, g.leafQ), size, min, prio, preemp, created, "", true, g.p(g.k.PSubGroups))
	}
	if g.p(g.k.PDanglingQueue) {
		// pending pod groups of a queue that does not exist (typo, deleted queue): the scheduler keeps them in the
		// snapshot with a fit error; they must not disturb the others
		for i, n := 0, g.in(1, 2); i < n; i++ {
			t := podTemplate{kind: "cpu", cpu: 100, mem: 64 << 20}
			created := g.now.Add(-time.Duration(g.in(1, 500)) * time.Minute)
			mk(t, "q-missing", 1, 1, pick(g, g.pcs), "", created, "", false, false)
		}
	}
	// foreign-scheduler pods occupying capacity
	for i := 0; i < len(g.nodes); i++ {
		if g.p(g.k.PForeignPod) {
			t := podTemplate{kind: "cpu", cpu: 500, mem: 256 << 20}
			if g.nodes[i].gpuFree > 0 && g.p(0.5) {
				t.gpus = 1
			}
			p := g.mkPod(fmt.Sprintf("foreign-%d", i), "", "", t, g.now.Add(-time.Hour))
			delete(p.Annotations, "pod-group-name")
			p.Spec.SchedulerName = "default-scheduler"
			if g.fits(g.nodes[i], p) {
				g.place(g.nodes[i], p, "running", nil)
				g.c.Objects.Pods = append(g.c.Objects.Pods, p)
			}
		}
	}
}

func min1(a int32, b int32) int32 {
	if a < b {
		return a
	}
	return b
}

// fits checks node-local feasibility and capacity with the generator's own first-fit model.
func (g *G) fits(ns *nodeState, p *v1.Pod) bool {
	if ok, _ := k8sm.StaticFeasible(p, ns.node); !ok {
		return false
	}
	if g.c.Config.NodePoolKey != "" {
		v, has := ns.node.Labels[g.c.Config.NodePoolKey]
		if g.c.Config.NodePoolValue == "" && has {
			return false
		}
		if g.c.Config.NodePoolValue != "" && v != g.c.Config.NodePoolValue {
			return false
		}
	}
	// inter-pod terms against pods already on nodes (both directions)
	for _, term := range k8sm.RequiredAntiAffinity(p) {
		for _, other := range g.nodes {
			if !sameDomain(ns.node, other.node, term.TopologyKey) {
				continue
			}
			for _, qpod := range other.pods {
				if k8sm.TermMatchesPod(&term, p.Namespace, qpod) {
					return false
				}
			}
		}
	}
	for _, other := range g.nodes {
		for _, qpod := range other.pods {
			for _, term := range k8sm.RequiredAntiAffinity(qpod) {
				if sameDomain(ns.node, other.node, term.TopologyKey) && k8sm.TermMatchesPod(&term, qpod.Namespace, p) {
					return false
				}
			}
		}
	}
	if len(k8sm.RequiredAffinity(p)) > 0 {
		return false // keep workloads with required pod affinity pending
	}
	req := k8sm.PodRequest(p)
	gr := k8sm.GPURequest(p)
	for k, v := range req {
		if k == "nvidia.com/gpu" {
			continue
		}
		if v > ns.free[k] {
			return false
		}
	}
	if gr.Shared() {
		g.plan = g.planGroups(ns, gr)
		return g.plan != nil
	}
	return gr.Whole <= ns.gpuFree
}

func sameDomain(a, b *v1.Node, key string) bool {
	va, ok1 := a.Labels[key]
	vb, ok2 := b.Labels[key]
	return ok1 && ok2 && va == vb
}

// groupPlan is the generator's choice of GPU groups for a shared-GPU pod on a node.
type groupPlan struct {
	existing []string
	fresh    int64
	need     int64
}

// planGroups chooses Devices distinct groups (existing ones with room, or new ones on free devices).
func (g *G) planGroups(ns *nodeState, gr k8sm.GPUReqInfo) *groupPlan {
	need := gr.Memory
	if gr.Fraction > 0 {
		need = int64(gr.Fraction * float64(ns.gpuMem))
	}
	if need > ns.gpuMem || need <= 0 {
		return nil
	}
	pl := &groupPlan{need: need}
	names := make([]string, 0, len(ns.groups))
	for n := range ns.groups {
		names = append(names, n)
	}
	sort.Strings(names)
	for _, n := range names {
		if int64(len(pl.existing)) == gr.Devices {
			break
		}
		if ns.groups[n]+need <= ns.gpuMem && g.p(0.7) {
			pl.existing = append(pl.existing, n)
		}
	}
	pl.fresh = gr.Devices - int64(len(pl.existing))
	// a pod slot is needed for each new reservation pod
	if pl.fresh > ns.gpuFree || pl.fresh+1 > ns.free[v1.ResourcePods] {
		return nil
	}
	return pl
}

func (g *G) commitGroups(ns *nodeState, pl *groupPlan) []string {
	chosen := append([]string(nil), pl.existing...)
	for i := int64(0); i < pl.fresh; i++ {
		g.seq++
		name := fmt.Sprintf("grp-%s-%d", ns.node.Name, g.seq)
		ns.groups[name] = 0
		ns.gpuFree--
		chosen = append(chosen, name)
		g.reservationPod(ns, name)
	}
	for _, n := range chosen {
		ns.groups[n] += pl.need
	}
	return chosen
}

func (g *G) reservationPod(ns *nodeState, group string) {
	idx := ns.nextIdx
	ns.nextIdx++
	p := &v1.Pod{ObjectMeta: metav1.ObjectMeta{Name: fmt.Sprintf("gpu-reservation-%s-%s", ns.node.Name, group), Namespace: spec.ReservationNS,
		UID:    types.UID("uid-res-" + group),
		Labels: map[string]string{"app": spec.ReservationApp, "runai-gpu-group": group}, Annotations: map[string]string{spec.GpuIndexAnnot: strconv.Itoa(idx)}},
		Spec: v1.PodSpec{NodeName: ns.node.Name, Containers: []v1.Container{{Name: "resource-reservation", Image: "img",
			Resources: v1.ResourceRequirements{Requests: v1.ResourceList{"nvidia.com/gpu": q(1)}, Limits: v1.ResourceList{"nvidia.com/gpu": q(1)}}}}},
		Status: v1.PodStatus{Phase: v1.PodRunning}}
	ns.free[v1.ResourcePods]--
	g.c.Objects.Pods = append(g.c.Objects.Pods, p)
}

// place commits pod p to node ns in the given state.
func (g *G) place(ns *nodeState, p *v1.Pod, state string, pg *enginev2alpha2.PodGroup) {
	req := k8sm.PodRequest(p)
	gr := k8sm.GPURequest(p)
	for k, v := range req {
		if k == "nvidia.com/gpu" {
			continue
		}
		ns.free[k] -= v
	}
	var groups []string
	rtype := "Regular"
	if gr.Shared() {
		groups = g.commitGroups(ns, g.plan)
		rtype = "Fraction"
	} else {
		ns.gpuFree -= gr.Whole
		if len(gr.Mig) > 0 {
			rtype = "MigInstance"
		}
	}
	ns.pods = append(ns.pods, p)
	setLabels := func() {
		p.Annotations["received-resource-type"] = rtype
		if len(groups) == 1 && gr.Devices == 1 {
			p.Labels["runai-gpu-group"] = groups[0]
		} else {
			for _, gname := range groups {
				p.Labels["runai-gpu-group/"+gname] = gname
			}
		}
	}
	br := func(phase string) {
		portion := "0.00"
		count := int(gr.Whole)
		if gr.Shared() {
			f := gr.Fraction
			if gr.Memory > 0 {
				f = float64(gr.Memory) / float64(ns.gpuMem)
			}
			portion = fmt.Sprintf("%.2f", f)
			count = int(gr.Devices)
		}
		b := &schedulingv1alpha2.BindRequest{ObjectMeta: metav1.ObjectMeta{Name: p.Name, Namespace: p.Namespace, UID: types.UID("br-" + p.Name),
			Labels:          map[string]string{"selected-node": ns.node.Name},
			OwnerReferences: []metav1.OwnerReference{{APIVersion: "v1", Kind: "Pod", Name: p.Name, UID: p.UID}}},
			Spec: schedulingv1alpha2.BindRequestSpec{PodName: p.Name, SelectedNode: ns.node.Name, SelectedGPUGroups: groups, ReceivedResourceType: rtype,
				ReceivedGPU: &schedulingv1alpha2.ReceivedGPU{Count: count, Portion: portion}}}
		if g.c.Config.NodePoolKey != "" && g.c.Config.NodePoolValue != "" {
			b.Labels[g.c.Config.NodePoolKey] = g.c.Config.NodePoolValue
		}
		b.Status.Phase = phase
		if g.p(0.5) {
			b.Spec.BackoffLimit = ptr.To(int32(g.in(1, 3)))
		}
		g.c.Objects.BindRequests = append(g.c.Objects.BindRequests, b)
	}
	switch state {
	case "running":
		p.Spec.NodeName = ns.node.Name
		p.Status.Phase = v1.PodRunning
		setLabels()
		if len(groups) > 1 || (gr.Shared() && g.p(0.5)) {
			br(schedulingv1alpha2.BindRequestPhaseSucceeded)
		}
	case "terminating":
		p.Spec.NodeName = ns.node.Name
		p.Status.Phase = v1.PodRunning
		setLabels()
		t := metav1.NewTime(g.now)
		p.DeletionTimestamp = &t
		p.Finalizers = []string{"verif/terminating"}
		if len(groups) > 1 {
			br(schedulingv1alpha2.BindRequestPhaseSucceeded)
		}
	case "bound":
		p.Spec.NodeName = ns.node.Name
		setLabels()
		if len(groups) > 1 {
			br(schedulingv1alpha2.BindRequestPhaseSucceeded)
		}
	case "binding":
		br(schedulingv1alpha2.BindRequestPhasePending)
	}
}

// preplace tries to place at least min pods of every pod set of the workload.
func (g *G) preplace(w *workload) bool {
	perm := g.r.Perm(len(g.nodes))
	type choice struct {
		p  *v1.Pod
		ns *nodeState
	}
	// dry-run on copies is expensive; instead place greedily and accept partial elastic placement only
	// when every pod set reached its minimum. Commit happens only if minimums are reachable (checked first
	// with a conservative count using fits on the current state one pod at a time).
	var chosen []choice
	// snapshot state for rollback
	type snap struct {
		free    k8sm.Req
		gpuFree int64
		groups  map[string]int64
		nextIdx int
		npods   int
	}
	saved := make([]snap, len(g.nodes))
	for i, ns := range g.nodes {
		f := k8sm.Req{}
		for k, v := range ns.free {
			f[k] = v
		}
		gm := map[string]int64{}
		for k, v := range ns.groups {
			gm[k] = v
		}
		saved[i] = snap{f, ns.gpuFree, gm, ns.nextIdx, len(ns.pods)}
	}
	nPodsBefore := len(g.c.Objects.Pods)
	nBRBefore := len(g.c.Objects.BindRequests)
	seqBefore := g.seq
	counts := map[string]int{}
	topoLevel := ""
	if w.pg.Spec.TopologyConstraint.RequiredTopologyLevel != "" {
		topoLevel = w.pg.Spec.TopologyConstraint.RequiredTopologyLevel
	}
	var domainNode *v1.Node
	for _, p := range w.pods {
		state := "running"
		x := g.r.Float64()
		switch {
		case x < g.k.PTerminating:
			state = "terminating"
		case x < g.k.PTerminating+g.k.PBinding:
			state = "binding"
		case x < g.k.PTerminating+g.k.PBinding+g.k.PBoundPending:
			state = "bound"
		}
		done := false
		for _, ni := range perm {
			ns := g.nodes[ni]
			if topoLevel != "" && domainNode != nil && !sameDomain(ns.node, domainNode, topoLevel) {
				continue
			}
			if topoLevel != "" {
				if _, ok := ns.node.Labels[topoLevel]; !ok {
					continue
				}
			}
			// sub-group level required topology: keep it simple, use one node domain for all
			if g.fits(ns, p) {
				g.place(ns, p, state, w.pg)
				if domainNode == nil {
					domainNode = ns.node
				}
				chosen = append(chosen, choice{p, ns})
				sub := p.Labels["kai.scheduler/subgroup-name"]
				if state != "terminating" {
					counts[sub]++
				}
				done = true
				break
			}
		}
		if !done && g.p(0.5) {
			break
		}
	}
	ok := len(chosen) > 0
	if len(w.subs) > 0 {
		for s, m := range w.subs {
			if counts[s] < m {
				ok = false
			}
		}
	} else if counts[""] < int(w.pg.Spec.MinMember) {
		ok = false
	}
	hasSubTopo := false
	for _, sg := range w.pg.Spec.SubGroups {
		if sg.TopologyConstraint != nil {
			hasSubTopo = true
		}
	}
	if (w.pg.Spec.TopologyConstraint.Topology != "" && w.pg.Spec.TopologyConstraint.Topology != "topo") || hasSubTopo {
		ok = false
	}
	if !ok {
		// roll back
		for i, ns := range g.nodes {
			ns.free, ns.gpuFree, ns.groups, ns.nextIdx = saved[i].free, saved[i].gpuFree, saved[i].groups, saved[i].nextIdx
			ns.pods = ns.pods[:saved[i].npods]
		}
		g.c.Objects.Pods = g.c.Objects.Pods[:nPodsBefore]
		g.c.Objects.BindRequests = g.c.Objects.BindRequests[:nBRBefore]
		g.seq = seqBefore
		for _, ch := range chosen {
			p := ch.p
			p.Spec.NodeName = ""
			p.Status.Phase = v1.PodPending
			p.DeletionTimestamp = nil
			p.Finalizers = nil
			delete(p.Annotations, "received-resource-type")
			for k := range p.Labels {
				if k == "runai-gpu-group" || len(k) > 16 && k[:16] == "runai-gpu-group/" {
					delete(p.Labels, k)
				}
			}
		}
		return false
	}
	return true
}

// mixedSubGroupCompanion adds a partially running workload with sub-groups sa (min 1, two running pods: above its
// minimum) and sb (min 2, one running and one pending pod: below it), cpu-only pods, older than every clone.
func (g *G) mixedSubGroupCompanion(name, queue string, preemp enginev2alpha2.Preemptibility, wid *int) string {
	prio := pick(g, []string{"p-train", "p-train", "p-mid", "p-low"})
	if preemp == enginev2alpha2.NonPreemptible {
		prio = "p-build"
	}
	created := g.now.Add(-time.Duration(600+g.in(1, 100)) * time.Minute)
	wl := fmt.Sprintf("w%d", *wid)
	*wid++
	pg := &enginev2alpha2.PodGroup{ObjectMeta: metav1.ObjectMeta{Name: "pg-" + wl, Namespace: "ns", UID: types.UID("pgu-" + wl),
		CreationTimestamp: metav1.NewTime(created), Annotations: map[string]string{"verif/companion": name}},
		Spec: enginev2alpha2.PodGroupSpec{MinMember: 3, Queue: queue, PriorityClassName: prio, Preemptibility: preemp,
			SubGroups: []enginev2alpha2.SubGroup{{Name: "sa", MinMember: 1}, {Name: "sb", MinMember: 2}}}}
	t := podTemplate{kind: "cpu", cpu: 100, mem: 64 << 20, labels: map[string]string{"app-kind": "train"}}
	plan := []struct{ sub, state string }{{"sa", "running"}, {"sa", "running"}, {"sb", "running"}, {"sb", "pending"}}
	var pods []*v1.Pod
	placedAny := false
	for i, pl := range plan {
		p := g.mkPod(fmt.Sprintf("%s-%d", wl, i), pg.Name, pl.sub, t, created)
		if pl.state == "running" {
			ok := false
			for _, ni := range g.r.Perm(len(g.nodes)) {
				if ns := g.nodes[ni]; g.fits(ns, p) {
					g.place(ns, p, "running", pg)
					ok, placedAny = true, true
					break
				}
			}
			if !ok {
				return "" // no room for the running part: no companion in this case
			}
		}
		pods = append(pods, p)
	}
	if placedAny {
		pg.Annotations["kai.scheduler/last-start-timestamp"] = g.now.Add(-10 * time.Hour).Format(time.RFC3339)
	}
	g.c.Objects.PodGroups = append(g.c.Objects.PodGroups, pg)
	g.c.Objects.Pods = append(g.c.Objects.Pods, pods...)
	return prio
}
