package gen

// Dynamic Resource Allocation objects (resource.k8s.io/v1) for the scheduler-side workloads.
//
// genDRA runs as the LAST drawing step of GenerateWith, so the non-DRA part of every case is exactly what the
// generator produced before this file existed; with Knobs.PDRA == 0 it draws nothing and adds nothing.
//
// What it adds when the knob fires:
//   - one DeviceClass (no selectors: every device matches);
//   - per node (most nodes) one node-local ResourceSlice: driver DRADriver, pool = node name, 1-4 devices;
//   - for a random subset of the workloads one of three claim styles
//       own      - every pod references its own ResourceClaim by name (spec.resourceClaims[].resourceClaimName)
//       template - every pod references a ResourceClaimTemplate; the generated claim object (owner = the pod) and
//                  pod.status.resourceClaimStatuses are written the way kube-controller-manager would
//       shared   - all pods of the workload reference ONE claim (only if its placed pods sit on one node)
//     each claim has one request of 1-2 devices (ExactCount);
//   - consistency with the pre-placement: a pod that is on a node (Running / terminating / Bound) has its claims
//     allocated on devices of that node's slice and is listed in status.reservedFor; a Binding pod (Pending +
//     BindRequest) carries the allocation in BindRequest.Spec.ResourceClaimAllocations while the claim object is
//     still unallocated (the binder has not run); pending pods have unallocated claims. Workloads whose placed pods
//     cannot get devices on their nodes are left without claims. Pending workloads ask for more devices than exist,
//     so reclaim / preempt / consolidation must evict DRA pods to place them.
//
// Neither the driver nor the class name of THIS file contains "gpu": the scheduler treats such devices as GPUs (node
// GPU capacity, queue GPU quota, queue label on shared claims). GPU-class claims are added by dra_gpu.go (knob
// PDRAGpu, accounting profile only).

import (
	"fmt"
	"sort"

	v1 "k8s.io/api/core/v1"
	resourceapi "k8s.io/api/resource/v1"
	metav1 "k8s.io/apimachinery/pkg/apis/meta/v1"
	"k8s.io/apimachinery/pkg/types"
	"k8s.io/utils/ptr"

	schedulingv1alpha2 "github.com/NVIDIA/KAI-scheduler/pkg/apis/scheduling/v1alpha2"
)

const (
	DRADriver       = "accel.verif.example.com"
	DRAClass        = "verif-accel"
	DRAPodClaimName = "accel" // pod.spec.resourceClaims[].name
	// DRAStyleAnno records the claim style on the PodGroup (evidence / debugging only)
	DRAStyleAnno = "verif/dra-style"
)

type draNode struct {
	name string
	free []string // free device names, in slice order
}

func (g *G) genDRA() {
	if g.k.PDRA <= 0 || !g.p(g.k.PDRA) {
		return
	}
	o := &g.c.Objects
	o.DeviceClasses = append(o.DeviceClasses, &resourceapi.DeviceClass{ObjectMeta: metav1.ObjectMeta{Name: DRAClass, UID: types.UID("dc-" + DRAClass)}})
	nodes := map[string]*draNode{}
	for _, n := range o.Nodes {
		if g.p(0.12) {
			continue // a node without devices
		}
		k := g.in(1, 4)
		dn := &draNode{name: n.Name}
		sl := &resourceapi.ResourceSlice{ObjectMeta: metav1.ObjectMeta{Name: "slice-" + n.Name, UID: types.UID("slice-" + n.Name)},
			Spec: resourceapi.ResourceSliceSpec{Driver: DRADriver, NodeName: ptr.To(n.Name),
				Pool: resourceapi.ResourcePool{Name: n.Name, Generation: 1, ResourceSliceCount: 1}}}
		for i := 0; i < k; i++ {
			d := fmt.Sprintf("d%d", i)
			sl.Spec.Devices = append(sl.Spec.Devices, resourceapi.Device{Name: d})
			dn.free = append(dn.free, d)
		}
		o.ResourceSlices = append(o.ResourceSlices, sl)
		nodes[n.Name] = dn
	}

	podsOf := map[string][]*v1.Pod{}
	for _, p := range o.Pods {
		if pg := p.Annotations["pod-group-name"]; pg != "" {
			podsOf[pg] = append(podsOf[pg], p)
		}
	}
	brOf := map[string]*schedulingv1alpha2.BindRequest{}
	for _, b := range o.BindRequests {
		brOf[b.Namespace+"/"+b.Spec.PodName] = b
	}
	// nodeOf: the node a pod occupies or is being bound to
	nodeOf := func(p *v1.Pod) string {
		if p.Spec.NodeName != "" {
			return p.Spec.NodeName
		}
		if b, ok := brOf[p.Namespace+"/"+p.Name]; ok {
			return b.Spec.SelectedNode
		}
		return ""
	}
	take := func(node string, n int) []string {
		dn := nodes[node]
		if dn == nil || len(dn.free) < n {
			return nil
		}
		got := append([]string(nil), dn.free[:n]...)
		dn.free = dn.free[n:]
		return got
	}
	allocation := func(node string, devs []string) *resourceapi.AllocationResult {
		a := &resourceapi.AllocationResult{NodeSelector: &v1.NodeSelector{NodeSelectorTerms: []v1.NodeSelectorTerm{{
			MatchFields: []v1.NodeSelectorRequirement{{Key: "metadata.name", Operator: v1.NodeSelectorOpIn, Values: []string{node}}}}}}}
		for _, d := range devs {
			a.Devices.Results = append(a.Devices.Results, resourceapi.DeviceRequestAllocationResult{Request: "req", Driver: DRADriver, Pool: node, Device: d})
		}
		return a
	}
	mkClaim := func(name string, count int64, owner *v1.Pod) *resourceapi.ResourceClaim {
		c := &resourceapi.ResourceClaim{ObjectMeta: metav1.ObjectMeta{Name: name, Namespace: "ns", UID: types.UID("claim-" + name)},
			Spec: resourceapi.ResourceClaimSpec{Devices: resourceapi.DeviceClaim{Requests: []resourceapi.DeviceRequest{{Name: "req",
				Exactly: &resourceapi.ExactDeviceRequest{DeviceClassName: DRAClass, AllocationMode: resourceapi.DeviceAllocationModeExactCount, Count: count}}}}}}
		if owner != nil {
			c.Annotations = map[string]string{"resource.kubernetes.io/pod-claim-name": DRAPodClaimName}
			c.OwnerReferences = []metav1.OwnerReference{{APIVersion: "v1", Kind: "Pod", Name: owner.Name, UID: owner.UID, Controller: ptr.To(true), BlockOwnerDeletion: ptr.To(true)}}
		}
		return c
	}
	reserve := func(c *resourceapi.ResourceClaim, p *v1.Pod) {
		c.Status.ReservedFor = append(c.Status.ReservedFor, resourceapi.ResourceClaimConsumerReference{Resource: "pods", Name: p.Name, UID: p.UID})
	}

	nClaims, nAllocated, nInBR := 0, 0, 0
	for _, pg := range o.PodGroups {
		pods := podsOf[pg.Name]
		if len(pods) == 0 || !g.p(0.45) {
			continue
		}
		style := pick(g, []string{"own", "own", "template", "shared"})
		count := int64(pick(g, []int{1, 1, 2}))
		if style == "shared" {
			// one claim for the gang: its placed pods must share a node
			node := ""
			for _, p := range pods {
				if n := nodeOf(p); n != "" {
					if node != "" && n != node {
						style = "own"
					}
					node = n
				}
			}
			if len(pods) < 2 {
				style = "own"
			}
		}
		// feasibility for the placed / binding pods (devices are taken only if the whole workload fits)
		need := map[string]int{}
		if style == "shared" {
			for _, p := range pods {
				if n := nodeOf(p); n != "" {
					need[n] = int(count)
				}
			}
		} else {
			for _, p := range pods {
				if n := nodeOf(p); n != "" {
					need[n] += int(count)
				}
			}
		}
		feasible := func() bool {
			for n, k := range need {
				if nodes[n] == nil || len(nodes[n].free) < k {
					return false
				}
			}
			return true
		}
		if !feasible() && count == 2 {
			count = 1
			for n := range need {
				if style == "shared" {
					need[n] = 1
				} else {
					need[n] /= 2
				}
			}
		}
		if !feasible() {
			continue
		}
		if pg.Annotations == nil {
			pg.Annotations = map[string]string{}
		}
		pg.Annotations[DRAStyleAnno] = style
		setBR := func(p *v1.Pod, a *resourceapi.AllocationResult) {
			if b, ok := brOf[p.Namespace+"/"+p.Name]; ok {
				b.Spec.ResourceClaimAllocations = append(b.Spec.ResourceClaimAllocations,
					schedulingv1alpha2.ResourceClaimAllocation{Name: DRAPodClaimName, Allocation: a.DeepCopy()})
				nInBR++
			}
		}
		if style == "shared" {
			c := mkClaim("claim-"+pg.Name, count, nil)
			var alloc *resourceapi.AllocationResult
			for _, p := range pods {
				p.Spec.ResourceClaims = []v1.PodResourceClaim{{Name: DRAPodClaimName, ResourceClaimName: ptr.To(c.Name)}}
				n := nodeOf(p)
				if n == "" {
					continue
				}
				if alloc == nil {
					alloc = allocation(n, take(n, int(count)))
				}
				if p.Spec.NodeName != "" {
					if c.Status.Allocation == nil {
						c.Status.Allocation = alloc.DeepCopy()
						nAllocated++
					}
					reserve(c, p)
				}
				setBR(p, alloc)
			}
			o.ResourceClaims = append(o.ResourceClaims, c)
			nClaims++
			continue
		}
		for _, p := range pods {
			var c *resourceapi.ResourceClaim
			if style == "template" {
				c = mkClaim(p.Name+"-"+DRAPodClaimName, count, p)
				p.Spec.ResourceClaims = []v1.PodResourceClaim{{Name: DRAPodClaimName, ResourceClaimTemplateName: ptr.To("tmpl-" + pg.Name)}}
				p.Status.ResourceClaimStatuses = []v1.PodResourceClaimStatus{{Name: DRAPodClaimName, ResourceClaimName: ptr.To(c.Name)}}
			} else {
				c = mkClaim("claim-"+p.Name, count, nil)
				p.Spec.ResourceClaims = []v1.PodResourceClaim{{Name: DRAPodClaimName, ResourceClaimName: ptr.To(c.Name)}}
			}
			if n := nodeOf(p); n != "" {
				alloc := allocation(n, take(n, int(count)))
				if p.Spec.NodeName != "" {
					c.Status.Allocation = alloc.DeepCopy()
					reserve(c, p)
					nAllocated++
				}
				setBR(p, alloc)
			}
			o.ResourceClaims = append(o.ResourceClaims, c)
			nClaims++
		}
	}
	// a claim nobody uses (a user created it ahead of time)
	if g.p(0.3) {
		o.ResourceClaims = append(o.ResourceClaims, mkClaim("claim-unused", 1, nil))
		nClaims++
	}
	meta := map[string]int{"slices": len(o.ResourceSlices), "claims": nClaims, "claimsAllocated": nAllocated, "bindRequestsWithClaims": nInBR}
	// GPU-class claims (dra_gpu.go): drawn after everything else, nothing is drawn when PDRAGpu == 0
	if g.k.PDRAGpu > 0 && g.p(g.k.PDRAGpu) {
		g.genDRAGpu(podsOf, brOf, meta)
	}
	sort.Slice(o.ResourceClaims, func(i, j int) bool { return o.ResourceClaims[i].Name < o.ResourceClaims[j].Name })
	g.c.Meta["dra"] = meta
}
