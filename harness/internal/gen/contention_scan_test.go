package gen

import (
	"fmt"
	"sort"
	"strings"
	"testing"
)

// TestContentionScan prints a compact signature of generated contention cases (debug aid: go test -run ContentionScan -v).
func TestContentionScan(t *testing.T) {
	for idx := 1; idx < 3000; idx += 3 {
		c := Contention(1, idx, "quick")
		var qs []string
		for _, q := range c.Objects.Queues {
			qs = append(qs, fmt.Sprintf("%s<%s:%g", q.Name, q.Spec.ParentQueue, q.Spec.Resources.GPU.Quota))
		}
		var ws []string
		for i, pg := range c.Objects.PodGroups {
			p := c.Objects.Pods[i]
			st := "P"
			if p.Spec.NodeName != "" {
				st = "R"
			}
			g := p.Spec.Containers[0].Resources.Requests["nvidia.com/gpu"]
			ws = append(ws, fmt.Sprintf("%s:%s%d", pg.Spec.Queue, st, g.Value()))
		}
		sort.Strings(ws)
		fmt.Printf("IDX %d %v nodes=%d | %s | %s | %s\n", idx, c.Meta["pattern"], len(c.Objects.Nodes), strings.Join(qs, " "), strings.Join(ws, " "), c.Config.Actions)
	}
}
