package gen

import (
	"fmt"
	"time"

	v1 "k8s.io/api/core/v1"
	metav1 "k8s.io/apimachinery/pkg/apis/meta/v1"
	"k8s.io/apimachinery/pkg/types"

	enginev2alpha2 "github.com/NVIDIA/KAI-scheduler/pkg/apis/scheduling/v2alpha2"

	"verif/harness/internal/spec"
)

// Sharing builds the shape the generic generator reaches too rarely for the shared-GPU arithmetic: on 1-2 nodes of 2-4
// devices every device is given a role - shared by 1-2 running fraction pods with room left, held by a running or by a
// TERMINATING whole-GPU pod, held by a shared group whose only member is terminating, or idle (at most one or two) -
// and the pending work is dominated by multi-device fraction requests (2-3 devices of 0.25-0.5 each) plus single
// fractions and whole-GPU pods. GPU spread (whole devices preferred to shared ones) in 60% of the cases. A request
// then needs more new groups than the node has idle devices while idle + releasing devices and shared devices with
// room would be enough: what may be bound at once, what may only be pipelined behind the terminating pods, and how
// many devices the new groups of ONE pod take has to be decided per device. Open world: terminating pods stay for 0-2
// cycles, binds succeed with probability 1 / 0.8.
func Sharing(seed int64, index int, tier string) *spec.Case {
	k := Profile("sharing")
	g := &G{r: NewRand(seed, index, 29), k: k, tier: tier, now: time.Now().Truncate(time.Second)}
	g.c = &spec.Case{Seed: seed, Index: index, Profile: "sharing", Meta: map[string]any{"tier": tier, "pattern": "device-roles"}}
	g.config()
	g.priorityClasses()
	g.genNodes()
	g.genTopology()
	g.genQueues()

	wid := 0
	single := func(t podTemplate, age time.Duration) (*enginev2alpha2.PodGroup, *v1.Pod) {
		wl := fmt.Sprintf("w%d", wid)
		wid++
		created := g.now.Add(-age)
		prio := pick(g, g.pcs)
		pg := &enginev2alpha2.PodGroup{ObjectMeta: metav1.ObjectMeta{Name: "pg-" + wl, Namespace: "ns", UID: types.UID("pgu-" + wl),
			CreationTimestamp: metav1.NewTime(created), Annotations: map[string]string{}},
			Spec: enginev2alpha2.PodGroupSpec{MinMember: 1, Queue: pick(g, g.leafQ), PriorityClassName: prio}}
		t.labels = map[string]string{"app-kind": "train"}
		p := g.mkPod(wl+"-0", pg.Name, "", t, created)
		g.c.Objects.PodGroups = append(g.c.Objects.PodGroups, pg)
		g.c.Objects.Pods = append(g.c.Objects.Pods, p)
		return pg, p
	}
	put := func(ns *nodeState, t podTemplate, state string) bool {
		pg, p := single(t, time.Duration(600+wid)*time.Minute)
		if !g.fits(ns, p) {
			// keep it as a pending workload
			return false
		}
		g.place(ns, p, state, pg)
		pg.Annotations["kai.scheduler/last-start-timestamp"] = g.now.Add(-10 * time.Hour).Format(time.RFC3339)
		return true
	}
	fracs := []string{"0.5", "0.5", "0.25", "0.4"}
	small := podTemplate{kind: "fraction", cpu: 100, mem: 128 << 20}
	for _, ns := range g.nodes {
		devices := ns.gpuFree
		if devices < 2 || ns.gpuMem <= 0 {
			continue
		}
		idle := int64(g.in(0, 2))
		if idle >= devices {
			idle = devices - 1
		}
		terminatingSeen := false
		for d := int64(0); d < devices-idle; d++ {
			role := pick(g, []string{"shared", "shared", "whole", "whole-terminating", "whole-terminating", "shared-terminating"})
			if d == devices-idle-1 && !terminatingSeen {
				role = pick(g, []string{"whole-terminating", "whole-terminating", "shared-terminating"})
			}
			switch role {
			case "shared":
				// the first member opens a new group (planGroups prefers existing groups with room: force a fresh one by
				// asking while no group has room is not possible, so accept either outcome)
				t := small
				t.frac = pick(g, fracs)
				put(ns, t, "running")
				if g.p(0.4) {
					t.frac = pick(g, []string{"0.25", "0.25", "0.5"})
					put(ns, t, pick(g, []string{"running", "terminating"}))
				}
			case "whole":
				put(ns, podTemplate{kind: "whole", cpu: 100, mem: 128 << 20, gpus: 1}, "running")
			case "whole-terminating":
				terminatingSeen = put(ns, podTemplate{kind: "whole", cpu: 100, mem: 128 << 20, gpus: 1}, "terminating") || terminatingSeen
			case "shared-terminating":
				t := small
				t.frac = pick(g, fracs)
				terminatingSeen = put(ns, t, "terminating") || terminatingSeen
			}
		}
	}
	// pending work
	for i, n := 0, g.in(2, 5); i < n; i++ {
		t := podTemplate{cpu: 100, mem: 128 << 20}
		switch pick(g, []string{"multifrac", "multifrac", "multifrac", "fraction", "whole", "gpumem"}) {
		case "multifrac":
			t.kind, t.devices, t.frac = "multifrac", int64(g.in(2, 3)), pick(g, []string{"0.5", "0.5", "0.25", "0.4"})
		case "fraction":
			t.kind, t.frac = "fraction", pick(g, fracs)
		case "gpumem":
			t.kind, t.gpuMem = "gpumem", pick(g, []string{"2000", "4000", "8000"})
		default:
			t.kind, t.gpus = "whole", int64(g.in(1, 2))
		}
		single(t, time.Duration(300-10*i)*time.Minute)
	}
	g.c.Cycles = g.in(2, 4)
	g.c.World = spec.WorldOpts{PBindSucceeds: pick(g, []float64{1, 1, 0.8}), MaxTerminateCycles: g.in(0, 2)}
	LabelForNodePool(g.c)
	return g.c
}
