// Package spec defines the JSON-serialisable test case: the full API object set, the scheduler
// configuration, the fault plan and generator metadata. A replay file is exactly one Case.
package spec

import (
	"encoding/json"
	"os"
	"strconv"

	v1 "k8s.io/api/core/v1"
	resourceapi "k8s.io/api/resource/v1"
	schedulingv1 "k8s.io/api/scheduling/v1"
	"k8s.io/apimachinery/pkg/runtime"

	kaiv1alpha1 "github.com/NVIDIA/KAI-scheduler/pkg/apis/kai/v1alpha1"
	schedulingv1alpha2 "github.com/NVIDIA/KAI-scheduler/pkg/apis/scheduling/v1alpha2"
	enginev2 "github.com/NVIDIA/KAI-scheduler/pkg/apis/scheduling/v2"
	enginev2alpha2 "github.com/NVIDIA/KAI-scheduler/pkg/apis/scheduling/v2alpha2"
)

const (
	SchedulerName   = "kai-scheduler"
	ReservationNS   = "kai-resource-reservation"
	ReservationApp  = "kai-resource-reservation"
	GpuIndexAnnot   = "run.ai/reserve_for_gpu_index"
	LogicalNameAnno = "verif/logical-name" // stable name of a pod across re-creations (closed system)
	CloneAnno       = "verif/clone-class"  // PodGroups created as clones by the generator (C16)
	ControlAnno     = "verif/control"      // C10 control workload
	// ArriveAnno on a PodGroup: the workload (pod group and its pods) is submitted only before the cycle with this
	// number (>= 2); until then it is not in the API state
	ArriveAnno = "verif/arrives-at-cycle"
	// RecreatedAnno on a terminating pod: its replacement is already part of the object set (the world model does not
	// create another one)
	RecreatedAnno = "verif/replacement-exists"
)

// SplitArrivals separates the objects present before the first cycle from the workloads that arrive later
// (ArriveAnno), keyed by the cycle before which they are submitted.
func (o *Objects) SplitArrivals() (initial []runtime.Object, arrivals map[int][]runtime.Object) {
	at := map[string]int{}
	for _, pg := range o.PodGroups {
		if k, err := strconv.Atoi(pg.Annotations[ArriveAnno]); err == nil && k >= 2 {
			at[pg.Namespace+"/"+pg.Name] = k
		}
	}
	if len(at) == 0 {
		return o.All(), nil
	}
	arrivals = map[int][]runtime.Object{}
	for _, x := range o.All() {
		k := 0
		switch v := x.(type) {
		case *enginev2alpha2.PodGroup:
			k = at[v.Namespace+"/"+v.Name]
		case *v1.Pod:
			if g := v.Annotations["pod-group-name"]; g != "" {
				k = at[v.Namespace+"/"+g]
			}
		}
		if k == 0 {
			initial = append(initial, x)
		} else {
			arrivals[k] = append(arrivals[k], x)
		}
	}
	return initial, arrivals
}

type Objects struct {
	Nodes           []*v1.Node                        `json:"nodes,omitempty"`
	Pods            []*v1.Pod                         `json:"pods,omitempty"`
	Queues          []*enginev2.Queue                 `json:"queues,omitempty"`
	PodGroups       []*enginev2alpha2.PodGroup        `json:"podGroups,omitempty"`
	BindRequests    []*schedulingv1alpha2.BindRequest `json:"bindRequests,omitempty"`
	PriorityClasses []*schedulingv1.PriorityClass     `json:"priorityClasses,omitempty"`
	Topologies      []*kaiv1alpha1.Topology           `json:"topologies,omitempty"`
	ConfigMaps      []*v1.ConfigMap                   `json:"configMaps,omitempty"`
	// Dynamic Resource Allocation (resource.k8s.io/v1); empty unless the generator's DRA knob fired
	DeviceClasses  []*resourceapi.DeviceClass   `json:"deviceClasses,omitempty"`
	ResourceSlices []*resourceapi.ResourceSlice `json:"resourceSlices,omitempty"`
	ResourceClaims []*resourceapi.ResourceClaim `json:"resourceClaims,omitempty"`
}

// HasDRA reports whether the object set contains any resource.k8s.io object.
func (o *Objects) HasDRA() bool {
	return len(o.DeviceClasses)+len(o.ResourceSlices)+len(o.ResourceClaims) > 0
}

func (o *Objects) All() []runtime.Object {
	var out []runtime.Object
	for _, x := range o.Nodes {
		out = append(out, x)
	}
	for _, x := range o.PriorityClasses {
		out = append(out, x)
	}
	for _, x := range o.Queues {
		out = append(out, x)
	}
	for _, x := range o.Topologies {
		out = append(out, x)
	}
	for _, x := range o.ConfigMaps {
		out = append(out, x)
	}
	for _, x := range o.DeviceClasses {
		out = append(out, x)
	}
	for _, x := range o.ResourceSlices {
		out = append(out, x)
	}
	for _, x := range o.ResourceClaims {
		out = append(out, x)
	}
	for _, x := range o.PodGroups {
		out = append(out, x)
	}
	for _, x := range o.Pods {
		out = append(out, x)
	}
	for _, x := range o.BindRequests {
		out = append(out, x)
	}
	return out
}

// SchedConfig is the scheduler configuration of a case.
type SchedConfig struct {
	Actions    string                       `json:"actions"`
	PluginArgs map[string]map[string]string `json:"pluginArgs,omitempty"`
	QueueDepth map[string]int               `json:"queueDepth,omitempty"`

	NodePoolKey                      string `json:"nodePoolKey,omitempty"`
	NodePoolValue                    string `json:"nodePoolValue,omitempty"`
	MaxNumberConsolidationPreemptees int    `json:"maxConsolidationPreemptees"`
	UseSchedulingSignatures          bool   `json:"useSchedulingSignatures"`
	FullHierarchyFairness            bool   `json:"fullHierarchyFairness"`
	AllowConsolidatingReclaim        bool   `json:"allowConsolidatingReclaim"`
	RestrictNodeScheduling           bool   `json:"restrictNodeScheduling,omitempty"`
	DetailedFitErrors                bool   `json:"detailedFitErrors,omitempty"`
}

// WorldOpts tunes the world model between cycles.
type WorldOpts struct {
	// probabilities in [0,1] per pending BindRequest and step
	PBindSucceeds float64 `json:"pBindSucceeds"`
	PBindFails    float64 `json:"pBindFails"`
	// a terminating pod disappears after a number of cycles drawn from [0,MaxTerminateCycles]
	MaxTerminateCycles int `json:"maxTerminateCycles"`
	// PPodUpdateLags: after a successful bind the BindRequest shows Succeeded one step before the pod shows its
	// node (the scheduler watches pods and BindRequests through separate informers)
	PPodUpdateLags float64 `json:"pPodUpdateLags,omitempty"`
	// Closed: evicted pods are re-created as pending (C15)
	Closed bool `json:"closed,omitempty"`
	// EarlyRecreate (with Closed): the replacement is created as soon as the old pod is terminating (what a workload
	// controller does), not when it is gone: old and new pod of a workload coexist for the grace period
	EarlyRecreate bool `json:"earlyRecreate,omitempty"`
	// PRecreateNow (with EarlyRecreate): probability per step that the replacement of a still terminating pod is
	// created in that step (0 = at once): the pods of an evicted gang come back one by one
	PRecreateNow float64 `json:"pRecreateNow,omitempty"`
	// UseRealBinder: drive BindRequests through the real binder reconciler
	UseRealBinder bool `json:"useRealBinder,omitempty"`
}

// Faults is the API fault plan of a case.
type Faults struct {
	PBindRequestCreateFails float64 `json:"pBindRequestCreateFails"`
	PPodDeleteFails         float64 `json:"pPodDeleteFails"`
	PEvictCallFails         float64 `json:"pEvictCallFails"` // Cache.Evict returns an error without evicting
}

type Case struct {
	Property string         `json:"property,omitempty"`
	Seed     int64          `json:"seed"`
	Index    int            `json:"index"`
	Profile  string         `json:"profile"`
	Objects  Objects        `json:"objects"`
	Config   SchedConfig    `json:"config"`
	Cycles   int            `json:"cycles"`
	World    WorldOpts      `json:"world"`
	Faults   Faults         `json:"faults"`
	Meta     map[string]any `json:"meta,omitempty"`
}

func (c *Case) Save(path string) error {
	b, err := json.MarshalIndent(c, "", " ")
	if err != nil {
		return err
	}
	return os.WriteFile(path, b, 0o644)
}

func Load(path string) (*Case, error) {
	b, err := os.ReadFile(path)
	if err != nil {
		return nil, err
	}
	c := &Case{}
	if err := json.Unmarshal(b, c); err != nil {
		return nil, err
	}
	return c, nil
}
