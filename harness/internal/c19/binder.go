package c19

import (
	"context"
	"fmt"
	"sort"
	"strconv"
	"strings"
	"sync"
	"time"

	v1 "k8s.io/api/core/v1"
	metav1 "k8s.io/apimachinery/pkg/apis/meta/v1"
	"k8s.io/apimachinery/pkg/watch"
	"sigs.k8s.io/controller-runtime/pkg/client"
	crfake "sigs.k8s.io/controller-runtime/pkg/client/fake"
	"sigs.k8s.io/controller-runtime/pkg/client/interceptor"

	schedulingv1alpha2 "github.com/NVIDIA/KAI-scheduler/pkg/apis/scheduling/v1alpha2"
	"github.com/NVIDIA/KAI-scheduler/pkg/binder/binding"
	"github.com/NVIDIA/KAI-scheduler/pkg/binder/binding/resourcereservation"
	binderplugins "github.com/NVIDIA/KAI-scheduler/pkg/binder/plugins"
	bindergpu "github.com/NVIDIA/KAI-scheduler/pkg/binder/plugins/gpusharing"
	gpurequest "github.com/NVIDIA/KAI-scheduler/pkg/binder/plugins/gpusharing/gpu-request"
	"github.com/NVIDIA/KAI-scheduler/pkg/scheduler/api/pod_info"

	"verif/harness/internal/spec"
	"verif/harness/internal/store"
)

// binderEnv is one node's worth of API store with the real binder on top of it: the real
// resourcereservation.Service, the real binding.Binder and the real binder gpusharing plugin (the binder's
// registerPlugins minus the k8s volume/DRA plugins, which need informers and are irrelevant to GPU requests).
// The harness plays the API server for the two things client-go's tracker does not implement (the pods/binding
// sub-resource; the initial ADDED events of a watch) and the kubelet/reservation pod (the GPU index annotation).
type binderEnv struct {
	st     *store.Store
	cl     client.WithWatch
	binder *binding.Binder
	node   *v1.Node

	mu       sync.Mutex
	nextIdx  int
	groupIdx map[string]string // gpu group -> index written on its reservation pod
	calls    map[string]int
}

type bindingSub struct {
	client.SubResourceClient
	cl client.WithWatch
}

func (b bindingSub) Create(ctx context.Context, obj client.Object, sub client.Object, opts ...client.SubResourceCreateOption) error {
	bd, ok := sub.(*v1.Binding)
	if !ok {
		return fmt.Errorf("binding sub-resource: unexpected body %T", sub)
	}
	pod := &v1.Pod{}
	if err := b.cl.Get(ctx, client.ObjectKeyFromObject(obj), pod); err != nil {
		return err
	}
	if pod.Spec.NodeName != "" {
		return fmt.Errorf("pod %s/%s is already assigned to node %q", pod.Namespace, pod.Name, pod.Spec.NodeName)
	}
	pod.Spec.NodeName = bd.Target.Name
	return b.cl.Update(ctx, pod)
}

func newBinderEnv() (*binderEnv, error) {
	e := &binderEnv{st: store.New(), groupIdx: map[string]string{}, calls: map[string]int{}}
	funcs := interceptor.Funcs{
		// kubelet + reservation pod: a reservation pod reports the index of the device it was given
		Create: func(ctx context.Context, c client.WithWatch, obj client.Object, opts ...client.CreateOption) error {
			e.count("create")
			if p, ok := obj.(*v1.Pod); ok && p.Namespace == spec.ReservationNS {
				e.mu.Lock()
				idx := strconv.Itoa(e.nextIdx)
				e.nextIdx++
				e.groupIdx[p.Labels["runai-gpu-group"]] = idx
				e.mu.Unlock()
				if p.Annotations == nil {
					p.Annotations = map[string]string{}
				}
				p.Annotations[spec.GpuIndexAnnot] = idx
			}
			return c.Create(ctx, obj, opts...)
		},
		// API server: a watch without resourceVersion starts with ADDED events for the existing objects
		Watch: func(ctx context.Context, c client.WithWatch, list client.ObjectList, opts ...client.ListOption) (watch.Interface, error) {
			e.count("watch")
			lo := client.ListOptions{}
			lo.ApplyOptions(opts)
			pods := &v1.PodList{}
			if err := c.List(ctx, pods, client.InNamespace(lo.Namespace)); err != nil {
				return nil, err
			}
			w := watch.NewFakeWithChanSize(len(pods.Items)+1, false)
			for i := range pods.Items {
				p := &pods.Items[i]
				if lo.FieldSelector != nil {
					if name, ok := lo.FieldSelector.RequiresExactMatch("metadata.name"); ok && name != p.Name {
						continue
					}
				}
				w.Add(p)
			}
			return w, nil
		},
		SubResource: func(c client.WithWatch, sub string) client.SubResourceClient {
			if sub == "binding" {
				return bindingSub{SubResourceClient: c.SubResource(sub), cl: c}
			}
			return c.SubResource(sub)
		},
		Patch: func(ctx context.Context, c client.WithWatch, obj client.Object, patch client.Patch, opts ...client.PatchOption) error {
			e.count("patch")
			return c.Patch(ctx, obj, patch, opts...)
		},
	}
	e.cl = crfake.NewClientBuilder().WithScheme(e.st.Scheme).WithObjectTracker(e.st.Tracker).
		WithStatusSubresource(&schedulingv1alpha2.BindRequest{}).
		WithIndex(&v1.Pod{}, "spec.nodeName", func(o client.Object) []string { return []string{o.(*v1.Pod).Spec.NodeName} }).
		WithInterceptorFuncs(funcs).Build()
	e.node = makeNode()
	if err := e.st.Add(e.node.DeepCopy()); err != nil {
		return nil, err
	}
	// cmd/binder wiring
	rrs := resourcereservation.NewService(false, e.cl, "reservation-img", 2*time.Second, spec.ReservationNS, "sa", spec.ReservationApp, "kai-scale-adjust", "", nil)
	pl := binderplugins.New()
	pl.RegisterPlugin(bindergpu.New(e.cl, false))
	e.binder = binding.NewBinder(e.cl, rrs, pl)
	return e, nil
}

func (e *binderEnv) count(k string) {
	e.mu.Lock()
	e.calls[k]++
	e.mu.Unlock()
}

// bindRequestFor builds the BindRequest the scheduler writes for a placed task. cache.createBindRequest is
// unexported; these are its six spec lines, fed from the PodInfo that the scheduler's own NodeInfo accepted.
// (The per-case real scheduler cycle cross-checks this copy against a BindRequest written by the real cache.)
func bindRequestFor(task *pod_info.PodInfo) *schedulingv1alpha2.BindRequest {
	return &schedulingv1alpha2.BindRequest{
		ObjectMeta: metav1.ObjectMeta{Name: task.Pod.Name, Namespace: task.Namespace},
		Spec: schedulingv1alpha2.BindRequestSpec{
			PodName:              task.Name,
			SelectedNode:         nodeName,
			SelectedGPUGroups:    task.GPUGroups,
			ReceivedResourceType: string(task.ResourceReceivedType),
			ReceivedGPU: &schedulingv1alpha2.ReceivedGPU{
				Count:   int(task.AcceptedResource.GetNumOfGpuDevices()),
				Portion: fmt.Sprintf("%.2f", task.AcceptedResource.GpuFractionalPortion()),
			},
		},
	}
}

// cleanup empties the node again (pods, reservation pods, config maps) so that the next bind does not pay for
// SyncForNode re-listing every earlier pod; the property is per pod.
func (e *binderEnv) cleanup() {
	ctx := context.Background()
	pods := &v1.PodList{}
	if err := e.cl.List(ctx, pods); err == nil {
		for i := range pods.Items {
			_ = e.cl.Delete(ctx, &pods.Items[i])
		}
	}
	cms := &v1.ConfigMapList{}
	if err := e.cl.List(ctx, cms); err == nil {
		for i := range cms.Items {
			_ = e.cl.Delete(ctx, &cms.Items[i])
		}
	}
}

// bind stores the (mutated, admitted) pod, runs the real Binder.Bind with br, and reads back what was materialised.
func (e *binderEnv) bind(mutated *v1.Pod, br *schedulingv1alpha2.BindRequest, alreadyStored bool) (view BindView) {
	ctx := context.Background()
	view.Ran = true
	view.ValidateErr = errStr(gpurequest.ValidateGpuRequests(mutated))
	if br.Spec.ReceivedGPU != nil {
		view.ReqCount, view.ReqPortion = br.Spec.ReceivedGPU.Count, br.Spec.ReceivedGPU.Portion
	}
	view.Groups = append([]string(nil), br.Spec.SelectedGPUGroups...)
	view.ReqType = br.Spec.ReceivedResourceType
	if !alreadyStored {
		if err := e.cl.Create(ctx, mutated.DeepCopy()); err != nil {
			view.BindErr = "harness: cannot store pod: " + err.Error()
			return view
		}
	}
	pod := &v1.Pod{}
	key := client.ObjectKey{Namespace: mutated.Namespace, Name: mutated.Name}
	if err := e.cl.Get(ctx, key, pod); err != nil {
		view.BindErr = "harness: cannot read pod: " + err.Error()
		return view
	}
	var err error
	if p := guard("Binder.Bind", func() { err = e.binder.Bind(ctx, pod, e.node, br) }); p != "" {
		view.BindErr = short(p, 600)
		return view
	}
	if err != nil {
		view.BindErr = err.Error()
		// the reconciler rolls back a failed bind
		_ = guard("Binder.Rollback", func() { _ = e.binder.Rollback(ctx, pod, e.node, br) })
		return view
	}
	after := &v1.Pod{}
	if err := e.cl.Get(ctx, key, after); err != nil {
		view.BindErr = "harness: cannot re-read pod: " + err.Error()
		return view
	}
	view.NodeName = after.Spec.NodeName
	view.ReceivedType = after.Annotations["received-resource-type"]
	for k, v := range after.Labels {
		if k == "runai-gpu-group" || strings.HasPrefix(k, "runai-gpu-group/") {
			view.GroupLabels = append(view.GroupLabels, v)
		}
	}
	sort.Strings(view.GroupLabels)
	e.mu.Lock()
	for _, g := range br.Spec.SelectedGPUGroups {
		view.Indexes = append(view.Indexes, e.groupIdx[g])
	}
	e.mu.Unlock()
	// the config map the pod's env refers to: <prefix annotation>-<container index>
	cms := &v1.ConfigMapList{}
	_ = e.cl.List(ctx, cms, client.InNamespace(mutated.Namespace))
	prefix := after.Annotations[annCMPrefix]
	for i := range cms.Items {
		cm := &cms.Items[i]
		if !strings.HasPrefix(cm.Name, prefix+"-") || strings.HasSuffix(cm.Name, "-evar") {
			continue
		}
		owned := false
		for _, o := range cm.OwnerReferences {
			if o.UID == mutated.UID {
				owned = true
			}
		}
		if !owned {
			continue
		}
		view.CMName = cm.Name
		view.GPUPortion = cm.Data["GPU_PORTION"]
		view.NumOfGpus = cm.Data["RUNAI_NUM_OF_GPUS"]
		view.VisibleDevices, view.HasVisible = cm.Data["NVIDIA_VISIBLE_DEVICES"]
	}
	view.EnvContainer = envContainer(after, view.CMName)
	return view
}
