package c19

import (
	"context"
	"encoding/json"
	"fmt"
	"reflect"
	"runtime/debug"
	"strconv"
	"strings"
	"sync"

	"github.com/go-logr/logr"
	admissionv1 "k8s.io/api/admission/v1"
	v1 "k8s.io/api/core/v1"
	"k8s.io/apimachinery/pkg/api/resource"
	metav1 "k8s.io/apimachinery/pkg/apis/meta/v1"
	"k8s.io/apimachinery/pkg/types"
	crlog "sigs.k8s.io/controller-runtime/pkg/log"
	"sigs.k8s.io/controller-runtime/pkg/webhook/admission"

	admplugins "github.com/NVIDIA/KAI-scheduler/pkg/admission/plugins"
	admgpu "github.com/NVIDIA/KAI-scheduler/pkg/admission/webhook/v1alpha2/gpusharing"
	"github.com/NVIDIA/KAI-scheduler/pkg/admission/webhook/v1alpha2/podhooks"
	"github.com/NVIDIA/KAI-scheduler/pkg/scheduler/api/node_info"
	"github.com/NVIDIA/KAI-scheduler/pkg/scheduler/api/pod_info"
	"github.com/NVIDIA/KAI-scheduler/pkg/scheduler/api/pod_status"
	"github.com/NVIDIA/KAI-scheduler/pkg/scheduler/api/resource_info"

	"verif/harness/internal/spec"
)

const (
	podNS      = "ns"
	nodeName   = "n0"
	nodeGPUMem = int64(40000) // nvidia.com/gpu.memory label of the node (MiB, divisible by 100: no flooring)
	nodeGPUs   = int64(64)
	maxDevices = int64(8) // the binder step is run for pods asking for at most this many devices
)

var (
	sutOnce  sync.Once
	admOn    *admplugins.KaiAdmissionPlugins
	admOff   *admplugins.KaiAdmissionPlugins
	theNode  *v1.Node
	zeroTime = metav1.Time{}
)

func initSUT() {
	sutOnce.Do(func() {
		crlog.SetLogger(logr.Discard())
		// the admission service's own wiring (cmd/admission/main.go registerPlugins), once per switch position
		admOn = admplugins.New()
		admOn.RegisterPlugin(admgpu.New(nil, true))
		admOff = admplugins.New()
		admOff.RegisterPlugin(admgpu.New(nil, false))
		theNode = makeNode()
	})
}

func makeNode() *v1.Node {
	alloc := v1.ResourceList{
		v1.ResourceCPU:    resource.MustParse("512"),
		v1.ResourceMemory: resource.MustParse("4Ti"),
		v1.ResourcePods:   resource.MustParse("1000"),
		gpuResource:       *resource.NewQuantity(nodeGPUs, resource.DecimalSI),
	}
	return &v1.Node{ObjectMeta: metav1.ObjectMeta{Name: nodeName, UID: "node-n0", Labels: map[string]string{
		"kubernetes.io/hostname": nodeName, "nvidia.com/gpu.count": strconv.FormatInt(nodeGPUs, 10),
		"nvidia.com/gpu.memory": strconv.FormatInt(nodeGPUMem, 10)}},
		Status: v1.NodeStatus{Allocatable: alloc, Capacity: alloc.DeepCopy(),
			Conditions: []v1.NodeCondition{{Type: v1.NodeReady, Status: v1.ConditionTrue}}}}
}

// pod builds the API object of a generated pod.
func (in *PodIn) pod() *v1.Pod {
	ann := map[string]string{}
	for k, v := range in.Ann {
		ann[k] = v
	}
	mk := func(cs []ContIn) []v1.Container {
		var out []v1.Container
		for _, c := range cs {
			k := v1.Container{Name: c.Name, Image: "img", Resources: v1.ResourceRequirements{
				Requests: v1.ResourceList{v1.ResourceCPU: resource.MustParse("100m")}}}
			if c.GPUReq != nil {
				k.Resources.Requests[gpuResource] = *resource.NewQuantity(*c.GPUReq, resource.DecimalSI)
			}
			if c.GPULim != nil {
				k.Resources.Limits = v1.ResourceList{gpuResource: *resource.NewQuantity(*c.GPULim, resource.DecimalSI)}
			}
			if c.PresetEnv {
				k.Env = []v1.EnvVar{{Name: "A", Value: "1"}, {Name: "NVIDIA_VISIBLE_DEVICES", Value: "all"}, {Name: "Z", Value: "2"}}
			}
			out = append(out, k)
		}
		return out
	}
	p := &v1.Pod{ObjectMeta: metav1.ObjectMeta{Name: in.Name, Namespace: podNS, UID: types.UID("uid-" + in.Name), Annotations: ann},
		Spec:   v1.PodSpec{SchedulerName: spec.SchedulerName, Containers: mk(in.Containers), InitContainers: mk(in.Init)},
		Status: v1.PodStatus{Phase: v1.PodPending}}
	if in.Owner != "" {
		p.OwnerReferences = []metav1.OwnerReference{{APIVersion: "batch/v1", Kind: "Job", Name: in.Owner, UID: types.UID("own-" + in.Name)}}
	}
	return p
}

func errStr(err error) string {
	if err == nil {
		return ""
	}
	return err.Error()
}

func guard(what string, f func()) (panicked string) {
	defer func() {
		if p := recover(); p != nil {
			panicked = fmt.Sprintf("%s panicked: %v\n%s", what, p, debug.Stack())
		}
	}()
	f()
	return ""
}

// runAdmission runs the real webhook handlers (podhooks.NewPodMutator / NewPodValidator around the plugin set) in
// API-server order for a CREATE: mutating webhook and then the validating webhook on the mutated object. It also runs
// the validator on the pod as submitted, the mutator a second time on its own result, and the UPDATE path of the
// validating webhook: the stored object is a plain CPU-only pod of the same name (admitted earlier), the new object
// is the pod under test (GPU annotations and limits are mutable in the sense that the webhook is registered for
// create;update and is the only thing that looks at them).
func runAdmission(pl *admplugins.KaiAdmissionPlugins, raw *v1.Pod) (view AdmView, mutated *v1.Pod, idem string) {
	idem = "n/a"
	ctx := admission.NewContextWithRequest(context.Background(), admission.Request{AdmissionRequest: admissionv1.AdmissionRequest{Namespace: raw.Namespace}})
	mutator := podhooks.NewPodMutator(nil, pl, spec.SchedulerName)
	validator := podhooks.NewPodValidator(nil, pl, spec.SchedulerName)
	create := func(p *v1.Pod) string {
		_, err := validator.ValidateCreate(ctx, p)
		return errStr(err)
	}
	if p := guard("Validate(raw)", func() { view.ValidateRaw = create(raw.DeepCopy()) }); p != "" {
		view.ValidateRaw = p
	}
	m1 := raw.DeepCopy()
	if p := guard("Mutate", func() { view.Mutate = errStr(mutator.Default(ctx, m1)) }); p != "" {
		view.Mutate = p
	}
	if view.Mutate != "" {
		return view, nil, idem
	}
	if p := guard("Validate(mutated)", func() { view.Validate = create(m1) }); p != "" {
		view.Validate = p
	}
	view.Accepted = view.Validate == ""
	// UPDATE of a stored plain pod into the pod under test
	stored := raw.DeepCopy()
	stored.Annotations = map[string]string{}
	for _, cs := range [][]v1.Container{stored.Spec.Containers, stored.Spec.InitContainers} {
		for i := range cs {
			cs[i].Resources = v1.ResourceRequirements{Requests: v1.ResourceList{v1.ResourceCPU: resource.MustParse("100m")}}
		}
	}
	if p := guard("ValidateUpdate", func() {
		_, err := validator.ValidateUpdate(ctx, stored, m1.DeepCopy())
		view.Update = errStr(err)
	}); p != "" {
		view.Update = p
	}
	m2 := m1.DeepCopy()
	var err2 string
	if p := guard("Mutate(Mutate)", func() { err2 = errStr(mutator.Default(ctx, m2)) }); p != "" {
		err2 = p
	}
	switch {
	case err2 != "":
		idem = "second-call-error: " + err2
	default:
		idem = diffPods(m1, m2)
	}
	return view, m1, idem
}

// diffPods returns "same" or "<area>: detail" for the first differing area.
func diffPods(a, b *v1.Pod) string {
	if reflect.DeepEqual(a, b) {
		return "same"
	}
	ja, _ := json.Marshal(a)
	jb, _ := json.Marshal(b)
	if string(ja) == string(jb) {
		return "same" // nil-vs-empty only: identical on the wire
	}
	if !reflect.DeepEqual(a.Annotations, b.Annotations) {
		return fmt.Sprintf("annotations: %v vs %v", a.Annotations, b.Annotations)
	}
	if !reflect.DeepEqual(a.Spec.Volumes, b.Spec.Volumes) {
		return fmt.Sprintf("volumes: %v vs %v", a.Spec.Volumes, b.Spec.Volumes)
	}
	for i := range a.Spec.Containers {
		if i < len(b.Spec.Containers) && !reflect.DeepEqual(a.Spec.Containers[i].Env, b.Spec.Containers[i].Env) {
			return fmt.Sprintf("env: container %s: %v vs %v", a.Spec.Containers[i].Name, a.Spec.Containers[i].Env, b.Spec.Containers[i].Env)
		}
		if i < len(b.Spec.Containers) && !reflect.DeepEqual(a.Spec.Containers[i].EnvFrom, b.Spec.Containers[i].EnvFrom) {
			return fmt.Sprintf("envFrom: container %s", a.Spec.Containers[i].Name)
		}
	}
	for i := range a.Spec.InitContainers {
		if i < len(b.Spec.InitContainers) && !reflect.DeepEqual(a.Spec.InitContainers[i], b.Spec.InitContainers[i]) {
			return fmt.Sprintf("initContainer: %s", a.Spec.InitContainers[i].Name)
		}
	}
	return "other: " + string(ja) + " vs " + string(jb)
}

func fstr(f float64) string { return strconv.FormatFloat(f, 'g', -1, 64) }

// runScheduler builds the scheduler's PodInfo of the pod exactly as the snapshot does.
func runScheduler(pod *v1.Pod) (view SchedView, task *pod_info.PodInfo) {
	view.Panic = guard("pod_info.NewTaskInfo", func() {
		task = pod_info.NewTaskInfo(pod, nil, resource_info.NewResourceVectorMap())
		view.ReqType = string(task.ResourceRequestType)
		view.Shared = task.IsSharedGPURequest()
		view.gpus = task.ResReq.GPUs()
		view.portion = task.ResReq.GpuFractionalPortion()
		view.GPUs, view.Portion = fstr(view.gpus), fstr(view.portion)
		view.Memory = task.ResReq.GpuMemory()
		view.Devices = task.ResReq.GetNumOfGpuDevices()
	})
	if view.Panic != "" {
		task = nil
	}
	return view, task
}

type noAffinity struct{}

func (noAffinity) AddPod(*v1.Pod)                   {}
func (noAffinity) RemovePod(*v1.Pod) error          { return nil }
func (noAffinity) HasPodsWithPodAffinity() bool     { return false }
func (noAffinity) HasPodsWithPodAntiAffinity() bool { return false }
func (noAffinity) Name() string                     { return nodeName }

// acceptOnNode lets the scheduler's real NodeInfo accept the task the way Statement.Allocate does (status
// Allocated, GPU groups chosen, NodeInfo.AddTask -> setAcceptedResources), so that AcceptedResource and
// ResourceReceivedType - the inputs of the BindRequest - are computed by the scheduler's code.
func acceptOnNode(task *pod_info.PodInfo, groups []string, view *SchedView) string {
	return guard("NodeInfo.AddTask", func() {
		vm := resource_info.NewResourceVectorMap()
		ni := node_info.NewNodeInfo(theNode, noAffinity{}, vm)
		task.SetVectorMap(vm)
		task.Status = pod_status.Allocated
		task.NodeName = nodeName
		task.GPUGroups = groups
		if err := ni.AddTask(task); err != nil {
			panic(err)
		}
		view.AccPortion = fstr(task.AcceptedResource.GpuFractionalPortion())
		view.AccDevices = task.AcceptedResource.GetNumOfGpuDevices()
		view.AccType = string(task.ResourceReceivedType)
	})
}

// envContainer returns the name of the container whose env references config map cm (all three keys), "" if none
// or more than one.
func envContainer(p *v1.Pod, cm string) string {
	found := ""
	n := 0
	check := func(cs []v1.Container) {
		for _, c := range cs {
			keys := map[string]bool{}
			for _, e := range c.Env {
				if e.ValueFrom != nil && e.ValueFrom.ConfigMapKeyRef != nil && e.ValueFrom.ConfigMapKeyRef.Name == cm {
					keys[e.ValueFrom.ConfigMapKeyRef.Key] = true
				}
			}
			if keys["NVIDIA_VISIBLE_DEVICES"] && keys["GPU_PORTION"] {
				found = c.Name
				n++
			}
		}
	}
	check(p.Spec.Containers)
	check(p.Spec.InitContainers)
	if n != 1 {
		if n > 1 {
			return "(" + strconv.Itoa(n) + " containers)"
		}
		return ""
	}
	return found
}

func short(s string, n int) string {
	s = strings.ReplaceAll(s, "\n", " | ")
	if len(s) > n {
		return s[:n] + "..."
	}
	return s
}
