package c19

import (
	"fmt"
	"math/rand/v2"
	"strings"
)

// Annotation keys (spelled out here on purpose: the oracle side must not import the SUT's constants).
const (
	annFraction  = "gpu-fraction"
	annMemory    = "gpu-memory"
	annDevices   = "gpu-fraction-num-devices"
	annContainer = "gpu-fraction-container-name"
	annCMPrefix  = "runai/shared-gpu-configmap"
	gpuResource  = "nvidia.com/gpu"
)

// ContIn is one generated container.
type ContIn struct {
	Name      string `json:"name"`
	GPUReq    *int64 `json:"gpuReq,omitempty"`
	GPULim    *int64 `json:"gpuLim,omitempty"`
	PresetEnv bool   `json:"presetEnv,omitempty"` // container already carries a literal NVIDIA_VISIBLE_DEVICES env var
}

// PodIn is the canonical generated input of one pod.
type PodIn struct {
	Name       string            `json:"name"`
	Ann        map[string]string `json:"annotations,omitempty"`
	Class      map[string]string `json:"class,omitempty"` // annotation key -> grammar class the value was drawn from
	Containers []ContIn          `json:"containers"`
	Init       []ContIn          `json:"initContainers,omitempty"`
	Owner      string            `json:"owner,omitempty"`
	Shape      string            `json:"shape"` // "tame" (mostly valid) | "wild"
}

type cls struct {
	name string
	w    int
	vals []string
}

var mutationSeeds = []string{"0.5", "1", "0.25", "4096"}

const mutationAlphabet = "0123456789.eE+-xXpP_ \tnNaAiIfF,"

// fraction grammar -----------------------------------------------------------------------------
var fracClasses = []cls{
	{"valid2", 30, []string{"0.5", "0.25", "0.1", "0.75", "0.99", "0.01", "0.33", "0.05", "0.9", "0.50"}},
	{"valid3", 8, []string{"0.125", "0.333", "0.996", "0.005", "0.0051", "0.015", "0.994", "0.9949", "0.9999999999999999"}},
	{"subres", 5, []string{"0.004", "0.001", "0.0049", "1e-5", "0.00001", "4.9e-324", "0x1p-1074", "1e-323", "0x1p-10"}},
	{"one", 5, []string{"1", "1.0", "1.00", "1.", "1e0", "0.99999999999999999999", "0x1p0", "10e-1"}},
	{"gt1", 4, []string{"1.5", "2", "1.0000001", "100", "1.01", "0x1p1"}},
	{"zero", 4, []string{"0", "0.0", "-0", "+0", "0e10", "1e-400", ".0", "0x0p0", "0.1e-999999999999"}},
	{"neg", 3, []string{"-0.5", "-1", "-1e-5", "-0.25", "-0x1p-2"}},
	{"signed", 3, []string{"+0.5", "+.5", "+0.25", "+5e-1"}},
	{"altform", 5, []string{".5", "5e-1", "0.5e0", "50e-2", "5E-1", "0.5e+0", "00.5", "0.50000000000000000000000001", "25e-2"}},
	{"hex", 5, []string{"0x1p-2", "0X1P-1", "0x.8p0", "0x1.8p-1", "0x8p-4", "0x1p-1", "0x0.4p0"}},
	{"nan", 6, []string{"NaN", "nan", "NAN", "nAn", "+NaN", "-nan", "NaN "}},
	{"inf", 5, []string{"Inf", "+Inf", "-Inf", "inf", "infinity", "Infinity", "+infinity", "INF", "-INFINITY", "Infinit"}},
	{"blank", 4, []string{" 0.5", "0.5 ", "\t0.5", "0.5\n", " ", " 0.5 ", "0. 5"}},
	{"underscore", 4, []string{"0.2_5", "0_0.5", "1_0", "0._5", "_0.5", "0x_1p-2", "0.5_", "0__0.5", "0.7_5"}},
	{"overflow", 4, []string{"1e309", "1e400", "-1e309", "1e999999999", "0x1p1024", "1.8e308", "1e-309"}},
	{"intbound", 3, []string{"9223372036854775807", "9223372036854775808", "18446744073709551615", "18446744073709551616", "4294967296"}},
	{"empty", 3, []string{""}},
	{"garbage", 5, []string{"abc", "0.5x", "0,5", "½", "0.5.5", "1/2", "50%", "0.5f", "0x", "e5", "--0.5", "0.5e", "0.5e+", "0b1", "0o7", "٠.٥", "0.5\x00"}},
	{"mutation", 10, nil},
}

// integer grammar (memory, device count) ---------------------------------------------------------
func intClasses(valid []string) []cls {
	return []cls{
		{"valid", 34, valid},
		{"zero", 5, []string{"0", "00", "-0", "+0", "0000"}},
		{"neg", 4, []string{"-1", "-4096", "-9223372036854775808", "-2"}},
		{"signed", 4, []string{"+4096", "+1", "+2", "+8"}},
		{"leadzero", 3, []string{"0004096", "01", "002", "08"}},
		{"decimal", 5, []string{"4096.0", "40.96e2", "4e3", "2.0", "1.5", "2.", "1e0", "0.5"}},
		{"hex", 3, []string{"0x1000", "0x2", "0X10", "0o17", "0b10", "0x1p1"}},
		{"underscore", 3, []string{"4_096", "1_0", "_2", "2_"}},
		{"int63", 4, []string{"9223372036854775807", "9223372036854775806", "4611686018427387904"}},
		{"uint64", 6, []string{"9223372036854775808", "18446744073709551615", "9223372036854775809", "10000000000000000000"}},
		{"over64", 3, []string{"18446744073709551616", "99999999999999999999", "340282366920938463463374607431768211456"}},
		{"int32", 3, []string{"2147483647", "2147483648", "4294967295", "4294967296"}},
		{"blank", 3, []string{" 4096", "4096 ", "\t2", "2\n", " "}},
		{"empty", 3, []string{""}},
		{"nonfinite", 3, []string{"NaN", "Inf", "+Inf", "infinity", "nan"}},
		{"garbage", 4, []string{"abc", "4096Mi", "4Gi", "4k", "two", "2,0", "٢", "2x", "1e", "--2"}},
		{"mutation", 10, nil},
	}
}

var memClasses = intClasses([]string{"4096", "1", "1024", "16384", "500", "100", "20000", "40000", "8000", "2048", "40001", "81920"})
var devClasses = intClasses([]string{"1", "2", "3", "4", "8", "2", "2", "5", "16"})

func pickCls(r *rand.Rand, cs []cls) cls {
	tot := 0
	for _, c := range cs {
		tot += c.w
	}
	x := r.IntN(tot)
	for _, c := range cs {
		x -= c.w
		if x < 0 {
			return c
		}
	}
	return cs[0]
}

func mutate(r *rand.Rand, s string) string {
	n := 1 + r.IntN(2)
	b := []byte(s)
	for i := 0; i < n; i++ {
		ch := mutationAlphabet[r.IntN(len(mutationAlphabet))]
		switch op := r.IntN(4); {
		case op == 0 && len(b) > 0: // delete
			p := r.IntN(len(b))
			b = append(b[:p:p], b[p+1:]...)
		case op == 1 && len(b) > 0: // replace
			b[r.IntN(len(b))] = ch
		case op == 2 && len(b) > 1: // swap neighbours
			p := r.IntN(len(b) - 1)
			b[p], b[p+1] = b[p+1], b[p]
		default: // insert
			p := r.IntN(len(b) + 1)
			b = append(b[:p:p], append([]byte{ch}, b[p:]...)...)
		}
	}
	return string(b)
}

func draw(r *rand.Rand, cs []cls) (val, class string) {
	c := pickCls(r, cs)
	if c.vals == nil {
		return mutate(r, mutationSeeds[r.IntN(len(mutationSeeds))]), c.name
	}
	return c.vals[r.IntN(len(c.vals))], c.name
}

func drawValid(r *rand.Rand, cs []cls) (val, class string) {
	c := cs[0]
	return c.vals[r.IntN(len(c.vals))], c.name
}

func i64(v int64) *int64 { return &v }

// genPod draws one pod. name must be unique inside the case.
func genPod(r *rand.Rand, name string) *PodIn {
	p := &PodIn{Name: name, Ann: map[string]string{}, Class: map[string]string{}}
	set := func(key string, cs []cls, valid bool) {
		if valid {
			p.Ann[key], p.Class[key] = drawValid(r, cs)
		} else {
			p.Ann[key], p.Class[key] = draw(r, cs)
		}
	}
	// containers
	nc := 1 + r.IntN(3)
	for i := 0; i < nc; i++ {
		p.Containers = append(p.Containers, ContIn{Name: fmt.Sprintf("c%d", i)})
	}
	if r.Float64() < 0.35 {
		ni := 1 + r.IntN(2)
		for i := 0; i < ni; i++ {
			p.Init = append(p.Init, ContIn{Name: fmt.Sprintf("init%d", i)})
		}
	}
	tame := r.Float64() < 0.45
	if tame {
		p.Shape = "tame"
		// one sharing annotation, mostly valid, sometimes one of them wild
		wildOne := r.Float64() < 0.25
		if r.Float64() < 0.6 {
			set(annFraction, fracClasses, !(wildOne && r.Float64() < 0.6))
		} else {
			set(annMemory, memClasses, !(wildOne && r.Float64() < 0.6))
		}
		if r.Float64() < 0.35 {
			set(annDevices, devClasses, !(wildOne && r.Float64() < 0.7))
		}
		if r.Float64() < 0.08 { // a whole-GPU request next to the annotation
			genGPUs(r, p)
		}
	} else {
		p.Shape = "wild"
		if r.Float64() < 0.55 {
			set(annFraction, fracClasses, r.Float64() < 0.2)
		}
		if r.Float64() < 0.35 {
			set(annMemory, memClasses, r.Float64() < 0.2)
		}
		if r.Float64() < 0.35 {
			set(annDevices, devClasses, r.Float64() < 0.3)
		}
		if r.Float64() < 0.35 {
			genGPUs(r, p)
		}
	}
	// container selection
	switch x := r.Float64(); {
	case x < 0.60:
	case x < 0.75:
		p.Ann[annContainer] = p.Containers[r.IntN(len(p.Containers))].Name
		p.Class[annContainer] = "regular"
	case x < 0.85 && len(p.Init) > 0:
		p.Ann[annContainer] = p.Init[r.IntN(len(p.Init))].Name
		p.Class[annContainer] = "init"
	case x < 0.95:
		p.Ann[annContainer] = []string{"nope", "C0", "c0 ", "init9", "c9"}[r.IntN(5)]
		p.Class[annContainer] = "missing"
	default:
		p.Ann[annContainer] = ""
		p.Class[annContainer] = "emptyname"
	}
	if r.Float64() < 0.06 {
		all := append(append([]*ContIn{}, ptrs(p.Containers)...), ptrs(p.Init)...)
		all[r.IntN(len(all))].PresetEnv = true
	}
	if r.Float64() < 0.03 {
		p.Ann[annCMPrefix] = "preset-" + name
	}
	if r.Float64() < 0.2 {
		p.Owner = "owner-" + strings.Repeat("x", r.IntN(70))
	}
	return p
}

func ptrs(cs []ContIn) []*ContIn {
	out := make([]*ContIn, len(cs))
	for i := range cs {
		out[i] = &cs[i]
	}
	return out
}

// genGPUs puts nvidia.com/gpu requests/limits on containers: equal, request-only, limit-only, unequal,
// on init containers, on several containers.
func genGPUs(r *rand.Rand, p *PodIn) {
	one := func(c *ContIn) {
		k := int64(1 + r.IntN(4))
		switch x := r.Float64(); {
		case x < 0.6:
			c.GPUReq, c.GPULim = i64(k), i64(k)
		case x < 0.72:
			c.GPUReq = i64(k)
		case x < 0.84:
			c.GPULim = i64(k)
		case x < 0.94:
			c.GPUReq, c.GPULim = i64(k), i64(k+1+int64(r.IntN(2)))
		default:
			c.GPUReq, c.GPULim = i64(0), i64(0)
		}
	}
	switch x := r.Float64(); {
	case x < 0.55:
		one(&p.Containers[r.IntN(len(p.Containers))])
	case x < 0.75 && len(p.Init) > 0:
		one(&p.Init[r.IntN(len(p.Init))])
	case x < 0.9:
		for i := range p.Containers {
			if r.Float64() < 0.7 {
				one(&p.Containers[i])
			}
		}
	default:
		one(&p.Containers[0])
		if len(p.Init) > 0 {
			one(&p.Init[0])
		}
	}
}
