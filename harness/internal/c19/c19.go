// Package c19 is the check of property C19: admission, scheduler and binder agree on GPU requests.
//
// A 3-way differential oracle over generated pods. For every pod the REAL code of three components runs:
//   - admission: the gpusharing plugin behind plugins.KaiAdmissionPlugins (cmd/admission wiring), Mutate then
//     Validate as the API server orders the webhooks, with GPU sharing enabled and disabled;
//   - scheduler: pod_info.NewTaskInfo (what the snapshot builds) and, for admitted sharing pods, the real
//     NodeInfo.AddTask (setAcceptedResources) that yields the BindRequest's received GPU count / portion;
//   - binder: ValidateGpuRequests, and a real binding.Binder.Bind with the real reservation service and the real
//     gpusharing binder plugin on a one-node in-memory store; the resulting config map is read back.
//
// Once per case a handful of admitted pods additionally go through ONE real scheduler cycle whose real
// BindRequests are bound by the real binder (and checked against the harness' copy of createBindRequest).
package c19

import (
	"crypto/sha256"
	"encoding/hex"
	"encoding/json"
	"fmt"
	"os"
	"sort"
	"strings"
	"time"

	v1 "k8s.io/api/core/v1"

	"github.com/NVIDIA/KAI-scheduler/pkg/scheduler/api/pod_info"

	"verif/harness/internal/gen"
	"verif/harness/internal/run"
)

type check struct{}

// New returns the C19 check.
func New() run.Check { return &check{} }

const podsPerCase = 100

// savedSigs: signature -> replay file already written by this worker process.
var savedSigs = map[string]string{}

func (*check) ID() string    { return "C19" }
func (*check) Level() string { return "exploration" }
func (*check) NumCases(tier string) int {
	if tier == "thorough" {
		return 10000 // 1 000 000 pods
	}
	return 400 // 20 000 pods
}
func (*check) Rule() string {
	return fmt.Sprintf("a case = %d pods drawn from the PCG stream (seed, case index): annotation strings for gpu-fraction / gpu-memory / gpu-fraction-num-devices from a grammar "+
		"(decimal, sign, exponent, hex-float, NaN/Inf spellings, blanks, underscores, overflow/underflow, 63/64-bit boundaries, empty, garbage, 1-2 character mutations of 0.5/1/0.25/4096), "+
		"combined with nvidia.com/gpu requests/limits (equal, request-only, limit-only, unequal, several containers, init containers) and gpu-fraction-container-name naming an existing / init / missing container. "+
		"Per pod: real admission plugin (Mutate, Validate, sharing on and off, Mutate twice), real pod_info.NewTaskInfo, and for admitted sharing pods with 1..%d devices a real Binder.Bind on a one-node store; "+
		"per case (every 4th in the thorough tier) one real scheduler cycle + real binder over up to %d admitted pods. "+
		"Non-trivial: a case with at least one admitted sharing pod whose config map was read back after a real bind AND at least one rejected pod with a malformed sharing annotation. Distinct = hash of the case's pod inputs.",
		podsPerCase, maxDevices, maxCyclePods)
}
func (*check) Assumptions() []string {
	return []string{
		"admission = Mutate then Validate of the gpusharing plugin (the runtime-enforcement plugin is not configured); a Mutate error rejects the pod",
		"the denoted value of an annotation is read by the oracle with math/big (Go literal syntax, optional sign) and a literal table for NaN/Inf spellings, never with strconv",
		"fraction tolerance 0.005 (2-decimal resolution); a gpu-memory request of m MiB on a 40000 MiB device must be materialised as a portion in [m/40000, m/40000+0.01]",
		"outside the per-case real cycle the BindRequest is assembled by the harness from the scheduler's own PodInfo after the real NodeInfo.AddTask (cache.createBindRequest is unexported); the copy is compared with the real one in every real cycle",
		"binder without the k8s volume-binding/DRA plugins; pods/binding, initial watch events and the reservation pod's GPU index annotation are provided by the harness",
		"pods whose nvidia.com/gpu requests and limits differ or are one-sided are generated although an API server would refuse them; they only take part in clauses that do not depend on whole-GPU amounts",
		"pods asking for more than 8 fractional devices or more GPU memory than a device has are not bound (counted as binder_skipped_*)",
	}
}
func (*check) CaseTimeout() time.Duration { return 180 * time.Second }
func (*check) CrashIsViolation() bool     { return true }

// replayFile is the replay format.
type replayFile struct {
	Property   string          `json:"property"`
	Seed       int64           `json:"seed"`
	Index      int             `json:"index"`
	Tier       string          `json:"tier"`
	Pods       []*PodIn        `json:"pods"`          // the whole case (input)
	Violating  []*PodRecord    `json:"violatingPods"` // input + three verdicts of every pod with a finding
	Cycle      *cycleResult    `json:"realCycle,omitempty"`
	Violations []run.Violation `json:"violations"`
}

func (c *check) RunCase(seed int64, index int, tier string, env *run.Env) run.CaseResult {
	r := gen.NewRand(seed, index, 19)
	pods := make([]*PodIn, podsPerCase)
	for i := range pods {
		pods[i] = genPod(r, fmt.Sprintf("p%d-%d", index, i))
	}
	withCycle := tier != "thorough" || index%4 == 0
	return c.runPods(seed, index, tier, pods, withCycle, env)
}

// Replay re-runs the pods stored in a replay file.
func (c *check) Replay(path string, env *run.Env) run.CaseResult {
	b, err := os.ReadFile(path)
	if err != nil {
		return run.CaseResult{Verdict: run.Inconclusive, Note: err.Error()}
	}
	var rp replayFile
	if err := json.Unmarshal(b, &rp); err != nil || len(rp.Pods) == 0 {
		return run.CaseResult{Verdict: run.Inconclusive, Note: "bad replay file"}
	}
	return c.runPods(rp.Seed, rp.Index, rp.Tier, rp.Pods, true, env)
}

func annClass(in *PodIn, key string) string {
	if c, ok := in.Class[key]; ok {
		return c
	}
	if _, ok := in.Ann[key]; ok {
		return "replayed"
	}
	return ""
}

func (c *check) runPods(seed int64, index int, tier string, pods []*PodIn, withCycle bool, env *run.Env) run.CaseResult {
	initSUT()
	res := run.CaseResult{Verdict: run.Held, Counters: map[string]int{}}
	cnt := res.Counters
	jb, _ := json.Marshal(pods)
	h := sha256.Sum256(jb)
	res.Hash = hex.EncodeToString(h[:8])
	if env != nil && env.WorkDir != "" { // input on disk before running
		_ = os.WriteFile(fmt.Sprintf("%s/case-C19-%d.json", env.WorkDir, index), jb, 0o644)
	}

	var be *binderEnv
	recs := make([]*PodRecord, 0, len(pods))
	mutated := map[string]*v1.Pod{}
	groupSeq := 0
	for _, in := range pods {
		rec := &PodRecord{In: in}
		recs = append(recs, rec)
		rec.interpret()
		raw := in.pod()

		// 1. admission
		var m1 *v1.Pod
		rec.Adm, m1, rec.Idem = runAdmission(admOn, raw)
		rec.AdmOff, _, _ = runAdmission(admOff, raw)
		if m1 != nil {
			mutated[in.Name] = m1
		}
		// 2. scheduler: it sees the stored (= mutated) pod; for rejected pods, the pod as submitted
		seen := raw
		if m1 != nil {
			seen = m1
		}
		var task *pod_info.PodInfo
		rec.Sched, task = runScheduler(seen.DeepCopy())

		// 3. binder: admitted pods the scheduler will place as shared-GPU allocations
		switch {
		case !rec.Adm.Accepted || !rec.sharing:
		case task == nil || !rec.Sched.Shared:
			rec.Bind.Skipped = "scheduler-does-not-share"
		case rec.Sched.Devices < 1 || rec.Sched.Devices > maxDevices:
			rec.Bind.Skipped = "devices-out-of-1..8"
		case rec.Sched.Memory > nodeGPUMem:
			rec.Bind.Skipped = "memory-exceeds-device"
		case !rec.valid:
			// whether the scheduler ever places such a pod is decided by the real cycle (sampled first), not forced here
			rec.Bind.Skipped = "invalid-request-left-to-real-cycle"
		default:
			groups := make([]string, rec.Sched.Devices)
			for i := range groups {
				groups[i] = fmt.Sprintf("grp-%d", groupSeq)
				groupSeq++
			}
			if p := acceptOnNode(task, groups, &rec.Sched); p != "" {
				rec.Bind.Skipped = "scheduler-accept-panicked"
				rec.add("scheduler-panic", "scheduler-panic:NodeInfo.AddTask", "%s", short(p, 800))
				break
			}
			if be == nil {
				var err error
				if be, err = newBinderEnv(); err != nil {
					res.Verdict, res.Note = run.Inconclusive, "binder env: "+err.Error()
					return res
				}
			}
			rec.Bind = be.bind(m1, bindRequestFor(task), false)
			be.cleanup()
		}
		rec.judge(nodeGPUMem)
	}

	// 4. one real scheduler cycle + real binder over a sample
	var cyc *cycleResult
	if withCycle {
		cr, _ := runCycleSample(seed, index, recs, mutated, gen.NewRand(seed, index, 20))
		cyc = &cr
		if cr.Ran {
			cnt["cycle.ran"]++
			cnt["cycle.pods"] += len(cr.Pods)
			cnt["cycle.placed_and_bound_by_real_binder"] += len(cr.Placed)
			cnt["cycle.unplaced"] += len(cr.Unplaced)
		}
		if cr.Err != "" {
			cnt["cycle.harness_error"]++
		}
	}

	// 5. judge + count
	var viols []run.Violation
	var bad []*PodRecord
	acceptedSharingBound, rejectedMalformed := 0, 0
	for _, rec := range recs {
		rec.judgeCycle(nodeGPUMem)
		in := rec.In
		cnt["pods"]++
		if rec.CycleOutcome != "" {
			cnt["cycle.pod_"+rec.CycleOutcome]++
			if !rec.valid {
				cnt["cycle.invalid_request_"+rec.CycleOutcome]++
			}
		}
		cnt["pods."+in.Shape]++
		verdict := "rejected"
		if rec.Adm.Accepted {
			verdict = "accepted"
		}
		cnt["adm."+verdict]++
		if rec.Adm.Mutate != "" {
			cnt["adm.rejected_by_mutate"]++
		}
		if rec.AdmOff.Accepted {
			cnt["admoff.accepted"]++
		} else {
			cnt["admoff.rejected"]++
		}
		if rec.Sched.Shared {
			cnt["sched.shared"]++
			cnt["sched.type."+rec.Sched.ReqType]++
		}
		for key, short := range map[string]string{annFraction: "frac", annMemory: "mem", annDevices: "dev", annContainer: "cont"} {
			cl := annClass(in, key)
			if cl == "" {
				continue
			}
			cnt[short+"."+cl+"."+verdict]++
			if rec.Sched.Shared {
				cnt[short+"."+cl+".sched_shared"]++
			}
		}
		if rec.Idem != "n/a" {
			cnt["mutate.twice_compared"]++
			if rec.sharing {
				cnt["mutate.twice_compared_sharing"]++
			}
		}
		if rec.Bind.Ran {
			cnt["binder.binds"]++
			if rec.Bind.BindErr == "" {
				cnt["binder.bind_ok_configmap_read"]++
			} else {
				cnt["binder.bind_failed"]++
			}
		} else if rec.Bind.Skipped != "" {
			cnt["binder.skipped."+rec.Bind.Skipped]++
		}
		if rec.Adm.Accepted && rec.sharing && rec.Bind.Ran && rec.Bind.BindErr == "" {
			acceptedSharingBound++
		}
		if !rec.Adm.Accepted && rec.sharing && !rec.valid {
			rejectedMalformed++
		}
		if len(rec.fs) > 0 {
			bad = append(bad, rec)
			for _, f := range rec.fs {
				cnt["finding."+f.Sig]++
				viols = append(viols, run.Violation{Property: "C19", Oracle: f.Oracle, Sig: f.Sig, Msg: f.Msg})
			}
		}
	}
	if cyc != nil {
		if cyc.Panic != "" {
			viols = append(viols, run.Violation{Property: "C19", Oracle: "cycle-panic", Sig: "cycle-panic:" + strings.SplitN(cyc.Panic, " | ", 2)[0],
				Msg: fmt.Sprintf("real scheduler cycle over admitted pods %v panicked: %s", cyc.Pods, cyc.Panic)})
		}
		if cyc.Err != "" {
			res.Note = "real cycle not evaluated: " + cyc.Err
		}
	}
	res.NonTrivial = acceptedSharingBound > 0 && rejectedMalformed > 0
	if res.NonTrivial {
		cnt["cases.nontrivial"]++
	}

	// sample: one admitted+bound pod and one rejected malformed pod
	var sample []*PodRecord
	for _, want := range []func(*PodRecord) bool{
		func(r *PodRecord) bool { return r.Adm.Accepted && r.sharing && r.Bind.Ran && r.Bind.BindErr == "" },
		func(r *PodRecord) bool { return !r.Adm.Accepted && r.sharing && !r.valid },
	} {
		for _, rec := range recs {
			if want(rec) {
				sample = append(sample, rec)
				break
			}
		}
	}
	res.Sample = map[string]any{"seed": seed, "index": index, "pods": len(pods), "examples": sample, "realCycle": cyc}

	if len(viols) > 0 {
		viols = dedupe(viols)
		res.Verdict = run.Violated
		res.Violations = viols
		if env != nil {
			// one replay file per new signature and worker process; a case that only repeats signatures already
			// on disk points at that file (the case itself is regenerable with --only <index>)
			fresh := false
			for _, v := range viols {
				if _, ok := savedSigs[v.Sig]; !ok {
					fresh = true
				}
			}
			if fresh {
				res.Replay = env.SaveReplay("C19", seed, index, replayFile{Property: "C19", Seed: seed, Index: index, Tier: tier, Pods: pods, Violating: bad, Cycle: cyc, Violations: viols})
				for _, v := range viols {
					if _, ok := savedSigs[v.Sig]; !ok {
						savedSigs[v.Sig] = res.Replay
					}
				}
			} else {
				res.Replay = savedSigs[viols[0].Sig]
			}
		}
	}
	return res
}

// dedupe keeps, per case, the first violation of every signature (the replay file has all violating pods) and
// appends the number of further pods with the same signature.
func dedupe(vs []run.Violation) []run.Violation {
	n := map[string]int{}
	first := map[string]int{}
	var out []run.Violation
	for _, v := range vs {
		if _, ok := first[v.Sig]; !ok {
			first[v.Sig] = len(out)
			out = append(out, v)
		}
		n[v.Sig]++
	}
	for sig, i := range first {
		if n[sig] > 1 {
			out[i].Msg += fmt.Sprintf(" [+%d more pods with this signature in the case]", n[sig]-1)
		}
	}
	sort.SliceStable(out, func(i, j int) bool { return out[i].Sig < out[j].Sig })
	return out
}
