package c19

import (
	"fmt"
	"math"
	"math/big"
	"strings"
)

// The oracle's own reading of annotation strings. It deliberately does not use strconv (what the three
// components use): numbers are read by math/big's scanner, the special spellings by a literal table.

type numKind int

const (
	numAbsent numKind = iota
	numUnparseable
	numNaN
	numInf
	numFinite
)

type denoted struct {
	kind numKind
	val  *big.Float // numFinite (and sign of numInf in neg)
	neg  bool
}

func (d denoted) String() string {
	switch d.kind {
	case numAbsent:
		return "absent"
	case numUnparseable:
		return "unparseable"
	case numNaN:
		return "NaN"
	case numInf:
		if d.neg {
			return "-Inf"
		}
		return "+Inf"
	}
	return d.val.Text('g', 25)
}

// denoteReal: what real number (if any) a string denotes under the most liberal reading any of the
// components could have (Go float literal syntax incl. hex floats and digit-separating underscores,
// optional sign, the IEEE special spellings). No surrounding blanks.
func denoteReal(s string, present bool) denoted {
	if !present {
		return denoted{kind: numAbsent}
	}
	body, neg := s, false
	if strings.HasPrefix(body, "+") {
		body = body[1:]
	} else if strings.HasPrefix(body, "-") {
		body, neg = body[1:], true
	}
	switch strings.ToLower(body) {
	case "nan":
		return denoted{kind: numNaN}
	case "inf", "infinity":
		return denoted{kind: numInf, neg: neg}
	}
	f, _, err := new(big.Float).SetPrec(2200).SetMode(big.ToNearestEven).Parse(clampExponent(s), 0)
	if err != nil {
		return denoted{kind: numUnparseable}
	}
	if f.IsInf() {
		return denoted{kind: numInf, neg: f.Signbit()}
	}
	return denoted{kind: numFinite, val: f, neg: f.Signbit()}
}

// clampExponent rewrites an exponent of more than 5 digits to +-99999 (math/big would otherwise compute
// 10^999999999); every comparison the oracle makes (sign, >1, resolution) is unaffected.
func clampExponent(s string) string {
	hex := strings.HasPrefix(strings.TrimLeft(s, "+-"), "0x") || strings.HasPrefix(strings.TrimLeft(s, "+-"), "0X")
	marks := "eE"
	if hex {
		marks = "pP"
	}
	i := strings.LastIndexAny(s, marks)
	if i < 0 || i+1 >= len(s) {
		return s
	}
	exp := s[i+1:]
	sign := ""
	if exp[0] == '+' || exp[0] == '-' {
		sign, exp = exp[:1], exp[1:]
	}
	digits := 0
	for _, ch := range exp {
		if ch == '_' {
			continue
		}
		if ch < '0' || ch > '9' {
			return s
		}
		digits++
	}
	if digits <= 5 {
		return s
	}
	return s[:i+1] + sign + "99999"
}

// denoteInt: the integer a string denotes as a plain base-10 numeral with optional sign.
func denoteInt(s string, present bool) (kind numKind, v *big.Int) {
	if !present {
		return numAbsent, nil
	}
	if s == "" {
		return numUnparseable, nil
	}
	for i, ch := range s {
		if ch >= '0' && ch <= '9' {
			continue
		}
		if i == 0 && (ch == '+' || ch == '-') && len(s) > 1 {
			continue
		}
		// not an integer numeral; say whether it is a non-finite spelling (for the report only)
		d := denoteReal(s, true)
		if d.kind == numNaN || d.kind == numInf {
			return d.kind, nil
		}
		return numUnparseable, nil
	}
	v, ok := new(big.Int).SetString(s, 10)
	if !ok {
		return numUnparseable, nil
	}
	return numFinite, v
}

var (
	bigOne     = big.NewFloat(1)
	maxInt64   = new(big.Int).SetInt64(math.MaxInt64)
	fracTol    = 0.005 // the system's 2-decimal resolution
	memPortTol = 0.01  // memory->portion is rounded up to 2 decimals by the scheduler
)

// SchedView is what the scheduler's PodInfo said about the pod (floats as strings: NaN is not JSON).
type SchedView struct {
	ReqType    string `json:"requestType"`
	Shared     bool   `json:"isSharedGPURequest"`
	GPUs       string `json:"gpus"`
	Portion    string `json:"portion"`
	Memory     int64  `json:"gpuMemory"`
	Devices    int64  `json:"devices"`
	AccPortion string `json:"acceptedPortion,omitempty"`
	AccDevices int64  `json:"acceptedDevices,omitempty"`
	AccType    string `json:"receivedType,omitempty"`
	Panic      string `json:"panic,omitempty"`
	gpus       float64
	portion    float64
}

// AdmView is the webhook pipeline verdict (mutating webhook first, then the validating webhook on its result).
type AdmView struct {
	ValidateRaw string `json:"validateRaw"`     // Validate on the pod as submitted ("" = accepted)
	Mutate      string `json:"mutate"`          // error of Mutate ("" = ok)
	Validate    string `json:"validateMutated"` // Validate on the mutated pod
	Accepted    bool   `json:"accepted"`
	Update      string `json:"validateUpdate"` // validating webhook, UPDATE of a stored plain pod into the mutated pod
}

// BindView is what the binder did.
type BindView struct {
	Ran            bool     `json:"ran"`
	Skipped        string   `json:"skipped,omitempty"`
	ValidateErr    string   `json:"validateErr,omitempty"`
	BindErr        string   `json:"bindErr,omitempty"`
	ReqCount       int      `json:"bindRequestCount,omitempty"`
	ReqPortion     string   `json:"bindRequestPortion,omitempty"`
	Groups         []string `json:"selectedGroups,omitempty"`
	Indexes        []string `json:"reservedIndexes,omitempty"` // what the fake kubelet handed out for those groups
	CMName         string   `json:"configMap,omitempty"`
	GPUPortion     string   `json:"GPU_PORTION,omitempty"`
	NumOfGpus      string   `json:"RUNAI_NUM_OF_GPUS,omitempty"`
	VisibleDevices string   `json:"NVIDIA_VISIBLE_DEVICES,omitempty"`
	HasVisible     bool     `json:"hasVisibleDevices,omitempty"`
	GroupLabels    []string `json:"podGroupLabels,omitempty"`
	NodeName       string   `json:"nodeName,omitempty"`
	ReceivedType   string   `json:"receivedTypeAnnotation,omitempty"`
	EnvContainer   string   `json:"envContainer,omitempty"` // container that references the config map
	ReqType        string   `json:"bindRequestReceivedType,omitempty"`
	FromCycle      bool     `json:"fromRealCycle,omitempty"`
}

// Finding is one violated clause.
type Finding struct {
	Oracle string
	Sig    string
	Msg    string
}

// PodRecord is everything observed for one pod.
type PodRecord struct {
	In           *PodIn    `json:"input"`
	Adm          AdmView   `json:"admissionSharingEnabled"`
	AdmOff       AdmView   `json:"admissionSharingDisabled"`
	Sched        SchedView `json:"scheduler"`
	Bind         BindView  `json:"binder"`
	BindCycle    *BindView `json:"binderAfterRealCycle,omitempty"`
	CycleOutcome string    `json:"realCycleOutcome,omitempty"` // "" (not sampled) | placed | unplaced
	Idem         string    `json:"mutateIdempotence"`          // "same" | "n/a" | description of the difference
	Findings     []string  `json:"findings,omitempty"`
	// NameCollision: the bind failed because two random reservation pod names collided; the binder clauses are not judged
	NameCollision bool `json:"reservationNameCollision,omitempty"`
	fs            []Finding
	expCont       string // oracle: name of the container that must receive the share ("" = unknown/missing)
	fracD         denoted
	memK          numKind
	memV          *big.Int
	devK          numKind
	devV          *big.Int
	sharing       bool    // a sharing annotation is present
	valid         bool    // every present sharing annotation denotes an in-range finite positive quantity
	expDev        int64   // denoted device count when it fits (else -1)
	expFrac       float64 // denoted fraction (valid fraction pods)
	expMem        int64   // denoted memory when it fits (else -1)
}

func (r *PodRecord) add(oracle, sig, format string, a ...any) {
	r.fs = append(r.fs, Finding{oracle, sig, fmt.Sprintf(format, a...)})
	r.Findings = append(r.Findings, sig)
}

func q(s string) string { return fmt.Sprintf("%q", s) }

// interpret fills the oracle's own reading of the input.
func (r *PodRecord) interpret() {
	in := r.In
	fs, hasF := in.Ann[annFraction]
	ms, hasM := in.Ann[annMemory]
	ds, hasD := in.Ann[annDevices]
	r.fracD = denoteReal(fs, hasF)
	r.memK, r.memV = denoteInt(ms, hasM)
	r.devK, r.devV = denoteInt(ds, hasD)
	r.sharing = hasF || hasM
	r.expDev, r.expMem = -1, -1
	r.valid = r.sharing
	if hasF {
		ok := r.fracD.kind == numFinite && r.fracD.val.Sign() > 0 && r.fracD.val.Cmp(bigOne) <= 0
		if ok {
			r.expFrac, _ = r.fracD.val.Float64()
		}
		r.valid = r.valid && ok
	}
	if hasM {
		ok := r.memK == numFinite && r.memV.Sign() > 0
		if ok && r.memV.Cmp(maxInt64) <= 0 {
			r.expMem = r.memV.Int64()
		}
		r.valid = r.valid && ok
	}
	if hasD {
		ok := r.devK == numFinite && r.devV.Sign() > 0
		if ok && r.devV.Cmp(maxInt64) <= 0 {
			r.expDev = r.devV.Int64()
		}
		r.valid = r.valid && ok
	} else if r.sharing {
		r.expDev = 1
	}
	// container selection: the container of that name; without the annotation the first regular container
	name, has := in.Ann[annContainer]
	if !has {
		r.expCont = in.Containers[0].Name
	} else {
		for _, c := range in.Init {
			if c.Name == name {
				r.expCont = name
			}
		}
		for _, c := range in.Containers {
			if c.Name == name {
				r.expCont = name
			}
		}
	}
}

func kindWord(k numKind) string {
	switch k {
	case numNaN:
		return "NaN"
	case numInf:
		return "Inf"
	case numUnparseable:
		return "unparseable"
	case numAbsent:
		return "missing"
	}
	return "finite"
}

// wholeGPUs: the oracle's own effective whole-GPU request of a well-formed pod (requests == limits
// everywhere): max(sum of containers, each init container). ok=false if the pod is not well-formed.
func (in *PodIn) wholeGPUs() (n int64, ok bool) {
	var sum, maxInit int64
	for _, c := range in.Containers {
		if (c.GPUReq == nil) != (c.GPULim == nil) || (c.GPUReq != nil && *c.GPUReq != *c.GPULim) {
			return 0, false
		}
		if c.GPUReq != nil {
			sum += *c.GPUReq
		}
	}
	for _, c := range in.Init {
		if (c.GPUReq == nil) != (c.GPULim == nil) || (c.GPUReq != nil && *c.GPUReq != *c.GPULim) {
			return 0, false
		}
		if c.GPUReq != nil && *c.GPUReq > maxInit {
			maxInit = *c.GPUReq
		}
	}
	if maxInit > sum {
		return maxInit, true
	}
	return sum, true
}

// judge evaluates the three clauses on a completed record. nodeGPUMem is the node's per-device memory.
func (r *PodRecord) judge(nodeGPUMem int64) {
	in := r.In
	fs, hasF := in.Ann[annFraction]
	ms, hasM := in.Ann[annMemory]
	ds, hasD := in.Ann[annDevices]
	verd, inp := r.verd, r.inp
	if r.Sched.Panic != "" {
		r.add("scheduler-panic", "scheduler-panic:NewTaskInfo", "%s: %s", inp(), r.Sched.Panic)
	}

	// ---------------------------------------------------------------- clause (i): accepted => ...
	if r.Adm.Accepted {
		fracOK, memOK, devOK := true, true, true
		if hasF {
			d := r.fracD
			switch {
			case d.kind == numNaN || d.kind == numInf:
				fracOK = false
				r.add("accepted-nonfinite", "accepted-nonfinite:gpu-fraction="+kindWord(d.kind), "admission accepted gpu-fraction=%s which denotes %s. %s | %s", q(fs), d, inp(), verd())
			case d.kind == numUnparseable:
				fracOK = false
				r.add("accepted-malformed", "accepted-malformed:gpu-fraction:"+in.Class[annFraction], "admission accepted gpu-fraction=%s which is not a number. %s | %s", q(fs), inp(), verd())
			case d.val.Sign() <= 0:
				fracOK = false
				r.add("accepted-nonpositive", "accepted-nonpositive:gpu-fraction", "admission accepted gpu-fraction=%s (= %s <= 0). %s | %s", q(fs), d, inp(), verd())
			case d.val.Cmp(bigOne) > 0:
				fracOK = false
				r.add("accepted-out-of-range", "accepted-out-of-range:gpu-fraction>1", "admission accepted gpu-fraction=%s (= %s > 1). %s | %s", q(fs), d, inp(), verd())
			}
		}
		if hasM {
			switch {
			case r.memK != numFinite:
				memOK = false
				r.add("accepted-malformed", "accepted-malformed:gpu-memory:"+kindWord(r.memK)+":"+in.Class[annMemory], "admission accepted gpu-memory=%s which is not a base-10 integer. %s | %s", q(ms), inp(), verd())
			case r.memV.Sign() <= 0:
				memOK = false
				r.add("accepted-nonpositive", "accepted-nonpositive:gpu-memory", "admission accepted gpu-memory=%s <= 0. %s | %s", q(ms), inp(), verd())
			}
		}
		if hasD {
			switch {
			case r.devK != numFinite:
				devOK = false
				r.add("accepted-malformed", "accepted-malformed:gpu-fraction-num-devices:"+kindWord(r.devK)+":"+in.Class[annDevices], "admission accepted gpu-fraction-num-devices=%s which is not a base-10 integer. %s | %s", q(ds), inp(), verd())
			case r.devV.Sign() <= 0:
				devOK = false
				r.add("accepted-nonpositive", "accepted-nonpositive:gpu-fraction-num-devices", "admission accepted gpu-fraction-num-devices=%s <= 0. %s | %s", q(ds), inp(), verd())
			}
		}
		if hasF && hasM {
			r.add("accepted-ambiguous", "accepted-ambiguous:gpu-fraction+gpu-memory", "admission accepted a pod with both gpu-fraction and gpu-memory. %s | %s", inp(), verd())
		}

		// scheduler must read the same request
		switch {
		case hasF && fracOK && !hasM:
			if !r.Sched.Shared || r.Sched.ReqType != "Fraction" {
				r.add("scheduler-not-sharing", "scheduler-not-sharing:gpu-fraction:"+in.Class[annFraction], "admission accepted gpu-fraction=%s (= %s) but the scheduler does not treat the pod as a fraction request. %s | %s", q(fs), r.fracD, inp(), verd())
			} else {
				p := r.Sched.portion
				if math.IsNaN(p) || math.IsInf(p, 0) || p == 0 || math.Abs(p-r.expFrac) > fracTol {
					r.add("scheduler-disagrees", "scheduler-disagrees:portion:"+in.Class[annFraction], "gpu-fraction=%s denotes %s but the scheduler's portion is %s. %s | %s", q(fs), r.fracD, r.Sched.Portion, inp(), verd())
				}
				if r.Sched.Memory != 0 {
					r.add("scheduler-disagrees", "scheduler-disagrees:spurious-memory", "fraction request but scheduler GpuMemory()=%d. %s | %s", r.Sched.Memory, inp(), verd())
				}
				// total GPUs charged by the scheduler = devices x portion at 2-decimal resolution
				if devOK && r.expDev > 0 && r.Sched.Devices == r.expDev {
					g := r.Sched.gpus
					cents := math.Round(r.expFrac * 100)
					exp := cents * float64(r.expDev) / 100
					switch {
					case cents == 0 && !(g > 0):
						r.add("scheduler-disagrees", "scheduler-disagrees:total-gpus-zero:gpu-fraction<0.005", "gpu-fraction=%s (= %s > 0) accepted, but the scheduler's ResReq.GPUs()=%s: the pod is charged no GPU at all. %s | %s", q(fs), r.fracD, r.Sched.GPUs, inp(), verd())
					case math.IsNaN(g) || math.IsInf(g, 0) || math.Abs(g-exp) > 0.005*float64(r.expDev)+1e-6*exp:
						sig := "scheduler-disagrees:total-gpus"
						if float64(r.expDev)*100 >= math.MaxInt64/100 {
							sig += "-overflow:num-devices"
						}
						r.add("scheduler-disagrees", sig, "%d devices x gpu-fraction=%s should be %.2f GPUs but the scheduler's ResReq.GPUs()=%s. %s | %s", r.expDev, q(fs), exp, r.Sched.GPUs, inp(), verd())
					}
				}
			}
		case hasM && memOK && !hasF:
			if !r.Sched.Shared || r.Sched.ReqType != "GpuMemory" {
				sig := "scheduler-not-sharing:gpu-memory:" + in.Class[annMemory]
				if r.memV.Cmp(maxInt64) > 0 {
					sig = "scheduler-not-sharing:gpu-memory>int64"
				}
				r.add("scheduler-not-sharing", sig, "admission accepted gpu-memory=%s but the scheduler does not treat the pod as a GPU-memory request (type=%s). %s | %s", q(ms), r.Sched.ReqType, inp(), verd())
			} else if r.expMem < 0 || r.Sched.Memory != r.expMem {
				r.add("scheduler-disagrees", "scheduler-disagrees:memory:"+in.Class[annMemory], "gpu-memory=%s but the scheduler's GpuMemory()=%d. %s | %s", q(ms), r.Sched.Memory, inp(), verd())
			}
		case !hasF && !hasM:
			if r.Sched.Shared {
				r.add("scheduler-shares-without-annotation", "scheduler-shares-without-annotation", "no sharing annotation, yet the scheduler treats the pod as a sharing request. %s | %s", inp(), verd())
			}
			if n, ok := in.wholeGPUs(); ok && r.Sched.Panic == "" {
				if math.Abs(r.Sched.gpus-float64(n)) > 1e-9 || (n > 0 && r.Sched.Devices != n) {
					r.add("scheduler-disagrees", "scheduler-disagrees:whole-gpus", "containers request %d whole GPUs but the scheduler's GPUs()=%s devices=%d. %s | %s", n, r.Sched.GPUs, r.Sched.Devices, inp(), verd())
				}
			}
		}
		// device count
		if r.Sched.Shared && r.sharing && devOK && ((hasF && fracOK) || (hasM && memOK)) && !(hasF && hasM) {
			if r.expDev < 0 || r.Sched.Devices != r.expDev {
				sig := "scheduler-disagrees:device-count:" + in.Class[annDevices]
				if hasD && r.devV.Cmp(maxInt64) > 0 {
					sig = "scheduler-disagrees:device-count:num-devices>int64"
				}
				want := "1 (no annotation)"
				if hasD {
					want = q(ds)
				}
				r.add("scheduler-disagrees", sig, "gpu-fraction-num-devices=%s but the scheduler's device count is %d. %s | %s", want, r.Sched.Devices, inp(), verd())
			}
		}

		// binder
		if r.Bind.Ran {
			r.judgeBinder(&r.Bind, nodeGPUMem, inp, verd)
		}
	}

	// ---------------------------------------------------------------- clause (ii)
	if r.Sched.Shared {
		if r.Adm.Accepted && !r.valid {
			what := ""
			switch {
			case hasF && !(r.fracD.kind == numFinite && r.fracD.val.Sign() > 0 && r.fracD.val.Cmp(bigOne) <= 0):
				if r.fracD.kind == numFinite {
					what = "gpu-fraction:out-of-range"
				} else {
					what = "gpu-fraction=" + kindWord(r.fracD.kind)
				}
			case hasM && !(r.memK == numFinite && r.memV.Sign() > 0):
				what = "gpu-memory:" + in.Class[annMemory]
			default:
				what = "gpu-fraction-num-devices:" + in.Class[annDevices]
			}
			r.add("scheduler-shares-malformed-but-admitted", "scheduler-shares-malformed-but-admitted:"+what,
				"the scheduler treats the pod as a sharing request, an annotation is malformed/non-finite/out of range, and admission accepted it. %s | %s", inp(), verd())
		}
		if r.AdmOff.Accepted {
			r.add("scheduler-shares-but-admitted-when-disabled", "scheduler-shares-but-admitted-when-disabled",
				"GPU sharing disabled, the scheduler treats the pod as a sharing request, admission accepted it. %s | %s", inp(), verd())
		}
	}

	// ---------------------------------------------------------------- clause (iii)
	if r.Idem != "same" && r.Idem != "n/a" {
		sig := "mutate-not-idempotent:" + strings.SplitN(r.Idem, ":", 2)[0]
		r.add("mutate-not-idempotent", sig, "Mutate(Mutate(p)) != Mutate(p): %s. %s", r.Idem, inp())
	}
	// the validating webhook is registered for create and update: an update INTO a pod gets the verdict of its creation
	for _, av := range []struct {
		mode string
		v    AdmView
	}{{"sharing-on", r.Adm}, {"sharing-off", r.AdmOff}} {
		if av.v.Mutate == "" && av.v.Update != av.v.Validate {
			what := "update-accepts-what-create-rejects"
			if av.v.Update != "" {
				what = "update-rejects-what-create-accepts"
				if av.v.Validate != "" {
					what = "update-and-create-reject-differently"
				}
			}
			r.add("update-verdict-differs-from-create", "update-verdict-differs-from-create:"+what+":"+av.mode,
				"ValidateCreate(p)=%q but ValidateUpdate(plain pod -> p)=%q. %s", av.v.Validate, av.v.Update, inp())
		}
	}
	if (r.Adm.ValidateRaw == "") != (r.Adm.Validate == "") && r.Adm.Mutate == "" {
		r.add("validate-changes-after-mutate", "validate-changes-after-mutate", "Validate(p)=%q but Validate(Mutate(p))=%q. %s", r.Adm.ValidateRaw, r.Adm.Validate, inp())
	}
}

func (r *PodRecord) inp() string {
	in := r.In
	return fmt.Sprintf("pod %s annotations=%v containers=%s init=%s", in.Name, in.Ann, contStr(in.Containers), contStr(in.Init))
}

func (r *PodRecord) verd() string {
	return fmt.Sprintf("admission(enabled): validateRaw=%q mutate=%q validate=%q accepted=%v | admission(disabled): accepted=%v (%q) | scheduler: type=%s shared=%v gpus=%s portion=%s mem=%d devices=%d | binder: ran=%v skipped=%q bindErr=%q GPU_PORTION=%q NVIDIA_VISIBLE_DEVICES=%q",
		r.Adm.ValidateRaw, r.Adm.Mutate, r.Adm.Validate, r.Adm.Accepted, r.AdmOff.Accepted, r.AdmOff.Validate+r.AdmOff.Mutate,
		r.Sched.ReqType, r.Sched.Shared, r.Sched.GPUs, r.Sched.Portion, r.Sched.Memory, r.Sched.Devices,
		r.Bind.Ran, r.Bind.Skipped, r.Bind.BindErr, r.Bind.GPUPortion, r.Bind.VisibleDevices)
}

// judgeCycle evaluates what the real scheduler cycle + real binder did with a sampled pod.
func (r *PodRecord) judgeCycle(nodeGPUMem int64) {
	if !r.Adm.Accepted {
		return
	}
	if r.CycleOutcome == "unplaced" {
		// an admitted pod the scheduler can never place is the visible consequence of an accepted invalid request
		for i := range r.fs {
			if strings.HasPrefix(r.fs[i].Sig, "accepted-") {
				r.fs[i].Msg += " [real scheduler cycle on an empty 64-GPU node: the pod stays unplaced]"
			}
		}
	}
	if r.BindCycle == nil {
		return
	}
	r.judgeBinder(r.BindCycle, nodeGPUMem, r.inp, r.verd)
	if r.Bind.Ran && (r.Bind.ReqCount != r.BindCycle.ReqCount || r.Bind.ReqPortion != r.BindCycle.ReqPortion || r.Bind.ReqType != r.BindCycle.ReqType) {
		r.add("harness-self-check", "harness:bindrequest-copy-differs", "the harness' copy of cache.createBindRequest produced {%d %q %s} but the real scheduler cycle wrote {%d %q %s}. %s",
			r.Bind.ReqCount, r.Bind.ReqPortion, r.Bind.ReqType, r.BindCycle.ReqCount, r.BindCycle.ReqPortion, r.BindCycle.ReqType, r.inp())
	}
}

func (r *PodRecord) judgeBinder(b *BindView, nodeGPUMem int64, inp, verd func() string) {
	in := r.In
	_, hasF := in.Ann[annFraction]
	src := ""
	if b.FromCycle {
		src = " (BindRequest written by a real scheduler cycle)"
	}
	if b.ValidateErr != "" {
		r.add("binder-rejects", "binder-rejects:validate", "binder ValidateGpuRequests rejects an admitted pod: %s. %s | %s", b.ValidateErr, inp(), verd())
	}
	if b.BindErr != "" && strings.Contains(b.BindErr, "gpu-reservation-") && strings.Contains(b.BindErr, "already exists") {
		// the binder names reservation pods <prefix><5 random characters>; with hundreds of them in one store two names
		// collide now and then (1 case in 10 000). That says nothing about how the GPU request was read: not judged
		r.NameCollision = true
		return
	}
	if b.BindErr != "" {
		r.add("binder-rejects", "binder-rejects:bind:"+bindErrClass(b.BindErr), "the binder fails to bind an admitted pod the scheduler placed%s: %s. %s | %s", src, b.BindErr, inp(), verd())
		return
	}
	if b.ReqType != "Fraction" {
		// the scheduler placed an admitted sharing pod as something else; nothing GPU-related can have been materialised
		r.add("binder-disagrees", "binder-disagrees:bound-as-"+b.ReqType, "an admitted GPU-sharing pod was placed by the scheduler with receivedResourceType=%q (count=%d portion=%q) and bound to %q without any GPU share: GPU_PORTION=%q NVIDIA_VISIBLE_DEVICES=%q, group labels %v; its container still references config map keys nobody writes%s. %s | %s",
			b.ReqType, b.ReqCount, b.ReqPortion, b.NodeName, b.GPUPortion, b.VisibleDevices, b.GroupLabels, src, inp(), verd())
		return
	}
	// expected portion
	var exp, tol float64
	if hasF {
		exp, tol = r.expFrac, fracTol
	} else {
		exp, tol = float64(r.expMem)/float64(nodeGPUMem), memPortTol
	}
	pd := denoteReal(b.GPUPortion, b.GPUPortion != "")
	switch {
	case pd.kind != numFinite:
		r.add("binder-disagrees", "binder-disagrees:portion-"+kindWord(pd.kind), "GPU_PORTION=%q is not a finite number%s. %s | %s", b.GPUPortion, src, inp(), verd())
	default:
		p, _ := pd.val.Float64()
		switch {
		case hasF && p == 0:
			r.add("binder-disagrees", "binder-disagrees:portion-zero:gpu-fraction<0.005", "a positive gpu-fraction (%s) is materialised as GPU_PORTION=%q%s. %s | %s", r.fracD, b.GPUPortion, src, inp(), verd())
		case hasF && math.Abs(p-exp) > tol+1e-9, !hasF && (p < exp-1e-9 || p > exp+tol+1e-9 || p <= 0):
			r.add("binder-disagrees", "binder-disagrees:portion", "GPU_PORTION=%q but the request denotes portion %.6f%s. %s | %s", b.GPUPortion, exp, src, inp(), verd())
		}
	}
	if b.NumOfGpus != b.GPUPortion {
		r.add("binder-disagrees", "binder-disagrees:num-of-gpus-key", "RUNAI_NUM_OF_GPUS=%q differs from GPU_PORTION=%q. %s", b.NumOfGpus, b.GPUPortion, inp())
	}
	// devices
	var devs []string
	if b.VisibleDevices != "" {
		devs = strings.Split(b.VisibleDevices, ",")
	}
	if !b.HasVisible || int64(len(devs)) != r.expDev || !sameSet(devs, b.Indexes) {
		r.add("binder-disagrees", "binder-disagrees:device-count", "NVIDIA_VISIBLE_DEVICES=%q (present=%v) but the pod asked for %d device(s) and the reservation pods of its groups hold indexes %v%s. %s | %s", b.VisibleDevices, b.HasVisible, r.expDev, b.Indexes, src, inp(), verd())
	}
	if int64(len(b.GroupLabels)) != r.expDev || !sameSet(b.GroupLabels, b.Groups) {
		r.add("binder-disagrees", "binder-disagrees:gpu-group-labels", "pod carries GPU-group labels %v, selected groups %v, requested devices %d%s. %s | %s", b.GroupLabels, b.Groups, r.expDev, src, inp(), verd())
	}
	if b.NodeName == "" {
		r.add("binder-disagrees", "binder-disagrees:not-bound", "Bind returned nil but spec.nodeName is empty. %s", inp())
	}
	if b.ReceivedType != "Fraction" {
		r.add("binder-disagrees", "binder-disagrees:received-type", "received-resource-type annotation is %q, want Fraction. %s", b.ReceivedType, inp())
	}
	if r.expCont == "" || b.EnvContainer != r.expCont {
		r.add("binder-disagrees", "binder-disagrees:container", "the share must go to container %q but the config map %q is referenced from container %q. %s | %s", r.expCont, b.CMName, b.EnvContainer, inp(), verd())
	}
}

func sameSet(a, b []string) bool {
	if len(a) != len(b) {
		return false
	}
	m := map[string]int{}
	for _, x := range a {
		m[x]++
	}
	for _, x := range b {
		m[x]--
	}
	for _, v := range m {
		if v != 0 {
			return false
		}
	}
	return true
}

func bindErrClass(e string) string {
	for _, kv := range [][2]string{
		{"multi fractional pod", "multi-fraction-parse"},
		{"failed to get fraction container ref", "container-ref"},
		{"no desired configmap name", "no-configmap-annotation"},
		{"failed to reserve GPUs", "reserve"},
		{"capabilities configmap", "capabilities-configmap"},
		{"env configmap", "env-configmap"},
		{"failed to update gpu sharing configmap", "visible-devices"},
		{"GPU_PORTION", "gpu-portion"},
		{"failed to bind pod", "binding"},
		{"panic", "panic"},
	} {
		if strings.Contains(e, kv[0]) {
			return kv[1]
		}
	}
	return "other"
}

func contStr(cs []ContIn) string {
	var sb strings.Builder
	sb.WriteString("[")
	for i, c := range cs {
		if i > 0 {
			sb.WriteString(" ")
		}
		sb.WriteString(c.Name)
		if c.GPUReq != nil {
			fmt.Fprintf(&sb, " req=%d", *c.GPUReq)
		}
		if c.GPULim != nil {
			fmt.Fprintf(&sb, " lim=%d", *c.GPULim)
		}
		if c.PresetEnv {
			sb.WriteString(" presetEnv")
		}
	}
	sb.WriteString("]")
	return sb.String()
}
